package minigo

import (
	"encoding/json"
	"fmt"
	"math/rand"
	"os"
	"path/filepath"
	"sort"
	"strconv"
	"strings"
	"time"

	"verif/core"
	"verif/gjs"
	"verif/tlcx"
)

// Mode is one way of building and running the generated programs.
type Mode struct {
	Name   string
	Flat   bool // trace points may suspend the goroutine (functions are compiled in the resumable form)
	Minify bool
	Masks  int // number of yield masks to run (Flat only); mask 0 = never yield is always included
}

// Config selects what a property compares.
type Config struct {
	Prop      string
	Modes     []Mode
	Random    int  // number of random programs of the version 1 fragment
	Random2   int  // number of random programs drawing from the version 2 forms
	Families  bool // include the exhaustive families
	NodeCheck bool // also require `node --check` to accept the emitted file
}

// Family is a named list of programs.
type Family struct {
	Name  string
	Progs []*Program
}

// Families returns the exhaustive program families; the quick tier takes a
// seeded sample of the larger ones.
func Families(thorough bool, rng *rand.Rand) []Family {
	fs := []Family{
		{"switch-family", SwitchFamily()},
		{"loop-family", LoopFamily()},
		{"cond-family", CondFamily()},
		{"order-family", OrderFamily()},
	}
	fs = append(fs, Families2(thorough, rng)...)
	return fs
}

const ni = 4

type pred struct {
	P     int     `json:"p"`
	IV    []int   `json:"iv"`
	Obs   [][]any `json:"obs"`
	Used  int     `json:"used"`
	OK    bool    `json:"ok"`
	Indep bool    `json:"indep"`
}

type caseT struct {
	iv   []int
	want []string
}

type progT struct {
	p     *Program
	js    string
	cases []caseT
}

func obsLines(obs [][]any) []string {
	var ls []string
	for _, t := range obs {
		var parts []string
		for _, x := range t {
			switch v := x.(type) {
			case string:
				parts = append(parts, v)
			case float64:
				parts = append(parts, strconv.Itoa(int(v)))
			default:
				parts = append(parts, fmt.Sprint(v))
			}
		}
		ls = append(ls, strings.Join(parts, " "))
	}
	return ls
}

const helpers = `package main

var inp []bool
var ip int
var mask uint32

func in() bool {
	if ip < len(inp) {
		b := inp[ip]
		ip++
		return b
	}
	ip++
	return false
}

func tr(k, v int) int {
	yield(k)
	println("t", k, v)
	return v
}

func trb(k int, b bool) bool {
	yield(k)
	if b {
		println("b", k, 1)
	} else {
		println("b", k, 0)
	}
	return b
}

// contents of composite values, one line per element
func dumpS(k int, s []int) {
	println("d", k, len(s))
	for i := 0; i < len(s); i++ {
		println("d", k, i, s[i])
	}
}

func dumpA(k int, a [3]int) {
	println("d", k, 3)
	for i := 0; i < 3; i++ {
		println("d", k, i, a[i])
	}
}

func dumpStr(k int, s string) {
	println("d", k, len(s))
	for i := 0; i < len(s); i++ {
		println("d", k, i, s[i])
	}
}

// maps are printed in ascending key order
func dumpM(k int, m map[int]int) {
	println("d", k, len(m))
	last := -(1 << 30)
	for n := 0; n < len(m); n++ {
		best := 1 << 30
		for key := range m {
			if key > last && key < best {
				best = key
			}
		}
		println("d", k, best, m[best])
		last = best
	}
}

func contains(s, sub string) bool {
	for i := 0; i+len(sub) <= len(s); i++ {
		if s[i:i+len(sub)] == sub {
			return true
		}
	}
	return false
}

// class of a run-time panic message (the wording differs between the tool chains)
func panicClass(msg string) string {
	switch {
	case contains(msg, "index out of range"):
		return "index"
	case contains(msg, "slice bounds out of range"):
		return "bounds"
	case contains(msg, "nil map"):
		return "nilmap"
	case contains(msg, "nil pointer dereference"):
		return "nilptr"
	case contains(msg, "makeslice"):
		return "makeslice"
	}
	return "other"
}
`

const runner = `
// run executes one program on the current input and prints how it ended
func run(f func() int) {
	defer func() {
		if r := recover(); r != nil {
			switch v := r.(type) {
			case int:
				println("panic", "v", v)
			case runtime.Error:
				println("panic", panicClass(v.Error()))
			default:
				println("panic", "other")
			}
		}
	}()
	println("ret", f())
}
`

const yieldFlat = `package main

import "runtime"

// a trace point suspends the goroutine when its bit is set in the mask
func yield(k int) {
	if mask>>(uint(k)%31)&1 == 1 {
		runtime.Gosched()
	}
}
`

const yieldDirect = `package main

func yield(k int) {}
`

const argsJS = `//go:build js

package main

import "github.com/gopherjs/gopherjs/js"

func argN() int { return js.Global.Get("process").Get("argv").Index(2).Int() }
`

const argsNative = `//go:build !js

package main

import "os"

func argN() int {
	n := 0
	for _, c := range os.Args[1] {
		n = n*10 + int(c-'0')
	}
	return n
}
`

func renderBatch(batch []*progT, flat bool) map[string]string {
	var b strings.Builder
	b.WriteString("package main\n\nimport \"runtime\"\n\n")
	for n, pt := range batch {
		b.WriteString(RenderFuncs(pt.p, n))
		b.WriteString(RenderReset(pt.p, n))
	}
	b.WriteString(runner)
	b.WriteString("func main() {\n\tmask = uint32(argN())\n")
	for n, pt := range batch {
		for ci, cs := range pt.cases {
			var bits []string
			for _, x := range cs.iv {
				bits = append(bits, map[int]string{0: "false", 1: "true"}[x])
			}
			fmt.Fprintf(&b, "\tprintln(\"#\", %d, %d)\n\tinp, ip = []bool{%s}, 0\n\tp%d_reset()\n\trun(p%d_f0)\n\truntime.Gosched()\n", n, ci, strings.Join(bits, ", "), n, n)
		}
	}
	b.WriteString("}\n")
	y := yieldDirect
	if flat {
		y = yieldFlat
	}
	return map[string]string{"main.go": b.String(), "helpers.go": helpers, "yield.go": y, "args_js.go": argsJS, "args_native.go": argsNative}
}

// sections splits the output into (program, case) -> lines.
func sections(lines []string) map[[2]int][]string {
	out := map[[2]int][]string{}
	cur := [2]int{-1, -1}
	for _, l := range lines {
		if strings.HasPrefix(l, "# ") {
			f := strings.Fields(l)
			if len(f) == 3 {
				a, _ := strconv.Atoi(f[1])
				b, _ := strconv.Atoi(f[2])
				cur = [2]int{a, b}
				out[cur] = []string{}
				continue
			}
		}
		out[cur] = append(out[cur], l)
	}
	return out
}

func same(a, b []string) bool {
	if len(a) != len(b) {
		return false
	}
	for i := range a {
		if a[i] != b[i] {
			return false
		}
	}
	return true
}

// Check runs the comparison for one property.
func Check(c *core.Ctx, pool *gjs.Pool, cfg Config) {
	rng := rand.New(rand.NewSource(c.Seed))
	var progs []*Program
	for i := 0; i < cfg.Random; i++ {
		progs = append(progs, Random(rng))
	}
	if cfg.Families {
		// (after the random programs of version 1, so that those stay the same per seed)
		for _, f := range Families(c.Thorough(), rng) {
			for _, p := range f.Progs {
				p.Tag = f.Name
			}
			progs = append(progs, f.Progs...)
		}
	}
	for i := 0; i < cfg.Random2; i++ {
		progs = append(progs, Random2(rng))
	}
	if only := os.Getenv("VERIF_MINIGO_ONLY"); only != "" { // development aid: one family
		var keep []*Program
		for _, p := range progs {
			if strings.HasPrefix(p.Tag, only) && strings.Contains(p.Desc, os.Getenv("VERIF_MINIGO_DESC")) {
				keep = append(keep, p)
			}
		}
		progs = keep
	}
	// Go leaves the order between reading a variable and calling a function in the same
	// expression open: a random program of version 1 in which an operand reads x directly
	// and a later operand calls a closure that writes x has no defined outcome
	skipped := 0
	{
		var keep []*Program
		for _, p := range progs {
			if readBeforeWritingCall(p) {
				skipped++
				continue
			}
			keep = append(keep, p)
		}
		progs = keep
	}
	c.Set("programs_skipped_unspecified_read_call_order", skipped)
	var pj []any
	for _, p := range progs {
		p.Normalise()
		pj = append(pj, p.TLA())
	}
	params, _ := json.Marshal(map[string]any{"ni": ni, "fuel": 40, "out": "pred", "progs": pj})
	tlcWorkers := 8
	if c.Workers < 16 { // a restricted run (VERIF_WORKERS): keep TLC small as well
		tlcWorkers = 2
	}
	r, err := tlcx.Run(c, tlcx.Opts{Module: "MiniGoScen", Cfg: "SPECIFICATION Spec\nINVARIANT SemOK Emit\nCHECK_DEADLOCK FALSE\n", Workers: tlcWorkers, Timeout: 30 * time.Minute,
		Files: map[string]string{"c01_params.json": string(params)}, HeapMB: 8192})
	if !tlcx.MustComplete(c, r, err, "MiniGoScen") {
		return
	}
	c.Phase("tlc_predictions")
	// collect predictions
	pts := make([]*progT, len(progs))
	for i, p := range progs {
		b, _ := json.Marshal(p.JSON())
		pts[i] = &progT{p: p, js: string(b)}
	}
	bad := map[int]bool{}
	unspec := map[int]bool{}
	files, _ := filepath.Glob(filepath.Join(r.Dir, "pred.*.ndjson"))
	for _, f := range files {
		seen := map[string]bool{}
		err := tlcx.ReadNDJSON(f, func(raw json.RawMessage) error {
			var inner string
			if err := json.Unmarshal(raw, &inner); err != nil {
				return err
			}
			var pr pred
			if err := json.Unmarshal([]byte(inner), &pr); err != nil {
				return err
			}
			if !pr.OK {
				bad[pr.P-1] = true
				if !pr.Indep {
					unspec[pr.P-1] = true
				}
				return nil
			}
			used := pr.Used
			if used > len(pr.IV) {
				used = len(pr.IV)
			}
			key := fmt.Sprint(pr.IV[:used])
			if seen[key] {
				return nil
			}
			seen[key] = true
			pts[pr.P-1].cases = append(pts[pr.P-1].cases, caseT{iv: pr.IV[:used], want: obsLines(pr.Obs)})
			return nil
		})
		if err != nil {
			c.Infra(fmt.Errorf("reading predictions: %v", err))
			return
		}
	}
	var list []*progT
	ncases := 0
	for i, pt := range pts {
		if bad[i] || len(pt.cases) == 0 {
			continue
		}
		sort.Slice(pt.cases, func(a, b int) bool { return fmt.Sprint(pt.cases[a].iv) < fmt.Sprint(pt.cases[b].iv) })
		list = append(list, pt)
		ncases += len(pt.cases)
		c.Distinct(pt.js)
	}
	perFamily := map[string]int{}
	for _, pt := range list {
		perFamily[pt.p.Tag]++
	}
	c.Set("programs_per_family", perFamily)
	c.Set("programs", len(list))
	c.Set("program_input_pairs", ncases)
	c.Set("programs_discarded_out_of_fuel", len(bad)-len(unspec))
	c.Set("programs_discarded_unspecified_behaviour", len(unspec))
	if os.Getenv("VERIF_VERBOSE") != "" {
		for i := range pts {
			if unspec[i] {
				fmt.Printf("  unspecified behaviour (growth policy / map order): %s %s\n", pts[i].p.Tag, pts[i].p.Desc)
			}
		}
	}
	// masks
	maskList := []uint32{0, 0x7fffffff}
	for len(maskList) < 64 {
		maskList = append(maskList, rng.Uint32()&0x7fffffff)
	}
	const per = 60
	nb := (len(list) + per - 1) / per
	type viol struct {
		pt   *progT
		mode string
		mask uint32
		ci   int
		got  []string
	}
	corrupt := os.Getenv("VERIF_MINIGO_CORRUPT") != ""
	vs := make([][]viol, nb)
	evals := make([]int, nb)
	discards := make([]int, nb)
	c.ParMap(nb, func(bi int) {
		lo, hi := bi*per, (bi+1)*per
		if hi > len(list) {
			hi = len(list)
		}
		batch := list[lo:hi]
		// guard: the reference toolchain, suspension enabled everywhere
		natOK := map[[2]int]bool{}
		{
			prog := gjs.Prog{Files: renderBatch(batch, true)}
			dir, err := prog.Materialise(c.Scratch)
			if err != nil {
				c.Infra(err)
				return
			}
			defer os.RemoveAll(dir)
			bin := filepath.Join(dir, "native.bin")
			if r := gjs.NativeBuild(dir, bin); r.ExitCode != 0 || r.Err != nil {
				c.Infra(fmt.Errorf("reference toolchain rejected a generated program batch: %s", tailStr(r.Out, 1500)))
				return
			}
			nat := gjs.ClassifyNative(gjs.NativeRun(bin, 2*time.Minute, nil, strconv.Itoa(0x7fffffff)))
			sec := sections(nat.Lines)
			for n, pt := range batch {
				for ci, cs := range pt.cases {
					if same(sec[[2]int{n, ci}], cs.want) {
						natOK[[2]int{n, ci}] = true
					} else {
						discards[bi]++
						if os.Getenv("VERIF_VERBOSE") != "" {
							fmt.Printf("  spec guard discard: %s %s input %v: native %v, spec %v\n    %s\n", pt.p.Tag, pt.p.Desc, cs.iv, clip(sec[[2]int{n, ci}]), clip(cs.want), pt.js)
						}
					}
				}
			}
		}
		for _, m := range cfg.Modes {
			prog := gjs.Prog{Files: renderBatch(batch, m.Flat)}
			dir, err := prog.Materialise(c.Scratch)
			if err != nil {
				c.Infra(err)
				return
			}
			out := filepath.Join(dir, "out.js")
			err = pool.Build(dir, out, gjs.Opts{Minify: m.Minify})
			if be, _ := err.(*gjs.BuildError); be != nil && strings.Contains(be.Error(), "compiler process died") {
				// a killed worker is not a verdict; a genuine crash of the compiler happens again
				err = pool.Build(dir, out, gjs.Opts{Minify: m.Minify})
			}
			if err != nil {
				be, _ := err.(*gjs.BuildError)
				if be != nil {
					keys := []string{"compiler_rejects_valid_program"}
					if be.Panic {
						keys = []string{"compiler_panic"}
					}
					c.Report(core.Case{Keys: keys, Summary: fmt.Sprintf("mode %s: the compiler failed on a program batch the reference toolchain accepts: %s", m.Name, tailStr(be.Error(), 600)), Files: prog.ReplayFiles("prog")})
				} else {
					c.Infra(err)
				}
				os.RemoveAll(dir)
				continue
			}
			if cfg.NodeCheck {
				r := gjs.NodeCheck(out)
				for try := 0; try < 3 && (r.TimedOut || r.Err != nil); try++ {
					r = gjs.NodeCheck(out) // the syntax check did not run to completion (overloaded machine)
				}
				if r.TimedOut || r.Err != nil {
					c.Infra(fmt.Errorf("node --check did not complete (timeout=%v err=%v)", r.TimedOut, r.Err))
					os.RemoveAll(dir)
					return
				}
				if r.ExitCode != 0 {
					c.Report(core.Case{Keys: []string{"emitted_js_syntax_error"}, Summary: fmt.Sprintf("mode %s: node --check rejects the emitted file: %s", m.Name, tailStr(r.Out, 600)), Files: prog.ReplayFiles("prog")})
					os.RemoveAll(dir)
					continue
				}
			}
			masks := []uint32{0}
			if m.Flat {
				masks = maskList[:1+m.Masks]
			}
			jobs := make([]gjs.Job, len(masks))
			for i, mk := range masks {
				jobs[i] = gjs.Job{Args: []string{strconv.Itoa(int(mk))}, MaxSteps: 2000000}
			}
			// (one job per Node process: the runner has one wall-clock budget per call)
			var obs []gjs.Obs
			for lo := 0; lo < len(jobs) && err == nil; lo++ {
				var part []gjs.Obs
				part, err = gjs.NodeMulti(out, jobs[lo:lo+1], 20*time.Minute)
				obs = append(obs, part...)
			}
			if err != nil {
				c.Infra(err)
				os.RemoveAll(dir)
				return
			}
			// a wall-clock timeout of the runner on an overloaded machine is not an
			// observation: run that job again on its own (a genuine endless loop
			// times out again and is reported)
			for i := range obs {
				if obs[i].End == "timeout" {
					if again, err := gjs.NodeMulti(out, jobs[i:i+1], 10*time.Minute); err == nil && len(again) == 1 {
						obs[i] = again[0]
					}
				}
			}
			for i, o := range obs {
				sec := sections(o.Lines)
				for n, pt := range batch {
					for ci, cs := range pt.cases {
						if !natOK[[2]int{n, ci}] {
							continue
						}
						evals[bi]++
						got := sec[[2]int{n, ci}]
						if corrupt && bi == 0 && n == 0 && ci == 0 {
							// development aid: the comparison must notice a wrong prediction
							got = append(append([]string{}, got...), "corrupted")
						}
						if !same(got, cs.want) {
							vs[bi] = append(vs[bi], viol{pt, m.Name, masks[i], ci, append(got, "end="+o.End+" "+o.Msg)})
						}
					}
				}
			}
			os.RemoveAll(dir)
		}
	})
	if c.InfraErr != nil {
		return
	}
	ne, nd := 0, 0
	for i := range evals {
		ne += evals[i]
		nd += discards[i]
	}
	c.Set("evaluations", ne)
	c.Set("traces_validated_against_impl", ne)
	c.Set("spec_guard_discards", nd)
	c.Set("rule", "programs of MiniGo (spec/MiniGo.tla, versions 1 and 2): exhaustive families (switch, loop/jump, short-circuit, operand order; range loops, assignment order, slice aliasing, defer, method values, goto, run-time panics; the quick tier samples the slice aliasing chains of length 3) plus VERIF_SEED random programs of both versions; TLC evaluates MiniGo.tla on every (program, consumed input vector of at most 4 bits) pair, exploring the inputs on demand; programs whose outcome depends on append's growth policy, on map iteration order or that run out of fuel are discarded by the specification; an evaluation = one (program, input vector, build mode, yield mask) execution compared with the prediction; distinct_nontrivial = distinct programs")
	c.Set("checker_cmd", "tlc MiniGoScen (INVARIANT SemOK Emit)")
	var modes []string
	for _, m := range cfg.Modes {
		modes = append(modes, m.Name)
	}
	c.Set("modes", modes)
	reported := map[string]bool{}
	for _, bv := range vs {
		for _, v := range bv {
			keys := Classify(v.pt.p, v.mode, v.mask, v.pt.cases[v.ci].want)
			// one report per program, build mode and classification
			if id := v.pt.js + v.mode + strings.Join(keys, ","); reported[id] {
				continue
			} else {
				reported[id] = true
			}
			one := &progT{p: v.pt.p, js: v.pt.js, cases: []caseT{v.pt.cases[v.ci]}}
			files := map[string]string{"program.json": v.pt.js + "\n", "input.json": fmt.Sprint(v.pt.cases[v.ci].iv) + "\n",
				"predicted.txt": strings.Join(v.pt.cases[v.ci].want, "\n") + "\n", "observed.txt": strings.Join(v.got, "\n") + "\n",
				"mode.txt": fmt.Sprintf("%s mask=%d\n", v.mode, v.mask), "family.txt": v.pt.p.Tag + " " + v.pt.p.Desc + "\n"}
			flat := false
			for _, m := range cfg.Modes {
				if m.Name == v.mode {
					flat = m.Flat
				}
			}
			for n, content := range renderBatch([]*progT{one}, flat) {
				files["prog/"+n] = content
			}
			c.Report(core.Case{Keys: keys, Summary: fmt.Sprintf("mode %s (yield mask %d), %s program %s, input %v: compiled program printed %v, MiniGo.tla (and native Go) predict %v", v.mode, v.mask, v.pt.p.Tag, v.pt.p.Desc, v.pt.cases[v.ci].iv, clip(v.got), clip(v.pt.cases[v.ci].want)), Files: files})
		}
	}
	for i, pt := range list {
		if i%(len(list)/3+1) == 0 {
			c.Sample(map[string]any{"program": json.RawMessage(pt.js), "inputs": len(pt.cases), "predicted_first": pt.cases[0].want})
		}
	}
}

func clip(s []string) []string {
	if len(s) > 14 {
		return append(append([]string{}, s[:14]...), "...")
	}
	return s
}

func tailStr(s string, n int) string {
	if len(s) > n {
		return s[len(s)-n:]
	}
	return s
}

// hasKind reports whether the expression tree contains a node of one of the kinds.
func hasKind(e []any, kinds ...string) bool {
	if len(e) == 0 {
		return false
	}
	if k, ok := e[0].(string); ok {
		for _, x := range kinds {
			if k == x {
				return true
			}
		}
	}
	for _, x := range e {
		if sub, ok := x.([]any); ok && hasKind(sub, kinds...) {
			return true
		}
	}
	return false
}

// callInfo classifies the calls of a program for one build mode: which functions
// can suspend (the compiler emits calls to them as separate resumable statements)
// and which cannot.
type callInfo struct {
	resumable bool
	blocking  map[string]bool // helper name -> may suspend
}

func newCallInfo(p *Program, resumable bool) *callInfo {
	ci := &callInfo{resumable: resumable, blocking: map[string]bool{}}
	for changed := true; changed; {
		changed = false
		for _, f := range p.Funcs {
			if !ci.blocking[f.Name] && ci.blockingExpr(nodes(f.Body)) {
				ci.blocking[f.Name] = true
				changed = true
			}
		}
	}
	return ci
}

// blockingExpr: the tree contains a call that may suspend.
func (ci *callInfo) blockingExpr(e []any) bool {
	if len(e) == 0 {
		return false
	}
	if k, ok := e[0].(string); ok {
		switch k {
		case "callv", "callf":
			// a call of a function value is always compiled as possibly suspending
			return true
		case "tr", "trb":
			if ci.resumable {
				return true
			}
		case "call", "callsp":
			if ci.blocking[e[1].(string)] {
				return true
			}
		case "mcall":
			if ci.blocking[e[2].(string)] {
				return true
			}
		}
	}
	for _, x := range e {
		if sub, ok := x.([]any); ok && ci.blockingExpr(sub) {
			return true
		}
	}
	return false
}

// directCall: the tree contains a call that cannot suspend.
func (ci *callInfo) directCall(e []any) bool {
	if len(e) == 0 {
		return false
	}
	if k, ok := e[0].(string); ok {
		switch k {
		case "tr", "trb":
			if !ci.resumable {
				return true
			}
		case "call", "callsp":
			if !ci.blocking[e[1].(string)] {
				return true
			}
		case "mcall":
			if !ci.blocking[e[2].(string)] {
				return true
			}
		}
	}
	for _, x := range e {
		if sub, ok := x.([]any); ok && ci.directCall(sub) {
			return true
		}
	}
	return false
}

// mixedOrder: somewhere an operand evaluated EARLIER contains a call that cannot
// suspend and a LATER operand of the same expression contains one that can.
func (ci *callInfo) mixedOrder(e []any) bool {
	if len(e) == 0 {
		return false
	}
	k, _ := e[0].(string)
	var operands [][]any
	switch k {
	case "add", "sub", "mul", "lt", "eq":
		// operands of binary operators only: argument lists are evaluated in order
		// by the compiler (translateArgs preserves the order when a later argument
		// can suspend), so they are not part of the finding
		operands = [][]any{e[1].([]any), e[2].([]any)}
	case "append":
		// the operands of the built-in append are not kept in order either
		operands = [][]any{e[1].([]any)}
		for _, x := range e[2].([]any) {
			operands = append(operands, x.([]any))
		}
	}
	for i := 0; i < len(operands); i++ {
		for j := i + 1; j < len(operands); j++ {
			if ci.directCall(operands[i]) && ci.blockingExpr(operands[j]) {
				return true
			}
		}
	}
	for _, x := range e {
		if sub, ok := x.([]any); ok && ci.mixedOrder(sub) {
			return true
		}
	}
	return false
}

// bareReads collects the variables an expression reads outside the arguments of a call.
func bareReads(e []any, into map[string]bool) {
	if len(e) == 0 {
		return
	}
	if k, ok := e[0].(string); ok {
		switch k {
		case "var":
			into[e[1].(string)] = true
			return
		case "tr", "trb", "call", "callsp", "callv", "callf", "mcall":
			return // evaluated before that call, which is ordered with the other calls
		}
	}
	for _, x := range e {
		if sub, ok := x.([]any); ok {
			bareReads(sub, into)
		}
	}
}

// readBeforeWritingCall: an operand list (binary operator, call arguments) in which an
// earlier operand reads a variable directly and a later operand calls a closure
// (closure statement of version 1) that assigns it.
func readBeforeWritingCall(p *Program) bool {
	writes := map[string]map[string]bool{} // closure variable -> variables it assigns
	for _, f := range p.Funcs {
		walk(nodes(f.Body), func(n []any) {
			if n[0] == "closure" {
				w := map[string]bool{}
				walk(n[2].([]any), func(m []any) {
					switch m[0] {
					case "assign", "addto", "inc":
						w[m[1].(string)] = true
					}
				})
				writes[n[1].(string)] = w
			}
		})
	}
	if len(writes) == 0 {
		return false
	}
	found := false
	for _, f := range p.Funcs {
		walk(nodes(f.Body), func(n []any) {
			var ops []any
			switch n[0] {
			case "add", "sub", "mul", "lt", "eq":
				ops = []any{n[1], n[2]}
			case "call":
				ops = n[2].([]any)
			}
			for i := 0; i < len(ops) && !found; i++ {
				reads := map[string]bool{}
				bareReads(ops[i].([]any), reads)
				for j := i + 1; j < len(ops); j++ {
					walk(ops[j].([]any), func(m []any) {
						if m[0] == "callv" {
							for x := range writes[m[1].(string)] {
								if reads[x] {
									found = true
								}
							}
						}
					})
				}
			}
		})
	}
	return found
}

// walk calls f on every node (a tuple whose first element is its kind) of the tree.
func walk(e []any, f func(n []any)) {
	if len(e) == 0 {
		return
	}
	if _, ok := e[0].(string); ok {
		f(e)
	}
	for _, x := range e {
		if sub, ok := x.([]any); ok {
			walk(sub, f)
		}
	}
}

var callKinds = []string{"tr", "trb", "call", "callsp", "callv", "callf", "mcall"}

func plainTarget(l []any) bool { return l[0] == "var" || l[0] == "blank" }

// tupleLate: a tuple assignment (or an assignment from a call with several results) in
// which a target with operands (index expression, pointer indirection, field through a
// pointer) either reads a variable that an EARLIER target of the same statement assigns,
// or contains a call while the right-hand side contains one too.  The compiler evaluates
// the operands of such a target when it is assigned (after the right-hand sides and the
// earlier assignments) instead of first.
func tupleLate(n []any, addrTaken map[string]bool) bool {
	lvs := n[1].([]any)
	rhsCall := n[0] == "assignN" || hasKind(n[2].([]any), callKinds...)
	for t, x := range lvs {
		l := x.([]any)
		if plainTarget(l) {
			continue
		}
		if rhsCall && hasKind(l, callKinds...) {
			return true
		}
		reads := map[string]bool{}
		walk(l, func(m []any) {
			if m[0] == "var" {
				reads[m[1].(string)] = true
			}
		})
		for u := 0; u < t; u++ {
			e := lvs[u].([]any)
			if e[0] == "var" && reads[e[1].(string)] {
				return true
			}
			if e[0] == "deref" {
				// the earlier target *q may be one of the variables read here
				for x := range reads {
					if addrTaken[x] {
						return true
					}
				}
			}
		}
	}
	return false
}

// rhsFirst: a single assignment to an element / field / indirection (not a map entry)
// whose left-hand operands contain a call and whose right-hand side contains a call
// that may suspend: the compiler hoists the right-hand call in front of the statement.
func (ci *callInfo) rhsFirst(n []any) bool {
	l := n[1].([]any)
	if plainTarget(l) || (l[0] == "idx" && l[1] == "map") {
		return false
	}
	return hasKind(l, callKinds...) && ci.blockingExpr(n[2].([]any))
}

// rteEarly: a single assignment to a slice / array element or a map entry whose
// right-hand side contains a call that cannot suspend, in a program that must end in an
// index or nil-map panic: the compiler raises the panic before it evaluates the right-hand side.
func (ci *callInfo) rteEarly(n []any, want []string) bool {
	l := n[1].([]any)
	if l[0] != "idx" || len(want) == 0 || !ci.directCall(n[2].([]any)) {
		return false
	}
	last := want[len(want)-1]
	return last == "panic index" || last == "panic nilmap"
}

// deferRecvLate: defer recv().m(args) with a call in the receiver expression and a call
// that may suspend among the arguments: the arguments are evaluated first.
func (ci *callInfo) deferRecvLate(n []any) bool {
	ce := n[1].([]any)
	return ce[0] == "mcall" && hasKind(ce[1].([]any), callKinds...) && ci.blockingExpr(ce[3].([]any))
}

// deferMaySuspend: the deferred call can reach a trace point.
func (ci *callInfo) deferMaySuspend(n []any) bool {
	ce := n[1].([]any)
	switch ce[0] {
	case "call", "callsp":
		return ci.blocking[ce[1].(string)]
	case "mcall":
		return ci.blocking[ce[2].(string)]
	case "callf":
		if f := ce[1].([]any); f[0] == "funclit" {
			return ci.blocking[f[1].(string)]
		}
		return ci.resumable
	case "callv":
		return ci.resumable
	}
	return false
}

// Classify returns known-finding keys for a failing program in a build mode under a
// yield mask; want is the predicted observation.
func Classify(p *Program, mode string, mask uint32, want []string) []string {
	ci := newCallInfo(p, strings.Contains(mode, "resumable"))
	var keys []string
	add := func(k string) {
		for _, x := range keys {
			if x == k {
				return
			}
		}
		keys = append(keys, k)
	}
	addrTaken := map[string]bool{}
	for _, f := range p.Funcs {
		walk(nodes(f.Body), func(n []any) {
			if n[0] == "addr" {
				addrTaken[n[1].([]any)[1].(string)] = true
			}
		})
	}
	panics := len(want) > 0 && strings.HasPrefix(want[len(want)-1], "panic")
	for _, f := range p.Funcs {
		walk(nodes(f.Body), func(n []any) {
			switch n[0] {
			case "massign", "assignN":
				if tupleLate(n, addrTaken) {
					add("tuple_assign_lhs_operands_evaluated_late")
				}
			case "set":
				if ci.rhsFirst(n) {
					add("assign_rhs_calls_before_lhs_operand_calls")
				}
				if ci.rteEarly(n, want) {
					add("rte_raised_before_rhs_evaluated")
				}
			case "defer":
				if ci.deferRecvLate(n) {
					add("deferred_method_receiver_evaluated_after_args")
				}
				if panics && ci.resumable && mask != 0 && ci.deferMaySuspend(n) {
					add("suspension_in_deferred_call_during_panic")
				}
			}
		})
	}
	for _, f := range p.Funcs {
		if ci.mixedOrder(nodes(f.Body)) {
			add("direct_call_reordered_after_later_suspending_call")
		}
	}
	return keys
}
