package minigo

import (
	"fmt"
	"math/rand"
)

// gen2 generates random programs over the version 2 forms.  Discipline (Go leaves the
// order between a variable read and a function call of the same statement open): the
// variables written by calls -- the package-level gi, gs, gm (helper hmut), the local xc
// (closure c0), the fields of t and *p (method inc) -- are never read in a statement that
// contains such a call; trace points, hget, sum, fact and two only print.
type gen2 struct {
	r      *rand.Rand
	st     sites
	budget int
	ints   []string // int locals of the function being generated
	loops  int
	nrange int
	ngoto  int
	p      *Program
}

func (g *gen2) n(k int) int { return g.r.Intn(k) }

func (g *gen2) intVar() string { return g.ints[g.n(len(g.ints))] }

// small index expression without calls
func (g *gen2) index() N {
	switch g.n(4) {
	case 0:
		return vr(g.intVar())
	default:
		return lit(g.n(3))
	}
}

// expr generates an int expression. eff: calls with side effects on variables are allowed
// (then the variables they write are not read); otherwise those variables may be read.
func (g *gen2) expr(d int, eff bool) N {
	g.budget--
	if d <= 0 || g.budget <= 0 {
		if g.n(2) == 0 {
			return lit(g.n(5))
		}
		return vr(g.intVar())
	}
	switch g.n(21) {
	case 0, 1:
		return tr(g.st.next(), g.expr(d-1, eff))
	case 2:
		return add(g.expr(d-1, eff), g.expr(d-1, eff))
	case 3:
		return sub(g.expr(d-1, eff), g.expr(d-1, eff))
	case 4:
		return mul(g.expr(0, eff), lit(g.n(3)))
	case 5:
		return call("hget", g.expr(d-1, eff))
	case 6:
		if eff {
			return call("hmut", g.expr(d-1, eff))
		}
		return vr("gi")
	case 7:
		if eff {
			return callf(vr("cf"))
		}
		return vr("xc")
	case 8:
		return idx("sl", vr("s"), g.index())
	case 9:
		return idx("arr", vr("a"), g.index())
	case 10:
		return idx("map", vr("m"), g.expr(d-1, eff))
	case 11:
		return idx("str", vr("str"), lit(g.n(3)))
	case 12:
		i := g.n(3)
		return ln([]string{"sl", "map", "str"}[i], vr([]string{"s", "m", "str"}[i]))
	case 13:
		if !eff {
			return fld(vr("t"), 1+g.n(2))
		}
		return ln("sl", vr("s"))
	case 14:
		if !eff {
			return pfld(vr("p"), 1+g.n(2))
		}
		return lit(g.n(4))
	case 15:
		if !eff {
			if g.n(2) == 0 {
				return mcall(vr("t"), "sum")
			}
			return mcall(deref(vr("p")), "sum")
		}
		return mcall(addr("t"), "inc", g.expr(d-1, eff))
	case 16:
		return call("fact", lit(g.n(4)))
	case 17:
		switch g.n(3) {
		case 0:
			return call("vsum", g.expr(d-1, eff))
		case 1:
			return call("vsum", g.expr(d-1, eff), g.expr(d-1, eff), g.expr(0, eff))
		default:
			return callsp("vsum", lit(1), vr("s"))
		}
	case 18:
		if !eff {
			switch g.n(3) {
			case 0:
				return ln("sl", vr("gs"))
			case 1:
				return idx("map", vr("gm"), lit(g.n(3)))
			default:
				return idx("sl", vr("gs"), lit(0))
			}
		}
		return callf(vr("f"))
	case 19:
		return deref(vr("q"))
	default:
		return g.expr(0, eff)
	}
}

func (g *gen2) cond(d int) N {
	g.budget--
	switch g.n(8) {
	case 0:
		return in()
	case 1:
		return and(g.cond(d-1), in())
	case 2:
		return or(in(), g.cond(d-1))
	case 3:
		return trb(g.st.next(), lt(g.expr(1, false), g.expr(1, false)))
	case 4:
		return not(eq(g.expr(1, false), lit(g.n(3))))
	case 5:
		return bvar("ok")
	case 6:
		return lt(g.index(), ln("sl", vr("s")))
	default:
		return lt(g.expr(1, false), g.expr(1, false))
	}
}

// lvalue generates an assignable operand whose own operands contain no calls.
func (g *gen2) lvalue() N {
	switch g.n(9) {
	case 0, 1:
		return vr(g.intVar())
	case 2:
		return idx("sl", vr("s"), g.index())
	case 3:
		return idx("arr", vr("a"), g.index())
	case 4:
		return idx("map", vr("m"), g.index())
	case 5:
		return fld(vr("t"), 1+g.n(2))
	case 6:
		return pfld(vr("p"), 1+g.n(2))
	case 7:
		return deref(vr("q"))
	default:
		return idx("pa", vr("pa"), g.index())
	}
}

func (g *gen2) stmts(n, d int) []N {
	var out []N
	for i := 0; i < n && g.budget > 0; i++ {
		out = append(out, g.stmt(d)...)
	}
	return out
}

func (g *gen2) stmt(d int) []N {
	g.budget--
	c := g.n(34)
	if d <= 0 && c >= 24 {
		c = g.n(24)
	}
	switch c {
	case 0, 1:
		return []N{emit(g.st.next(), g.expr(2, g.n(2) == 0))}
	case 2:
		return []N{assign(g.intVar(), g.expr(2, g.n(2) == 0))}
	case 3:
		return []N{set(g.lvalue(), g.expr(2, false))}
	case 4:
		// tuple assignment; an index may read a variable assigned by the same statement
		n := 2 + g.n(2)
		var ls, rs []N
		used := map[string]bool{}
		for len(ls) < n {
			l := g.lvalue()
			key := fmt.Sprint(l)
			if used[key] {
				continue
			}
			used[key] = true
			ls = append(ls, l)
			if g.n(3) == 0 {
				rs = append(rs, tr(g.st.next(), g.expr(1, false)))
			} else {
				rs = append(rs, g.expr(1, false))
			}
		}
		return []N{massign(ls, rs)}
	case 5:
		return []N{assignN([]N{g.lvalue(), vr(g.intVar())}, call("two", g.expr(1, false)))}
	case 6:
		// op-assignment: a right-hand side with calls only where the target cannot panic
		if g.n(2) == 0 {
			return []N{opset([]string{"add", "sub", "mul"}[g.n(3)], g.lvalue(), lit(1+g.n(3)))}
		}
		return []N{opset("add", []N{vr(g.intVar()), fld(vr("t"), 1+g.n(2))}[g.n(2)], tr(g.st.next(), g.expr(1, false)))}
	case 7:
		return []N{incdec(g.lvalue(), 1-2*g.n(2))}
	case 8:
		switch g.n(5) {
		case 0:
			return []N{set(vr("s"), appendE(vr("s"), g.expr(1, false)))}
		case 1:
			return []N{set(vr("s"), appendE(vr("s"), g.expr(1, false), tr(g.st.next(), g.expr(0, false))))}
		case 2:
			return []N{set(vr("s2"), slice("sl", vr("s"), lit(g.n(2)), lit(1+g.n(3)), nil))}
		case 3:
			return []N{set(vr("s2"), appendE(vr("s2"), g.expr(1, false)))}
		default:
			return []N{set(vr("s"), sllit(g.expr(1, false), g.expr(1, false), g.expr(0, false)))}
		}
	case 9:
		switch g.n(5) {
		case 0:
			return []N{set(idx("sl", vr("s2"), lit(0)), g.expr(1, false))}
		case 1:
			return []N{set(vr("a2"), vr("a")), set(idx("arr", vr("a2"), g.index()), g.expr(1, false))}
		case 2:
			return []N{set(vr("t2"), vr("t")), set(fld(vr("t2"), 1), g.expr(1, false)), set(deref(vr("p")), vr("t2"))}
		case 3:
			return []N{emit(g.st.next(), copyE(vr("s"), sllit(g.expr(0, false), g.expr(0, false))))}
		default:
			return []N{set(vr("s2"), slice("arrv", vr("a"), lit(g.n(2)), nil, nil))}
		}
	case 10:
		return []N{exprS(call("hmut", g.expr(1, true)))}
	case 11:
		return []N{commaok(vr(g.intVar()), "ok", vr("m"), g.index())}
	case 12:
		return []N{del(vr("m"), g.index())}
	case 13:
		return []N{deferEmit(g.st.next(), g.expr(1, false))}
	case 14:
		switch g.n(4) {
		case 0:
			return []N{deferS(call("hget", tr(g.st.next(), g.expr(1, false))))}
		case 1:
			return []N{deferS(call("hmut", g.expr(1, false)))}
		case 2:
			return []N{deferS(callf(vr("cf")))}
		default:
			return []N{deferS(mcall(vr("t"), "sum"))}
		}
	case 15:
		if g.n(2) == 0 {
			return []N{set(vr("f"), mval(vr("t"), "sum"))}
		}
		return []N{set(vr("f"), mval(deref(vr("p")), "sum"))}
	case 16:
		return []N{exprS(mcall([]N{addr("t"), vr("p")}[g.n(2)], "inc", g.expr(1, false)))}
	case 17:
		return []N{set(vr("str"), concat(vr("str"), strlit([]string{"x", "yz", ""}[g.n(3)])))}
	case 18:
		if g.n(4) == 0 {
			return []N{ifS(in(), []N{panicS(g.expr(1, false))}, nil)}
		}
		return []N{exprS(tr(g.st.next(), g.expr(1, true)))}
	case 19:
		return []N{set(vr("q"), addr(g.intVar()))}
	case 20:
		if g.loops > 0 {
			return []N{[]N{brk(""), contS("")}[g.n(2)]}
		}
		return []N{inc(g.intVar())}
	case 21:
		return []N{dump(g.st.next(), "sl", vr([]string{"s", "s2", "gs"}[g.n(3)]))}
	case 22:
		return []N{set(vr("gs"), sllit(g.expr(0, false), g.expr(0, false), lit(3)))}
	case 23:
		if g.n(8) == 0 {
			return []N{ret(g.expr(1, false))}
		}
		return []N{emit(g.st.next(), g.expr(1, true))}
	case 24, 25:
		var els []N
		if g.n(2) == 0 {
			els = g.stmts(1+g.n(2), d-1)
		}
		return []N{ifS(g.cond(2), g.stmts(1+g.n(2), d-1), els)}
	case 26:
		// counted loop
		iv := g.intVar()
		g.loops++
		body := g.stmts(1+g.n(3), d-1)
		g.loops--
		body = stripAssign2(body, iv)
		return []N{forS("", []N{assign(iv, lit(0))}, lt(vr(iv), lit(1+g.n(3))), []N{inc(iv)}, body)}
	case 27, 28, 29, 30:
		return []N{g.rangeStmt(d)}
	case 31:
		if g.loops > 0 {
			return []N{exprS(call("hmut", g.expr(1, true)))}
		}
		// backward goto with its own counter
		g.ngoto++
		l := fmt.Sprintf("G%d", g.ngoto)
		cnt := fmt.Sprintf("gc%d", g.ngoto)
		g.p.Funcs[0].Locals = append(g.p.Funcs[0].Locals, cnt)
		g.p.Funcs[0].LT = append(g.p.Funcs[0].LT, "int")
		body := noJumps2(g.stmts(1+g.n(2), d-1))
		return append(append([]N{label(l)}, body...), inc(cnt), ifS(lt(vr(cnt), lit(1+g.n(3))), []N{gotoS(l)}, nil))
	case 32:
		cls := []any{[]any{false, []any{[]any(lit(0)), []any(tr(g.st.next(), lit(1)))}, nodes(g.stmts(1, d-1)), false},
			[]any{true, []any{}, nodes(g.stmts(1, d-1)), false}}
		return []N{{"switch", true, []any(g.expr(1, false)), cls, ""}}
	default:
		return []N{set(vr("gm"), maplit(lit(0), g.expr(0, false), lit(1), g.expr(0, false)))}
	}
}

// stripAssign2 drops the statements that assign (or take the address of) variable v.
func stripAssign2(ss []N, v string) []N {
	isV := func(l any) bool {
		x, ok := l.([]any)
		return ok && len(x) == 2 && x[0] == "var" && x[1] == v
	}
	var out []N
	for _, s := range ss {
		drop := false
		walk([]any(s), func(n []any) {
			switch n[0] {
			case "assign", "addto", "inc":
				drop = drop || n[1] == v
			case "addr":
				drop = drop || isV(n[1])
			case "set", "incdec", "commaok":
				drop = drop || isV(n[1])
			case "opset":
				drop = drop || isV(n[2])
			case "massign", "assignN":
				for _, l := range n[1].([]any) {
					drop = drop || isV(l)
				}
			}
		})
		if !drop {
			out = append(out, s)
		}
	}
	return out
}

func noJumps2(ss []N) []N {
	var out []N
	for _, s := range ss {
		bad := false
		walk([]any(s), func(n []any) {
			if n[0] == "return" || n[0] == "goto" || n[0] == "label" {
				bad = true
			}
		})
		if !bad {
			out = append(out, s)
		}
	}
	return out
}

// rangeStmt: a range loop over one of the containers; the body may change the ranged
// variable (directly or, for gs / gm, through hmut).
func (g *gen2) rangeStmt(d int) N {
	g.nrange++
	k, v := fmt.Sprintf("k%d", g.nrange), fmt.Sprintf("v%d", g.nrange)
	form := g.n(4) // both, key, value, none
	kn, vn := k, v
	if form == 1 || form == 3 {
		vn = ""
	}
	if form == 2 || form == 3 {
		kn = ""
	}
	type src struct {
		kind string
		x    N
		v    N // the variable behind the operand
	}
	srcs := []src{{"sl", vr("s"), vr("s")}, {"sl", vr("gs"), vr("gs")}, {"arr", vr("a"), nil}, {"pa", addr("a"), nil}, {"pa", vr("pa"), nil}, {"str", vr("str"), nil},
		{"map", vr("m"), vr("m")}, {"map", vr("gm"), vr("gm")},
		{"sl", slice("sl", vr("s"), tr(g.st.next(), lit(0)), nil, nil), vr("s")}, {"sl", sllit(lit(4), tr(g.st.next(), lit(5))), vr("s")}}
	s := srcs[g.n(len(srcs))]
	var body []N
	if s.kind == "map" {
		// only order-independent observations inside a map loop
		if kn != "" {
			body = append(body, addto("acc", vr(kn)))
		}
		if vn != "" {
			body = append(body, addto("acc", mul(vr(vn), lit(3))))
		}
		body = append(body, exprS(tr(g.st.next(), lit(g.n(3)))))
		switch g.n(4) {
		case 0:
			if kn != "" {
				body = append(body, del(s.v, vr(kn)))
			}
		case 1:
			body = append(body, set(s.v, maplit(lit(7), lit(8))))
		case 2:
			if kn != "" {
				body = append(body, opset("add", idx("map", s.v, vr(kn)), lit(1)))
			}
		}
	} else {
		if kn != "" {
			g.ints = append(g.ints, kn)
		}
		if vn != "" && s.kind != "str" {
			g.ints = append(g.ints, vn)
		}
		n0 := len(g.ints)
		g.loops++
		body = g.stmts(1+g.n(3), d-1)
		g.loops--
		// the loop variables go out of scope
		var keep []string
		for i, x := range g.ints {
			if i < n0 && x != kn && x != vn {
				keep = append(keep, x)
			}
		}
		g.ints = keep
		if vn != "" && s.kind == "str" {
			body = append([]N{emit(g.st.next(), vr(vn))}, body...)
		}
		switch g.n(6) {
		case 0:
			body = append(body, exprS(call("hmut", lit(g.n(4)))))
		case 1:
			if s.kind == "sl" {
				body = append(body, set(s.v, appendE(s.v, lit(9))))
			}
		case 2:
			if s.kind == "sl" {
				body = append(body, set(idx("sl", s.v, lit(2)), lit(77)))
			} else if s.kind != "str" {
				body = append(body, set(idx("arr", vr("a"), lit(2)), lit(77)))
			}
		}
	}
	return rangeS("", s.kind, kn, vn, true, s.x, body)
}

// Random2 generates one random program drawing from the version 2 forms.
func Random2(r *rand.Rand) *Program {
	g := &gen2{r: r, budget: 60 + r.Intn(60)}
	p := &Program{Tag: "random2", Globals: []Var{{"gi", "int"}, {"gs", "sl"}, {"gm", "map"}}}
	g.p = p
	traced := func(e N) N {
		if r.Intn(2) == 0 {
			return tr(g.st.next(), e)
		}
		return e
	}
	f0 := newFunc("f0").locals("int", "x0", "x1", "x2", "xc", "acc").locals("sl", "s", "s2").locals("arr", "a", "a2").local("pa", "parr").
		local("m", "map").locals("T", "t", "t2").local("p", "pT").local("q", "pint").local("str", "str").local("ok", "bool").local("cf", "fn").local("f", "fn")
	p.Funcs = []*Func{f0.f}
	// helpers
	hget := newFunc("hget").param("a0", "int").body(ret(traced(add(vr("a0"), lit(1)))))
	var mut []N
	switch r.Intn(5) {
	case 0:
		mut = []N{set(vr("gs"), appendE(vr("gs"), vr("a0")))}
	case 1:
		mut = []N{set(vr("gs"), sllit(vr("a0"), lit(8)))}
	case 2:
		mut = []N{ifS(lt(lit(0), ln("sl", vr("gs"))), []N{set(vr("gs"), slice("sl", vr("gs"), nil, sub(ln("sl", vr("gs")), lit(1)), nil))}, nil)}
	case 3:
		mut = []N{ifS(lt(lit(1), ln("sl", vr("gs"))), []N{set(idx("sl", vr("gs"), lit(1)), vr("a0"))}, nil)}
	default:
		mut = []N{set(vr("gm"), maplit(lit(5), vr("a0")))}
	}
	hmut := newFunc("hmut").param("a0", "int").body(append(append([]N{addto("gi", lit(1))}, mut...), ret(traced(add(vr("a0"), vr("gi")))))...)
	fact := newFunc("fact").param("n", "int").body(ifS(lt(vr("n"), lit(1)), []N{ret(lit(1))}, nil), ret(mul(vr("n"), traced(call("fact", sub(vr("n"), lit(1)))))))
	two := newFunc("two").param("z", "int").results("int", "int").body(retN(traced(vr("z")), add(vr("z"), lit(1))))
	vsum := newFunc("vsum").param("b", "int").param("r", "sl").local("w", "int")
	vsum.f.Vari = true
	vs := vsum.body(rangeS("", "sl", "", "w0", true, vr("r"), []N{addto("w", vr("w0"))}), ret(add(vr("b"), traced(vr("w")))))
	st2 := &sites{k: 80}
	ms := methods(st2, r.Intn(2) == 0)
	c0 := newFunc("c0").lit().body(addto("xc", lit(1+r.Intn(2))), addto("gi", lit(1)), ret(traced(vr("xc"))))
	p.Funcs = append(p.Funcs, hget, hmut, fact, two, vs, c0)
	p.Funcs = append(p.Funcs, ms...)
	g.st.k = 0
	g.ints = []string{"x0", "x1", "x2"}
	pre := []N{set(vr("s"), sllit(lit(1), lit(2), lit(3))), set(vr("a"), arrlit(lit(4), lit(5), lit(6))), set(vr("pa"), addr("a")), set(vr("m"), maplit(lit(0), lit(7), lit(1), lit(8))),
		set(vr("t"), tlit(lit(1), lit(2))), set(vr("p"), newT(lit(3), lit(4))), set(vr("q"), addr("x2")), set(vr("str"), strlit("abc")),
		set(vr("gs"), sllit(lit(1), lit(2), lit(3))), set(vr("gm"), maplit(lit(0), lit(1), lit(1), lit(2))),
		set(vr("cf"), funclit("c0")), set(vr("f"), funclit("c0"))}
	body := append(pre, g.stmts(3+r.Intn(5), 3)...)
	body = append(body, emit(g.st.next(), vr("acc")), emit(g.st.next(), vr("gi")), emit(g.st.next(), vr("xc")),
		dump(g.st.next(), "sl", vr("s")), dump(g.st.next(), "arr", vr("a")), dump(g.st.next(), "map", vr("m")), dump(g.st.next(), "T", vr("t")), dump(g.st.next(), "sl", vr("gs")), dump(g.st.next(), "map", vr("gm")),
		ret(vr("x0")))
	f0.f.Body = body
	return p
}
