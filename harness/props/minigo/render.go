package minigo

import (
	"fmt"
	"strings"
)

// ---------------------------------------------------------------------------
// rendering (Go source of a program; the node kinds are listed in spec/MiniGo.tla)

type renderer struct {
	b    strings.Builder
	pfx  string
	glob map[string]bool  // package-level variables of the program
	lits map[string]*Func // function literals by name
}

// typ renders a type tag.
func (r *renderer) typ(t string) string {
	switch t {
	case "", "int":
		return "int"
	case "bool":
		return "bool"
	case "sl":
		return "[]int"
	case "arr":
		return "[3]int"
	case "map":
		return "map[int]int"
	case "str":
		return "string"
	case "T":
		return r.pfx + "T"
	case "fn":
		return "func() int"
	case "fn1":
		return "func(int) int"
	}
	if strings.HasPrefix(t, "fn") {
		return "func() " + r.typ(t[2:])
	}
	if strings.HasPrefix(t, "p") {
		return "*" + r.typ(t[1:])
	}
	panic("typ: " + t)
}

func (r *renderer) name(x string) string {
	if r.glob[x] {
		return r.pfx + x
	}
	return x
}

func field(f any) string {
	if fmt.Sprint(f) == "1" {
		return "a"
	}
	return "b"
}

func (r *renderer) list(es []any) string {
	var as []string
	for _, a := range es {
		as = append(as, r.expr(a.([]any)))
	}
	return strings.Join(as, ", ")
}

// recv renders the receiver of a method call / method value in the usual source form:
// t.m for the receiver &t, p.m for the receiver *p.
func (r *renderer) recv(e []any) string {
	switch e[0] {
	case "addr":
		return r.expr(e[1].([]any))
	case "deref":
		return r.expr(e[1].([]any))
	}
	return r.expr(e)
}

func (r *renderer) opt(e any) string {
	if x, ok := e.([]any); ok && len(x) > 0 {
		return r.expr(x)
	}
	return ""
}

func goString(bytes []any) string {
	var sb strings.Builder
	sb.WriteByte('"')
	for _, b := range bytes {
		c := byte(toInt(b))
		if c == '"' || c == '\\' || c < 32 || c > 126 {
			fmt.Fprintf(&sb, "\\x%02x", c)
		} else {
			sb.WriteByte(c)
		}
	}
	sb.WriteByte('"')
	return sb.String()
}

func toInt(x any) int {
	switch v := x.(type) {
	case int:
		return v
	case float64:
		return int(v)
	}
	panic(fmt.Sprint("toInt: ", x))
}

// Str is the byte-list form of an ASCII string literal.
func Str(s string) []any {
	o := make([]any, len(s))
	for i := range s {
		o[i] = int(s[i])
	}
	return o
}

func (r *renderer) intE(e []any) string  { return r.expr(e) }
func (r *renderer) boolE(c []any) string { return r.expr(c) }

// expr renders an expression or l-value of any type.
func (r *renderer) expr(e []any) string {
	sub := func(i int) string { return r.expr(e[i].([]any)) }
	switch e[0] {
	case "lit":
		return fmt.Sprint(e[1])
	case "var", "bvar":
		return r.name(e[1].(string))
	case "blank":
		return "_"
	case "add":
		return "(" + sub(1) + " + " + sub(2) + ")"
	case "sub":
		return "(" + sub(1) + " - " + sub(2) + ")"
	case "mul":
		return "(" + sub(1) + " * " + sub(2) + ")"
	case "tr":
		return fmt.Sprintf("tr(%v, %s)", e[1], sub(2))
	case "call":
		return fmt.Sprintf("%s%s(%s)", r.pfx, e[1], r.list(e[2].([]any)))
	case "callsp":
		return fmt.Sprintf("%s%s(%s...)", r.pfx, e[1], r.list(e[2].([]any)))
	case "callv":
		return fmt.Sprintf("%s()", e[1])
	case "callf":
		return fmt.Sprintf("%s(%s)", sub(1), r.list(e[2].([]any)))
	case "mcall":
		return fmt.Sprintf("%s.%s(%s)", r.recv(e[1].([]any)), e[2], r.list(e[3].([]any)))
	case "mval":
		return fmt.Sprintf("%s.%s", r.recv(e[1].([]any)), e[2])
	// booleans
	case "lt":
		return "(" + sub(1) + " < " + sub(2) + ")"
	case "eq", "peq", "streq":
		return "(" + sub(1) + " == " + sub(2) + ")"
	case "in":
		return "in()"
	case "not":
		return "!" + sub(1)
	case "and":
		return "(" + sub(1) + " && " + sub(2) + ")"
	case "or":
		return "(" + sub(1) + " || " + sub(2) + ")"
	case "trb":
		return fmt.Sprintf("trb(%v, %s)", e[1], sub(2))
	// composite values
	case "idx":
		if e[1] == "str" {
			return "int(" + sub(2) + "[" + sub(3) + "])" // a byte
		}
		return sub(2) + "[" + sub(3) + "]"
	case "len", "cap":
		return fmt.Sprintf("%s(%s)", e[0], sub(2))
	case "fld", "pfld":
		return sub(1) + "." + field(e[2])
	case "deref":
		return "(*" + sub(1) + ")"
	case "addr":
		return "&" + sub(1)
	case "nil", "nilsl", "nilmap":
		return "nil"
	case "newT":
		return fmt.Sprintf("&%sT{%s, %s}", r.pfx, sub(1), sub(2))
	case "tlit":
		return fmt.Sprintf("%sT{%s}", r.pfx, r.list(e[1].([]any)))
	case "arrlit":
		return fmt.Sprintf("[3]int{%s}", r.list(e[1].([]any)))
	case "sllit":
		return fmt.Sprintf("[]int{%s}", r.list(e[1].([]any)))
	case "strlit":
		return goString(e[1].([]any))
	case "concat":
		return "(" + sub(1) + " + " + sub(2) + ")"
	case "mk":
		if c := r.opt(e[2]); c != "" {
			return fmt.Sprintf("make([]int, %s, %s)", sub(1), c)
		}
		return fmt.Sprintf("make([]int, %s)", sub(1))
	case "slice":
		s := sub(2) + "[" + r.opt(e[3]) + ":" + r.opt(e[4])
		if m := r.opt(e[5]); m != "" {
			s += ":" + m
		}
		return s + "]"
	case "append":
		if es := e[2].([]any); len(es) > 0 {
			return fmt.Sprintf("append(%s, %s)", sub(1), r.list(es))
		}
		return fmt.Sprintf("append(%s)", sub(1))
	case "appendsl":
		return fmt.Sprintf("append(%s, %s...)", sub(1), sub(2))
	case "copy":
		return fmt.Sprintf("copy(%s, %s)", sub(1), sub(2))
	case "mkmap":
		return "make(map[int]int)"
	case "maplit":
		kvs := e[1].([]any)
		var ps []string
		for i := 0; i+1 < len(kvs); i += 2 {
			ps = append(ps, r.expr(kvs[i].([]any))+": "+r.expr(kvs[i+1].([]any)))
		}
		return "map[int]int{" + strings.Join(ps, ", ") + "}"
	case "fnref":
		return r.pfx + e[1].(string)
	case "funclit":
		f := r.lits[e[1].(string)]
		if f == nil {
			panic("unknown function literal " + e[1].(string))
		}
		sub := &renderer{pfx: r.pfx, glob: r.glob, lits: r.lits}
		sub.b.WriteString("func" + sub.signature(f) + " {\n")
		sub.funcBody(f, "\t\t")
		sub.b.WriteString("\t}")
		return sub.b.String()
	}
	panic(fmt.Sprint("expr: ", e[0]))
}

func simple(ss []any, r *renderer) string {
	// for init/post: a single simple statement
	if len(ss) == 0 {
		return ""
	}
	s := ss[0].([]any)
	switch s[0] {
	case "assign":
		return fmt.Sprintf("%s = %s", r.name(s[1].(string)), r.intE(s[2].([]any)))
	case "inc":
		return fmt.Sprintf("%s++", r.name(s[1].(string)))
	case "addto":
		return fmt.Sprintf("%s += %s", r.name(s[1].(string)), r.intE(s[2].([]any)))
	}
	panic(fmt.Sprint("simple: ", s[0]))
}

func (r *renderer) stmts(ss []any, ind string) {
	for _, x := range ss {
		r.stmt(x.([]any), ind)
	}
}

var opSym = map[string]string{"add": "+", "sub": "-", "mul": "*"}

func (r *renderer) stmt(s []any, ind string) {
	w := func(f string, a ...any) { fmt.Fprintf(&r.b, ind+f+"\n", a...) }
	switch s[0] {
	case "emit":
		w("println(\"e\", %v, %s)", s[1], r.intE(s[2].([]any)))
	case "assign":
		w("%s = %s", r.name(s[1].(string)), r.intE(s[2].([]any)))
	case "addto":
		w("%s += %s", r.name(s[1].(string)), r.intE(s[2].([]any)))
	case "inc":
		w("%s++", r.name(s[1].(string)))
	case "swap":
		w("%s, %s = %s, %s", r.name(s[1].(string)), r.name(s[2].(string)), r.name(s[2].(string)), r.name(s[1].(string)))
	case "expr":
		w("_ = %s", r.intE(s[1].([]any)))
	case "return":
		w("return %s", r.intE(s[1].([]any)))
	case "returnN":
		w("return %s", r.list(s[1].([]any)))
	case "ret0":
		w("return")
	case "break", "continue":
		if s[1] == "" {
			w("%s", s[0])
		} else {
			w("%s %s", s[0], s[1])
		}
	case "goto":
		w("goto %s", s[1])
	case "label":
		fmt.Fprintf(&r.b, "%s:\n", s[1])
	case "closure":
		w("%s := func() int {", s[1])
		r.stmts(s[2].([]any), ind+"\t")
		w("\treturn 0")
		w("}")
		w("_ = %s", s[1])
	case "if":
		w("if %s {", r.boolE(s[1].([]any)))
		r.stmts(s[2].([]any), ind+"\t")
		if els := s[3].([]any); len(els) > 0 {
			w("} else {")
			r.stmts(els, ind+"\t")
		}
		w("}")
	case "for":
		if s[1] != "" {
			w("%s:", s[1])
		}
		cond := ""
		if c := s[3].([]any); len(c) > 0 {
			cond = r.boolE(c)
		}
		w("for %s; %s; %s {", simple(s[2].([]any), r), cond, simple(s[4].([]any), r))
		r.stmts(s[5].([]any), ind+"\t")
		w("}")
	case "switch":
		if s[4] != "" {
			w("%s:", s[4])
		}
		if s[1].(bool) {
			w("switch %s {", r.intE(s[2].([]any)))
		} else {
			w("switch {")
		}
		for _, c := range s[3].([]any) {
			cl := c.([]any)
			if cl[0].(bool) {
				w("default:")
			} else {
				var es []string
				for _, e := range cl[1].([]any) {
					if s[1].(bool) {
						es = append(es, r.intE(e.([]any)))
					} else {
						es = append(es, r.boolE(e.([]any)))
					}
				}
				w("case %s:", strings.Join(es, ", "))
			}
			r.stmts(cl[2].([]any), ind+"\t")
			if cl[3].(bool) {
				w("\tfallthrough")
			}
		}
		w("}")
	// ---- version 2
	case "set":
		w("%s = %s", r.expr(s[1].([]any)), r.expr(s[2].([]any)))
	case "massign":
		w("%s = %s", r.list(s[1].([]any)), r.list(s[2].([]any)))
	case "assignN":
		w("%s = %s", r.list(s[1].([]any)), r.expr(s[2].([]any)))
	case "opset":
		w("%s %s= %s", r.expr(s[2].([]any)), opSym[s[1].(string)], r.expr(s[3].([]any)))
	case "incdec":
		if toInt(s[2]) > 0 {
			w("%s++", r.expr(s[1].([]any)))
		} else {
			w("%s--", r.expr(s[1].([]any)))
		}
	case "bassign":
		w("%s = %s", r.name(s[1].(string)), r.expr(s[2].([]any)))
	case "commaok":
		w("%s, %s = %s[%s]", r.expr(s[1].([]any)), r.name(s[2].(string)), r.expr(s[3].([]any)), r.expr(s[4].([]any)))
	case "delete":
		w("delete(%s, %s)", r.expr(s[1].([]any)), r.expr(s[2].([]any)))
	case "range":
		if s[1] != "" {
			w("%s:", s[1])
		}
		k, v, def := s[3].(string), s[4].(string), s[5].(bool)
		op := "="
		if def {
			op = ":="
		}
		x := r.expr(s[6].([]any))
		switch {
		case k == "" && v == "":
			w("for range %s {", x)
		case v == "":
			w("for %s %s range %s {", r.name(k), op, x)
		case k == "":
			w("for _, %s %s range %s {", r.name(v), op, x)
		default:
			w("for %s, %s %s range %s {", r.name(k), r.name(v), op, x)
		}
		if def {
			if k != "" {
				w("\t_ = %s", k)
			}
			if v != "" {
				w("\t_ = %s", v)
			}
		}
		r.stmts(s[7].([]any), ind+"\t")
		w("}")
	case "defer":
		w("defer %s", r.expr(s[1].([]any)))
	case "deferemit":
		w("defer println(\"e\", %v, %s)", s[1], r.expr(s[2].([]any)))
	case "panic":
		w("panic(%s)", r.expr(s[1].([]any)))
	case "dump":
		switch s[2] {
		case "sl":
			w("dumpS(%v, %s)", s[1], r.expr(s[3].([]any)))
		case "arr":
			w("dumpA(%v, %s)", s[1], r.expr(s[3].([]any)))
		case "map":
			w("dumpM(%v, %s)", s[1], r.expr(s[3].([]any)))
		case "str":
			w("dumpStr(%v, %s)", s[1], r.expr(s[3].([]any)))
		case "T":
			w("{")
			w("\td_ := %s", r.expr(s[3].([]any)))
			w("\tprintln(\"d\", %v, 2)", s[1])
			w("\tprintln(\"d\", %v, 0, d_.a)", s[1])
			w("\tprintln(\"d\", %v, 1, d_.b)", s[1])
			w("}")
		default:
			panic(fmt.Sprint("dump: ", s[2]))
		}
	default:
		panic(fmt.Sprint("stmt: ", s[0]))
	}
}

func typeAt(ts []string, i int) string {
	if i < len(ts) && ts[i] != "" {
		return ts[i]
	}
	return "int"
}

func isNamed(f *Func, x string) bool {
	for _, n := range f.Named {
		if n == x {
			return true
		}
	}
	return false
}

// signature renders "(params) results" of f (without the receiver of a method).
func (r *renderer) signature(f *Func) string {
	var ps []string
	first := 0
	if f.Recv != "" {
		first = 1
	}
	for i := first; i < len(f.Params); i++ {
		t := r.typ(typeAt(f.PT, i))
		if f.Vari && i == len(f.Params)-1 {
			t = "...int"
		}
		ps = append(ps, f.Params[i]+" "+t)
	}
	res := "int"
	switch {
	case len(f.Named) > 0:
		var rs []string
		for i, n := range f.Named {
			rs = append(rs, n+" "+r.typ(typeAt(f.RT, i)))
		}
		res = "(" + strings.Join(rs, ", ") + ")"
	case len(f.RT) == 1:
		res = r.typ(f.RT[0])
	case len(f.RT) > 1:
		var rs []string
		for _, t := range f.RT {
			rs = append(rs, r.typ(t))
		}
		res = "(" + strings.Join(rs, ", ") + ")"
	}
	return "(" + strings.Join(ps, ", ") + ") " + res
}

var zeroOf = map[string]string{"int": "0", "bool": "false", "str": `""`}

// funcBody renders the declarations of the locals, the body and the final return.
func (r *renderer) funcBody(f *Func, ind string) {
	if f.LT == nil {
		// version 1 form: one declaration
		var ls []string
		for _, l := range f.Locals {
			if !isNamed(f, l) {
				ls = append(ls, l)
			}
		}
		if len(ls) > 0 {
			fmt.Fprintf(&r.b, "%svar %s int\n", ind, strings.Join(ls, ", "))
			for _, l := range ls {
				fmt.Fprintf(&r.b, "%s_ = %s\n", ind, l)
			}
		}
	} else {
		for i, l := range f.Locals {
			if isNamed(f, l) {
				continue
			}
			fmt.Fprintf(&r.b, "%svar %s %s\n%s_ = %s\n", ind, l, r.typ(typeAt(f.LT, i)), ind, l)
		}
	}
	r.stmts(nodes(f.Body), ind)
	switch {
	case len(f.Named) > 0:
		fmt.Fprintf(&r.b, "%sreturn\n", ind)
	case f.RT == nil:
		fmt.Fprintf(&r.b, "%sreturn 0\n", ind)
	default:
		var zs []string
		for _, t := range f.RT {
			switch {
			case zeroOf[t] != "":
				zs = append(zs, zeroOf[t])
			case t == "T":
				zs = append(zs, r.pfx+"T{}")
			case t == "arr":
				zs = append(zs, "[3]int{}")
			default:
				zs = append(zs, "nil")
			}
		}
		fmt.Fprintf(&r.b, "%sreturn %s\n", ind, strings.Join(zs, ", "))
	}
}

func newRenderer(p *Program, n int) *renderer {
	r := &renderer{pfx: fmt.Sprintf("p%d_", n), glob: map[string]bool{}, lits: map[string]*Func{}}
	for _, g := range p.Globals {
		r.glob[g.Name] = true
	}
	for _, f := range p.Funcs {
		if f.Lit {
			r.lits[f.Name] = f
		}
	}
	return r
}

// V2 reports whether the program uses anything beyond the version 1 fragment's
// declarations (package-level variables, typed functions, methods, literals).
func (p *Program) V2() bool {
	if len(p.Globals) > 0 {
		return true
	}
	for _, f := range p.Funcs {
		if f.PT != nil || f.LT != nil || f.RT != nil || f.Named != nil || f.Vari || f.Recv != "" || f.Lit {
			return true
		}
	}
	return false
}

// RenderFuncs renders the declarations of program number n (names prefixed p<n>_):
// the struct type and the package-level variables of a version 2 program, then
// the functions.
func RenderFuncs(p *Program, n int) string {
	r := newRenderer(p, n)
	if p.V2() {
		fmt.Fprintf(&r.b, "type %sT struct{ a, b int }\n\n", r.pfx)
		for _, g := range p.Globals {
			fmt.Fprintf(&r.b, "var %s%s %s\n", r.pfx, g.Name, r.typ(g.Type))
		}
		r.b.WriteString("\n")
	}
	for _, f := range p.Funcs {
		if f.Lit {
			continue
		}
		recv := ""
		if f.Recv != "" {
			t := r.pfx + "T"
			if f.Recv == "ptr" {
				t = "*" + t
			}
			recv = fmt.Sprintf("(%s %s) ", f.Params[0], t)
		}
		name := r.pfx + f.Name
		if f.Recv != "" {
			name = f.Name
		}
		fmt.Fprintf(&r.b, "func %s%s%s {\n", recv, name, r.signature(f))
		r.funcBody(f, "\t")
		r.b.WriteString("}\n\n")
	}
	return r.b.String()
}

// RenderReset renders the function that puts the package-level variables of
// program number n back to their zero values (run before every input vector).
func RenderReset(p *Program, n int) string {
	r := newRenderer(p, n)
	fmt.Fprintf(&r.b, "func %sreset() {\n", r.pfx)
	for _, g := range p.Globals {
		z := "nil"
		switch {
		case zeroOf[g.Type] != "":
			z = zeroOf[g.Type]
		case g.Type == "T":
			z = r.pfx + "T{}"
		case g.Type == "arr":
			z = "[3]int{}"
		}
		fmt.Fprintf(&r.b, "\t%s%s = %s\n", r.pfx, g.Name, z)
	}
	r.b.WriteString("}\n\n")
	return r.b.String()
}
