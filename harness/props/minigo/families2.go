package minigo

import (
	"fmt"
	"math/rand"
)

// Families2 returns the exhaustive families of MiniGo version 2.
func Families2(thorough bool, rng *rand.Rand) []Family {
	alias := SliceAliasFamily(3)
	ms := MapStringFamily()
	if !thorough {
		// chains of two operations completely, a seeded sample of the chains of three
		short := SliceAliasFamily(2)
		rng.Shuffle(len(alias), func(i, j int) { alias[i], alias[j] = alias[j], alias[i] })
		alias = append(short, alias[:100]...)
		rng.Shuffle(len(ms), func(i, j int) { ms[i], ms[j] = ms[j], ms[i] })
		ms = ms[:200]
	}
	return []Family{
		{"range-family", RangeFamily()},
		{"assign-order-family", AssignOrderFamily()},
		{"slice-alias-family", alias},
		{"defer-family", DeferFamily()},
		{"method-value-family", MethodValueFamily()},
		{"goto-family", GotoFamily()},
		{"panic-family", PanicFamily()},
		{"call-family", CallFamily()},
		{"map-string-family", ms},
	}
}

var kindType = map[string]string{"sl": "sl", "arr": "arr", "pa": "parr", "str": "str", "map": "map"}

// RangeFamily enumerates range loops: every container kind (slice, array value,
// pointer to array, string, map) x iteration variables (both, key, value, none;
// declared by the loop or assigned) x who mutates the ranged variable or its
// elements during the first iteration (the body, a helper function through a
// package-level variable, a closure created before the loop, the body through a
// pointer) x mutation (reassign, append, shrink, element write, nil; for maps
// delete and overwrite in forms that do not depend on the iteration order) x
// trace points (none, in the body around the mutation, also inside the range
// operand).  The range operand is evaluated exactly once, the length of a slice
// is fixed at loop entry, an array value is copied, a pointer to an array is not.
func RangeFamily() []*Program {
	var out []*Program
	muts := map[string][]string{
		"sl":  {"reassign", "append", "shrink", "elem", "nil"},
		"arr": {"reassign", "elem"},
		"pa":  {"repoint", "elem", "elemvar", "nil"},
		"str": {"reassign", "concat"},
		"map": {"reassign", "delcur", "delall", "overwrite", "nil"},
	}
	for _, kind := range []string{"sl", "arr", "pa", "str", "map"} {
		for _, mut := range muts[kind] {
			for _, vars := range []string{"kv", "k", "v", ""} {
				for _, who := range []string{"body", "helper", "closure", "pointer"} {
					for traced := 0; traced <= 2; traced++ {
						for _, def := range []bool{true, false} {
							if !def && (traced != 1 || kind == "str" || vars == "v" || vars == "") {
								continue
							}
							if mut == "delcur" && vars != "kv" && vars != "k" {
								continue
							}
							out = append(out, rangeProg(kind, mut, vars, who, traced, def))
						}
					}
				}
			}
		}
	}
	return out
}

func rangeProg(kind, mut, vars, who string, traced int, def bool) *Program {
	p := &Program{Tag: "range-family", Desc: fmt.Sprintf("%s/%s/vars=%s/%s/traced=%d/define=%v", kind, mut, vars, who, traced, def)}
	st := &sites{}
	typ := kindType[kind]
	global := who == "helper"
	xn, ar, ar2 := "x", "ar", "ar2"
	if global {
		xn, ar, ar2 = "gx", "gar", "gar2"
	}
	f0 := newFunc("f0").locals("int", "n", "acc")
	declare := func(name, t string) {
		if global {
			p.Globals = append(p.Globals, Var{name, t})
		} else {
			f0.local(name, t)
		}
	}
	declare(xn, typ)
	if kind == "pa" {
		declare(ar, "arr")
		declare(ar2, "arr")
	}
	var X N = vr(xn)
	if who == "pointer" {
		f0.local("px", "p"+typ)
		X = deref(vr("px"))
	}
	kn, vn := "", ""
	if vars == "kv" || vars == "k" {
		kn = "i"
	}
	if vars == "kv" || vars == "v" {
		vn = "v"
	}
	if !def {
		if kn != "" {
			f0.local(kn, "int")
		}
		if vn != "" {
			f0.local(vn, "int")
		}
	}
	// initial value
	var body []N
	switch kind {
	case "sl":
		body = append(body, set(vr(xn), sllit(lit(1), lit(2), lit(3))))
	case "arr":
		body = append(body, set(vr(xn), arrlit(lit(1), lit(2), lit(3))))
	case "pa":
		body = append(body, set(vr(ar), arrlit(lit(1), lit(2), lit(3))), set(vr(ar2), arrlit(lit(7), lit(8), lit(9))), set(vr(xn), addr(ar)))
	case "str":
		body = append(body, set(vr(xn), strlit("abc")))
	case "map":
		body = append(body, set(vr(xn), maplit(lit(1), lit(10), lit(2), lit(20))))
	}
	if who == "pointer" {
		body = append(body, set(vr("px"), addr(xn)))
	}
	// the mutation, in terms of the expression M naming the ranged variable and the key
	mutation := func(M N, key N) []N {
		switch kind + "/" + mut {
		case "sl/reassign":
			return []N{set(M, sllit(lit(7), lit(8), lit(9), lit(10)))}
		case "sl/append":
			return []N{set(M, appendE(M, lit(5)))}
		case "sl/shrink":
			return []N{set(M, slice("sl", M, nil, lit(1), nil))}
		case "sl/elem":
			return []N{set(idx("sl", M, lit(2)), lit(9))}
		case "sl/nil":
			return []N{set(M, nilsl())}
		case "arr/reassign":
			return []N{set(M, arrlit(lit(7), lit(8), lit(9)))}
		case "arr/elem":
			return []N{set(idx("arr", M, lit(2)), lit(9))}
		case "pa/repoint":
			return []N{set(M, addr(ar2))}
		case "pa/elem":
			return []N{set(idx("pa", M, lit(2)), lit(9))}
		case "pa/elemvar":
			return []N{set(idx("arr", vr(ar), lit(2)), lit(9))}
		case "pa/nil":
			return []N{set(M, null())}
		case "str/reassign":
			return []N{set(M, strlit("xy"))}
		case "str/concat":
			return []N{set(M, concat(M, strlit("d")))}
		case "map/reassign":
			return []N{set(M, maplit(lit(5), lit(50)))}
		case "map/delcur":
			return []N{del(M, key)}
		case "map/delall":
			return []N{del(M, lit(1)), del(M, lit(2))}
		case "map/overwrite":
			return []N{set(idx("map", M, lit(1)), lit(11)), set(idx("map", M, lit(2)), lit(21))}
		case "map/nil":
			return []N{set(M, nilmap())}
		}
		panic(kind + "/" + mut)
	}
	var keyArg N = lit(0)
	if kn != "" {
		keyArg = vr(kn)
	}
	var doMut []N
	switch who {
	case "body", "pointer":
		doMut = mutation(X, keyArg)
	case "helper":
		h := newFunc("h0").param("hk", "int").body(append(mutation(vr(xn), vr("hk")), ret(lit(0)))...)
		p.Funcs = append(p.Funcs, h)
		doMut = []N{exprS(call("h0", keyArg))}
	case "closure":
		m := newFunc("m0").param("hk", "int").lit().body(append(mutation(vr(xn), vr("hk")), ret(lit(0)))...)
		p.Funcs = append(p.Funcs, m)
		f0.local("cf", "fn1")
		body = append(body, set(vr("cf"), funclit("m0")))
		doMut = []N{exprS(callf(vr("cf"), keyArg))}
	}
	operand := X
	if traced == 2 {
		r0 := newFunc("r0").results(typ).lit().body(exprS(tr(st.next(), lit(0))), ret(X))
		p.Funcs = append(p.Funcs, r0)
		f0.local("rf", "fn"+typ)
		body = append(body, set(vr("rf"), funclit("r0")))
		operand = callf(vr("rf"))
	}
	var loop []N
	if traced >= 1 {
		loop = append(loop, exprS(tr(st.next(), vr("n"))))
	}
	if kind != "map" {
		if kn != "" {
			loop = append(loop, emit(st.next(), vr(kn)))
		}
		if vn != "" {
			loop = append(loop, emit(st.next(), vr(vn)))
		}
	} else if mut != "delall" {
		// (only observations that do not depend on the iteration order: after "delete
		// everything" the loop ends, whichever entry came first)
		if kn != "" {
			loop = append(loop, addto("acc", mul(vr(kn), lit(100))))
		}
		if vn != "" {
			loop = append(loop, addto("acc", vr(vn)))
		}
	}
	if mut == "delcur" {
		loop = append(loop, doMut...) // every iteration deletes its own entry
	} else {
		loop = append(loop, ifS(eq(vr("n"), lit(0)), doMut, nil))
	}
	if traced >= 1 {
		loop = append(loop, exprS(tr(st.next(), vr("n"))))
	}
	loop = append(loop, inc("n"))
	body = append(body, rangeS("", kind, kn, vn, def, operand, loop))
	body = append(body, emit(st.next(), vr("n")), emit(st.next(), vr("acc")))
	switch kind {
	case "sl", "arr", "str", "map":
		body = append(body, dump(st.next(), kind, X))
	case "pa":
		body = append(body, dump(st.next(), "arr", vr(ar)), dump(st.next(), "arr", vr(ar2)))
	}
	body = append(body, ret(vr("n")))
	p.Funcs = append([]*Func{f0.body(body...)}, p.Funcs...)
	return p
}
