// Package minigo generates programs of the MiniGo fragment (spec/MiniGo.tla),
// renders them as Go, obtains the predicted observations from TLC and runs the
// compiled programs in the build modes that C01, C02 and C16 compare.
package minigo

import (
	"fmt"
	"math/rand"
)

// N is an AST node in the JSON tuple form of MiniGo.tla.
type N = []any

// Func is one function of a program.  The fields after Body belong to MiniGo
// version 2; their zero values describe a function of version 1 (int
// parameters and locals, one int result).
type Func struct {
	Name   string
	Params []string
	Locals []string
	Body   []N
	PT     []string // types of the parameters (nil: all int)
	LT     []string // types of the locals (nil: all int)
	RT     []string // result types (nil: one int)
	Named  []string // names of the named results (also listed in Locals)
	Vari   bool     // the last parameter is variadic (...int, type tag "sl")
	Recv   string   // "" | "val" | "ptr": method of the struct type, Params[0] is the receiver
	Lit    bool     // function literal, rendered where <<"funclit", name>> occurs
}

// Var is a package-level variable.
type Var struct{ Name, Type string }

// Program is a list of functions; Funcs[0] is the entry (no parameters).
type Program struct {
	Funcs   []*Func
	Globals []Var
	Tag     string // generator family
	Desc    string // the family's parameters of this program (for reports)
}

// JSON returns the tuple form (identifies the program; not what TLC reads).
func (p *Program) JSON() []any {
	var out []any
	for _, f := range p.Funcs {
		t := []any{f.Name, strs(f.Params), strs(f.Locals), nodes(f.Body)}
		if f.PT != nil || f.LT != nil || f.RT != nil || f.Named != nil || f.Vari || f.Recv != "" || f.Lit {
			t = append(t, strs(f.PT), strs(f.LT), strs(f.RT), strs(f.Named), f.Vari, f.Recv, f.Lit)
		}
		out = append(out, t)
	}
	if len(p.Globals) > 0 {
		var gs []any
		for _, g := range p.Globals {
			gs = append(gs, []any{g.Name, g.Type})
		}
		out = append(out, gs)
	}
	return out
}

func typesOr(ts []string, n int) []any {
	o := make([]any, n)
	for i := range o {
		o[i] = "int"
		if i < len(ts) && ts[i] != "" {
			o[i] = ts[i]
		}
	}
	return o
}

// TLA returns the record form read by spec/MiniGoScen.tla.
func (p *Program) TLA() map[string]any {
	fs := []any{}
	for _, f := range p.Funcs {
		rt := []any{"int"}
		if f.RT != nil {
			rt = strs(f.RT)
		}
		fs = append(fs, map[string]any{"name": f.Name, "params": strs(f.Params), "locals": strs(f.Locals), "body": nodes(f.Body),
			"pt": typesOr(f.PT, len(f.Params)), "lt": typesOr(f.LT, len(f.Locals)), "rt": rt, "named": strs(f.Named), "vari": f.Vari})
	}
	gs := []any{}
	for _, g := range p.Globals {
		gs = append(gs, []any{g.Name, g.Type})
	}
	return map[string]any{"funcs": fs, "globals": gs}
}

func strs(s []string) []any {
	o := make([]any, len(s))
	for i, x := range s {
		o[i] = x
	}
	return o
}

func nodes(ns []N) []any {
	o := make([]any, len(ns))
	for i, x := range ns {
		o[i] = []any(x)
	}
	return o
}

type gen struct {
	r        *rand.Rand
	k        int // next trace point id
	lbl      int
	budget   int
	fn       *Func
	prog     *Program
	loops    []string // enclosing loop labels ("" if unlabelled)
	inSwitch int
	nclo     int
	helpers  []*Func
}

func (g *gen) site() int { g.k++; return g.k }

func (g *gen) local() string {
	if len(g.fn.Locals) > 0 && g.r.Intn(3) != 0 {
		return g.fn.Locals[g.r.Intn(len(g.fn.Locals))]
	}
	if len(g.fn.Locals) < 4 {
		v := fmt.Sprintf("%s%d", []string{"x", "y", "z", "w"}[len(g.fn.Locals)%4], len(g.fn.Locals))
		g.fn.Locals = append(g.fn.Locals, v)
		return v
	}
	return g.fn.Locals[g.r.Intn(len(g.fn.Locals))]
}

func (g *gen) anyVar() string {
	all := append(append([]string{}, g.fn.Params...), g.fn.Locals...)
	if len(all) == 0 {
		return g.local()
	}
	return all[g.r.Intn(len(all))]
}

// intExpr generates an int expression of the given depth.
func (g *gen) intExpr(d int) N {
	g.budget--
	if d <= 0 || g.budget <= 0 {
		if g.r.Intn(2) == 0 {
			return N{"lit", g.r.Intn(5)}
		}
		return N{"var", g.anyVar()}
	}
	switch g.r.Intn(9) {
	case 0, 1:
		return N{"tr", g.site(), []any(g.intExpr(d - 1))}
	case 2:
		return N{"add", []any(g.intExpr(d - 1)), []any(g.intExpr(d - 1))}
	case 3:
		return N{"sub", []any(g.intExpr(d - 1)), []any(g.intExpr(d - 1))}
	case 4:
		if len(g.helpers) > 0 {
			h := g.helpers[g.r.Intn(len(g.helpers))]
			var args []any
			for range h.Params {
				args = append(args, []any(g.intExpr(d-1)))
			}
			if args == nil {
				args = []any{}
			}
			return N{"call", h.Name, args}
		}
		return N{"lit", g.r.Intn(5)}
	case 5:
		if g.nclo > 0 {
			return N{"callv", fmt.Sprintf("c%d", g.r.Intn(g.nclo))}
		}
		return N{"var", g.anyVar()}
	case 6:
		return N{"mul", []any(g.intExpr(0)), N{"lit", g.r.Intn(3)}}
	default:
		return g.intExpr(0)
	}
}

func (g *gen) boolExpr(d int) N {
	g.budget--
	if d <= 0 || g.budget <= 0 {
		switch g.r.Intn(3) {
		case 0:
			return N{"in"}
		case 1:
			return N{"lt", []any(g.intExpr(0)), []any(g.intExpr(0))}
		default:
			return N{"eq", []any(g.intExpr(0)), []any(g.intExpr(0))}
		}
	}
	switch g.r.Intn(7) {
	case 0:
		return N{"and", []any(g.boolExpr(d - 1)), []any(g.boolExpr(d - 1))}
	case 1:
		return N{"or", []any(g.boolExpr(d - 1)), []any(g.boolExpr(d - 1))}
	case 2:
		return N{"not", []any(g.boolExpr(d - 1))}
	case 3, 4:
		return N{"trb", g.site(), []any(g.boolExpr(d - 1))}
	case 5:
		return N{"lt", []any(g.intExpr(d - 1)), []any(g.intExpr(d - 1))}
	default:
		return g.boolExpr(0)
	}
}

func (g *gen) stmts(n, d int) []N {
	var out []N
	for i := 0; i < n && g.budget > 0; i++ {
		out = append(out, g.stmt(d))
	}
	return out
}

func (g *gen) stmt(d int) N {
	g.budget--
	choice := g.r.Intn(14)
	if d <= 0 && choice >= 5 && choice <= 8 {
		choice = g.r.Intn(5)
	}
	switch choice {
	case 0, 1:
		return N{"emit", g.site(), []any(g.intExpr(2))}
	case 2:
		return N{"assign", g.local(), []any(g.intExpr(2))}
	case 3:
		return N{"addto", g.local(), []any(g.intExpr(1))}
	case 4:
		if len(g.fn.Locals) >= 2 {
			a, b := g.fn.Locals[0], g.fn.Locals[1]
			return N{"swap", a, b}
		}
		return N{"inc", g.local()}
	case 5:
		els := []N{}
		if g.r.Intn(2) == 0 {
			els = g.stmts(1+g.r.Intn(2), d-1)
		}
		return N{"if", []any(g.boolExpr(2)), nodes(g.stmts(1+g.r.Intn(2), d-1)), nodes(els)}
	case 6, 7:
		return g.forStmt(d)
	case 8:
		return g.switchStmt(d)
	case 9:
		if len(g.loops) > 0 {
			l := g.loops[g.r.Intn(len(g.loops))]
			if g.inSwitch == 0 && g.r.Intn(2) == 0 {
				l = ""
			}
			if l == "" && g.inSwitch > 0 {
				// an unlabelled break here would leave the switch, which is fine too
			}
			return N{"break", l}
		}
		return N{"emit", g.site(), []any(g.intExpr(1))}
	case 10:
		if len(g.loops) > 0 {
			l := g.loops[g.r.Intn(len(g.loops))]
			if g.r.Intn(2) == 0 {
				l = g.loops[len(g.loops)-1]
			}
			if l == "" || g.r.Intn(2) == 0 {
				// unlabelled continue targets the innermost loop
				return N{"continue", ""}
			}
			return N{"continue", l}
		}
		return N{"inc", g.local()}
	case 11:
		if g.r.Intn(3) == 0 {
			return N{"return", []any(g.intExpr(1))}
		}
		return N{"expr", N{"tr", g.site(), []any(g.intExpr(1))}}
	default:
		return N{"expr", []any(g.intExpr(2))}
	}
}

func (g *gen) forStmt(d int) N {
	label := ""
	if g.r.Intn(2) == 0 {
		g.lbl++
		label = fmt.Sprintf("L%d", g.lbl)
	}
	iv := fmt.Sprintf("i%d", g.lbl*10+len(g.loops)+g.r.Intn(5)*100)
	for _, l := range g.fn.Locals {
		if l == iv {
			iv = iv + "b"
		}
	}
	g.fn.Locals = append(g.fn.Locals, iv)
	bound := 1 + g.r.Intn(3)
	var cond N = N{"lt", N{"var", iv}, N{"lit", bound}}
	switch g.r.Intn(4) {
	case 0:
		cond = N{"and", []any(cond), []any(g.boolExpr(1))}
	case 1:
		cond = N{"trb", g.site(), []any(cond)}
	}
	post := []N{{"inc", iv}}
	if g.r.Intn(3) == 0 {
		post = []N{{"addto", iv, N{"tr", g.site(), N{"lit", 1}}}}
	}
	g.loops = append(g.loops, label)
	saved := g.inSwitch
	g.inSwitch = 0
	body := g.stmts(1+g.r.Intn(3), d-1)
	g.inSwitch = saved
	g.loops = g.loops[:len(g.loops)-1]
	// never let the body assign the loop variable downwards: remove assignments to it
	body = stripAssign(body, iv)
	return N{"for", label, nodes([]N{{"assign", iv, N{"lit", 0}}}), []any(cond), nodes(post), nodes(body)}
}

func stripAssign(ss []N, v string) []N {
	var out []N
	for _, s := range ss {
		switch s[0] {
		case "assign", "addto", "inc":
			if s[1] == v {
				continue
			}
		case "swap":
			if s[1] == v || s[2] == v {
				continue
			}
		}
		out = append(out, s)
	}
	if len(out) == 0 {
		out = []N{{"inc", v + "_"}}[:0]
	}
	return out
}

func (g *gen) switchStmt(d int) N {
	hasTag := g.r.Intn(3) != 0
	n := 1 + g.r.Intn(3)
	defPos := -1
	if g.r.Intn(2) == 0 {
		defPos = g.r.Intn(n)
	}
	label := ""
	var tag N = N{"lit", 0}
	if hasTag {
		tag = g.intExpr(1)
	}
	var cls []any
	g.inSwitch++
	lits := g.r.Perm(10)
	for i := 0; i < n; i++ {
		var exprs []any
		if i != defPos {
			for j := 0; j <= g.r.Intn(2); j++ {
				if hasTag {
					if g.r.Intn(3) == 0 {
						exprs = append(exprs, []any(N{"tr", g.site(), N{"lit", g.r.Intn(4)}}))
					} else {
						// constant case expressions must be distinct
						v := lits[0]
						lits = lits[1:]
						exprs = append(exprs, []any(N{"lit", v}))
					}
				} else {
					exprs = append(exprs, []any(g.boolExpr(1)))
				}
			}
		} else {
			exprs = []any{}
		}
		fall := i < n-1 && g.r.Intn(3) == 0
		body := g.stmts(1+g.r.Intn(2), d-1)
		if fall {
			// a fallthrough must be the last statement: drop jumps from the body
			body = noJumps(body)
		}
		cls = append(cls, []any{i == defPos, exprs, nodes(body), fall})
	}
	g.inSwitch--
	return N{"switch", hasTag, []any(tag), cls, label}
}

func noJumps(ss []N) []N {
	var out []N
	for _, s := range ss {
		if s[0] == "break" || s[0] == "continue" || s[0] == "return" {
			continue
		}
		out = append(out, s)
	}
	return out
}

// Random generates one program.
func Random(r *rand.Rand) *Program {
	g := &gen{r: r, budget: 40 + r.Intn(40)}
	p := &Program{Tag: "random"}
	g.prog = p
	nh := r.Intn(3)
	for i := 0; i < nh; i++ {
		h := &Func{Name: fmt.Sprintf("h%d", i)}
		for j := 0; j <= r.Intn(2); j++ {
			h.Params = append(h.Params, fmt.Sprintf("a%d", j))
		}
		g.fn = h
		g.loops, g.nclo, g.inSwitch = nil, 0, 0
		sub := g.budget
		g.budget = 12
		h.Body = g.stmts(1+r.Intn(3), 2)
		h.Body = append(h.Body, N{"return", []any(g.intExpr(1))})
		g.budget = sub
		g.helpers = append(g.helpers, h)
	}
	f0 := &Func{Name: "f0"}
	g.fn = f0
	g.loops, g.nclo, g.inSwitch = nil, 0, 0
	// closures are created at the top of the entry function so that every later
	// statement may call them
	ncl := r.Intn(3)
	var pre []N
	for i := 0; i < ncl; i++ {
		v := g.local()
		body := []N{{"addto", v, N{"lit", 1 + r.Intn(2)}}, {"return", N{"tr", g.site(), N{"var", v}}}}
		pre = append(pre, N{"closure", fmt.Sprintf("c%d", i), nodes(body)})
	}
	g.nclo = ncl
	f0.Body = append(pre, g.stmts(2+r.Intn(4), 3)...)
	f0.Body = append(f0.Body, N{"return", []any(g.intExpr(1))})
	p.Funcs = append([]*Func{f0}, g.helpers...)
	return p
}

// SwitchFamily enumerates switch shapes exhaustively: up to 3 clauses, default in
// any position or absent, every fallthrough pattern, tag values 0..3, with and
// without a trace point (possible suspension) in the tag, in a case expression
// and in the bodies.
func SwitchFamily() []*Program {
	var out []*Program
	for n := 1; n <= 3; n++ {
		for def := -1; def < n; def++ {
			for fallMask := 0; fallMask < 1<<(n-1); fallMask++ {
				for _, variant := range []int{0, 1, 2, 3} {
					traced, withBreak := variant&1 == 1, variant&2 == 2
					k := 0
					site := func() int { k++; return k }
					var cls []any
					for i := 0; i < n; i++ {
						var exprs []any
						if i != def {
							if traced {
								exprs = []any{[]any(N{"tr", site(), N{"lit", i}})}
							} else {
								exprs = []any{[]any(N{"lit", i})}
							}
						} else {
							exprs = []any{}
						}
						body := []N{{"emit", site(), N{"var", "v"}}}
						if traced {
							body = []N{{"emit", site(), N{"tr", site(), N{"var", "v"}}}}
						}
						if withBreak {
							// an unlabelled break leaves the switch, not the enclosing loop
							body = append([]N{{"if", N{"in"}, nodes([]N{{"break", ""}}), nodes([]N{})}}, body...)
						}
						cls = append(cls, []any{i == def, exprs, nodes(body), fallMask>>i&1 == 1})
					}
					var tag N = N{"var", "v"}
					if traced {
						tag = N{"tr", site(), N{"var", "v"}}
					}
					sw := N{"switch", true, []any(tag), cls, ""}
					loop := N{"for", "", nodes([]N{{"assign", "v", N{"lit", 0}}}), N{"lt", N{"var", "v"}, N{"lit", 4}}, nodes([]N{{"inc", "v"}}), nodes([]N{sw})}
					f := &Func{Name: "f0", Locals: []string{"v"}, Body: []N{loop, {"return", N{"var", "v"}}}}
					out = append(out, &Program{Funcs: []*Func{f}, Tag: "switch-family"})
				}
			}
		}
	}
	return out
}

// CondFamily enumerates short-circuit conditions: every boolean expression of depth <= 2
// over input bits with &&, ||, ! in which each leaf is or is not a trace point (a
// possible suspension), used as if condition, loop condition, tagless switch case
// and argument-position value.
func CondFamily() []*Program {
	var out []*Program
	type mk func(site func() int) N
	leaf := func(traced bool) mk {
		return func(site func() int) N {
			if traced {
				return N{"trb", site(), N{"in"}}
			}
			return N{"in"}
		}
	}
	leaves := []mk{leaf(false), leaf(true)}
	var exprs []mk
	for _, a := range leaves {
		for _, b := range leaves {
			a, b := a, b
			for _, op := range []string{"and", "or"} {
				op := op
				exprs = append(exprs, func(s func() int) N { return N{op, []any(a(s)), []any(b(s))} })
				exprs = append(exprs, func(s func() int) N { return N{op, N{"not", []any(a(s))}, []any(b(s))} })
				for _, c := range leaves {
					c := c
					for _, op2 := range []string{"and", "or"} {
						op2 := op2
						exprs = append(exprs, func(s func() int) N { return N{op2, N{op, []any(a(s)), []any(b(s))}, []any(c(s))} })
						exprs = append(exprs, func(s func() int) N { return N{op2, []any(c(s)), N{op, []any(a(s)), []any(b(s))}} })
					}
				}
			}
		}
	}
	for _, e := range exprs {
		for use := 0; use < 3; use++ {
			k := 0
			site := func() int { k++; return k }
			var body []N
			switch use {
			case 0:
				body = []N{{"if", []any(e(site)), nodes([]N{{"emit", site(), N{"lit", 1}}}), nodes([]N{{"emit", site(), N{"lit", 0}}})}}
			case 1:
				cond := N{"and", N{"lt", N{"var", "i"}, N{"lit", 2}}, []any(e(site))}
				body = []N{{"for", "", nodes([]N{{"assign", "i", N{"lit", 0}}}), []any(cond), nodes([]N{{"inc", "i"}}), nodes([]N{{"emit", site(), N{"var", "i"}}})}}
			case 2:
				cls := []any{[]any{false, []any{[]any(e(site))}, nodes([]N{{"emit", site(), N{"lit", 1}}}), false},
					[]any{true, []any{}, nodes([]N{{"emit", site(), N{"lit", 0}}}), false}}
				body = []N{{"switch", false, N{"lit", 0}, cls, ""}}
			}
			body = append(body, N{"return", N{"var", "i"}})
			f := &Func{Name: "f0", Locals: []string{"i"}, Body: body}
			out = append(out, &Program{Funcs: []*Func{f}, Tag: "cond-family"})
		}
	}
	return out
}

// OrderFamily enumerates evaluation-order scenarios: two or three operands, each a call
// of a printing helper that cannot suspend, a trace point (can suspend in the resumable
// build) or a call of a closure (a function value), in every order, as call arguments,
// as operands of a binary operator, of a comparison in an if condition, and as switch
// tag versus case expression.
func OrderFamily() []*Program {
	var out []*Program
	kinds := []string{"helper", "trace", "closure"}
	operand := func(kind string, n int, site func() int) N {
		switch kind {
		case "helper":
			return N{"call", "h0", []any{[]any(N{"lit", n})}}
		case "trace":
			return N{"tr", site(), N{"lit", n}}
		default:
			return N{"callv", "c0"}
		}
	}
	h0 := func() *Func {
		return &Func{Name: "h0", Params: []string{"a0"}, Body: []N{{"emit", 90, N{"var", "a0"}}, {"return", N{"add", N{"var", "a0"}, N{"lit", 1}}}}}
	}
	h1 := func() *Func {
		return &Func{Name: "h1", Params: []string{"a0", "a1", "a2"}, Body: []N{{"return", N{"add", N{"mul", N{"var", "a0"}, N{"lit", 2}}, N{"sub", N{"var", "a1"}, N{"var", "a2"}}}}}}
	}
	for _, k1 := range kinds {
		for _, k2 := range kinds {
			for _, k3 := range kinds {
				for ctx := 0; ctx < 5; ctx++ {
					k := 0
					site := func() int { k++; return k }
					clo := N{"closure", "c0", nodes([]N{{"addto", "x", N{"lit", 1}}, {"return", N{"tr", site(), N{"var", "x"}}}})}
					a, b, c := operand(k1, 1, site), operand(k2, 2, site), operand(k3, 3, site)
					var body []N
					switch ctx {
					case 0: // call arguments
						body = []N{{"emit", site(), N{"call", "h1", []any{[]any(a), []any(b), []any(c)}}}}
					case 1: // binary operators
						body = []N{{"emit", site(), N{"sub", N{"add", []any(a), []any(b)}, []any(c)}}}
					case 2: // comparison in a condition, third operand in the branch
						body = []N{{"if", N{"lt", []any(a), []any(b)}, nodes([]N{{"emit", site(), []any(c)}}), nodes([]N{{"emit", site(), N{"lit", 0}}})}}
					case 3: // assignment then use
						body = []N{{"assign", "y", N{"mul", N{"add", []any(a), []any(b)}, N{"lit", 2}}}, {"emit", site(), N{"add", N{"var", "y"}, []any(c)}}}
					case 4: // switch tag and case expressions
						cls := []any{[]any{false, []any{[]any(b), []any(c)}, nodes([]N{{"emit", site(), N{"lit", 1}}}), false},
							[]any{true, []any{}, nodes([]N{{"emit", site(), N{"lit", 0}}}), false}}
						body = []N{{"switch", true, []any(a), cls, ""}}
					}
					body = append([]N{clo}, body...)
					body = append(body, N{"return", N{"var", "x"}})
					f := &Func{Name: "f0", Locals: []string{"x", "y"}, Body: body}
					out = append(out, &Program{Funcs: []*Func{f, h0(), h1()}, Tag: "order-family"})
				}
			}
		}
	}
	return out
}

// LoopFamily enumerates loop/jump shapes: nested loops with every combination of
// labelled/unlabelled break/continue at an input-controlled point, with trace
// points in condition and post statement.
func LoopFamily() []*Program {
	var out []*Program
	jumps := []N{{"break", ""}, {"continue", ""}, {"break", "O"}, {"continue", "O"}, {"break", "I"}, {"continue", "I"}, {"return", N{"lit", 9}}}
	for _, j1 := range jumps {
		for _, j2 := range jumps {
			for _, traced := range []bool{false, true} {
				k := 0
				site := func() int { k++; return k }
				cond := func(v string, n int) N {
					c := N{"lt", N{"var", v}, N{"lit", n}}
					if traced {
						return N{"trb", site(), []any(c)}
					}
					return c
				}
				post := func(v string) []N {
					if traced {
						return []N{{"addto", v, N{"tr", site(), N{"lit", 1}}}}
					}
					return []N{{"inc", v}}
				}
				inner := N{"for", "I", nodes([]N{{"assign", "j", N{"lit", 0}}}), []any(cond("j", 2)), nodes(post("j")), nodes([]N{
					{"if", N{"in"}, nodes([]N{j1}), nodes([]N{})},
					{"emit", site(), N{"add", N{"mul", N{"var", "i"}, N{"lit", 2}}, N{"var", "j"}}},
					{"if", N{"in"}, nodes([]N{j2}), nodes([]N{})},
				})}
				outer := N{"for", "O", nodes([]N{{"assign", "i", N{"lit", 0}}}), []any(cond("i", 2)), nodes(post("i")), nodes([]N{inner, {"emit", site(), N{"var", "i"}}})}
				f := &Func{Name: "f0", Locals: []string{"i", "j"}, Body: []N{outer, {"return", N{"add", N{"var", "i"}, N{"var", "j"}}}}}
				out = append(out, &Program{Funcs: []*Func{f}, Tag: "loop-family"})
			}
		}
	}
	return out
}

// usedLabels collects the labels that are the target of a break/continue (Go rejects unused labels).
func usedLabels(ss []any, into map[string]bool) {
	for _, x := range ss {
		s := x.([]any)
		switch s[0] {
		case "break", "continue":
			if s[1] != "" {
				into[s[1].(string)] = true
			}
		case "if":
			usedLabels(s[2].([]any), into)
			usedLabels(s[3].([]any), into)
		case "for":
			usedLabels(s[5].([]any), into)
		case "range":
			usedLabels(s[7].([]any), into)
		case "switch":
			for _, c := range s[3].([]any) {
				usedLabels(c.([]any)[2].([]any), into)
			}
		case "closure":
			usedLabels(s[2].([]any), into)
		}
	}
}

func dropUnusedLabels(ss []any, used map[string]bool) {
	for _, x := range ss {
		s := x.([]any)
		switch s[0] {
		case "if":
			dropUnusedLabels(s[2].([]any), used)
			dropUnusedLabels(s[3].([]any), used)
		case "for":
			if l, _ := s[1].(string); l != "" && !used[l] {
				s[1] = ""
			}
			dropUnusedLabels(s[5].([]any), used)
		case "range":
			if l, _ := s[1].(string); l != "" && !used[l] {
				s[1] = ""
			}
			dropUnusedLabels(s[7].([]any), used)
		case "switch":
			if l, _ := s[4].(string); l != "" && !used[l] {
				s[4] = ""
			}
			for _, c := range s[3].([]any) {
				dropUnusedLabels(c.([]any)[2].([]any), used)
			}
		}
	}
}

// Normalise removes labels nobody jumps to (the program handed to TLC and the
// rendered one must be the same program).
func (p *Program) Normalise() {
	for _, f := range p.Funcs {
		body := nodes(f.Body)
		used := map[string]bool{}
		usedLabels(body, used)
		dropUnusedLabels(body, used)
	}
}
