package minigo

import "fmt"

// prog assembles a program: f0 first.
func prog(tag, desc string, globals []Var, f0 *Func, others ...*Func) *Program {
	return &Program{Tag: tag, Desc: desc, Globals: globals, Funcs: append([]*Func{f0}, others...)}
}

// cont is a container of three ints used by the assignment families.
type cont struct {
	kind  string
	decl  func(f *fb)
	setup []N
	el    func(i N) N // the element as expression / l-value
	dump  func(k int) N
}

func containers() []cont {
	three := func(x, y, z int) (N, N, N) { return lit(x), lit(y), lit(z) }
	return []cont{
		{kind: "sl", decl: func(f *fb) { f.local("s", "sl") },
			setup: []N{set(vr("s"), sllit(three(10, 20, 30)))},
			el:    func(i N) N { return idx("sl", vr("s"), i) },
			dump:  func(k int) N { return dump(k, "sl", vr("s")) }},
		{kind: "arr", decl: func(f *fb) { f.local("ar", "arr") },
			setup: []N{set(vr("ar"), arrlit(three(10, 20, 30)))},
			el:    func(i N) N { return idx("arr", vr("ar"), i) },
			dump:  func(k int) N { return dump(k, "arr", vr("ar")) }},
		{kind: "pa", decl: func(f *fb) { f.local("ar", "arr").local("p", "parr") },
			setup: []N{set(vr("ar"), arrlit(three(10, 20, 30))), set(vr("p"), addr("ar"))},
			el:    func(i N) N { return idx("pa", vr("p"), i) },
			dump:  func(k int) N { return dump(k, "arr", vr("ar")) }},
		{kind: "map", decl: func(f *fb) { f.local("m", "map") },
			setup: []N{set(vr("m"), maplit(lit(0), lit(10), lit(1), lit(20), lit(2), lit(30)))},
			el:    func(i N) N { return idx("map", vr("m"), i) },
			dump:  func(k int) N { return dump(k, "map", vr("m")) }},
	}
}

// AssignOrderFamily enumerates assignments whose left-hand operands are changed by
// the same statement or by calls on the right: tuple assignments (index and pointer
// operands on the left and all right-hand sides are evaluated first, in order, then
// the assignments happen left to right), assignments from a call with two results,
// element swaps and rotations, op-assignments and ++ whose operands must be
// evaluated exactly once, run-time panics of a later target after an earlier one was
// assigned; every operand plain or wrapped in a trace point.
func AssignOrderFamily() []*Program {
	const tag = "assign-order-family"
	var out []*Program
	for _, traced := range []bool{false, true} {
		for _, c := range containers() {
			c := c
			mk := func(name string, extra func(f *fb, st *sites, T func(N) N) (globals []Var, pre []N, stmt []N, post []N, others []*Func)) {
				st := &sites{}
				T := func(e N) N {
					if traced {
						return tr(st.next(), e)
					}
					return e
				}
				f := newFunc("f0").locals("int", "i", "j", "x")
				c.decl(f)
				globals, pre, stmt, post, others := extra(f, st, T)
				body := append([]N{}, c.setup...)
				body = append(body, pre...)
				body = append(body, stmt...)
				body = append(body, emit(st.next(), vr("i")), emit(st.next(), vr("j")), emit(st.next(), vr("x")), c.dump(st.next()))
				body = append(body, post...)
				body = append(body, ret(vr("i")))
				out = append(out, prog(tag, fmt.Sprintf("%s/%s/traced=%v", name, c.kind, traced), globals, f.body(body...), others...))
			}
			type ex = func(f *fb, st *sites, T func(N) N) ([]Var, []N, []N, []N, []*Func)
			simple := func(stmt func(T func(N) N) []N) ex {
				return func(f *fb, st *sites, T func(N) N) ([]Var, []N, []N, []N, []*Func) {
					return nil, nil, stmt(T), nil, nil
				}
			}
			// i, c[i] = 1, 9: the index is the OLD i
			mk("i_then_elem", simple(func(T func(N) N) []N {
				return []N{massign([]N{vr("i"), c.el(T(vr("i")))}, []N{T(lit(1)), T(lit(9))})}
			}))
			mk("elem_then_i", simple(func(T func(N) N) []N {
				return []N{massign([]N{c.el(T(vr("i"))), vr("i")}, []N{T(lit(9)), T(lit(1))})}
			}))
			mk("i_j_elem_sum", simple(func(T func(N) N) []N {
				return []N{massign([]N{vr("i"), vr("j"), c.el(T(add(vr("i"), vr("j"))))}, []N{T(lit(1)), T(lit(1)), T(lit(9))})}
			}))
			// i, c[i] = two()
			mk("from_call", func(f *fb, st *sites, T func(N) N) ([]Var, []N, []N, []N, []*Func) {
				two := newFunc("two").results("int", "int").body(retN(T(lit(1)), T(lit(9))))
				return nil, nil, []N{assignN([]N{vr("i"), c.el(T(vr("i")))}, call("two"))}, nil, []*Func{two}
			})
			mk("swap", simple(func(T func(N) N) []N {
				return []N{assign("j", lit(2)), massign([]N{c.el(T(vr("i"))), c.el(T(vr("j")))}, []N{c.el(T(vr("j"))), c.el(T(vr("i")))})}
			}))
			mk("rotate", simple(func(T func(N) N) []N {
				return []N{massign([]N{c.el(lit(0)), c.el(T(lit(1))), c.el(lit(2))}, []N{c.el(T(lit(1))), c.el(lit(2)), c.el(T(lit(0)))})}
			}))
			// the container variable itself is reassigned by the same statement
			switch c.kind {
			case "sl":
				mk("container_reassigned", func(f *fb, st *sites, T func(N) N) ([]Var, []N, []N, []N, []*Func) {
					f.local("s2", "sl").local("o", "sl")
					return nil, []N{set(vr("s2"), sllit(lit(7), lit(8), lit(9))), set(vr("o"), vr("s"))},
						[]N{massign([]N{vr("s"), idx("sl", vr("s"), T(lit(0)))}, []N{vr("s2"), T(lit(5))})},
						[]N{dump(st.next(), "sl", vr("o")), dump(st.next(), "sl", vr("s2"))}, nil
				})
			case "map":
				mk("container_reassigned", func(f *fb, st *sites, T func(N) N) ([]Var, []N, []N, []N, []*Func) {
					f.local("m2", "map").local("o", "map")
					return nil, []N{set(vr("m2"), maplit(lit(7), lit(70))), set(vr("o"), vr("m"))},
						[]N{massign([]N{vr("m"), idx("map", vr("m"), T(lit(1)))}, []N{vr("m2"), T(lit(5))})},
						[]N{dump(st.next(), "map", vr("o")), dump(st.next(), "map", vr("m2"))}, nil
				})
			case "pa":
				mk("container_reassigned", func(f *fb, st *sites, T func(N) N) ([]Var, []N, []N, []N, []*Func) {
					f.local("ar2", "arr").local("p2", "parr")
					return nil, []N{set(vr("ar2"), arrlit(lit(7), lit(8), lit(9))), set(vr("p2"), addr("ar2"))},
						[]N{massign([]N{vr("p"), idx("pa", vr("p"), T(lit(1)))}, []N{vr("p2"), T(lit(5))})},
						[]N{dump(st.next(), "arr", vr("ar2"))}, nil
				})
			}
			// c[cnt()] += 5, c[cnt()]++: the operands are evaluated exactly once
			cnt := func() *Func {
				return newFunc("cnt").body(N{"inc", "gc"}, emit(90, vr("gc")), ret(vr("gc")))
			}
			mk("opassign_once", func(f *fb, st *sites, T func(N) N) ([]Var, []N, []N, []N, []*Func) {
				return []Var{{"gc", "int"}}, nil, []N{opset("add", c.el(T(call("cnt"))), T(lit(5)))}, nil, []*Func{cnt()}
			})
			mk("incdec_once", func(f *fb, st *sites, T func(N) N) ([]Var, []N, []N, []N, []*Func) {
				return []Var{{"gc", "int"}}, nil, []N{incdec(c.el(T(call("cnt"))), 1), incdec(c.el(T(call("cnt"))), -1)}, nil, []*Func{cnt()}
			})
			mk("opassign_mul", simple(func(T func(N) N) []N {
				return []N{opset("mul", c.el(T(lit(1))), T(lit(3))), opset("sub", c.el(T(lit(2))), c.el(T(lit(0))))}
			}))
			// c[tr(gi)] = seti(): the index operand is evaluated before the call on the right
			seti := func(T func(N) N) *Func {
				return newFunc("seti").body(set(vr("gi"), lit(2)), ret(T(lit(9))))
			}
			mk("rhs_call_changes_index", func(f *fb, st *sites, T func(N) N) ([]Var, []N, []N, []N, []*Func) {
				k := st.next()
				return []Var{{"gi", "int"}}, nil, []N{set(c.el(tr(k, vr("gi"))), call("seti"))}, []N{emit(st.next(), vr("gi"))}, []*Func{seti(T)}
			})
			mk("rhs_call_changes_index_tuple", func(f *fb, st *sites, T func(N) N) ([]Var, []N, []N, []N, []*Func) {
				k := st.next()
				return []Var{{"gi", "int"}}, nil, []N{massign([]N{c.el(tr(k, vr("gi"))), vr("x")}, []N{call("seti"), T(lit(1))})}, []N{emit(st.next(), vr("gi"))}, []*Func{seti(T)}
			})
			// order of the operand calls of a single assignment
			if traced {
				for v := 0; v < 3; v++ {
					v := v
					mk(fmt.Sprintf("single_order%d", v), func(f *fb, st *sites, T func(N) N) ([]Var, []N, []N, []N, []*Func) {
						var l, r N = lit(1), lit(5)
						if v != 1 {
							l = tr(st.next(), l)
						}
						if v != 0 {
							r = tr(st.next(), r)
						}
						return nil, nil, []N{set(c.el(l), r)}, nil, nil
					})
				}
			}
			// a later target panics after an earlier one was assigned
			mk("later_target_panics", func(f *fb, st *sites, T func(N) N) ([]Var, []N, []N, []N, []*Func) {
				d := newFunc("d0").lit().body(emit(st.next(), vr("gx")), ret(lit(0)))
				var bad N
				pre := []N{assign("j", lit(5)), deferS(callf(funclit("d0")))}
				if c.kind == "map" {
					pre = append(pre, set(vr("m"), nilmap()))
					bad = c.el(T(lit(1)))
				} else {
					bad = c.el(T(vr("j")))
				}
				return []Var{{"gx", "int"}}, pre, []N{massign([]N{vr("gx"), bad, vr("i")}, []N{T(lit(1)), T(lit(2)), T(lit(3))})}, nil, []*Func{d}
			})
		}
		// pointers and the struct
		mkp := func(name string, build func(f *fb, st *sites, T func(N) N) (globals []Var, body []N, others []*Func)) {
			st := &sites{}
			T := func(e N) N {
				if traced {
					return tr(st.next(), e)
				}
				return e
			}
			f := newFunc("f0").locals("int", "x", "y").locals("pT", "pt", "qt", "o").locals("pint", "pi", "qi").local("t", "T")
			globals, body, others := build(f, st, T)
			pre := []N{set(vr("pt"), newT(lit(1), lit(2))), set(vr("qt"), newT(lit(3), lit(4))), set(vr("o"), vr("pt")),
				assign("x", lit(1)), assign("y", lit(2)), set(vr("pi"), addr("x")), set(vr("qi"), addr("y")), set(vr("t"), tlit(lit(1), lit(2)))}
			body = append(pre, body...)
			body = append(body, emit(st.next(), vr("x")), emit(st.next(), vr("y")), dump(st.next(), "T", deref(vr("o"))), dump(st.next(), "T", deref(vr("qt"))), dump(st.next(), "T", vr("t")))
			body = append(body, ifS(peq(vr("pt"), vr("qt")), []N{emit(st.next(), lit(1))}, []N{emit(st.next(), lit(0))}))
			body = append(body, ifS(peq(vr("pi"), vr("qi")), []N{emit(st.next(), lit(1))}, []N{emit(st.next(), lit(0))}))
			body = append(body, ret(vr("x")))
			out = append(out, prog(tag, fmt.Sprintf("%s/traced=%v", name, traced), globals, f.body(body...), others...))
		}
		only := func(stmt func(T func(N) N) []N) func(f *fb, st *sites, T func(N) N) ([]Var, []N, []*Func) {
			return func(f *fb, st *sites, T func(N) N) ([]Var, []N, []*Func) { return nil, stmt(T), nil }
		}
		mkp("ptr_then_field", only(func(T func(N) N) []N {
			return []N{massign([]N{vr("pt"), pfld(vr("pt"), 2)}, []N{vr("qt"), T(lit(5))})}
		}))
		mkp("field_then_ptr", only(func(T func(N) N) []N {
			return []N{massign([]N{pfld(vr("pt"), 2), vr("pt")}, []N{T(lit(5)), vr("qt")})}
		}))
		mkp("ptr_then_deref", only(func(T func(N) N) []N {
			return []N{massign([]N{vr("pi"), deref(vr("pi"))}, []N{vr("qi"), T(lit(5))})}
		}))
		mkp("deref_then_ptr", only(func(T func(N) N) []N {
			return []N{massign([]N{deref(vr("pi")), vr("pi")}, []N{T(lit(5)), vr("qi")})}
		}))
		mkp("ptr_then_whole", only(func(T func(N) N) []N {
			return []N{massign([]N{vr("pt"), deref(vr("pt"))}, []N{vr("qt"), tlit(T(lit(7)), T(lit(8)))})}
		}))
		mkp("swap_fields", only(func(T func(N) N) []N {
			return []N{massign([]N{fld(vr("t"), 1), fld(vr("t"), 2)}, []N{T(fld(vr("t"), 2)), T(fld(vr("t"), 1))}),
				massign([]N{pfld(vr("pt"), 1), pfld(vr("qt"), 1)}, []N{T(pfld(vr("qt"), 1)), T(pfld(vr("pt"), 1))})}
		}))
		mkp("swap_derefs", only(func(T func(N) N) []N {
			return []N{massign([]N{deref(vr("pi")), deref(vr("qi"))}, []N{T(deref(vr("qi"))), T(deref(vr("pi")))})}
		}))
		mkp("swap_derefs_aliased", only(func(T func(N) N) []N {
			return []N{set(vr("qi"), vr("pi")), massign([]N{deref(vr("pi")), deref(vr("qi"))}, []N{T(add(deref(vr("qi")), lit(10))), T(add(deref(vr("pi")), lit(20)))})}
		}))
		mkp("struct_value_copy", only(func(T func(N) N) []N {
			return []N{set(vr("t"), deref(vr("pt"))), set(pfld(vr("pt"), 1), T(lit(50))), set(deref(vr("qt")), vr("t")), set(fld(vr("t"), 2), T(lit(60)))}
		}))
		mkp("opassign_through_call", func(f *fb, st *sites, T func(N) N) ([]Var, []N, []*Func) {
			getp := newFunc("getp").results("pT").body(emit(91, pfld(vr("gp"), 1)), ret(vr("gp")))
			getpi := newFunc("getpi").results("pint").body(emit(92, deref(vr("gpi"))), ret(vr("gpi")))
			return []Var{{"gp", "pT"}, {"gpi", "pint"}}, []N{set(vr("gp"), vr("pt")), set(vr("gpi"), vr("pi")),
				opset("add", pfld(call("getp"), 1), T(lit(5))), opset("mul", deref(call("getpi")), T(lit(3))), incdec(deref(call("getpi")), 1), incdec(pfld(call("getp"), 2), -1)}, []*Func{getp, getpi}
		})
		mkp("nil_deref_after_earlier_target", func(f *fb, st *sites, T func(N) N) ([]Var, []N, []*Func) {
			d := newFunc("d0").lit().body(emit(st.next(), vr("gx")), ret(lit(0)))
			return []Var{{"gx", "int"}}, []N{deferS(callf(funclit("d0"))), set(vr("pi"), null()),
				massign([]N{vr("gx"), deref(vr("pi")), vr("y")}, []N{T(lit(1)), T(lit(2)), T(lit(3))})}, []*Func{d}
		})
		mkp("nil_field_after_earlier_target", func(f *fb, st *sites, T func(N) N) ([]Var, []N, []*Func) {
			d := newFunc("d0").lit().body(emit(st.next(), vr("gx")), ret(lit(0)))
			return []Var{{"gx", "int"}}, []N{deferS(callf(funclit("d0"))), set(vr("pt"), null()),
				massign([]N{vr("gx"), pfld(vr("pt"), 1)}, []N{T(lit(1)), T(lit(2))})}, []*Func{d}
		})
	}
	return out
}

// SliceAliasFamily enumerates chains of n operations over three slice variables
// (s, t, u) that share backing arrays: sub-slices with and without a capacity
// limit, append within and beyond the capacity, element writes through either
// alias, overlapping copy, the delete idiom; the probes print every slice (length
// and elements) and, as operations of their own, capacities.
func SliceAliasFamily(n int) []*Program {
	const tag = "slice-alias-family"
	s, t, u := vr("s"), vr("t"), vr("u")
	type op struct {
		name string
		mk   func(st *sites) []N
	}
	ops := []op{
		{"t=s[1:3]", func(*sites) []N { return []N{set(t, slice("sl", s, lit(1), lit(3), nil))} }},
		{"t=s[1:2:3]", func(*sites) []N { return []N{set(t, slice("sl", s, lit(1), lit(2), lit(3)))} }},
		{"t=s[:2]", func(*sites) []N { return []N{set(t, slice("sl", s, nil, lit(2), nil))} }},
		{"t=append(t,7)", func(*sites) []N { return []N{set(t, appendE(t, lit(7)))} }},
		{"u=append(t,7,8,9)", func(*sites) []N { return []N{set(u, appendE(t, lit(7), lit(8), lit(9)))} }},
		{"s=append(s,6)", func(*sites) []N { return []N{set(s, appendE(s, lit(6)))} }},
		{"t[0]=50", func(*sites) []N { return []N{set(idx("sl", t, lit(0)), lit(50))} }},
		{"s[1]=60", func(*sites) []N { return []N{set(idx("sl", s, lit(1)), lit(60))} }},
		{"u=append(s[:1],s[2:]...)", func(*sites) []N {
			return []N{set(u, appendSl(slice("sl", s, nil, lit(1), nil), slice("sl", s, lit(2), nil, nil)))}
		}},
		{"copy(s[1:],s)", func(st *sites) []N { return []N{emit(st.next(), copyE(slice("sl", s, lit(1), nil, nil), s))} }},
		{"copy(s,t)", func(st *sites) []N { return []N{emit(st.next(), copyE(s, t))} }},
		{"t=t[1:]", func(*sites) []N { return []N{set(t, slice("sl", t, lit(1), nil, nil))} }},
		{"u=t[:cap(t)]", func(*sites) []N { return []N{set(u, slice("sl", t, nil, cp("sl", t), nil))} }},
		{"cap(t)", func(st *sites) []N { return []N{emit(st.next(), cp("sl", t))} }},
		{"cap(s)", func(st *sites) []N { return []N{emit(st.next(), cp("sl", s))} }},
		{"u=t;t=nil", func(*sites) []N { return []N{set(u, t), set(t, nilsl())} }},
	}
	bases := []struct {
		name string
		init []N
	}{
		{"make(3,5)", []N{set(s, makeSl(lit(3), lit(5))), set(idx("sl", s, lit(0)), lit(1)), set(idx("sl", s, lit(1)), lit(2)), set(idx("sl", s, lit(2)), lit(3))}},
		{"lit4", []N{set(s, sllit(lit(1), lit(2), lit(3), lit(4)))}},
	}
	var out []*Program
	var rec func(chain []int)
	rec = func(chain []int) {
		if len(chain) < n {
			for i := range ops {
				rec(append(append([]int{}, chain...), i))
			}
			return
		}
		for _, b := range bases {
			st := &sites{}
			f := newFunc("f0").locals("sl", "s", "t", "u")
			body := append([]N{}, b.init...)
			desc := b.name
			for _, i := range chain {
				body = append(body, ops[i].mk(st)...)
				desc += "; " + ops[i].name
			}
			body = append(body, dump(st.next(), "sl", s), dump(st.next(), "sl", t), dump(st.next(), "sl", u), ret(ln("sl", s)))
			out = append(out, prog(tag, desc, nil, f.body(body...)))
		}
	}
	rec(nil)
	return out
}

// the methods of the struct type used by the families: sum (value receiver: prints and
// returns a+b), inc (pointer receiver: adds d to a), setv (value receiver: writes its copy)
func methods(st *sites, traced bool) []*Func {
	T := func(e N) N {
		if traced {
			return tr(st.next(), e)
		}
		return e
	}
	return []*Func{
		newFunc("sum").recv("val", "r").body(emit(st.next(), fld(vr("r"), 1)), ret(T(add(fld(vr("r"), 1), fld(vr("r"), 2))))),
		// (the operand is traced in a statement of its own: when r is nil, whether r.a += f() panics before or after calling f is not specified)
		newFunc("inc").recv("ptr", "r").param("d", "int").body(assign("d", T(vr("d"))), opset("add", pfld(vr("r"), 1), vr("d")), ret(pfld(vr("r"), 1))),
		newFunc("setv").recv("val", "r").body(set(fld(vr("r"), 1), lit(100)), ret(T(fld(vr("r"), 1)))),
	}
}

// DeferFamily enumerates deferred calls: when the arguments, the function value and
// the receiver are evaluated (at the defer statement), LIFO order, loops with defer,
// closures seeing the final values, deferred calls changing named results, and the
// result of `return expr`: with unnamed results the value computed before the deferred
// calls run is returned whatever they modify, also when a deferred call suspends.
func DeferFamily() []*Program {
	const tag = "defer-family"
	var out []*Program
	// ---- return expression kinds x named / unnamed results x what the deferred call
	// modifies x which deferred call suspends
	for _, kind := range []string{"var", "field", "index", "arith", "global", "call", "tuple"} {
		for _, named := range []bool{false, true} {
			for _, mod := range []string{"none", "operand", "result"} {
				if mod == "result" && !named {
					continue
				}
				for susp := 0; susp <= 2; susp++ {
					st := &sites{}
					g := newFunc("g").local("x", "int").local("t", "T").local("s", "sl").local("i", "int")
					two := kind == "tuple"
					if named {
						g.named("r", "int")
						if two {
							g.named("r2", "int")
						}
					} else if two {
						g.results("int", "int")
					}
					var d1 []N
					if susp == 1 {
						d1 = append(d1, exprS(tr(st.next(), lit(0))))
					}
					switch mod {
					case "operand":
						d1 = append(d1, assign("x", lit(100)), set(fld(vr("t"), 1), lit(100)), set(fld(vr("t"), 2), lit(200)), set(idx("sl", vr("s"), lit(0)), lit(100)), set(vr("gv"), lit(100)))
					case "result":
						d1 = append(d1, opset("add", vr("r"), lit(1000)))
					}
					if susp == 1 {
						d1 = append(d1, exprS(tr(st.next(), lit(1))))
					}
					d1 = append(d1, ret(lit(0)))
					fd1 := newFunc("d1").lit().body(d1...)
					fd2 := newFunc("d2").lit().body(exprS(tr(st.next(), lit(2))), ret(lit(0)))
					idf := newFunc("idf").param("z", "int").body(ret(add(vr("z"), lit(1))))
					body := []N{assign("x", lit(3)), set(vr("t"), tlit(lit(3), lit(4))), set(vr("s"), sllit(lit(3), lit(4))), set(vr("gv"), lit(3))}
					if susp == 2 {
						body = append(body, deferS(callf(funclit("d2")))) // runs after d1
					}
					body = append(body, deferS(callf(funclit("d1"))))
					switch kind {
					case "var":
						body = append(body, ret(vr("x")))
					case "field":
						body = append(body, ret(fld(vr("t"), 1)))
					case "index":
						body = append(body, ret(add(idx("sl", vr("s"), vr("i")), lit(1))))
					case "arith":
						body = append(body, ret(add(mul(vr("x"), lit(2)), lit(1))))
					case "global":
						body = append(body, ret(vr("gv")))
					case "call":
						body = append(body, ret(call("idf", vr("x"))))
					case "tuple":
						body = append(body, retN(vr("x"), fld(vr("t"), 2)))
					}
					f0 := newFunc("f0").locals("int", "a", "b")
					var main []N
					if two {
						main = []N{assignN([]N{vr("a"), vr("b")}, call("g")), emit(st.next(), vr("a")), emit(st.next(), vr("b"))}
					} else {
						main = []N{emit(st.next(), call("g"))}
					}
					main = append(main, emit(st.next(), vr("gv")), ret(lit(0)))
					out = append(out, prog(tag, fmt.Sprintf("return/%s/named=%v/mod=%s/susp=%d", kind, named, mod, susp), []Var{{"gv", "int"}},
						f0.body(main...), g.body(body...), fd1, fd2, idf))
				}
			}
		}
	}
	// ---- evaluation time of the deferred call's operands, order, loops
	for _, traced := range []bool{false, true} {
		mk := func(name string, build func(f *fb, st *sites, T func(N) N) (globals []Var, body []N, others []*Func)) {
			st := &sites{}
			T := func(e N) N {
				if traced {
					return tr(st.next(), e)
				}
				return e
			}
			f := newFunc("f0").locals("int", "x", "i").local("t", "T").local("pt", "pT").local("f", "fn").local("f1", "fn1")
			globals, body, others := build(f, st, T)
			body = append([]N{assign("x", lit(1)), set(vr("t"), tlit(lit(1), lit(2))), set(vr("pt"), newT(lit(3), lit(4)))}, body...)
			body = append(body, ret(T(vr("x"))))
			others = append(others, newFunc("show").param("z", "int").body(emit(95, vr("z")), ret(vr("z"))))
			others = append(others, methods(st, traced)...)
			out = append(out, prog(tag, fmt.Sprintf("%s/traced=%v", name, traced), globals, f.body(body...), others...))
		}
		type bf = func(f *fb, st *sites, T func(N) N) ([]Var, []N, []*Func)
		mk("args_at_defer", func(f *fb, st *sites, T func(N) N) ([]Var, []N, []*Func) {
			return nil, []N{deferS(call("show", T(vr("x")))), assign("x", lit(2)), deferEmit(st.next(), T(add(vr("x"), lit(10)))), assign("x", lit(3))}, nil
		})
		mk("closure_sees_final", func(f *fb, st *sites, T func(N) N) ([]Var, []N, []*Func) {
			d := newFunc("d0").lit().body(emit(st.next(), T(vr("x"))), ret(lit(0)))
			return nil, []N{deferS(callf(funclit("d0"))), assign("x", lit(2))}, []*Func{d}
		})
		mk("closure_with_param", func(f *fb, st *sites, T func(N) N) ([]Var, []N, []*Func) {
			d := newFunc("d0").param("z", "int").lit().body(emit(st.next(), add(mul(vr("z"), lit(10)), vr("x"))), ret(lit(0)))
			return nil, []N{deferS(callf(funclit("d0"), T(vr("x")))), assign("x", lit(2))}, []*Func{d}
		})
		mk("function_value_at_defer", func(f *fb, st *sites, T func(N) N) ([]Var, []N, []*Func) {
			d0 := newFunc("d0").lit().body(emit(st.next(), lit(0)), ret(lit(0)))
			d1 := newFunc("d1").lit().body(emit(st.next(), lit(1)), ret(lit(0)))
			return nil, []N{set(vr("f"), funclit("d0")), deferS(callf(vr("f"))), set(vr("f"), funclit("d1")), deferS(callf(vr("f"))), set(vr("f"), funclit("d0"))}, []*Func{d0, d1}
		})
		mk("lifo", func(f *fb, st *sites, T func(N) N) ([]Var, []N, []*Func) {
			return nil, []N{deferS(call("show", T(lit(1)))), deferS(call("show", T(lit(2)))), deferS(call("show", T(lit(3))))}, nil
		})
		mk("loop_args", func(f *fb, st *sites, T func(N) N) ([]Var, []N, []*Func) {
			return nil, []N{forS("", []N{assign("i", lit(0))}, lt(vr("i"), lit(3)), []N{inc("i")}, []N{deferS(call("show", T(vr("i"))))})}, nil
		})
		mk("loop_closure", func(f *fb, st *sites, T func(N) N) ([]Var, []N, []*Func) {
			d := newFunc("d0").lit().body(emit(st.next(), T(vr("i"))), ret(lit(0)))
			return nil, []N{forS("", []N{assign("i", lit(0))}, lt(vr("i"), lit(3)), []N{inc("i")}, []N{deferS(callf(funclit("d0")))})}, []*Func{d}
		})
		mk("range_loop_closure", func(f *fb, st *sites, T func(N) N) ([]Var, []N, []*Func) {
			d := newFunc("d0").lit().body(emit(st.next(), T(add(mul(vr("k"), lit(10)), vr("v")))), ret(lit(0)))
			return nil, []N{rangeS("", "sl", "k", "v", true, sllit(lit(5), lit(6), lit(7)), []N{deferS(callf(funclit("d0"))), deferS(call("show", T(vr("v"))))})}, []*Func{d}
		})
		mk("value_receiver_at_defer", func(f *fb, st *sites, T func(N) N) ([]Var, []N, []*Func) {
			return nil, []N{deferS(mcall(vr("t"), "sum")), set(fld(vr("t"), 1), lit(10)), deferS(mcall(deref(vr("pt")), "sum")), set(pfld(vr("pt"), 1), lit(30))}, nil
		})
		mk("pointer_receiver_at_defer", func(f *fb, st *sites, T func(N) N) ([]Var, []N, []*Func) {
			return nil, []N{deferEmit(st.next(), fld(vr("t"), 1)), deferS(mcall(addr("t"), "inc", T(vr("x")))), assign("x", lit(5)), set(fld(vr("t"), 1), lit(10)),
				deferS(mcall(vr("pt"), "inc", T(vr("x")))), set(vr("pt"), newT(lit(7), lit(8)))}, nil
		})
		mk("method_value_at_defer", func(f *fb, st *sites, T func(N) N) ([]Var, []N, []*Func) {
			return nil, []N{set(vr("f"), mval(vr("t"), "sum")), set(fld(vr("t"), 1), lit(10)), deferS(callf(vr("f"))),
				set(vr("f1"), mval(addr("t"), "inc")), deferS(callf(vr("f1"), T(lit(2)))), set(fld(vr("t"), 1), lit(20))}, nil
		})
		mk("named_result_changed", func(f *fb, st *sites, T func(N) N) ([]Var, []N, []*Func) {
			d := newFunc("d0").lit().body(opset("mul", vr("r"), lit(2)), emit(st.next(), vr("r")), ret(lit(0)))
			g := newFunc("g").named("r", "int").body(deferS(callf(funclit("d0"))), ret(T(lit(5))))
			d2 := newFunc("d2").lit().body(opset("add", vr("q"), lit(1)), ret(lit(0)))
			h := newFunc("h").named("q", "int").body(deferS(callf(funclit("d2"))), assign("q", T(lit(7))), ret0())
			return nil, []N{emit(st.next(), call("g")), emit(st.next(), call("h"))}, []*Func{g, d, h, d2}
		})
		mk("two_named_results", func(f *fb, st *sites, T func(N) N) ([]Var, []N, []*Func) {
			d := newFunc("d0").lit().body(massign([]N{vr("r"), vr("q")}, []N{vr("q"), vr("r")}), ret(lit(0)))
			g := newFunc("g").named("r", "int").named("q", "int").body(deferS(callf(funclit("d0"))), retN(T(lit(1)), T(lit(2))))
			return nil, []N{assignN([]N{vr("x"), vr("i")}, call("g")), emit(st.next(), vr("x")), emit(st.next(), vr("i"))}, []*Func{g, d}
		})
		mk("defer_then_panic", func(f *fb, st *sites, T func(N) N) ([]Var, []N, []*Func) {
			d := newFunc("d0").lit().body(emit(st.next(), T(vr("x"))), ret(lit(0)))
			return nil, []N{deferS(callf(funclit("d0"))), deferS(call("show", T(lit(4)))), assign("x", lit(2)), panicS(T(lit(7))), assign("x", lit(3))}, []*Func{d}
		})
		mk("deferred_panic_replaces", func(f *fb, st *sites, T func(N) N) ([]Var, []N, []*Func) {
			d := newFunc("d0").lit().body(emit(st.next(), T(vr("x"))), panicS(lit(8)), ret(lit(0)))
			return nil, []N{deferS(call("show", T(lit(4)))), deferS(callf(funclit("d0"))), deferS(call("show", lit(5))), panicS(T(lit(7)))}, []*Func{d}
		})
		mk("defer_in_callee_runs_first", func(f *fb, st *sites, T func(N) N) ([]Var, []N, []*Func) {
			g := newFunc("g").param("z", "int").body(deferS(call("show", T(add(vr("z"), lit(100))))), ret(T(vr("z"))))
			return nil, []N{deferS(call("show", lit(1))), emit(st.next(), add(call("g", lit(2)), call("g", lit(3))))}, []*Func{g}
		})
		mk("defer_in_closure", func(f *fb, st *sites, T func(N) N) ([]Var, []N, []*Func) {
			c := newFunc("c0").lit().body(deferS(call("show", T(vr("x")))), assign("x", lit(9)), ret(T(vr("x"))))
			return nil, []N{set(vr("f"), funclit("c0")), emit(st.next(), callf(vr("f"))), emit(st.next(), callf(vr("f")))}, []*Func{c}
		})
		var _ bf
	}
	return out
}

// MethodValueFamily enumerates method values and method calls on the struct type:
// value and pointer receivers reached through a variable or a pointer, the receiver
// bound (and, for a value receiver, copied) when the method value is evaluated, the
// variable changed between binding and call, the bound function called, passed to a
// helper, deferred; the receiver expression a plain variable or a call with a trace point.
func MethodValueFamily() []*Program {
	const tag = "method-value-family"
	var out []*Program
	for _, rk := range []string{"val/var", "ptr/var", "val/ptr", "ptr/ptr"} {
		for _, mut := range []string{"none", "field", "whole", "repoint"} {
			if mut == "repoint" && (rk == "val/var" || rk == "ptr/var") {
				continue
			}
			for _, use := range []string{"bind-call", "bind-pass", "bind-defer", "direct-call", "direct-defer"} {
				for _, traced := range []bool{false, true} {
					st := &sites{}
					f := newFunc("f0").local("t", "T").locals("pT", "pt", "qt").local("f", "fn").local("f1", "fn1")
					body := []N{set(vr("t"), tlit(lit(1), lit(2))), set(vr("pt"), newT(lit(3), lit(4))), set(vr("qt"), newT(lit(5), lit(6))), set(vr("gp"), vr("pt"))}
					getp := newFunc("getp").param("z", "int").results("pT").body(emit(st.next(), vr("z")), ret(vr("gp")))
					// receiver expression
					var recv N
					ptrRecv := rk[:3] == "ptr"
					viaPtr := rk[4:] == "ptr"
					switch {
					case !viaPtr && !ptrRecv:
						recv = vr("t")
					case !viaPtr && ptrRecv:
						recv = addr("t")
					case viaPtr && traced:
						recv = call("getp", tr(st.next(), lit(0)))
					default:
						recv = vr("pt")
					}
					if viaPtr && !ptrRecv {
						recv = deref(recv)
					}
					meth, fv := "sum", "f"
					var args []N
					if ptrRecv {
						meth, fv = "inc", "f1"
						args = []N{lit(5)}
						if traced {
							args = []N{tr(st.next(), lit(5))}
						}
					}
					var mutate []N
					switch mut {
					case "field":
						if viaPtr {
							mutate = []N{set(pfld(vr("pt"), 1), lit(10))}
						} else {
							mutate = []N{set(fld(vr("t"), 1), lit(10))}
						}
					case "whole":
						if viaPtr {
							mutate = []N{set(deref(vr("pt")), tlit(lit(7), lit(8)))}
						} else {
							mutate = []N{set(vr("t"), tlit(lit(7), lit(8)))}
						}
					case "repoint":
						mutate = []N{set(vr("pt"), vr("qt")), set(vr("gp"), vr("qt"))}
					}
					apply := newFunc("apply").param("h", "fn").body(ret(add(callf(vr("h")), lit(1000))))
					apply1 := newFunc("apply1").param("h", "fn1").param("z", "int").body(ret(add(callf(vr("h"), vr("z")), lit(1000))))
					switch use {
					case "bind-call":
						body = append(body, set(vr(fv), mval(recv, meth)))
						body = append(body, mutate...)
						body = append(body, emit(st.next(), callf(vr(fv), args...)), emit(st.next(), callf(vr(fv), args...)))
					case "bind-pass":
						body = append(body, set(vr(fv), mval(recv, meth)))
						body = append(body, mutate...)
						if ptrRecv {
							body = append(body, emit(st.next(), call("apply1", append([]N{vr(fv)}, args...)...)))
						} else {
							body = append(body, emit(st.next(), call("apply", vr(fv))))
						}
					case "bind-defer":
						body = append(body, set(vr(fv), mval(recv, meth)), deferS(callf(vr(fv), args...)))
						body = append(body, mutate...)
					case "direct-call":
						body = append(body, mutate...)
						body = append(body, emit(st.next(), mcall(recv, meth, args...)))
					case "direct-defer":
						body = append(body, deferS(mcall(recv, meth, args...)))
						body = append(body, mutate...)
					}
					body = append(body, dump(st.next(), "T", vr("t")), dump(st.next(), "T", deref(vr("pt"))), dump(st.next(), "T", deref(vr("qt"))), ret(lit(0)))
					fs := append([]*Func{getp, apply, apply1}, methods(st, traced)...)
					out = append(out, prog(tag, fmt.Sprintf("%s/%s/%s/traced=%v", rk, mut, use, traced), []Var{{"gp", "pT"}}, f.body(body...), fs...))
				}
			}
		}
	}
	// nil receivers and the copy made by a value receiver
	for _, traced := range []bool{false, true} {
		st := &sites{}
		f := newFunc("f0").local("t", "T").local("pt", "pT").local("f", "fn")
		body := []N{set(vr("t"), tlit(lit(1), lit(2))), emit(st.next(), mcall(vr("t"), "setv")), dump(st.next(), "T", vr("t")),
			set(vr("f"), mval(vr("t"), "setv")), emit(st.next(), callf(vr("f"))), emit(st.next(), callf(vr("f"))), dump(st.next(), "T", vr("t")),
			emit(st.next(), lit(0)), set(vr("f"), mval(deref(vr("pt")), "sum")), emit(st.next(), lit(1)), ret(lit(0))}
		out = append(out, prog(tag, fmt.Sprintf("setv-and-nil-bind/traced=%v", traced), nil, f.body(body...), methods(st, traced)...))
		st = &sites{}
		f = newFunc("f0").local("pt", "pT").local("f1", "fn1")
		body = []N{set(vr("f1"), mval(vr("pt"), "inc")), emit(st.next(), lit(1)), emit(st.next(), callf(vr("f1"), lit(2))), ret(lit(0))}
		out = append(out, prog(tag, fmt.Sprintf("nil-pointer-receiver-bound/traced=%v", traced), nil, f.body(body...), methods(st, traced)...))
	}
	return out
}

// GotoFamily enumerates goto shapes: backward loops, forward skips, jumps out of
// nested loops / switches / range loops to labels before and after them, two labels
// calling each other, with deferred calls pending and named results; conditions and
// the statements around the labels plain or with trace points.
func GotoFamily() []*Program {
	const tag = "goto-family"
	var out []*Program
	for _, traced := range []bool{false, true} {
		mk := func(name string, build func(st *sites, T func(N) N, B func(N) N) []N, others ...*Func) {
			st := &sites{}
			T := func(e N) N {
				if traced {
					return tr(st.next(), e)
				}
				return e
			}
			B := func(c N) N {
				if traced {
					return trb(st.next(), c)
				}
				return c
			}
			f := newFunc("f0").locals("int", "i", "j", "n")
			body := build(st, T, B)
			body = append(body, ret(T(vr("n"))))
			out = append(out, prog(tag, fmt.Sprintf("%s/traced=%v", name, traced), nil, f.body(body...), others...))
		}
		mk("backward_loop", func(st *sites, T func(N) N, B func(N) N) []N {
			return []N{label("L"), ifS(B(lt(vr("i"), lit(3))), []N{emit(st.next(), T(vr("i"))), inc("i"), gotoS("L")}, nil), emit(st.next(), vr("i"))}
		})
		mk("forward_skip", func(st *sites, T func(N) N, B func(N) N) []N {
			return []N{ifS(B(in()), []N{gotoS("E")}, nil), emit(st.next(), T(lit(1))), inc("n"), label("E"), emit(st.next(), T(lit(2)))}
		})
		mk("forward_skip_chain", func(st *sites, T func(N) N, B func(N) N) []N {
			return []N{ifS(B(in()), []N{gotoS("A")}, []N{gotoS("B")}), label("A"), emit(st.next(), T(lit(1))), ifS(in(), []N{gotoS("C")}, nil),
				label("B"), emit(st.next(), T(lit(2))), inc("n"), label("C"), emit(st.next(), lit(3))}
		})
		mk("out_of_nested_loops", func(st *sites, T func(N) N, B func(N) N) []N {
			inner := forS("", []N{assign("j", lit(0))}, B(lt(vr("j"), lit(2))), []N{inc("j")}, []N{
				emit(st.next(), T(add(mul(vr("i"), lit(10)), vr("j")))), ifS(and(eq(vr("i"), lit(1)), in()), []N{gotoS("OUT")}, nil), inc("n")})
			return []N{forS("", []N{assign("i", lit(0))}, lt(vr("i"), lit(3)), []N{inc("i")}, []N{inner}), emit(st.next(), lit(99)), label("OUT"), emit(st.next(), T(vr("i")))}
		})
		mk("restart_loop", func(st *sites, T func(N) N, B func(N) N) []N {
			return []N{label("AGAIN"), inc("n"), forS("", []N{assign("i", lit(0))}, B(lt(vr("i"), lit(2))), []N{inc("i")}, []N{
				emit(st.next(), T(add(mul(vr("n"), lit(10)), vr("i")))), ifS(and(eq(vr("i"), lit(1)), lt(vr("n"), lit(3))), []N{gotoS("AGAIN")}, nil)}), emit(st.next(), vr("n"))}
		})
		mk("out_of_switch_in_loop", func(st *sites, T func(N) N, B func(N) N) []N {
			cls := []any{[]any{false, []any{[]any(lit(0))}, nodes([]N{emit(st.next(), lit(0))}), false},
				[]any{false, []any{[]any(T(lit(1)))}, nodes([]N{emit(st.next(), lit(1)), gotoS("DONE")}), false},
				[]any{true, []any{}, nodes([]N{emit(st.next(), lit(2))}), false}}
			sw := N{"switch", true, []any(T(vr("i"))), cls, ""}
			return []N{forS("", []N{assign("i", lit(0))}, lt(vr("i"), lit(3)), []N{inc("i")}, []N{sw, inc("n")}), label("DONE"), emit(st.next(), vr("i"))}
		})
		mk("out_of_range_loop", func(st *sites, T func(N) N, B func(N) N) []N {
			return []N{rangeS("", "sl", "k", "v", true, sllit(lit(5), lit(6), lit(7)), []N{emit(st.next(), T(vr("v"))), ifS(B(eq(vr("k"), lit(1))), []N{gotoS("END")}, nil), inc("n")}),
				emit(st.next(), lit(99)), label("END"), emit(st.next(), vr("n"))}
		})
		mk("ping_pong", func(st *sites, T func(N) N, B func(N) N) []N {
			return []N{label("A"), inc("n"), ifS(B(lt(lit(3), vr("n"))), []N{gotoS("E")}, nil), gotoS("B"), label("B"), emit(st.next(), T(vr("n"))), gotoS("A"), label("E"), emit(st.next(), lit(7))}
		})
		mk("inner_block_backward", func(st *sites, T func(N) N, B func(N) N) []N {
			return []N{forS("", []N{assign("i", lit(0))}, lt(vr("i"), lit(2)), []N{inc("i")}, []N{
				assign("j", lit(0)), label("R"), emit(st.next(), T(add(mul(vr("i"), lit(10)), vr("j")))), inc("j"), ifS(B(lt(vr("j"), lit(2))), []N{gotoS("R")}, nil), inc("n")})}
		})
		mk("with_defers", func(st *sites, T func(N) N, B func(N) N) []N {
			return []N{label("L"), deferEmit(st.next(), T(vr("i"))), inc("i"), ifS(B(lt(vr("i"), lit(3))), []N{gotoS("L")}, nil), emit(st.next(), vr("i"))}
		})
		func() {
			st2 := &sites{k: 50}
			g := newFunc("g").named("r", "int").local("k", "int").body(
				label("L"), opset("add", vr("r"), vr("k")), N{"inc", "k"}, ifS(lt(vr("k"), lit(4)), []N{gotoS("L")}, nil),
				ifS(in(), []N{gotoS("X")}, nil), ret(add(vr("r"), lit(100))), label("X"), emit(st2.next(), vr("r")), ret0())
			mk("named_result", func(st *sites, T func(N) N, B func(N) N) []N {
				return []N{emit(st.next(), T(call("g")))}
			}, g)
		}()
	}
	return out
}

// PanicFamily enumerates run-time panics as program terminations: every class
// (index out of range on slice / array / string / pointer to array, slice bounds,
// write to a nil map, nil pointer dereference / field / method receiver / function
// value, explicit panic(int)) x where it happens (directly, in a callee inside an
// expression, in a range loop, in a deferred call) with printed lines before it and
// deferred calls that still run.
func PanicFamily() []*Program {
	const tag = "panic-family"
	var out []*Program
	type pk struct {
		name string
		stmt func(st *sites, T func(N) N) []N
	}
	kinds := []pk{
		{"slice_read", func(st *sites, T func(N) N) []N { return []N{emit(st.next(), idx("sl", vr("s"), T(vr("j"))))} }},
		{"slice_write", func(st *sites, T func(N) N) []N { return []N{set(idx("sl", vr("s"), T(vr("j"))), T(lit(1)))} }},
		{"slice_negative", func(st *sites, T func(N) N) []N {
			return []N{emit(st.next(), idx("sl", vr("s"), T(sub(lit(0), vr("j")))))}
		}},
		{"array_read", func(st *sites, T func(N) N) []N { return []N{emit(st.next(), idx("arr", vr("ar"), T(vr("j"))))} }},
		{"array_write", func(st *sites, T func(N) N) []N { return []N{set(idx("arr", vr("ar"), T(vr("j"))), T(lit(1)))} }},
		{"parray_read", func(st *sites, T func(N) N) []N {
			return []N{set(vr("p"), addr("ar")), emit(st.next(), idx("pa", vr("p"), T(vr("j"))))}
		}},
		{"string_read", func(st *sites, T func(N) N) []N { return []N{emit(st.next(), idx("str", vr("str"), T(vr("j"))))} }},
		{"slice_bounds_high", func(st *sites, T func(N) N) []N {
			return []N{emit(st.next(), ln("sl", slice("sl", vr("s"), lit(1), T(vr("j")), nil)))}
		}},
		{"slice_bounds_low_gt_high", func(st *sites, T func(N) N) []N {
			return []N{emit(st.next(), ln("sl", slice("sl", vr("s"), T(sub(vr("j"), lit(3))), T(sub(vr("j"), lit(4))), nil)))}
		}},
		{"nil_map_write", func(st *sites, T func(N) N) []N {
			return []N{emit(st.next(), idx("map", vr("m"), lit(1))), emit(st.next(), ln("map", vr("m"))), del(vr("m"), lit(1)), set(idx("map", vr("m"), T(lit(1))), T(lit(2)))}
		}},
		{"nil_map_opassign", func(st *sites, T func(N) N) []N { return []N{opset("add", idx("map", vr("m"), lit(1)), lit(2))} }},
		{"nil_deref_read", func(st *sites, T func(N) N) []N { return []N{emit(st.next(), deref(vr("pi")))} }},
		{"nil_deref_write", func(st *sites, T func(N) N) []N { return []N{set(deref(vr("pi")), T(lit(1)))} }},
		{"nil_field_read", func(st *sites, T func(N) N) []N { return []N{emit(st.next(), pfld(vr("pt"), 2))} }},
		{"nil_field_write", func(st *sites, T func(N) N) []N { return []N{set(pfld(vr("pt"), 1), T(lit(1)))} }},
		{"nil_struct_copy", func(st *sites, T func(N) N) []N { return []N{set(vr("t"), deref(vr("pt")))} }},
		{"nil_value_method", func(st *sites, T func(N) N) []N { return []N{emit(st.next(), mcall(deref(vr("pt")), "sum"))} }},
		{"nil_pointer_method", func(st *sites, T func(N) N) []N { return []N{emit(st.next(), mcall(vr("pt"), "inc", T(lit(1))))} }},
		{"nil_func_value", func(st *sites, T func(N) N) []N { return []N{emit(st.next(), callf(vr("f")))} }},
		{"nil_parray_read", func(st *sites, T func(N) N) []N { return []N{emit(st.next(), idx("pa", vr("p"), lit(1)))} }},
		{"nil_parray_range", func(st *sites, T func(N) N) []N {
			return []N{rangeS("", "pa", "k1", "", true, vr("p"), []N{emit(st.next(), vr("k1"))}), rangeS("", "pa", "k2", "v2", true, vr("p"), []N{emit(st.next(), vr("v2"))})}
		}},
		{"explicit", func(st *sites, T func(N) N) []N { return []N{panicS(T(add(vr("j"), lit(2))))} }},
	}
	for _, k := range kinds {
		for _, where := range []string{"direct", "callee", "range", "deferred", "closure"} {
			for _, traced := range []bool{false, true} {
				st := &sites{}
				T := func(e N) N {
					if traced {
						return tr(st.next(), e)
					}
					return e
				}
				decl := func(f *fb) *fb {
					return f.local("s", "sl").local("ar", "arr").local("p", "parr").local("str", "str").local("m", "map").local("pi", "pint").
						local("pt", "pT").local("t", "T").local("f", "fn").local("j", "int")
				}
				setup := []N{set(vr("s"), sllit(lit(1), lit(2), lit(3))), set(vr("ar"), arrlit(lit(1), lit(2), lit(3))), set(vr("str"), strlit("abc")), assign("j", lit(5))}
				bad := append(append([]N{}, setup...), emit(st.next(), T(lit(1))))
				bad = append(bad, k.stmt(st, T)...)
				bad = append(bad, emit(st.next(), lit(2)))
				f0 := newFunc("f0").local("x", "int")
				var body []N
				var others []*Func
				pre := []N{deferEmit(st.next(), T(lit(3))), emit(st.next(), lit(0))}
				switch where {
				case "direct":
					decl(f0)
					body = append(pre, bad...)
				case "callee":
					g := decl(newFunc("g")).body(append([]N{deferEmit(st.next(), lit(4))}, append(bad, ret(lit(1)))...)...)
					others = append(others, g)
					body = append(pre, emit(st.next(), add(T(lit(1)), call("g"))))
				case "range":
					decl(f0)
					body = append(pre, rangeS("", "sl", "k", "", true, sllit(lit(7), lit(8)), append([]N{emit(st.next(), vr("k"))}, bad...)))
				case "deferred":
					d := decl(newFunc("d0")).lit().body(append(bad, ret(lit(0)))...)
					others = append(others, d)
					body = append(pre, deferS(callf(funclit("d0"))), deferEmit(st.next(), lit(5)), emit(st.next(), T(lit(6))))
				case "closure":
					d := decl(newFunc("c0")).lit().body(append(bad, ret(lit(0)))...)
					others = append(others, d)
					f0.local("cf", "fn")
					body = append(pre, set(vr("cf"), funclit("c0")), emit(st.next(), add(callf(vr("cf")), T(lit(1)))))
				}
				body = append(body, ret(lit(0)))
				others = append(others, methods(st, traced)...)
				out = append(out, prog(tag, fmt.Sprintf("%s/%s/traced=%v", k.name, where, traced), nil, f0.body(body...), others...))
			}
		}
	}
	return out
}

// CallFamily enumerates call forms: variadic functions (no extra arguments, several,
// a spread slice the callee writes to and appends to), functions with two results,
// recursion (also with a named result and mutual), function values (returned closures
// that keep their creator's variables, functions and method values passed as
// arguments), closures capturing the variable of a for loop / a range loop (one
// variable per loop: they see the last value) -- with and without trace points.
func CallFamily() []*Program {
	const tag = "call-family"
	var out []*Program
	for _, traced := range []bool{false, true} {
		mk := func(name string, build func(f *fb, st *sites, T func(N) N) (body []N, others []*Func)) {
			st := &sites{}
			T := func(e N) N {
				if traced {
					return tr(st.next(), e)
				}
				return e
			}
			f := newFunc("f0").locals("int", "x", "y", "i", "n").locals("sl", "s").locals("fn", "cf").locals("fn1", "g1", "g2").local("t", "T")
			body, others := build(f, st, T)
			body = append(body, ret(T(vr("x"))))
			out = append(out, prog(tag, fmt.Sprintf("%s/traced=%v", name, traced), nil, f.body(body...), others...))
		}
		vs := func(T func(N) N) *Func {
			f := newFunc("vs").param("b", "int").param("r", "sl").local("w", "int")
			f.f.Vari = true
			return f.body(emit(70, ln("sl", vr("r"))), rangeS("", "sl", "", "w0", true, vr("r"), []N{addto("w", vr("w0"))}),
				ifS(lt(lit(0), ln("sl", vr("r"))), []N{set(idx("sl", vr("r"), lit(0)), lit(100))}, nil),
				set(vr("r"), appendE(vr("r"), T(lit(9)))), ret(add(vr("b"), T(vr("w")))))
		}
		mk("variadic", func(f *fb, st *sites, T func(N) N) ([]N, []*Func) {
			return []N{emit(st.next(), call("vs", T(lit(1)))), emit(st.next(), call("vs", T(lit(1)), T(lit(2)), T(lit(3)))),
				set(vr("s"), makeSl(lit(2), lit(4))), set(idx("sl", vr("s"), lit(0)), lit(5)), set(idx("sl", vr("s"), lit(1)), lit(6)),
				emit(st.next(), callsp("vs", T(lit(1)), vr("s"))), dump(st.next(), "sl", slice("sl", vr("s"), nil, lit(3), nil)),
				emit(st.next(), callsp("vs", lit(1), nilsl()))}, []*Func{vs(T)}
		})
		mk("two_results", func(f *fb, st *sites, T func(N) N) ([]N, []*Func) {
			two := newFunc("two").param("z", "int").results("int", "int").body(retN(T(vr("z")), T(add(vr("z"), lit(1)))))
			return []N{assignN([]N{vr("x"), vr("y")}, call("two", T(lit(3)))), emit(st.next(), vr("x")), emit(st.next(), vr("y")),
				assignN([]N{vr("y"), vr("x")}, call("two", vr("x"))), emit(st.next(), vr("x")), emit(st.next(), vr("y")),
				assignN([]N{blank(), vr("x")}, call("two", lit(7))), massign([]N{vr("x"), vr("y")}, []N{T(vr("y")), T(vr("x"))}), emit(st.next(), vr("x")), emit(st.next(), vr("y"))}, []*Func{two}
		})
		mk("recursion", func(f *fb, st *sites, T func(N) N) ([]N, []*Func) {
			fact := newFunc("fact").param("k", "int").body(ifS(lt(vr("k"), lit(1)), []N{ret(lit(1))}, nil), ret(mul(vr("k"), T(call("fact", sub(vr("k"), lit(1)))))))
			fib := newFunc("fib").param("k", "int").body(ifS(lt(vr("k"), lit(2)), []N{ret(T(vr("k")))}, nil), ret(add(call("fib", sub(vr("k"), lit(1))), call("fib", sub(vr("k"), lit(2))))))
			nr := newFunc("nr").param("k", "int").named("r", "int").body(ifS(lt(vr("k"), lit(1)), []N{ret(lit(1))}, nil), assign("r", mul(vr("k"), T(call("nr", sub(vr("k"), lit(1)))))), ret0())
			even := newFunc("even").param("k", "int").body(ifS(eq(vr("k"), lit(0)), []N{ret(lit(1))}, nil), ret(call("odd", T(sub(vr("k"), lit(1))))))
			odd := newFunc("odd").param("k", "int").body(ifS(eq(vr("k"), lit(0)), []N{ret(lit(0))}, nil), ret(call("even", sub(vr("k"), lit(1)))))
			return []N{emit(st.next(), call("fact", lit(4))), emit(st.next(), call("fib", lit(5))), emit(st.next(), call("nr", lit(3))), emit(st.next(), call("even", lit(3))), emit(st.next(), call("even", lit(4)))},
				[]*Func{fact, fib, nr, even, odd}
		})
		mk("returned_closures", func(f *fb, st *sites, T func(N) N) ([]N, []*Func) {
			ad := newFunc("ad0").param("d", "int").lit().body(addto("acc", T(vr("d"))), ret(vr("acc")))
			mkAdder := newFunc("mkAdder").param("acc", "int").results("fn1").body(ret(funclit("ad0")))
			return []N{set(vr("g1"), call("mkAdder", lit(10))), set(vr("g2"), call("mkAdder", T(lit(100)))),
					emit(st.next(), callf(vr("g1"), lit(1))), emit(st.next(), callf(vr("g2"), lit(1))), emit(st.next(), callf(vr("g1"), T(lit(2)))), emit(st.next(), add(callf(vr("g2"), lit(5)), callf(vr("g1"), lit(5))))},
				[]*Func{mkAdder, ad}
		})
		mk("functions_as_arguments", func(f *fb, st *sites, T func(N) N) ([]N, []*Func) {
			apply := newFunc("apply").param("h", "fn1").param("z", "int").body(ret(add(callf(vr("h"), T(vr("z"))), lit(1000))))
			dbl := newFunc("dbl").param("z", "int").body(ret(T(mul(vr("z"), lit(2)))))
			l0 := newFunc("l0").param("z", "int").lit().body(addto("x", vr("z")), ret(T(vr("x"))))
			ms := methods(st, traced)
			return []N{set(vr("t"), tlit(lit(1), lit(2))), emit(st.next(), call("apply", fnref("dbl"), lit(4))), emit(st.next(), call("apply", funclit("l0"), lit(5))), emit(st.next(), call("apply", funclit("l0"), lit(6))),
					emit(st.next(), call("apply", mval(addr("t"), "inc"), lit(7))), dump(st.next(), "T", vr("t")), set(vr("g1"), fnref("dbl")), emit(st.next(), callf(vr("g1"), T(lit(8))))},
				append([]*Func{apply, dbl, l0}, ms...)
		})
		mk("loop_variable_capture", func(f *fb, st *sites, T func(N) N) ([]N, []*Func) {
			c1 := newFunc("c1").lit().body(ret(T(vr("i"))))
			c2 := newFunc("c2").lit().body(ret(T(add(mul(vr("k"), lit(10)), vr("v")))))
			c3 := newFunc("c3").lit().body(ret(T(vr("v2"))))
			return []N{forS("", []N{assign("i", lit(0))}, lt(vr("i"), lit(3)), []N{inc("i")}, []N{ifS(eq(vr("i"), lit(0)), []N{set(vr("cf"), funclit("c1"))}, nil), emit(st.next(), callf(vr("cf")))}),
					emit(st.next(), callf(vr("cf"))),
					rangeS("", "sl", "k", "v", true, sllit(lit(5), lit(6), lit(7)), []N{ifS(eq(vr("k"), lit(0)), []N{set(vr("cf"), funclit("c2"))}, nil), emit(st.next(), callf(vr("cf")))}),
					emit(st.next(), callf(vr("cf"))),
					// the same loop statement executed twice: each execution has its own variable
					forS("", []N{assign("n", lit(0))}, lt(vr("n"), lit(2)), []N{inc("n")}, []N{
						rangeS("", "arr", "", "v2", true, arrlit(add(vr("n"), lit(1)), add(vr("n"), lit(2)), add(vr("n"), lit(3))), []N{ifS(eq(vr("n"), lit(0)), []N{set(vr("cf"), funclit("c3"))}, nil)}),
						emit(st.next(), callf(vr("cf")))})},
				[]*Func{c1, c2, c3}
		})
		mk("closure_counter", func(f *fb, st *sites, T func(N) N) ([]N, []*Func) {
			c1 := newFunc("c1").lit().body(addto("x", lit(1)), ret(T(vr("x"))))
			return []N{set(vr("cf"), funclit("c1")), exprS(callf(vr("cf"))), emit(st.next(), vr("x")), assign("x", lit(10)), emit(st.next(), callf(vr("cf"))), emit(st.next(), add(callf(vr("cf")), callf(vr("cf"))))}, []*Func{c1}
		})
	}
	return out
}

// MapStringFamily enumerates chains of two operations on a map (nil, empty or with two
// entries): write, overwrite, op-assignment of a missing key, delete of a present and of
// a missing key, comma-ok on both, len, read of a missing key, aliasing through a second
// variable -- and string operations (len, index, concatenation, substring, comparison,
// range with index and value); keys and operands plain or with trace points.
func MapStringFamily() []*Program {
	const tag = "map-string-family"
	var out []*Program
	m, m2 := vr("m"), vr("m2")
	type op struct {
		name string
		mk   func(st *sites, T func(N) N) []N
	}
	ops := []op{
		{"m[1]=5", func(st *sites, T func(N) N) []N { return []N{set(idx("map", m, T(lit(1))), T(lit(5)))} }},
		{"m[3]=7", func(st *sites, T func(N) N) []N { return []N{set(idx("map", m, T(lit(3))), T(lit(7)))} }},
		{"m[3]+=2", func(st *sites, T func(N) N) []N { return []N{opset("add", idx("map", m, T(lit(3))), lit(2))} }},
		{"m[1]++", func(st *sites, T func(N) N) []N { return []N{incdec(idx("map", m, lit(1)), 1)} }},
		{"delete(m,1)", func(st *sites, T func(N) N) []N { return []N{del(m, T(lit(1)))} }},
		{"delete(m,9)", func(st *sites, T func(N) N) []N { return []N{del(m, T(lit(9)))} }},
		{"x,ok=m[1]", func(st *sites, T func(N) N) []N {
			return []N{commaok(vr("x"), "ok", m, T(lit(1))), emit(st.next(), vr("x")), ifS(bvar("ok"), []N{emit(st.next(), lit(1))}, []N{emit(st.next(), lit(0))})}
		}},
		{"x,ok=m[9]", func(st *sites, T func(N) N) []N {
			return []N{commaok(vr("x"), "ok", m, T(lit(9))), emit(st.next(), vr("x")), ifS(bvar("ok"), []N{emit(st.next(), lit(1))}, []N{emit(st.next(), lit(0))})}
		}},
		{"len,read", func(st *sites, T func(N) N) []N {
			return []N{emit(st.next(), ln("map", m)), emit(st.next(), idx("map", m, T(lit(9)))), emit(st.next(), idx("map", m, lit(2)))}
		}},
		{"m2=m;m2[4]=8", func(st *sites, T func(N) N) []N { return []N{set(m2, m), set(idx("map", m2, lit(4)), T(lit(8)))} }},
		{"m=make", func(st *sites, T func(N) N) []N { return []N{set(m2, m), set(m, mkmap())} }},
		{"sum", func(st *sites, T func(N) N) []N {
			return []N{rangeS("", "map", "k", "v", true, m, []N{addto("x", add(mul(vr("k"), lit(10)), vr("v"))), exprS(T(lit(0)))}), emit(st.next(), vr("x"))}
		}},
	}
	bases := []struct {
		name string
		init []N
	}{
		{"nil", nil},
		{"empty", []N{set(m, mkmap())}},
		{"two", []N{set(m, maplit(lit(1), lit(10), lit(2), lit(20)))}},
	}
	for _, traced := range []bool{false, true} {
		for _, b := range bases {
			for i, o1 := range ops {
				for j, o2 := range ops {
					if b.name == "nil" && traced && (i+j)%2 == 1 {
						continue // thin out
					}
					st := &sites{}
					T := func(e N) N {
						if traced {
							return tr(st.next(), e)
						}
						return e
					}
					f := newFunc("f0").locals("map", "m", "m2").local("x", "int").local("ok", "bool")
					body := append([]N{}, b.init...)
					body = append(body, o1.mk(st, T)...)
					body = append(body, o2.mk(st, T)...)
					body = append(body, dump(st.next(), "map", m), dump(st.next(), "map", m2), ret(ln("map", m)))
					out = append(out, prog(tag, fmt.Sprintf("map/%s; %s; %s/traced=%v", b.name, o1.name, o2.name, traced), nil, f.body(body...)))
				}
			}
		}
		// strings
		st := &sites{}
		T := func(e N) N {
			if traced {
				return tr(st.next(), e)
			}
			return e
		}
		f := newFunc("f0").locals("str", "s", "u").locals("int", "x", "i")
		s, u := vr("s"), vr("u")
		body := []N{set(s, strlit("abc")), set(u, concat(s, strlit("de"))), emit(st.next(), ln("str", u)), emit(st.next(), idx("str", u, T(lit(3)))),
			set(s, concat(concat(s, s), strlit(""))), emit(st.next(), ln("str", s)), dump(st.next(), "str", slice("str", u, T(lit(1)), T(lit(3)), nil)),
			dump(st.next(), "str", slice("str", u, nil, lit(2), nil)), dump(st.next(), "str", slice("str", u, lit(4), nil, nil)), dump(st.next(), "str", slice("str", u, lit(5), nil, nil)),
			ifS(streq(slice("str", s, nil, lit(3), nil), slice("str", u, nil, T(lit(3)), nil)), []N{emit(st.next(), lit(1))}, []N{emit(st.next(), lit(0))}),
			ifS(streq(s, u), []N{emit(st.next(), lit(1))}, []N{emit(st.next(), lit(0))}),
			rangeS("", "str", "k", "c", true, u, []N{emit(st.next(), vr("k")), emit(st.next(), vr("c")), set(u, strlit("zz")), exprS(T(vr("k")))}),
			rangeS("", "str", "k2", "", true, concat(u, strlit("!")), []N{addto("x", add(vr("k2"), lit(1)))}), emit(st.next(), vr("x")),
			rangeS("", "str", "", "", true, strlit(""), []N{emit(st.next(), lit(99))}),
			dump(st.next(), "str", u), emit(st.next(), idx("str", u, T(add(vr("i"), lit(7))))), ret(lit(0))}
		out = append(out, prog(tag, fmt.Sprintf("strings/traced=%v", traced), nil, f.body(body...)))
	}
	return out
}
