package c07

// Go templates of the contexts of spec/StoreScen.tla (operator Ctxs), keyed by the
// context name n.  The abstract instruction sequence of a context lives in the
// specification; the template below is its concrete Go syntax.  Native Go guards
// the correspondence: a scenario on which the reference toolchain disagrees with
// the prediction is discarded and counted (spec_guard_discards must stay 0).
//
// Placeholders: $T type under test, $L leaf type, $W wrapper struct{f $T; g $L},
// $G package-level variable of type $T, $I interface{Get() $T}, $WI interface{With(func(*$T))},
// $N index of the type in the program, $MK0/$MK1/$MK2 fresh values with leaves from
// 10, 10+n, 10+2n (n = number of integer leaves of $T), $MKB/$MKB1 from 40, 40+n,
// $MKC from 50, $K1 selector of the first field/element of $T,
// $MUT the mutation statement, $OUT the two probe statements.
type ctxTemplate struct {
	Body  string // statements of the scenario function
	SrcLv string // lvalue of the source side (mutation target / probe operand)
	DstLv string // lvalue of the destination side ("" = not assignable, only read through DstRd)
	DstRd string // expression read by the destination probe (default DstLv)
	SrcRd string // expression read by the source probe (default SrcLv)
	Wrap  bool   // the destination-side mutation runs inside a closure (closure capture)
	// PtrEq is a Go pointer comparison that must be true when the specification
	// established SameStorage(src, dst) for the context (CtxOK, field same).
	PtrEq string
}

var templates = map[string]ctxTemplate{
	// ---- copying contexts
	"assign":         {Body: "x := $MK0\ny := $MKB\ny = x\n$MUT\n$OUT", SrcLv: "x", DstLv: "y"},
	"define":         {Body: "x := $MK0\ny := x\n$MUT\n$OUT", SrcLv: "x", DstLv: "y"},
	"vardecl":        {Body: "x := $MK0\nvar y $T = x\n$MUT\n$OUT", SrcLv: "x", DstLv: "y"},
	"arg":            {Body: "x := $MK0\nfunc(y $T) {\n$MUT\n$OUT\n}(x)", SrcLv: "x", DstLv: "y"},
	"variadic":       {Body: "x := $MK0\nfunc(ys ...$T) {\n$MUT\n$OUT\n}(x)", SrcLv: "x", DstLv: "ys[0]"},
	"result":         {Body: "x := $MK0\ny := func() $T { return x }()\n$MUT\n$OUT", SrcLv: "x", DstLv: "y"},
	"result_arg":     {Body: "x := $MK0\nfunc(y $T) {\n$MUT\n$OUT\n}(func() $T { return x }())", SrcLv: "x", DstLv: "y"},
	"retdefer":       {Body: "x := $MK0\ny := func() $T {\ndefer func() {\n$MUT\n}()\nreturn x\n}()\n$OUT", SrcLv: "x", DstLv: "y"},
	"retdefer_named": {Body: "x := $MK0\ny := func() (r $T) {\ndefer func() {\n$MUT\n}()\nreturn x\n}()\n$OUT", SrcLv: "x", DstLv: "y"},
	"defer_arg":      {Body: "x := $MK0\nfunc() {\ndefer func(y $T) {\n$OUT\n}(x)\n$MUT\n}()", SrcLv: "x", DstLv: "y"},
	"go_arg":         {Body: "x := $MK0\nstart := make(chan bool)\ndone := make(chan bool)\ngo func(y $T) {\n<-start\n$OUT\ndone <- true\n}(x)\n$MUT\nstart <- true\n<-done", SrcLv: "x", DstLv: "y"},
	"methodexpr":     {Body: "x := $MK0\ny := $T.Get(x)\n$MUT\n$OUT", SrcLv: "x", DstLv: "y"},

	"range_slice_val":  {Body: "s := []$T{$MK0, $MK1}\nfor i, y := range s {\nif i != 1 {\ncontinue\n}\n$MUT\n$OUT\n}", SrcLv: "s[1]", DstLv: "y"},
	"range_array_val":  {Body: "a := [2]$T{$MK0, $MK1}\nfor i, y := range a {\nif i != 1 {\ncontinue\n}\n$MUT\n$OUT\n}", SrcLv: "a[1]", DstLv: "y"},
	"range_array_snap": {Body: "a := [2]$T{$MK0, $MK1}\n" + rangeSnap("a"), SrcLv: "a[1]", DstLv: "y"},
	"range_deref_snap": {Body: "a := [2]$T{$MK0, $MK1}\npa := &a\n" + rangeSnap("*pa"), SrcLv: "a[1]", DstLv: "y"},
	"range_field_snap": {Body: "wa := struct {\nf [2]$T\ng $L\n}{f: [2]$T{$MK0, $MK1}}\n" + rangeSnap("wa.f"), SrcLv: "wa.f[1]", DstLv: "y"},
	"range_map_val":    {Body: "m := map[int32]$T{1: $MK0}\nfor _, y := range m {\n$MUT\n$OUT\n}", SrcLv: "m[1]", DstLv: "y"},

	"chan":        {Body: "x := $MK0\nch := make(chan $T, 1)\nch <- x\ny := <-ch\n$MUT\n$OUT", SrcLv: "x", DstLv: "y"},
	"send":        {Body: "x := $MK0\nch := make(chan $T, 1)\nch <- x\n$MUT\ny := <-ch\n$OUT", SrcLv: "x", DstLv: "y"},
	"select_send": {Body: "x := $MK0\nch := make(chan $T, 1)\nselect {\ncase ch <- x:\n}\n$MUT\ny := <-ch\n$OUT", SrcLv: "x", DstLv: "y"},
	"select_recv": {Body: "x := $MK0\nch := make(chan $T, 1)\nch <- x\ny := $MKB\nselect {\ncase y = <-ch:\n}\n$MUT\n$OUT", SrcLv: "x", DstLv: "y"},
	"recv_ok":     {Body: "x := $MK0\nch := make(chan $T, 1)\nch <- x\ny, ok := <-ch\n_ = ok\n$MUT\n$OUT", SrcLv: "x", DstLv: "y"},
	"chan_unbuf":  {Body: "x := $MK0\nch := make(chan $T)\ngo func() { ch <- x }()\ny := <-ch\n$MUT\n$OUT", SrcLv: "x", DstLv: "y"},

	"map_store":   {Body: "x := $MK0\nm := map[int32]$T{}\nm[1] = x\n$MUT\n$OUT", SrcLv: "x", DstLv: "m[1]"},
	"map_lit":     {Body: "x := $MK0\nm := map[int32]$T{1: x}\n$MUT\n$OUT", SrcLv: "x", DstLv: "m[1]"},
	"map_load":    {Body: "m := map[int32]$T{1: $MK0}\ny := m[1]\n$MUT\n$OUT", SrcLv: "m[1]", DstLv: "y"},
	"map_load_ok": {Body: "m := map[int32]$T{1: $MK0}\ny, ok := m[1]\n_ = ok\n$MUT\n$OUT", SrcLv: "m[1]", DstLv: "y"},

	"elem_store_slice": {Body: "x := $MK0\ns := []$T{$MKB}\ns[0] = x\n$MUT\n$OUT", SrcLv: "x", DstLv: "s[0]"},
	"elem_store_array": {Body: "x := $MK0\na := [2]$T{$MKB, $MKB1}\na[0] = x\n$MUT\n$OUT", SrcLv: "x", DstLv: "a[0]"},
	"field_store":      {Body: "x := $MK0\nw := $W{f: $MKB}\nw.f = x\n$MUT\n$OUT", SrcLv: "x", DstLv: "w.f"},
	"ptr_store":        {Body: "x := $MK0\nt := $MKB\np := &t\n*p = x\n$MUT\n$OUT", SrcLv: "x", DstLv: "(*p)"},
	"elem_load_slice":  {Body: "s := []$T{$MK0}\ny := s[0]\n$MUT\n$OUT", SrcLv: "s[0]", DstLv: "y"},
	"elem_load_array":  {Body: "a := [2]$T{$MK0, $MK1}\ny := a[0]\n$MUT\n$OUT", SrcLv: "a[0]", DstLv: "y"},
	"field_load":       {Body: "w := $W{f: $MK0}\ny := w.f\n$MUT\n$OUT", SrcLv: "w.f", DstLv: "y"},
	"ptr_load":         {Body: "x := $MK0\np := &x\ny := *p\n$MUT\n$OUT", SrcLv: "x", DstLv: "y"},

	"lit_slice":      {Body: "x := $MK0\ns := []$T{x}\n$MUT\n$OUT", SrcLv: "x", DstLv: "s[0]"},
	"lit_array":      {Body: "x := $MK0\na := [1]$T{x}\n$MUT\n$OUT", SrcLv: "x", DstLv: "a[0]"},
	"lit_struct":     {Body: "x := $MK0\nw := $W{f: x}\n$MUT\n$OUT", SrcLv: "x", DstLv: "w.f"},
	"lit_struct_pos": {Body: "x := $MK0\nw := $W{x, 0}\n$MUT\n$OUT", SrcLv: "x", DstLv: "w.f"},
	"lit_ptr_struct": {Body: "x := $MK0\nw := &$W{f: x}\n$MUT\n$OUT", SrcLv: "x", DstLv: "w.f"},

	"box":              {Body: "x := $MK0\nvar i interface{} = x\n$MUT\n$OUT", SrcLv: "x", DstRd: "i.($T)"},
	"box_assign":       {Body: "x := $MK0\nvar i interface{}\ni = x\n$MUT\n$OUT", SrcLv: "x", DstRd: "i.($T)"},
	"box_conv":         {Body: "x := $MK0\ni := interface{}(x)\n$MUT\n$OUT", SrcLv: "x", DstRd: "i.($T)"},
	"box_arg":          {Body: "x := $MK0\nfunc(i interface{}) {\n$MUT\n$OUT\n}(x)", SrcLv: "x", DstRd: "i.($T)"},
	"box_ret":          {Body: "x := $MK0\ni := func() interface{} { return x }()\n$MUT\n$OUT", SrcLv: "x", DstRd: "i.($T)"},
	"box_lit":          {Body: "x := $MK0\nis := []interface{}{x}\n$MUT\n$OUT", SrcLv: "x", DstRd: "is[0].($T)"},
	"box_method_iface": {Body: "x := $MK0\nvar i $I = x\n$MUT\n$OUT", SrcLv: "x", DstRd: "i.Get()"},
	"box_send":         {Body: "x := $MK0\nch := make(chan interface{}, 1)\nch <- x\n$MUT\ni := <-ch\n$OUT", SrcLv: "x", DstRd: "i.($T)"},
	"box_map":          {Body: "x := $MK0\nm := map[int32]interface{}{}\nm[1] = x\n$MUT\n$OUT", SrcLv: "x", DstRd: "m[1].($T)"},
	"box_append":       {Body: "x := $MK0\nvar is []interface{}\nis = append(is, x)\n$MUT\n$OUT", SrcLv: "x", DstRd: "is[0].($T)"},
	"box_deref":        {Body: "x := $MK0\np := &x\nvar i interface{} = *p\n$MUT\n$OUT", SrcLv: "x", DstRd: "i.($T)"},
	"box_elem":         {Body: "s := []$T{$MK0}\nvar i interface{} = s[0]\n$MUT\n$OUT", SrcLv: "s[0]", DstRd: "i.($T)"},
	"box_field":        {Body: "w := $W{f: $MK0}\nvar i interface{} = w.f\n$MUT\n$OUT", SrcLv: "w.f", DstRd: "i.($T)"},

	"unbox":        {Body: "var x interface{} = $MK0\ny := x.($T)\n$MUT\n$OUT", SrcRd: "x.($T)", DstLv: "y"},
	"unbox_ok":     {Body: "var x interface{} = $MK0\ny, ok := x.($T)\n_ = ok\n$MUT\n$OUT", SrcRd: "x.($T)", DstLv: "y"},
	"unbox_switch": {Body: "var x interface{} = $MK0\nswitch y := x.(type) {\ncase $T:\n$MUT\n$OUT\n}", SrcRd: "x.($T)", DstLv: "y"},
	"unbox_arg":    {Body: "var x interface{} = $MK0\nfunc(y $T) {\n$MUT\n$OUT\n}(x.($T))", SrcRd: "x.($T)", DstLv: "y"},
	"unbox_assign": {Body: "var x interface{} = $MK0\ny := $MKB\ny = x.($T)\n$MUT\n$OUT", SrcRd: "x.($T)", DstLv: "y"},

	"methodval":     {Body: "x := $MK0\nf := x.Get\n$MUT\n$OUT", SrcLv: "x", DstRd: "f()"},
	"methodval_ptr": {Body: "x := $MK0\np := &x\nf := p.Get\n$MUT\n$OUT", SrcLv: "x", DstRd: "f()"},
	"vrecv":         {Body: "x := $MK0\nx.With(func(y *$T) {\n$MUT\n$OUT\n})", SrcLv: "x", DstLv: "(*y)"},
	"vrecv_ptr":     {Body: "x := $MK0\np := &x\np.With(func(y *$T) {\n$MUT\n$OUT\n})", SrcLv: "x", DstLv: "(*y)"},
	"vrecv_iface":   {Body: "var x $WI = $MK0\nx.With(func(y *$T) {\n$MUT\n$OUT\n})", SrcRd: "x.($T)", DstLv: "(*y)"},
	"vrecv_elem":    {Body: "s := []$T{$MK0}\ns[0].With(func(y *$T) {\n$MUT\n$OUT\n})", SrcLv: "s[0]", DstLv: "(*y)"},

	"append_elem":      {Body: "x := $MK0\ns := make([]$T, 0, 1)\nt := append(s, x)\n$MUT\n$OUT", SrcLv: "x", DstLv: "t[0]"},
	"append_elem_nil":  {Body: "x := $MK0\nvar s []$T\nt := append(s, x)\n$MUT\n$OUT", SrcLv: "x", DstLv: "t[0]"},
	"append_grow":      {Body: "s := []$T{$MK0}\ne := $MKB\nt := append(s, e)\n$MUT\n$OUT", SrcLv: "s[0]", DstLv: "t[0]"},
	"append_sub3_grow": {Body: "s := []$T{$MK0, $MK1}\nu := s[0:1:1]\ne := $MKB\nt := append(u, e)\n$MUT\n$OUT", SrcLv: "s[0]", DstLv: "t[0]"},
	"append_spread":    {Body: "s := []$T{$MK0}\nt := append([]$T(nil), s...)\n$MUT\n$OUT", SrcLv: "s[0]", DstLv: "t[0]"},
	"copy_builtin":     {Body: "s := []$T{$MK0}\nt := []$T{$MKB}\ncopy(t, s)\n$MUT\n$OUT", SrcLv: "s[0]", DstLv: "t[0]"},
	"slice_to_array":   {Body: "s := []$T{$MK0}\ny := [1]$T(s)\n$MUT\n$OUT", SrcLv: "s[0]", DstLv: "y[0]"},

	"outer_struct": {Body: "w := $W{f: $MK0, g: 1}\nv := w\n$MUT\n$OUT", SrcLv: "w.f", DstLv: "v.f"},
	"outer_array":  {Body: "a := [2]$T{$MK0, $MK1}\nb := a\n$MUT\n$OUT", SrcLv: "a[1]", DstLv: "b[1]"},
	"outer_assign": {Body: "w := $W{f: $MK0, g: 1}\nv := $W{f: $MKB, g: 2}\nv = w\n$MUT\n$OUT", SrcLv: "w.f", DstLv: "v.f"},

	"swap":                {Body: "x := $MK0\ny := $MKB\nx, y = y, x\n$MUT\n$OUT", SrcLv: "x", DstLv: "y"},
	"result_tuple":        {Body: "x := $MK0\ny, n := func() ($T, int32) { return x, 1 }()\n_ = n\n$MUT\n$OUT", SrcLv: "x", DstLv: "y"},
	"convert":             {Body: "x := $MK0\ny := C$N(x)\n$MUT\n$OUT", SrcLv: "x", DstLv: "y", DstRd: "$T(y)"},
	"convert_same":        {Body: "x := $MK0\ny := $T(x)\n$MUT\n$OUT", SrcLv: "x", DstLv: "y"},
	"convert_same_var":    {Body: "x := $MK0\nvar y = $T(x)\n$MUT\n$OUT", SrcLv: "x", DstLv: "y"},
	"convert_same_paren":  {Body: "x := $MK0\ny := (($T)(x))\n$MUT\n$OUT", SrcLv: "x", DstLv: "y"},
	"convert_same_assign": {Body: "x := $MK0\ny := $MKB\ny = $T(x)\n$MUT\n$OUT", SrcLv: "x", DstLv: "y"},
	"convert_same_arg":    {Body: "x := $MK0\nfunc(y $T) {\n$MUT\n$OUT\n}($T(x))", SrcLv: "x", DstLv: "y"},
	"convert_same_field":  {Body: "x := $MK0\nw := $W{f: $T(x)}\n$MUT\n$OUT", SrcLv: "x", DstLv: "w.f"},
	"ptr_to_ptr":          {Body: "x := $MK0\nt := $MKB\np := &t\nq := &x\n*p = *q\n$MUT\n$OUT", SrcLv: "x", DstLv: "(*p)"},

	// ---- aliasing contexts
	"addr":               {Body: "x := $MK0\np := &x\n$MUT\n$OUT", SrcLv: "x", DstLv: "(*p)", PtrEq: "p == &x"},
	"addr_field":         {Body: "w := $W{f: $MK0}\np := &w.f\n$MUT\n$OUT", SrcLv: "w.f", DstLv: "(*p)", PtrEq: "p == &w.f"},
	"addr_arrelem":       {Body: "a := [2]$T{$MK0, $MK1}\np := &a[1]\n$MUT\n$OUT", SrcLv: "a[1]", DstLv: "(*p)", PtrEq: "p == &a[1]"},
	"addr_slelem":        {Body: "s := []$T{$MK0, $MK1}\np := &s[1]\n$MUT\n$OUT", SrcLv: "s[1]", DstLv: "(*p)", PtrEq: "p == &s[1]"},
	"addr_global":        {Body: "$G = $MK0\np := &$G\n$MUT\n$OUT", SrcLv: "$G", DstLv: "(*p)", PtrEq: "p == &$G"},
	"addr_global_fn":     {Body: "$G = $MK0\np := addr$N()\n$MUT\n$OUT", SrcLv: "$G", DstLv: "(*p)", PtrEq: "p == &$G"},
	"addr_sub":           {Body: "x := $MK0\np := &x$K1\n$MUT\n$OUT", SrcLv: "x$K1", DstLv: "(*p)", PtrEq: "p == &x$K1"},
	"addr_leaf":          {Body: "x := $MK0\np := &$LEAF\n$MUT\n$OUT", SrcLv: "x", DstLv: "(*p)", PtrEq: "p == &$LEAF"},
	"subslice":           {Body: "s := []$T{$MK0, $MK1, $MK2}\nt := s[1:2]\n$MUT\n$OUT", SrcLv: "s[1]", DstLv: "t[0]", PtrEq: "&t[0] == &s[1]"},
	"subslice3":          {Body: "s := []$T{$MK0, $MK1, $MK2}\nt := s[1:2:2]\n$MUT\n$OUT", SrcLv: "s[1]", DstLv: "t[0]", PtrEq: "&t[0] == &s[1]"},
	"subslice_array":     {Body: "a := [2]$T{$MK0, $MK1}\nt := a[1:2]\n$MUT\n$OUT", SrcLv: "a[1]", DstLv: "t[0]", PtrEq: "&t[0] == &a[1]"},
	"subslice_ptrarray":  {Body: "a := [2]$T{$MK0, $MK1}\npa := &a\nt := pa[:]\n$MUT\n$OUT", SrcLv: "a[1]", DstLv: "t[1]", PtrEq: "&t[1] == &a[1]"},
	"append_within":      {Body: "s := make([]$T, 1, 2)\ns[0] = $MK0\ne := $MKB\nt := append(s, e)\n$MUT\n$OUT", SrcLv: "s[0]", DstLv: "t[0]", PtrEq: "&t[0] == &s[0]"},
	"append_sibling":     {Body: "s := make([]$T, 1, 2)\ns[0] = $MK0\ne := $MKB\ne2 := $MKC\nt := append(s, e)\nu := append(s, e2)\n$MUT\n$OUT", SrcLv: "t[1]", DstLv: "u[1]", PtrEq: "&t[1] == &u[1]"},
	"append_sub_cap":     {Body: "s := []$T{$MK0, $MK1, $MK2}\nv := s[0:1]\ne := $MKB\nt := append(v, e)\n$MUT\n$OUT", SrcLv: "s[1]", DstLv: "t[1]", PtrEq: "&t[1] == &s[1]"},
	"closure":            {Body: "x := $MK0\n$MUT\n$OUT", SrcLv: "x", DstLv: "x", DstRd: "func() $T { return x }()", Wrap: true},
	"precv":              {Body: "x := $MK0\nx.PWith(func(y *$T) {\n$MUT\n$OUT\n})", SrcLv: "x", DstLv: "(*y)", PtrEq: "y == &x"},
	"precv_methodval":    {Body: "x := $MK0\nf := x.Ptr\ny := f()\n$MUT\n$OUT", SrcLv: "x", DstLv: "(*y)", PtrEq: "y == &x"},
	"ptr_arg":            {Body: "x := $MK0\nfunc(y *$T) {\n$MUT\n$OUT\n}(&x)", SrcLv: "x", DstLv: "(*y)", PtrEq: "y == &x"},
	"iface_ptr":          {Body: "x := $MK0\nvar i interface{} = &x\ny := i.(*$T)\n$MUT\n$OUT", SrcLv: "x", DstLv: "(*y)", PtrEq: "y == &x"},
	"chan_ptr":           {Body: "x := $MK0\nch := make(chan *$T, 1)\nch <- &x\ny := <-ch\n$MUT\n$OUT", SrcLv: "x", DstLv: "(*y)", PtrEq: "y == &x"},
	"ptr_holder":         {Body: "x := $MK0\nh := struct{ p *$T }{&x}\nh2 := h\n$MUT\n$OUT", SrcLv: "x", DstLv: "(*h2.p)", PtrEq: "h2.p == &x"},
	"slice_arg":          {Body: "s := []$T{$MK0}\nfunc(t []$T) {\n$MUT\n$OUT\n}(s)", SrcLv: "s[0]", DstLv: "t[0]", PtrEq: "&t[0] == &s[0]"},
	"slice_holder":       {Body: "s := []$T{$MK0}\nh := struct{ s []$T }{s}\nh2 := h\n$MUT\n$OUT", SrcLv: "s[0]", DstLv: "h2.s[0]", PtrEq: "&h2.s[0] == &s[0]"},
	"map_alias":          {Body: "m := map[int32]$T{1: $MK0}\nn := m\n$MUT\n$OUT", SrcLv: "m[1]", DstLv: "n[1]"},
	"ptrarr_index":       {Body: "a := [2]$T{$MK0, $MK1}\npa := &a\n$MUT\n$OUT", SrcLv: "a[1]", DstLv: "pa[1]", PtrEq: "&pa[1] == &a[1]"},
	"field_of_ptr":       {Body: "w := $W{f: $MK0}\npw := &w\n$MUT\n$OUT", SrcLv: "w.f", DstLv: "pw.f", PtrEq: "&pw.f == &w.f"},
	"range_ptrarray":     {Body: "a := [2]$T{$MK0, $MK1}\npa := &a\n" + rangeSnap("pa"), SrcLv: "a[1]", DstLv: "y"},
	"range_slice_nosnap": {Body: "a := [2]$T{$MK0, $MK1}\n" + rangeSnap("a[:]"), SrcLv: "a[1]", DstLv: "y"},
}

func rangeSnap(x string) string {
	return "for i, y := range " + x + " {\nif i == 0 {\n$MUT\n} else {\n$OUT\n}\n}"
}

// Known-finding families: a rejected scenario gets the family's key only if the
// compiled program printed exactly what the specification predicts for "this
// context's copy is skipped" (field alt of the scenario record).
var findingKey = map[string]string{
	"range_array_snap": "range_array_value_no_snapshot",
	"range_deref_snap": "range_array_value_no_snapshot",
	"range_field_snap": "range_array_value_no_snapshot",
	"box":              "box_struct_array_no_clone",
	"box_assign":       "box_struct_array_no_clone",
	"box_conv":         "box_struct_array_no_clone",
	"box_arg":          "box_struct_array_no_clone",
	"box_ret":          "box_struct_array_no_clone",
	"box_lit":          "box_struct_array_no_clone",
	"box_method_iface": "box_struct_array_no_clone",
	"box_send":         "box_struct_array_no_clone",
	"box_map":          "box_struct_array_no_clone",
	"box_append":       "box_struct_array_no_clone",
	"box_deref":        "box_struct_array_no_clone",
	"box_elem":         "box_struct_array_no_clone",
	"box_field":        "box_struct_array_no_clone",
	"retdefer":         "return_value_no_clone_before_defer",
	"append_grow":      "append_grow_shares_elements",
	"append_sub3_grow": "append_grow_shares_elements",
	"vrecv_iface":      "value_receiver_via_interface_no_clone",
}
