// Package c07 decides C07 (see DESIGN.md section 4). Not built yet.
package c07
