// Package c07 decides C07 (arrays and structs are values; pointers, slices and
// maps alias).
//
// spec/Store.tla is the reference semantics (an object-graph store with Copy
// along array/struct constructors), spec/StoreScen.tla enumerates
// shape x variant x context x mutated side x mutated path scenarios, executes each
// on the abstract store and emits the predicted probe integers; TLC also checks
// the post-condition of Copy, the no-sharing invariant after every instruction,
// storage identity in aliasing contexts, the statement of C07 on the model and
// that every copying context is discriminated by some scenario.  This package
// renders the scenarios from the Go templates of contexts.go, compiles them in
// batches with the compiler under test, runs them under Node and compares the
// printed probes with the prediction; the reference toolchain guards the
// specification.
package c07

import (
	"encoding/json"
	"fmt"
	"os"
	"path/filepath"
	"sort"
	"strconv"
	"strings"
	"time"

	"verif/core"
	"verif/gjs"
	"verif/props/witness"
	"verif/reg"
	"verif/tlcx"
)

func init() { reg.Register("C07", "model_checking", Run) }

type scen struct {
	S       json.RawMessage `json:"s"`
	V       string          `json:"v"`
	C       string          `json:"c"`
	K       string          `json:"k"`
	Side    string          `json:"side"`
	W       int             `json:"w"`
	Path    json.RawMessage `json:"path"`
	Pt      json.RawMessage `json:"pt"`
	Pred    []int           `json:"pred"`
	Base    []int           `json:"base"`
	Alt     []int           `json:"alt"`
	Nt      bool            `json:"nt"`
	Through bool            `json:"through"`
	Same    bool            `json:"same"`

	raw   string
	shape *Shape
	path  []Step
	sub   bool // the probed type is the first field/element of the shape (addr_sub)
}

func (s *scen) key() string {
	return fmt.Sprintf("%s|%s|%s|%s|%d|%s", s.shape, s.V, s.C, s.Side, s.W, string(s.Path))
}

func (s *scen) describe() string {
	m := "whole value"
	if s.W == 0 {
		m = "path " + string(s.Path)
	}
	return fmt.Sprintf("type %s (variant %s), context %s, %s side mutated (%s)", s.shape, s.V, s.C, s.Side, m)
}

type unit struct {
	shape   *Shape
	variant string
	scens   []*scen
}

type program struct {
	units []*unit // slices of units (a large unit may be split over programs)
	n     int
}

const header = "package main\n\nfunc b2i(b bool) int32 {\nif b {\nreturn 1\n}\nreturn 0\n}\n\nfunc rec(id int32) {\nif r := recover(); r != nil {\nprintln(id, -1)\n}\n}\n\n"

// renderScen returns the body of the scenario function.
func renderScen(e *typeEnv, sc *scen, id int) (string, error) {
	tpl, ok := templates[sc.C]
	if !ok {
		return "", fmt.Errorf("no Go template for context %q", sc.C)
	}
	top := e.top
	pt := top
	if sc.sub {
		pt = top.A
	}
	n := top.nLeaves()
	mk := func(base int) string { return fmt.Sprintf("mk%s(%d)", e.helperName(top), base) }
	srcRd, dstRd := tpl.SrcRd, tpl.DstRd
	if srcRd == "" {
		srcRd = tpl.SrcLv
	}
	if dstRd == "" {
		dstRd = tpl.DstLv
	}
	lv := tpl.SrcLv
	if sc.Side == "dst" {
		lv = tpl.DstLv
	}
	if lv == "" {
		return "", fmt.Errorf("context %q: side %s is not assignable", sc.C, sc.Side)
	}
	var mut, out, leaf string
	if sc.C == "addr_leaf" {
		leaf = e.sel("x", top, sc.path)
		if sc.Side == "src" {
			mut = leaf + " = 99"
		} else {
			mut = "*p = 99"
		}
		out = fmt.Sprintf("pr%s(%d, x)\nprintln(int32(%d), int32(*p))", e.helperName(top), id, id)
		if sc.Same && tpl.PtrEq != "" {
			out += fmt.Sprintf("\nprintln(int32(%d), b2i(%s))", id, tpl.PtrEq)
		}
	} else {
		if sc.W == 1 {
			mut = fmt.Sprintf("%s = mk%s(70)", lv, e.helperName(pt))
		} else {
			mut = e.sel(lv, pt, sc.path) + " = 99"
		}
		if tpl.Wrap && sc.Side == "dst" {
			mut = "func() {\n" + mut + "\n}()"
		}
		out = fmt.Sprintf("pr%s(%d, %s)\npr%s(%d, %s)", e.helperName(pt), id, srcRd, e.helperName(pt), id, dstRd)
		if sc.Same && tpl.PtrEq != "" {
			// pointer identity: both expressions denote the same storage in the specification
			out += fmt.Sprintf("\nprintln(int32(%d), b2i(%s))", id, tpl.PtrEq)
		}
	}
	body := strings.NewReplacer("$MUT", mut, "$OUT", out).Replace(tpl.Body)
	first := []Step{{"f", 1}}
	if top.K == "arr" {
		first = []Step{{"e", 1}}
	}
	r := strings.NewReplacer(
		"$LEAF", leaf,
		"$MKB1", mk(40+n), "$MKB", mk(40), "$MKC", mk(50),
		"$MK0", mk(10), "$MK1", mk(10+n), "$MK2", mk(10+2*n),
		"$WI", e.WI(), "$W", e.W(), "$T", e.T(), "$L", e.leaf, "$G", e.G(), "$I", e.I(),
		"$N", strconv.Itoa(e.n), "$K1", e.sel("", top, first),
	)
	return r.Replace(body), nil
}

func renderProgram(p *program) (gjs.Prog, error) {
	var b strings.Builder
	b.WriteString(header)
	var calls strings.Builder
	id := 0
	for ui, u := range p.units {
		e := newTypeEnv(ui, u.shape, u.variant)
		b.WriteString(e.decls())
		b.WriteString("\n")
		for _, sc := range u.scens {
			body, err := renderScen(e, sc, id)
			if err != nil {
				return gjs.Prog{}, err
			}
			fmt.Fprintf(&b, "// %s\nfunc s%d() {\ndefer rec(%d)\n%s\n}\n\n", sc.describe(), id, id, body)
			fmt.Fprintf(&calls, "s%d()\n", id)
			id++
		}
	}
	b.WriteString("func main() {\n" + calls.String() + "}\n")
	return gjs.Prog{Files: map[string]string{"main.go": b.String()}}, nil
}

// parseOut groups the printed integers by scenario id.
func parseOut(lines []string, n int) ([][]int, error) {
	out := make([][]int, n)
	for _, l := range lines {
		f := strings.Fields(l)
		if len(f) < 1 {
			continue
		}
		id, err := strconv.Atoi(f[0])
		if err != nil || id < 0 || id >= n {
			return nil, fmt.Errorf("unexpected output line %q", l)
		}
		for _, x := range f[1:] {
			if x == "-0" {
				x = "0" // an integer zero held as JavaScript -0: print rendering, documented exception
			}
			v, err := strconv.Atoi(x)
			if err != nil {
				return nil, fmt.Errorf("unexpected output line %q", l)
			}
			out[id] = append(out[id], v)
		}
	}
	return out, nil
}

func eqInts(a, b []int) bool {
	if len(a) != len(b) {
		return false
	}
	for i := range a {
		if a[i] != b[i] {
			return false
		}
	}
	return true
}

type failure struct {
	sc   *scen
	unit *unit
	got  []int
	keys []string
}

// Run is the C07 check.
func Run(c *core.Ctx, pool *gjs.Pool) {
	if dir := os.Getenv("VERIF_REPLAY"); dir != "" {
		replay(c, pool, dir)
		return
	}
	c.Assumef("the Go template of a context (harness/props/c07/contexts.go) denotes the instruction sequence of the same-named context of StoreScen.tla; guarded per scenario by the reference toolchain (spec_guard_discards)")
	c.Assumef("integer leaves are int32 or int64 (printed as int32); arrays have 2 elements, slices 2, maps 1 entry; nesting of the type under test <= 2, contexts add one more level")
	variants := []string{"n32", "a32", "n64"}
	// quick: half of the (shape, variant, context) triples, 1/12 of their rows; thorough: everything
	num, den, rnum, rden := 1, 2, 1, 12
	if c.Thorough() {
		den, rden = 1, 1
	}
	params := map[string]any{"seed": c.Seed, "num": num, "den": den, "rnum": rnum, "rden": rden, "variants": variants, "out": "scen"}
	pj, _ := json.Marshal(params)
	cfg := "SPECIFICATION Spec\nINVARIANT CopyOK\nINVARIANT CtxOK\nINVARIANT Emit\nCHECK_DEADLOCK FALSE\n"
	r, err := tlcx.Run(c, tlcx.Opts{Module: "StoreScen", Cfg: cfg, Workers: 8, Timeout: 25 * time.Minute, Files: map[string]string{"c07_params.json": string(pj)}, HeapMB: 6144})
	if !tlcx.MustComplete(c, r, err, "StoreScen") {
		return
	}
	c.Phase("tlc")
	c.Set("checker_cmd", "tlc StoreScen (INVARIANTS CopyOK, CtxOK, Emit = RowOK + scenario emission)")
	c.Set("exhaustive", num >= den && rnum >= rden)
	c.Set("sampling", fmt.Sprintf("%d/%d of the (shape, variant, context) triples and %d/%d of the rows of each, chosen by a hash of VERIF_SEED inside TLC", num, den, rnum, rden))

	files, _ := filepath.Glob(filepath.Join(r.Dir, "scen.*.ndjson"))
	sort.Strings(files)
	units := map[string]*unit{}
	var order []string
	total := 0
	ctxSeen := map[string]int{}
	for _, f := range files {
		err := tlcx.ReadNDJSON(f, func(raw json.RawMessage) error {
			var inner string
			if err := json.Unmarshal(raw, &inner); err != nil {
				return err
			}
			sc := &scen{raw: inner}
			if err := json.Unmarshal([]byte(inner), sc); err != nil {
				return err
			}
			uk := string(sc.S) + "|" + sc.V
			u := units[uk]
			if u == nil {
				sh, err := decodeShape(sc.S)
				if err != nil {
					return err
				}
				u = &unit{shape: sh, variant: sc.V}
				units[uk] = u
				order = append(order, uk)
			}
			sc.shape = u.shape
			var err error
			if sc.path, err = decodePath(sc.Path); err != nil {
				return err
			}
			sc.sub = string(sc.Pt) != string(sc.S)
			if tpl, ok := templates[sc.C]; ok && sc.Same && tpl.PtrEq != "" {
				// SameStorage(src, dst) was established by TLC (CtxOK): the pointer comparison prints 1
				sc.Pred = append(sc.Pred, 1)
				sc.Alt = append(sc.Alt, 1)
			}
			u.scens = append(u.scens, sc)
			ctxSeen[sc.C]++
			total++
			return nil
		})
		if err != nil {
			c.Infra(fmt.Errorf("decode %s: %v", f, err))
			return
		}
	}
	if total == 0 {
		c.Infra(fmt.Errorf("StoreScen emitted no scenario"))
		return
	}
	sort.Strings(order)
	for _, uk := range order {
		u := units[uk]
		sort.SliceStable(u.scens, func(i, j int) bool { return u.scens[i].key() < u.scens[j].key() })
	}
	c.Set("units", len(units))
	c.Set("contexts", len(ctxSeen))
	c.Set("rule", "TLC enumerates (type shape, rendering variant, context, mutated side, mutated leaf path or whole value) rows of StoreScen.tla and executes each on the abstract store of Store.tla; a case is one rendered scenario function with its predicted probe integers; distinct = distinct rows; non-trivial = rows whose prediction changes when the context's copy is skipped (copying contexts) or whose mutation is observed through the alias (aliasing contexts)")

	// programs of bounded size
	maxPerProg := c.Pick(300, 600)
	var progs []*program
	cur := &program{}
	for _, uk := range order {
		u := units[uk]
		rest := u.scens
		for len(rest) > 0 {
			room := maxPerProg - cur.n
			if room <= 0 || (cur.n > 0 && len(rest) > room && len(rest) <= maxPerProg) {
				progs = append(progs, cur)
				cur = &program{}
				room = maxPerProg
			}
			k := len(rest)
			if k > room {
				k = room
			}
			cur.units = append(cur.units, &unit{shape: u.shape, variant: u.variant, scens: rest[:k]})
			cur.n += k
			rest = rest[k:]
		}
	}
	if cur.n > 0 {
		progs = append(progs, cur)
	}
	c.Set("programs", len(progs))

	c.Phase("decode")
	fails := make([][]failure, len(progs))
	discards := make([]int, len(progs))
	evals := make([]int, len(progs))
	discardNote := make([]string, len(progs))
	c.ParMap(len(progs), func(i int) {
		p := progs[i]
		prog, err := renderProgram(p)
		if err != nil {
			c.Infra(err)
			return
		}
		b := pool.RunBoth(c.Scratch, prog, gjs.Opts{}, 5*time.Minute, true, false)
		if b.BuildErr != nil {
			if be, ok := b.BuildErr.(*gjs.BuildError); ok && be.Panic {
				c.Report(core.Case{Keys: []string{"compiler_panic"}, Summary: "compiler internal error on a scenario program: " + be.Error(), Files: prog.ReplayFiles("prog")})
			} else {
				c.Infra(fmt.Errorf("gopherjs build of a scenario program failed: %v", b.BuildErr))
			}
			return
		}
		if b.NativeErr != "" {
			c.Infra(fmt.Errorf("reference toolchain rejected a generated program: %s", tlcx.Tail(b.NativeErr, 15)))
			return
		}
		if b.Native.End != "exit" {
			c.Infra(fmt.Errorf("native run of a scenario program ended with %s %s", b.Native.End, b.Native.Msg))
			return
		}
		nat, err := parseOut(b.Native.Lines, p.n)
		if err != nil {
			c.Infra(fmt.Errorf("native output: %v", err))
			return
		}
		if b.JS.End != "exit" {
			c.Report(core.Case{Keys: []string{"program_aborted"}, Summary: fmt.Sprintf("compiled scenario program ended with %s: %s", b.JS.End, b.JS.Msg), Files: prog.ReplayFiles("prog")})
			return
		}
		js, err := parseOut(b.JS.Lines, p.n)
		if err != nil {
			c.Report(core.Case{Keys: []string{"program_output"}, Summary: "compiled scenario program printed an unexpected line: " + err.Error(), Files: prog.ReplayFiles("prog")})
			return
		}
		id := 0
		for _, u := range p.units {
			for _, sc := range u.scens {
				k := id
				id++
				if !eqInts(nat[k], sc.Pred) {
					discards[i]++
					if discardNote[i] == "" {
						discardNote[i] = fmt.Sprintf("%s: spec %v, reference toolchain %v", sc.describe(), sc.Pred, nat[k])
					}
					continue
				}
				evals[i]++
				if eqInts(js[k], sc.Pred) {
					continue
				}
				var keys []string
				if fk := findingKey[sc.C]; fk != "" && eqInts(js[k], sc.Alt) {
					keys = []string{fk}
				}
				fails[i] = append(fails[i], failure{sc: sc, unit: u, got: js[k], keys: keys})
			}
		}
	})
	c.Phase("run")
	nd, ne := 0, 0
	for i := range progs {
		nd += discards[i]
		ne += evals[i]
		if discardNote[i] != "" && nd <= 50 {
			fmt.Printf("note: spec-guard discard: %s\n", discardNote[i])
		}
	}
	c.Set("evaluations", ne)
	c.Set("spec_guard_discards", nd)
	c.Set("traces_validated_against_impl", ne)
	nt, copyN, aliasN := 0, 0, 0
	for _, uk := range order {
		for _, sc := range units[uk].scens {
			if sc.Nt {
				c.Distinct(sc.key())
				nt++
			}
			if sc.K == "copy" {
				copyN++
			} else {
				aliasN++
			}
		}
	}
	c.Set("scenarios", total)
	c.Set("scenarios_copy_contexts", copyN)
	c.Set("scenarios_alias_contexts", aliasN)

	// one report per (context, classifier) group
	type group struct {
		first failure
		count int
	}
	groups := map[string]*group{}
	var gorder []string
	for _, fl := range fails {
		for _, f := range fl {
			gk := f.sc.C + "|" + strings.Join(f.keys, ",")
			g := groups[gk]
			if g == nil {
				g = &group{first: f}
				groups[gk] = g
				gorder = append(gorder, gk)
			}
			g.count++
		}
	}
	sort.Strings(gorder)
	for _, gk := range gorder {
		g := groups[gk]
		f := g.first
		mini := &program{units: []*unit{{shape: f.unit.shape, variant: f.unit.variant, scens: []*scen{f.sc}}}, n: 1}
		prog, err := renderProgram(mini)
		if err != nil {
			c.Infra(err)
			return
		}
		files := prog.ReplayFiles("prog")
		files["scenario.json"] = f.sc.raw + "\n"
		files["expected.txt"] = fmt.Sprintln(f.sc.Pred)
		files["observed.txt"] = fmt.Sprintln(f.got)
		c.Report(core.Case{Keys: f.keys,
			Summary: fmt.Sprintf("%s: Go/spec probes %v, compiled program printed %v (%d scenarios of context %s differ this way)", f.sc.describe(), f.sc.Pred, f.got, g.count, f.sc.C),
			Files:   files})
	}
	// samples
	step := total/4 + 1
	i := 0
	for _, uk := range order {
		for _, sc := range units[uk].scens {
			if i%step == 0 {
				c.Sample(map[string]any{"scenario": json.RawMessage(sc.raw)})
			}
			i++
		}
	}
	witness.Run(c, pool, witnesses)
	c.Phase("witnesses")
}

// replay re-decides one recorded scenario: the program in <dir>/prog must print
// the probes recorded in <dir>/expected.txt.
func replay(c *core.Ctx, pool *gjs.Pool, dir string) {
	files := map[string]string{}
	ents, err := os.ReadDir(filepath.Join(dir, "prog"))
	if err != nil {
		c.Infra(err)
		return
	}
	for _, e := range ents {
		b, err := os.ReadFile(filepath.Join(dir, "prog", e.Name()))
		if err != nil {
			c.Infra(err)
			return
		}
		files[e.Name()] = string(b)
	}
	exp, err := os.ReadFile(filepath.Join(dir, "expected.txt"))
	if err != nil {
		c.Infra(err)
		return
	}
	prog := gjs.Prog{Files: files}
	b := pool.RunBoth(c.Scratch, prog, gjs.Opts{}, time.Minute, true, false)
	if b.BuildErr != nil || b.NativeErr != "" {
		c.Infra(fmt.Errorf("replay build failed: %v %s", b.BuildErr, b.NativeErr))
		return
	}
	js, err1 := parseOut(b.JS.Lines, 1)
	nat, err2 := parseOut(b.Native.Lines, 1)
	if err1 != nil || err2 != nil {
		c.Infra(fmt.Errorf("replay output: %v %v", err1, err2))
		return
	}
	want := strings.TrimSpace(string(exp))
	c.Set("evaluations", 1)
	if strings.TrimSpace(fmt.Sprintln(nat[0])) != want {
		c.Set("spec_guard_discards", 1)
		fmt.Printf("replay: the reference toolchain prints %v, recorded expectation %s: discarded\n", nat[0], want)
		return
	}
	if strings.TrimSpace(fmt.Sprintln(js[0])) != want {
		c.Report(core.Case{Summary: fmt.Sprintf("replay of %s: expected %s, compiled program printed %v", dir, want, js[0]), Files: prog.ReplayFiles("prog")})
		return
	}
	fmt.Printf("replay: compiled program prints the expected probes %s\n", want)
}
