package c07

import (
	"encoding/json"
	"fmt"
	"strings"
)

// Shape is a type shape of spec/StoreScen.tla: int | arr T | st T1 T2 | emb T1 T2 | ptr T | sl T | mp T.
type Shape struct {
	K    string
	A, B *Shape
}

func decodeShape(raw json.RawMessage) (*Shape, error) {
	var a []json.RawMessage
	if err := json.Unmarshal(raw, &a); err != nil {
		return nil, err
	}
	if len(a) == 0 {
		return nil, fmt.Errorf("empty shape")
	}
	s := &Shape{}
	if err := json.Unmarshal(a[0], &s.K); err != nil {
		return nil, err
	}
	var err error
	if len(a) > 1 {
		if s.A, err = decodeShape(a[1]); err != nil {
			return nil, err
		}
	}
	if len(a) > 2 {
		if s.B, err = decodeShape(a[2]); err != nil {
			return nil, err
		}
	}
	return s, nil
}

func (s *Shape) String() string {
	switch s.K {
	case "int":
		return "int"
	case "arr":
		return "[2]" + s.A.String()
	case "st":
		return "struct{" + s.A.String() + ";" + s.B.String() + "}"
	case "emb":
		return "struct{E " + s.A.String() + ";" + s.B.String() + "}"
	case "ptr":
		return "*" + s.A.String()
	case "sl":
		return "[]" + s.A.String()
	case "mp":
		return "map[int32]" + s.A.String()
	}
	return "?"
}

func (s *Shape) isAgg() bool { return s.K == "arr" || s.K == "st" || s.K == "emb" }

// nLeaves is the number of integers a deep read observes (slices have two
// elements, maps one entry), the n of Fresh in Store.tla.
func (s *Shape) nLeaves() int {
	switch s.K {
	case "int":
		return 1
	case "arr", "sl":
		return 2 * s.A.nLeaves()
	case "st", "emb":
		return s.A.nLeaves() + s.B.nLeaves()
	case "ptr", "mp":
		return s.A.nLeaves()
	}
	return 0
}

// Step is one step of an access path: f field, e array element, s slice element,
// k map key, d dereference (indices 1-based as in the specification).
type Step struct {
	K string
	I int
}

func decodePath(raw json.RawMessage) ([]Step, error) {
	var a [][]json.RawMessage
	if err := json.Unmarshal(raw, &a); err != nil {
		return nil, err
	}
	var out []Step
	for _, e := range a {
		var st Step
		if len(e) != 2 {
			return nil, fmt.Errorf("bad step")
		}
		if err := json.Unmarshal(e[0], &st.K); err != nil {
			return nil, err
		}
		if err := json.Unmarshal(e[1], &st.I); err != nil {
			return nil, err
		}
		out = append(out, st)
	}
	return out, nil
}

// typeEnv names the types of one (shape, variant) unit inside a program.
type typeEnv struct {
	n     int    // index in the program
	top   *Shape // the type under test
	named bool   // inner array/struct types are named types
	leaf  string // int32 | int64
}

func newTypeEnv(n int, top *Shape, variant string) *typeEnv {
	e := &typeEnv{n: n, top: top, named: true, leaf: "int32"}
	switch variant {
	case "n32":
	case "a32":
		e.named = false
	case "n64":
		e.leaf = "int64"
	case "a64":
		e.named = false
		e.leaf = "int64"
	}
	return e
}

func (e *typeEnv) T() string   { return fmt.Sprintf("T%d", e.n) }
func (e *typeEnv) Emb() string { return fmt.Sprintf("E%d", e.n) }
func (e *typeEnv) W() string   { return fmt.Sprintf("W%d", e.n) }
func (e *typeEnv) G() string   { return fmt.Sprintf("g%d", e.n) }
func (e *typeEnv) I() string   { return fmt.Sprintf("I%d", e.n) }
func (e *typeEnv) WI() string  { return fmt.Sprintf("WI%d", e.n) }

// innerName is the name of a named inner aggregate type.
func (e *typeEnv) innerName(s *Shape) string {
	if s.K == "arr" {
		return fmt.Sprintf("T%dar", e.n)
	}
	return fmt.Sprintf("T%dst", e.n)
}

// lit is the type literal of s (one level; nested aggregates through typ).
func (e *typeEnv) lit(s *Shape) string {
	switch s.K {
	case "int":
		return e.leaf
	case "arr":
		return "[2]" + e.typ(s.A)
	case "st":
		return "struct {\na " + e.typ(s.A) + "\nb " + e.typ(s.B) + "\n}"
	case "emb":
		return "struct {\n" + e.Emb() + "\nc " + e.typ(s.B) + "\n}"
	case "ptr":
		return "*" + e.typ(s.A)
	case "sl":
		return "[]" + e.typ(s.A)
	case "mp":
		return "map[int32]" + e.typ(s.A)
	}
	panic("lit: " + s.K)
}

// typ is the Go type expression for a shape occurring inside (or being) the top type.
func (e *typeEnv) typ(s *Shape) string {
	if s == e.top {
		return e.T()
	}
	if e.top.K == "emb" && s == e.top.A {
		return e.Emb()
	}
	if s.isAgg() && s.K != "emb" {
		if e.named {
			return e.innerName(s)
		}
		// anonymous struct types are written on one line
		return strings.ReplaceAll(strings.ReplaceAll(e.lit(s), "{\n", "{ "), "\n", "; ")
	}
	return e.lit(s)
}

// innerAggs returns the distinct inner aggregate shapes (depth 1: [2]L and struct{a,b L}).
func (e *typeEnv) innerAggs() []*Shape {
	var out []*Shape
	seen := map[string]bool{}
	var walk func(s *Shape, top bool)
	walk = func(s *Shape, top bool) {
		if s == nil {
			return
		}
		if !top && s.isAgg() && !seen[s.String()] {
			seen[s.String()] = true
			out = append(out, s)
		}
		if s.K == "emb" {
			walk(s.B, false) // the embedded struct itself is E<n>
			return
		}
		walk(s.A, false)
		walk(s.B, false)
	}
	walk(e.top, true)
	return out
}

// value builds a Go expression for a fresh value of s whose leaves are
// base+k, base+k+1, ... in depth-first order (Fresh of Store.tla).
func (e *typeEnv) value(s *Shape, k *int) string {
	switch s.K {
	case "int":
		v := fmt.Sprintf("%s(base + %d)", e.leaf, *k)
		*k++
		return v
	case "arr":
		a := e.value(s.A, k)
		b := e.value(s.A, k)
		return e.typ(s) + "{" + a + ", " + b + "}"
	case "st":
		a := e.value(s.A, k)
		b := e.value(s.B, k)
		return e.typ(s) + "{a: " + a + ", b: " + b + "}"
	case "emb":
		a := e.value(s.A, k)
		b := e.value(s.B, k)
		return e.typ(s) + "{" + e.Emb() + ": " + a + ", c: " + b + "}"
	case "ptr":
		if s.A.K == "int" {
			return fmt.Sprintf("newLeaf%d(%s)", e.n, e.value(s.A, k))
		}
		return "&" + e.value(s.A, k)
	case "sl":
		a := e.value(s.A, k)
		b := e.value(s.A, k)
		return "[]" + e.typ(s.A) + "{" + a + ", " + b + "}"
	case "mp":
		a := e.value(s.A, k)
		return "map[int32]" + e.typ(s.A) + "{1: " + a + "}"
	}
	panic("value: " + s.K)
}

// sel renders the access path on base starting at a value of shape s.
func (e *typeEnv) sel(base string, s *Shape, path []Step) string {
	for i, st := range path {
		switch st.K {
		case "f":
			switch {
			case s.K == "emb" && st.I == 1:
				// promoted selector when a field of the embedded struct follows
				if !(i+1 < len(path) && path[i+1].K == "f") {
					base += "." + e.Emb()
				}
				s = s.A
			case s.K == "emb":
				base += ".c"
				s = s.B
			case st.I == 1:
				base += ".a"
				s = s.A
			default:
				base += ".b"
				s = s.B
			}
		case "e", "s":
			base += fmt.Sprintf("[%d]", st.I-1)
			s = s.A
		case "k":
			base += fmt.Sprintf("[%d]", st.I)
			s = s.A
		case "d":
			base = "(*" + base + ")"
			s = s.A
		}
	}
	return base
}

// leafPaths mirrors LeafPaths of StoreScen.tla but also descends into map entries
// of any type (used for reading, where m[k].f is legal).
func leafPaths(s *Shape) [][]Step {
	pre := func(st Step, ps [][]Step) [][]Step {
		var out [][]Step
		for _, p := range ps {
			out = append(out, append([]Step{st}, p...))
		}
		return out
	}
	switch s.K {
	case "int":
		return [][]Step{nil}
	case "arr":
		return append(pre(Step{"e", 1}, leafPaths(s.A)), pre(Step{"e", 2}, leafPaths(s.A))...)
	case "st", "emb":
		return append(pre(Step{"f", 1}, leafPaths(s.A)), pre(Step{"f", 2}, leafPaths(s.B))...)
	case "ptr":
		return pre(Step{"d", 0}, leafPaths(s.A))
	case "sl":
		return append(pre(Step{"s", 1}, leafPaths(s.A)), pre(Step{"s", 2}, leafPaths(s.A))...)
	case "mp":
		return pre(Step{"k", 1}, leafPaths(s.A))
	}
	return nil
}

// helperName is the suffix of the mk/pr functions for shape s in this unit.
func (e *typeEnv) helperName(s *Shape) string {
	if s == e.top {
		return fmt.Sprintf("%d", e.n)
	}
	if e.top.K == "emb" && s == e.top.A {
		return fmt.Sprintf("%dem", e.n)
	}
	if s.K == "arr" {
		return fmt.Sprintf("%dar", e.n)
	}
	return fmt.Sprintf("%dst", e.n)
}

// decls renders the declarations of one unit: types, constructors, probes,
// methods, wrapper, interfaces, package-level variable.
func (e *typeEnv) decls() string {
	var b strings.Builder
	T := e.T()
	if e.top.K == "emb" {
		fmt.Fprintf(&b, "type %s struct {\na %s\nb %s\n}\n", e.Emb(), e.typ(e.top.A.A), e.typ(e.top.A.B))
	}
	inner := e.innerAggs()
	if e.named {
		for _, s := range inner {
			fmt.Fprintf(&b, "type %s %s\n", e.innerName(s), e.lit(s))
		}
	}
	fmt.Fprintf(&b, "type %s %s\n", T, e.lit(e.top))
	fmt.Fprintf(&b, "type C%d %s\n", e.n, T)
	fmt.Fprintf(&b, "type %s struct {\nf %s\ng %s\n}\n", e.W(), T, e.leaf)
	fmt.Fprintf(&b, "type %s interface{ Get() %s }\n", e.I(), T)
	fmt.Fprintf(&b, "type %s interface{ With(func(*%s)) }\n", e.WI(), T)
	fmt.Fprintf(&b, "var %s %s\n", e.G(), T)
	fmt.Fprintf(&b, "func addr%d() *%s { return &%s }\n", e.n, T, e.G())
	fmt.Fprintf(&b, "func newLeaf%d(v %s) *%s { return &v }\n", e.n, e.leaf, e.leaf)
	fmt.Fprintf(&b, "func (v %s) Get() %s { return v }\n", T, T)
	fmt.Fprintf(&b, "func (v %s) With(k func(*%s)) { k(&v) }\n", T, T)
	fmt.Fprintf(&b, "func (v *%s) PWith(k func(*%s)) { k(v) }\n", T, T)
	fmt.Fprintf(&b, "func (v *%s) Ptr() *%s { return v }\n", T, T)
	all := append([]*Shape{e.top}, inner...)
	if e.top.K == "emb" {
		all = append(all, e.top.A)
	}
	done := map[string]bool{}
	for _, s := range all {
		hn := e.helperName(s)
		tn := e.typ(s)
		if done[hn] {
			continue
		}
		done[hn] = true
		k := 0
		val := e.value(s, &k)
		fmt.Fprintf(&b, "func mk%s(base %s) %s {\nreturn %s\n}\n", hn, e.leaf, tn, val)
		var leaves []string
		for _, p := range leafPaths(s) {
			x := e.sel("v", s, p)
			if e.leaf != "int32" {
				x = "int32(" + x + ")"
			}
			leaves = append(leaves, x)
		}
		fmt.Fprintf(&b, "func pr%s(id int32, v %s) {\nprintln(id, %s)\n}\n", hn, tn, strings.Join(leaves, ", "))
	}
	return b.String()
}
