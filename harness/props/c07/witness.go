package c07

import "verif/props/witness"

// Witness programs for C07 (see package witness): element pointers of NUMERIC slices and
// arrays (typed arrays at run time, pointer objects cached per backing buffer), reached through
// sub-slices and slice-to-array-pointer conversions that start at a non-zero offset. The
// shapes of StoreScen.tla have struct and array elements only.
var witnesses = []witness.W{
	witness.Src("element_pointers_of_numeric_views", "", `package main

func main() {
	s := []int32{10, 11, 12, 13, 14, 15}
	p0 := &s[0]
	p2 := &s[2]
	a := (*[3]int32)(s[2:])
	q0 := &a[0]
	q1 := &a[1]
	*q0 += 100
	*p0 += 100
	*q1 = 70
	println(s[0], s[1], s[2], s[3], s[4], s[5])
	println(q0 == p2, q0 == p0, q1 == &s[3], &a[2] == &s[4])
	s[2] = 5
	println(*q0, *p2, a[0])
	t := s[1:4]
	r1 := &t[1]
	println(r1 == p2, r1 == q0, *r1)
	*r1 = 9
	println(s[2], a[0], *q0)
	b := (*[2]int32)(t[1:])
	println(&b[0] == p2, &b[1] == q1)
	f := []float64{1, 2, 3, 4}
	g := (*[2]float64)(f[2:])
	pf := &g[1]
	*pf = 8
	println(f[3] == 8, pf == &f[3], &g[0] == &f[2], &f[0] == &g[0])
	u := []uint8{1, 2, 3, 4, 5}
	v := (*[2]uint8)(u[3:])
	w := (*[2]uint8)(u[1:])
	*(&v[0]) = 40
	*(&w[0]) = 20
	println(u[0], u[1], u[2], u[3], u[4], &v[0] == &u[3], &w[0] == &u[1], &w[0] == &v[0])
}
`),
	witness.Src("element_pointers_of_arrays_in_structs", "", `package main

type S struct {
	n [4]int16
	m [2][2]int32
}

func main() {
	var x S
	p := &x.n[1]
	q := &x.n[1]
	r := &x.m[1][0]
	y := x
	*p = 7
	*r = 9
	println(x.n[1], y.n[1], p == q, *q, x.m[1][0], y.m[1][0])
	sl := x.n[1:3]
	ps := &sl[0]
	*ps = 8
	println(x.n[1], *p, ps == p, &sl[1] == &x.n[2])
	z := &x
	println(&z.n[1] == p, &(*z).m[1][0] == r)
}
`),
}
