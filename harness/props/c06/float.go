package c06

// Float / complex part of C06.
//
// spec/FloatArith.tla is the exact reference (dyadic rationals with unbounded
// mantissas, IEEE 754 round-to-nearest-even to binary32 / binary64, special
// values, conversions, Go's constant rules, complex arithmetic);
// spec/FloatArithNat.tla are its unbounded naturals, checked against integer
// arithmetic by spec/FloatArithValidate.tla; spec/FloatArithScen.tla enumerates
// expressions over boundary pools with the predicted IEEE 754 bit patterns and
// checks algebraic laws on the reference itself.  This file renders the
// expressions as Go table programs (predeclared and defined float types),
// runs them compiled by the compiler under test and natively (guard) and
// compares the printed bit patterns with the prediction.

import (
	"encoding/json"
	"fmt"
	"math/big"
	"math/rand"
	"os"
	"path/filepath"
	"sort"
	"strconv"
	"strings"
	"sync"
	"time"

	"verif/core"
	"verif/gjs"
	"verif/tlcx"
)

var isFloatT = map[string]bool{"f32": true, "f64": true}
var isComplexT = map[string]bool{"c64": true, "c128": true}
var compOf = map[string]string{"c64": "f32", "c128": "f64"}
var cplxOf = map[string]string{"f32": "c64", "f64": "c128"}
var floatGoType = map[string]string{"f32": "float32", "f64": "float64", "c64": "complex64", "c128": "complex128"}

// fval is an operand value of FloatArith.tla.
type fval struct {
	kind   string // nan inf zero fin cx int
	s      int
	m      *big.Int // fin: odd mantissa
	e      int
	re, im *fval   // cx
	limbs  []int64 // int: 16-bit limbs
}

func num(x any) (int, bool) {
	f, ok := x.(float64)
	return int(f), ok
}

func decodeFval(x any, t string) (*fval, error) {
	a, ok := x.([]any)
	if !ok {
		return nil, fmt.Errorf("value %v is not a tuple", x)
	}
	if _, isInt := width[t]; isInt {
		v := &fval{kind: "int"}
		for _, l := range a {
			n, ok := num(l)
			if !ok {
				return nil, fmt.Errorf("bad integer limbs %v", x)
			}
			v.limbs = append(v.limbs, int64(n))
		}
		return v, nil
	}
	if len(a) == 0 {
		return nil, fmt.Errorf("empty value")
	}
	kind, _ := a[0].(string)
	switch kind {
	case "cx":
		if len(a) != 3 {
			return nil, fmt.Errorf("bad complex value %v", x)
		}
		re, err := decodeFval(a[1], "f64")
		if err != nil {
			return nil, err
		}
		im, err := decodeFval(a[2], "f64")
		if err != nil {
			return nil, err
		}
		return &fval{kind: "cx", re: re, im: im}, nil
	case "nan", "inf", "zero", "fin":
		if len(a) != 4 {
			return nil, fmt.Errorf("bad float value %v", x)
		}
		v := &fval{kind: kind}
		v.s, _ = num(a[1])
		v.e, _ = num(a[3])
		if kind == "fin" {
			ls, ok := a[2].([]any)
			if !ok || len(ls) == 0 {
				return nil, fmt.Errorf("bad mantissa %v", x)
			}
			v.m = new(big.Int)
			for i := len(ls) - 1; i >= 0; i-- { // base 2^15 limbs, least significant first
				n, _ := num(ls[i])
				v.m.Lsh(v.m, 15)
				v.m.Or(v.m, big.NewInt(int64(n)))
			}
			if v.m.Sign() <= 0 {
				return nil, fmt.Errorf("bad mantissa %v", x)
			}
		}
		return v, nil
	}
	return nil, fmt.Errorf("unknown value kind in %v", x)
}

// hexLit is the exact untyped Go literal of a finite value or zero ("" for the others).
func (v *fval) hexLit() string {
	switch v.kind {
	case "zero":
		if v.s == 0 {
			return "0.0"
		}
	case "fin":
		sg := ""
		if v.s == 1 {
			sg = "-"
		}
		return fmt.Sprintf("%s0x%sp%d", sg, v.m.Text(16), v.e)
	}
	return ""
}

// f64Expr is a Go expression of type float64 with this value (specials through
// package variables: they have no constant).
func (v *fval) f64Expr() string {
	if l := v.hexLit(); l != "" {
		return l
	}
	switch v.kind {
	case "nan":
		return "vNaN"
	case "inf":
		if v.s == 1 {
			return "vNegInf"
		}
		return "vPosInf"
	}
	return "vNegZero"
}

// describe is used in summaries.
func (v *fval) describe() string {
	switch v.kind {
	case "cx":
		return "complex(" + v.re.describe() + ", " + v.im.describe() + ")"
	case "int":
		return fmt.Sprint(v.limbs)
	case "nan":
		return "NaN"
	case "inf":
		if v.s == 1 {
			return "-Inf"
		}
		return "+Inf"
	case "zero":
		if v.s == 1 {
			return "-0"
		}
		return "0"
	}
	return v.hexLit()
}

// fexpr is an expression tree of FloatArith.tla.
type fexpr struct {
	kind string // var lit bin asg cmp neg conv real imag cplx untyped
	op   string
	typ  string // var/lit: its type; conv/untyped: the target
	val  *fval
	u    [2]*fval // untyped: the two constants
	args []*fexpr
}

func decodeFexpr(x any) (*fexpr, error) {
	a, ok := x.([]any)
	if !ok || len(a) < 2 {
		return nil, fmt.Errorf("bad expression %v", x)
	}
	kind, _ := a[0].(string)
	e := &fexpr{kind: kind}
	sub := func(y any) error {
		s, err := decodeFexpr(y)
		if err != nil {
			return err
		}
		e.args = append(e.args, s)
		return nil
	}
	need := func(n int) error {
		if len(a) != n {
			return fmt.Errorf("bad %s expression %v", kind, x)
		}
		return nil
	}
	var err error
	switch kind {
	case "var", "lit":
		if err = need(3); err != nil {
			return nil, err
		}
		e.typ, _ = a[1].(string)
		e.val, err = decodeFval(a[2], e.typ)
	case "bin", "asg", "cmp":
		if err = need(4); err != nil {
			return nil, err
		}
		e.op, _ = a[1].(string)
		if err = sub(a[2]); err == nil {
			err = sub(a[3])
		}
	case "neg", "real", "imag":
		if err = need(2); err != nil {
			return nil, err
		}
		err = sub(a[1])
	case "cplx":
		if err = need(3); err != nil {
			return nil, err
		}
		if err = sub(a[1]); err == nil {
			err = sub(a[2])
		}
	case "conv":
		if err = need(3); err != nil {
			return nil, err
		}
		e.typ, _ = a[1].(string)
		err = sub(a[2])
	case "untyped":
		if err = need(5); err != nil {
			return nil, err
		}
		e.typ, _ = a[1].(string)
		e.op, _ = a[2].(string)
		if e.u[0], err = decodeFval(a[3], "f64"); err == nil {
			e.u[1], err = decodeFval(a[4], "f64")
		}
	default:
		err = fmt.Errorf("unknown expression kind %q", kind)
	}
	if err != nil {
		return nil, err
	}
	return e, nil
}

func (e *fexpr) typeOf() string {
	switch e.kind {
	case "var", "lit", "conv", "untyped":
		return e.typ
	case "cmp":
		return "bool"
	case "real", "imag":
		return compOf[e.args[0].typeOf()]
	case "cplx":
		return cplxOf[e.args[0].typeOf()]
	}
	return e.args[0].typeOf()
}

func (e *fexpr) has(pred func(*fexpr) bool) bool {
	if pred(e) {
		return true
	}
	for _, a := range e.args {
		if a.has(pred) {
			return true
		}
	}
	return false
}

// tn is the Go name of a type in a program (defined types n_T in the named variant).
func tn(t string, named bool) string {
	g, ok := floatGoType[t]
	if !ok {
		g = goType[t]
	}
	if named && t != "bool" {
		return "n_" + g
	}
	return g
}

func paren(l string) string {
	if strings.HasPrefix(l, "-") {
		return "(" + l + ")"
	}
	return l
}

// lit renders a typed constant.
func (v *fval) lit(t string, named bool) string {
	switch {
	case v.kind == "int":
		return tn(t, named) + "(" + limbsToBig(v.limbs, t).String() + ")"
	case v.kind == "cx":
		return tn(t, named) + "(complex(" + v.re.hexLit() + ", " + v.im.hexLit() + "))"
	}
	return tn(t, named) + "(" + v.hexLit() + ")"
}

// operand renders a run-time operand as an element of a table (an array literal of type tn(t)).
func (v *fval) operand(t string, named bool) string {
	switch v.kind {
	case "int":
		return limbsToBig(v.limbs, t).String()
	case "cx":
		if v.re.hexLit() != "" && v.im.hexLit() != "" {
			return "complex(" + v.re.hexLit() + ", " + v.im.hexLit() + ")"
		}
		return tn(t, named) + "(complex(" + v.re.f64Expr() + ", " + v.im.f64Expr() + "))"
	}
	if l := v.hexLit(); l != "" {
		return l
	}
	return tn(t, named) + "(" + v.f64Expr() + ")"
}

// render gives the Go expression; run-time operands become parameters p0, p1, ...
func (e *fexpr) render(params *[]*fexpr, named bool) string {
	switch e.kind {
	case "var":
		*params = append(*params, e)
		return fmt.Sprintf("p%d", len(*params)-1)
	case "lit":
		return e.val.lit(e.typ, named)
	case "bin", "cmp", "asg":
		return "(" + e.args[0].render(params, named) + " " + goOp[e.op] + " " + e.args[1].render(params, named) + ")"
	case "neg":
		x := e.args[0].render(params, named)
		if e.args[0].kind == "neg" || strings.HasPrefix(x, "-") {
			return "- " + x // `- -x` as a programmer writes it
		}
		return "-" + x
	case "conv":
		return tn(e.typ, named) + "(" + e.args[0].render(params, named) + ")"
	case "real", "imag":
		// the builtin yields the predeclared float type also for a defined complex type
		return tn(e.typeOf(), named) + "(" + e.kind + "(" + e.args[0].render(params, named) + "))"
	case "cplx":
		return tn(e.typeOf(), named) + "(complex(" + e.args[0].render(params, named) + ", " + e.args[1].render(params, named) + "))"
	case "untyped":
		return tn(e.typ, named) + "(" + paren(e.u[0].hexLit()) + " " + goOp[e.op] + " " + paren(e.u[1].hexLit()) + ")"
	}
	panic("render: " + e.kind)
}

// layout: the IEEE 754 views a program prints of a result of type t, in order. A float32
// (and each part of a complex64) is printed as math.Float32bits AND as math.Float64bits of
// its conversion to float64: storing into a Float32Array (what Float32bits does under
// GopherJS) would hide a value that was not rounded to single precision.
var layout = map[string][]int{"f32": {32, 64}, "f64": {64}, "c64": {32, 32, 64, 64}, "c128": {64, 64}}

// slotsLine is the line a program prints for a result given as slots of 16-bit limbs.
func slotsLine(slots [][]int64, t string) (string, error) {
	if t == "bool" {
		if len(slots) != 1 || len(slots[0]) != 1 {
			return "", fmt.Errorf("bad bool result %v", slots)
		}
		return map[int64]string{0: "false", 1: "true"}[slots[0][0]], nil
	}
	lay, ok := layout[t]
	if !ok {
		if len(slots) != 1 {
			return "", fmt.Errorf("bad integer result %v", slots)
		}
		return expectedLine(slots[0], t), nil
	}
	if len(slots) != len(lay) {
		return "", fmt.Errorf("bad %s result %v", t, slots)
	}
	var out []string
	for i, w := range lay {
		l := slots[i]
		switch {
		case len(l) == 1 && l[0] == -1 && w == 32:
			out = append(out, "NaN")
		case len(l) == 1 && l[0] == -1:
			out = append(out, "NaN", "NaN")
		case w == 32 && len(l) == 2:
			out = append(out, strconv.FormatInt(l[0]|l[1]<<16, 10))
		case w == 64 && len(l) == 4:
			out = append(out, strconv.FormatInt(l[2]|l[3]<<16, 10), strconv.FormatInt(l[0]|l[1]<<16, 10))
		default:
			return "", fmt.Errorf("bad pattern %v in %s result", l, t)
		}
	}
	return strings.Join(out, " "), nil
}

// canonLine replaces the bit patterns of NaNs in a printed line by "NaN"
// (the payload of a NaN is not part of the prediction).
func canonLine(line, t string) string {
	lay, ok := layout[t]
	if !ok {
		if line == "-0" {
			return "0" // see c06.go: print rendering of an integer zero held as -0
		}
		return line
	}
	f := strings.Fields(line)
	n := 0
	for _, w := range lay {
		n += w / 32
	}
	if len(f) != n {
		return line
	}
	i := 0
	for _, w := range lay {
		if w == 32 {
			u, err := strconv.ParseUint(f[i], 10, 32)
			if err == nil && u&0x7F800000 == 0x7F800000 && u&0x7FFFFF != 0 {
				f[i] = "NaN"
			}
			i++
		} else {
			hi, err1 := strconv.ParseUint(f[i], 10, 32)
			lo, err2 := strconv.ParseUint(f[i+1], 10, 32)
			if err1 == nil && err2 == nil && hi&0x7FF00000 == 0x7FF00000 && (hi&0xFFFFF != 0 || lo != 0) {
				f[i], f[i+1] = "NaN", "NaN"
			}
			i += 2
		}
	}
	return strings.Join(f, " ")
}

type frec struct {
	e    *fexpr
	raw  string
	want string
	alts []string // further permitted results (fused multiply-add)
	tags []string
	// noGuard: VERIF_C06_CORRUPT only (a deliberately wrong prediction is judged although the guard rejects it)
	noGuard bool
}

type fshape struct {
	key    string
	e      *fexpr // representative (for rendering)
	ptypes []string
	rtype  string
	rows   []*frec
	args   [][]*fexpr
}

type fprogram struct {
	shapes []*fshape
	n      int
	named  bool
}

const floatProgHead = `package main

import "math"

var vZero float64
var vPosInf = 1 / vZero
var vNegInf = -1 / vZero
var vNaN = vZero / vZero
var vNegZero = 1 / vNegInf
var _ = math.Float64bits

`

func renderFloatProgram(p *fprogram) gjs.Prog {
	var b strings.Builder
	b.WriteString(floatProgHead)
	nm := p.named
	if nm {
		for _, t := range []string{"int8", "int16", "int32", "int64", "uint8", "uint16", "uint32", "uint64", "tInt", "tUint", "tUptr", "float32", "float64", "complex64", "complex128"} {
			fmt.Fprintf(&b, "type n_%s %s\n", t, t)
		}
		b.WriteString("\n")
	}
	used := map[string]bool{}
	for _, s := range p.shapes {
		used[s.rtype] = true
	}
	var rts []string
	for t := range used {
		rts = append(rts, t)
	}
	sort.Strings(rts)
	for _, t := range rts {
		g := tn(t, nm)
		switch {
		case t == "bool":
			b.WriteString("func o_bool(x bool) { println(x) }\n")
		case t == "f32":
			fmt.Fprintf(&b, "func o_f32(x %s) {\n\tu := math.Float64bits(float64(x))\n\tprintln(math.Float32bits(float32(x)), uint32(u>>32), uint32(u))\n}\n", g)
		case t == "f64":
			fmt.Fprintf(&b, "func o_f64(x %s) { u := math.Float64bits(float64(x)); println(uint32(u>>32), uint32(u)) }\n", g)
		case t == "c64":
			fmt.Fprintf(&b, "func o_c64(x %s) {\n\tc := complex64(x)\n\tu, v := math.Float64bits(float64(real(c))), math.Float64bits(float64(imag(c)))\n\tprintln(math.Float32bits(real(c)), math.Float32bits(imag(c)), uint32(u>>32), uint32(u), uint32(v>>32), uint32(v))\n}\n", g)
		case t == "c128":
			fmt.Fprintf(&b, "func o_c128(x %s) {\n\tc := complex128(x)\n\tu, v := math.Float64bits(real(c)), math.Float64bits(imag(c))\n\tprintln(uint32(u>>32), uint32(u), uint32(v>>32), uint32(v))\n}\n", g)
		case width[t] == 64:
			fmt.Fprintf(&b, "func o_%s(x %s) { u := uint64(x); println(uint32(u>>32), uint32(u)) }\n", t, g)
		default:
			fmt.Fprintf(&b, "func o_%s(x %s) { println(x) }\n", t, g)
		}
	}
	b.WriteString("\n")
	var calls []string // the body of main, in shape order
	tables := map[string]string{}
	var chunk []string // pending statements of constant expressions
	nchunk := 0
	flush := func() {
		if len(chunk) == 0 {
			return
		}
		fmt.Fprintf(&b, "func k%d() {\n\t%s\n}\n\n", nchunk, strings.Join(chunk, "\n\t"))
		calls = append(calls, fmt.Sprintf("k%d()", nchunk))
		nchunk++
		chunk = nil
	}
	for i, s := range p.shapes {
		var ps []*fexpr
		code := s.e.render(&ps, nm)
		if len(s.ptypes) == 0 {
			// a constant expression: one row, printed by a statement of a shared function
			chunk = append(chunk, fmt.Sprintf("o_%s(%s)", s.rtype, code))
			if len(chunk) >= 100 {
				flush()
			}
			continue
		}
		flush()
		var sig []string
		for j, pt := range s.ptypes {
			sig = append(sig, fmt.Sprintf("p%d %s", j, tn(pt, nm)))
		}
		if s.e.kind == "asg" {
			// compound assignment to the first operand
			fmt.Fprintf(&b, "func s%d(%s) %s {\n\tp0 %s= p1\n\treturn p0\n}\n", i, strings.Join(sig, ", "), tn(s.rtype, nm), goOp[s.e.op])
		} else {
			fmt.Fprintf(&b, "func s%d(%s) %s { return %s }\n", i, strings.Join(sig, ", "), tn(s.rtype, nm), code)
		}
		var call []string
		first := ""
		for j, pt := range s.ptypes {
			var lit strings.Builder
			fmt.Fprintf(&lit, "[...]%s{", tn(pt, nm))
			for k, row := range s.args {
				if k > 0 {
					lit.WriteString(", ")
				}
				lit.WriteString(row[j].val.operand(pt, nm))
			}
			lit.WriteString("}")
			name, ok := tables[lit.String()] // an operand table is declared once per program
			if !ok {
				name = fmt.Sprintf("a%d_%d", i, j)
				tables[lit.String()] = name
				fmt.Fprintf(&b, "var %s = %s\n", name, lit.String())
			}
			if j == 0 {
				first = name
			}
			call = append(call, name+"[i]")
		}
		fmt.Fprintf(&b, "func r%d() {\n\tfor i := range %s {\n\t\to_%s(s%d(%s))\n\t}\n}\n\n", i, first, s.rtype, i, strings.Join(call, ", "))
		calls = append(calls, fmt.Sprintf("r%d()", i))
	}
	flush()
	b.WriteString("func main() {\n")
	for _, cl := range calls {
		b.WriteString("\t" + cl + "\n")
	}
	b.WriteString("}\n")
	return gjs.Prog{Files: map[string]string{"main.go": b.String(), "types_js.go": typesJS, "types_native.go": typesNative}}
}

// equalMagnitude: finite non-zero components of equal magnitude.
func (v *fval) equalMagnitude() bool {
	return v != nil && v.kind == "cx" && v.re.kind == "fin" && v.im.kind == "fin" && v.re.e == v.im.e && v.re.m.Cmp(v.im.m) == 0
}

// onlyZeroSigns: the two printed lines differ only in the sign bit of zero components.
func onlyZeroSigns(want, got, t string) bool {
	w, g := strings.Fields(want), strings.Fields(got)
	lay := layout[t]
	if len(w) != len(g) || !isComplexT[t] {
		return false
	}
	const signBit = "2147483648"
	diff := false
	i := 0
	for _, width := range lay {
		step := width / 32
		if i+step > len(w) {
			return false
		}
		fw, fg := w[i:i+step], g[i:i+step]
		i += step
		if strings.Join(fw, " ") == strings.Join(fg, " ") {
			continue
		}
		diff = true
		isZero := func(f []string) bool {
			if step == 2 && f[1] != "0" {
				return false
			}
			return f[0] == "0" || f[0] == signBit
		}
		if !isZero(fw) || !isZero(fg) {
			return false
		}
	}
	return diff
}

// classifyFloat returns the known-finding classifier keys a failing record satisfies.
func classifyFloat(r *frec, got string) []string {
	var keys []string
	// a 64-bit integer that needs more than 53 bits, converted to float32, where rounding to
	// float64 first changes the result (the specification tags exactly these conversions)
	for _, tg := range r.tags {
		if tg == "double_rounding_via_float64" && r.e.has(func(x *fexpr) bool {
			return x.kind == "conv" && x.typ == "f32" && x.args[0].kind == "var" && width[x.args[0].typ] == 64
		}) {
			keys = append(keys, "int64_to_float32_double_rounding")
		}
	}
	// complex division by a divisor whose parts have equal magnitude: only the sign of a zero part differs
	if r.e.has(func(x *fexpr) bool {
		return (x.kind == "bin" || x.kind == "asg") && x.op == "quo" && isComplexT[x.typeOf()] && (x.args[1].kind == "var" || x.args[1].kind == "lit") && x.args[1].val.equalMagnitude()
	}) && onlyZeroSigns(r.want, got, r.e.typeOf()) {
		keys = append(keys, "complex_div_equal_magnitude_zero_sign")
	}
	return keys
}

// floatRun is the TLC half of the float part (started early, joined later).
type floatRun struct {
	wg     sync.WaitGroup
	ok     bool
	dir    string
	shapes map[string]*fshape
	order  []string
	total  int
	excl   map[string]int
	seen   map[string]bool
}

func randMant(rng *rand.Rand, bits int) *big.Int {
	m := new(big.Int)
	for i := 0; i < bits; i += 15 {
		m.Lsh(m, 15)
		m.Or(m, big.NewInt(rng.Int63n(1<<15)))
	}
	m.Rsh(m, uint((bits+14)/15*15-bits))
	m.SetBit(m, bits-1, 1)
	m.SetBit(m, 0, 1)
	return m
}

func limbs15(m *big.Int) []int64 {
	var l []int64
	x := new(big.Int).Set(m)
	mask := big.NewInt(1<<15 - 1)
	for x.Sign() > 0 {
		l = append(l, new(big.Int).And(x, mask).Int64())
		x.Rsh(x, 15)
	}
	return l
}

// randFloat: a seeded value of the format as a FloatArith tuple (odd mantissa).
func randFloat(rng *rand.Rand, p, emin, emax int) []any {
	bits := 1 + rng.Intn(p)
	if rng.Intn(3) == 0 {
		bits = p
	}
	m := randMant(rng, bits)
	var top int
	switch rng.Intn(6) {
	case 0:
		top = emin + rng.Intn(p+2) // subnormal and the least normal numbers
	case 1:
		top = emax - rng.Intn(3)
	default:
		top = rng.Intn(80) - 40
	}
	e := top - bits + 1
	if e < emin {
		e = emin
	}
	return []any{"fin", rng.Intn(2), limbs15(m), e}
}

func startFloat(c *core.Ctx) *floatRun {
	fr := &floatRun{shapes: map[string]*fshape{}, excl: map[string]int{}, seen: map[string]bool{}}
	fr.wg.Add(1)
	go func() {
		defer fr.wg.Done()
		fr.ok = fr.tlc(c)
	}()
	return fr
}

// VERIF_C06_FLOAT_SCEN_DIR=<dir> (sensitivity runs): the scenario files FloatArithScen
// wrote are kept in <dir>/<tier>-<seed> and reused by later runs with the same tier and
// seed instead of running TLC again (the specification side does not change between
// mutants of the compiler); recorded in the evidence as float_scenarios_reused.
func scenCache(c *core.Ctx) string {
	d := os.Getenv("VERIF_C06_FLOAT_SCEN_DIR")
	if d == "" {
		return ""
	}
	return filepath.Join(d, fmt.Sprintf("%s-%d", c.Tier, c.Seed))
}

func (fr *floatRun) tlc(c *core.Ctx) bool {
	cache := scenCache(c)
	if cache != "" {
		if _, err := os.Stat(filepath.Join(cache, "complete")); err == nil {
			fr.dir = cache
			c.Set("float_scenarios_reused", cache)
			return fr.decode(c)
		}
	}
	// 1. the unbounded naturals agree with integer arithmetic
	vcfg := fmt.Sprintf("SPECIFICATION Spec\nINVARIANT Agree\nCHECK_DEADLOCK FALSE\nCONSTANTS MaxB2 = %d MaxB3 = %d\n", c.Pick(32, 256), c.Pick(16, 128))
	r, err := tlcx.Run(c, tlcx.Opts{Module: "FloatArithValidate", Cfg: vcfg, Workers: tlcWorkers(c, c.Pick(2, 8)), Timeout: 30 * time.Minute})
	if !tlcx.MustComplete(c, r, err, "FloatArithValidate") {
		return false
	}
	// 2. scenarios and laws
	rng := rand.New(rand.NewSource(c.Seed*7919 + 11))
	nr := c.Pick(4, 8)
	var r32, r64, rc64, rc128 []any
	for i := 0; i < nr; i++ {
		r32 = append(r32, randFloat(rng, 24, -149, 127))
		r64 = append(r64, randFloat(rng, 53, -1074, 1023))
	}
	for i := 0; i < c.Pick(2, 4); i++ {
		rc64 = append(rc64, []any{"cx", randFloat(rng, 12, -149, 127), randFloat(rng, 24, -149, 127)})
		rc128 = append(rc128, []any{"cx", randFloat(rng, 26, -1074, 1023), randFloat(rng, 53, -1074, 1023)})
	}
	randOps := map[string]any{"f32": r32, "f64": r64, "c64": rc64, "c128": rc128}
	for _, w := range []int{8, 16, 32, 64} {
		var l [][]int64
		for i := 0; i < c.Pick(3, 8); i++ {
			if w <= 16 {
				l = append(l, []int64{rng.Int63n(1 << uint(w))})
			} else {
				x := make([]int64, w/16)
				for j := range x {
					x[j] = rng.Int63n(1 << 16)
				}
				l = append(l, x)
			}
		}
		randOps[fmt.Sprintf("w%d", w)] = l
	}
	ops := []string{"add", "sub", "mul", "quo"}
	nest1, nest2 := ops, ops
	if !c.Thorough() {
		nest1 = []string{"mul", ops[rng.Intn(4)]}
		nest2 = []string{"add", ops[1+rng.Intn(3)]}
	}
	level := c.Pick(0, 1)
	params := map[string]any{
		"rand":    randOps,
		"classes": []string{"laws", "vv", "vl", "ll", "untyped", "asg", "neg", "nest", "conv", "cvv", "cvl", "cparts"},
		"level":   level, "nest1": nest1, "nest2": nest2, "out": "fscen",
	}
	pj, _ := json.Marshal(params)
	cfg := "SPECIFICATION Spec\nINVARIANT Laws\nINVARIANT Emit\nCHECK_DEADLOCK FALSE\nCONSTANT LB = 15\n"
	r, err = tlcx.Run(c, tlcx.Opts{Module: "FloatArithScen", Cfg: cfg, Workers: tlcWorkers(c, c.Pick(6, 8)), Timeout: 60 * time.Minute, Files: map[string]string{"c06f_params.json": string(pj)}, HeapMB: 8192})
	if !tlcx.MustComplete(c, r, err, "FloatArithScen") {
		return false
	}
	fr.dir = r.Dir
	if cache != "" {
		os.MkdirAll(cache, 0o755)
		files, _ := filepath.Glob(filepath.Join(r.Dir, "fscen.*.ndjson"))
		for _, f := range files {
			if b, err := os.ReadFile(f); err == nil {
				os.WriteFile(filepath.Join(cache, filepath.Base(f)), b, 0o644)
			}
		}
		os.WriteFile(filepath.Join(cache, "complete"), []byte("ok\n"), 0o644)
	}
	return fr.decode(c)
}

func (fr *floatRun) decode(c *core.Ctx) bool {
	files, _ := filepath.Glob(filepath.Join(fr.dir, "fscen.*.ndjson"))
	sort.Strings(files)
	toSlots := func(x any) ([][]int64, error) {
		a, ok := x.([]any)
		if !ok {
			return nil, fmt.Errorf("bad result %v", x)
		}
		var out [][]int64
		for _, s := range a {
			sl, ok := s.([]any)
			if !ok {
				return nil, fmt.Errorf("bad result slot %v", x)
			}
			var l []int64
			for _, n := range sl {
				v, ok := num(n)
				if !ok {
					return nil, fmt.Errorf("bad result limb %v", x)
				}
				l = append(l, int64(v))
			}
			out = append(out, l)
		}
		return out, nil
	}
	for _, f := range files {
		err := tlcx.ReadNDJSON(f, func(raw json.RawMessage) error {
			var inner string
			if err := json.Unmarshal(raw, &inner); err != nil {
				return err
			}
			var rows [][4]json.RawMessage
			if err := json.Unmarshal([]byte(inner), &rows); err != nil {
				return err
			}
			for _, row := range rows {
				key := string(row[0])
				if fr.seen[key] {
					continue
				}
				fr.seen[key] = true
				var ex, res, alts any
				var tags []string
				if err := json.Unmarshal(row[0], &ex); err != nil {
					return err
				}
				if err := json.Unmarshal(row[1], &res); err != nil {
					return err
				}
				if err := json.Unmarshal(row[2], &alts); err != nil {
					return err
				}
				if err := json.Unmarshal(row[3], &tags); err != nil {
					return err
				}
				if ra, ok := res.([]any); ok && len(ra) == 2 {
					if s, ok := ra[0].(string); ok && s == "excluded" {
						why, _ := ra[1].(string)
						fr.excl[why]++
						continue
					}
				}
				e, err := decodeFexpr(ex)
				if err != nil {
					return err
				}
				t := e.typeOf()
				slots, err := toSlots(res)
				if err != nil {
					return err
				}
				rc := &frec{e: e, raw: key, tags: tags}
				if rc.want, err = slotsLine(slots, t); err != nil {
					return err
				}
				if al, ok := alts.([]any); ok {
					for _, a := range al {
						s, err := toSlots(a)
						if err != nil {
							return err
						}
						l, err := slotsLine(s, t)
						if err != nil {
							return err
						}
						rc.alts = append(rc.alts, l)
					}
				}
				var ps []*fexpr
				code := e.render(&ps, false)
				sk := e.kind + "|" + code
				var pts []string
				for _, p := range ps {
					sk += "|" + p.typ
					pts = append(pts, p.typ)
				}
				s := fr.shapes[sk]
				if s == nil {
					s = &fshape{key: sk, e: e, ptypes: pts, rtype: t}
					fr.shapes[sk] = s
					fr.order = append(fr.order, sk)
				}
				s.rows = append(s.rows, rc)
				s.args = append(s.args, ps)
				fr.total++
			}
			return nil
		})
		if err != nil {
			c.Infra(fmt.Errorf("decode %s: %v", f, err))
			return false
		}
	}
	if fr.total == 0 {
		c.Infra(fmt.Errorf("FloatArithScen emitted no scenario"))
		return false
	}
	// canonical row order per shape (TLC's workers write the rows in any order): shapes over the
	// same operand tuples then have identical operand tables, which a program declares once
	for _, s := range fr.shapes {
		keys := make([]string, len(s.rows))
		for i, ps := range s.args {
			var b strings.Builder
			for _, p := range ps {
				b.WriteString(p.val.describe())
				b.WriteByte(';')
			}
			keys[i] = b.String()
		}
		idx := make([]int, len(s.rows))
		for i := range idx {
			idx[i] = i
		}
		sort.SliceStable(idx, func(a, b int) bool { return keys[idx[a]] < keys[idx[b]] })
		rows := make([]*frec, len(idx))
		args := make([][]*fexpr, len(idx))
		for i, k := range idx {
			rows[i], args[i] = s.rows[k], s.args[k]
		}
		s.rows, s.args = rows, args
	}
	return true
}

// exprClass names the kind of evaluation for the coverage counters.
func exprClass(e *fexpr) string {
	cplx := e.has(func(x *fexpr) bool {
		return (x.kind == "var" || x.kind == "lit") && isComplexT[x.typ] || x.kind == "cplx"
	})
	conv := e.has(func(x *fexpr) bool {
		if x.kind != "conv" {
			return false
		}
		_, i1 := width[x.typ]
		_, i2 := width[x.args[0].typeOf()]
		return i1 || i2
	})
	switch {
	case cplx:
		return "complex_evaluations"
	case conv:
		return "int_float_conversion_evaluations"
	case e.has(func(x *fexpr) bool { return x.kind == "lit" || x.kind == "untyped" }):
		return "float_constant_operand_evaluations"
	}
	return "float_evaluations"
}

// runFloatPrograms renders, runs and judges the scenarios of a completed floatRun.
func runFloatPrograms(c *core.Ctx, pool *gjs.Pool, fr *floatRun) {
	fr.wg.Wait()
	if !fr.ok {
		return
	}
	c.Phase("float_tlc")
	classCnt := map[string]int{}
	for _, sk := range fr.order {
		for _, rc := range fr.shapes[sk].rows {
			classCnt[exprClass(rc.e)]++
			c.Distinct("float/" + rc.raw)
		}
	}
	var progs []*fprogram
	cur := &fprogram{}
	for _, sk := range fr.order {
		s := fr.shapes[sk]
		if cur.n > 0 && (cur.n+len(s.rows) > 5000 || len(cur.shapes) >= 800) {
			progs = append(progs, cur)
			cur = &fprogram{}
		}
		cur.shapes = append(cur.shapes, s)
		cur.n += len(s.rows)
	}
	if cur.n > 0 {
		progs = append(progs, cur)
	}
	// the variant with defined types: every program in the thorough tier, every other one
	// (alternating with VERIF_SEED) in the quick tier
	nNamed := 0
	for i, p := range append([]*fprogram{}, progs...) {
		if !c.Thorough() && int64(i)%2 != ((c.Seed%2)+2)%2 {
			continue
		}
		progs = append(progs, &fprogram{shapes: p.shapes, n: p.n, named: true})
		nNamed++
	}
	type group struct {
		named bool
		keys  []string
		first *frec
		got   string
		count int
		shape *fshape
	}
	results := make([]map[string]*group, len(progs))
	discards := make([]int, len(progs))
	judged := make([]int, len(progs))
	var discardNotes []string
	var mu sync.Mutex
	// programs run in a seeded order; VERIF_C06_STOP_AT_FIRST=1 (sensitivity runs) skips the
	// remaining programs once one has reported a new violation
	perm := rand.New(rand.NewSource(c.Seed)).Perm(len(progs))
	if os.Getenv("VERIF_C06_CORRUPT") == "float" {
		// non-vacuity of the binding: one wrong prediction (in the program that runs first) must be reported
		rc := progs[perm[0]].shapes[0].rows[0]
		cp := *rc
		cp.want, cp.alts = "12345", nil
		cp.noGuard = os.Getenv("VERIF_C06_CORRUPT_NOGUARD") != ""
		progs[perm[0]].shapes[0].rows[0] = &cp
	}
	stopAtFirst := os.Getenv("VERIF_C06_STOP_AT_FIRST") != ""
	skipped := 0
	c.ParMap(len(progs), func(j int) {
		i := perm[j]
		p := progs[i]
		if stopAtFirst && c.Violations() > 0 {
			mu.Lock()
			skipped++
			mu.Unlock()
			return
		}
		prog := renderFloatProgram(p)
		b := pool.RunBoth(c.Scratch, prog, gjs.Opts{}, 5*time.Minute, true, false)
		if b.BuildErr == nil && strings.HasPrefix(b.NativeErr, "native build failed: <nil>") {
			// the reference build hit the framework's time limit (overloaded machine): once more
			b = pool.RunBoth(c.Scratch, prog, gjs.Opts{}, 5*time.Minute, true, false)
		}
		if b.BuildErr != nil {
			if be, ok := b.BuildErr.(*gjs.BuildError); ok && be.Panic {
				c.Report(core.Case{Keys: []string{"compiler_panic"}, Summary: "compiler internal error on a float table program: " + be.Error(), Files: prog.ReplayFiles("prog")})
			} else {
				c.Infra(fmt.Errorf("gopherjs build of a float table program failed: %v", b.BuildErr))
			}
			return
		}
		if b.NativeErr != "" {
			c.Infra(fmt.Errorf("reference toolchain rejected a generated float program: %s", b.NativeErr))
			return
		}
		if len(b.Native.Lines) != p.n || b.Native.End != "exit" {
			c.Infra(fmt.Errorf("native run of a float program printed %d lines, want %d (end=%s %s)", len(b.Native.Lines), p.n, b.Native.End, b.Native.Msg))
			return
		}
		if len(b.JS.Lines) != p.n || b.JS.End != "exit" {
			c.Report(core.Case{Keys: []string{"program_aborted"}, Summary: fmt.Sprintf("compiled float table program printed %d lines, want %d; end=%s msg=%s", len(b.JS.Lines), p.n, b.JS.End, b.JS.Msg), Files: prog.ReplayFiles("prog")})
			return
		}
		groups := map[string]*group{}
		k := 0
		for _, s := range p.shapes {
			for _, rc := range s.rows {
				js, nat := canonLine(b.JS.Lines[k], s.rtype), canonLine(b.Native.Lines[k], s.rtype)
				k++
				accepted := func(l string) bool {
					if l == rc.want {
						return true
					}
					for _, a := range rc.alts {
						if l == a {
							return true
						}
					}
					return false
				}
				if !accepted(nat) && !rc.noGuard {
					discards[i]++
					mu.Lock()
					if len(discardNotes) < 10 {
						var ps []*fexpr
						discardNotes = append(discardNotes, fmt.Sprintf("%s %s: specification %s, reference toolchain %s", rc.e.render(&ps, false), rc.raw, rc.want, nat))
					}
					mu.Unlock()
					continue
				}
				judged[i]++
				if accepted(js) {
					continue
				}
				keys := classifyFloat(rc, js)
				g := groups[s.key]
				if g == nil {
					g = &group{keys: keys, first: rc, got: js, shape: s, named: p.named}
					groups[s.key] = g
				}
				g.count++
				if len(keys) == 0 { // a group is known only if every member is
					if g.keys != nil {
						g.first, g.got = rc, js
					}
					g.keys = nil
				}
			}
		}
		results[i] = groups
		if stopAtFirst {
			// report at once so that the other workers see it
			for _, g := range groups {
				if len(g.keys) == 0 {
					c.Report(core.Case{Summary: "(sensitivity run, stopping at the first violation) " + g.shape.key + ": predicted " + g.first.want + ", printed " + g.got})
					break
				}
			}
		}
	})
	if skipped > 0 {
		c.Set("float_programs_skipped_after_first_violation", skipped)
	}
	nd, nj := 0, 0
	for i := range progs {
		nd += discards[i]
		nj += judged[i]
	}
	c.Add("spec_guard_discards", nd)
	if nd > 0 {
		fmt.Printf("note: %d float cases discarded because the reference toolchain disagrees with the specification\n", nd)
		for _, n := range discardNotes {
			fmt.Printf("  %s\n", n)
		}
		c.Set("float_spec_guard_discard_samples", discardNotes)
	}
	c.Add("traces_validated_against_impl", nj)
	c.Add("evaluations", fr.total)
	c.Add("programs", len(progs))
	c.Add("programs_with_named_types", nNamed)
	c.Set("float_programs_with_named_types", fmt.Sprintf("%d of %d", nNamed, len(progs)-nNamed))
	c.Add("shapes", len(fr.shapes))
	for k, v := range classCnt {
		c.Set(k, v)
	}
	c.Set("float_part_evaluations", fr.total)
	if len(fr.excl) > 0 {
		c.Set("float_expressions_not_judged_by_reason", fr.excl)
	}
	for _, groups := range results {
		gks := make([]string, 0, len(groups))
		for k := range groups {
			gks = append(gks, k)
		}
		sort.Strings(gks)
		for _, gk := range gks {
			g := groups[gk]
			var ps []*fexpr
			code := g.first.e.render(&ps, g.named)
			mini := &fprogram{shapes: []*fshape{{key: g.shape.key, e: g.first.e, ptypes: g.shape.ptypes, rtype: g.shape.rtype, rows: []*frec{g.first}, args: [][]*fexpr{ps}}}, n: 1, named: g.named}
			files := renderFloatProgram(mini).ReplayFiles("prog")
			files["scenario.json"] = g.first.raw + "\n"
			files["expected.txt"] = g.first.want + "\n"
			if len(g.first.alts) > 0 {
				files["expected.txt"] += "also permitted (fused multiply-add): " + strings.Join(g.first.alts, " | ") + "\n"
			}
			files["observed.txt"] = g.got + "\n"
			if !strings.Contains(g.first.want, "NaN") {
				files["predicted.txt"] = g.first.want + "\n" // for ./check C06 --replay
			}
			var vals []string
			for _, p := range ps {
				vals = append(vals, p.val.describe())
			}
			if g.first.e.kind == "asg" {
				code = "p0 " + goOp[g.first.e.op] + "= p1"
			}
			c.Report(core.Case{Keys: g.keys,
				Summary: fmt.Sprintf("%s%s with (%s): Go/spec bit pattern = %s, compiled program printed %s (%d operand rows of this shape differ)", map[bool]string{true: "[defined types n_T over the builtin numeric types] ", false: ""}[g.named], code, strings.Join(vals, ", "), g.first.want, g.got, g.count),
				Files:   files})
		}
	}
	// samples
	for _, idx := range []int{len(fr.order) / 3, 2 * len(fr.order) / 3} {
		s := fr.shapes[fr.order[idx]]
		rc := s.rows[len(s.rows)/2]
		var ps []*fexpr
		c.Sample(map[string]any{"part": "float", "expr": json.RawMessage(rc.raw), "go": rc.e.render(&ps, false), "predicted_bits": rc.want})
	}
	c.Phase("float_programs")
}
