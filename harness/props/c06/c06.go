// Package c06 decides C06 (fixed-width integer, float and complex arithmetic is exact).
//
// Integer part (this file): spec/Bits.tla defines the arithmetic on bit vectors,
// spec/BitsValidate.tla checks those definitions against integer arithmetic for all
// 8-bit operand pairs, spec/BitsScen.tla enumerates (operator, type, shape, operands)
// cases with the predicted result.  The cases are rendered as Go, compiled by the
// compiler under test, run under Node, and compared with the prediction; the
// same program built by the reference toolchain guards the specification.
// Float / complex part: float.go (spec/FloatArith*.tla).  Witness programs: witness.go.
//
// VERIF_C06_ONLY=int|float|witness restricts a run to one part (development and
// sensitivity runs); VERIF_C06_CORRUPT=float corrupts one float prediction: the
// reference toolchain then disagrees with the "specification" and the case is counted in
// spec_guard_discards; with VERIF_C06_CORRUPT_NOGUARD=1 in addition it is judged all the
// same and the check fails (the binding is not vacuous).
package c06

import (
	"encoding/json"
	"fmt"
	"math/big"
	"math/rand"
	"os"
	"path/filepath"
	"regexp"
	"sort"
	"strconv"
	"strings"
	"time"

	"verif/core"
	"verif/gjs"
	"verif/props/witness"
	"verif/reg"
	"verif/tlcx"
)

func init() { reg.Register("C06", "model_checking", Run) }

var goType = map[string]string{"i8": "int8", "i16": "int16", "i32": "int32", "i64": "int64", "u8": "uint8", "u16": "uint16", "u32": "uint32", "u64": "uint64", "int": "tInt", "uint": "tUint", "uptr": "tUptr", "bool": "bool"}
var width = map[string]int{"i8": 8, "i16": 16, "i32": 32, "i64": 64, "u8": 8, "u16": 16, "u32": 32, "u64": 64, "int": 32, "uint": 32, "uptr": 32}
var signed = map[string]bool{"i8": true, "i16": true, "i32": true, "i64": true, "int": true}
var goOp = map[string]string{"add": "+", "sub": "-", "mul": "*", "quo": "/", "rem": "%", "and": "&", "or": "|", "xor": "^", "andnot": "&^", "eq": "==", "ne": "!=", "lt": "<", "le": "<=", "gt": ">", "ge": ">="}

const typesJS = "//go:build js\n\npackage main\n\ntype tInt = int\ntype tUint = uint\ntype tUptr = uintptr\n"
const typesNative = "//go:build !js\n\npackage main\n\n// the reference toolchain has 64-bit int here; GopherJS documents int as 32 bits\ntype tInt = int32\ntype tUint = uint32\ntype tUptr = uint32\n"

// Expr is a decoded expression tree of BitsScen.
type Expr struct {
	Kind  string // var lit bin cmp shl shr neg com conv
	Op    string
	Type  string // var/lit: its type; conv: target
	Limbs []int64
	Args  []*Expr
}

func decodeExpr(raw json.RawMessage) (*Expr, error) {
	var a []json.RawMessage
	if err := json.Unmarshal(raw, &a); err != nil {
		return nil, err
	}
	var kind string
	if err := json.Unmarshal(a[0], &kind); err != nil {
		return nil, err
	}
	e := &Expr{Kind: kind}
	str := func(r json.RawMessage) string { var s string; json.Unmarshal(r, &s); return s }
	sub := func(r json.RawMessage) error {
		x, err := decodeExpr(r)
		if err != nil {
			return err
		}
		e.Args = append(e.Args, x)
		return nil
	}
	switch kind {
	case "var", "lit":
		e.Type = str(a[1])
		if err := json.Unmarshal(a[2], &e.Limbs); err != nil {
			return nil, err
		}
	case "bin", "cmp":
		e.Op = str(a[1])
		if err := sub(a[2]); err != nil {
			return nil, err
		}
		if err := sub(a[3]); err != nil {
			return nil, err
		}
	case "shl", "shr":
		if err := sub(a[1]); err != nil {
			return nil, err
		}
		if err := sub(a[2]); err != nil {
			return nil, err
		}
	case "neg", "com":
		if err := sub(a[1]); err != nil {
			return nil, err
		}
	case "conv":
		e.Type = str(a[1])
		if err := sub(a[2]); err != nil {
			return nil, err
		}
	default:
		return nil, fmt.Errorf("unknown expr kind %q", kind)
	}
	return e, nil
}

// typeOf returns the static type of an expression.
func (e *Expr) typeOf() string {
	switch e.Kind {
	case "var", "lit", "conv":
		return e.Type
	case "cmp":
		return "bool"
	default:
		return e.Args[0].typeOf()
	}
}

func limbsToBig(l []int64, t string) *big.Int {
	w := width[t]
	lw := 16
	if w < 16 {
		lw = w
	}
	v := new(big.Int)
	for i := len(l) - 1; i >= 0; i-- {
		v.Lsh(v, uint(lw))
		v.Or(v, big.NewInt(l[i]))
	}
	if signed[t] && v.Bit(w-1) == 1 {
		v.Sub(v, new(big.Int).Lsh(big.NewInt(1), uint(w)))
	}
	return v
}

// goLit renders a value as a typed Go constant.
func goLit(l []int64, t string) string {
	return goType[t] + "(" + limbsToBig(l, t).String() + ")"
}

// render returns the Go expression with run-time operands replaced by
// parameters; params collects (type, value) of the operands in order.
func (e *Expr) render(params *[]*Expr) string {
	switch e.Kind {
	case "var":
		*params = append(*params, e)
		return fmt.Sprintf("p%d", len(*params)-1)
	case "lit":
		return goLit(e.Limbs, e.Type)
	case "bin", "cmp":
		return "(" + e.Args[0].render(params) + " " + goOp[e.Op] + " " + e.Args[1].render(params) + ")"
	case "shl":
		return "(" + e.Args[0].render(params) + " << " + e.Args[1].render(params) + ")"
	case "shr":
		return "(" + e.Args[0].render(params) + " >> " + e.Args[1].render(params) + ")"
	case "neg", "com":
		op := "-"
		if e.Kind == "com" {
			op = "^"
		}
		x := e.Args[0].render(params)
		if e.Args[0].Kind == "neg" || e.Args[0].Kind == "com" {
			// adjacent unary operators, written without parentheses as a
			// programmer would: `- -x`, `-^x`
			return op + " " + x
		}
		return op + x
	case "conv":
		return goType[e.Type] + "(" + e.Args[0].render(params) + ")"
	}
	panic("render: " + e.Kind)
}

func (e *Expr) has(pred func(*Expr) bool) bool {
	if pred(e) {
		return true
	}
	for _, a := range e.Args {
		if a.has(pred) {
			return true
		}
	}
	return false
}

// expectedLine is what the program must print for a result.
func expectedLine(res []int64, t string) string {
	if len(res) == 1 && res[0] == -1 {
		return "P"
	}
	if t == "bool" {
		if res[0] == 1 {
			return "true"
		}
		return "false"
	}
	if width[t] == 64 {
		u := new(big.Int)
		for i := len(res) - 1; i >= 0; i-- {
			u.Lsh(u, 16)
			u.Or(u, big.NewInt(res[i]))
		}
		hi := new(big.Int).Rsh(u, 32)
		lo := new(big.Int).And(u, big.NewInt(0xFFFFFFFF))
		return hi.String() + " " + lo.String()
	}
	return limbsToBig(res, t).String()
}

type rec struct {
	e    *Expr
	raw  string
	want string
}

type shape struct {
	code     string // Go expression over p0..pn
	ptypes   []string
	rtype    string
	mayPanic bool
	rows     []*rec
	args     [][]*Expr
}

type program struct {
	shapes []*shape
	n      int
	// named: every integer type is replaced by a defined type with the same
	// underlying type (type n_int64 int64): same arithmetic, different paths in the
	// compiler (everything that looks at the type without taking Underlying()).
	named bool
}

var builtinInt = regexp.MustCompile(`\bu?int(8|16|32|64)\b|\bt(Int|Uint|Uptr)\b`)

// withNamedTypes rewrites a rendered program to use defined types throughout.
func withNamedTypes(src string) string {
	src = builtinInt.ReplaceAllString(src, "n_$0")
	var b strings.Builder
	for _, t := range []string{"int8", "int16", "int32", "int64", "uint8", "uint16", "uint32", "uint64", "tInt", "tUint", "tUptr"} {
		fmt.Fprintf(&b, "type n_%s %s\n", t, t)
	}
	return strings.Replace(src, "package main\n\n", "package main\n\n"+b.String()+"\n", 1)
}

func renderProgram(p *program) gjs.Prog {
	var b strings.Builder
	b.WriteString("package main\n\n")
	b.WriteString("func rec() {\n\tif r := recover(); r != nil {\n\t\tprintln(\"P\")\n\t}\n}\n")
	for t, g := range goType {
		switch {
		case t == "bool":
			fmt.Fprintf(&b, "func o_bool(x bool) { println(x) }\n")
		case width[t] == 64:
			fmt.Fprintf(&b, "func o_%s(x %s) { u := uint64(x); println(uint32(u>>32), uint32(u)) }\n", t, g)
		default:
			fmt.Fprintf(&b, "func o_%s(x %s) { println(x) }\n", t, g)
		}
	}
	b.WriteString("\n")
	for i, s := range p.shapes {
		var ps []string
		for j, pt := range s.ptypes {
			ps = append(ps, fmt.Sprintf("p%d %s", j, goType[pt]))
		}
		fmt.Fprintf(&b, "func s%d(%s) %s { return %s }\n", i, strings.Join(ps, ", "), goType[s.rtype], s.code)
		var call []string
		for j, pt := range s.ptypes {
			fmt.Fprintf(&b, "var a%d_%d = [...]%s{", i, j, goType[pt])
			for k, row := range s.args {
				if k > 0 {
					b.WriteString(", ")
				}
				b.WriteString(limbsToBig(row[j].Limbs, pt).String())
			}
			b.WriteString("}\n")
			call = append(call, fmt.Sprintf("a%d_%d[i]", i, j))
		}
		if len(s.ptypes) == 0 {
			continue
		}
		if s.mayPanic {
			fmt.Fprintf(&b, "func r%d() {\n\tfor i := range a%d_0 {\n\t\tfunc() {\n\t\t\tdefer rec()\n\t\t\to_%s(s%d(%s))\n\t\t}()\n\t}\n}\n\n", i, i, s.rtype, i, strings.Join(call, ", "))
		} else {
			fmt.Fprintf(&b, "func r%d() {\n\tfor i := range a%d_0 {\n\t\to_%s(s%d(%s))\n\t}\n}\n\n", i, i, s.rtype, i, strings.Join(call, ", "))
		}
	}
	b.WriteString("func main() {\n")
	for i := range p.shapes {
		fmt.Fprintf(&b, "\tr%d()\n", i)
	}
	b.WriteString("}\n")
	src := b.String()
	if p.named {
		src = withNamedTypes(src)
	}
	return gjs.Prog{Files: map[string]string{"main.go": src, "types_js.go": typesJS, "types_native.go": typesNative}}
}

// classify returns the known-finding classifier keys a failing record satisfies.
func classify(r *rec) []string {
	var keys []string
	e := r.e
	t := e.typeOf()
	isMin := func(x *Expr) bool {
		if x.Kind != "var" && x.Kind != "lit" {
			return false
		}
		w := width[x.Type]
		return signed[x.Type] && limbsToBig(x.Limbs, x.Type).Cmp(new(big.Int).Neg(new(big.Int).Lsh(big.NewInt(1), uint(w-1)))) == 0
	}
	if e.has(func(x *Expr) bool {
		return x.Kind == "neg" && signed[x.typeOf()] && width[x.typeOf()] < 64 && x.Args[0].Kind != "neg" && x.Args[0].Kind != "com"
	}) {
		keys = append(keys, "neg_signed_small_no_wrap")
	}
	if e.has(func(x *Expr) bool {
		return x.Kind == "bin" && x.Op == "quo" && (x.typeOf() == "i8" || x.typeOf() == "i16") && isMin(x.Args[0])
	}) {
		keys = append(keys, "quo_minint_small_no_wrap")
	}
	if e.has(func(x *Expr) bool {
		return (x.Kind == "neg" || x.Kind == "com") && (x.Args[0].Kind == "neg" || x.Args[0].Kind == "com")
	}) {
		keys = append(keys, "adjacent_unary_operators")
	}
	_ = t
	return keys
}

const intRule = "integer part: TLC enumerates every (class, type, operator, shape) unit x operand rows of BitsScen.tla (boundary pool + VERIF_SEED operands); a case is one expression with concrete operands; distinct = distinct expression trees; non-trivial = every case (each evaluates at least one fixed-width operator)"
const floatRule = "float/complex part: TLC enumerates every (class, type, operator) unit x operand rows of FloatArithScen.tla (operand shapes variable / typed constant / both constant / untyped constant / nested / compound assignment; boundary pools per type + VERIF_SEED dyadics) with the IEEE 754 bit pattern FloatArith.tla defines; every expression is rendered with predeclared and with defined types; expressions for which Go defines no unique result are emitted as excluded and counted in float_expressions_not_judged_by_reason (also constant expressions that do not compile); distinct = distinct expression trees"

// tlcWorkers limits the TLC worker threads of this check on a shared machine:
// VERIF_TLC_WORKERS=<n> if set, else half of VERIF_WORKERS when that is set below the
// default (16), else the number the caller asks for.
func tlcWorkers(c *core.Ctx, want int) int {
	n := want
	if v, err := strconv.Atoi(os.Getenv("VERIF_TLC_WORKERS")); err == nil && v > 0 {
		n = v
	} else if c.Workers < 16 {
		n = c.Workers / 2
	}
	if n > want {
		n = want
	}
	if n < 1 {
		n = 1
	}
	return n
}

// Run is the C06 check.
func Run(c *core.Ctx, pool *gjs.Pool) {
	only := os.Getenv("VERIF_C06_ONLY")
	part := func(p string) bool { return only == "" || only == p }
	c.Assumef("int/uint/uintptr are compared with int32/uint32 on the reference toolchain (documented 32-bit width)")
	var fr *floatRun
	if part("float") {
		c.Assumef("unbounded naturals of FloatArithNat.tla are generic in the limb width; validated against integer arithmetic for all operand pairs at limb widths 2 and 3 and on a grid at width 15 by FloatArithValidate.tla in this run; FloatArithScen.tla checks the laws L1-L8 of its header on every enumerated operand tuple")
		c.Assumef("float -> integer conversions whose truncated value the target type cannot represent (and NaN, infinities), complex multiplication with inexact partial products, complex division by zero or with non-finite operands are not judged: Go leaves the result open; complex division is judged against the algorithm of the reference implementation (runtime.complex128div), which the Go specification does not mandate")
		c.Assumef("the reference toolchain (amd64) does not fuse x*y+z; for such expressions the fused result is accepted as well, as the Go specification permits")
		fr = startFloat(c) // TLC for the float part runs while the integer part is decided
		defer fr.wg.Wait()
	}
	if part("int") {
		runInt(c, pool)
		c.Set("rule", intRule)
	}
	if part("float") && c.InfraErr == nil {
		runFloatPrograms(c, pool, fr)
		if part("int") {
			c.Set("rule", intRule+"; "+floatRule)
			c.Set("checker_cmd", "tlc BitsValidate (INVARIANT Agree); tlc BitsScen (INVARIANT Emit); tlc FloatArithValidate (INVARIANT Agree); tlc FloatArithScen (INVARIANT Laws, INVARIANT Emit)")
		} else {
			c.Set("rule", floatRule)
			c.Set("checker_cmd", "tlc FloatArithValidate (INVARIANT Agree); tlc FloatArithScen (INVARIANT Laws, INVARIANT Emit)")
			c.Set("exhaustive", true)
		}
	}
	if only != "" {
		c.Set("restricted_to_part", only)
	}
	if part("witness") && c.InfraErr == nil {
		witness.Run(c, pool, witnesses)
		c.Phase("witnesses")
	}
}

// runInt is the integer part.
func runInt(c *core.Ctx, pool *gjs.Pool) {
	c.Assumef("bit-vector operators of Bits.tla are width-generic; validated against integer arithmetic for all 8-bit operand pairs by BitsValidate.tla in this run")
	// 1. validate the reference operators
	r, err := tlcx.Run(c, tlcx.Opts{Module: "BitsValidate", CfgFile: "BitsValidate.cfg", Workers: tlcWorkers(c, 16), Timeout: 10 * time.Minute})
	if !tlcx.MustComplete(c, r, err, "BitsValidate") {
		return
	}
	// 2. enumerate scenarios
	rng := rand.New(rand.NewSource(c.Seed))
	nrand := c.Pick(4, 14)
	randOps := map[string][][]int64{}
	for _, w := range []int{8, 16, 32, 64} {
		var l [][]int64
		for i := 0; i < nrand; i++ {
			if w <= 16 {
				l = append(l, []int64{rng.Int63n(1 << uint(w))})
			} else {
				x := make([]int64, w/16)
				for j := range x {
					x[j] = rng.Int63n(1 << 16)
				}
				l = append(l, x)
			}
		}
		randOps[fmt.Sprintf("w%d", w)] = l
	}
	allOps := []string{"add", "sub", "mul", "quo", "rem", "and", "or", "xor", "andnot"}
	var nest1, nest2 []string
	if c.Thorough() {
		nest1, nest2 = allOps, allOps
	} else {
		perm := rng.Perm(len(allOps))
		for _, i := range perm[:3] {
			nest1 = append(nest1, allOps[i])
		}
		perm = rng.Perm(len(allOps))
		for _, i := range perm[:3] {
			nest2 = append(nest2, allOps[i])
		}
	}
	params := map[string]any{
		"rand":    randOps,
		"classes": []string{"vv", "vl", "lv", "shift", "unary", "conv", "convbin", "nest"},
		"types":   []string{"i8", "i16", "i32", "i64", "u8", "u16", "u32", "u64", "int", "uint", "uptr"},
		"nest1":   nest1, "nest2": nest2, "out": "scen",
	}
	pj, _ := json.Marshal(params)
	cfg := "SPECIFICATION Spec\nINVARIANT Emit\nCHECK_DEADLOCK FALSE\n"
	r, err = tlcx.Run(c, tlcx.Opts{Module: "BitsScen", Cfg: cfg, Workers: tlcWorkers(c, 16), Timeout: 40 * time.Minute, Files: map[string]string{"c06_params.json": string(pj)}, HeapMB: 8192})
	if !tlcx.MustComplete(c, r, err, "BitsScen") {
		return
	}
	c.Set("checker_cmd", "tlc BitsValidate (INVARIANT Agree); tlc BitsScen (INVARIANT Emit)")
	c.Set("exhaustive", true)
	files, _ := filepath.Glob(filepath.Join(r.Dir, "scen.*.ndjson"))
	sort.Strings(files)
	// 3. decode and group into shapes
	shapes := map[string]*shape{}
	var order []string
	seen := map[string]bool{}
	total := 0
	for _, f := range files {
		err := tlcx.ReadNDJSON(f, func(raw json.RawMessage) error {
			var inner string
			if err := json.Unmarshal(raw, &inner); err != nil {
				return err
			}
			var rows [][2]json.RawMessage
			if err := json.Unmarshal([]byte(inner), &rows); err != nil {
				return err
			}
			for _, row := range rows {
				key := string(row[0])
				if seen[key] {
					continue
				}
				seen[key] = true
				e, err := decodeExpr(row[0])
				if err != nil {
					return err
				}
				var res []int64
				if err := json.Unmarshal(row[1], &res); err != nil {
					return err
				}
				var ps []*Expr
				code := e.render(&ps)
				sk := code
				var pts []string
				for _, p := range ps {
					sk += "|" + p.Type
					pts = append(pts, p.Type)
				}
				s := shapes[sk]
				if s == nil {
					s = &shape{code: code, ptypes: pts, rtype: e.typeOf(),
						mayPanic: e.has(func(x *Expr) bool { return x.Kind == "bin" && (x.Op == "quo" || x.Op == "rem") })}
					shapes[sk] = s
					order = append(order, sk)
				}
				rc := &rec{e: e, raw: key, want: expectedLine(res, e.typeOf())}
				s.rows = append(s.rows, rc)
				s.args = append(s.args, ps)
				total++
			}
			return nil
		})
		if err != nil {
			c.Infra(fmt.Errorf("decode %s: %v", f, err))
			return
		}
	}
	c.Set("evaluations", total)
	c.Set("shapes", len(shapes))
	c.Set("integer_evaluations", total)
	c.Phase("int_tlc")
	for k := range seen {
		c.Distinct(k)
	}
	// 4. programs of bounded size
	var progs []*program
	cur := &program{}
	for _, sk := range order {
		s := shapes[sk]
		if cur.n > 0 && cur.n+len(s.rows) > 6000 {
			progs = append(progs, cur)
			cur = &program{}
		}
		cur.shapes = append(cur.shapes, s)
		cur.n += len(s.rows)
	}
	if cur.n > 0 {
		progs = append(progs, cur)
	}
	// every program is also run with defined (named) integer types; the quick tier
	// (which now also decides the float part) takes every other program for this
	// variant, the choice alternating with VERIF_SEED; the thorough tier takes all
	nNamed := 0
	for i, p := range append([]*program{}, progs...) {
		if !c.Thorough() && int64(i)%2 != ((c.Seed%2)+2)%2 {
			continue
		}
		progs = append(progs, &program{shapes: p.shapes, n: p.n, named: true})
		nNamed++
	}
	c.Set("programs", len(progs))
	c.Set("programs_with_named_types", nNamed)
	c.Set("integer_programs_with_named_types", fmt.Sprintf("%d of %d", nNamed, len(progs)-nNamed))
	type group struct {
		named bool
		keys  []string
		first *rec
		got   string
		count int
		shape *shape
	}
	results := make([]map[string]*group, len(progs))
	discards := make([]int, len(progs))
	c.ParMap(len(progs), func(i int) {
		p := progs[i]
		prog := renderProgram(p)
		b := pool.RunBoth(c.Scratch, prog, gjs.Opts{}, 5*time.Minute, true, false)
		if b.BuildErr != nil {
			if be, ok := b.BuildErr.(*gjs.BuildError); ok && be.Panic {
				c.Report(core.Case{Keys: []string{"compiler_panic"}, Summary: "compiler internal error on an arithmetic table program: " + be.Error(), Files: prog.ReplayFiles("prog")})
			} else {
				c.Infra(fmt.Errorf("gopherjs build failed: %v", b.BuildErr))
			}
			return
		}
		if b.NativeErr != "" {
			c.Infra(fmt.Errorf("reference toolchain rejected a generated program: %s", b.NativeErr))
			return
		}
		if len(b.Native.Lines) != p.n || b.Native.End != "exit" {
			c.Infra(fmt.Errorf("native run printed %d lines, want %d (end=%s %s)", len(b.Native.Lines), p.n, b.Native.End, b.Native.Msg))
			return
		}
		if len(b.JS.Lines) != p.n || b.JS.End != "exit" {
			c.Report(core.Case{Keys: []string{"program_aborted"}, Summary: fmt.Sprintf("compiled table program printed %d lines, want %d; end=%s msg=%s", len(b.JS.Lines), p.n, b.JS.End, b.JS.Msg), Files: prog.ReplayFiles("prog")})
			return
		}
		groups := map[string]*group{}
		k := 0
		for _, s := range p.shapes {
			for _, rc := range s.rows {
				js, nat := b.JS.Lines[k], b.Native.Lines[k]
				if js == "-0" {
					// an integer zero that JavaScript holds as -0 is rendered "-0" by
					// println; rendering differences of print/println are a documented
					// exception and -0 === 0 for every integer operation
					js = "0"
				}
				k++
				if nat != rc.want {
					discards[i]++
					continue
				}
				if js == rc.want {
					continue
				}
				keys := classify(rc)
				gk := s.code + "|" + strings.Join(s.ptypes, ",")
				g := groups[gk]
				if g == nil {
					g = &group{keys: keys, first: rc, got: js, shape: s, named: p.named}
					groups[gk] = g
				}
				g.count++
				// a group is known only if every member is
				if len(keys) == 0 {
					g.keys = nil
				}
			}
		}
		results[i] = groups
	})
	nd := 0
	for _, d := range discards {
		nd += d
	}
	c.Set("spec_guard_discards", nd)
	nrun := 0
	for _, p := range progs {
		nrun += p.n
	}
	c.Set("traces_validated_against_impl", nrun-nd)
	if nd > 0 {
		fmt.Printf("note: %d cases discarded because the reference toolchain disagrees with the specification\n", nd)
	}
	for _, groups := range results {
		gks := make([]string, 0, len(groups))
		for k := range groups {
			gks = append(gks, k)
		}
		sort.Strings(gks)
		for _, gk := range gks {
			g := groups[gk]
			var ps []*Expr
			g.first.e.render(&ps)
			mini := &program{shapes: []*shape{{code: g.shape.code, ptypes: g.shape.ptypes, rtype: g.shape.rtype, mayPanic: g.shape.mayPanic, rows: []*rec{g.first}, args: [][]*Expr{ps}}}, n: 1, named: g.named}
			files := renderProgram(mini).ReplayFiles("prog")
			files["scenario.json"] = g.first.raw + "\n"
			files["expected.txt"] = g.first.want + "\n"
			files["observed.txt"] = g.got + "\n"
			var vals []string
			for _, p := range ps {
				vals = append(vals, goLit(p.Limbs, p.Type))
			}
			c.Report(core.Case{Keys: g.keys,
				Summary: fmt.Sprintf("%s%s with (%s): Go/spec = %s, compiled program printed %s (%d operand rows of this shape differ)", map[bool]string{true: "[operands of defined types n_T over the builtin integer types] ", false: ""}[g.named], g.shape.code, strings.Join(vals, ", "), g.first.want, g.got, g.count),
				Files:   files})
		}
	}
	// samples
	i := 0
	for _, sk := range order {
		s := shapes[sk]
		if i%(len(order)/4+1) == 0 && len(s.rows) > 0 {
			rc := s.rows[len(s.rows)/2]
			c.Sample(map[string]any{"expr": json.RawMessage(rc.raw), "go": s.code, "predicted": rc.want})
		}
		i++
	}
	c.Phase("int_programs")
}
