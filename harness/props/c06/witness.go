package c06

import "verif/props/witness"

// Witness programs for C06 (see package witness): conversions between integers and
// floats, which Bits.tla (integers only) does not decide. Values are printed as bit
// patterns (math.Float32bits / Float64bits halves) or after conversion to integers.
var witnesses = []witness.W{
	witness.Src("int_to_float32_rounds", "", `package main

import "math"

type myF32 float32
type myI64 int64

func b32(f float32) uint32 { return math.Float32bits(f) }
func h64(f float64) (uint32, uint32) {
	u := math.Float64bits(f)
	return uint32(u >> 32), uint32(u)
}

var i32s = []int32{16777216, 16777217, 16777218, 16777219, -16777217, 2147483647, -2147483648, 33554433}
var u32s = []uint32{16777217, 4294967295, 4294967167, 4294967168, 2147483649}
var i64s = []int64{1<<24 + 1, 1<<53 + 1, 1<<62 + 1<<38, -(1<<53 + 1), 1<<63 - 1, -1 << 63, 1<<40 + 1<<16 + 1}
var u64s = []uint64{1<<64 - 1<<40, 1<<63 + 1<<39, 1<<63 + 1<<41 + 1<<40, 1<<53 + 1}

func main() {
	for _, i := range i32s {
		f := float32(i)
		g := myF32(i)
		println(b32(f), f == float32(float64(f)), int32(f/2), b32(float32(g)), f == float32(i))
	}
	for _, u := range u32s {
		f := float32(u)
		println(b32(f), uint32(f/2), float64(f) == float64(float32(u)))
	}
	for _, i := range i64s {
		f := float32(i)
		d := float64(i)
		m := float32(myI64(i))
		hi, lo := h64(d)
		println(b32(f), b32(m), hi, lo, int32(int64(f)>>32), int32(int64(d)>>32))
	}
	for _, u := range u64s {
		f := float32(u)
		d := float64(u)
		hi, lo := h64(d)
		println(b32(f), hi, lo, uint32(uint64(d)>>40), uint32(uint64(f)>>40))
	}
	var x float32 = 16777216
	var one float32 = 1
	y := x + one
	z := (x + one) + one
	w := x + (one + one)
	println(b32(y), b32(z), b32(w), y == x, z == x)
	var t float32 = 0.1
	println(b32(t*t), b32(t*3), b32(t/3), b32(-t), b32(float32(float64(t)*float64(t))))
}
`),
	witness.Src("uint64_to_float32_is_rounded_once", "int64_to_float32_double_rounding", `package main

import "math"

// 2^63 + 2^39 + 1 lies just above the midpoint of two float32 values: rounding it to
// float64 first (2^63 + 2^39, the midpoint itself) and then to float32 (ties to even)
// gives 2^63 instead of 2^63 + 2^40.
var us = []uint64{1<<63 + 1<<39 + 1, 1<<62 + 1<<38 + 1, 1<<60 + 3<<36 - 1}
var is = []int64{1<<62 + 1<<38 + 1, -(1<<62 + 1<<38 + 1), 1<<55 + 1<<31 + 1}

func main() {
	for _, u := range us {
		println(math.Float32bits(float32(u)))
	}
	for _, i := range is {
		println(math.Float32bits(float32(i)))
	}
}
`),
	witness.Src("integer_zero_has_no_sign", "", `package main

import "math"

func s(f float64) bool { return math.Signbit(f) }

func main() {
	a, b := int32(-4000), int32(2000)
	var z int32
	var i8 int8 = -4
	var u8 uint8
	var i int = -6
	var i16 int16 = -3
	var i64 int64 = -4000
	println(s(float64(a%b)), s(float64(-z)), s(float64(z*a)), s(float64(z/a)), s(float64(i8%2)), s(float64(-u8)), s(float64(i%3)), s(float64(i16%3)), s(float64(z&a)), s(float64(int8(z*a))))
	println(s(float64(float32(a%b))), s(float64(i64%2000)), s(float64(-int64(z))), s(real(complex(float64(a%b), 0))), 1/float64(a%b) > 0)
	nf := -0.4
	nz := math.Copysign(0, -1)
	println(s(float64(z<<3)), s(float64(-z>>1)), s(float64(^z+1)), s(float64(int32(nz))), s(float64(int32(nf))), s(float64(int64(nf))), s(float64(int8(nf))), s(float64(uint16(-nf))))
}
`),
	witness.Src("float_to_int_truncates", "", `package main

var fs = []float64{0.5, -0.5, 1.5, -1.5, 2.5, 1e9, -1e9, 2147483647.9, -2147483648.9, 4294967295.5, 255.9, -128.9, 65535.99, 1e15 + 0.5, -(1e15 + 0.5), 9007199254740993}

func main() {
	for _, f := range fs {
		i64 := int64(f)
		println(int32(i64>>32), uint32(i64), int32(int64(float32(f))>>32))
	}
	small := []float64{0.5, -0.5, 1.5, -1.5, 2.5, 127.9, -128.9, 255.9}
	for _, f := range small {
		println(int8(int32(f)), uint8(int32(f)&255), int16(f), int32(f), uint32(int64(f)))
	}
}
`),
	witness.Src("complex_arithmetic_exact_cases", "", `package main

import "math"

func h(f float64) (uint32, uint32) {
	u := math.Float64bits(f)
	return uint32(u >> 32), uint32(u)
}

func show(c complex128) {
	a, b := h(real(c))
	d, e := h(imag(c))
	println(a, b, d, e)
}

func main() {
	x := complex(1.5, -2)
	y := complex(-0.25, 4)
	show(x + y)
	show(x - y)
	show(x * y)
	show(x / complex(0.5, 0))
	show(x / complex(0, 2))
	show(-x)
	println(x == y, x != y, x == complex(1.5, -2))
	var c64 complex64 = complex(float32(16777217), 0.1)
	println(math.Float32bits(real(c64)), math.Float32bits(imag(c64)))
	c64 = c64 * c64
	println(math.Float32bits(real(c64)), math.Float32bits(imag(c64)))
	z := complex128(c64)
	show(z)
	show(complex(math.Inf(1), 0) * complex(0, 1))
	n := complex(math.NaN(), 1)
	println(n == n, n != n)
}
`),
}
