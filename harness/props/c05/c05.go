// Package c05 decides C05 (see DESIGN.md section 4). Not built yet.
package c05
