// Package c05 decides C05 (dead-code elimination never changes behaviour).
//
// spec/Dce.tla models the selector of compiler/internal/dce step by step and
// defines the reference alive set (least fixpoint) of a declaration graph;
// spec/DceTopo.tla is the reference semantics of "dispatch topologies" (what a
// small Go program prints, which declarations it needs at run time) together
// with the declaration graph the compiler's naming scheme yields for it.
//
//  1. TLC checks the selector model on every small declaration graph of a
//     configured space under every pop order and every dependency order, and on
//     seeded random graphs of 5-6 declarations (least fixpoint, order
//     independence, closure under deps, no lost info, termination).
//  2. TLC enumerates dispatch topologies (and package-variable scenarios) with
//     the predicted output, checking Executed <= Needed <= Alive on each.  The
//     harness renders every scenario as a Go package, batches them into
//     programs, compiles each program once and links it twice -- normally and
//     with every Decl.Dce().SetAsAlive() -- runs both under Node and the same
//     program natively (specification guard).  Both observations must equal the
//     prediction.  go:linkname scenarios and programs of the MiniGo generator
//     are run the same way (DCE on/off must agree).
//  3. Conformance: the REAL per-declaration DCE data (Dce().String()) of built
//     programs is loaded into Dce.tla as constants; the alive set TLC computes by
//     running the model must equal what the real selector kept
//     (compiler.VerifAliveDecls) and what was emitted.  A mismatch without a
//     behavioural difference is MODEL-DRIFT (exit 0).
package c05

import (
	"encoding/json"
	"fmt"
	"math/rand"
	"os"
	"path/filepath"
	"sort"
	"strings"
	"sync"
	"time"

	"verif/core"
	"verif/gjs"
	"verif/reg"
	"verif/tlcx"
)

func init() {
	maybeWorker()
	reg.Register("C05", "model_checking", Run)
}

var (
	allVias     = []string{"scall", "mval", "mexpr", "defer", "icall", "imval", "imexpr", "assert", "anonassert", "tswitch", "gcall", "iembed"}
	allKinds    = []string{"struct", "basic", "generic"}
	allCarriers = []string{"self", "embedval", "embedptr", "localval", "localptr", "localgenval"}
	allD2s      = []string{"none", "dead", "alive", "conv", "diffsig"}
	allI2s      = []string{"none", "diffsig", "embeds"}
	allWheres   = []string{"run", "init", "varinit", "closurevar"}
	allVarKinds = []string{"const", "funclit", "mapread", "call", "closurecall", "methodcall", "recv", "convcall", "namedfunccall", "assertpanic", "indexpanic", "divpanic", "nilderef", "slicearrpanic"}
)

const cfgFull = "SPECIFICATION Spec\nINVARIANT Sound Indexed AtDone Emit\nPROPERTY Terminates\nCHECK_DEADLOCK FALSE\n"
const cfgSafety = "SPECIFICATION Spec\nINVARIANT Sound Indexed AtDone Emit\nCHECK_DEADLOCK FALSE\n"

func params(mode string, over map[string]any) string {
	m := map[string]any{
		"mode": mode, "popAny": false, "depAny": false, "checkLeast": false, "out": "o",
		"names": []string{}, "mnames": []string{}, "roots": []string{}, "n": 0, "graphs": []any{},
		"vias": []string{}, "kinds": []string{}, "carriers": []string{}, "d2s": []string{}, "i2s": []string{}, "wheres": []string{}, "varkinds": []string{},
	}
	for k, v := range over {
		m[k] = v
	}
	b, _ := json.Marshal(m)
	return string(b)
}

// mGraph / mDecl: a declaration graph handed to Dce.tla (mode explicit).
type mDecl struct {
	ID    string   `json:"id"`
	Of    string   `json:"of"`
	Mf    string   `json:"mf"`
	Deps  []string `json:"deps"`
	Alive bool     `json:"alive"`
	Link  bool     `json:"link"`
}
type mGraph struct {
	ID    string  `json:"id"`
	Decls []mDecl `json:"decls"`
}

func randomGraphs(rng *rand.Rand, n int) []mGraph {
	names := []string{"a", "b", "c", "d", "e"}
	mnames := []string{"m", "n"}
	all := append(append([]string{}, names...), mnames...)
	var out []mGraph
	for g := 0; g < n; g++ {
		nd := 5 + rng.Intn(2)
		gr := mGraph{ID: fmt.Sprintf("r%d", g)}
		for i := 0; i < nd; i++ {
			d := mDecl{Deps: []string{}}
			switch x := rng.Intn(10); {
			case x < 1 || i == 0:
				// unnamed
			case x < 6:
				d.Of = names[rng.Intn(len(names))]
			default:
				d.Of = names[rng.Intn(len(names))]
				d.Mf = mnames[rng.Intn(len(mnames))]
			}
			set := map[string]bool{}
			for k := rng.Intn(4); k > 0; k-- {
				set[all[rng.Intn(len(all))]] = true
			}
			for k := range set {
				d.Deps = append(d.Deps, k)
			}
			sort.Strings(d.Deps)
			switch x := rng.Intn(20); {
			case x < 2:
				d.Alive = true
			case x < 5:
				d.Link = true
			}
			gr.Decls = append(gr.Decls, d)
		}
		out = append(out, gr)
	}
	return out
}

func pickN(rng *rand.Rand, from []string, n int) []string {
	p := rng.Perm(len(from))
	var out []string
	for _, i := range p[:n] {
		out = append(out, from[i])
	}
	sort.Strings(out)
	return out
}

func readDouble(path string, each func(inner []byte) error) error {
	return tlcx.ReadNDJSON(path, func(raw json.RawMessage) error {
		var inner string
		if err := json.Unmarshal(raw, &inner); err != nil {
			return err
		}
		return each([]byte(inner))
	})
}

type checkState struct {
	mu          sync.Mutex
	evals       int
	discards    int
	drift       []string
	behaviour   map[string]bool // unit keys with a behavioural difference
	staticCmp   int
	emitCmp     int
	graphsReal  int
	reachKinds  map[string]int
	discardKeys []string
}

// Run is the C05 check.
func Run(c *core.Ctx, pool *gjs.Pool) {
	c.Assumef("programs observe themselves with println of ASCII tokens; every method, function and initialiser of a scenario prints a token that identifies the declaration that ran")
	c.Assumef("the all-alive link marks every compiler.Decl of every archive alive (Decl.Dce().SetAsAlive()) and links the SAME archives a second time; both links go through the real compiler.WriteProgramCode")
	c.Assumef("go:linkname is exercised in user packages only (no importable standard package of this sandbox uses it); reflection is represented by the type metadata used for assertions and type switches (package reflect does not compile here)")
	c.Assumef("Needed of DceTopo.tla is static run-time reachability (rapid type analysis for interface calls); Executed <= Needed is checked by TLC on every topology")
	rng := rand.New(rand.NewSource(c.Seed))
	st := &checkState{behaviour: map[string]bool{}, reachKinds: map[string]int{}}
	nlp := c.Workers
	if nlp > 12 {
		nlp = 12
	}
	lp := newLinkPool(nlp)
	defer lp.Close()
	r := &runner{c: c, lp: lp}

	// ------------------------------------------------------------------
	// 1. the selector model on small graphs (background)
	// ------------------------------------------------------------------
	var bg sync.WaitGroup
	type enumCfg struct {
		name   string
		names  []string
		mnames []string
		roots  []string
		n      int
	}
	enums := []enumCfg{
		{"two-names-2", []string{"a", "b"}, []string{"m"}, []string{"none", "link", "alive"}, 2},
		{"one-name-3", []string{"a"}, []string{"m"}, []string{"none", "link", "alive"}, 3},
	}
	if c.Thorough() {
		enums = []enumCfg{
			{"two-names-3", []string{"a", "b"}, []string{"m"}, []string{"none", "link"}, 3},
			{"one-name-4", []string{"a"}, []string{"m"}, []string{"none", "link", "alive"}, 4},
		}
	}
	enumStates := make([]int, len(enums))
	for i, e := range enums {
		i, e := i, e
		bg.Add(1)
		go func() {
			defer bg.Done()
			res, err := tlcx.Run(c, tlcx.Opts{Module: "Dce", Cfg: cfgFull, Workers: 4, Timeout: 25 * time.Minute, HeapMB: 6144,
				Files: map[string]string{"c05_params.json": params("enum", map[string]any{"popAny": true, "depAny": true, "checkLeast": true,
					"names": e.names, "mnames": e.mnames, "roots": e.roots, "n": e.n})}})
			if tlcx.MustComplete(c, res, err, "Dce enum "+e.name) {
				enumStates[i] = res.Distinct
			}
		}()
	}
	nrand := c.Pick(120, 1500)
	rgs := randomGraphs(rng, nrand)
	bg.Add(1)
	go func() {
		defer bg.Done()
		res, err := tlcx.Run(c, tlcx.Opts{Module: "Dce", Cfg: cfgFull, Workers: 4, Timeout: 25 * time.Minute, HeapMB: 6144,
			Files: map[string]string{"c05_params.json": params("explicit", map[string]any{"popAny": true, "depAny": true, "checkLeast": true, "graphs": rgs})}})
		if tlcx.MustComplete(c, res, err, "Dce random graphs") {
			c.Set("random_graphs_all_orders", nrand)
		}
	}()

	// ------------------------------------------------------------------
	// 2. scenarios with predictions
	// ------------------------------------------------------------------
	kinds, d2s, i2s := allKinds, allD2s, allI2s
	if !c.Thorough() {
		kinds = pickN(rng, allKinds, 1)
		d2s = append([]string{"dead"}, pickN(rng, []string{"none", "alive", "conv", "diffsig"}, 1)...)
		i2s = append([]string{"none"}, pickN(rng, []string{"diffsig", "embeds"}, 1)...)
	}
	var topos []*topoScen
	var vars []*varScen
	var fg sync.WaitGroup
	fg.Add(2)
	go func() {
		defer fg.Done()
		res, err := tlcx.Run(c, tlcx.Opts{Module: "Dce", Cfg: cfgSafety, Workers: 8, Timeout: 25 * time.Minute, HeapMB: 6144,
			Files: map[string]string{"c05_params.json": params("topo", map[string]any{"vias": allVias, "kinds": kinds, "carriers": allCarriers, "d2s": d2s, "i2s": i2s, "wheres": allWheres})}})
		if !tlcx.MustComplete(c, res, err, "Dce topologies") {
			return
		}
		seen := map[string]bool{}
		err = readDouble(filepath.Join(res.Dir, "o.topo.ndjson"), func(b []byte) error {
			var s topoScen
			if err := json.Unmarshal(b, &s); err != nil {
				return err
			}
			if !seen[s.P.key()] {
				seen[s.P.key()] = true
				topos = append(topos, &s)
			}
			return nil
		})
		if err != nil {
			c.Infra(fmt.Errorf("reading topologies: %v", err))
		}
	}()
	go func() {
		defer fg.Done()
		res, err := tlcx.Run(c, tlcx.Opts{Module: "Dce", Cfg: cfgSafety, Workers: 2, Timeout: 10 * time.Minute,
			Files: map[string]string{"c05_params.json": params("vars", map[string]any{"varkinds": allVarKinds, "checkLeast": true})}})
		if !tlcx.MustComplete(c, res, err, "Dce variables") {
			return
		}
		seen := map[string]bool{}
		err = readDouble(filepath.Join(res.Dir, "o.vars.ndjson"), func(b []byte) error {
			var s varScen
			if err := json.Unmarshal(b, &s); err != nil {
				return err
			}
			if !seen[s.P.key()] {
				seen[s.P.key()] = true
				vars = append(vars, &s)
			}
			return nil
		})
		if err != nil {
			c.Infra(fmt.Errorf("reading variable scenarios: %v", err))
		}
	}()
	fg.Wait()
	if c.InfraErr != nil {
		bg.Wait()
		return
	}
	c.Phase("tlc_scenarios")
	sort.Slice(topos, func(i, j int) bool { return topos[i].P.key() < topos[j].P.key() })
	sort.Slice(vars, func(i, j int) bool { return vars[i].P.key() < vars[j].P.key() })
	c.Set("topologies", len(topos))
	c.Set("variable_scenarios", len(vars))
	c.Set("topology_dimensions", map[string]any{"vias": allVias, "kinds": kinds, "carriers": allCarriers, "d2s": d2s, "i2s": i2s, "wheres": allWheres})

	if max := 700; !c.Thorough() && len(topos) > max {
		// the quick tier replays a VERIF_SEED sample of the enumerated topologies (TLC
		// checked Executed <= Needed <= Alive on all of them)
		c.Set("topologies_enumerated", len(topos))
		sort.Slice(topos, func(i, j int) bool { return topos[i].P.key() < topos[j].P.key() })
		rng.Shuffle(len(topos), func(i, j int) { topos[i], topos[j] = topos[j], topos[i] })
		topos = topos[:max]
	}
	// units
	var batchable, singles []*unit
	for i, s := range topos {
		tag := fmt.Sprintf("t%d", i)
		batchable = append(batchable, &unit{tag: tag, kind: "topo", key: s.P.key(), files: map[string]string{tag + "/t.go": renderTopo(s, tag)},
			imports: []string{"vp/" + tag}, call: s.runExpr(tag), want: s.Out, wantEnd: "exit", topo: s})
		c.Distinct(s.P.key())
		st.reachKinds[s.P.Via]++
	}
	for i, s := range vars {
		tag := fmt.Sprintf("v%d", i)
		u := &unit{tag: tag, kind: "var", key: s.P.key(), files: map[string]string{tag + "/v.go": renderVar(s, tag)},
			imports: []string{"vp/" + tag}, call: tag + ".Run", want: s.Out, wantEnd: s.End, vs: s}
		if s.End == "panic" {
			singles = append(singles, u)
		} else {
			batchable = append(batchable, u)
		}
		c.Distinct(s.P.key())
		st.reachKinds["varinit:"+s.P.Kind]++
	}
	for i, l := range linkScens() {
		l := l
		tag := fmt.Sprintf("lk%d", i)
		files, want := renderLink(l, tag)
		batchable = append(batchable, &unit{tag: tag, kind: "link", key: l.key(), files: files, imports: []string{"vp/" + tag}, call: tag + ".Run", want: want, wantEnd: "exit", link: &l})
		c.Distinct(l.key())
		st.reachKinds["linkname"]++
	}
	for i, w := range witnessScens {
		tag := fmt.Sprintf("wt%d", i)
		files, want := renderWitness(w, tag)
		batchable = append(batchable, &unit{tag: tag, kind: "witness", key: "witness/" + w.name, files: files, imports: []string{"vp/" + tag}, call: tag + ".Run", want: want, wantEnd: "exit"})
		c.Distinct("witness/" + w.name)
		st.reachKinds["witness"]++
	}
	if !c.Thorough() {
		// the panicking initialisers each need a program of their own: the quick
		// tier runs the unread ones (the defect F4 shapes) and a seeded few of the rest
		var keep []*unit
		for _, u := range singles {
			if !u.vs.P.Used || rng.Intn(4) == 0 {
				keep = append(keep, u)
			}
		}
		singles = keep
	}
	rng.Shuffle(len(batchable), func(i, j int) { batchable[i], batchable[j] = batchable[j], batchable[i] })
	// conformance programs are small (their whole declaration graph goes to TLC)
	nconf := c.Pick(6, 40)
	const confSize = 10
	var groups [][]*unit
	var dumpFlags []bool
	rest := batchable
	for i := 0; i < nconf && len(rest) >= confSize; i++ {
		groups = append(groups, rest[:confSize])
		dumpFlags = append(dumpFlags, true)
		rest = rest[confSize:]
	}
	const per = 120
	for len(rest) > 0 {
		n := per
		if n > len(rest) {
			n = len(rest)
		}
		groups = append(groups, rest[:n])
		dumpFlags = append(dumpFlags, true)
		rest = rest[n:]
	}
	for _, u := range singles {
		groups = append(groups, []*unit{u})
		dumpFlags = append(dumpFlags, true)
	}
	results := make([][]triple, len(groups))
	c.ParMap(len(groups), func(i int) {
		results[i] = r.runUnits(groups[i], dumpFlags[i])
	})
	if c.InfraErr != nil {
		bg.Wait()
		return
	}
	c.Phase("programs")
	var realGraphs []mGraph
	realSel := map[string][]bool{}
	for gi, ts := range results {
		for _, t := range ts {
			decide(c, st, t)
		}
		if len(ts) == 0 {
			continue
		}
		// static comparisons on the real DCE data of the program
		if ts[0].dump != nil && ts[0].progUnits == len(groups[gi]) {
			staticCompare(c, st, ts)
			if gi < nconf || len(groups[gi]) == 1 {
				if g, sel, err := toGraph(fmt.Sprintf("real%d", gi), ts[0].dump); err != nil {
					c.Infra(err)
				} else {
					realGraphs = append(realGraphs, g)
					realSel[g.ID] = sel
				}
			}
		}
	}
	// ------------------------------------------------------------------
	// 3. MiniGo programs: DCE on/off must agree
	// ------------------------------------------------------------------
	runMiniGo(c, st, r, rng)
	c.Phase("minigo")

	// ------------------------------------------------------------------
	// 4. conformance of the selector model with the real selector
	// ------------------------------------------------------------------
	conformance(c, st, realGraphs, realSel)
	c.Phase("conformance")
	bg.Wait()
	c.Phase("selector_model")
	total := 0
	for _, n := range enumStates {
		total += n
	}
	c.Set("selector_small_graph_states", total)
	var enames []string
	for _, e := range enums {
		enames = append(enames, fmt.Sprintf("%s(names=%v,mnames=%v,roots=%v,n<=%d)", e.name, e.names, e.mnames, e.roots, e.n))
	}
	c.Set("selector_small_graph_spaces", enames)
	c.Set("evaluations", st.evals)
	c.Set("traces_validated_against_impl", st.evals)
	c.Set("spec_guard_discards", st.discards+c.Get("spec_guard_discards"))
	c.Set("programs", r.nprg)
	c.Set("static_decl_comparisons", st.staticCmp)
	c.Set("emission_comparisons", st.emitCmp)
	c.Set("real_graphs_loaded_into_model", st.graphsReal)
	c.Set("reach_kinds", st.reachKinds)
	c.Set("model_drift", len(st.drift))
	if len(st.drift) > 0 {
		d := st.drift
		if len(d) > 10 {
			d = d[:10]
		}
		c.Set("model_drift_samples", d)
	}
	c.Set("exhaustive", c.Thorough())
	c.Set("checker_cmd", "tlc Dce (modes enum, explicit, topo, vars of c05_params.json; INVARIANT Sound Indexed AtDone Emit; PROPERTY Terminates on the small-graph runs)")
	c.Set("rule", "a case is one scenario (dispatch topology of DceTopo.tla: reach kind x exported x pointer receiver x type kind x carrier/embedding x distractor type x second interface x holder; package-variable scenario: initialiser kind x form x read or not; go:linkname scenario; MiniGo program x input) observed in the normal link and in the all-alive link of the same archives; an evaluation = one (scenario, link) observation compared with the TLC prediction (MiniGo: with each other) after the native guard agreed; distinct = distinct scenario keys; all are non-trivial (each reaches its target only through the stated mechanism). The quick tier enumerates a VERIF_SEED slice of the kind/distractor/second-interface dimensions, the thorough tier all of them.")
	for i, t := range topos {
		if i%(len(topos)/3+1) == 0 {
			c.Sample(map[string]any{"scenario": t.P.key(), "predicted": t.Out, "model_alive": t.Alive})
		}
	}
	if len(st.discardKeys) > 0 {
		c.Set("spec_guard_discard_samples", st.discardKeys)
	}
	_ = os.Remove
	_ = strings.Join
	_ = pool
}

// decide applies the verdict rule to one scenario.
func decide(c *core.Ctx, st *checkState, t triple) {
	u := t.u
	if !t.nat.matches(u.want, u.wantEnd) {
		st.mu.Lock()
		st.discards++
		if len(st.discardKeys) < 5 {
			st.discardKeys = append(st.discardKeys, fmt.Sprintf("%s: predicted %v end=%s, reference toolchain %s", u.key, u.want, u.wantEnd, t.nat))
		}
		st.mu.Unlock()
		return
	}
	st.mu.Lock()
	st.evals += 2
	st.mu.Unlock()
	okJS, okAll := t.js.matches(u.want, u.wantEnd), t.all.matches(u.want, u.wantEnd)
	if okJS && okAll {
		return
	}
	st.mu.Lock()
	st.behaviour[u.key] = true
	st.mu.Unlock()
	var what string
	switch {
	case !okJS && okAll:
		what = "the normal link (dead-code elimination on) differs from the all-alive link and from Go"
	case okJS && !okAll:
		what = "the all-alive link differs from the normal link and from Go"
	default:
		what = "both links differ from Go"
	}
	files := replayFiles(u)
	files["observed_dce.txt"] = t.js.String() + "\n" + t.jsRaw + "\n"
	files["observed_all_alive.txt"] = t.all.String() + "\n" + t.allRaw + "\n"
	files["observed_native.txt"] = t.nat.String() + "\n"
	c.Report(core.Case{Keys: classify(t), Files: files,
		Summary: fmt.Sprintf("%s: %s. predicted (= native Go) %v end=%s; with DCE: %s; all alive: %s", u.key, what, u.want, u.wantEnd, t.js, t.all)})
}

// classify returns known-finding classifier keys (narrow: one per initialiser kind).
func classify(t triple) []string {
	u := t.u
	if u.kind == "var" && u.vs.Gap && !u.vs.P.Used && t.all.matches(u.want, u.wantEnd) && t.js.end == "exit" {
		// defect F4: the initialiser of a variable nobody reads can only panic (no call,
		// no receive): it is dropped with the variable and the panic does not happen
		return []string{"unread_var_initialiser_panic_dropped:" + u.vs.P.Kind}
	}
	return nil
}
