package c05

import (
	"fmt"
	"sort"
	"strings"
)

// ---------------------------------------------------------------------------
// Scenario records as emitted by spec/Dce.tla
// ---------------------------------------------------------------------------

type tParams struct {
	Via     string `json:"via"`
	Exp     bool   `json:"exp"`
	Ptr     bool   `json:"ptr"`
	Kind    string `json:"kind"`
	Carrier string `json:"carrier"`
	D2      string `json:"d2"`
	I2      string `json:"i2"`
	Where   string `json:"where"`
}

func (p tParams) key() string {
	return fmt.Sprintf("%s/%s/exp=%v/ptr=%v/%s/d2=%s/i2=%s/%s", p.Via, p.Kind, p.Exp, p.Ptr, p.Carrier, p.D2, p.I2, p.Where)
}

type tMeth struct {
	Name string `json:"name"`
	Sig  string `json:"sig"`
	Ptr  bool   `json:"ptr"`
}

type tType struct {
	Name  string  `json:"name"`
	Kind  string  `json:"kind"`
	Embed string  `json:"embed"`
	EPtr  bool    `json:"eptr"`
	Local bool    `json:"local"`
	Meths []tMeth `json:"meths"`
}

type tIface struct {
	Name  string  `json:"name"`
	Meths []tMeth `json:"meths"`
	Embed string  `json:"embed"`
}

type tAct struct {
	Op string `json:"op"`
	C  string `json:"c"`
	I  string `json:"i"`
	N  string `json:"n"`
}

type tProg struct {
	Types  []tType  `json:"types"`
	Ifaces []tIface `json:"ifaces"`
	Acts   []tAct   `json:"acts"`
	Where  string   `json:"where"`
	HGen   bool     `json:"hgen"`
	N      string   `json:"n"`
}

type gDecl struct {
	ID string `json:"id"`
	Of string `json:"of"`
	Mf string `json:"mf"`
}

// topoScen is one dispatch topology with the model's prediction.
type topoScen struct {
	P      tParams  `json:"p"`
	Prog   tProg    `json:"prog"`
	Out    []string `json:"out"`
	Alive  []string `json:"alive"`
	Needed []string `json:"needed"`
	Graph  []gDecl  `json:"graph"`
}

// vParams / varScen: the package-variable family.
type vParams struct {
	Kind string `json:"kind"`
	Used bool   `json:"used"`
	Form string `json:"form"`
}

func (p vParams) key() string { return fmt.Sprintf("var/%s/%s/used=%v", p.Kind, p.Form, p.Used) }

type varScen struct {
	P      vParams  `json:"p"`
	Out    []string `json:"out"`
	End    string   `json:"end"`
	Alive  bool     `json:"alive"`
	Needed bool     `json:"needed"`
	Gap    bool     `json:"gap"`
}

// ---------------------------------------------------------------------------
// Rendering a topology as a Go package
// ---------------------------------------------------------------------------

func (p *tProg) typ(name string) *tType {
	for i := range p.Types {
		if p.Types[i].Name == name {
			return &p.Types[i]
		}
	}
	return nil
}

func (p *tProg) iface(name string) *tIface {
	for i := range p.Ifaces {
		if p.Ifaces[i].Name == name {
			return &p.Ifaces[i]
		}
	}
	return nil
}

// tref is how the type is written where it is used.
func (p *tProg) tref(name string) string {
	if t := p.typ(name); t != nil && t.Kind == "generic" {
		return name + "[int32]"
	}
	return name
}

func sigDecl(sig string, generic bool) (params, result, ret string) {
	switch sig {
	case "A":
		if generic {
			return "a X", " X", "return a"
		}
		return "a int32", " int32", "return a"
	default: // B
		return "", "", ""
	}
}

func sigIface(sig string) string {
	if sig == "A" {
		return "(int32) int32"
	}
	return "()"
}

func callArgs(sig string) string {
	if sig == "A" {
		return "7"
	}
	return ""
}

func typeDecl(p *tProg, t *tType, holderGeneric bool) string {
	emb := ""
	if t.Embed != "" {
		emb = p.tref(t.Embed)
		if t.EPtr {
			emb = "*" + emb
		}
	}
	switch {
	case t.Embed != "":
		extra := ""
		if t.Local && holderGeneric {
			extra = "; z X"
		}
		return fmt.Sprintf("type %s struct{ %s%s }", t.Name, emb, extra)
	case t.Kind == "basic":
		return fmt.Sprintf("type %s int32", t.Name)
	case t.Kind == "generic":
		return fmt.Sprintf("type %s[X any] struct{ f X }", t.Name)
	default:
		return fmt.Sprintf("type %s struct{ f int32 }", t.Name)
	}
}

// resolve mirrors DceTopo!Resolve (only used to find the signature to call with).
func (p *tProg) resolve(c, n string) *tMeth {
	for t := p.typ(c); t != nil; t = p.typ(t.Embed) {
		for i := range t.Meths {
			if t.Meths[i].Name == n {
				return &t.Meths[i]
			}
		}
		if t.Embed == "" {
			break
		}
	}
	return nil
}

// inValueMethodSet: c.n is in the method set of the carrier VALUE type.
func (p *tProg) inValueMethodSet(c, n string) bool {
	viaPtr := false
	for t := p.typ(c); t != nil; t = p.typ(t.Embed) {
		for i := range t.Meths {
			if t.Meths[i].Name == n {
				return !t.Meths[i].Ptr || viaPtr
			}
		}
		if t.Embed == "" {
			break
		}
		if t.EPtr {
			viaPtr = true
		}
	}
	return false
}

func (p *tProg) ifaceSig(i, n string) string {
	for it := p.iface(i); it != nil; it = p.iface(it.Embed) {
		for _, m := range it.Meths {
			if m.Name == n {
				return m.Sig
			}
		}
		if it.Embed == "" {
			break
		}
	}
	return ""
}

// renderTopo returns the source of package <pkg> for the topology. Every printed
// line starts with the scenario tag.
func renderTopo(sc *topoScen, pkg string) string {
	p := &sc.Prog
	var b strings.Builder
	fmt.Fprintf(&b, "// topology %s\npackage %s\n\n", sc.P.key(), pkg)
	tag := fmt.Sprintf("%q", pkg)
	// package-level types and methods
	for i := range p.Types {
		t := &p.Types[i]
		if !t.Local {
			b.WriteString(typeDecl(p, t, false) + "\n")
		}
		for _, m := range t.Meths {
			generic := t.Kind == "generic"
			params, result, ret := sigDecl(m.Sig, generic)
			recv := t.Name
			if generic {
				recv += "[X]"
			}
			if m.Ptr {
				recv = "*" + recv
			}
			fmt.Fprintf(&b, "func (t %s) %s(%s)%s { println(%s, \"%s.%s\"); %s }\n", recv, m.Name, params, result, tag, t.Name, m.Name, ret)
		}
	}
	for _, it := range p.Ifaces {
		var parts []string
		if it.Embed != "" {
			parts = append(parts, it.Embed)
		}
		for _, m := range it.Meths {
			parts = append(parts, m.Name+sigIface(m.Sig))
		}
		fmt.Fprintf(&b, "type %s interface{ %s }\n", it.Name, strings.Join(parts, "; "))
	}
	usesW, usesG := "", ""
	for _, a := range p.Acts {
		if a.Op == "iembed" {
			usesW = a.I
		}
		if a.Op == "gcall" {
			usesG = a.I
		}
	}
	if usesW != "" {
		fmt.Fprintf(&b, "type W struct{ %s }\n", usesW)
	}
	if usesG != "" {
		// the helper's constraint is the interface the reach goes through
		var n string
		for _, a := range p.Acts {
			if a.Op == "gcall" {
				n = a.N
			}
		}
		fmt.Fprintf(&b, "func g[X %s](v X) { v.%s(%s) }\n", usesG, n, callArgs(p.ifaceSig(usesG, n)))
	}
	b.WriteString("\n")
	// the holder body
	var body strings.Builder
	for i := range p.Types {
		t := &p.Types[i]
		if t.Local {
			body.WriteString("\t" + typeDecl(p, t, p.HGen) + "\n")
		}
	}
	for _, a := range p.Acts {
		body.WriteString("\t{\n")
		c := p.typ(a.C)
		cref := p.tref(a.C)
		if a.Op == "mk" {
			fmt.Fprintf(&body, "\t\ty := %s{f: 3}\n\t\tif y.f == 3 {\n\t\t\tprintln(%s, \"mk %s\")\n\t\t}\n", cref, tag, a.C)
			body.WriteString("\t}\n")
			continue
		}
		if c.Embed != "" && c.EPtr {
			fmt.Fprintf(&body, "\t\tx := %s{%s: new(%s)}\n", cref, c.Embed, p.tref(c.Embed))
		} else {
			fmt.Fprintf(&body, "\t\tvar x %s\n", cref)
		}
		var sig string
		if a.I != "" {
			sig = p.ifaceSig(a.I, a.N)
		} else {
			sig = p.resolve(a.C, a.N).Sig
		}
		args := callArgs(sig)
		argsAfterRecv := args
		if argsAfterRecv != "" {
			argsAfterRecv = ", " + argsAfterRecv
		}
		switch a.Op {
		case "scall":
			fmt.Fprintf(&body, "\t\tx.%s(%s)\n", a.N, args)
		case "mval":
			fmt.Fprintf(&body, "\t\tf := x.%s\n\t\tf(%s)\n", a.N, args)
		case "mexpr":
			if p.inValueMethodSet(a.C, a.N) {
				fmt.Fprintf(&body, "\t\tf := %s.%s\n\t\tf(x%s)\n", cref, a.N, argsAfterRecv)
			} else {
				fmt.Fprintf(&body, "\t\tf := (*%s).%s\n\t\tf(&x%s)\n", cref, a.N, argsAfterRecv)
			}
		case "defer":
			fmt.Fprintf(&body, "\t\tfunc() {\n\t\t\tdefer x.%s(%s)\n\t\t}()\n", a.N, args)
		case "icall":
			fmt.Fprintf(&body, "\t\tvar i %s = &x\n\t\ti.%s(%s)\n", a.I, a.N, args)
		case "imval":
			fmt.Fprintf(&body, "\t\tvar i %s = &x\n\t\tf := i.%s\n\t\tf(%s)\n", a.I, a.N, args)
		case "imexpr":
			fmt.Fprintf(&body, "\t\tf := %s.%s\n\t\tf(&x%s)\n", a.I, a.N, argsAfterRecv)
		case "assert":
			fmt.Fprintf(&body, "\t\tvar a interface{} = &x\n\t\ta.(%s).%s(%s)\n", a.I, a.N, args)
		case "anonassert":
			fmt.Fprintf(&body, "\t\tvar a interface{} = &x\n\t\ta.(interface{ %s%s }).%s(%s)\n", a.N, sigIface(sig), a.N, args)
		case "tswitch":
			fmt.Fprintf(&body, "\t\tvar a interface{} = &x\n\t\tswitch v := a.(type) {\n\t\tcase %s:\n\t\t\tv.%s(%s)\n\t\tdefault:\n\t\t\tprintln(%s, \"nomatch\")\n\t\t}\n", a.I, a.N, args, tag)
		case "gcall":
			fmt.Fprintf(&body, "\t\tg(&x)\n")
		case "iembed":
			fmt.Fprintf(&body, "\t\tw := W{&x}\n\t\tw.%s(%s)\n", a.N, args)
		default:
			panic("renderTopo: unknown op " + a.Op)
		}
		body.WriteString("\t}\n")
	}
	tp, inst := "", ""
	if p.HGen {
		tp, inst = "[X any]", "[int32]"
	}
	switch p.Where {
	case "run":
		fmt.Fprintf(&b, "func Run%s() {\n%s}\n", tp, body.String())
	case "init":
		fmt.Fprintf(&b, "func init() {\n%s}\n\nfunc Run() {}\n", body.String())
	case "varinit":
		fmt.Fprintf(&b, "var V = reach%s()\n\nfunc reach%s() int32 {\n%s\treturn 1\n}\n\nfunc Run() {}\n", inst, tp, body.String())
	case "closurevar":
		fmt.Fprintf(&b, "var F = func() {\n%s}\n\nfunc Run() { F() }\n", body.String())
	default:
		panic("renderTopo: unknown where " + p.Where)
	}
	return b.String()
}

// runExpr is how main refers to the scenario's Run function.
func (sc *topoScen) runExpr(pkg string) string {
	if sc.Prog.HGen && sc.Prog.Where == "run" {
		return pkg + ".Run[int32]"
	}
	return pkg + ".Run"
}

// ---------------------------------------------------------------------------
// The package-variable family
// ---------------------------------------------------------------------------

// renderVar returns the package source for a variable scenario.
func renderVar(sc *varScen, pkg string) string {
	var b strings.Builder
	tag := fmt.Sprintf("%q", pkg)
	fmt.Fprintf(&b, "// %s\npackage %s\n\n", sc.P.key(), pkg)
	// helpers every kind may use (unused helpers are dead code themselves)
	fmt.Fprintf(&b, "func eff() int32 { println(%s, \"init\"); return 1 }\n", tag)
	fmt.Fprintf(&b, "func eff2() (int32, int32) { println(%s, \"init\"); return 1, 2 }\n", tag)
	fmt.Fprintf(&b, "type tv struct{ f int32 }\nfunc (t tv) get() int32 { println(%s, \"init\"); return t.f }\n", tag)
	b.WriteString("type fnT func() int32\n\nvar fv fnT = eff\n")
	b.WriteString("func mkch() chan int32 { c := make(chan int32, 1); c <- 5; return c }\n")
	b.WriteString("var ch = mkch()\n")
	b.WriteString("var ifc interface{} = \"str\"\n")
	b.WriteString("var arr = []int32{1, 2, 3}\nvar idx = 5\nvar zero int32\nvar np *tv\nvar tab = map[string]int32{\"k\": 1}\n\n")
	expr := ""
	switch sc.P.Kind {
	case "const":
		expr = "int32(7)"
	case "funclit":
		expr = "func() int32 { return 7 }"
	case "mapread":
		expr = "tab[\"k\"]"
	case "call":
		expr = "eff()"
	case "closurecall":
		expr = fmt.Sprintf("func() int32 { println(%s, \"init\"); return 1 }()", tag)
	case "methodcall":
		expr = "tv{f: 2}.get()"
	case "recv":
		expr = "<-ch"
	case "convcall":
		expr = "int64(eff())"
	case "namedfunccall":
		expr = "fv()"
	case "assertpanic":
		expr = "ifc.(int32)"
	case "indexpanic":
		expr = "arr[idx]"
	case "divpanic":
		expr = "int32(10) / zero"
	case "nilderef":
		expr = "np.f"
	case "slicearrpanic":
		expr = "[4]int32(arr)"
	default:
		panic("renderVar: kind " + sc.P.Kind)
	}
	use := ""
	switch sc.P.Form {
	case "single":
		fmt.Fprintf(&b, "var v = %s\n", expr)
		use = "_ = v"
	case "blank":
		fmt.Fprintf(&b, "var _ = %s\n", expr)
	case "multi":
		if sc.P.Kind == "call" {
			b.WriteString("var v, w = eff2()\n")
		} else {
			fmt.Fprintf(&b, "var v, w = %s\n", expr) // comma-ok form of the map read
		}
		use = "_ = v"
	}
	b.WriteString("\nfunc Run() {\n")
	fmt.Fprintf(&b, "\tprintln(%s, \"run\")\n", tag)
	if sc.P.Kind == "recv" {
		fmt.Fprintf(&b, "\tprintln(%s, \"chlen\", len(ch))\n", tag)
	}
	if sc.P.Used {
		fmt.Fprintf(&b, "\t%s\n\tprintln(%s, \"used\")\n", use, tag)
	}
	b.WriteString("}\n")
	return b.String()
}

// ---------------------------------------------------------------------------
// go:linkname scenarios (roots by directive). Not enumerated by TLC beyond the
// selector level (a link is a root in Dce.tla); the prediction is direct: the
// implementation prints its token.
// ---------------------------------------------------------------------------

type linkScen struct {
	Target   string // func | method | ptrmethod
	AlsoUsed bool   // the implementation is also called from its own package
}

func (l linkScen) key() string {
	return fmt.Sprintf("linkname/%s/also_used=%v", l.Target, l.AlsoUsed)
}

func linkScens() []linkScen {
	var out []linkScen
	for _, t := range []string{"func", "method", "ptrmethod"} {
		for _, u := range []bool{false, true} {
			out = append(out, linkScen{t, u})
		}
	}
	return out
}

// renderLink returns the files of one linkname scenario: package <pkg>impl holds
// the implementation (referenced by nothing but the directive unless AlsoUsed),
// package <pkg> holds the bodyless reference and Run. want is the prediction.
func renderLink(l linkScen, pkg string) (files map[string]string, want []string) {
	files = map[string]string{}
	impl := pkg + "impl"
	tag := fmt.Sprintf("%q", pkg)
	var b strings.Builder
	fmt.Fprintf(&b, "// %s\npackage %s\n\ntype T struct{ X int32 }\n\n", l.key(), impl)
	switch l.Target {
	case "func":
		fmt.Fprintf(&b, "func hidden(a int32) int32 { println(%s, \"hidden\"); return a + 1 }\n", tag)
	case "method":
		fmt.Fprintf(&b, "func (t T) hidden(a int32) int32 { println(%s, \"hidden\"); return a + t.X }\n", tag)
	case "ptrmethod":
		fmt.Fprintf(&b, "func (t *T) hidden(a int32) int32 { println(%s, \"hidden\"); return a + t.X }\n", tag)
	}
	b.WriteString("func dead() int32 { return 99 }\n")
	if l.AlsoUsed {
		switch l.Target {
		case "func":
			b.WriteString("func Use() int32 { return hidden(1) }\n")
		case "method":
			b.WriteString("func Use() int32 { return T{X: 1}.hidden(1) }\n")
		case "ptrmethod":
			b.WriteString("func Use() int32 { return (&T{X: 1}).hidden(1) }\n")
		}
	}
	files[impl+"/impl.go"] = b.String()
	implPath := "vp/" + impl
	var sym, decl, callExpr string
	switch l.Target {
	case "func":
		sym, decl, callExpr = implPath+".hidden", "func ref(a int32) int32", "ref(4)"
	case "method":
		sym, decl, callExpr = implPath+".T.hidden", "func ref(t "+impl+".T, a int32) int32", "ref("+impl+".T{X: 1}, 4)"
	case "ptrmethod":
		sym, decl, callExpr = implPath+".(*T).hidden", "func ref(t *"+impl+".T, a int32) int32", "ref(&"+impl+".T{X: 1}, 4)"
	}
	imp := fmt.Sprintf("%q", implPath)
	if l.Target == "func" && !l.AlsoUsed {
		imp = "_ " + imp
	}
	var r strings.Builder
	fmt.Fprintf(&r, "package %s\n\nimport (\n\t_ \"unsafe\"\n\n\t%s\n)\n\n//go:linkname ref %s\n%s\n\n", pkg, imp, sym, decl)
	fmt.Fprintf(&r, "func Run() {\n\tprintln(%s, \"got\", %s)\n", tag, callExpr)
	if l.AlsoUsed {
		fmt.Fprintf(&r, "\tprintln(%s, \"use\", %s.Use())\n", tag, impl)
	}
	r.WriteString("}\n")
	files[pkg+"/ref.go"] = r.String()
	want = []string{"hidden", "got 5"}
	if l.AlsoUsed {
		want = append(want, "hidden", "use 2")
	}
	return files, want
}

func sortedKeys(m map[string]string) []string {
	ks := make([]string, 0, len(m))
	for k := range m {
		ks = append(ks, k)
	}
	sort.Strings(ks)
	return ks
}
