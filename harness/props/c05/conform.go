package c05

import (
	"encoding/json"
	"fmt"
	"path/filepath"
	"sort"
	"strings"
	"time"

	"verif/core"
	"verif/tlcx"
)

// toGraph turns the real DCE data of a program into a graph for Dce.tla
// (declarations in the order WriteProgramCode includes them) and returns which
// declarations the real selector kept.
func toGraph(id string, dump []declDump) (mGraph, []bool, error) {
	g := mGraph{ID: id}
	sel := make([]bool, len(dump))
	for i, d := range dump {
		info, err := parseDce(d.Dce)
		if err != nil {
			return g, nil, fmt.Errorf("%s %s: %v", d.Pkg, d.FullName, err)
		}
		deps := info.Deps
		if deps == nil {
			deps = []string{}
		}
		g.Decls = append(g.Decls, mDecl{ID: "", Of: info.Of, Mf: info.Mf, Deps: deps, Alive: info.Alive, Link: d.Link})
		sel[i] = d.Selected
	}
	return g, sel, nil
}

// conformance loads the real declaration graphs into the selector model (exact
// LIFO order, dependencies in the real, sorted order) and compares the set TLC
// selects with the real selection.
func conformance(c *core.Ctx, st *checkState, graphs []mGraph, realSel map[string][]bool) {
	if len(graphs) == 0 {
		return
	}
	res, err := tlcx.Run(c, tlcx.Opts{Module: "Dce", Cfg: cfgSafety, Workers: 8, Timeout: 25 * time.Minute, HeapMB: 8192,
		Files: map[string]string{"c05_params.json": params("explicit", map[string]any{"graphs": graphs})}})
	if !tlcx.MustComplete(c, res, err, "Dce conformance (real graphs)") {
		return
	}
	ndecl := 0
	for _, g := range graphs {
		ndecl += len(g.Decls)
		var got struct {
			ID  string `json:"id"`
			Sel []int  `json:"sel"`
		}
		found := false
		err := readDouble(filepath.Join(res.Dir, "o."+g.ID+".ndjson"), func(b []byte) error {
			found = true
			return json.Unmarshal(b, &got)
		})
		if err != nil || !found {
			c.Infra(fmt.Errorf("conformance: no model result for graph %s: %v", g.ID, err))
			return
		}
		model := make([]bool, len(g.Decls))
		for _, i := range got.Sel {
			model[i-1] = true
		}
		var diff []string
		for i := range g.Decls {
			if model[i] != realSel[g.ID][i] {
				diff = append(diff, fmt.Sprintf("#%d %s&%s model=%v real=%v", i+1, g.Decls[i].Of, g.Decls[i].Mf, model[i], realSel[g.ID][i]))
			}
		}
		st.graphsReal++
		if len(diff) > 0 {
			sort.Strings(diff)
			if len(diff) > 6 {
				diff = append(diff[:6], fmt.Sprintf("... (%d declarations)", len(diff)))
			}
			drift(st, fmt.Sprintf("selector conformance, graph %s (%d declarations): the set selected by Dce.tla differs from compiler.VerifAliveDecls: %s", g.ID, len(g.Decls), strings.Join(diff, "; ")))
		}
	}
	c.Set("real_graph_declarations", ndecl)
}

// drift records a divergence between the implementation-shaped model and the
// code that does not (by itself) violate the property.
func drift(st *checkState, msg string) {
	st.mu.Lock()
	defer st.mu.Unlock()
	if len(st.drift) < 20 {
		fmt.Printf("MODEL-DRIFT property=C05 %s\n", msg)
	}
	st.drift = append(st.drift, msg)
}

// staticCompare compares, for the scenarios of one program, the real DCE data
// with the model of the naming scheme (DceTopo!Compile) and with the emission.
func staticCompare(c *core.Ctx, st *checkState, ts []triple) {
	dump := ts[0].dump
	byName := map[string]*declDump{}
	for i := range dump {
		d := &dump[i]
		byName[d.FullName] = d
		if d.HasFunc {
			st.mu.Lock()
			st.emitCmp++
			st.mu.Unlock()
			if d.Emitted != d.Selected {
				drift(st, fmt.Sprintf("emission: %s selected=%v by VerifAliveDecls but its code emitted=%v by WriteProgramCode", d.FullName, d.Selected, d.Emitted))
			}
		}
	}
	for _, t := range ts {
		if t.u.kind != "topo" {
			continue
		}
		compareTopo(st, t, byName)
	}
}

// compareTopo: the model's filters and alive flags of the method and type
// declarations of one topology against the real ones.
func compareTopo(st *checkState, t triple, byName map[string]*declDump) {
	sc := t.u.topo
	pkg := "vp/" + t.u.tag
	alive := map[string]bool{}
	for _, a := range sc.Alive {
		alive[a] = true
	}
	for _, gd := range sc.Graph {
		var real *declDump
		switch {
		case strings.HasPrefix(gd.ID, "type:"), strings.HasPrefix(gd.ID, "iface:"):
			name := gd.ID[strings.Index(gd.ID, ":")+1:]
			real = byName["type:"+pkg+"."+name]
			if tt := sc.Prog.typ(name); tt != nil && tt.Kind == "generic" {
				real = byName["type:"+pkg+"."+name+"<int32>"]
			}
			if tt := sc.Prog.typ(name); tt != nil && tt.Local {
				real = nil // local types: compared through behaviour only (names carry the nesting function)
				continue
			}
		case strings.Contains(gd.ID, ".") && !strings.Contains(gd.ID, ":"):
			i := strings.Index(gd.ID, ".")
			tn, mn := gd.ID[:i], gd.ID[i+1:]
			tt := sc.Prog.typ(tn)
			if tt == nil {
				continue
			}
			var m *tMeth
			for k := range tt.Meths {
				if tt.Meths[k].Name == mn {
					m = &tt.Meths[k]
				}
			}
			recv := tn
			if tt.Kind == "generic" {
				recv += "[int32]"
			}
			if m.Ptr {
				real = byName["func:"+pkg+".(*"+recv+")."+mn]
			} else {
				real = byName["func:"+pkg+"."+recv+"."+mn]
			}
		default:
			continue
		}
		st.mu.Lock()
		st.staticCmp++
		st.mu.Unlock()
		if real == nil {
			drift(st, fmt.Sprintf("%s: no real declaration found for model declaration %s", t.u.key, gd.ID))
			continue
		}
		info, err := parseDce(real.Dce)
		if err != nil {
			drift(st, fmt.Sprintf("%s: %v", t.u.key, err))
			continue
		}
		wantOf := strings.Replace(gd.Of, "p.", pkg+".", -1)
		wantMf := strings.Replace(gd.Mf, "p.", pkg+".", -1)
		if info.Of != wantOf || info.Mf != wantMf {
			drift(st, fmt.Sprintf("%s: filters of %s: model (%q, %q), real (%q, %q)", t.u.key, real.FullName, wantOf, wantMf, info.Of, info.Mf))
		}
		if real.Selected != alive[gd.ID] {
			drift(st, fmt.Sprintf("%s: %s alive in the model = %v, selected by the real selector = %v", t.u.key, real.FullName, alive[gd.ID], real.Selected))
		}
	}
}
