package c05

import (
	"fmt"
	"strings"
)

// Witness scenarios: hand-written packages for reach mechanisms that the
// dispatch topologies of DceTopo.tla do not enumerate (found by reading and by
// independent fault injection). The prediction is direct (what Go prints); each is
// linked normally and with every declaration alive like every other scenario.
type witnessScen struct {
	name string
	src  string   // package source; %TAG% = quoted package name (the line tag), package clause added
	want []string // lines printed by Run (tag removed)
}

var witnessScens = []witnessScen{
	// the only instance of a generic function is first spelled with an alias of its type argument in dead code
	{name: "alias_spelling_of_type_argument", src: `
func F[T any](v T) T { return v }

func dead() { println(%TAG%, F[rune](1)) }

func G[T any](v T) int32 { return 7 }

func dead2() { println(%TAG%, G[[]byte](nil)) }

func Run() {
	println(%TAG%, F[int32](2))
	println(%TAG%, G[[]uint8](nil))
}
`, want: []string{"2", "7"}},
	// an unexported method of a generic type whose signature mentions the receiver's type parameter
	// inside a directional channel / function / map type, reached by a direct call and through an interface
	{name: "generic_method_signature_with_composite_types", src: `
type S[T any] struct{ c chan T }

func (s *S[T]) in() chan<- T       { return s.c }
func (s *S[T]) out() <-chan T      { return s.c }
func (s *S[T]) fn() func(T) []T    { return func(v T) []T { return []T{v} } }
func (s *S[T]) mp() map[string]*T  { return map[string]*T{} }
func (s *S[T]) Arr(a [2]T) [2]T    { return a }

type io interface {
	in() chan<- int32
	out() <-chan int32
}

func Run() {
	s := &S[int32]{c: make(chan int32, 2)}
	s.in() <- 4
	var i io = s
	i.in() <- 5
	println(%TAG%, <-s.out(), <-i.out())
	println(%TAG%, len(s.fn()(3)), len(s.mp()), s.Arr([2]int32{1, 2})[1])
}
`, want: []string{"4 5", "1 0 2"}},
	// one initialiser declares SEVERAL package variables (comma-ok forms without a call or receive, tuple from
	// a call, a receive): live code reads only one of them - the first, the second, or the blank-paired one
	{name: "multi_variable_initialiser_partially_used", src: `
type shape interface{ area() int32 }
type sq struct{ s int32 }

func (q sq) area() int32 { return q.s * q.s }

var table = map[string]int32{"a": 1, "b": 2}
var boxed interface{} = sq{3}
var ch = func() chan int32 { c := make(chan int32, 1); c <- 6; return c }()

var v1, ok1 = table["a"]      // only ok1 is read
var v2, ok2 = table["zz"]     // only v2 is read
var s3, isShape = boxed.(shape) // only isShape is read
var s4, notInt = boxed.(int32)  // only s4 is read
var r5, open5 = <-ch           // only open5 is read
var a6, b6 = pair()            // only b6 is read
var _, ok7 = table["b"]
var Exp8, exp9 = table["b"]     // exported first, unexported second: only exp9 is read

func pair() (int32, int32) { return 10, 11 }

func Run() {
	println(%TAG%, ok1, v2, isShape, s4, open5, b6, ok7, exp9)
}
`, want: []string{"true 0 true 0 true 11 true true"}},
	// a method reached only through a method value of an embedded field, and through an interface held in a struct
	{name: "method_value_of_promoted_method", src: `
type inner struct{ n int32 }

func (i inner) get() int32   { return i.n }
func (i *inner) set(v int32) { i.n = v }

type outer struct {
	inner
	f interface{ get() int32 }
}

func Run() {
	o := outer{inner: inner{n: 3}}
	g := o.get
	s := o.set
	s(9)
	o.f = &o.inner
	println(%TAG%, g(), o.f.get())
}
`, want: []string{"3 9"}},
	// package variables whose initialisers have effects only through defined function types, method values and closures
	{name: "initialiser_effects_through_function_values", src: `
type fnT func() int32

func eff(k int32) int32 { println(%TAG%, "init", k); return k }

var f1 fnT = func() int32 { return eff(1) }
var _ = f1()
var mv = tv{2}.get
var _ = mv()
var unusedA = func() int32 { return eff(3) }()

type tv struct{ k int32 }

func (t tv) get() int32 { return eff(t.k) }

func Run() { println(%TAG%, "run") }
`, want: []string{"init 1", "init 2", "init 3", "run"}},
}

func renderWitness(w witnessScen, pkg string) (map[string]string, []string) {
	tag := fmt.Sprintf("%q", pkg)
	src := "// witness " + w.name + "\npackage " + pkg + "\n" + strings.ReplaceAll(w.src, "%TAG%", tag)
	return map[string]string{pkg + "/w.go": src}, w.want
}
