package c05

import (
	"fmt"
	"math/rand"
	"os"
	"path/filepath"
	"strings"
	"time"

	"verif/core"
	"verif/gjs"
	"verif/props/minigo"
)

// Programs of the MiniGo generator (verif/props/minigo: control flow, closures,
// helper functions that are called or not) as additional inputs: the normal link
// and the all-alive link must print the same thing.  There is no TLC prediction
// here (C01 decides these programs against MiniGo.tla); native Go arbitrates.

const miniHelpers = `package main

var inp []bool
var ip int

func in() bool {
	if ip < len(inp) {
		b := inp[ip]
		ip++
		return b
	}
	ip++
	return false
}

func yield(k int) {}

func tr(k, v int) int {
	yield(k)
	println("t", k, v)
	return v
}

func trb(k int, b bool) bool {
	yield(k)
	if b {
		println("b", k, 1)
	} else {
		println("b", k, 0)
	}
	return b
}

func call(id int, f func() int) {
	defer func() {
		if r := recover(); r != nil {
			println("PANIC", id)
		}
	}()
	println("ret", f())
}
`

func miniSections(lines []string) map[string][]string {
	out := map[string][]string{}
	cur := ""
	for _, l := range lines {
		if strings.HasPrefix(l, "# ") {
			cur = l
			out[cur] = []string{}
			continue
		}
		out[cur] = append(out[cur], l)
	}
	return out
}

func runMiniGo(c *core.Ctx, st *checkState, r *runner, rng *rand.Rand) {
	var progs []*minigo.Program
	n := c.Pick(120, 2400)
	for i := 0; i < n; i++ {
		progs = append(progs, minigo.Random(rng))
	}
	if c.Thorough() {
		progs = append(progs, minigo.SwitchFamily()...)
		progs = append(progs, minigo.LoopFamily()...)
	}
	for _, p := range progs {
		p.Normalise()
	}
	const per = 40
	nb := (len(progs) + per - 1) / per
	vectors := make([][][]bool, len(progs))
	for i := range progs {
		for k := 0; k < 3; k++ {
			v := make([]bool, 4)
			for j := range v {
				v[j] = rng.Intn(2) == 1
			}
			vectors[i] = append(vectors[i], v)
		}
	}
	evals := make([]int, nb)
	skipped := make([]int, nb)
	c.ParMap(nb, func(bi int) {
		lo, hi := bi*per, (bi+1)*per
		if hi > len(progs) {
			hi = len(progs)
		}
		var b strings.Builder
		b.WriteString("package main\n\n")
		for k := lo; k < hi; k++ {
			b.WriteString(minigo.RenderFuncs(progs[k], k))
		}
		b.WriteString("func main() {\n")
		for k := lo; k < hi; k++ {
			for vi, v := range vectors[k] {
				var bits []string
				for _, x := range v {
					bits = append(bits, fmt.Sprint(x))
				}
				fmt.Fprintf(&b, "\tprintln(\"#\", %d, %d)\n\tinp, ip = []bool{%s}, 0\n\tcall(%d, p%d_f0)\n", k, vi, strings.Join(bits, ", "), k, k)
			}
		}
		b.WriteString("\tprintln(\"END\")\n}\n")
		prog := gjs.Prog{Files: map[string]string{"main.go": b.String(), "helpers.go": miniHelpers}}
		dir, err := prog.Materialise(c.Scratch)
		if err != nil {
			c.Infra(err)
			return
		}
		defer os.RemoveAll(dir)
		r.mu.Lock()
		r.nprg++
		r.mu.Unlock()
		out, outAll := filepath.Join(dir, "out.js"), filepath.Join(dir, "out_all.js")
		if _, err := r.lp.Link(linkJob{Dir: dir, Out: out, OutAll: outAll}); err != nil {
			if _, ok := err.(*gjs.BuildError); ok {
				// C01 decides whether the compiler must accept these programs
				skipped[bi] = hi - lo
				return
			}
			c.Infra(err)
			return
		}
		jsO := gjs.ClassifyNode(gjs.Node(out, 90*time.Second, "", nil))
		allO := gjs.ClassifyNode(gjs.Node(outAll, 90*time.Second, "", nil))
		if jsO.End == "timeout" && allO.End == "timeout" {
			skipped[bi] = hi - lo
			return
		}
		js, all := miniSections(jsO.Lines), miniSections(allO.Lines)
		var nat map[string][]string
		natDone := false
		native := func() map[string][]string {
			if !natDone {
				natDone = true
				bin := filepath.Join(dir, "native.bin")
				if nb := gjs.NativeBuild(dir, bin); nb.ExitCode == 0 && nb.Err == nil {
					nat = miniSections(gjs.ClassifyNative(gjs.NativeRun(bin, 90*time.Second, nil)).Lines)
				}
			}
			return nat
		}
		for k := lo; k < hi; k++ {
			for vi := range vectors[k] {
				h := fmt.Sprintf("# %d %d", k, vi)
				evals[bi] += 2
				if strings.Join(js[h], "\n") == strings.Join(all[h], "\n") && jsO.End == allO.End {
					continue
				}
				nt := native()
				if nt == nil || strings.Join(nt[h], "\n") != strings.Join(all[h], "\n") {
					st.mu.Lock()
					st.discards++
					st.mu.Unlock()
					continue
				}
				one := "package main\n\n" + minigo.RenderFuncs(progs[k], k) + fmt.Sprintf("func main() {\n\tinp, ip = []bool{%v, %v, %v, %v}, 0\n\tcall(%d, p%d_f0)\n}\n", vectors[k][vi][0], vectors[k][vi][1], vectors[k][vi][2], vectors[k][vi][3], k, k)
				files := gjs.Prog{Files: map[string]string{"main.go": one, "helpers.go": miniHelpers}}.ReplayFiles("prog")
				files["predicted.txt"] = strings.Join(all[h], "\n") + "\nend=exit\n"
				files["observed_dce.txt"] = strings.Join(js[h], "\n") + "\n"
				st.mu.Lock()
				st.behaviour[fmt.Sprintf("minigo/%d", k)] = true
				st.mu.Unlock()
				c.Report(core.Case{Keys: nil, Files: files,
					Summary: fmt.Sprintf("MiniGo program %d input %v: the normal link prints %v, the all-alive link of the same archives (and native Go) %v", k, vectors[k][vi], clip(js[h]), clip(all[h]))})
			}
		}
	})
	ne, ns := 0, 0
	for i := range evals {
		ne += evals[i]
		ns += skipped[i]
	}
	st.mu.Lock()
	st.evals += ne
	st.mu.Unlock()
	c.Set("minigo_programs", len(progs)-ns)
	c.Set("minigo_program_input_pairs", ne/2)
	if ns > 0 {
		c.Set("minigo_programs_skipped", ns)
	}
}

func clip(s []string) []string {
	if len(s) > 12 {
		return append(append([]string{}, s[:12]...), "...")
	}
	return s
}
