package c05

import (
	"fmt"
	"strings"
)

// dceInfo is the parsed form of dce.Info.String():
//
//	[alive] [unnamed] <objectFilter> & <methodFilter> -> [dep, dep, ...]
//
// Filters contain spaces, commas and brackets (signatures, type argument
// lists, struct and interface literals), so the string is split only at
// bracket depth 0.
type dceInfo struct {
	Alive   bool
	Unnamed bool
	Of, Mf  string
	Deps    []string
}

// indexDepth0 finds sep in s outside of (), [] and {}.
func indexDepth0(s, sep string) int {
	depth := 0
	for i := 0; i < len(s); i++ {
		if depth == 0 && strings.HasPrefix(s[i:], sep) {
			return i
		}
		switch s[i] {
		case '(', '[', '{':
			depth++
		case ')', ']', '}':
			depth--
		}
	}
	return -1
}

func splitDepth0(s, sep string) []string {
	var out []string
	for {
		i := indexDepth0(s, sep)
		if i < 0 {
			return append(out, s)
		}
		out = append(out, s[:i])
		s = s[i+len(sep):]
	}
}

func parseDce(s string) (dceInfo, error) {
	var d dceInfo
	orig := s
	if strings.HasPrefix(s, "[alive] ") {
		d.Alive = true
		s = s[len("[alive] "):]
	}
	if strings.HasPrefix(s, "[unnamed] ") {
		d.Unnamed = true
		s = s[len("[unnamed] "):]
	}
	i := indexDepth0(s, "-> [")
	if i < 0 || !strings.HasSuffix(s, "]") {
		return d, fmt.Errorf("unexpected dce.Info format: %q", orig)
	}
	names, deps := s[:i], s[i+len("-> ["):len(s)-1]
	if names != "" {
		parts := splitDepth0(names, " & ")
		switch len(parts) {
		case 1:
			d.Of = strings.TrimSuffix(parts[0], " ")
		case 2:
			d.Of = parts[0]
			d.Mf = strings.TrimSuffix(parts[1], " ")
		default:
			return d, fmt.Errorf("unexpected names in dce.Info: %q", orig)
		}
	}
	if d.Unnamed != (d.Of == "" && d.Mf == "") {
		return d, fmt.Errorf("inconsistent dce.Info: %q", orig)
	}
	if deps != "" {
		d.Deps = splitDepth0(deps, ", ")
	}
	return d, nil
}
