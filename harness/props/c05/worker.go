package c05

import (
	"bufio"
	"bytes"
	"encoding/json"
	"fmt"
	"io"
	"os"
	"os/exec"
	"strings"

	gbuild "github.com/gopherjs/gopherjs/build"
	"github.com/gopherjs/gopherjs/compiler"
	"github.com/gopherjs/gopherjs/compiler/linkname"

	"verif/gjs"
)

// The compiler resolves module-mode imports relative to the process working
// directory, so programs are compiled in a child process (the harness binary
// re-executed as `vcheck __c05worker`) that changes into the program's module
// directory.  One job compiles the program ONCE and links the same archives
// twice: normally (the real WriteProgramCode with the real selector) and with
// dead-code elimination defeated (every Decl.Dce().SetAsAlive() first).  On
// request it also reports the real per-declaration DCE data (Dce().String()),
// which declarations the real selector keeps (compiler.VerifAliveDecls) and
// whether the emitted file contains exactly the kept function bodies.

const workerArg = "__c05worker"

type linkJob struct {
	Dir    string `json:"dir"`
	Out    string `json:"out"`     // normal link
	OutAll string `json:"out_all"` // all-alive link
	Dump   bool   `json:"dump"`
	Minify bool   `json:"minify"`
}

// declDump is one compiler.Decl as the public API shows it.
type declDump struct {
	Pkg      string `json:"pkg"`
	FullName string `json:"name"`
	Dce      string `json:"dce"`  // Dce().String()
	Link     bool   `json:"link"` // gls.IsImplementation(d.LinkingName)
	Selected bool   `json:"sel"`  // kept by the real selector (VerifAliveDecls)
	HasFunc  bool   `json:"fn"`   // has FuncDeclCode
	Emitted  bool   `json:"emit"` // FuncDeclCode occurs in the normally linked file
}

type linkResult struct {
	Err   string     `json:"err,omitempty"`
	Panic bool       `json:"panic,omitempty"`
	Decls []declDump `json:"decls,omitempty"`
	Stage string     `json:"stage,omitempty"` // of a failure: compile | link
}

func maybeWorker() {
	if len(os.Args) < 2 || os.Args[1] != workerArg {
		return
	}
	gjs.Init()
	in := bufio.NewReaderSize(os.Stdin, 1<<20)
	out := bufio.NewWriter(os.Stdout)
	enc := json.NewEncoder(out)
	for {
		line, err := in.ReadBytes('\n')
		if len(line) > 1 {
			var j linkJob
			var res linkResult
			if e := json.Unmarshal(line, &j); e != nil {
				res.Err = "bad job: " + e.Error()
			} else {
				res = doLink(j)
			}
			enc.Encode(res)
			out.Flush()
		}
		if err != nil {
			os.Exit(0)
		}
	}
}

func doLink(j linkJob) (res linkResult) {
	// stage: "compile" until the archives exist (parsing, type checking, analysis,
	// translation: dead-code elimination has not run yet), "link" afterwards
	stage := "compile"
	defer func() {
		if r := recover(); r != nil {
			res = linkResult{Err: fmt.Sprintf("compiler panic: %v", r), Panic: true}
		}
		if res.Err != "" {
			res.Stage = stage
		}
	}()
	if e := os.Chdir(j.Dir); e != nil {
		return linkResult{Err: "infra: " + e.Error()}
	}
	s, e := gbuild.NewSession(&gbuild.Options{NoCache: true, Minify: j.Minify, Quiet: true})
	if e != nil {
		return linkResult{Err: e.Error()}
	}
	pkg, e := s.XContext().Import(".", j.Dir, 0)
	if e != nil {
		return linkResult{Err: e.Error()}
	}
	archive, e := s.BuildProject(pkg)
	if e != nil {
		return linkResult{Err: e.Error()}
	}
	deps, e := compiler.ImportDependencies(archive, s.ImportResolverFor(""))
	if e != nil {
		return linkResult{Err: e.Error()}
	}
	// 1. the normal link
	stage = "link"
	var buf bytes.Buffer
	if e := compiler.WriteProgramCode(deps, compiler.DefaultFilter(&buf), s.GoRelease()); e != nil {
		return linkResult{Err: e.Error()}
	}
	if e := os.WriteFile(j.Out, buf.Bytes(), 0o644); e != nil {
		return linkResult{Err: "infra: " + e.Error()}
	}
	// 2. the real DCE data
	if j.Dump {
		gls := linkname.GoLinknameSet{}
		for _, a := range deps {
			gls.Add(a.GoLinknames)
		}
		alive := compiler.VerifAliveDecls(deps)
		js := buf.Bytes()
		for _, a := range deps {
			sel := map[*compiler.Decl]bool{}
			for _, d := range alive[a.ImportPath] {
				sel[d] = true
			}
			user := a.ImportPath == "." || strings.HasPrefix(a.ImportPath, "vp/")
			for _, d := range a.Declarations {
				dd := declDump{Pkg: a.ImportPath, FullName: d.FullName, Dce: d.Dce().String(),
					Link: gls.IsImplementation(d.LinkingName), Selected: sel[d]}
				if user && !j.Minify && len(bytes.TrimSpace(d.FuncDeclCode)) > 0 {
					dd.HasFunc = true
					dd.Emitted = bytes.Contains(js, d.FuncDeclCode)
				}
				res.Decls = append(res.Decls, dd)
			}
		}
	}
	// 3. the same archives with dead-code elimination defeated
	if j.OutAll != "" {
		for _, a := range deps {
			for _, d := range a.Declarations {
				d.Dce().SetAsAlive()
			}
		}
		buf.Reset()
		if e := compiler.WriteProgramCode(deps, compiler.DefaultFilter(&buf), s.GoRelease()); e != nil {
			return linkResult{Err: e.Error()}
		}
		if e := os.WriteFile(j.OutAll, buf.Bytes(), 0o644); e != nil {
			return linkResult{Err: "infra: " + e.Error()}
		}
	}
	return res
}

type lworker struct {
	cmd *exec.Cmd
	in  io.WriteCloser
	out *bufio.Reader
}

// linkPool is a set of link workers.
type linkPool struct {
	free chan *lworker
	n    int
}

func newLinkPool(n int) *linkPool {
	p := &linkPool{free: make(chan *lworker, n), n: n}
	for i := 0; i < n; i++ {
		p.free <- nil
	}
	return p
}

func startLWorker() (*lworker, error) {
	exe, err := os.Executable()
	if err != nil {
		return nil, err
	}
	cmd := exec.Command(exe, workerArg)
	cmd.Stderr = io.Discard
	in, err := cmd.StdinPipe()
	if err != nil {
		return nil, err
	}
	out, err := cmd.StdoutPipe()
	if err != nil {
		return nil, err
	}
	if err := cmd.Start(); err != nil {
		return nil, err
	}
	return &lworker{cmd: cmd, in: in, out: bufio.NewReaderSize(out, 1<<22)}, nil
}

// Link runs one job. A *gjs.BuildError is a verdict of the compiler; any other
// error is infrastructure.
func (p *linkPool) Link(j linkJob) (linkResult, error) {
	w := <-p.free
	var err error
	if w == nil {
		w, err = startLWorker()
		if err != nil {
			p.free <- nil
			return linkResult{}, fmt.Errorf("start link worker: %w", err)
		}
	}
	b, _ := json.Marshal(j)
	if _, err = w.in.Write(append(b, '\n')); err == nil {
		var line []byte
		line, err = w.out.ReadBytes('\n')
		if err == nil {
			var r linkResult
			if e := json.Unmarshal(line, &r); e != nil {
				err = e
			} else {
				p.free <- w
				if strings.HasPrefix(r.Err, "infra: ") {
					return r, fmt.Errorf("%s", r.Err)
				}
				if r.Err != "" {
					return r, &gjs.BuildError{Err: fmt.Errorf("%s", r.Err), Panic: r.Panic}
				}
				return r, nil
			}
		}
	}
	w.cmd.Process.Kill()
	w.cmd.Wait()
	p.free <- nil
	return linkResult{}, &gjs.BuildError{Err: fmt.Errorf("compiler process died: %v", err), Panic: true}
}

func (p *linkPool) Close() {
	for i := 0; i < p.n; i++ {
		w := <-p.free
		if w != nil {
			w.in.Close()
			w.cmd.Wait()
		}
	}
}
