package c05

import (
	"fmt"
	"os"
	"path/filepath"
	"sort"
	"strings"
	"sync"
	"time"

	"verif/core"
	"verif/gjs"
)

// unit is one scenario rendered as one or more packages of a program; its
// printed lines start with its tag.
type unit struct {
	tag     string            // package name = line tag
	kind    string            // topo | var | link
	key     string            // scenario key (classifiers, replay names)
	files   map[string]string // path relative to the module root -> content
	imports []string          // import paths main needs
	call    string            // expression of type func() that runs the scenario
	want    []string          // predicted lines (tag removed)
	wantEnd string            // exit | panic
	topo    *topoScen
	vs      *varScen
	link    *linkScen
}

// obsU is what one build showed for one unit.
type obsU struct {
	lines []string
	end   string // exit | panic(recovered or at init) | jserror | ...
	msg   string
}

func (o obsU) String() string {
	return fmt.Sprintf("%v end=%s %s", o.lines, o.end, o.msg)
}

func (o obsU) matches(want []string, wantEnd string) bool {
	if o.end != wantEnd || len(o.lines) != len(want) {
		return false
	}
	for i := range want {
		if o.lines[i] != want[i] {
			return false
		}
	}
	return true
}

func sameObs(a, b obsU) bool { return a.matches(b.lines, b.end) }

const mainHead = `
func call(id string, f func()) {
	defer func() {
		if r := recover(); r != nil {
			println(id, "PANIC")
		}
	}()
	f()
}
`

// program assembles the units into one module.
func program(units []*unit) gjs.Prog {
	files := map[string]string{}
	var imps []string
	seen := map[string]bool{}
	for _, u := range units {
		for n, c := range u.files {
			files[n] = c
		}
		for _, i := range u.imports {
			if !seen[i] {
				seen[i] = true
				imps = append(imps, i)
			}
		}
	}
	sort.Strings(imps)
	var b strings.Builder
	b.WriteString("package main\n")
	if len(imps) > 0 {
		b.WriteString("\nimport (\n")
		for _, i := range imps {
			fmt.Fprintf(&b, "\t%q\n", i)
		}
		b.WriteString(")\n")
	}
	b.WriteString(mainHead)
	b.WriteString("\nfunc main() {\n")
	for _, u := range units {
		fmt.Fprintf(&b, "\tcall(%q, %s)\n", u.tag, u.call)
	}
	b.WriteString("\tprintln(\"END\")\n}\n")
	files["main.go"] = b.String()
	return gjs.Prog{Files: files}
}

// split assigns the lines of a whole-program observation to the units.
// complete reports whether the program ran to its END line.
func split(o gjs.Obs, units []*unit) (per map[string]obsU, complete bool, stray []string) {
	per = map[string]obsU{}
	tags := map[string]bool{}
	for _, u := range units {
		tags[u.tag] = true
		per[u.tag] = obsU{end: "exit"}
	}
	for _, l := range o.Lines {
		if l == "END" {
			complete = true
			continue
		}
		i := strings.IndexByte(l, ' ')
		if i < 0 || !tags[l[:i]] {
			stray = append(stray, l)
			continue
		}
		ou := per[l[:i]]
		if l[i+1:] == "PANIC" {
			ou.end = "panic"
		} else {
			ou.lines = append(ou.lines, l[i+1:])
		}
		per[l[:i]] = ou
	}
	complete = complete && o.End == "exit"
	return per, complete, stray
}

// triple holds the three observations of one unit.
type triple struct {
	u             *unit
	js, all, nat  obsU
	dump          []declDump // the real DCE data of the program the unit was in (nil if not requested)
	progUnits     int
	jsRaw, allRaw string
}

// runner builds and runs programs.
type runner struct {
	c    *core.Ctx
	lp   *linkPool
	mu   sync.Mutex
	nprg int
}

// runUnits builds one program from the units (one compilation, two links, one
// native build), runs the three executables and returns per-unit observations.
// When the program as a whole does not complete in any of the three (a crash at
// load or initialisation time takes all units down) it is split in halves.
func (r *runner) runUnits(units []*unit, dump bool) []triple {
	prog := program(units)
	dir, err := prog.Materialise(r.c.Scratch)
	if err != nil {
		r.c.Infra(err)
		return nil
	}
	defer os.RemoveAll(dir)
	r.mu.Lock()
	r.nprg++
	r.mu.Unlock()
	out, outAll := filepath.Join(dir, "out.js"), filepath.Join(dir, "out_all.js")
	res, err := r.lp.Link(linkJob{Dir: dir, Out: out, OutAll: outAll, Dump: dump})
	if err != nil {
		if be, ok := err.(*gjs.BuildError); ok {
			if len(units) > 1 {
				// the error text usually names the package of the scenario the compiler fails
				// on: run those scenarios alone and the others together (bisection otherwise)
				var named, others []*unit
				for _, u := range units {
					if strings.Contains(be.Error(), u.tag+".") || strings.Contains(be.Error(), "/"+u.tag+"/") || strings.Contains(be.Error(), "vp/"+u.tag) {
						named = append(named, u)
					} else {
						others = append(others, u)
					}
				}
				if len(named) > 0 && len(named) <= 4 && len(others) > 0 {
					var out []triple
					for _, u := range named {
						out = append(out, r.runUnits([]*unit{u}, dump)...)
					}
					return append(out, r.runUnits(others, dump)...)
				}
				return r.bisect(units, dump)
			}
			// a single scenario the compiler rejects: decided by the guard below
			bin := filepath.Join(dir, "native.bin")
			nb := gjs.NativeBuild(dir, bin)
			if nb.ExitCode != 0 || nb.Err != nil {
				r.c.Add("spec_guard_discards", 1)
				return nil
			}
			if res.Stage == "compile" {
				// The compiler fails before any declaration is selected or dropped: dead-code
				// elimination is not involved, C05 says nothing about this program (compiler
				// failures on valid programs are decided by C01 / C04).
				r.c.Add("programs_rejected_before_linking_not_judged", 1)
				return nil
			}
			keys := []string{"compiler_rejects_valid_program"}
			if be.Panic {
				keys = []string{"compiler_panic"}
			}
			r.c.Report(core.Case{Keys: keys, Summary: fmt.Sprintf("%s: the compiler fails on a program the reference toolchain accepts: %s", units[0].key, tailStr(be.Error(), 500)), Files: prog.ReplayFiles("prog")})
			return nil
		}
		r.c.Infra(err)
		return nil
	}
	timeout := 2 * time.Minute
	var wg sync.WaitGroup
	var jsO, allO, natO gjs.Obs
	natErr := ""
	wg.Add(3)
	go func() { defer wg.Done(); jsO = gjs.ClassifyNode(gjs.Node(out, timeout, "", nil)) }()
	go func() { defer wg.Done(); allO = gjs.ClassifyNode(gjs.Node(outAll, timeout, "", nil)) }()
	go func() {
		defer wg.Done()
		bin := filepath.Join(dir, "native.bin")
		nb := gjs.NativeBuild(dir, bin)
		if nb.ExitCode != 0 || nb.Err != nil || nb.TimedOut {
			// the Go build cache is occasionally wiped by a concurrent process: retry once
			nb = gjs.NativeBuild(dir, bin)
		}
		if nb.ExitCode != 0 || nb.Err != nil || nb.TimedOut {
			natErr = nb.Out
			if natErr == "" {
				natErr = fmt.Sprint("native build failed: ", nb.Err)
			}
			return
		}
		natO = gjs.ClassifyNative(gjs.NativeRun(bin, timeout, nil))
	}()
	wg.Wait()
	if natErr != "" {
		if len(units) > 1 {
			return r.bisect(units, dump)
		}
		// the reference toolchain rejects the scenario: the specification produced
		// an illegal program
		r.c.Add("spec_guard_discards", 1)
		if os.Getenv("VERIF_VERBOSE") != "" {
			fmt.Fprintf(os.Stderr, "[C05] guard rejects %s: %s\n", units[0].key, tailStr(natErr, 600))
		}
		return nil
	}
	if jsO.End == "timeout" || allO.End == "timeout" || natO.End == "timeout" {
		r.c.Infra(fmt.Errorf("a scenario program timed out (%s)", units[0].key))
		return nil
	}
	jsP, jsC, _ := split(jsO, units)
	allP, allC, _ := split(allO, units)
	natP, natC, _ := split(natO, units)
	if len(units) > 1 && !(jsC && allC && natC) {
		return r.bisect(units, dump)
	}
	var out3 []triple
	for _, u := range units {
		t := triple{u: u, js: jsP[u.tag], all: allP[u.tag], nat: natP[u.tag], dump: res.Decls, progUnits: len(units), jsRaw: tailStr(jsO.Raw, 1500), allRaw: tailStr(allO.Raw, 1500)}
		if len(units) == 1 {
			// a single unit owns the way its program ended
			own := func(o gjs.Obs, complete bool, p obsU) obsU {
				if !complete {
					p.end, p.msg = o.End, o.Msg
					if o.End == "exit" {
						p.end = "fail" // exited without reaching END
					}
				}
				return p
			}
			t.js, t.all, t.nat = own(jsO, jsC, t.js), own(allO, allC, t.all), own(natO, natC, t.nat)
		}
		out3 = append(out3, t)
	}
	return out3
}

func (r *runner) bisect(units []*unit, dump bool) []triple {
	h := len(units) / 2
	var a, b []triple
	var wg sync.WaitGroup
	wg.Add(2)
	go func() { defer wg.Done(); a = r.runUnits(units[:h], dump) }()
	go func() { defer wg.Done(); b = r.runUnits(units[h:], dump) }()
	wg.Wait()
	return append(a, b...)
}

func tailStr(s string, n int) string {
	if len(s) > n {
		return s[len(s)-n:]
	}
	return s
}

// replayFiles: the scenario alone, in the layout ./check C05 --replay understands.
func replayFiles(u *unit) map[string]string {
	files := program([]*unit{u}).ReplayFiles("prog")
	pred := ""
	for _, l := range u.want {
		pred += u.tag + " " + l + "\n"
	}
	if u.wantEnd == "exit" {
		pred += "END\n"
	}
	pred += "end=" + u.wantEnd + "\n"
	files["predicted.txt"] = pred
	files["scenario.txt"] = u.key + "\n"
	return files
}
