// Package c17 decides C17 (see DESIGN.md section 4). Not built yet.
package c17
