// Package c17 decides C17 (builds are reproducible).
//
// spec/Build.tla (on top of spec/Instances.tla) is an implementation-shaped
// model of every container of the build pipeline whose iteration order reaches
// the emitted JavaScript: listed file order and Sources.Sort, the session's map
// of sources and GetSortedSources, the sources and archives a session keeps
// from commands built earlier, Collector.Scan/Finish (a range over a Go map),
// the instance ids, the import list, the escaping-variable map.  TLC checks
// "Output is a function of (sources, options)" on an exhaustive family of small
// programs for the code as it is (expected to fail: the order-sensitive paths
// are emitted as witness shapes), for the repaired variant (must hold) and for
// variants with one sort removed (model mutants).
//
// This package binds the model to the real compiler: every witness shape and a
// seeded family of larger programs (generic skeleton chosen by TLC from
// VERIF_SEED digit strings, decorated with closures, anonymous types, method
// expressions, several files ...) is built many times in FRESH compiler
// processes x listed file permutations x minify on/off x earlier commands in
// the same session.  sha256 of out.js and out.js.map must be one value per
// (program, options); the real instance orders must be final orders of the
// model; differences are classified through the model's prediction.
package c17

import (
	"context"
	"crypto/sha256"
	"encoding/hex"
	"encoding/json"
	"errors"
	"fmt"
	"math/rand"
	"os"
	"os/exec"
	"path/filepath"
	"sort"
	"strings"
	"sync"
	"sync/atomic"
	"time"

	"verif/core"
	"verif/gjs"
	"verif/props/c04"
	"verif/reg"
	"verif/tlcx"
)

func init() { reg.Register("C17", "exploration", Run) }

// classifier keys
const (
	keyF6           = "instance_ids_depend_on_package_map_order"
	keySession      = "earlier_command_in_session_shares_generic_package"
	keySameIDs      = "output_differs_with_equal_instance_ids"
	keyListing      = "listed_file_order_changes_output"
	keyUnrelated    = "unrelated_earlier_command_changes_output"
	keyIDsUnpred    = "instance_ids_vary_where_the_model_is_deterministic"
	keySessUnpred   = "earlier_command_changes_output_unpredicted_by_model"
	keyOutcomeVaries = "build_outcome_varies"
)

var allNd = Nondet{Files: true, Discovery: true, Esc: true, Session: true}

type modelExpect struct {
	run      ModelRun
	violated string // "" = must complete; else the invariant that must be reported violated
	out      *ModelOut
	err      error
}

// Run is the C17 check.
func Run(c *core.Ctx, pool *gjs.Pool) {
	if rd := os.Getenv("VERIF_REPLAY"); rd != "" {
		replay(c, rd)
		return
	}
	c.Assumef("reproducibility is decided by run-to-run equality of sha256(out.js) and sha256(out.js.map) of builds made by the compiler of the working tree in fresh processes; Go re-draws the map iteration order per process and per range statement, so repeated builds SAMPLE the nondeterminism that Build.tla enumerates (detection is probabilistic, see coverage.detection)")
	c.Assumef("programs are rendered from the shapes of Build.tla / Instances.tla (generic functions and struct types with a method in packages a, b, c; roots in non-generic code; one or two files per package) and decorated with seeded non-generic code; the build cache is off; the output path has the same base name in every build")
	c.Assumef("scenario packages are resolved in GOPATH mode (GO111MODULE=off, $GOPATH/src/vp): in module mode go/build runs `go list` for every import of every build, three to four times the cost of the compilation; one scenario per run is also built in module mode and must yield the same JavaScript (coverage.module_mode_crosscheck)")
	c.Assumef("the earlier command of a session is modelled with its own nondeterminism resolved canonically; `gopherjs install e m` is reproduced by BuildProject+WriteCommandPackage of e, then of m, in one build.Session")
	rng := rand.New(rand.NewSource(c.Seed))
	thorough := c.Thorough()

	// ------------------------------------------------------------------
	// 1. the model, checked by TLC
	nFam := 2 // declarations of the families that are explored with every kind of input nondeterminism
	code := CodeSwitches()
	repaired := code
	repaired.Isolated = true
	long := time.Duration(c.Pick(8, 25)) * time.Minute
	exp := []*modelExpect{
		// the code as it is, Collector.Finish ranges over a map: enumerate the order-sensitive shapes
		{run: ModelRun{Name: "finish", Family: "pass", Bnd: PassBounds(3, "m", "a"), Sorted: false, Sw: code,
			Invs: []string{"BSound", "BConfluent", "BSeenOK", "BEmit"}, Workers: 2, Timeout: long}},
		// the code as it is, another command was built earlier in the session
		{run: ModelRun{Name: "session", Family: "pass", Bnd: PassBounds(nFam, "m", "a"), Sorted: true, Sw: code, Nd: Nondet{Session: true},
			Invs: []string{"BSeenOK", "BEmit"}, Workers: 2, Timeout: long}},
		// the repaired variant under every kind of nondeterminism: Output is a function of the sources
		{run: ModelRun{Name: "repaired", Family: "pass", Bnd: PassBounds(nFam, "m", "a"), Sorted: true, Sw: repaired, Nd: allNd,
			Invs: []string{"Reproducible", "NoDangling", "BSound", "BConfluent", "BSeenOK"}, Workers: 2, Timeout: long}},
		// the same sort removed from the list of imports only: still a function (source order of sorted files)
		{run: ModelRun{Name: "mutant_sortImports", Family: "pass", Bnd: PassBounds(nFam, "m", "a"), Sorted: true, Sw: without(repaired, "sortImports"), Nd: allNd,
			Invs: []string{"Reproducible", "NoDangling"}, Workers: 2, Timeout: long}},
	}
	// one repair / sort removed from the repaired variant (model mutants): the property must fail.
	// One declaration suffices for these paths (two roots on one generic function).
	for _, m := range []string{"sortFiles", "sortPkgs", "sortEsc", "sortImports+sortFiles", "isolated"} {
		sw := repaired
		for _, part := range strings.Split(m, "+") {
			sw = without(sw, part)
		}
		exp = append(exp, &modelExpect{violated: "Reproducible", run: ModelRun{Name: "mutant_" + m, Family: "pass", Bnd: PassBounds(1, "m", "a"),
			Sorted: true, Sw: sw, Nd: allNd, Invs: []string{"BEmit", "Reproducible"}, Workers: 2, Timeout: long}})
	}
	// the unsorted range of Collector.Finish on the shape of defect F6 (three packages are needed)
	exp = append(exp, &modelExpect{violated: "Reproducible", run: ModelRun{Name: "mutant_sortedFinish", Family: "gen", Bnd: ScriptBounds(), Given: []Program{c04.F6Witness()},
		Sorted: false, Sw: repaired, Nd: allNd, Invs: []string{"Reproducible"}, Workers: 2, Timeout: long}})
	if thorough {
		// thorough: the repaired variant on the three-declaration family (without the permutations of the
		// discovery order, which only matter for roots in two packages and are covered above), and the
		// family of the generator of Instances.tla (functions and struct types with a method, field uses)
		exp = append(exp, &modelExpect{run: ModelRun{Name: "repaired_3", Family: "pass", Bnd: PassBounds(3, "m"), Sorted: true, Sw: repaired, Nd: Nondet{Files: true, Esc: true, Session: true},
			Invs: []string{"Reproducible", "NoDangling", "BSeenOK"}, Workers: 2, Timeout: long}})
		exp = append(exp, &modelExpect{run: ModelRun{Name: "finish_gen", Family: "gen", Bnd: GenBounds(2), Sorted: false, Sw: code,
			Invs: []string{"BSound", "BConfluent", "BSeenOK", "BEmit"}, Workers: 2, Timeout: long}})
	}
	runModels(c, exp, 1)
	if c.InfraErr != nil {
		return
	}
	table := map[string]string{}
	mstates := map[string]int{}
	for _, e := range exp {
		mstates[e.run.Name] = e.out.Res.Distinct
		got := "holds"
		if e.out.Res.Violated != "" {
			got = "violated:" + e.out.Res.Violated
		}
		table[e.run.Name] = got
		want := "holds"
		if e.violated != "" {
			want = "violated:" + e.violated
		}
		if got != want || (e.violated == "" && !e.out.Res.Completed) {
			c.Infra(fmt.Errorf("Build.tla (%s): expected %s, TLC says %s (completed=%v timeout=%v)\n%s", e.run.Name, want, got, e.out.Res.Completed, e.out.Res.TimedOut, tlcx.Tail(e.out.Res.Output, 40)))
			return
		}
	}
	c.Set("model_configurations", table)
	c.Set("model_states", mstates)
	c.Phase("tlc_model")

	// witnesses
	finish, session := exp[0].out, exp[1].out
	witF6 := SelectWitnesses(finish.Wits, c.Pick(5, 14), "witness:finish", func(w *Wit) bool { return len(w.Early) == 0 })
	if thorough {
		witF6 = append(witF6, SelectWitnesses(exp[len(exp)-1].out.Wits, 10, "witness:finish_gen", func(w *Wit) bool { return supported(Program{Decls: w.Decls}) })...)
	}
	witDang := SelectWitnesses(session.Wits, c.Pick(2, 6), "witness:session_dangling", func(w *Wit) bool { return w.Dangling })
	witShift := SelectWitnesses(session.Wits, c.Pick(2, 6), "witness:session_ids_shift", func(w *Wit) bool { return !w.Dangling })
	c.Set("model_witness_lines_finish", len(finish.Wits))
	c.Set("model_witness_programs_finish", countPrograms(finish.Wits))
	c.Set("model_witness_lines_session", len(session.Wits))
	c.Set("model_witness_programs_session_dangling", countWits(session.Wits, true))
	c.Set("model_witness_programs_session_ids_shift", countWits(session.Wits, false))
	if len(witF6) == 0 || len(witDang) == 0 {
		c.Infra(fmt.Errorf("Build.tla emitted no witness of the order-sensitive paths of the pinned tree (finish %d, session %d lines)", len(finish.Wits), len(session.Wits)))
		return
	}
	f6 := c04.F6Witness()
	scen := []*Scenario{{Prog: f6, RFile: []int{1, 1}, Origin: "witness:F6"}}
	scen = append(scen, witF6...)
	scen = append(scen, witDang...)
	scen = append(scen, witShift...)
	// sentinels: the shapes on which the model needs one of the sorts of the code (the first state
	// that violates Reproducible once the sort is removed).  The pinned tree must be reproducible on
	// them; a change that loses the sort shows on exactly these shapes.
	nSent := 0
	for _, e := range exp {
		if !strings.HasPrefix(e.run.Name, "mutant_sort") || e.violated == "" || e.run.Name == "mutant_sortedFinish" {
			continue
		}
		for _, s := range SelectWitnesses(e.out.Wits, 1, "witness:sentinel:"+strings.TrimPrefix(e.run.Name, "mutant_"), nil) {
			s.Early = nil // (the sentinels concern the sorts, not the session)
			scen = append(scen, s)
			nSent++
		}
	}
	c.Set("sentinel_scenarios", nSent)

	// ------------------------------------------------------------------
	// 2. seeded skeletons: TLC builds the programs from VERIF_SEED digit strings
	nSeed := c.Pick(12, 110)
	codes := make([][]int, nSeed*3)
	for i := range codes {
		codes[i] = make([]int, 48)
		for j := range codes[i] {
			codes[i][j] = rng.Intn(100000)
		}
	}
	sm, err := RunModel(c, ModelRun{Name: "seeded", Family: "gen", Bnd: ScriptBounds(), Codes: codes, Sorted: true, Sw: code, EmitAll: true,
		Invs: []string{"BSound", "BConfluent", "BSeenOK", "BEmit"}, Workers: 2, Timeout: long})
	if err != nil || !tlcx.MustComplete(c, sm.Res, err, "Build.tla (seeded skeletons)") {
		if err != nil {
			c.Infra(err)
		}
		return
	}
	seenP := map[string]bool{}
	nSeeded := 0
	for _, f := range sm.Fins {
		p := Program{Decls: f.Decls, Roots: f.Roots}
		k := p.Key()
		if seenP[k] || !supported(p) || nSeeded >= nSeed {
			continue
		}
		seenP[k] = true
		nSeeded++
		s := &Scenario{Prog: p, Origin: "seeded", RFile: make([]int, len(p.Roots))}
		// layout: split the roots of a package over two files now and then
		first := map[string]bool{}
		for i, r := range p.Roots {
			s.RFile[i] = 1
			if first[r.Pkg] && rng.Intn(2) == 0 {
				s.RFile[i] = 2
			}
			first[r.Pkg] = true
		}
		// an earlier command that instantiates one of the declarations with another ground type
		var cands []int
		for i, d := range p.Decls {
			if d.Kind == "func" || d.Kind == "type" {
				cands = append(cands, i+1)
			}
		}
		j := cands[rng.Intn(len(cands))]
		var args []*Term
		for range p.Decls[j-1].Cons {
			args = append(args, &Term{Tag: "g", Name: "I16", Subs: []*Term{}})
		}
		s.Early = []Root{{Pkg: "e", Tgt: j, Args: args, Style: "i"}}
		scen = append(scen, s)
	}
	c.Set("seeded_codes", len(codes))
	c.Set("seeded_programs", nSeeded)
	for i, s := range scen {
		s.Deco = c.Seed*1000 + int64(i)
	}
	c.Phase("tlc_seeded")

	// ------------------------------------------------------------------
	// 3. the model's prediction for every scenario (keyed run, every final state)
	if !predict(c, scen, long) {
		return
	}
	c.Phase("tlc_predict")
	c.Set("checker_cmd", "tlc Build (SPECIFICATION BSpec): INVARIANTS BSound BConfluent BSeenOK BEmit on the exhaustive pass-through family with the unsorted range of Collector.Finish and with an earlier command in the session (witness enumeration); INVARIANTS Reproducible NoDangling on the repaired variant under every input nondeterminism (must hold) and on the variants with one repair/sort removed (must fail, except sortImports alone); keyed run with every final state for the scenarios that are built")
	c.Set("exhaustive", true)

	// ------------------------------------------------------------------
	// 4. bind to the real compiler
	ck := &checker{c: c}
	c.Set("programs", len(scen))
	c.ParMap(len(scen), func(i int) { ck.check(scen[i], false) })
	c.Phase("bind")
	ck.finish()
	for i, s := range scen {
		if i%(len(scen)/4+1) == 0 {
			c.Sample(map[string]any{"scenario": s.Prog, "origin": s.Origin, "earlier_command": len(s.Early) > 0, "model_final_instance_orders": len(s.Orders)})
		}
	}
	c.Set("rule", "TLC enumerates every program of the pass-through family (<= 3 generic functions in packages a, b, c, each calling at most one other with its own type parameter; 1-2 roots in main or a) with every resolution of Collector.Finish's range, and the family with <= "+fmt.Sprint(nFam)+" declarations with every layout (<= 2 files), listed file order, discovery order, escaping-variable order and earlier command; the witness shapes it emits and VERIF_SEED-selected larger skeletons (decorated with seeded non-generic code) are rendered as Go modules; each is built coverage.builds_per_scenario times in fresh processes over {directory build, listed files in every permutation} x {minify off, on} x {no, unrelated, generic-sharing earlier command}; an evaluation = one build whose hashes were compared inside its (program, options) group; distinct = distinct (program, options, variant) combinations built at least twice; exhaustive refers to the model families, not to the sampled map orders of the real compiler")
}

func without(sw Switches, name string) Switches {
	switch name {
	case "sortFiles":
		sw.SortFiles = false
	case "sortPkgs":
		sw.SortPkgs = false
	case "sortEsc":
		sw.SortEsc = false
	case "sortImports":
		sw.SortImports = false
	case "isolated":
		sw.Isolated = false
	}
	return sw
}

func countPrograms(ws []Wit) int {
	m := map[string]bool{}
	for _, w := range ws {
		m[progKey(w.Decls, w.Roots)] = true
	}
	return len(m)
}

func countWits(ws []Wit, dangling bool) int {
	m := map[string]bool{}
	for _, w := range ws {
		if w.Dangling == dangling {
			b, _ := json.Marshal(w.Early)
			m[progKey(w.Decls, w.Roots)+string(b)] = true
		}
	}
	return len(m)
}

// runModels runs the configurations, par at a time.
func runModels(c *core.Ctx, exp []*modelExpect, par int) {
	sem := make(chan struct{}, par)
	var wg sync.WaitGroup
	for _, e := range exp {
		wg.Add(1)
		sem <- struct{}{}
		go func(e *modelExpect) {
			defer wg.Done()
			defer func() { <-sem }()
			e.out, e.err = RunModel(c, e.run)
		}(e)
	}
	wg.Wait()
	for _, e := range exp {
		if e.err != nil || e.out == nil || e.out.Res == nil {
			c.Infra(fmt.Errorf("Build.tla (%s): %v", e.run.Name, e.err))
			return
		}
		if e.out.Res.TimedOut || e.out.Res.Violated == "error" {
			c.Infra(fmt.Errorf("Build.tla (%s): TLC failed (timeout=%v)\n%s", e.run.Name, e.out.Res.TimedOut, tlcx.Tail(e.out.Res.Output, 40)))
			return
		}
	}
}

// predict runs the model on the scenarios (given mode) and records the final
// instance orders and what the earlier command does to the output.
func predict(c *core.Ctx, scen []*Scenario, timeout time.Duration) bool {
	var given []Program
	var lays []Layout
	for _, s := range scen {
		given = append(given, s.Prog)
		l := Layout{RFile: s.RFile, Earlies: [][]Root{{}}}
		if len(s.Early) > 0 {
			l.Earlies = append(l.Earlies, s.Early)
		}
		lays = append(lays, l)
	}
	b := ScriptBounds()
	// The prediction uses the collector of the CURRENT tree: since fix 391e85a Collector.Finish visits
	// the packages in sorted order (Sorted = TRUE), so a variation of the instance ids is no longer a
	// predicted difference and is reported as a violation. C17_SELFTEST=unsorted_model predicts with the
	// collector of the pinned tree (the former finding F6) instead.
	sorted := os.Getenv("C17_SELFTEST") != "unsorted_model"
	m, err := RunModel(c, ModelRun{Name: "predict", Family: "gen", Bnd: b, Given: given, Layouts: lays, Sorted: sorted, Sw: CodeSwitches(), EmitAll: true,
		Invs: []string{"BSeenOK", "BEmit"}, Workers: 2, Timeout: timeout})
	if err != nil || !tlcx.MustComplete(c, m.Res, err, "Build.tla (prediction for the scenarios)") {
		if err != nil {
			c.Infra(err)
		}
		return false
	}
	for _, s := range scen {
		s.Orders = map[string]bool{}
		s.EarlySame = true
	}
	for _, f := range m.Fins {
		if f.Cid < 1 || f.Cid > len(scen) {
			c.Infra(fmt.Errorf("Build.tla (predict): final state of unknown program %d", f.Cid))
			return false
		}
		s := scen[f.Cid-1]
		if len(f.Early) == 0 {
			s.Orders[normKey(ordersKey(s.Prog.Decls, f.Ord))] = true
		} else {
			if !f.Same {
				s.EarlySame = false
			}
			if f.Dangling {
				s.EarlyDang = true
			}
		}
	}
	for i, s := range scen {
		if len(s.Orders) == 0 {
			c.Infra(fmt.Errorf("Build.tla (predict): no final state for scenario %d (%s): the model rejects the program %s", i+1, s.Origin, s.Prog.Key()))
			return false
		}
	}
	return true
}

// ---------------------------------------------------------------------------
// binding

type build struct {
	Group   string `json:"group"`   // dir|files + minify
	Variant string `json:"variant"` // plain | unrelated | early | list:<files>
	JS      string `json:"js_sha256"`
	Map     string `json:"map_sha256"`
	Sets    string `json:"instance_orders"`
	Err     string `json:"err,omitempty"`
	out     string
	sets    map[string][]string
}

type checker struct {
	c  *core.Ctx
	mu sync.Mutex
	// counters
	builds, groups, ordersOK, ordersDrift, sessDrift, realVaries, guardDiscards, buildFailures int
	f6Builds, f6Minority                                                                     int
	driftSamples                                                                             []string
	perScenario                                                                              map[string]int
}

func sha(path string) string {
	b, err := os.ReadFile(path)
	if err != nil {
		return ""
	}
	h := sha256.Sum256(b)
	return hex.EncodeToString(h[:])
}

func perms(l []string) [][]string {
	if len(l) <= 1 {
		return [][]string{append([]string{}, l...)}
	}
	var out [][]string
	for i := range l {
		rest := append(append([]string{}, l[:i]...), l[i+1:]...)
		for _, p := range perms(rest) {
			out = append(out, append([]string{l[i]}, p...))
		}
	}
	return out
}

// plan lists the builds of one scenario: variant names per group.
func (ck *checker) plan(s *Scenario, r Rendered, replaying bool) map[string][]string {
	c := ck.c
	witness := strings.HasPrefix(s.Origin, "witness")
	nPlain := c.Pick(3, 5)
	if witness {
		nPlain = c.Pick(8, 20)
	}
	if strings.HasPrefix(s.Origin, "witness:sentinel") {
		nPlain = c.Pick(4, 8)
	}
	if replaying {
		nPlain = 40
		if v := os.Getenv("C17_REPLAY_N"); v != "" { // development aid
			fmt.Sscanf(v, "%d", &nPlain)
		}
	}
	var dir []string
	for i := 0; i < nPlain; i++ {
		dir = append(dir, "plain")
	}
	dir = append(dir, "unrelated")
	if r.Early != "" {
		dir = append(dir, "early", "early")
	}
	var files []string
	ps := perms(r.MainFiles)
	reps := 2
	if len(ps) > 1 {
		reps = c.Pick(1, 2)
	}
	if replaying {
		reps = 6
	}
	for i := 0; i < reps; i++ {
		for _, p := range ps {
			files = append(files, "list:"+strings.Join(p, ","))
		}
	}
	return map[string][]string{"dir": dir, "files": files}
}

func (ck *checker) check(s *Scenario, replaying bool) {
	c := ck.c
	if len(s.RFile) != len(s.Prog.Roots) {
		s.RFile = make([]int, len(s.Prog.Roots))
		for i := range s.RFile {
			s.RFile[i] = 1
		}
	}
	r := Render(s)
	gopath, dir, err := materialise(c.Scratch, r.Prog)
	if err != nil {
		c.Infra(err)
		return
	}
	defer os.RemoveAll(gopath)
	outRoot := gopath + "-out"
	defer os.RemoveAll(outRoot)
	// guard: the reference toolchain accepts the commands and builds them reproducibly
	if !ck.guard(s, gopath, dir, r) {
		return
	}
	plan := ck.plan(s, r, replaying)
	type jobT struct {
		b   *build
		job Job
	}
	var jobs []jobT
	n := 0
	for _, minify := range []bool{false, true} {
		for _, mode := range []string{"dir", "files"} {
			for _, v := range plan[mode] {
				n++
				b := &build{Group: fmt.Sprintf("%s minify=%v", mode, minify), Variant: v, out: filepath.Join(outRoot, fmt.Sprintf("b%03d", n), "out.js")}
				j := Job{Dir: dir, GoPath: gopath, Main: "vp", Out: b.out, Minify: minify, MapFile: true, Dump: true}
				switch {
				case v == "unrelated":
					j.Before = []string{r.Unrelated}
				case v == "early":
					j.Before = []string{r.Early}
				case strings.HasPrefix(v, "list:"):
					j.Files = strings.Split(strings.TrimPrefix(v, "list:"), ",")
				}
				jobs = append(jobs, jobT{b, j})
			}
		}
	}
	// the builds of one scenario run one after the other (scenarios run in parallel)
	for _, jb := range jobs {
		res, err := RunChild(jb.job, 10*time.Minute)
		if err != nil {
			c.Infra(err)
			return
		}
		jb.b.Err = firstLineOf(res.Err)
		jb.b.JS, jb.b.Map, jb.b.sets = res.JSSum, res.MapSum, res.Sets
		if os.Getenv("C17_SELFTEST") == "perturb" && strings.HasSuffix(filepath.Dir(jb.b.out), "b003") && jb.b.Map != "" {
			// sensitivity of the binding: one build's source map hash is falsified
			jb.b.Map = "0" + jb.b.Map[1:]
			if res.MapSum[0] == '0' {
				jb.b.Map = "1" + res.MapSum[1:]
			}
		}
		jb.b.Sets = normKey(setsKey(res.Sets, "vp"))
	}
	var bs []*build
	for _, jb := range jobs {
		bs = append(bs, jb.b)
	}
	if s.Origin == "witness:F6" && !replaying {
		ck.crossCheckModuleMode(r, bs)
	}
	ck.mu.Lock()
	ck.builds += len(bs)
	if ck.perScenario == nil {
		ck.perScenario = map[string]int{}
	}
	kind := "seeded"
	if strings.HasPrefix(s.Origin, "witness") {
		kind = "witness"
	}
	ck.perScenario[kind] = len(bs)
	ck.mu.Unlock()
	ck.evaluate(s, r, bs)
}

// crossCheckModuleMode builds the scenario once as a module (the way the other checks and the
// command line resolve packages) and compares the JavaScript with the GOPATH-mode builds that
// have the same instance numbering: the lookup mode must not change the emitted program.
func (ck *checker) crossCheckModuleMode(r Rendered, bs []*build) {
	c := ck.c
	for try := 0; try < 6; try++ {
		dir, err := r.Prog.Materialise(c.Scratch)
		if err != nil {
			c.Infra(err)
			return
		}
		out := filepath.Join(dir+"-out", "out.js")
		res, err := RunChild(Job{Dir: dir, Main: "vp", Out: out, MapFile: true, Dump: true}, 10*time.Minute)
		os.RemoveAll(dir)
		os.RemoveAll(dir + "-out")
		if err != nil || res.Err != "" {
			c.Infra(fmt.Errorf("module-mode cross-check build failed: %v %s", err, res.Err))
			return
		}
		key := normKey(setsKey(res.Sets, "vp"))
		for _, b := range bs {
			if b.Group == "dir minify=false" && b.Variant == "plain" && b.Sets == key {
				if b.JS != res.JSSum {
					c.Infra(fmt.Errorf("the JavaScript of a module-mode build differs from the GOPATH-mode build of the same scenario with the same instance ids: the cheap lookup mode is not faithful"))
					return
				}
				c.Set("module_mode_crosscheck", "same JavaScript in module mode and GOPATH mode (F6 witness)")
				return
			}
		}
		// the module-mode build drew an instance order that no GOPATH-mode build has: try again
	}
	c.Set("module_mode_crosscheck", "not comparable (no build with the same instance ids)")
}

func firstLineOf(s string) string {
	s = strings.TrimSpace(s)
	if i := strings.Index(s, "\n\nOriginal stack"); i >= 0 {
		s = s[:i]
	}
	if i := strings.Index(s, "\nDetailed AST"); i >= 0 {
		s = s[:i]
	}
	s = strings.ReplaceAll(s, "\n", " ")
	if len(s) > 300 {
		s = s[:300]
	}
	return s
}

// guard builds the commands with the reference toolchain, twice; the program
// must be legal Go and the reference build reproducible.
func (ck *checker) guard(s *Scenario, gopath, dir string, r Rendered) bool {
	c := ck.c
	discard := func(why string) bool {
		c.Add("spec_guard_discards", 1)
		c.Sample(map[string]any{"discarded": s.Prog.Key(), "reason": tailStr(why, 400)})
		return false
	}
	cmds := []string{dir}
	if r.Early != "" {
		cmds = append(cmds, filepath.Join(dir, "e"))
	}
	for _, d := range cmds {
		var sums []string
		for i := 0; i < 2; i++ {
			bin := filepath.Join(d, fmt.Sprintf("native%d.bin", i))
			res := nativeBuild(gopath, d, bin)
			if res.TimedOut || res.Err != nil {
				c.Infra(fmt.Errorf("reference toolchain: %v %s", res.Err, tailStr(res.Out, 300)))
				return false
			}
			if res.ExitCode != 0 {
				return discard("the reference toolchain rejects the program: " + res.Out)
			}
			sums = append(sums, sha(bin))
			os.Remove(bin)
		}
		if sums[0] != sums[1] {
			return discard("the reference toolchain's own builds differ")
		}
	}
	return true
}

// nativeBuild builds the command in dir with the reference toolchain in GOPATH mode.
func nativeBuild(gopath, dir, bin string) gjs.RunResult {
	ctx, cancel := context.WithTimeout(context.Background(), 10*time.Minute)
	defer cancel()
	cmd := exec.CommandContext(ctx, "go", "build", "-o", bin, ".")
	cmd.Dir = dir
	cmd.Env = append(os.Environ(), "GO111MODULE=off", "GOPATH="+gopath, "GOFLAGS=", "GOPROXY=off", "GOTOOLCHAIN=local", "GOOS=linux", "GOARCH=amd64", "CGO_ENABLED=0")
	out, err := cmd.CombinedOutput()
	res := gjs.RunResult{Out: string(out)}
	if ctx.Err() == context.DeadlineExceeded {
		res.TimedOut = true
		return res
	}
	if err != nil {
		var ee *exec.ExitError
		if errors.As(err, &ee) {
			res.ExitCode = ee.ExitCode()
		} else {
			res.Err = err
		}
	}
	return res
}

var progSeq int64

// materialise writes the scenario as $gopath/src/vp (GOPATH layout, no go.mod).
func materialise(scratch string, p gjs.Prog) (gopath, dir string, err error) {
	n := atomic.AddInt64(&progSeq, 1)
	gopath = filepath.Join(scratch, fmt.Sprintf("gp%06d", n))
	dir = filepath.Join(gopath, "src", "vp")
	for name, content := range p.Files {
		fp := filepath.Join(dir, name)
		if err = os.MkdirAll(filepath.Dir(fp), 0o755); err != nil {
			return
		}
		if err = os.WriteFile(fp, []byte(content), 0o644); err != nil {
			return
		}
	}
	return
}

func hashOf(b *build) string { return b.JS + "/" + b.Map }

func (ck *checker) report(s *Scenario, r Rendered, bs []*build, keys []string, summary string, a, b *build) {
	files := r.Prog.ReplayFiles("prog")
	sj, _ := json.MarshalIndent(s, "", " ")
	files["scenario.json"] = string(sj) + "\n"
	bj, _ := json.MarshalIndent(bs, "", " ")
	files["builds.json"] = string(bj) + "\n"
	if a != nil && b != nil {
		files["diff.txt"] = fmt.Sprintf("build A: %s / %s  instance orders:\n%s\nbuild B: %s / %s  instance orders:\n%s\n%s", a.Group, a.Variant, a.Sets, b.Group, b.Variant, b.Sets, diffFiles(a.out, b.out, 40))
	}
	ck.c.Report(core.Case{Keys: keys, Summary: summary, Files: files})
}

// diffFiles shows the first differing lines of two outputs.
func diffFiles(a, b string, max int) string {
	ab, _ := os.ReadFile(a)
	bb, _ := os.ReadFile(b)
	al, bl := strings.Split(string(ab), "\n"), strings.Split(string(bb), "\n")
	var sb strings.Builder
	n := 0
	for i := 0; i < len(al) || i < len(bl); i++ {
		x, y := "<eof>", "<eof>"
		if i < len(al) {
			x = al[i]
		}
		if i < len(bl) {
			y = bl[i]
		}
		if x != y {
			if len(x) > 300 {
				x = x[:300] + "..."
			}
			if len(y) > 300 {
				y = y[:300] + "..."
			}
			fmt.Fprintf(&sb, "line %d\n  A: %s\n  B: %s\n", i+1, x, y)
			n++
			if n >= max {
				break
			}
		}
	}
	return sb.String()
}

// evaluate compares the builds of one scenario group by group.
func (ck *checker) evaluate(s *Scenario, r Rendered, bs []*build) {
	c := ck.c
	sensitive := len(s.Orders) > 1
	groups := map[string][]*build{}
	var gnames []string
	for _, b := range bs {
		if _, ok := groups[b.Group]; !ok {
			gnames = append(gnames, b.Group)
		}
		groups[b.Group] = append(groups[b.Group], b)
	}
	for _, gn := range gnames {
		g := groups[gn]
		// build outcome
		var failed, ok []*build
		for _, b := range g {
			if b.Err != "" {
				failed = append(failed, b)
			} else {
				ok = append(ok, b)
			}
		}
		if len(failed) > 0 {
			// an earlier command may legitimately... no: every variant builds the same command
			if len(ok) > 0 {
				ck.report(s, r, g, []string{keyOutcomeVaries}, fmt.Sprintf("%s [%s]: %d of %d builds of the same sources fail (%s), the others succeed", s.Origin, gn, len(failed), len(g), failed[0].Err), failed[0], ok[0])
			} else {
				ck.mu.Lock()
				ck.buildFailures++
				if len(ck.driftSamples) < 4 {
					ck.driftSamples = append(ck.driftSamples, "compiler rejects "+s.Prog.Key()+": "+failed[0].Err)
				}
				ck.mu.Unlock()
			}
			continue
		}
		c.Add("evaluations", len(g))
		variants := map[string]bool{}
		for _, b := range g {
			variants[b.Variant] = true
		}
		for v := range variants {
			c.Distinct(s.Key() + "|" + gn + "|" + v)
		}
		ck.mu.Lock()
		ck.groups++
		ck.mu.Unlock()
		var base, early []*build
		for _, b := range g {
			if b.Variant == "early" {
				early = append(early, b)
			} else {
				base = append(base, b)
			}
		}
		// (a) within one instance order the bytes must be one value
		byOrder := map[string]map[string]*build{}
		var orders []string
		for _, b := range base {
			if byOrder[b.Sets] == nil {
				byOrder[b.Sets] = map[string]*build{}
				orders = append(orders, b.Sets)
			}
			if _, seen := byOrder[b.Sets][hashOf(b)]; !seen {
				byOrder[b.Sets][hashOf(b)] = b
			}
		}
		for _, o := range orders {
			if len(byOrder[o]) > 1 {
				var two []*build
				for _, b := range byOrder[o] {
					two = append(two, b)
				}
				sort.Slice(two, func(i, j int) bool { return two[i].out < two[j].out })
				keys := []string{keySameIDs}
				if fn := functionOfVariant(base, o); fn != "" {
					keys = append([]string{fn}, keys...)
				}
				ck.report(s, r, g, keys, fmt.Sprintf("%s [%s]: builds of the same sources with the same instance ids differ: %d distinct outputs (e.g. variants %s / %s)", s.Origin, gn, len(byOrder[o]), two[0].Variant, two[1].Variant), two[0], two[1])
			}
		}
		// (b) the instance orders themselves
		inModel := 0
		for _, o := range orders {
			if s.Orders[o] {
				inModel++
			}
		}
		ck.mu.Lock()
		if inModel == len(orders) {
			ck.ordersOK++
		} else {
			ck.ordersDrift++
			if len(ck.driftSamples) < 2 {
				var mo []string
				for k := range s.Orders {
					mo = append(mo, k)
				}
				ck.driftSamples = append(ck.driftSamples, fmt.Sprintf("real instance order %q is none of the final orders of the model %q for %s rfile=%v", orders[0], mo, s.Prog.Key(), s.RFile))
			}
		}
		if sensitive && strings.HasPrefix(gn, "dir") {
			// the majority order is the canonical one (packages visited in slot order)
			cnt := map[string]int{}
			for _, b := range base {
				cnt[b.Sets]++
			}
			max := 0
			for _, n := range cnt {
				if n > max {
					max = n
				}
			}
			ck.f6Builds += len(base)
			ck.f6Minority += len(base) - max
		}
		ck.mu.Unlock()
		if len(orders) > 1 {
			ck.mu.Lock()
			ck.realVaries++
			ck.mu.Unlock()
			a, b := firstWith(base, orders[0]), firstWith(base, orders[1])
			if sensitive && inModel == len(orders) {
				ck.report(s, r, g, []string{keyF6}, fmt.Sprintf("%s [%s]: %d different instance numberings (and outputs) among %d builds of the same sources; the model predicts them through the range over the package map in Collector.Finish (%d final orders)", s.Origin, gn, len(orders), len(base), len(s.Orders)), a, b)
			} else {
				keys := []string{keyIDsUnpred}
				if fn := orderFunctionOfVariant(base); fn != "" {
					keys = append([]string{fn}, keys...)
				}
				ck.report(s, r, g, keys, fmt.Sprintf("%s [%s]: %d different instance numberings among %d builds of the same sources where the model has %d final order(s) (%d of the observed ones are final orders of the model)", s.Origin, gn, len(orders), len(base), len(s.Orders), inModel), a, b)
			}
		}
		// (c) an earlier command in the session
		if len(early) > 0 {
			baseHashes := map[string]*build{}
			for _, b := range base {
				baseHashes[hashOf(b)] = b
			}
			var differs *build
			for _, b := range early {
				if baseHashes[hashOf(b)] == nil {
					differs = b
				}
			}
			switch {
			case differs == nil:
				if !s.EarlySame {
					ck.mu.Lock()
					ck.sessDrift++
					if len(ck.driftSamples) < 4 {
						ck.driftSamples = append(ck.driftSamples, "the model predicts that the earlier command changes the output, the real output is unchanged: "+s.Key())
					}
					ck.mu.Unlock()
				}
			case sensitive && s.EarlySame && len(orders) < len(s.Orders):
				// the base builds did not sample every order of an order-sensitive program: not comparable
				c.Add("session_not_comparable", 1)
			case !s.EarlySame:
				crash := ""
				if obs := gjs.ClassifyNode(gjs.Node(differs.out, time.Minute, "", nil)); obs.End != "exit" {
					crash = fmt.Sprintf("; the program built after the earlier command does not run: %s %s", obs.End, clip(obs.Msg, 120))
				}
				ck.report(s, r, g, []string{keySession}, fmt.Sprintf("%s [%s]: the output differs when another command that instantiates a generic declaration of a shared package was built earlier in the same session, as the model predicts (model: dangling=%v; instances of the earlier command in the later build's sets=%v)%s", s.Origin, gn, s.EarlyDang, foreignInstances(differs, base), crash), base[0], differs)
			default:
				ck.report(s, r, g, []string{keySessUnpred}, fmt.Sprintf("%s [%s]: the output differs after an earlier command in the same session where the model predicts no difference", s.Origin, gn), base[0], differs)
			}
		}
	}
	for _, b := range bs {
		os.RemoveAll(filepath.Dir(b.out))
	}
}

// normKey makes the instance-order keys of the model and of the compiler comparable
// (the two sides print nested type lists with different spacing).
func normKey(s string) string { return strings.ReplaceAll(s, ", ", ",") }

func clip(s string, n int) string {
	if len(s) > n {
		return s[len(s)-n:]
	}
	return s
}

func firstWith(bs []*build, order string) *build {
	for _, b := range bs {
		if b.Sets == order {
			return b
		}
	}
	return nil
}

// foreignInstances: the sets of the build contain an instance that no base build has
// (the earlier command's instantiation reached the later build's collector).
func foreignInstances(b *build, base []*build) bool {
	known := map[string]bool{}
	for _, x := range base {
		for p, l := range x.sets {
			for _, i := range l {
				known[p+" "+i] = true
			}
		}
	}
	for p, l := range b.sets {
		for _, i := range l {
			if !known[p+" "+i] {
				return true
			}
		}
	}
	return false
}

// functionOfVariant: among the builds with the given instance order the hash is
// determined by the variant and at least two variants differ: name the cause.
func functionOfVariant(bs []*build, order string) string {
	byVar := map[string]map[string]bool{}
	for _, b := range bs {
		if b.Sets != order {
			continue
		}
		if byVar[b.Variant] == nil {
			byVar[b.Variant] = map[string]bool{}
		}
		byVar[b.Variant][hashOf(b)] = true
	}
	return causeOf(byVar)
}

func orderFunctionOfVariant(bs []*build) string {
	byVar := map[string]map[string]bool{}
	for _, b := range bs {
		if byVar[b.Variant] == nil {
			byVar[b.Variant] = map[string]bool{}
		}
		byVar[b.Variant][b.Sets] = true
	}
	return causeOf(byVar)
}

func causeOf(byVar map[string]map[string]bool) string {
	if len(byVar) < 2 {
		return ""
	}
	for _, hs := range byVar {
		if len(hs) != 1 {
			return ""
		}
	}
	listing, unrelated := false, false
	for v := range byVar {
		if strings.HasPrefix(v, "list:") {
			listing = true
		}
		if v == "unrelated" {
			unrelated = true
		}
	}
	if listing {
		return keyListing
	}
	if unrelated {
		return keyUnrelated
	}
	return ""
}

func (ck *checker) finish() {
	c := ck.c
	c.Set("builds", ck.builds)
	c.Set("builds_per_scenario", ck.perScenario)
	c.Set("groups_compared", ck.groups)
	c.Set("traces_validated_against_impl", ck.ordersOK)
	c.Set("model_drift_orders", ck.ordersDrift)
	// the model over-approximates what an earlier command changes (it counts every instance the stale
	// archive translated; an instance that allocates no anonymous type and shifts no id changes nothing)
	c.Set("session_change_predicted_but_not_observed", ck.sessDrift)
	c.Set("groups_whose_real_instance_order_varied", ck.realVaries)
	c.Set("compiler_rejected_scenarios", ck.buildFailures)
	if c.Get("spec_guard_discards") == 0 {
		c.Set("spec_guard_discards", 0)
	}
	rate := 0.0
	if ck.f6Builds > 0 {
		rate = float64(ck.f6Minority) / float64(ck.f6Builds)
	}
	c.Set("detection", map[string]any{
		"order_sensitive_builds":          ck.f6Builds,
		"builds_with_a_minority_order":    ck.f6Minority,
		"measured_divergence_rate":        float64(int(rate*1000)) / 1000,
		"note": "a group of n builds of an order-sensitive program misses the divergence with probability about (1-p)^n + p^n, p = per-build rate of a non-majority order; all order-sensitive groups of a run must miss for the finding to go unnoticed",
	})
	if ck.ordersDrift > 0 {
		fmt.Printf("MODEL-DRIFT: %d groups whose real instance order is none of the model's final orders; e.g. %v\n", ck.ordersDrift, ck.driftSamples)
	} else if len(ck.driftSamples) > 0 {
		fmt.Printf("note: %v\n", ck.driftSamples)
	}
}

// replay re-decides one recorded scenario with more builds per group.
func replay(c *core.Ctx, dir string) {
	b, err := os.ReadFile(filepath.Join(dir, "scenario.json"))
	if err != nil {
		c.Infra(err)
		return
	}
	var s Scenario
	if err := json.Unmarshal(b, &s); err != nil {
		c.Infra(err)
		return
	}
	scen := []*Scenario{&s}
	if !predict(c, scen, 10*time.Minute) {
		return
	}
	ck := &checker{c: c}
	ck.check(&s, true)
	ck.finish()
	c.Set("programs", 1)
	c.Set("rule", "replay of one recorded scenario: 40 plain builds + variants per (mode, minify) group")
}
