package c17

import (
	"fmt"
	"math/rand"
	"sort"
	"strings"

	"verif/gjs"
)

// The renderer turns a scenario of Build.tla (program of Instances.tla + layout
// + earlier command) into a real module:
//
//	vp             the command m: file 1 holds func main (calls the roots of every
//	               package in index order, then every package's Deco), its roots
//	               live in file 1 / file 2 as the layout says
//	vp/a vp/b vp/c file 1: the generic declarations, Deco and the roots of file 1;
//	               file 2: the roots of file 2
//	vp/t           the ground types I8 U8 I16
//	vp/e           the earlier command: one instantiation in its func main
//	vp/zz          an unrelated command (shares only the standard packages)
//
// File 1 has the byte-wise smaller name.  Every file also carries DECORATIONS
// (seeded, not part of the model): non-generic code that fills the other
// order-relevant containers of the compiler -- closures that capture several
// loop variables (escapingVars), anonymous struct/slice/map/func types
// (anonTypes), method expressions and values, package variables with
// initialisation dependencies, named local types, labelled loops, defer, a
// goroutine.  They are reachable from main so that dead-code elimination keeps
// them.

// Rendered is a scenario as files.
type Rendered struct {
	Prog      gjs.Prog
	MainFiles []string // files of the command, ascending
	Early     string   // import path of the earlier command ("" = none)
	Unrelated string   // import path of the unrelated command
}

var fileNames = [][2]string{{"a_first.go", "b_second.go"}, {"Zeta.go", "alpha.go"}, {"x1.go", "x10.go"}, {"m_10.go", "m_2.go"}, {"main.go", "more.go"}}

type fctx struct {
	pkg  string // m a b c e
	uses map[string]bool
}

func (c *fctx) qual(pkg string) string {
	if pkg == c.pkg {
		return ""
	}
	c.uses[pkg] = true
	return pkg + "."
}

type renderer struct {
	ds []Decl
}

func (r *renderer) typ(c *fctx, t *Term) string {
	switch t.Tag {
	case "p":
		return fmt.Sprintf("T%d", t.N)
	case "g":
		return c.qual("t") + t.Name
	case "s":
		return "[]" + r.typ(c, t.Subs[0])
	case "q":
		return "*" + r.typ(c, t.Subs[0])
	case "i":
		return c.qual(r.ds[t.N-1].Pkg) + declName(r.ds, t.N) + r.targs(c, t.Subs)
	}
	panic("c17 render: type tag " + t.Tag)
}

func (r *renderer) targs(c *fctx, ts []*Term) string {
	if len(ts) == 0 {
		return ""
	}
	var l []string
	for _, x := range ts {
		l = append(l, r.typ(c, x))
	}
	return "[" + strings.Join(l, ", ") + "]"
}

// use renders one instantiation; explicit: write the type arguments of a
// function (non-generic code), else leave them to inference.
func (r *renderer) use(c *fctx, b *strings.Builder, tgt int, args []*Term, n int, dexpr string, explicit bool) {
	t := r.ds[tgt-1]
	name := c.qual(t.Pkg) + declName(r.ds, tgt)
	if t.Kind == "func" {
		if explicit {
			name += r.targs(c, args)
		}
		vals := ""
		for _, a := range args {
			vals += ", *new(" + r.typ(c, a) + ")"
		}
		fmt.Fprintf(b, "\t%s(%s%s)\n", name, dexpr, vals)
		return
	}
	fmt.Fprintf(b, "\tvar v%d %s%s\n\tv%d.M(%s)\n", n, name, r.targs(c, args), n, dexpr)
}

func tparams(np int) (decl, use string) {
	var d, u []string
	for k := 1; k <= np; k++ {
		d = append(d, fmt.Sprintf("T%d any", k))
		u = append(u, fmt.Sprintf("T%d", k))
	}
	return "[" + strings.Join(d, ", ") + "]", "[" + strings.Join(u, ", ") + "]"
}

func (r *renderer) decl(c *fctx, b *strings.Builder, i int) {
	d := r.ds[i-1]
	tpd, tpu := tparams(len(d.Cons))
	switch d.Kind {
	case "func":
		var ps []string
		for k := range d.Cons {
			ps = append(ps, fmt.Sprintf("_ T%d", k+1))
		}
		fmt.Fprintf(b, "func G%d%s(d int32, %s) {\n\tprintln(\"G%d\", d)\n\tif d >= 2 {\n\t\treturn\n\t}\n", i, tpd, strings.Join(ps, ", "), i)
		for n, u := range d.Uses {
			r.use(c, b, u.Tgt, u.Args, n, "d+1", false)
		}
		b.WriteString("}\n\n")
	case "type":
		fmt.Fprintf(b, "type P%d%s struct {\n", i, tpd)
		nf := 0
		for _, u := range d.Uses {
			if u.Site == "field" {
				fmt.Fprintf(b, "\tf%d *%s%s%s\n", nf, c.qual(r.ds[u.Tgt-1].Pkg), declName(r.ds, u.Tgt), r.targs(c, u.Args))
				nf++
			}
		}
		b.WriteString("}\n\n")
		fmt.Fprintf(b, "func (p *P%d%s) M(d int32) {\n\tprintln(\"P%d\", d, p != nil)\n\tif d >= 2 {\n\t\treturn\n\t}\n", i, tpu, i)
		n := 0
		for _, u := range d.Uses {
			if u.Site != "field" {
				r.use(c, b, u.Tgt, u.Args, n, "d+1", false)
				n++
			}
		}
		for k := 0; k < nf; k++ {
			fmt.Fprintf(b, "\tif p != nil {\n\t\tp.f%d.M(d + 1)\n\t}\n", k)
		}
		b.WriteString("}\n\n")
	}
}

func header(pkgName string, uses map[string]bool) string {
	var b strings.Builder
	fmt.Fprintf(&b, "package %s\n\n", pkgName)
	var l []string
	for k := range uses {
		l = append(l, k)
	}
	sort.Strings(l)
	if len(l) > 0 {
		b.WriteString("import (\n")
		for _, k := range l {
			fmt.Fprintf(&b, "\t\"vp/%s\"\n", k)
		}
		b.WriteString(")\n\n")
	}
	return b.String()
}

const tPkg = "package t\n\ntype I8 int8\n\ntype U8 uint8\n\ntype I16 int16\n"

// Render produces the module of a scenario.
func Render(s *Scenario) Rendered {
	r := &renderer{ds: s.Prog.Decls}
	rng := rand.New(rand.NewSource(s.Deco*7919 + 17))
	files := map[string]string{"t/t.go": tPkg}
	out := Rendered{Unrelated: "vp/zz"}
	usedPkgs := map[string]bool{"m": true}
	for _, d := range s.Prog.Decls {
		usedPkgs[d.Pkg] = true
	}
	for _, rt := range s.Prog.Roots {
		usedPkgs[rt.Pkg] = true
	}
	for _, pk := range pkgSeq {
		if !usedPkgs[pk] {
			continue
		}
		names := fileNames[rng.Intn(len(fileNames)-1)]
		dir := pk + "/"
		pkgName := pk
		if pk == "m" {
			dir, pkgName = "", "main"
			names = fileNames[rng.Intn(len(fileNames))]
		}
		// the command always has a second file (decorations only, unless the layout puts roots there):
		// every scenario can be built from a file list in two orders
		twoFiles := pk == "m"
		for k, rt := range s.Prog.Roots {
			if rt.Pkg == pk && s.RFile[k] == 2 {
				twoFiles = true
			}
		}
		for f := 1; f <= 2; f++ {
			if f == 2 && !twoFiles {
				continue
			}
			c := &fctx{pkg: pk, uses: map[string]bool{}}
			var body strings.Builder
			tag := fmt.Sprintf("%s%d", pk, f)
			if f == 1 {
				for i := range s.Prog.Decls {
					if s.Prog.Decls[i].Pkg == pk {
						r.decl(c, &body, i+1)
					}
				}
			}
			for k, rt := range s.Prog.Roots {
				if rt.Pkg == pk && s.RFile[k] == f {
					fmt.Fprintf(&body, "func Root%d() {\n", k)
					r.use(c, &body, rt.Tgt, rt.Args, 0, "0", true)
					body.WriteString("}\n\n")
				}
			}
			decoCalls := decorate(&body, rng, tag, int(s.Deco))
			if f == 1 {
				// Deco: every decoration of the package (both files) is reachable from main
				fmt.Fprintf(&body, "func Deco() int32 {\n\ts := int32(0)\n")
				for _, call := range decoCalls {
					fmt.Fprintf(&body, "\ts += %s\n", call)
				}
				if twoFiles {
					body.WriteString("\ts += deco2()\n")
				}
				body.WriteString("\treturn s\n}\n\n")
				if pk == "m" {
					mc := c
					body.WriteString("func main() {\n")
					for k, rt := range s.Prog.Roots {
						if rt.Pkg == "m" {
							fmt.Fprintf(&body, "\tRoot%d()\n", k)
						} else {
							fmt.Fprintf(&body, "\t%sRoot%d()\n", mc.qual(rt.Pkg), k)
						}
					}
					sum := "Deco()"
					for _, q := range pkgSeq[1:] {
						if usedPkgs[q] {
							sum += " + " + mc.qual(q) + "Deco()"
						}
					}
					fmt.Fprintf(&body, "\tprintln(\"deco\", %s)\n}\n", sum)
				}
			} else {
				fmt.Fprintf(&body, "func deco2() int32 {\n\ts := int32(0)\n")
				for _, call := range decoCalls {
					fmt.Fprintf(&body, "\ts += %s\n", call)
				}
				body.WriteString("\treturn s\n}\n")
			}
			// Generated-code style: the files of a package start with //line directives that
			// claim ONE common file name (goyacc, ragel, cgo output): nothing in the build may
			// depend on the claimed name instead of the real one (e.g. the sort of the files).
			lineDir := ""
			if len(names) > 1 {
				lineDir = "//line gen_" + pkgName + ".y:1\n"
			}
			files[dir+names[f-1]] = lineDir + header(pkgName, c.uses) + body.String()
			if pk == "m" {
				out.MainFiles = append(out.MainFiles, names[f-1])
			}
		}
	}
	if len(s.Early) > 0 {
		c := &fctx{pkg: "e", uses: map[string]bool{}}
		var body strings.Builder
		body.WriteString("func main() {\n")
		for n, rt := range s.Early {
			r.use(c, &body, rt.Tgt, rt.Args, n, "0", true)
		}
		body.WriteString("}\n")
		files["e/main.go"] = header("main", c.uses) + body.String()
		out.Early = "vp/e"
	}
	// the unrelated command has closures, anonymous types and a blocking function of its own: compiler
	// state that survives from one command of a session to the next becomes visible in the later output
	files["zz/main.go"] = "package main\n\ntype pair struct{ a, b int32 }\n\nfunc main() {\n\tch := make(chan []pair, 1)\n\tvar fs []func() int32\n\tfor i := int32(0); i < 2; i++ {\n\t\tu, v := i, i+1\n\t\tfs = append(fs, func() int32 { return u + v })\n\t}\n\tgo func() { ch <- []pair{{fs[0](), fs[1]()}} }()\n\tx := <-ch\n\tprintln(\"zz\", x[0].a, x[0].b, len(map[string]*pair{}))\n}\n"
	sort.Strings(out.MainFiles)
	out.Prog = gjs.Prog{Files: files}
	return out
}

// ---------------------------------------------------------------------------
// decorations

var idents = []string{"zed", "alpha", "mid", "Beta", "x9", "x10", "omega", "kappa", "b", "a", "yy", "Q", "delta", "_u", "n1", "n02"}

func pick(rng *rand.Rand, n int) []string {
	p := rng.Perm(len(idents))
	var l []string
	for _, i := range p[:n] {
		l = append(l, idents[i])
	}
	return l
}

// decorate appends 3-5 decorations to a file and returns the calls (int32
// expressions) that reach them.
func decorate(b *strings.Builder, rng *rand.Rand, tag string, seed int) []string {
	var calls []string
	kinds := rng.Perm(8)
	n := 3 + rng.Intn(3)
	for di, k := range kinds[:n] {
		id := fmt.Sprintf("%s_%d", tag, di)
		switch k {
		case 0: // closures in a loop capturing several variables (escapingVars at the FuncLit)
			v := pick(rng, 4)
			fmt.Fprintf(b, "func clo_%s() int32 {\n\tvar fs []func() int32\n\tfor i := int32(0); i < 3; i++ {\n\t\t%s, %s, %s := i, i*2, i*3\n\t\t%s := &%s\n\t\tfs = append(fs, func() int32 { return %s + %s + %s + *%s })\n\t}\n\ts := int32(0)\n\tfor _, f := range fs {\n\t\ts += f()\n\t}\n\treturn s\n}\n\n",
				id, v[0], v[1], v[2], v[3], v[0], v[0], v[1], v[2], v[3])
			calls = append(calls, "clo_"+id+"()")
		case 1: // nested closures, outer variables captured at two levels
			v := pick(rng, 3)
			fmt.Fprintf(b, "func nest_%s() int32 {\n\ttotal := int32(0)\n\tfor %s := int32(0); %s < 2; %s++ {\n\t\tfor %s := int32(0); %s < 2; %s++ {\n\t\t\t%s := %s + %s\n\t\t\tg := func() func() int32 {\n\t\t\t\treturn func() int32 { return %s*100 + %s*10 + %s }\n\t\t\t}\n\t\t\ttotal += g()()\n\t\t}\n\t}\n\treturn total\n}\n\n",
				id, v[0], v[0], v[0], v[1], v[1], v[1], v[2], v[0], v[1], v[0], v[1], v[2])
			calls = append(calls, "nest_"+id+"()")
		case 2: // anonymous types
			v := pick(rng, 3)
			fmt.Fprintf(b, "var anon_%s = struct {\n\t%s int32\n\t%s []struct{ K, V string }\n\t%s map[string][]int32\n}{%s: %d}\n\nfunc anonf_%s() int32 {\n\tx := []struct {\n\t\tP *[2]int16\n\t\tF func(int8) uint16\n\t}{{}, {}}\n\tvar y [3]map[int32]chan bool\n\tvar z interface{ M%d() int32 }\n\t_ = z\n\treturn anon_%s.%s + int32(len(x)+len(y))\n}\n\n",
				id, exported(v[0]), exported(v[1]), exported(v[2]), exported(v[0]), seed%100+di, id, seed%7, id, exported(v[0]))
			calls = append(calls, "anonf_"+id+"()")
		case 3: // method expressions and method values
			v := pick(rng, 2)
			fmt.Fprintf(b, "type S_%s struct{ %s, %s int32 }\n\nfunc (s S_%s) Get() int32 { return s.%s + s.%s }\n\nfunc (s *S_%s) Set(v int32) { s.%s = v }\n\nfunc mexp_%s() int32 {\n\tget := S_%s.Get\n\tset := (*S_%s).Set\n\tvar s S_%s\n\tset(&s, 5)\n\tbound := s.Get\n\ts.Set(7)\n\treturn get(s) + bound()\n}\n\n",
				id, v[0], v[1], id, v[0], v[1], id, v[0], id, id, id, id)
			calls = append(calls, "mexp_"+id+"()")
		case 4: // package variables with initialisation dependencies, named local types
			v := pick(rng, 3)
			fmt.Fprintf(b, "var (\n\t%s_%s = %s_%s + 1\n\t%s_%s = ini_%s(3)\n\t%s_%s = %s_%s * 2\n)\n\nfunc ini_%s(n int32) int32 {\n\ttype local struct{ n int32 }\n\ttype pair [2]local\n\tp := pair{{n}, {n + 1}}\n\treturn p[0].n + p[1].n\n}\n\nfunc vars_%s() int32 { return %s_%s + %s_%s }\n\n",
				v[0], id, v[1], id, v[1], id, id, v[2], id, v[0], id, id, id, v[0], id, v[2], id)
			calls = append(calls, "vars_"+id+"()")
		case 5: // labelled loops, switch, defer/recover
			v := pick(rng, 2)
			fmt.Fprintf(b, "func flow_%s() (res int32) {\n\tdefer func() {\n\t\tif r := recover(); r != nil {\n\t\t\tres = -1\n\t\t}\n\t}()\nouter:\n\tfor %s := int32(0); %s < 4; %s++ {\n\t\tfor %s := int32(0); %s < 4; %s++ {\n\t\t\tswitch {\n\t\t\tcase %s == 2:\n\t\t\t\tcontinue outer\n\t\t\tcase %s+%s == 5:\n\t\t\t\tbreak outer\n\t\t\t}\n\t\t\tres += %s * %s\n\t\t}\n\t}\n\treturn res\n}\n\n",
				id, v[0], v[0], v[0], v[1], v[1], v[1], v[1], v[0], v[1], v[0], v[1])
			calls = append(calls, "flow_"+id+"()")
		case 6: // goroutine and channel (a blocking function), address-taken variables
			v := pick(rng, 2)
			fmt.Fprintf(b, "func chan_%s() int32 {\n\tch := make(chan int32, 2)\n\tfor %s := int32(1); %s <= 2; %s++ {\n\t\t%s := %s * 10\n\t\tp := &%s\n\t\tgo func() { ch <- *p + %s }()\n\t}\n\treturn <-ch + <-ch\n}\n\n",
				id, v[0], v[0], v[0], v[1], v[0], v[1], v[0])
			calls = append(calls, "chan_"+id+"()")
		case 7: // interfaces, type switch, embedded struct
			v := pick(rng, 2)
			fmt.Fprintf(b, "type I_%s interface{ Val() int32 }\n\ntype E_%s struct{ %s int32 }\n\nfunc (e E_%s) Val() int32 { return e.%s }\n\ntype W_%s struct {\n\tE_%s\n\t%s string\n}\n\nfunc tsw_%s() int32 {\n\tvar xs = []any{W_%s{E_%s{3}, \"w\"}, E_%s{4}, int8(5), \"s\", nil}\n\ts := int32(0)\n\tfor _, x := range xs {\n\t\tswitch y := x.(type) {\n\t\tcase I_%s:\n\t\t\ts += y.Val()\n\t\tcase int8:\n\t\t\ts += int32(y)\n\t\tcase string:\n\t\t\ts += int32(len(y))\n\t\t}\n\t}\n\treturn s\n}\n\n",
				id, id, v[0], id, v[0], id, id, exported(v[1]), id, id, id, id, id)
			calls = append(calls, "tsw_"+id+"()")
		}
	}
	return calls
}

func exported(s string) string {
	s = strings.TrimLeft(s, "_")
	return "F" + s
}
