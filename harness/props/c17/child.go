package c17

import (
	"crypto/sha256"
	"encoding/hex"
	"encoding/json"
	"fmt"
	"os"
	"os/exec"
	"path/filepath"
	"sort"
	"strings"
	"time"

	gbuild "github.com/gopherjs/gopherjs/build"

	"verif/gjs"
)

// One build = one FRESH compiler process.  The harness binary re-executes
// itself as `vcheck __c17child <job.json>` with the working directory inside the
// scenario's module (the compiler resolves module-mode imports relative to the
// process working directory).  Go draws a new hash seed per process and a new
// start offset per `range` over a map, so every child samples once the
// nondeterminism that spec/Build.tla enumerates (Collector.Finish, ...).
//
// The child follows the code paths of the gopherjs command line:
//
//	gopherjs build <pkg>            Import(path) -> BuildProject -> WriteCommandPackage
//	gopherjs build f1.go f2.go      Session.BuildFiles(files in the LISTED order)
//	gopherjs install <e> <pkg>      one Session: BuildProject(e) [+ write], then BuildProject(pkg) + write

const childArg = "__c17child"

// Job describes one build.
type Job struct {
	Dir     string   `json:"dir"`              // module directory (cwd of the child)
	Main    string   `json:"main"`             // import path of the command ("vp"); ignored when Files is set
	Out     string   `json:"out"`              // output file (…/out.js; the map goes to Out+".map")
	Minify  bool     `json:"minify"`
	MapFile bool     `json:"mapfile"`
	Files   []string `json:"files,omitempty"`  // non-empty: Session.BuildFiles with this list, in this order
	Before  []string `json:"before,omitempty"` // import paths of commands built (and written) earlier in the same session
	Dump    bool     `json:"dump"`             // report the instance sets (numeric ids = positions)
	// GoPath: the scenario lives in $GoPath/src/vp and the child resolves packages in GOPATH mode
	// (GO111MODULE=off).  In module mode go/build runs `go list` for every import of every build,
	// which costs three to four times the compilation itself; the emitted JavaScript is the same in
	// both modes (cross-checked in every run on one scenario).  Empty: module mode.
	GoPath string `json:"gopath,omitempty"`
}

// Result is what the child prints as one JSON line.
type Result struct {
	Err    string              `json:"err,omitempty"`
	Panic  bool                `json:"panic,omitempty"`
	Sets   map[string][]string `json:"sets,omitempty"` // import path -> Instance.String() in id order
	JSSum  string              `json:"js_sha256,omitempty"`
	MapSum string              `json:"map_sha256,omitempty"`
	JSLen  int                 `json:"js_len,omitempty"`
}

func init() {
	if len(os.Args) >= 3 && os.Args[1] == childArg {
		childMain(os.Args[2])
	}
}

func childMain(jobFile string) {
	var res Result
	emit := func() {
		b, _ := json.Marshal(res)
		os.Stdout.Write(append(b, '\n'))
		os.Exit(0)
	}
	raw, err := os.ReadFile(jobFile)
	if err != nil {
		res.Err = "job: " + err.Error()
		emit()
	}
	var j Job
	if err := json.Unmarshal(raw, &j); err != nil {
		res.Err = "job: " + err.Error()
		emit()
	}
	gjs.Init()
	if j.GoPath != "" {
		os.Setenv("GOFLAGS", "")
	}
	if err := os.Chdir(j.Dir); err != nil {
		res.Err = err.Error()
		emit()
	}
	func() {
		defer func() {
			if r := recover(); r != nil {
				res.Err = fmt.Sprintf("compiler panic: %v", r)
				res.Panic = true
			}
		}()
		childBuild(&j, &res)
	}()
	emit()
}

func childBuild(j *Job, res *Result) {
	s, err := gbuild.NewSession(&gbuild.Options{NoCache: true, Minify: j.Minify, CreateMapFile: j.MapFile, Quiet: true})
	if err != nil {
		res.Err = err.Error()
		return
	}
	// the loop of `gopherjs install p1 p2 ...` (tool.go): one session, every command
	// is built and written in turn
	for i, path := range j.Before {
		pkg, err := s.XContext().Import(path, j.Dir, 0)
		if err != nil {
			res.Err = "before: " + err.Error()
			return
		}
		archive, err := s.BuildProject(pkg)
		if err != nil {
			res.Err = "before: " + err.Error()
			return
		}
		if err := s.WriteCommandPackage(archive, filepath.Join(filepath.Dir(j.Out), fmt.Sprintf("before%d.js", i))); err != nil {
			res.Err = "before: " + err.Error()
			return
		}
	}
	if len(j.Files) > 0 {
		if err := s.BuildFiles(j.Files, j.Out, j.Dir); err != nil {
			res.Err = err.Error()
			return
		}
	} else {
		pkg, err := s.XContext().Import(j.Main, j.Dir, 0)
		if err != nil {
			res.Err = err.Error()
			return
		}
		archive, err := s.BuildProject(pkg)
		if err != nil {
			res.Err = err.Error()
			return
		}
		if err := s.WriteCommandPackage(archive, j.Out); err != nil {
			res.Err = err.Error()
			return
		}
	}
	if j.Dump {
		res.Sets = map[string][]string{}
		for _, srcs := range s.GetSortedSources() {
			if srcs.TypeInfo == nil || srcs.TypeInfo.InstanceSets == nil {
				continue
			}
			for path, iset := range *srcs.TypeInfo.InstanceSets {
				if _, done := res.Sets[path]; done {
					continue
				}
				var l []string
				for _, inst := range iset.Values() {
					l = append(l, inst.String())
				}
				res.Sets[path] = l
			}
			break // every package of one PrepareAllSources shares the same sets
		}
	}
	if b, err := os.ReadFile(j.Out); err == nil {
		h := sha256.Sum256(b)
		res.JSSum = hex.EncodeToString(h[:])
		res.JSLen = len(b)
	} else {
		res.Err = "output not written: " + err.Error()
		return
	}
	if j.MapFile {
		if b, err := os.ReadFile(j.Out + ".map"); err == nil {
			h := sha256.Sum256(b)
			res.MapSum = hex.EncodeToString(h[:])
		} else {
			res.Err = "map not written: " + err.Error()
		}
	}
}

// RunChild executes one build in a fresh process.  The error is an
// infrastructure failure (the child did not answer); compiler failures are in
// Result.Err.
func RunChild(j Job, timeout time.Duration) (*Result, error) {
	exe, err := os.Executable()
	if err != nil {
		return nil, err
	}
	if err := os.MkdirAll(filepath.Dir(j.Out), 0o755); err != nil {
		return nil, err
	}
	jf := filepath.Join(filepath.Dir(j.Out), "job.json")
	b, _ := json.Marshal(j)
	if err := os.WriteFile(jf, b, 0o644); err != nil {
		return nil, err
	}
	cmd := exec.Command(exe, childArg, jf)
	cmd.Dir = j.Dir
	if j.GoPath != "" {
		// (go/build reads these when the child process starts)
		cmd.Env = append(os.Environ(), "GO111MODULE=off", "GOPATH="+j.GoPath, "GOFLAGS=")
	}
	var stderr strings.Builder
	cmd.Stderr = &stderr
	done := make(chan struct{})
	var out []byte
	var runErr error
	go func() {
		out, runErr = cmd.Output()
		close(done)
	}()
	select {
	case <-done:
	case <-time.After(timeout):
		if cmd.Process != nil {
			cmd.Process.Kill()
		}
		<-done
		return nil, fmt.Errorf("child build timed out after %v", timeout)
	}
	lines := strings.Split(strings.TrimSpace(string(out)), "\n")
	last := lines[len(lines)-1]
	var res Result
	if e := json.Unmarshal([]byte(last), &res); e != nil {
		if runErr != nil {
			// the compiler process died (fatal error beyond recover)
			return &Result{Err: fmt.Sprintf("compiler process died: %v: %s", runErr, tailStr(stderr.String(), 600)), Panic: true}, nil
		}
		return nil, fmt.Errorf("child answered %q: %v", tailStr(string(out), 300), e)
	}
	return &res, nil
}

func tailStr(s string, n int) string {
	if len(s) > n {
		return s[len(s)-n:]
	}
	return s
}

// setsKey is a canonical text of the instance orders of the packages whose path
// has the prefix (the scenario's module).
func setsKey(sets map[string][]string, prefix string) string {
	var paths []string
	for p, l := range sets {
		if strings.HasPrefix(p, prefix) && len(l) > 0 {
			paths = append(paths, p)
		}
	}
	sort.Strings(paths)
	var b strings.Builder
	for _, p := range paths {
		b.WriteString(p + ": " + strings.Join(sets[p], " | ") + "\n")
	}
	return b.String()
}
