package c17

import (
	"encoding/json"
	"fmt"
	"os"
	"path/filepath"
	"sort"
	"strings"
	"time"

	"verif/core"
	"verif/props/c04"
	"verif/tlcx"
)

// The program shapes are those of spec/Instances.tla; the Go types that mirror
// them (and their JSON codecs) are shared with the C04 check.
type (
	Program = c04.Program
	Decl    = c04.Decl
	Use     = c04.Use
	Root    = c04.Root
	Term    = c04.Term
	Inst    = c04.Inst
	Bounds  = c04.Bounds
)

// Switches are Sw of Build.tla: the sorts of the code (TRUE = as in the pinned
// tree) and the session repair.
type Switches struct {
	SortFiles   bool `json:"sortFiles"`
	SortPkgs    bool `json:"sortPkgs"`
	SortEsc     bool `json:"sortEsc"`
	SortImports bool `json:"sortImports"`
	Isolated    bool `json:"isolated"`
}

// CodeSwitches is the pinned tree.
func CodeSwitches() Switches {
	return Switches{SortFiles: true, SortPkgs: true, SortEsc: true, SortImports: true}
}

// Nondet says which input nondeterminism TLC explores (Nd of Build.tla); the
// range of Collector.Finish is governed by Sorted.
type Nondet struct {
	Files     bool `json:"files"`
	Discovery bool `json:"discovery"`
	Esc       bool `json:"esc"`
	Session   bool `json:"session"`
}

// Layout fixes the layout and the session histories of a given program.
type Layout struct {
	RFile   []int    `json:"rfile"`
	Earlies [][]Root `json:"earlies"`
}

type buildParams struct {
	Sw       Switches `json:"sw"`
	Nd       Nondet   `json:"nd"`
	Out      string   `json:"out"`
	EGrounds []string `json:"egrounds"`
	EmitAll  bool     `json:"emitAll"`
	Layouts  []Layout `json:"layouts"`
	Family   string   `json:"family"`
}

// instParams is Params of Instances.tla (c04_params.json).
type instParams struct {
	Codes     [][]int   `json:"codes"`
	Given     []Program `json:"given"`
	Sorted    bool      `json:"sorted"`
	ExecDepth int       `json:"execDepth"`
	Out       string    `json:"out"`
	Bnd       Bounds    `json:"bnd"`
}

// ModelRun is one configuration of Build.tla.
type ModelRun struct {
	Name    string
	Family  string // pass | gen
	Bnd     Bounds
	Codes   [][]int
	Given   []Program
	Layouts []Layout
	Sorted  bool // Collector.Finish visits the packages in sorted order (repair of F6 / canonical resolution)
	Sw      Switches
	Nd      Nondet
	EmitAll bool
	Invs    []string
	Workers int
	Timeout time.Duration
}

// Wit is one line written by Build!EmitWit: a final state whose output is not
// the canonical one.
type Wit struct {
	Cid       int      `json:"cid"`
	Decls     []Decl   `json:"decls"`
	Roots     []Root   `json:"roots"`
	RFile     []int    `json:"rfile"`
	Early     []Root   `json:"early"`
	FO        []int    `json:"fo"`
	SO        []string `json:"so"`
	Esc       []string `json:"esc"`
	IdsDiffer bool     `json:"idsDiffer"`
	Dangling  bool     `json:"dangling"`
	Ord       [][]Inst `json:"ord"`
	Ref       [][]Inst `json:"ref"`
}

// Fin is one line written by Build!EmitFin (keyed modes): a final state.
type Fin struct {
	Cid      int      `json:"cid"`
	Decls    []Decl   `json:"decls"`
	Roots    []Root   `json:"roots"`
	RFile    []int    `json:"rfile"`
	Early    []Root   `json:"early"`
	FO       []int    `json:"fo"`
	Same     bool     `json:"same"`
	Dangling bool     `json:"dangling"`
	Ord      [][]Inst `json:"ord"`
}

// ModelOut is the outcome of one run.
type ModelOut struct {
	Run  ModelRun
	Res  *tlcx.Result
	Wits []Wit
	Fins []Fin
}

func decodeLine(raw json.RawMessage, into any) error {
	if len(raw) > 0 && raw[0] == '"' {
		var inner string
		if err := json.Unmarshal(raw, &inner); err != nil {
			return err
		}
		return json.Unmarshal([]byte(inner), into)
	}
	return json.Unmarshal(raw, into)
}

// PassBounds is the pass-through family of Build.tla.
func PassBounds(maxDecls int, rootPkgs ...string) Bounds {
	return Bounds{MaxDecls: maxDecls, MaxNP: 1, MaxUses: 1, MaxRoots: 2, TexDepth: 0, RootDepth: 0, Canon: true,
		Kinds: []string{"func"}, Pkgs: []string{"a", "b", "c"}, RootPkgs: rootPkgs,
		Cons: []string{"any"}, Tags: []string{"p", "g"}, Grounds: []string{"I8", "U8"},
		Styles: []string{"i"}, Sites: []string{"body"}}
}

// GenBounds is a family built by the generator of Instances.tla: functions and
// struct types with a method, uses in bodies and field types.
func GenBounds(maxDecls int) Bounds {
	return Bounds{MaxDecls: maxDecls, MaxNP: 1, MaxUses: 1, MaxRoots: 2, TexDepth: 0, RootDepth: 0, Canon: true,
		Kinds: []string{"func", "type"}, Pkgs: []string{"a", "b", "c"}, RootPkgs: []string{"m"},
		Cons: []string{"any"}, Tags: []string{"p", "g"}, Grounds: []string{"I8", "U8"},
		Styles: []string{"i"}, Sites: []string{"body", "field"}}
}

// ScriptBounds is the space the seeded digit strings select from.
func ScriptBounds() Bounds {
	return Bounds{MaxDecls: 3, MaxNP: 2, MaxUses: 2, MaxRoots: 3, TexDepth: 1, RootDepth: 1,
		Kinds: []string{"func", "type"}, Pkgs: []string{"a", "b", "c"}, RootPkgs: []string{"m", "a", "b"},
		Cons: []string{"any"}, Tags: []string{"p", "g", "s", "q", "i"}, Grounds: []string{"I8", "U8", "I16"},
		Styles: []string{"i"}, Sites: []string{"body", "field"}}
}

// RunModel runs TLC on Build.tla.
func RunModel(c *core.Ctx, r ModelRun) (*ModelOut, error) {
	ip := instParams{Codes: r.Codes, Given: r.Given, Sorted: r.Sorted, ExecDepth: 2, Out: "scen", Bnd: r.Bnd}
	if ip.Codes == nil {
		ip.Codes = [][]int{}
	}
	if ip.Given == nil {
		ip.Given = []Program{}
	}
	bp := buildParams{Sw: r.Sw, Nd: r.Nd, Out: "build", EGrounds: []string{"I16"}, EmitAll: r.EmitAll, Layouts: r.Layouts, Family: r.Family}
	if bp.Layouts == nil {
		bp.Layouts = []Layout{}
	}
	for i := range bp.Layouts {
		if bp.Layouts[i].RFile == nil {
			bp.Layouts[i].RFile = []int{}
		}
		if bp.Layouts[i].Earlies == nil {
			bp.Layouts[i].Earlies = [][]Root{{}}
		}
		for j := range bp.Layouts[i].Earlies {
			if bp.Layouts[i].Earlies[j] == nil {
				bp.Layouts[i].Earlies[j] = []Root{}
			}
		}
	}
	if bp.Family == "" {
		bp.Family = "gen"
	}
	ij, _ := json.Marshal(ip)
	bj, _ := json.Marshal(bp)
	cfg := "SPECIFICATION BSpec\nINVARIANTS " + strings.Join(r.Invs, " ") + "\nCHECK_DEADLOCK FALSE\n"
	if r.Workers == 0 {
		r.Workers = 4
	}
	if r.Timeout == 0 {
		r.Timeout = 10 * time.Minute
	}
	res, err := tlcx.Run(c, tlcx.Opts{Module: "Build", Cfg: cfg, Workers: r.Workers, Timeout: r.Timeout, HeapMB: 4096,
		Files: map[string]string{"c04_params.json": string(ij), "c17_params.json": string(bj)}})
	if err != nil {
		return nil, err
	}
	out := &ModelOut{Run: r, Res: res}
	if f := filepath.Join(res.Dir, "build.wit.ndjson"); fileExists(f) {
		err := tlcx.ReadNDJSON(f, func(raw json.RawMessage) error {
			var w Wit
			if err := decodeLine(raw, &w); err != nil {
				return err
			}
			out.Wits = append(out.Wits, w)
			return nil
		})
		if err != nil {
			return out, fmt.Errorf("decode %s: %v", f, err)
		}
	}
	if f := filepath.Join(res.Dir, "build.fin.ndjson"); fileExists(f) {
		err := tlcx.ReadNDJSON(f, func(raw json.RawMessage) error {
			var x Fin
			if err := decodeLine(raw, &x); err != nil {
				return err
			}
			out.Fins = append(out.Fins, x)
			return nil
		})
		if err != nil {
			return out, fmt.Errorf("decode %s: %v", f, err)
		}
	}
	return out, nil
}

func fileExists(p string) bool {
	_, err := os.Stat(p)
	return err == nil
}

// Scenario is a program of the model with its layout and (optionally) the
// earlier command of the session: the SOURCES of Build.tla.
type Scenario struct {
	Prog   Program `json:"prog"`
	RFile  []int   `json:"rfile"`
	Early  []Root  `json:"early"` // empty: no earlier command
	Origin string  `json:"origin"`
	// filled from the model (keyed run with EmitAll)
	Orders    map[string]bool `json:"-"` // final instance orders (ordersKey) without an earlier command
	EarlySame bool            `json:"-"` // the model predicts the canonical output also after the earlier command
	EarlyDang bool            `json:"-"` // the model predicts a dangling reference after the earlier command
	Deco      int64           `json:"deco"` // seed of the decorations
}

func (s *Scenario) Key() string {
	b, _ := json.Marshal(struct {
		P Program
		F []int
		E []Root
	}{s.Prog, s.RFile, s.Early})
	return string(b)
}

func progKey(ds []Decl, rs []Root) string {
	b, _ := json.Marshal(Program{Decls: ds, Roots: rs})
	return string(b)
}

func size(p Program) int {
	uses := 0
	for _, d := range p.Decls {
		uses += len(d.Uses)
	}
	return len(p.Decls)*100 + uses*10 + len(p.Roots)
}

// shape is a coarse description of a program (which packages hold declarations
// and roots, who uses whom).
func shape(p Program) string {
	var ds, rs []string
	for i, d := range p.Decls {
		s := fmt.Sprintf("%s:%s%d", d.Pkg, d.Kind[:1], i+1)
		for _, u := range d.Uses {
			s += fmt.Sprintf(">%d", u.Tgt)
		}
		ds = append(ds, s)
	}
	for _, r := range p.Roots {
		rs = append(rs, fmt.Sprintf("%s:%d", r.Pkg, r.Tgt))
	}
	return strings.Join(ds, " ") + " | " + strings.Join(rs, " ")
}

// coarse drops the concrete type arguments: the witnesses are grouped by it.
func coarse(p Program) string {
	var ds []string
	for _, d := range p.Decls {
		s := d.Pkg
		for _, u := range d.Uses {
			s += ">" + p.Decls[u.Tgt-1].Pkg
		}
		ds = append(ds, s)
	}
	sort.Strings(ds)
	var rs []string
	for _, r := range p.Roots {
		rs = append(rs, r.Pkg+">"+p.Decls[r.Tgt-1].Pkg)
	}
	sort.Strings(rs)
	return strings.Join(ds, ",") + "|" + strings.Join(rs, ",")
}

// SelectWitnesses groups the witness lines by program (+ layout + earlier
// command), and returns the smallest scenarios, one per coarse shape first.
func SelectWitnesses(ws []Wit, n int, origin string, want func(w *Wit) bool) []*Scenario {
	type cand struct {
		s    *Scenario
		size int
		key  string
	}
	seen := map[string]bool{}
	var cs []cand
	for i := range ws {
		w := &ws[i]
		if want != nil && !want(w) {
			continue
		}
		s := &Scenario{Prog: Program{Decls: w.Decls, Roots: w.Roots}, RFile: w.RFile, Early: w.Early, Origin: origin}
		k := s.Key()
		if seen[k] {
			continue
		}
		seen[k] = true
		sz := size(s.Prog)
		for _, f := range s.RFile {
			sz += f - 1
		}
		cs = append(cs, cand{s, sz, k})
	}
	sort.Slice(cs, func(i, j int) bool {
		if cs[i].size != cs[j].size {
			return cs[i].size < cs[j].size
		}
		return cs[i].key < cs[j].key
	})
	var out []*Scenario
	shapes := map[string]bool{}
	taken := map[string]bool{}
	for pass := 0; pass < 2 && len(out) < n; pass++ {
		for _, x := range cs {
			if len(out) >= n {
				break
			}
			sh := coarse(x.s.Prog)
			if pass == 0 && shapes[sh] {
				continue
			}
			if taken[x.key] {
				continue
			}
			shapes[sh] = true
			taken[x.key] = true
			out = append(out, x.s)
		}
	}
	return out
}

// ---------------------------------------------------------------------------
// names: Instance.String() of a model instance (what the child dumps)

var pkgSeq = []string{"m", "a", "b", "c"}

func pkgPath(p string) string {
	if p == "m" {
		return "vp"
	}
	return "vp/" + p
}

func declName(ds []Decl, j int) string {
	if ds[j-1].Kind == "type" {
		return fmt.Sprintf("P%d", j)
	}
	return fmt.Sprintf("G%d", j)
}

func typeString(ds []Decl, t *Term) string {
	switch t.Tag {
	case "g":
		return "vp/t." + t.Name
	case "s":
		return "[]" + typeString(ds, t.Subs[0])
	case "q":
		return "*" + typeString(ds, t.Subs[0])
	case "i":
		d := ds[t.N-1]
		s := pkgPath(d.Pkg) + "." + declName(ds, t.N)
		if len(t.Subs) > 0 {
			var l []string
			for _, x := range t.Subs {
				l = append(l, typeString(ds, x))
			}
			s += "[" + strings.Join(l, ", ") + "]"
		}
		return s
	}
	return "?" + t.Tag
}

func instString(ds []Decl, in Inst) string {
	d := ds[in.D-1]
	name := pkgPath(d.Pkg) + "."
	if in.M == 1 {
		name += "(*" + declName(ds, in.D) + ").M"
	} else {
		name += declName(ds, in.D)
	}
	if len(in.Args) == 0 {
		return name
	}
	var l []string
	for _, x := range in.Args {
		l = append(l, typeString(ds, x))
	}
	return name + "<" + strings.Join(l, ", ") + ">"
}

// ordersKey renders the model's final order (per package m, a, b, c) in the
// form of setsKey.
func ordersKey(ds []Decl, ord [][]Inst) string {
	sets := map[string][]string{}
	for q, l := range ord {
		if len(l) == 0 || q >= len(pkgSeq) {
			continue
		}
		var names []string
		for _, in := range l {
			names = append(names, instString(ds, in))
		}
		sets[pkgPath(pkgSeq[q])] = names
	}
	return setsKey(sets, "vp")
}

func supported(p Program) bool {
	for _, d := range p.Decls {
		if d.Kind != "func" && d.Kind != "type" {
			return false
		}
		for _, c := range d.Cons {
			if c != "any" {
				return false
			}
		}
	}
	return true
}
