package c11

import (
	"math"
	"math/big"
	"regexp"
	"strconv"
	"strings"
	"unicode/utf16"
)

// The guard of C11.  gc cannot build package js, so there is no native
// execution to guard the specification with.  Instead the documentation is
// transcribed a second time, independently of spec/JsMapping.tla: the table
// below is the conversion table of js/js.go copied row by row, and the
// functions use Go's own conversions (float64(int64), []rune(string),
// unicode/utf16, strconv) where the TLA+ module spells the arithmetic out on
// bit vectors.  A case on which the two transcriptions predict different
// values is discarded and counted (spec_guard_discards).

// docTable: | Go type | JavaScript type | Conversions back to any |
var docTable = []struct{ Go, JS, Back string }{
	{"bool", "Boolean", "bool"},
	{"integers and floats", "Number", "float64"},
	{"string", "String", "string"},
	{"[]int8", "Int8Array", "[]int8"},
	{"[]int16", "Int16Array", "[]int16"},
	{"[]int32, []int", "Int32Array", "[]int"},
	{"[]uint8", "Uint8Array", "[]uint8"},
	{"[]uint16", "Uint16Array", "[]uint16"},
	{"[]uint32, []uint", "Uint32Array", "[]uint"},
	{"[]float32", "Float32Array", "[]float32"},
	{"[]float64", "Float64Array", "[]float64"},
	{"all other slices", "Array", "[]any"},
	{"arrays", "see slice type", "see slice type"},
	{"functions", "Function", "func(...any) *js.Object"},
	{"time.Time", "Date", "time.Time"},
	{"-", "instanceof Node", "*js.Object"},
	{"maps, structs", "instanceof Object", "map[string]any"},
}

// goElemName is the Go spelling of an element type as the table writes it.
func goElemName(t *Type) string {
	switch t.K {
	case "int":
		return t.Kind
	case "i64":
		return "int64"
	case "u64":
		return "uint64"
	case "f32":
		return "float32"
	case "f64":
		return "float64"
	case "str":
		return "string"
	case "any":
		return "any"
	}
	return t.K
}

// typedArrayFor looks the slice type up in the first column of the table.
func typedArrayFor(elem *Type) string {
	if Q.uintptrTyped && elem.K == "int" && elem.Kind == "uintptr" {
		return "Uint32Array"
	}
	want := "[]" + goElemName(elem)
	for _, r := range docTable {
		if !strings.HasSuffix(r.JS, "Array") || r.JS == "Array" {
			continue
		}
		for _, g := range strings.Split(r.Go, ", ") {
			if g == want {
				return r.JS
			}
		}
	}
	return "" // "all other slices"
}

// backTypeFor looks the typed array up in the second column and returns the
// element type of the third.
func backTypeFor(kind string) *Type {
	for _, r := range docTable {
		if r.JS == kind {
			switch e := strings.TrimPrefix(r.Back, "[]"); e {
			case "float32":
				return &Type{K: "f32"}
			case "float64":
				return &Type{K: "f64"}
			default:
				return &Type{K: "int", Kind: e}
			}
		}
	}
	return nil
}

// quirks are DEFECT MODELS, not part of the guard: each flag makes the
// transcription behave the way a known defect of the implementation does.  They
// are all off while predictions are computed and compared with the TLA+ module;
// classify.go switches them on, one small subset at a time, to decide whether a
// failing observation is exactly what a recorded finding explains (only then does
// the evaluation carry the finding's classifier key).
type quirks struct {
	uintptrTyped    bool // []uintptr / [n]uintptr arrive as Uint32Array
	f32NoRound      bool // a Number read as float32 is not rounded to float32
	int64ToNumber   bool // Int64/Uint64 of a non-number use ToNumber, not parseInt
	nullPtrThrows   bool // null read as *struct reads a property of null
	nullMapEmpty    bool // null read as map is an empty non-nil map
	nullFuncWrapper bool // null read as func is a non-nil func that fails when called
	negZero         bool // -0 read as a float becomes +0 (String(-0) is "0")
	negZeroNested   bool // the same, except for a scalar float at the top (compile-time translation keeps it)
	nonASCII        bool // field names are used as their UTF-8 bytes, one code unit per byte
	wrap2Plain      bool // a *js.Object field that is not the first field does not make the struct a wrapper
	dollar          bool // js.Global.Set/Get with a constant "$name" compile to the bare identifier
	fieldAssign     bool // assignment to a js-tagged field of struct or array type is compiled as a copy
	// a struct whose first field is an interface holding a *js.Object is externalised as that object
	ifaceFirstWrapper bool
}

// Q is read by the oracle functions; it is only changed by the sequential
// classification phase.
var Q = &quirks{}

type evalPanic string

var unspecG = &GV{K: "unspec"}
var unspecJ = &JV{K: "unspec"}

func intFloat(v *GV) float64 {
	f := float64(v.Mag) // uint64 -> float64: round to nearest even
	if v.Neg {
		f = -f
	}
	return f
}

func oExtString(b []byte) []uint16 { return utf16.Encode([]rune(string(b))) }

func oIntString(u []uint16) *GV {
	for i := 0; i < len(u); i++ {
		switch {
		case 0xD800 <= u[i] && u[i] <= 0xDBFF && i+1 < len(u) && 0xDC00 <= u[i+1] && u[i+1] <= 0xDFFF:
			i++
		case 0xD800 <= u[i] && u[i] <= 0xDFFF:
			return unspecG // unpaired surrogate: not a Unicode string
		}
	}
	return &GV{K: "s", S: []byte(string(utf16.Decode(u)))}
}

// oExternalize: Go value of static type t -> JavaScript value.
func oExternalize(v *GV, t *Type) *JV {
	if v.K == "unspec" {
		return unspecJ
	}
	switch t.K {
	case "bool":
		return &JV{K: "jb", B: v.B}
	case "int", "i64", "u64":
		return &JV{K: "jn", N: NumOf(intFloat(v))}
	case "f32", "f64":
		return &JV{K: "jn", N: v.F}
	case "str":
		return &JV{K: "js", U: oExtString(v.S)}
	case "slice", "arr":
		if t.K == "slice" && v.Nil {
			return &JV{K: "jnull"}
		}
		if kind := typedArrayFor(t.Elem); kind != "" {
			j := &JV{K: "jt", Kind: kind}
			for _, e := range v.Elems {
				j.Nums = append(j.Nums, oExternalize(e, t.Elem).N)
			}
			return j
		}
		j := &JV{K: "ja"}
		for _, e := range v.Elems {
			j.Elems = append(j.Elems, oExternalize(e, t.Elem))
		}
		return j
	case "map":
		if v.Nil {
			return &JV{K: "jnull"}
		}
		j := &JV{K: "jo"}
		for i, e := range v.Elems {
			j.Keys = append(j.Keys, oExtString(v.Keys[i]))
			j.Elems = append(j.Elems, oExternalize(e, t.Elem))
		}
		return j
	case "struct":
		if k := jsFieldIdx(t); k >= 0 {
			return v.Elems[k].J // "only the content of the field will be passed to JavaScript"
		}
		if Q.ifaceFirstWrapper && len(t.Fields) > 0 && t.Fields[0].T.K == "any" && v.Elems[0].K == "if" && v.Elems[0].T.K == "js" {
			return v.Elems[0].V.J
		}
		j := &JV{K: "jo"}
		for i, f := range t.Fields {
			if f.Exported {
				j.Keys = append(j.Keys, fieldKey(f.Name))
				j.Elems = append(j.Elems, oExternalize(v.Elems[i], f.T))
			}
		}
		return j
	case "ptr":
		if v.Nil {
			return &JV{K: "jnull"}
		}
		return oExternalize(v.V, t.Elem)
	case "func":
		if v.K == "fnull" {
			return &JV{K: "jf", Src: "null"}
		}
		if v.K == "fj" {
			return &JV{K: "jf", Src: "js", ID: v.ID}
		}
		if v.ID == 0 {
			return &JV{K: "jnull"}
		}
		return &JV{K: "jf", Src: "go", ID: v.ID}
	case "wrap2":
		if Q.wrap2Plain {
			return &JV{K: "jo", Keys: [][]uint16{{'N'}, {'O'}}, Elems: []*JV{{K: "jn", N: NumOf(intFloat(v.V))}, v.J}}
		}
		return v.J
	case "js", "wrap":
		return v.J
	case "any":
		if v.K == "ifnil" {
			return &JV{K: "jnull"}
		}
		return oExternalize(v.V, v.T)
	}
	return unspecJ
}

// ---- ECMAScript conversions ----

func jsNumberToString(f float64) string {
	switch {
	case f != f:
		return "NaN"
	case math.IsInf(f, 1):
		return "Infinity"
	case math.IsInf(f, -1):
		return "-Infinity"
	case f == 0:
		return "0"
	}
	a := math.Abs(f)
	if a >= 1e-6 && a < 1e21 {
		return strconv.FormatFloat(f, 'f', -1, 64)
	}
	s := strconv.FormatFloat(f, 'e', -1, 64) // d.ddde+XX
	i := strings.IndexByte(s, 'e')
	exp := s[i+2:]
	for len(exp) > 1 && exp[0] == '0' {
		exp = exp[1:]
	}
	return s[:i+2] + exp
}

// jsToString returns ok=false where ToString depends on things outside the model.
func jsToString(j *JV) (u []uint16, ok bool) {
	asc := func(s string) []uint16 { return utf16.Encode([]rune(s)) }
	switch j.K {
	case "jb":
		if j.B {
			return asc("true"), true
		}
		return asc("false"), true
	case "jn":
		return asc(jsNumberToString(j.N.Float())), true
	case "js":
		return j.U, true
	case "jnull":
		return asc("null"), true
	case "jundef":
		return asc("undefined"), true
	case "ja", "jt":
		var parts [][]uint16
		if j.K == "jt" {
			for _, n := range j.Nums {
				parts = append(parts, asc(jsNumberToString(n.Float())))
			}
		} else {
			for _, e := range j.Elems {
				if e.K == "jnull" || e.K == "jundef" {
					parts = append(parts, nil)
					continue
				}
				p, ok := jsToString(e)
				if !ok {
					return nil, false
				}
				parts = append(parts, p)
			}
		}
		var out []uint16
		for i, p := range parts {
			if i > 0 {
				out = append(out, ',')
			}
			out = append(out, p...)
		}
		return out, true
	case "jo":
		return asc("[object Object]"), true
	}
	return nil, false
}

func isJSWhitespace(c uint16) bool {
	switch c {
	case 9, 10, 11, 12, 13, 32, 160, 0x1680, 0x2028, 0x2029, 0x202F, 0x205F, 0x3000, 0xFEFF:
		return true
	}
	return 0x2000 <= c && c <= 0x200A
}

func trimLeft(u []uint16) []uint16 {
	for len(u) > 0 && isJSWhitespace(u[0]) {
		u = u[1:]
	}
	return u
}

// jsParseIntString: parseInt(string) with no radix argument.
func jsParseIntString(u []uint16) float64 {
	u = trimLeft(u)
	neg := false
	if len(u) > 0 && (u[0] == '+' || u[0] == '-') {
		neg = u[0] == '-'
		u = u[1:]
	}
	radix := 10
	if len(u) >= 2 && u[0] == '0' && (u[1] == 'x' || u[1] == 'X') {
		radix = 16
		u = u[2:]
	}
	digits := ""
	for _, c := range u {
		d := -1
		switch {
		case '0' <= c && c <= '9':
			d = int(c - '0')
		case 'a' <= c && c <= 'z':
			d = int(c-'a') + 10
		case 'A' <= c && c <= 'Z':
			d = int(c-'A') + 10
		}
		if d < 0 || d >= radix {
			break
		}
		digits += string(rune(c))
	}
	if digits == "" {
		return math.NaN()
	}
	n, _ := new(big.Int).SetString(digits, radix)
	f, _ := new(big.Float).SetInt(n).Float64()
	if neg {
		f = -f
	}
	return f
}

var reStrDecimal = regexp.MustCompile(`^[+-]?(Infinity|[0-9]+\.?[0-9]*([eE][+-]?[0-9]+)?|\.[0-9]+([eE][+-]?[0-9]+)?)`)

// jsParseFloatString: parseFloat(string).
func jsParseFloatString(u []uint16) float64 {
	u = trimLeft(u)
	var sb strings.Builder
	for _, c := range u {
		if c >= 128 {
			break
		}
		sb.WriteByte(byte(c))
	}
	m := reStrDecimal.FindString(sb.String())
	if m == "" {
		return math.NaN()
	}
	if strings.HasSuffix(m, "Infinity") {
		if m[0] == '-' {
			return math.Inf(-1)
		}
		return math.Inf(1)
	}
	f, err := strconv.ParseFloat(m, 64)
	if err != nil && !math.IsInf(f, 0) {
		return math.NaN()
	}
	return f
}

func jsParseInt(j *JV) (float64, bool) {
	s, ok := jsToString(j)
	if !ok {
		return 0, false
	}
	return jsParseIntString(s), true
}

func jsParseFloat(j *JV) (float64, bool) {
	if j.K == "jn" {
		return j.N.Float(), true
	}
	s, ok := jsToString(j)
	if !ok {
		return 0, false
	}
	return jsParseFloatString(s), true
}

func jsToBoolean(j *JV) bool {
	switch j.K {
	case "jb":
		return j.B
	case "jn":
		return !(j.N.Cls == "nan" || j.N.Cls == "zero")
	case "js":
		return len(j.U) > 0
	case "jnull", "jundef":
		return false
	}
	return true
}

func kindRange(kind string) (min, max *big.Int) {
	w := 32
	switch kind {
	case "int8", "uint8":
		w = 8
	case "int16", "uint16":
		w = 16
	case "i64", "u64":
		w = 64
	}
	signed := kind == "int8" || kind == "int16" || kind == "int32" || kind == "int" || kind == "i64"
	one := big.NewInt(1)
	if signed {
		max = new(big.Int).Sub(new(big.Int).Lsh(one, uint(w-1)), one)
		min = new(big.Int).Neg(new(big.Int).Lsh(one, uint(w-1)))
	} else {
		max = new(big.Int).Sub(new(big.Int).Lsh(one, uint(w)), one)
		min = big.NewInt(0)
	}
	return
}

// numToInt: the integer a number denotes, if it is one of the kind.
func numToInt(f float64, kind string) *GV {
	if f != f || math.IsInf(f, 0) {
		return unspecG // a Go integer cannot hold NaN
	}
	bf := new(big.Float).SetFloat64(f)
	n, _ := bf.Int(nil) // truncates toward zero
	min, max := kindRange(kind)
	if n.Cmp(min) < 0 || n.Cmp(max) > 0 {
		return unspecG
	}
	v := &GV{K: "i", Neg: n.Sign() < 0}
	v.Mag = new(big.Int).Abs(n).Uint64()
	return v
}

func zeroOf(t *Type) *GV {
	switch t.K {
	case "bool":
		return &GV{K: "b"}
	case "int", "i64", "u64":
		return &GV{K: "i"}
	case "f32", "f64":
		return &GV{K: "f", F: Num{Cls: "zero"}}
	case "str":
		return &GV{K: "s"}
	case "slice":
		return &GV{K: "sl", Nil: true}
	case "arr":
		v := &GV{K: "ar"}
		for i := 0; i < t.N; i++ {
			v.Elems = append(v.Elems, zeroOf(t.Elem))
		}
		return v
	case "map":
		return &GV{K: "m", Nil: true}
	case "struct":
		v := &GV{K: "st"}
		for _, f := range t.Fields {
			v.Elems = append(v.Elems, zeroOf(f.T))
		}
		return v
	case "ptr":
		return &GV{K: "p", Nil: true, V: zeroOf(t.Elem)}
	case "func":
		return &GV{K: "fn"}
	case "js":
		return &GV{K: "o", J: &JV{K: "jnull"}}
	case "wrap":
		return &GV{K: "w", J: &JV{K: "jnull"}}
	case "wrap2":
		return &GV{K: "w2", V: &GV{K: "i"}, J: &JV{K: "jnull"}}
	}
	return &GV{K: "ifnil"}
}

// jsFieldIdx: index of the first *js.Object field of a struct type, -1 if none.
func jsFieldIdx(t *Type) int {
	if t.K == "struct" {
		for i, f := range t.Fields {
			if f.T.K == "js" {
				return i
			}
		}
	}
	return -1
}

func dropNegZero(f float64, depth int) float64 {
	if f == 0 && math.Signbit(f) && (Q.negZero || (Q.negZeroNested && depth > 0)) {
		return 0
	}
	return f
}

var reToNumberDec = regexp.MustCompile(`^[+-]?(Infinity|[0-9]+\.?[0-9]*([eE][+-]?[0-9]+)?|\.[0-9]+([eE][+-]?[0-9]+)?)$`)
var reToNumberHex = regexp.MustCompile(`^0[xX][0-9a-fA-F]+$`)

// jsToNumber: ToNumber (only used by the defect model int64ToNumber).
func jsToNumber(j *JV) float64 {
	switch j.K {
	case "jn":
		return j.N.Float()
	case "jb":
		if j.B {
			return 1
		}
		return 0
	case "jnull":
		return 0
	case "jundef":
		return math.NaN()
	}
	u, ok := jsToString(j)
	if !ok {
		return math.NaN()
	}
	for len(u) > 0 && isJSWhitespace(u[len(u)-1]) {
		u = u[:len(u)-1]
	}
	u = trimLeft(u)
	str := string(utf16.Decode(u))
	switch {
	case str == "":
		return 0
	case reToNumberHex.MatchString(str):
		n, _ := new(big.Int).SetString(str[2:], 16)
		f, _ := new(big.Float).SetInt(n).Float64()
		return f
	case reToNumberDec.MatchString(str):
		if strings.HasSuffix(str, "Infinity") {
			if str[0] == '-' {
				return math.Inf(-1)
			}
			return math.Inf(1)
		}
		f, _ := strconv.ParseFloat(str, 64)
		return f
	}
	return math.NaN()
}

func sameType(a, b *Type) bool { return a.canon() == b.canon() }

// fieldKey: the property name of a struct field.
func fieldKey(name []uint16) []uint16 {
	if !Q.nonASCII {
		return name
	}
	var out []uint16
	for _, b := range []byte(string(utf16.Decode(name))) {
		out = append(out, uint16(b))
	}
	return out
}

// oInternalize: JavaScript value read at Go type t.
func oInternalize(j *JV, t *Type) *GV { return oInt(j, t, 0) }

func oInt(j *JV, t *Type, depth int) *GV {
	if j.K == "unspec" {
		return unspecG
	}
	switch t.K {
	case "js":
		return &GV{K: "o", J: j}
	case "wrap":
		return &GV{K: "w", J: j}
	case "wrap2":
		return &GV{K: "w2", V: &GV{K: "i"}, J: j}
	}
	if k := jsFieldIdx(t); k >= 0 { // "... and vice versa"
		v := zeroOf(t)
		v.Elems[k] = &GV{K: "o", J: j}
		return v
	}
	if j.K == "jw" {
		if sameType(t, j.T) {
			return j.V
		}
		if t.K == "any" {
			return &GV{K: "if", T: j.T, V: j.V}
		}
		return unspecG
	}
	switch t.K {
	case "bool":
		return &GV{K: "b", B: jsToBoolean(j)}
	case "int", "i64", "u64":
		kind := t.K
		if t.K == "int" {
			kind = t.Kind
		}
		if Q.int64ToNumber && (kind == "i64" || kind == "u64") && j.K != "jn" {
			f := jsToNumber(j)
			if f != f {
				f = 0
			}
			return numToInt(f, kind)
		}
		f, ok := jsParseInt(j)
		if !ok {
			return unspecG
		}
		return numToInt(f, kind)
	case "f64":
		f, ok := jsParseFloat(j)
		if !ok {
			return unspecG
		}
		return &GV{K: "f", F: NumOf(dropNegZero(f, depth))}
	case "f32":
		f, ok := jsParseFloat(j)
		if !ok {
			return unspecG
		}
		if Q.f32NoRound {
			return &GV{K: "f", F: NumOf(dropNegZero(f, depth))}
		}
		return &GV{K: "f", F: NumOf(dropNegZero(float64(float32(f)), depth))}
	case "str":
		s, ok := jsToString(j)
		if !ok {
			return unspecG
		}
		return oIntString(s)
	case "slice", "arr":
		var elems []*JV
		switch j.K {
		case "jnull", "jundef":
			if t.K == "slice" {
				return &GV{K: "sl", Nil: true}
			}
			return unspecG
		case "ja":
			elems = j.Elems
		case "jt":
			for _, n := range j.Nums {
				elems = append(elems, &JV{K: "jn", N: n})
			}
		default:
			return unspecG
		}
		if t.K == "arr" && len(elems) != t.N {
			return unspecG
		}
		v := &GV{K: "sl"}
		if t.K == "arr" {
			v.K = "ar"
		}
		for _, e := range elems {
			v.Elems = append(v.Elems, oInt(e, t.Elem, depth+1))
		}
		return v
	case "map":
		switch j.K {
		case "jnull":
			if Q.nullMapEmpty {
				return &GV{K: "m"}
			}
			return &GV{K: "m", Nil: true}
		case "jo":
			v := &GV{K: "m"}
			for i, e := range j.Elems {
				k := oIntString(j.Keys[i])
				if k.K == "unspec" {
					return unspecG
				}
				v.Keys = append(v.Keys, k.S)
				v.Elems = append(v.Elems, oInt(e, t.Elem, depth+1))
			}
			return v
		}
		return unspecG
	case "struct":
		if j.K != "jo" {
			return unspecG
		}
		v := &GV{K: "st"}
		for _, f := range t.Fields {
			if !f.Exported {
				v.Elems = append(v.Elems, zeroOf(f.T))
				continue
			}
			var prop *JV = &JV{K: "jundef"}
			for i, k := range j.Keys {
				if sameUnits(k, fieldKey(f.Name)) {
					prop = j.Elems[i]
					break
				}
			}
			v.Elems = append(v.Elems, oInt(prop, f.T, depth+1))
		}
		return v
	case "ptr":
		if j.K == "jnull" && jsFieldIdx(t.Elem) >= 0 {
			return unspecG // nil pointer or pointer to a wrapper of null
		}
		if j.K == "jnull" {
			if Q.nullPtrThrows {
				for _, f := range t.Elem.Fields {
					if f.Exported {
						panic(evalPanic("P:JavaScript error: Cannot read properties of null (reading '" + string(utf16.Decode(fieldKey(f.Name))) + "')"))
					}
				}
				return &GV{K: "p", V: zeroOf(t.Elem)}
			}
			return &GV{K: "p", Nil: true, V: zeroOf(t.Elem)}
		}
		sv := oInt(j, t.Elem, depth+1)
		if sv.K == "unspec" {
			return unspecG
		}
		return &GV{K: "p", V: sv}
	case "func":
		switch j.K {
		case "jf":
			if j.Src == "go" {
				return &GV{K: "fn", ID: j.ID}
			}
			return &GV{K: "fj", ID: j.ID}
		case "jnull":
			if Q.nullFuncWrapper {
				return &GV{K: "fnull"}
			}
			return &GV{K: "fn"}
		}
		return unspecG
	case "any":
		box := func(t *Type) *GV {
			save := *Q
			if j.K == "jt" {
				Q.negZero, Q.negZeroNested = false, false // the typed array itself becomes the slice
			}
			v := oInt(j, t, depth+1)
			*Q = save
			if v.K == "unspec" {
				return unspecG
			}
			return &GV{K: "if", T: t, V: v}
		}
		switch j.K {
		case "jb":
			return box(&Type{K: "bool"})
		case "jn":
			return box(&Type{K: "f64"})
		case "js":
			return box(&Type{K: "str"})
		case "jt":
			return box(&Type{K: "slice", Elem: backTypeFor(j.Kind)})
		case "ja":
			return box(&Type{K: "slice", Elem: &Type{K: "any"}})
		case "jo":
			return box(&Type{K: "map", Elem: &Type{K: "any"}})
		case "jf":
			return box(&Type{K: "func"})
		case "jnull":
			return &GV{K: "ifnil"}
		case "jundef":
			if Q.ifaceFirstWrapper { // what the implementation does with the lost field: undefined held as *js.Object
				return &GV{K: "if", T: &Type{K: "js"}, V: &GV{K: "o", J: j}}
			}
		}
		return unspecG
	}
	return unspecG
}

// ---- navigation and mutation (Length / Index / Get / Set / SetIndex / Delete) ----

func sameUnits(a, b []uint16) bool {
	if len(a) != len(b) {
		return false
	}
	for i := range a {
		if a[i] != b[i] {
			return false
		}
	}
	return true
}

func propIndex(j *JV, key []uint16) int {
	for i, k := range j.Keys {
		if sameUnits(k, key) {
			return i
		}
	}
	return -1
}

func natJ(n int) *JV { return &JV{K: "jn", N: NumOf(float64(n))} }

func oLength(j *JV) *GV {
	var lp *JV
	switch j.K {
	case "js":
		lp = natJ(len(j.U))
	case "ja":
		lp = natJ(len(j.Elems))
	case "jt":
		lp = natJ(len(j.Nums))
	case "jo":
		lp = &JV{K: "jundef"}
		if i := propIndex(j, utf16.Encode([]rune("length"))); i >= 0 {
			lp = j.Elems[i]
		}
	case "jf", "jnull", "jundef":
		return unspecG
	default:
		lp = &JV{K: "jundef"}
	}
	return oInternalize(lp, &Type{K: "int", Kind: "int"})
}

func oIndex(j *JV, i int) *JV {
	switch j.K {
	case "ja":
		if 0 <= i && i < len(j.Elems) {
			return j.Elems[i]
		}
		return &JV{K: "jundef"}
	case "jt":
		if 0 <= i && i < len(j.Nums) {
			return &JV{K: "jn", N: j.Nums[i]}
		}
		return &JV{K: "jundef"}
	case "js":
		if 0 <= i && i < len(j.U) {
			return &JV{K: "js", U: []uint16{j.U[i]}}
		}
		return &JV{K: "jundef"}
	}
	return unspecJ
}

func oGet(j *JV, key []uint16) *JV {
	if j.K != "jo" {
		return unspecJ
	}
	if i := propIndex(j, key); i >= 0 {
		return j.Elems[i]
	}
	return &JV{K: "jundef"}
}

func oSet(j *JV, key []uint16, x *JV) *JV {
	out := &JV{K: "jo", Keys: append([][]uint16{}, j.Keys...), Elems: append([]*JV{}, j.Elems...)}
	if i := propIndex(j, key); i >= 0 {
		out.Elems[i] = x
	} else {
		out.Keys = append(out.Keys, key)
		out.Elems = append(out.Elems, x)
	}
	return out
}

func oDelete(j *JV, key []uint16) *JV {
	out := &JV{K: "jo"}
	for i, k := range j.Keys {
		if !sameUnits(k, key) {
			out.Keys = append(out.Keys, k)
			out.Elems = append(out.Elems, j.Elems[i])
		}
	}
	return out
}

func oSetIndex(j *JV, i int, x *JV) *JV {
	out := &JV{K: "ja", Elems: append([]*JV{}, j.Elems...)}
	if i < len(out.Elems) {
		out.Elems[i] = x
	} else {
		out.Elems = append(out.Elems, x)
	}
	return out
}

// oFuncIDs: the same Go function is always the same JavaScript function.
func oFuncIDs(fs []int) []int {
	seen := map[int]int{}
	var ids []int
	for _, f := range fs {
		if _, ok := seen[f]; !ok {
			seen[f] = len(seen) + 1
		}
		ids = append(ids, seen[f])
	}
	return ids
}

const errBlock = "cannot block in JavaScript callback, fix by wrapping code in goroutine"

// oCallback: README "Goroutines": blocking code called from external JavaScript
// needs its own goroutine.
func oCallback(ctx, body string) string {
	blocking := body == "recv" || body == "send" || body == "select"
	switch {
	case ctx == "loop" && blocking:
		return "error"
	case ctx == "sync" && blocking:
		return "unspec"
	}
	return "returns"
}
