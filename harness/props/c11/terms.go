package c11

import (
	"encoding/json"
	"fmt"
	"math"
	"sort"
	"strings"
)

// Terms of JsMapping.tla arrive as JSON arrays whose first element is the tag
// (see the module header).  They are decoded into the structures below; the
// oracle (oracle.go) computes on the same structures and canon() gives the
// text on which the two transcriptions are compared.

// Num is a JavaScript number: nan | inf | zero | fin (-1)^Neg * M * 2^E, M odd.
type Num struct {
	Cls string
	Neg bool
	M   uint64
	E   int
}

func (n Num) Float() float64 {
	var f float64
	switch n.Cls {
	case "nan":
		return math.NaN()
	case "inf":
		f = math.Inf(1)
	case "zero":
		f = 0
	case "fin":
		f = math.Ldexp(float64(n.M), n.E) // exact: M < 2^53
	}
	if n.Neg {
		f = -f
	}
	return f
}

// NumOf is the inverse of Float.
func NumOf(f float64) Num {
	switch {
	case f != f:
		return Num{Cls: "nan"}
	case math.IsInf(f, 0):
		return Num{Cls: "inf", Neg: f < 0}
	case f == 0:
		return Num{Cls: "zero", Neg: math.Signbit(f)}
	}
	neg := f < 0
	if neg {
		f = -f
	}
	fr, e := math.Frexp(f) // f = fr * 2^e, 0.5 <= fr < 1
	m := uint64(math.Ldexp(fr, 53))
	e -= 53
	for m&1 == 0 {
		m >>= 1
		e++
	}
	return Num{Cls: "fin", Neg: neg, M: m, E: e}
}

// Type is a Go type term.
type Type struct {
	K      string // bool int i64 u64 f32 f64 str slice arr map struct ptr func js any wrap wrap2
	Kind   string // int kind
	N      int    // array length
	Elem   *Type
	Fields []Field
}

type Field struct {
	Name     []uint16
	Exported bool
	T        *Type
}

// GV is a Go value term.
type GV struct {
	K     string // b i f s sl ar m st p fn fj o w w2 if ifnil unspec
	B     bool
	Neg   bool
	Mag   uint64
	F     Num
	S     []byte
	Nil   bool
	Elems []*GV
	Keys  [][]byte
	ID    int
	J     *JV
	T     *Type
	V     *GV
}

// JV is a JavaScript value term.
type JV struct {
	K     string // jb jn js jnull jundef ja jt jo jf jd jw unspec
	B     bool
	N     Num
	U     []uint16
	Elems []*JV
	Kind  string
	Nums  []Num
	Keys  [][]uint16
	Src   string // jf: go | js
	ID    int
	T     *Type
	V     *GV
}

type termErr struct{ msg string }

func (e termErr) Error() string { return e.msg }

func bad(format string, a ...any) { panic(termErr{fmt.Sprintf(format, a...)}) }

func arr(x any) []any {
	a, ok := x.([]any)
	if !ok {
		bad("term: expected an array, got %v", x)
	}
	return a
}
func tag(x any) string {
	a := arr(x)
	if len(a) == 0 {
		bad("term: empty array")
	}
	s, ok := a[0].(string)
	if !ok {
		bad("term: tag is not a string in %v", x)
	}
	return s
}
func ival(x any) int {
	f, ok := x.(float64)
	if !ok {
		bad("term: expected a number, got %v", x)
	}
	return int(f)
}
func limbs(x any) uint64 {
	a := arr(x)
	if len(a) != 4 {
		bad("term: limbs %v", x)
	}
	var v uint64
	for i := 3; i >= 0; i-- {
		v = v<<16 | uint64(ival(a[i]))
	}
	return v
}
func bytesOf(x any) []byte {
	a := arr(x)
	b := make([]byte, len(a))
	for i := range a {
		b[i] = byte(ival(a[i]))
	}
	return b
}
func unitsOf(x any) []uint16 {
	a := arr(x)
	b := make([]uint16, len(a))
	for i := range a {
		b[i] = uint16(ival(a[i]))
	}
	return b
}

func decNum(x any) Num {
	a := arr(x)
	switch tag(x) {
	case "nan":
		return Num{Cls: "nan"}
	case "inf":
		return Num{Cls: "inf", Neg: ival(a[1]) == 1}
	case "zero":
		return Num{Cls: "zero", Neg: ival(a[1]) == 1}
	case "fin":
		return Num{Cls: "fin", Neg: ival(a[1]) == 1, M: limbs(a[2]), E: ival(a[3])}
	case "unspec":
		return Num{Cls: "unspec"}
	}
	bad("term: number %v", x)
	return Num{}
}

func decType(x any) *Type {
	a := arr(x)
	t := &Type{K: tag(x)}
	switch t.K {
	case "bool", "i64", "u64", "f32", "f64", "str", "func", "js", "any", "wrap", "wrap2":
	case "int":
		t.Kind = a[1].(string)
	case "slice", "map", "ptr":
		t.Elem = decType(a[1])
	case "arr":
		t.N = ival(a[1])
		t.Elem = decType(a[2])
	case "struct":
		for _, f := range arr(a[2]) {
			fa := arr(f)
			t.Fields = append(t.Fields, Field{Name: unitsOf(fa[0]), Exported: ival(fa[1]) == 1, T: decType(fa[2])})
		}
	default:
		bad("term: type %v", x)
	}
	return t
}

func decGV(x any) *GV {
	a := arr(x)
	v := &GV{K: tag(x)}
	switch v.K {
	case "b":
		v.B = ival(a[1]) == 1
	case "i":
		v.Neg = ival(a[1]) == 1
		v.Mag = limbs(a[2])
	case "f":
		v.F = decNum(a[1])
		if v.F.Cls == "unspec" {
			return &GV{K: "unspec"}
		}
	case "s":
		v.S = bytesOf(a[1])
	case "sl":
		v.Nil = ival(a[1]) == 1
		for _, e := range arr(a[2]) {
			v.Elems = append(v.Elems, decGV(e))
		}
	case "ar", "st":
		for _, e := range arr(a[1]) {
			v.Elems = append(v.Elems, decGV(e))
		}
	case "m":
		v.Nil = ival(a[1]) == 1
		for _, e := range arr(a[2]) {
			p := arr(e)
			v.Keys = append(v.Keys, bytesOf(p[0]))
			v.Elems = append(v.Elems, decGV(p[1]))
		}
	case "p":
		v.Nil = ival(a[1]) == 1
		v.V = decGV(a[2])
	case "fn", "fj":
		v.ID = ival(a[1])
	case "o", "w":
		v.J = decJV(a[1])
	case "w2":
		v.V = decGV(a[1])
		v.J = decJV(a[2])
	case "if":
		v.T = decType(a[1])
		v.V = decGV(a[2])
	case "ifnil", "unspec":
	default:
		bad("term: Go value %v", x)
	}
	return v
}

func decJV(x any) *JV {
	a := arr(x)
	j := &JV{K: tag(x)}
	switch j.K {
	case "jb":
		j.B = ival(a[1]) == 1
	case "jn":
		j.N = decNum(a[1])
	case "js":
		j.U = unitsOf(a[1])
	case "jnull", "jundef", "unspec":
	case "ja":
		for _, e := range arr(a[1]) {
			j.Elems = append(j.Elems, decJV(e))
		}
	case "jt":
		j.Kind = a[1].(string)
		for _, e := range arr(a[2]) {
			j.Nums = append(j.Nums, decNum(e))
		}
	case "jo":
		for _, e := range arr(a[1]) {
			p := arr(e)
			j.Keys = append(j.Keys, unitsOf(p[0]))
			j.Elems = append(j.Elems, decJV(p[1]))
		}
	case "jf":
		j.Src = a[1].(string)
		j.ID = ival(a[2])
	case "jd":
		j.ID = ival(a[1])
	case "jw":
		j.T = decType(a[1])
		j.V = decGV(a[2])
	default:
		bad("term: JS value %v", x)
	}
	return j
}

// ---- canonical text (comparison of the two transcriptions, distinct keys) ----

func (n Num) canon() string {
	switch n.Cls {
	case "fin":
		s := ""
		if n.Neg {
			s = "-"
		}
		return fmt.Sprintf("%s%x*2^%d", s, n.M, n.E)
	case "inf", "zero":
		if n.Neg {
			return "-" + n.Cls
		}
		return "+" + n.Cls
	}
	return n.Cls
}

func (t *Type) canon() string {
	switch t.K {
	case "int":
		return t.Kind
	case "slice":
		return "[]" + t.Elem.canon()
	case "arr":
		return fmt.Sprintf("[%d]%s", t.N, t.Elem.canon())
	case "map":
		return "map[string]" + t.Elem.canon()
	case "ptr":
		return "*" + t.Elem.canon()
	case "struct":
		var fs []string
		for _, f := range t.Fields {
			e := "-"
			if f.Exported {
				e = "+"
			}
			fs = append(fs, fmt.Sprint(f.Name)+e+f.T.canon())
		}
		return "struct{" + strings.Join(fs, ";") + "}"
	}
	return t.K
}

func (v *GV) canon() string {
	if v == nil {
		return "<nil>"
	}
	switch v.K {
	case "b":
		return fmt.Sprint("b:", v.B)
	case "i":
		s := ""
		if v.Neg {
			s = "-"
		}
		return fmt.Sprintf("i:%s%d", s, v.Mag)
	case "f":
		return "f:" + v.F.canon()
	case "s":
		return fmt.Sprint("s:", v.S)
	case "sl", "ar", "st":
		if v.Nil {
			return v.K + ":nil"
		}
		var es []string
		for _, e := range v.Elems {
			es = append(es, e.canon())
		}
		return v.K + ":[" + strings.Join(es, " ") + "]"
	case "m":
		if v.Nil {
			return "m:nil"
		}
		var es []string
		for i, e := range v.Elems {
			es = append(es, fmt.Sprint(v.Keys[i])+"="+e.canon())
		}
		return "m:{" + strings.Join(es, " ") + "}"
	case "p":
		if v.Nil {
			return "p:nil"
		}
		return "p:&" + v.V.canon()
	case "fn", "fj":
		return fmt.Sprint(v.K, ":", v.ID)
	case "o", "w":
		return v.K + ":" + v.J.canon()
	case "w2":
		return "w2:" + v.V.canon() + "," + v.J.canon()
	case "if":
		return "if:" + v.T.canon() + ":" + v.V.canon()
	}
	return v.K
}

func (j *JV) canon() string {
	if j == nil {
		return "<nil>"
	}
	switch j.K {
	case "jb":
		return fmt.Sprint("jb:", j.B)
	case "jn":
		return "jn:" + j.N.canon()
	case "js":
		return fmt.Sprint("js:", j.U)
	case "ja":
		var es []string
		for _, e := range j.Elems {
			es = append(es, e.canon())
		}
		return "ja:[" + strings.Join(es, " ") + "]"
	case "jt":
		var es []string
		for _, e := range j.Nums {
			es = append(es, e.canon())
		}
		return "jt:" + j.Kind + "[" + strings.Join(es, " ") + "]"
	case "jo":
		var es []string
		for i, e := range j.Elems {
			es = append(es, fmt.Sprint(j.Keys[i])+"="+e.canon())
		}
		return "jo:{" + strings.Join(es, " ") + "}"
	case "jf":
		return fmt.Sprint("jf:", j.Src, j.ID)
	case "jd":
		return fmt.Sprint("jd:", j.ID)
	case "jw":
		return "jw:" + j.T.canon() + ":" + j.V.canon()
	}
	return j.K
}

// hasUnspec: the specification leaves (part of) the term undefined.
func (v *GV) hasUnspec() bool {
	if v == nil {
		return false
	}
	if v.K == "unspec" {
		return true
	}
	for _, e := range v.Elems {
		if e.hasUnspec() {
			return true
		}
	}
	return v.V.hasUnspec() || v.J.hasUnspec()
}

func (j *JV) hasUnspec() bool {
	if j == nil {
		return false
	}
	if j.K == "unspec" {
		return true
	}
	for _, e := range j.Elems {
		if e.hasUnspec() {
			return true
		}
	}
	return j.V.hasUnspec()
}

// sortedKeys returns the indices of a jo value ordered by key (UTF-16 code
// unit order, the order of Array.prototype.sort on strings).
func sortedKeys(keys [][]uint16) []int {
	idx := make([]int, len(keys))
	for i := range idx {
		idx[i] = i
	}
	sort.SliceStable(idx, func(a, b int) bool { return lessU16(keys[idx[a]], keys[idx[b]]) })
	return idx
}

func lessU16(a, b []uint16) bool {
	for i := 0; i < len(a) && i < len(b); i++ {
		if a[i] != b[i] {
			return a[i] < b[i]
		}
	}
	return len(a) < len(b)
}

func decodeJSONTwice(raw json.RawMessage) (any, error) {
	var inner string
	if err := json.Unmarshal(raw, &inner); err != nil {
		return nil, err
	}
	var v any
	if err := json.Unmarshal([]byte(inner), &v); err != nil {
		return nil, err
	}
	return v, nil
}
