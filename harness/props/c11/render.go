package c11

import (
	"fmt"
	"math"
	"sort"
	"strconv"
	"strings"
	"unicode/utf16"
)

// ---- descriptors: what describe() (JavaScript side) and the generated
// printers (Go side) print for a value; computed here from predicted terms ----

func hex64(u uint64) string { return fmt.Sprintf("%x:%x", uint32(u>>32), uint32(u)) }

func numDesc(n Num) string {
	if n.Cls == "nan" {
		return "nan"
	}
	return hex64(math.Float64bits(n.Float()))
}

// goFnResult: what the pool function with this id returns for 20.
func goFnResult(id int) int {
	switch id {
	case 1:
		return 21 // fnA: x + 1
	case 2:
		return 40 // fnB: x * 2
	case 3:
		return 17 // fnC: x - 3
	}
	return -1
}
func jsFnResult(id int) int { return 20 + 100*id } // c11jsfn<id>: x + 100*id

func unitsDesc(u []uint16) string {
	var sb strings.Builder
	sb.WriteString("s(")
	for i, c := range u {
		if i > 0 {
			sb.WriteByte(',')
		}
		sb.WriteString(strconv.Itoa(int(c)))
	}
	sb.WriteByte(')')
	return sb.String()
}

func bytesDesc(b []byte) string {
	var sb strings.Builder
	sb.WriteString("s(")
	for i, c := range b {
		if i > 0 {
			sb.WriteByte(',')
		}
		sb.WriteString(strconv.Itoa(int(c)))
	}
	sb.WriteByte(')')
	return sb.String()
}

// jdesc: the string describe(v) returns.
func jdesc(j *JV) string {
	switch j.K {
	case "jb":
		if j.B {
			return "T"
		}
		return "F"
	case "jn":
		return "n" + numDesc(j.N)
	case "js":
		return unitsDesc(j.U)
	case "jnull":
		return "null"
	case "jundef":
		return "undef"
	case "ja":
		var es []string
		for _, e := range j.Elems {
			es = append(es, jdesc(e))
		}
		return "A[" + strings.Join(es, " ") + "]"
	case "jt":
		var es []string
		for _, e := range j.Nums {
			es = append(es, "n"+numDesc(e))
		}
		return j.Kind + "[" + strings.Join(es, " ") + "]"
	case "jo":
		var es []string
		for _, i := range sortedKeys(j.Keys) {
			es = append(es, unitsDesc(j.Keys[i])+"="+jdesc(j.Elems[i]))
		}
		return "{" + strings.Join(es, " ") + "}"
	case "jf":
		if j.Src == "null" {
			return "fn(throws)" // defect model nullFuncWrapper
		}
		r := goFnResult(j.ID)
		if j.Src == "js" {
			r = jsFnResult(j.ID)
		}
		return "fn(" + jdesc(natJ(r)) + ")"
	case "jd":
		return fmt.Sprintf("Date(%d)", j.ID)
	}
	return "?" + j.K
}

func intImage(v *GV) uint64 {
	if v.Neg {
		return ^v.Mag + 1
	}
	return v.Mag
}

func anyLabel(t *Type) string {
	switch t.K {
	case "int":
		return t.Kind
	case "i64":
		return "int64"
	case "u64":
		return "uint64"
	case "f32":
		return "float32"
	case "f64":
		return "float64"
	case "str":
		return "string"
	case "slice":
		return "[]" + anyLabel(t.Elem)
	case "map":
		return "map[string]" + anyLabel(t.Elem)
	case "js":
		return "*js.Object"
	}
	return t.K
}

// gdesc: the string the generated printer of type t returns for v.
func gdesc(v *GV, t *Type) string {
	switch t.K {
	case "bool":
		if v.B {
			return "T"
		}
		return "F"
	case "int", "i64", "u64":
		return "i" + hex64(intImage(v))
	case "f32", "f64":
		if v.F.Cls == "nan" {
			return "fnan"
		}
		return "f" + numDesc(v.F)
	case "str":
		return bytesDesc(v.S)
	case "slice", "arr":
		if t.K == "slice" && v.Nil {
			return "nil"
		}
		var es []string
		for _, e := range v.Elems {
			es = append(es, gdesc(e, t.Elem))
		}
		return "[" + strings.Join(es, " ") + "]"
	case "map":
		if v.Nil {
			return "nil"
		}
		idx := make([]int, len(v.Keys))
		for i := range idx {
			idx[i] = i
		}
		sort.SliceStable(idx, func(a, b int) bool { return string(v.Keys[idx[a]]) < string(v.Keys[idx[b]]) })
		var es []string
		for _, i := range idx {
			es = append(es, bytesDesc(v.Keys[i])+"="+gdesc(v.Elems[i], t.Elem))
		}
		return "{" + strings.Join(es, " ") + "}"
	case "struct":
		var es []string
		for i, f := range t.Fields {
			es = append(es, gdesc(v.Elems[i], f.T))
		}
		return "{" + strings.Join(es, " ") + "}"
	case "ptr":
		if v.Nil {
			return "nil"
		}
		return "&" + gdesc(v.V, t.Elem)
	case "func":
		if v.K == "fnull" { // defect model nullFuncWrapper: the printer calls the function
			panic(evalPanic("P:JavaScript error: Cannot read properties of null (reading 'apply')"))
		}
		if v.K == "fj" {
			return fmt.Sprintf("func(%d)", jsFnResult(v.ID))
		}
		if v.ID == 0 {
			return "nilfunc"
		}
		return fmt.Sprintf("func(%d)", goFnResult(v.ID))
	case "js":
		return "o(" + jdesc(v.J) + ")"
	case "wrap":
		return "w(" + jdesc(v.J) + ")"
	case "wrap2":
		return "w2(" + gdesc(v.V, &Type{K: "int", Kind: "int"}) + "," + jdesc(v.J) + ")"
	case "any":
		if v.K == "ifnil" {
			return "any:nil"
		}
		return "any:" + anyLabel(v.T) + ":" + gdesc(v.V, v.T)
	}
	return "?" + t.K
}

// ---- literals ----

func jsStringLit(u []uint16) string {
	var sb strings.Builder
	sb.WriteByte('"')
	for _, c := range u {
		fmt.Fprintf(&sb, "\\u%04x", c)
	}
	sb.WriteByte('"')
	return sb.String()
}

func jsNumLit(n Num) string {
	switch n.Cls {
	case "nan":
		return "NaN"
	case "inf":
		if n.Neg {
			return "(-Infinity)"
		}
		return "Infinity"
	case "zero":
		if n.Neg {
			return "(-0)"
		}
		return "0"
	}
	s := strconv.FormatFloat(n.Float(), 'g', -1, 64)
	if n.Neg {
		return "(" + s + ")"
	}
	return s
}

// jsLit: a JavaScript expression (ASCII) that evaluates to the value.
func jsLit(j *JV) string {
	switch j.K {
	case "jb":
		if j.B {
			return "true"
		}
		return "false"
	case "jn":
		return jsNumLit(j.N)
	case "js":
		return jsStringLit(j.U)
	case "jnull":
		return "null"
	case "jundef":
		return "(void 0)"
	case "ja":
		var es []string
		for _, e := range j.Elems {
			es = append(es, jsLit(e))
		}
		return "[" + strings.Join(es, ",") + "]"
	case "jt":
		var es []string
		for _, e := range j.Nums {
			es = append(es, jsNumLit(e))
		}
		return "new " + j.Kind + "([" + strings.Join(es, ",") + "])"
	case "jo":
		var es []string
		for i, e := range j.Elems {
			es = append(es, jsStringLit(j.Keys[i])+":"+jsLit(e))
		}
		return "({" + strings.Join(es, ",") + "})"
	case "jf":
		if j.Src == "go" {
			return fmt.Sprintf("c11gofn%d", j.ID)
		}
		return fmt.Sprintf("c11jsfn%d", j.ID)
	case "jd":
		return fmt.Sprintf("new Date(%d)", j.ID)
	}
	panic("jsLit: " + j.K)
}

func goStringLit(b []byte) string {
	var sb strings.Builder
	sb.WriteByte('"')
	for _, c := range b {
		if c >= 0x20 && c < 0x7f && c != '"' && c != '\\' {
			sb.WriteByte(c)
		} else {
			fmt.Fprintf(&sb, "\\x%02x", c)
		}
	}
	sb.WriteByte('"')
	return sb.String()
}

func unitsToString(u []uint16) string { return string(utf16.Decode(u)) }

// renderer turns type and value terms into Go source.
type renderer struct {
	structs map[string]string // canon -> name
	prs     map[string]string // canon -> printer name
	routes  map[string]string // canon -> suffix of the per-type route functions
	decls   strings.Builder
	nslice  int
}

func newRenderer() *renderer {
	return &renderer{structs: map[string]string{}, prs: map[string]string{}, routes: map[string]string{}}
}

// goType: Go syntax of the type.
func (r *renderer) goType(t *Type) string {
	switch t.K {
	case "bool":
		return "bool"
	case "int":
		return t.Kind
	case "i64":
		return "int64"
	case "u64":
		return "uint64"
	case "f32":
		return "float32"
	case "f64":
		return "float64"
	case "str":
		return "string"
	case "slice":
		return "[]" + r.goType(t.Elem)
	case "arr":
		return fmt.Sprintf("[%d]%s", t.N, r.goType(t.Elem))
	case "map":
		return "map[string]" + r.goType(t.Elem)
	case "ptr":
		return "*" + r.goType(t.Elem)
	case "func":
		return "func(int) int"
	case "js":
		return "*js.Object"
	case "any":
		return "interface{}"
	case "wrap":
		return "Wr"
	case "wrap2":
		return "Wr2"
	case "struct":
		c := t.canon()
		if n, ok := r.structs[c]; ok {
			return n
		}
		n := fmt.Sprintf("S%d", len(r.structs))
		r.structs[c] = n
		var fs []string
		for _, f := range t.Fields {
			fs = append(fs, unitsToString(f.Name)+" "+r.goType(f.T))
		}
		fmt.Fprintf(&r.decls, "type %s struct {\n\t%s\n}\n", n, strings.Join(fs, "\n\t"))
		return n
	}
	panic("goType: " + t.K)
}

// printer: name of the function that prints a value of the type.
func (r *renderer) printer(t *Type) string {
	c := t.canon()
	if n, ok := r.prs[c]; ok {
		return n
	}
	n := fmt.Sprintf("pr%d", len(r.prs))
	r.prs[c] = n
	gt := r.goType(t)
	var body string
	switch t.K {
	case "bool":
		body = "return prBool(v)"
	case "int", "i64":
		body = "return prI64(int64(v))"
	case "u64":
		body = "return \"i\" + h64(v)"
	case "f32":
		body = "return prF64(float64(v))"
	case "f64":
		body = "return prF64(v)"
	case "str":
		body = "return prStr(v)"
	case "slice", "arr":
		e := r.printer(t.Elem)
		nilc := ""
		if t.K == "slice" {
			nilc = "if v == nil {\n\t\treturn \"nil\"\n\t}\n\t"
		}
		body = nilc + "s := \"[\"\n\tfor i, e := range v {\n\t\tif i > 0 {\n\t\t\ts += \" \"\n\t\t}\n\t\ts += " + e + "(e)\n\t}\n\treturn s + \"]\""
	case "map":
		e := r.printer(t.Elem)
		body = "if v == nil {\n\t\treturn \"nil\"\n\t}\n\tks := make([]string, 0, len(v))\n\tfor k := range v {\n\t\tks = append(ks, k)\n\t}\n\tsortKeys(ks)\n\ts := \"{\"\n\tfor i, k := range ks {\n\t\tif i > 0 {\n\t\t\ts += \" \"\n\t\t}\n\t\ts += prStr(k) + \"=\" + " + e + "(v[k])\n\t}\n\treturn s + \"}\""
	case "struct":
		var parts []string
		for _, f := range t.Fields {
			parts = append(parts, r.printer(f.T)+"(v."+unitsToString(f.Name)+")")
		}
		body = "return \"{\" + " + strings.Join(parts, " + \" \" + ") + " + \"}\""
		if len(parts) == 0 {
			body = "return \"{}\""
		}
	case "ptr":
		body = "if v == nil {\n\t\treturn \"nil\"\n\t}\n\treturn \"&\" + " + r.printer(t.Elem) + "(*v)"
	case "func":
		body = "return prFunc(v)"
	case "js":
		body = "return prJs(v)"
	case "wrap":
		body = "return \"w(\" + desc(v.Object) + \")\""
	case "wrap2":
		body = "return \"w2(\" + prI64(int64(v.N)) + \",\" + desc(v.O) + \")\""
	case "any":
		body = "return prAny(v)"
	}
	fmt.Fprintf(&r.decls, "func %s(v %s) string {\n\t%s\n}\n", n, gt, body)
	return n
}

// perTypeTemplate: the routes that convert at the static type T; $T = Go type,
// $N = suffix, $P = printer.
const perTypeTemplate = `
type WF$N struct {
	*js.Object
	X $T ` + "`js:\"x\"`" + `
}
type WD$N struct {
	*js.Object
	D  func($T) string ` + "`js:\"describe\"`" + `
	Id func($T) $T ` + "`js:\"c11id\"`" + `
	R  func() $T ` + "`js:\"r\"`" + `
}
type SF$N struct{ F $T }
type WS$N struct {
	*js.Object
	G func(SF$N) SF$N ` + "`js:\"c11id\"`" + `
}
type WM$N struct {
	v   $T
	got string
}

func (w *WM$N) M() $T      { return w.v }
func (w *WM$N) Take(x $T)  { w.got = $P(x) }
func (w *WM$N) Id(x $T) $T { return x }

func eRet$N(v $T) string {
	js.Global.Set("c11f", func() $T { return v })
	return evs("describe(c11f())")
}
func eField$N(v $T) string {
	w := &WF$N{Object: newObj()}
	w.X = v
	return desc(w.Object.Get("x"))
}
func eJsfunc$N(v $T) string {
	w := &WD$N{Object: js.Global}
	return w.D(v)
}
func eWrapret$N(v $T) string {
	js.Global.Set("c11w", js.MakeWrapper(&WM$N{v: v}))
	return evs("describe(c11w.M())")
}
func iParam$N(x string) string {
	out := "not called"
	js.Global.Set("c11g", func(a $T) { out = $P(a) })
	ev("c11g(" + x + ")")
	return out
}
func iField$N(x string) string {
	w := &WF$N{Object: ev("({x:" + x + "})")}
	return $P(w.X)
}
func iJsret$N(x string) string {
	w := &WD$N{Object: ev("({r:function(){return " + x + "}})")}
	return $P(w.R())
}
func iWrapparam$N(x string) string {
	m := &WM$N{got: "not called"}
	js.Global.Set("c11w", js.MakeWrapper(m))
	ev("c11w.Take(" + x + ")")
	return m.got
}
func rIdfield$N(v $T) string {
	w := &WD$N{Object: js.Global}
	return $P(w.Id(v))
}
func rSetget$N(v $T) string {
	w := &WF$N{Object: newObj()}
	w.X = v
	return $P(w.X)
}
func rStructfield$N(v $T) string {
	w := &WS$N{Object: js.Global}
	return $P(w.G(SF$N{v}).F)
}
func xGoid$N(x string) string {
	js.Global.Set("c11g", func(a $T) $T { return a })
	return evs("describe(c11g(" + x + "))")
}
func xWrapid$N(x string) string {
	js.Global.Set("c11w", js.MakeWrapper(&WM$N{}))
	return evs("describe(c11w.Id(" + x + "))")
}
`

// routeSuffix declares the per-type route functions once and returns $N.
func (r *renderer) routeSuffix(t *Type) string {
	c := t.canon()
	if n, ok := r.routes[c]; ok {
		return n
	}
	n := fmt.Sprintf("_%d", len(r.routes))
	r.routes[c] = n
	p := r.printer(t)
	gt := r.goType(t)
	s := strings.NewReplacer("$N", n, "$T", gt, "$P", p).Replace(perTypeTemplate)
	r.decls.WriteString(s)
	return n
}

func floatBitsLit(n Num) string {
	b := math.Float64bits(n.Float())
	if n.Cls == "nan" {
		b = 0x7ff8000000000000
	}
	return fmt.Sprintf("fb(0x%x, 0x%x)", uint32(b>>32), uint32(b))
}

// goLit: a Go expression of static type t that evaluates to v.
func (r *renderer) goLit(v *GV, t *Type) string {
	gt := r.goType(t)
	switch t.K {
	case "bool":
		if v.B {
			return "true"
		}
		return "false"
	case "int", "i64", "u64":
		s := strconv.FormatUint(v.Mag, 10)
		if v.Neg {
			s = "-" + s
		}
		return gt + "(" + s + ")"
	case "f64":
		return floatBitsLit(v.F)
	case "f32":
		return "float32(" + floatBitsLit(v.F) + ")"
	case "str":
		return goStringLit(v.S)
	case "slice":
		if v.Nil {
			return gt + "(nil)"
		}
		// every other non-empty slice literal is a sub-slice with a non-zero offset
		// into a longer backing array (the conversion must honour offset and length)
		r.nslice++
		if len(v.Elems) > 0 && r.nslice%2 == 0 {
			var es []string
			pad := r.goLit(v.Elems[len(v.Elems)-1], t.Elem)
			es = append(es, pad)
			for _, e := range v.Elems {
				es = append(es, r.goLit(e, t.Elem))
			}
			es = append(es, pad)
			return fmt.Sprintf("%s{%s}[1:%d]", gt, strings.Join(es, ", "), len(v.Elems)+1)
		}
		fallthrough
	case "arr":
		var es []string
		for _, e := range v.Elems {
			es = append(es, r.goLit(e, t.Elem))
		}
		return gt + "{" + strings.Join(es, ", ") + "}"
	case "map":
		if v.Nil {
			return gt + "(nil)"
		}
		var es []string
		for i, e := range v.Elems {
			es = append(es, goStringLit(v.Keys[i])+": "+r.goLit(e, t.Elem))
		}
		return gt + "{" + strings.Join(es, ", ") + "}"
	case "struct":
		var es []string
		for i, f := range t.Fields {
			es = append(es, r.goLit(v.Elems[i], f.T))
		}
		return gt + "{" + strings.Join(es, ", ") + "}"
	case "ptr":
		if v.Nil {
			return "(" + gt + ")(nil)"
		}
		return "&" + r.goLit(v.V, t.Elem)
	case "func":
		if v.K == "fj" {
			return fmt.Sprintf("fjs%d", v.ID)
		}
		switch v.ID {
		case 0:
			return "(func(int) int)(nil)"
		case 1:
			return "fnA"
		case 2:
			return "fnB"
		default:
			return "fnC"
		}
	case "js":
		return objLit(v.J)
	case "wrap":
		return "Wr{Object: " + objLit(v.J) + "}"
	case "wrap2":
		return "Wr2{N: " + r.goLit(v.V, &Type{K: "int", Kind: "int"}) + ", O: " + objLit(v.J) + "}"
	case "any":
		if v.K == "ifnil" {
			return "interface{}(nil)"
		}
		return "interface{}(" + r.goLit(v.V, v.T) + ")"
	}
	panic("goLit: " + t.K)
}

func objLit(j *JV) string {
	switch j.K {
	case "jnull":
		return "(*js.Object)(nil)"
	case "jundef":
		return "js.Undefined"
	}
	return "ev(" + strconv.Quote(jsLit(j)) + ")"
}

// progLib is the fixed part of every scenario program.
const progLib = `package main

import (
	"math"

	"github.com/gopherjs/gopherjs/js"
)

var _ = math.NaN

const descJS = ` + "`" + `
(function(){
  var f64 = new Float64Array(1), u32 = new Uint32Array(f64.buffer);
  function num(x){ if (x !== x) return "nan"; f64[0] = x; return u32[1].toString(16) + ":" + u32[0].toString(16); }
  function str(v){ var a = []; for (var i = 0; i < v.length; i++) a.push(v.charCodeAt(i)); return "s(" + a.join(",") + ")"; }
  function D(v, depth){
    depth = depth || 0;
    if (depth > 12) return "deep";
    if (v === null) return "null";
    if (v === undefined) return "undef";
    switch (typeof v) {
      case "boolean": return v ? "T" : "F";
      case "number": return "n" + num(v);
      case "string": return str(v);
      case "function":
        var r; try { r = D(v(20), depth + 1); } catch (e) { r = "throws"; }
        return "fn(" + r + ")";
      case "object":
        if (v.__internal_object__ !== undefined) return "wrapper{" + Object.keys(v).sort().join(",") + "}";
        var c = (Object.getPrototypeOf(v) === null) ? "noproto" : (v.constructor ? v.constructor.name : "noctor");
        if (Array.isArray(v)) { var a = []; for (var i = 0; i < v.length; i++) a.push(D(v[i], depth + 1)); return "A[" + a.join(" ") + "]"; }
        if (ArrayBuffer.isView(v)) { var a = []; for (var i = 0; i < v.length; i++) a.push(D(v[i], depth + 1)); return c + "[" + a.join(" ") + "]"; }
        if (v instanceof Date) return "Date(" + v.getTime() + ")";
        var ks = Object.keys(v).sort(), a = [];
        for (var i = 0; i < ks.length; i++) a.push(str(ks[i]) + "=" + D(v[ks[i]], depth + 1));
        return (c === "Object" ? "" : c) + "{" + a.join(" ") + "}";
    }
    return "other:" + typeof v;
  }
  globalThis.describe = function(v){ return D(v, 0); };
  globalThis["c11 \u044e-describe"] = globalThis.describe;
  globalThis.describe2 = function(a, b){ return D(b, 0); };
  globalThis.C11Holder = function(v){ this.d = D(v, 0); };
  globalThis.c11id = function(x){ return x; };
  globalThis.c11jsfn1 = function(x){ return x + 100; };
  globalThis.c11jsfn2 = function(x){ return x + 200; };
  globalThis.c11keep = [];
  globalThis.c11put = function(x){ c11keep.push(x); };
  globalThis.c11ids = function(){
    var seen = [], out = [];
    for (var i = 0; i < c11keep.length; i++) {
      var k = seen.indexOf(c11keep[i]);
      if (k < 0) { seen.push(c11keep[i]); k = seen.length - 1; }
      out.push(k + 1);
    }
    c11keep = [];
    return out.join(",");
  };
})()
` + "`" + `

type Wr struct{ *js.Object }
type Wr2 struct {
	N int
	O *js.Object
}

var fnA = func(x int) int { return x + 1 }
var fnB = func(x int) int { return x * 2 }
var fnC = func(x int) int { return x - 3 }
var fjs1, fjs2 func(int) int

type wfn struct {
	*js.Object
	F1 func(int) int ` + "`js:\"c11jsfn1\"`" + `
	F2 func(int) int ` + "`js:\"c11jsfn2\"`" + `
}

func setup() {
	js.Global.Call("eval", descJS)
	js.Global.Set("c11gofn1", fnA)
	js.Global.Set("c11gofn2", fnB)
	js.Global.Set("c11gofn3", fnC)
	w := &wfn{Object: js.Global}
	fjs1, fjs2 = w.F1, w.F2
}

func fb(hi, lo uint32) float64 { return math.Float64frombits(uint64(hi)<<32 | uint64(lo)) }

func itoa(n int) string {
	if n == 0 {
		return "0"
	}
	neg := n < 0
	if neg {
		n = -n
	}
	s := ""
	for n > 0 {
		s = string(rune('0'+n%10)) + s
		n /= 10
	}
	if neg {
		s = "-" + s
	}
	return s
}

const hexDigits = "0123456789abcdef"

func hex32(x uint32) string {
	if x == 0 {
		return "0"
	}
	s := ""
	for x > 0 {
		s = string(rune(hexDigits[x&15])) + s
		x >>= 4
	}
	return s
}
func h64(u uint64) string { return hex32(uint32(u>>32)) + ":" + hex32(uint32(u)) }

func prBool(b bool) string {
	if b {
		return "T"
	}
	return "F"
}
func prI64(x int64) string { return "i" + h64(uint64(x)) }
func prF64(x float64) string {
	if x != x {
		return "fnan"
	}
	return "f" + h64(math.Float64bits(x))
}
func prStr(s string) string {
	r := "s("
	for i := 0; i < len(s); i++ {
		if i > 0 {
			r += ","
		}
		r += itoa(int(s[i]))
	}
	return r + ")"
}
func prFunc(f func(int) int) string {
	if f == nil {
		return "nilfunc"
	}
	return "func(" + itoa(f(20)) + ")"
}
func desc(o *js.Object) string { return js.Global.Call("describe", o).String() }
func prJs(o *js.Object) string { return "o(" + desc(o) + ")" }
func ev(x string) *js.Object   { return js.Global.Call("eval", "("+x+")") }
func evs(x string) string      { return js.Global.Call("eval", x).String() }
func newObj() *js.Object       { return js.Global.Get("Object").New() }

func sortKeys(ks []string) {
	for i := 1; i < len(ks); i++ {
		for j := i; j > 0 && ks[j] < ks[j-1]; j-- {
			ks[j], ks[j-1] = ks[j-1], ks[j]
		}
	}
}

func ascii(s string) string {
	b := []byte(s)
	for i, c := range b {
		if c < 0x20 || c >= 0x7f {
			b[i] = '?'
		}
	}
	if len(b) > 160 {
		b = b[:160]
	}
	return string(b)
}

func panicMsg(r interface{}) string {
	switch v := r.(type) {
	case error:
		return ascii(v.Error())
	case string:
		return ascii(v)
	}
	return "?"
}

func run(i int, f func() string) {
	defer func() {
		if r := recover(); r != nil {
			println(i, "P:"+panicMsg(r))
		}
	}()
	s := f()
	println(i, s)
}

// routes that box the value in interface{} before it is converted
const keyNonIdent = "my \u044e\U0001F600 key"

func eSet(v interface{}) string {
	js.Global.Set("c11v", v)
	return desc(js.Global.Get("c11v"))
}
func eSetkey(v interface{}) string {
	o := newObj()
	o.Set(keyNonIdent, v)
	return desc(o.Get(keyNonIdent))
}
func eCall(v interface{}) string    { return js.Global.Call("describe", v).String() }
func eCallkey(v interface{}) string { return js.Global.Call("c11 \u044e-describe", v).String() }
func eCallv(v interface{}) string {
	args := []interface{}{1, v}
	return js.Global.Call("describe2", args...).String()
}
func eInvoke(v interface{}) string { return js.Global.Get("describe").Invoke(v).String() }
func eNew(v interface{}) string    { return js.Global.Get("C11Holder").New(v).Get("d").String() }
func eSetindex(v interface{}) string {
	a := js.Global.Get("Array").New()
	a.SetIndex(0, v)
	return desc(a.Index(0))
}
func eMakefunc(v interface{}) string {
	js.Global.Set("c11f", js.MakeFunc(func(this *js.Object, args []*js.Object) interface{} { return v }))
	return evs("describe(c11f())")
}
func eSetdollar(v interface{}) string {
	js.Global.Set("$c11d", v)
	return desc(js.Global.Get("$c11d"))
}

// accessor routes: on the result of eval, on an element fetched with Index, on
// an argument received by a js.MakeFunc function
func accObj(route int, x string) *js.Object {
	switch route {
	case 1:
		return ev("[" + x + "]").Index(0)
	case 2:
		var got *js.Object
		js.Global.Set("c11f", js.MakeFunc(func(this *js.Object, args []*js.Object) interface{} {
			got = args[0]
			return nil
		}))
		ev("c11f(" + x + ")")
		return got
	}
	return ev(x)
}
func aBool(route int, x string) string    { return prBool(accObj(route, x).Bool()) }
func aString(route int, x string) string  { return prStr(accObj(route, x).String()) }
func aInt(route int, x string) string     { return prI64(int64(accObj(route, x).Int())) }
func aInt64(route int, x string) string   { return prI64(accObj(route, x).Int64()) }
func aUint64(route int, x string) string  { return "i" + h64(accObj(route, x).Uint64()) }
func aFloat(route int, x string) string   { return prF64(accObj(route, x).Float()) }
func aIface(route int, x string) string   { return prAny(accObj(route, x).Interface()) }
func aLength(x string) string             { return prI64(int64(ev(x).Length())) }
func nIndex(x string, i int) string       { return desc(ev(x).Index(i)) }
func nGet(x string, k string) string      { return desc(ev(x).Get(k)) }
func mSet(x string, k string, v interface{}) string {
	o := ev(x)
	o.Set(k, v)
	return desc(o)
}
func mDelete(x string, k string) string {
	o := ev(x)
	o.Delete(k)
	return desc(o)
}
func mSetIndex(x string, i int, v interface{}) string {
	o := ev(x)
	o.SetIndex(i, v)
	return desc(o)
}
`

// prAnySource: the printer of interface{} values; the case list is the third
// column of the documentation table plus the types whose appearance would be a
// wrong conversion (so that the output names them).
func (r *renderer) prAnySource() string {
	sl := func(k string) *Type { return &Type{K: "slice", Elem: &Type{K: "int", Kind: k}} }
	types := []*Type{sl("int8"), sl("int16"), sl("int32"), sl("int"), sl("uint8"), sl("uint16"), sl("uint32"), sl("uint"), sl("uintptr"),
		{K: "slice", Elem: &Type{K: "f32"}}, {K: "slice", Elem: &Type{K: "f64"}}, {K: "slice", Elem: &Type{K: "any"}}, {K: "map", Elem: &Type{K: "any"}}}
	var sb strings.Builder
	sb.WriteString("func prAny(x interface{}) string {\n\tswitch v := x.(type) {\n\tcase nil:\n\t\treturn \"any:nil\"\n")
	sb.WriteString("\tcase bool:\n\t\treturn \"any:bool:\" + prBool(v)\n\tcase float64:\n\t\treturn \"any:float64:\" + prF64(v)\n\tcase string:\n\t\treturn \"any:string:\" + prStr(v)\n")
	sb.WriteString("\tcase int:\n\t\treturn \"any:int:\" + prI64(int64(v))\n\tcase int64:\n\t\treturn \"any:int64:\" + prI64(v)\n\tcase float32:\n\t\treturn \"any:float32:\" + prF64(float64(v))\n")
	for _, t := range types {
		fmt.Fprintf(&sb, "\tcase %s:\n\t\treturn \"any:%s:\" + %s(v)\n", r.goType(t), anyLabel(t), r.printer(t))
	}
	sb.WriteString("\tcase func(...interface{}) *js.Object:\n\t\treturn \"any:func:func(\" + itoa(v(20).Int()) + \")\"\n")
	sb.WriteString("\tcase *js.Object:\n\t\treturn \"any:*js.Object:\" + prJs(v)\n")
	sb.WriteString("\t}\n\treturn \"any:other\"\n}\n")
	return sb.String()
}
