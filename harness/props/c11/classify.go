package c11

import (
	"path/filepath"
	"sort"
	"strings"

	"verif/core"
)

// Classification of failing evaluations.
//
// A failing evaluation carries the classifier key of a recorded finding only if
// the observation is EXACTLY what the guard predicts once the finding's defect
// model (oracle.go, type quirks) is switched on -- alone or together with at
// most two other defect models.  Anything else a program prints (in particular
// what a seeded change makes it print) stays unexplained and is reported as a
// violation, even for types and routes on which known defects show.

type quirkDef struct {
	key string
	set func(q *quirks)
}

var quirkDefs = []quirkDef{
	{"global_property_with_dollar_name", func(q *quirks) { q.dollar = true }},
	{"js_tagged_field_of_struct_or_array_type_assignment_lost", func(q *quirks) { q.fieldAssign = true }},
	{"uintptr_slice_is_typed_array", func(q *quirks) { q.uintptrTyped = true }},
	{"float32_read_without_rounding", func(q *quirks) { q.f32NoRound = true }},
	{"int64_read_is_not_parseint", func(q *quirks) { q.int64ToNumber = true }},
	{"null_read_as_struct_pointer_throws", func(q *quirks) { q.nullPtrThrows = true }},
	{"null_read_as_map_is_not_nil", func(q *quirks) { q.nullMapEmpty = true }},
	{"null_read_as_func_is_not_nil", func(q *quirks) { q.nullFuncWrapper = true }},
	{"negative_zero_sign_lost_on_read", func(q *quirks) { q.negZero = true }},
	{"negative_zero_sign_lost_on_read", func(q *quirks) { q.negZeroNested = true }},
	{"non_ascii_field_name_mangled", func(q *quirks) { q.nonASCII = true }},
	{"js_object_field_not_first", func(q *quirks) { q.wrap2Plain = true }},
	{"struct_with_first_field_interface_holding_js_object_is_wrapper", func(q *quirks) { q.ifaceFirstWrapper = true }},
}

const prefixMark = "\x00" // a prediction that ends with it matches every observation it is a prefix of

func safeEval(f func() string) (s string) {
	defer func() {
		if r := recover(); r != nil {
			if p, ok := r.(evalPanic); ok {
				s = string(p)
				return
			}
			s = "<defect model not applicable>"
		}
	}()
	return f()
}

func matches(pred, got string) bool {
	if strings.HasSuffix(pred, prefixMark) {
		return strings.HasPrefix(got, strings.TrimSuffix(pred, prefixMark))
	}
	return pred == got
}

// explain returns the keys of the smallest set of defect models under which the
// guard predicts exactly the observation, nil if there is none.
func explain(e *ev, got string) []string {
	defer func() { *Q = quirks{} }()
	try := func(idx ...int) bool {
		*Q = quirks{}
		for _, i := range idx {
			quirkDefs[i].set(Q)
		}
		return matches(safeEval(e.pred), got)
	}
	keysOf := func(idx ...int) []string {
		m := map[string]bool{}
		for _, i := range idx {
			m[quirkDefs[i].key] = true
		}
		var ks []string
		for k := range m {
			ks = append(ks, k)
		}
		sort.Strings(ks)
		return ks
	}
	if try() {
		// the guard itself predicts the observation: the failing comparison is not the
		// implementation's (a falsified prediction); no finding explains that
		return nil
	}
	n := len(quirkDefs)
	for a := 0; a < n; a++ {
		if try(a) {
			return keysOf(a)
		}
	}
	for a := 0; a < n; a++ {
		for b := a + 1; b < n; b++ {
			if try(a, b) {
				return keysOf(a, b)
			}
		}
	}
	for a := 0; a < n; a++ {
		for b := a + 1; b < n; b++ {
			for d := b + 1; d < n; d++ {
				if try(a, b, d) {
					return keysOf(a, b, d)
				}
			}
		}
	}
	return nil
}

func typeHas(t *Type, pred func(*Type) bool) bool {
	if t == nil {
		return false
	}
	if pred(t) {
		return true
	}
	if typeHas(t.Elem, pred) {
		return true
	}
	for _, f := range t.Fields {
		if typeHas(f.T, pred) {
			return true
		}
	}
	return false
}

func valueTypeHas(v *GV, pred func(*Type) bool) bool {
	if v == nil {
		return false
	}
	if v.K == "if" && typeHas(v.T, pred) {
		return true
	}
	for _, e := range v.Elems {
		if valueTypeHas(e, pred) {
			return true
		}
	}
	return valueTypeHas(v.V, pred)
}

var listed map[string]bool

func loadListed() {
	listed = map[string]bool{}
	fs, err := core.LoadFindings(filepath.Join(core.Root, "known_findings.txt"))
	if err != nil {
		return
	}
	for _, f := range fs {
		if f.Property == "C11" && !f.Fixed {
			listed[f.Key] = true
		}
	}
}

// classify returns the classifier keys handed to core.Report.  When several
// defect models are needed together, the case counts as known only if every one
// of them is a recorded finding: otherwise only the unrecorded keys are passed on.
func classify(e *ev, got string) []string {
	keys := explain(e, got)
	if keys == nil {
		// struct{ N int; O *js.Object }: the documentation-literal reading (content of
		// the field) against a plain struct; only its externalisation is modelled
		isW2 := func(x *Type) bool { return x.K == "wrap2" }
		if typeHas(e.typ, isW2) || valueTypeHas(e.val, isW2) {
			return []string{"js_object_field_not_first"}
		}
		return nil
	}
	if len(keys) > 1 {
		if listed == nil {
			loadListed()
		}
		var unlisted []string
		for _, k := range keys {
			if !listed[k] {
				unlisted = append(unlisted, k)
			}
		}
		if len(unlisted) > 0 {
			return unlisted
		}
	}
	return keys
}

// ---- predictions of the guard per family and route (recomputed under defect models) ----

func isAggregate(t *Type) bool {
	return t.K == "arr" || t.K == "struct" || t.K == "wrap" || t.K == "wrap2"
}

func firstExported(t *Type) (string, bool) {
	for _, f := range t.Fields {
		if f.Exported {
			return unitsToString(fieldKey(f.Name)), true
		}
	}
	return "", false
}

// readUndefined: what reading an undefined property at aggregate type t yields
// (the descriptor, or the panic raised while reading).
func readUndefined(t *Type) string {
	switch {
	case t.K == "arr":
		return "P:runtime error: cannot internalize undefined as a " + prefixMark
	case t.K == "struct" && jsFieldIdx(t) < 0:
		if name, ok := firstExported(t); ok {
			return "P:JavaScript error: Cannot read properties of undefined (reading '" + name + "')"
		}
		return gdesc(zeroOf(t), t)
	case t.K == "wrap2":
		return "P:JavaScript error: Cannot read properties of undefined (reading 'N')"
	}
	return gdesc(oInternalize(&JV{K: "jundef"}, t), t)
}

func predE(route string, t *Type, v *GV) func() string {
	return func() string {
		if Q.dollar && route == "setdollar" {
			return "P:JavaScript error: $c11d is not defined"
		}
		if Q.fieldAssign && route == "field" && isAggregate(t) {
			// w.X = v is compiled as a copy into the value read from the property:
			// reading the still undefined property may fail; the property is never written
			if r := readUndefined(t); strings.HasPrefix(r, "P:") {
				return r
			}
			return "undef"
		}
		return jdesc(oExternalize(v, t))
	}
}

func predR(route string, t *Type, v *GV) func() string {
	return func() string {
		if Q.fieldAssign && route == "setget" && isAggregate(t) {
			return readUndefined(t)
		}
		if route == "structfield" {
			// the value travels as the field F of struct{ F T }
			sf := &Type{K: "struct", Fields: []Field{{Name: []uint16{'F'}, Exported: true, T: t}}}
			r := oInternalize(oExternalize(&GV{K: "st", Elems: []*GV{v}}, sf), sf)
			if r.K != "st" {
				return "?"
			}
			return gdesc(r.Elems[0], t)
		}
		return gdesc(oInternalize(oExternalize(v, t), t), t)
	}
}

func predI(route string, t *Type, j *JV) func() string {
	return func() string { return gdesc(oInternalize(j, t), t) }
}
