// Package c11 decides C11 (see DESIGN.md section 4). Not built yet.
package c11
