// Package c11 decides C11 (Go and JavaScript values convert as documented and
// round-trip).
//
// spec/JsMapping.tla is the documentation of package js written as the
// operators Externalize / Internalize (numbers as exact dyadic values, strings
// as UTF-8 bytes and UTF-16 code units), spec/JsMappingState.tla is the state
// machine of the function wrapper cache and of the callback guard, and
// spec/JsMappingScen.tla enumerates the catalog of types, the value pools and
// the cases with the predicted value.  Every case is rendered through every
// route of its family (Set/Get, Call/Invoke/New argument, result of an exposed
// function, js-tagged struct field, js.MakeFunc, js.MakeWrapper, accessor
// methods) as a line of a self-checking GopherJS program; a JavaScript
// describe() helper and generated Go printers turn what arrived into a
// canonical ASCII string which is compared with the prediction.
//
// There is no native guard (gc cannot build package js): oracle.go is a second,
// independent transcription of the documentation; a case on which it disagrees
// with the TLA+ prediction is discarded and counted.
package c11

import (
	"encoding/json"
	"fmt"
	"math"
	"math/rand"
	"os"
	"path/filepath"
	"sort"
	"strconv"
	"strings"
	"time"

	"verif/core"
	"verif/gjs"
	"verif/reg"
	"verif/tlcx"
)

func init() { reg.Register("C11", "model_checking", Run) }

// ev is one evaluation: a case rendered through one route.
type ev struct {
	fam, route string
	tIdx       int                      // catalog index of the type (-1: none)
	want       string                   // descriptor of the value TLC predicts (the guard agreed)
	gen        func(r *renderer) string // Go expression of type string
	pred       func() string            // the guard's prediction, recomputed under defect models by classify.go
	typ        *Type                    // for the fallback classifier
	val        *GV
	describe   string // human description of the case
	raw        string // scenario as emitted by TLC
}

type specHeader struct {
	catalog []*Type
	routes  map[string][][2]string
	acc     []*Type
}

func decodeRoutes(x any) [][2]string {
	var out [][2]string
	for _, r := range arr(x) {
		a := arr(r)
		out = append(out, [2]string{a[0].(string), a[1].(string)})
	}
	return out
}

// boundary alphabets (the chunks TLC concatenates)
var utf8Chunks = [][]byte{
	{0x41}, {0x00}, {0x7f}, {0xc2, 0x80}, {0xc3, 0xa9}, {0xdf, 0xbf}, {0xe0, 0xa0, 0x80}, {0xe2, 0x82, 0xac}, {0xef, 0xbf, 0xbd}, {0xef, 0xbf, 0xbf},
	{0xed, 0x9f, 0xbf}, {0xee, 0x80, 0x80}, {0xf0, 0x90, 0x80, 0x80}, {0xf0, 0x9f, 0x98, 0x80}, {0xf4, 0x8f, 0xbf, 0xbf},
	// malformed: lone continuation, invalid byte, overlong, encoded surrogate, above U+10FFFF, truncated
	{0x80}, {0xff}, {0xc0, 0x80}, {0xed, 0xa0, 0x80}, {0xf4, 0x90, 0x80, 0x80}, {0xe2, 0x82}, {0xf0, 0x9f, 0x98},
}
var utf16Chunks = [][]uint16{
	{0x41}, {0x00}, {0x7f}, {0x80}, {0xe9}, {0x7ff}, {0x800}, {0x20ac}, {0xd7ff}, {0xe000}, {0xfffd}, {0xffff},
	{0xd800, 0xdc00}, {0xd83d, 0xde00}, {0xdbff, 0xdfff}, {0xd800}, {0xdbff}, {0xdc00}, {0xdfff},
}

func limbsOf(u uint64) []int {
	return []int{int(u & 0xffff), int(u >> 16 & 0xffff), int(u >> 32 & 0xffff), int(u >> 48 & 0xffff)}
}

func numTerm(n Num) []any {
	b := func(x bool) int {
		if x {
			return 1
		}
		return 0
	}
	switch n.Cls {
	case "nan":
		return []any{"nan"}
	case "inf", "zero":
		return []any{n.Cls, b(n.Neg)}
	}
	return []any{"fin", b(n.Neg), limbsOf(n.M), n.E}
}

func makeParams(c *core.Ctx) map[string]any {
	rng := rand.New(rand.NewSource(c.Seed))
	nq := func(q, t int) int { return c.Pick(q, t) }
	chunks := utf8Chunks
	units := utf16Chunks
	// quick: all concatenations of at most 2 chunks; thorough: of at most 3
	maxChunks, maxUnits := c.Pick(2, 3), c.Pick(2, 3)
	var randStrs [][]int
	for i := 0; i < nq(40, 1500); i++ {
		n := 1 + rng.Intn(6)
		var s []byte
		for k := 0; k < n; k++ {
			switch rng.Intn(4) {
			case 0:
				s = append(s, byte(rng.Intn(256)))
			case 1:
				s = append(s, []byte(string(rune(rng.Intn(0x110000))))...)
			case 2:
				s = append(s, []byte(string(rune(0x10000+rng.Intn(0x100000))))...)
			default:
				s = append(s, utf8Chunks[rng.Intn(len(utf8Chunks))]...)
			}
		}
		is := make([]int, len(s))
		for k, b := range s {
			is[k] = int(b)
		}
		randStrs = append(randStrs, is)
	}
	var ri, ru [][]any
	for i := 0; i < nq(12, 400); i++ {
		x := rng.Uint64()
		if i%3 == 0 {
			x >>= uint(rng.Intn(40)) // around 2^53 and below
		}
		neg := 0
		if int64(x) < 0 {
			neg = 1
			x = uint64(-int64(x))
		}
		ri = append(ri, []any{neg, limbsOf(x)})
		y := rng.Uint64()
		if i%3 == 1 {
			y >>= uint(rng.Intn(12))
		}
		ru = append(ru, []any{0, limbsOf(y)})
	}
	var rf [][]any
	for i := 0; i < nq(12, 400); i++ {
		f := math.Float64frombits(rng.Uint64())
		if f != f || math.IsInf(f, 0) {
			f = rng.NormFloat64()
		}
		rf = append(rf, numTerm(NumOf(f)))
	}
	ci := make([][]int, len(chunks))
	for i, ch := range chunks {
		ci[i] = make([]int, len(ch))
		for k, b := range ch {
			ci[i][k] = int(b)
		}
	}
	return map[string]any{"out": "scen", "chunks": ci, "maxChunks": maxChunks, "randStrs": randStrs, "units": units, "maxUnits": maxUnits,
		"randI64": ri, "randU64": ru, "randF64": rf,
		"fams": []string{"E", "R", "I", "X", "A", "ES", "IS", "L", "N", "M", "F", "C", "W"}}
}

const stateCfg = `SPECIFICATION StateSpec
CONSTANTS
  GoFuncs = {f1, f2, f3}
  Goroutines = {g1, g2}
  MaxExt = 5
INVARIANT CacheFunctional
INVARIANT CacheAgreesWithPure
INVARIANT GuardConsistent
PROPERTY GuardNoCorruption
CHECK_DEADLOCK FALSE
`

// Run is the C11 check.
func Run(c *core.Ctx, pool *gjs.Pool) {
	c.Assumef("the specification is the documentation of package js (table and method comments of js/js.go), the README section on goroutines and callbacks, ECMAScript ToBoolean/ToString/parseInt/parseFloat on the modelled fragment, UTF-8 and UTF-16")
	c.Assumef("no native guard exists (gc cannot build package js): the guard is a second transcription of the documentation (oracle.go) that uses Go's own conversions; disagreement with the TLA+ prediction discards the case")
	c.Assumef("results the documentation leaves undefined (parseInt yielding NaN for an integer, numbers outside the integer type, unpaired surrogates, undefined read as interface{}, Date without package time, a callback that blocks while called synchronously from a goroutine) are recorded, not judged")
	c.Assumef("time.Time <-> Date and instanceof Node are outside the check (package time does not compile in this sandbox; no DOM under Node)")
	if rd := os.Getenv("VERIF_REPLAY"); rd != "" {
		c.Infra(fmt.Errorf("replay directories of C11 carry prog/ and predicted.txt and are re-decided by the generic replay"))
		return
	}
	// the state machine (cache, callback guard) and the scenario enumeration are independent TLC runs
	type tlcRes struct {
		r   *tlcx.Result
		err error
	}
	stateCh := make(chan tlcRes, 1)
	go func() {
		r, err := tlcx.Run(c, tlcx.Opts{Module: "JsMappingState", Cfg: stateCfg, Workers: 2, Timeout: 10 * time.Minute})
		stateCh <- tlcRes{r, err}
	}()
	pj, _ := json.Marshal(makeParams(c))
	cfg := "SPECIFICATION Spec\nINVARIANT Check\nINVARIANT Emit\nCHECK_DEADLOCK FALSE\n"
	r, err := tlcx.Run(c, tlcx.Opts{Module: "JsMappingScen", Cfg: cfg, Workers: 6, Timeout: 25 * time.Minute, Files: map[string]string{"c11_params.json": string(pj)}, HeapMB: 6144})
	sr := <-stateCh
	if !tlcx.MustComplete(c, sr.r, sr.err, "JsMappingState") {
		return
	}
	if !tlcx.MustComplete(c, r, err, "JsMappingScen") {
		return
	}
	c.Set("checker_cmd", "tlc JsMappingState (INVARIANTS CacheFunctional CacheAgreesWithPure GuardConsistent, PROPERTY GuardNoCorruption); tlc JsMappingScen (INVARIANT Check: RoundTrip, BoxTransparent, NumOK, Utf16OK, JsRoundTrip on every enumerated value; INVARIANT Emit)")
	c.Set("exhaustive", true)

	evs, _, err := loadCases(c, r.Dir)
	if err != nil {
		c.Infra(fmt.Errorf("decode scenarios: %v", err))
		return
	}
	if n, err := strconv.Atoi(os.Getenv("C11_CORRUPT_PREDICTION")); err == nil && n >= 0 && n < len(evs) {
		// non-vacuity drill: one predicted descriptor is falsified, the check must fail
		evs[n].want += "!"
	}
	c.Phase("tlc")
	// all programs (conversion tables, identity, callbacks, wrapper) share one pool of c.Workers
	var jobs []func()
	var finish []func()
	for _, f := range []func() ([]func(), func()){
		func() ([]func(), func()) { return runEvals(c, pool, evs) },
		func() ([]func(), func()) { return runIdentity(c, pool, r.Dir) },
		func() ([]func(), func()) { return runCallbacks(c, pool, r.Dir) },
		func() ([]func(), func()) { return runWrapper(c, pool, r.Dir) },
	} {
		j, fin := f()
		jobs = append(jobs, j...)
		if fin != nil {
			finish = append(finish, fin)
		}
	}
	c.ParMap(len(jobs), func(i int) { jobs[i]() })
	for _, fin := range finish {
		fin()
	}
	c.Phase("run")
	c.Set("rule", "TLC enumerates the catalog of Go types (20 leaf types, six composites over each, 12 nested shapes) x value pools (boundary + VERIF_SEED members), the pool of JavaScript values x accessor types, all concatenations of <= maxChunks UTF-8 / UTF-16 boundary chunks, all sequences of 2..4 externalisations of 3 functions, and 2 x 5 callback situations, each with the value the specification predicts; an evaluation is one case rendered through one route; distinct = distinct (family, route, type, input); non-trivial = every judged evaluation (each performs at least one Go<->JavaScript conversion); cases whose result the documentation leaves undefined are counted in unspecified_not_judged")
}

func readUnitFiles(dir string, each func(fam string, idx, row int, cases []any) error) error {
	files, _ := filepath.Glob(filepath.Join(dir, "scen.*.ndjson"))
	sort.Strings(files)
	for _, f := range files {
		err := tlcx.ReadNDJSON(f, func(raw json.RawMessage) error {
			v, err := decodeJSONTwice(raw)
			if err != nil {
				return err
			}
			a := arr(v)
			return each(a[0].(string), ival(a[1]), ival(a[2]), arr(a[3]))
		})
		if err != nil {
			return fmt.Errorf("%s: %v", filepath.Base(f), err)
		}
	}
	return nil
}

func readHeader(dir string) (*specHeader, error) {
	b, err := os.ReadFile(filepath.Join(dir, "scen.header.json"))
	if err != nil {
		return nil, err
	}
	v, err := decodeJSONTwice(json.RawMessage(strings.TrimSpace(string(b))))
	if err != nil {
		return nil, err
	}
	a := arr(v)
	h := &specHeader{routes: map[string][][2]string{}}
	for _, t := range arr(a[0]) {
		h.catalog = append(h.catalog, decType(t))
	}
	for i, n := range []string{"E", "I", "A", "R", "X"} {
		h.routes[n] = decodeRoutes(a[1+i])
	}
	for _, t := range arr(a[6]) {
		h.acc = append(h.acc, decType(t))
	}
	return h, nil
}

func title(s string) string { return strings.ToUpper(s[:1]) + s[1:] }

func js(x any) string { b, _ := json.Marshal(x); return string(b) }

// loadCases decodes what TLC wrote, guards every prediction with the second
// transcription and expands the cases into evaluations.
func loadCases(c *core.Ctx, dir string) (evs []*ev, hdr *specHeader, err error) {
	defer func() {
		if r := recover(); r != nil {
			if te, ok := r.(termErr); ok {
				err = te
				return
			}
			panic(r)
		}
	}()
	hdr, err = readHeader(dir)
	if err != nil {
		return nil, nil, err
	}
	tidx := map[string]int{}
	for i, t := range hdr.catalog {
		tidx[t.canon()] = i
	}
	discards, unspecified, cases := 0, 0, 0
	famCount := map[string]int{}
	accName := map[string]string{"bool": "Bool", "str": "String", "int": "Int", "i64": "Int64", "u64": "Uint64", "f64": "Float", "any": "Iface"}
	agreeJ := func(a, b *JV) bool { return a.canon() == b.canon() }
	agreeG := func(a, b *GV) bool { return a.canon() == b.canon() }
	add := func(e *ev) {
		evs = append(evs, e)
	}
	err = readUnitFiles(dir, func(fam string, idx, row int, cs []any) error {
		for _, cx := range cs {
			ca := arr(cx)
			cases++
			famCount[fam]++
			raw := js([]any{fam, cx})
			switch fam {
			case "E", "ES":
				if fam == "ES" {
					// <<CaseE, predicted round trip>>
					rt := decGV(ca[1])
					ca = arr(ca[0])
					t, v := decType(ca[0]), decGV(ca[1])
					if o := oInternalize(oExternalize(v, t), t); !rt.hasUnspec() && !agreeG(o, rt) {
						discards++
					} else if !rt.hasUnspec() {
						vv, tt := v, t
						want := gdesc(rt, t)
						rroutes := hdr.routes["R"]
						if !c.Thorough() {
							rroutes = rroutes[:2]
						}
						for _, rr := range rroutes {
							rr := rr
							add(&ev{fam: "R", route: rr[0], tIdx: tidx[t.canon()], want: want, raw: raw, typ: tt, val: vv,
								describe: fmt.Sprintf("round trip of %s value %s", t.canon(), v.canon()),
								gen:      func(r *renderer) string { return "r" + title(rr[0]) + r.routeSuffix(tt) + "(" + r.goLit(vv, tt) + ")" },
								pred:     predR(rr[0], tt, vv)})
						}
					}
				}
				t, v, pred := decType(ca[0]), decGV(ca[1]), decJV(ca[2])
				if pred.hasUnspec() {
					unspecified++
					continue
				}
				if !agreeJ(oExternalize(v, t), pred) {
					discards++
					continue
				}
				want := jdesc(pred)
				routes := hdr.routes["E"]
				if fam == "ES" && !c.Thorough() {
					// the bulk strings go through two boxed and two static routes in the quick tier
					routes = bulkRoutes(routes, []string{"call", "setkey", "field", "ret"})
				}
				for _, rr := range routes {
					rr := rr
					e := &ev{fam: "E", route: rr[0], tIdx: tidx[t.canon()], want: want, raw: raw, typ: t, val: v,
						describe: fmt.Sprintf("Go %s value %s handed to JavaScript", t.canon(), v.canon()),
						pred:     predE(rr[0], t, v)}
					if rr[1] == "boxed" {
						e.gen = func(r *renderer) string { return "e" + title(rr[0]) + "(" + r.goLit(v, t) + ")" }
					} else {
						e.gen = func(r *renderer) string { return "e" + title(rr[0]) + r.routeSuffix(t) + "(" + r.goLit(v, t) + ")" }
					}
					add(e)
				}
			case "R":
				t, v, pred := decType(ca[0]), decGV(ca[1]), decGV(ca[2])
				if pred.hasUnspec() {
					unspecified++
					continue
				}
				if !agreeG(oInternalize(oExternalize(v, t), t), pred) {
					discards++
					continue
				}
				want := gdesc(pred, t)
				for _, rr := range hdr.routes["R"] {
					rr := rr
					add(&ev{fam: "R", route: rr[0], tIdx: tidx[t.canon()], want: want, raw: raw, typ: t, val: v,
						describe: fmt.Sprintf("round trip of %s value %s", t.canon(), v.canon()),
						gen:      func(r *renderer) string { return "r" + title(rr[0]) + r.routeSuffix(t) + "(" + r.goLit(v, t) + ")" },
						pred:     predR(rr[0], t, v)})
				}
			case "I", "A", "IS":
				var predX *JV
				if fam == "IS" {
					predX = decJV(ca[1])
					ca = arr(ca[0])
				}
				t, j, pred := decType(ca[0]), decJV(ca[1]), decGV(ca[2])
				if predX != nil && !predX.hasUnspec() {
					if !agreeJ(oExternalize(oInternalize(j, t), t), predX) {
						discards++
					} else {
						wantX := jdesc(predX)
						xroutes := hdr.routes["X"]
						if !c.Thorough() {
							xroutes = xroutes[:1]
						}
						for _, rr := range xroutes {
							rr := rr
							add(&ev{fam: "X", route: rr[0], tIdx: tidx[t.canon()], want: wantX, raw: raw,
								describe: fmt.Sprintf("JavaScript value %s through an exposed Go function of type %s and back", j.canon(), t.canon()),
								gen: func(r *renderer) string {
									return "x" + title(rr[0]) + r.routeSuffix(t) + "(" + strconv.Quote(jsLit(j)) + ")"
								},
								typ: t, pred: func() string { return jdesc(oExternalize(oInternalize(j, t), t)) }})
						}
					}
				}
				if pred.hasUnspec() {
					unspecified++
					continue
				}
				if !agreeG(oInternalize(j, t), pred) {
					discards++
					continue
				}
				want := gdesc(pred, t)
				if fam == "A" {
					for ri, rr := range hdr.routes["A"] {
						rr, ri := rr, ri
						name := accName[t.K]
						add(&ev{fam: "A", route: name + "/" + rr[0], tIdx: -1, want: want, raw: raw, typ: t,
							describe: fmt.Sprintf("accessor %s on JavaScript value %s", name, j.canon()),
							gen:      func(r *renderer) string { return fmt.Sprintf("a%s(%d, %s)", name, ri, strconv.Quote(jsLit(j))) },
							pred:     predI("acc", t, j)})
					}
					continue
				}
				routes := hdr.routes["I"]
				if fam == "IS" && !c.Thorough() {
					routes = bulkRoutes(routes, []string{"param", "field"})
				}
				for _, rr := range routes {
					rr := rr
					add(&ev{fam: "I", route: rr[0], tIdx: tidx[t.canon()], want: want, raw: raw,
						describe: fmt.Sprintf("JavaScript value %s read at Go type %s", j.canon(), t.canon()),
						gen: func(r *renderer) string {
							return "i" + title(rr[0]) + r.routeSuffix(t) + "(" + strconv.Quote(jsLit(j)) + ")"
						},
						typ: t, pred: predI(rr[0], t, j)})
				}
			case "X":
				t, j, pred := decType(ca[0]), decJV(ca[1]), decJV(ca[2])
				if pred.hasUnspec() {
					unspecified++
					continue
				}
				if !agreeJ(oExternalize(oInternalize(j, t), t), pred) {
					discards++
					continue
				}
				want := jdesc(pred)
				for _, rr := range hdr.routes["X"] {
					rr := rr
					add(&ev{fam: "X", route: rr[0], tIdx: tidx[t.canon()], want: want, raw: raw,
						describe: fmt.Sprintf("JavaScript value %s through an exposed Go function of type %s and back", j.canon(), t.canon()),
						gen: func(r *renderer) string {
							return "x" + title(rr[0]) + r.routeSuffix(t) + "(" + strconv.Quote(jsLit(j)) + ")"
						},
						typ: t, pred: func() string { return jdesc(oExternalize(oInternalize(j, t), t)) }})
				}
			case "L":
				j, pred := decJV(ca[0]), decGV(ca[1])
				if pred.hasUnspec() {
					unspecified++
					continue
				}
				if !agreeG(oLength(j), pred) {
					discards++
					continue
				}
				add(&ev{fam: "L", route: "Length", tIdx: -1, want: gdesc(pred, &Type{K: "int", Kind: "int"}), raw: raw,
					describe: "Length of JavaScript value " + j.canon(),
					gen:      func(r *renderer) string { return "aLength(" + strconv.Quote(jsLit(j)) + ")" },
					pred:     func() string { return gdesc(oLength(j), &Type{K: "int", Kind: "int"}) }})
			case "N":
				op, j, pred := ca[0].(string), decJV(ca[1]), decJV(ca[3])
				if pred.hasUnspec() {
					unspecified++
					continue
				}
				if op == "index" {
					i := ival(ca[2])
					if !agreeJ(oIndex(j, i), pred) {
						discards++
						continue
					}
					add(&ev{fam: "N", route: "Index", tIdx: -1, want: jdesc(pred), raw: raw,
						describe: fmt.Sprintf("Index(%d) of %s", i, j.canon()),
						gen:      func(r *renderer) string { return fmt.Sprintf("nIndex(%s, %d)", strconv.Quote(jsLit(j)), i) },
						pred:     func() string { return jdesc(oIndex(j, i)) }})
				} else {
					key := bytesOf(ca[2])
					if !agreeJ(oGet(j, oExtString(key)), pred) {
						discards++
						continue
					}
					add(&ev{fam: "N", route: "Get", tIdx: -1, want: jdesc(pred), raw: raw,
						describe: fmt.Sprintf("Get(%q) of %s", key, j.canon()),
						gen: func(r *renderer) string {
							return fmt.Sprintf("nGet(%s, %s)", strconv.Quote(jsLit(j)), goStringLit(key))
						},
						pred: func() string { return jdesc(oGet(j, oExtString(key))) }})
				}
			case "M":
				op, j, t, v, pred := ca[0].(string), decJV(ca[1]), decType(ca[3]), decGV(ca[4]), decJV(ca[5])
				if pred.hasUnspec() {
					unspecified++
					continue
				}
				switch op {
				case "set", "delete":
					key := bytesOf(ca[2])
					var o *JV
					if op == "set" {
						o = oSet(j, oExtString(key), oExternalize(v, t))
					} else {
						o = oDelete(j, oExtString(key))
					}
					if !agreeJ(o, pred) {
						discards++
						continue
					}
					e := &ev{fam: "M", route: title(op), tIdx: -1, want: jdesc(pred), raw: raw, typ: t, val: v,
						describe: fmt.Sprintf("%s(%q) on %s", title(op), key, j.canon())}
					if op == "set" {
						e.pred = func() string { return jdesc(oSet(j, oExtString(key), oExternalize(v, t))) }
						e.gen = func(r *renderer) string {
							return fmt.Sprintf("mSet(%s, %s, %s)", strconv.Quote(jsLit(j)), goStringLit(key), r.goLit(v, t))
						}
					} else {
						e.pred = func() string { return jdesc(oDelete(j, oExtString(key))) }
						e.gen = func(r *renderer) string {
							return fmt.Sprintf("mDelete(%s, %s)", strconv.Quote(jsLit(j)), goStringLit(key))
						}
					}
					add(e)
				case "setindex":
					i := ival(ca[2])
					if !agreeJ(oSetIndex(j, i, oExternalize(v, t)), pred) {
						discards++
						continue
					}
					add(&ev{fam: "M", route: "SetIndex", tIdx: -1, want: jdesc(pred), raw: raw, typ: t, val: v,
						describe: fmt.Sprintf("SetIndex(%d) on %s", i, j.canon()),
						pred:     func() string { return jdesc(oSetIndex(j, i, oExternalize(v, t))) },
						gen: func(r *renderer) string {
							return fmt.Sprintf("mSetIndex(%s, %d, %s)", strconv.Quote(jsLit(j)), i, r.goLit(v, t))
						}})
				}
			case "F", "C", "W":
				// rendered by their own programs (identity.go)
			}
		}
		return nil
	})
	if err != nil {
		return nil, nil, err
	}
	c.Set("cases", cases)
	c.Set("cases_by_family", famCount)
	c.Set("spec_guard_discards", discards)
	c.Set("unspecified_not_judged", unspecified)
	c.Set("types", len(hdr.catalog))
	if discards > 0 {
		fmt.Printf("note: %d cases discarded because the two transcriptions of the documentation disagree\n", discards)
	}
	return evs, hdr, nil
}

func bulkRoutes(all [][2]string, names []string) [][2]string {
	var out [][2]string
	for _, r := range all {
		for _, n := range names {
			if r[0] == n {
				out = append(out, r)
			}
		}
	}
	return out
}

// ---- programs ----

const partSize = 250

func renderProgram(evs []*ev) gjs.Prog {
	r := newRenderer()
	var calls []string
	for _, e := range evs {
		calls = append(calls, e.gen(r))
	}
	pa := r.prAnySource()
	var sb strings.Builder
	sb.WriteString("package main\n\nimport \"github.com/gopherjs/gopherjs/js\"\n\nvar _ = js.Global\n\n")
	sb.WriteString(r.decls.String())
	sb.WriteString(pa)
	nparts := (len(calls) + partSize - 1) / partSize
	for p := 0; p < nparts; p++ {
		fmt.Fprintf(&sb, "\nfunc part%d() {\n", p)
		for i := p * partSize; i < len(calls) && i < (p+1)*partSize; i++ {
			fmt.Fprintf(&sb, "\trun(%d, func() string { return %s })\n", i, calls[i])
		}
		sb.WriteString("}\n")
	}
	sb.WriteString("\nfunc main() {\n\tsetup()\n")
	for p := 0; p < nparts; p++ {
		fmt.Fprintf(&sb, "\tpart%d()\n", p)
	}
	sb.WriteString("\tprintln(\"done\")\n}\n")
	return gjs.Prog{Files: map[string]string{"main.go": sb.String(), "lib.go": progLib}}
}

type failure struct {
	e    *ev
	got  string
	keys []string
}

// runEvals groups the evaluations into programs, runs them and judges the lines.
func runEvals(c *core.Ctx, pool *gjs.Pool, evs []*ev) ([]func(), func()) {
	// one program per group of types (the per-type route code dominates the
	// program size), the type-independent families in programs of their own
	groups := map[int][]*ev{}
	const typesPerProg = 10
	for _, e := range evs {
		g := -1
		if e.tIdx >= 0 {
			g = e.tIdx / typesPerProg
		}
		groups[g] = append(groups[g], e)
	}
	var progs [][]*ev
	var gks []int
	for g := range groups {
		gks = append(gks, g)
	}
	sort.Ints(gks)
	for _, g := range gks {
		l := groups[g]
		for len(l) > 4000 {
			progs = append(progs, l[:4000])
			l = l[4000:]
		}
		progs = append(progs, l)
	}
	c.Set("programs", len(progs))
	fails := make([][]failure, len(progs))
	judged := make([]int, len(progs))
	var jobs []func()
	for pi := range progs {
		pi := pi
		jobs = append(jobs, func() { runTable(c, pool, progs[pi], &fails[pi], &judged[pi]) })
	}
	return jobs, func() { finishEvals(c, evs, fails, judged) }
}

func runTable(c *core.Ctx, pool *gjs.Pool, es []*ev, fails *[]failure, judged *int) {
	{
		prog := renderProgram(es)
		b := pool.RunBoth(c.Scratch, prog, gjs.Opts{}, time.Duration(c.Pick(3, 8))*time.Minute, false, os.Getenv("VERIF_KEEP") != "")
		if b.BuildErr != nil {
			if be, ok := b.BuildErr.(*gjs.BuildError); ok && be.Panic {
				c.Report(core.Case{Keys: []string{"compiler_panic"}, Summary: "compiler internal error on a conversion table program: " + be.Error(), Files: prog.ReplayFiles("prog")})
			} else {
				os.WriteFile(filepath.Join(c.Scratch, "c11_failed_main.go"), []byte(prog.Files["main.go"]), 0o644)
				c.Infra(fmt.Errorf("gopherjs build of a generated program failed (VERIF_KEEP=1 keeps %s): %v", filepath.Join(c.Scratch, "c11_failed_main.go"), b.BuildErr))
			}
			return
		}
		got := map[int]string{}
		done := false
		for _, l := range b.JS.Lines {
			if l == "done" {
				done = true
				continue
			}
			sp := strings.IndexByte(l, ' ')
			if sp < 0 {
				continue
			}
			i, err := strconv.Atoi(l[:sp])
			if err != nil {
				continue
			}
			got[i] = l[sp+1:]
		}
		if !done || b.JS.End != "exit" {
			c.Report(core.Case{Keys: []string{"program_aborted"}, Summary: fmt.Sprintf("conversion table program did not finish: %d of %d lines, end=%s msg=%s", len(got), len(es), b.JS.End, b.JS.Msg), Files: prog.ReplayFiles("prog")})
			return
		}
		for i, e := range es {
			g, ok := got[i]
			if !ok {
				g = "<no output>"
			}
			*judged++
			if g == e.want {
				continue
			}
			*fails = append(*fails, failure{e: e, got: g})
		}
	}
}

func finishEvals(c *core.Ctx, evs []*ev, fails [][]failure, judged []int) {
	total := 0
	for _, j := range judged {
		total += j
	}
	c.Add("evaluations", total)
	c.Add("traces_validated_against_impl", total)
	byRoute := map[string]int{}
	for _, e := range evs {
		byRoute[e.fam+"/"+e.route]++
		c.Distinct(e.fam + "|" + e.route + "|" + e.raw)
	}
	c.Set("evaluations_by_route", byRoute)
	// report: one case per (classifier keys | family/route/type) group
	type group struct {
		first failure
		n     int
	}
	gm := map[string]*group{}
	var order []string
	for _, fl := range fails {
		for _, f := range fl {
			f.keys = classify(f.e, f.got)
			k := strings.Join(f.keys, ",") + "|" + f.e.fam + "|" + f.e.route + "|" + strconv.Itoa(f.e.tIdx)
			if len(f.keys) > 0 {
				k = strings.Join(f.keys, ",")
			}
			g := gm[k]
			if g == nil {
				g = &group{first: f}
				gm[k] = g
				order = append(order, k)
			}
			g.n++
		}
	}
	sort.Strings(order)
	explained := map[string]int{}
	for _, k := range order {
		if len(gm[k].first.keys) > 0 {
			explained[k] = gm[k].n
		}
	}
	if len(explained) > 0 {
		c.Set("failing_evaluations_by_classifier", explained)
	}
	for _, k := range order {
		g := gm[k]
		f := g.first
		mini := renderProgram([]*ev{f.e})
		files := mini.ReplayFiles("prog")
		files["scenario.json"] = f.e.raw + "\n"
		files["predicted.txt"] = "0 " + f.e.want + "\ndone\nend=exit\n"
		files["observed.txt"] = "0 " + f.got + "\n"
		c.Report(core.Case{Keys: f.keys,
			Summary: fmt.Sprintf("%s via route %s: documented %s, observed %s (%d evaluations of this group differ)", f.e.describe, f.e.route, f.e.want, f.got, g.n),
			Files:   files})
	}
	n := 0
	for _, e := range evs {
		if n%(len(evs)/4+1) == 0 {
			c.Sample(map[string]any{"family": e.fam, "route": e.route, "case": e.describe, "predicted": e.want})
		}
		n++
	}
}
