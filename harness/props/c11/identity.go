package c11

import (
	"encoding/json"
	"fmt"
	"math/rand"
	"os"
	"strings"
	"time"

	"verif/core"
	"verif/gjs"
)

// ---- family F: the same Go function is always the same JavaScript function ----

// routes by which a Go function reaches JavaScript in the identity program
var identRoutes = []string{"arg", "set", "field", "ret", "elem", "mapval", "structfield", "makefunc_result"}

const identLib = `
type wput struct {
	*js.Object
	Put func(func(int) int) ` + "`js:\"c11put\"`" + `
	F   func(int) int ` + "`js:\"c11slot\"`" + `
}
type holder struct{ F func(int) int }

func fnOf(id int) func(int) int {
	switch id {
	case 1:
		return fnA
	case 2:
		return fnB
	}
	return fnC
}

// ext hands the function to JavaScript by the given route; JavaScript keeps it in c11keep
func ext(route int, f func(int) int) {
	switch route {
	case 0: // argument of Call (boxed in interface{})
		js.Global.Call("c11put", f)
	case 1: // Set + Get
		js.Global.Set("c11slot", f)
		js.Global.Call("c11put", js.Global.Get("c11slot"))
	case 2: // js-tagged field of function type: argument converted at the static type
		w := &wput{Object: js.Global}
		w.Put(f)
	case 3: // result of an exposed Go function
		js.Global.Set("c11get", func() func(int) int { return f })
		js.Global.Call("eval", "c11put(c11get())")
	case 4: // element of a slice
		js.Global.Call("eval", "(function(a){ c11put(a[0]); })").Invoke([]interface{}{f})
	case 5: // value of a map
		js.Global.Call("eval", "(function(m){ c11put(m.k); })").Invoke(map[string]interface{}{"k": f})
	case 6: // exported field of a struct
		js.Global.Call("eval", "(function(s){ c11put(s.F); })").Invoke(holder{f})
	case 7: // result of a js.MakeFunc function
		js.Global.Set("c11get", js.MakeFunc(func(this *js.Object, args []*js.Object) interface{} { return f }))
		js.Global.Call("eval", "c11put(c11get())")
	}
}
`

func runIdentity(c *core.Ctx, pool *gjs.Pool, dir string) ([]func(), func()) {
	rng := rand.New(rand.NewSource(c.Seed + 11))
	type fcase struct {
		fs, routes []int
		want       string
		raw        string
	}
	var cases []fcase
	discards := 0
	err := readUnitFiles(dir, func(fam string, idx, row int, cs []any) error {
		if fam != "F" {
			return nil
		}
		for _, cx := range cs {
			ca := arr(cx)
			var fs, ids []int
			for _, x := range arr(ca[0]) {
				fs = append(fs, ival(x))
			}
			for _, x := range arr(ca[1]) {
				ids = append(ids, ival(x))
			}
			if fmt.Sprint(oFuncIDs(fs)) != fmt.Sprint(ids) {
				discards++
				continue
			}
			var ws []string
			for _, id := range ids {
				ws = append(ws, fmt.Sprint(id))
			}
			// every sequence once with one route for all positions and twice with seeded routes
			for k := 0; k < 3; k++ {
				fc := fcase{fs: fs, want: strings.Join(ws, ","), raw: js([]any{"F", cx})}
				one := rng.Intn(len(identRoutes))
				for range fs {
					if k == 0 {
						fc.routes = append(fc.routes, one)
					} else {
						fc.routes = append(fc.routes, rng.Intn(len(identRoutes)))
					}
				}
				cases = append(cases, fc)
			}
		}
		return nil
	})
	if err != nil {
		c.Infra(err)
		return nil, nil
	}
	c.Add("spec_guard_discards", discards)
	render := func(cs []fcase) gjs.Prog {
		var sb strings.Builder
		sb.WriteString("package main\n\nimport \"github.com/gopherjs/gopherjs/js\"\n\nfunc prAny(x interface{}) string { return \"\" }\n" + identLib + "\nfunc main() {\n\tsetup()\n")
		for i, fc := range cs {
			fmt.Fprintf(&sb, "\trun(%d, func() string {\n", i)
			for k, f := range fc.fs {
				fmt.Fprintf(&sb, "\t\text(%d, fnOf(%d))\n", fc.routes[k], f)
			}
			sb.WriteString("\t\treturn evs(\"c11ids()\")\n\t})\n")
		}
		sb.WriteString("\tprintln(\"done\")\n}\n")
		return gjs.Prog{Files: map[string]string{"main.go": sb.String(), "lib.go": progLib}}
	}
	prog := render(cases)
	var b gjs.Both
	job := func() {
		b = pool.RunBoth(c.Scratch, prog, gjs.Opts{}, 5*time.Minute, false, os.Getenv("VERIF_KEEP") != "")
	}
	return []func(){job}, func() {
		if b.BuildErr != nil {
			c.Infra(fmt.Errorf("gopherjs build of the identity program failed: %v", b.BuildErr))
			return
		}
		got := map[int]string{}
		for _, l := range b.JS.Lines {
			var i int
			var s string
			if n, _ := fmt.Sscanf(l, "%d %s", &i, &s); n == 2 {
				got[i] = s
			}
		}
		if b.JS.End != "exit" || len(b.JS.Lines) == 0 || b.JS.Lines[len(b.JS.Lines)-1] != "done" {
			c.Report(core.Case{Keys: []string{"program_aborted"}, Summary: fmt.Sprintf("identity program did not finish: end=%s msg=%s", b.JS.End, b.JS.Msg), Files: prog.ReplayFiles("prog")})
			return
		}
		bad := 0
		var first *fcase
		firstGot := ""
		for i := range cases {
			c.Distinct(fmt.Sprint("F|", cases[i].fs, cases[i].routes))
			if got[i] != cases[i].want {
				bad++
				if first == nil {
					first, firstGot = &cases[i], got[i]
				}
			}
		}
		c.Add("evaluations", len(cases))
		c.Add("traces_validated_against_impl", len(cases))
		c.Set("identity_sequences", len(cases))
		if first != nil {
			var rs []string
			for _, r := range first.routes {
				rs = append(rs, identRoutes[r])
			}
			mini := render([]fcase{*first})
			files := mini.ReplayFiles("prog")
			files["scenario.json"] = first.raw + "\n"
			files["predicted.txt"] = "0 " + first.want + "\ndone\nend=exit\n"
			files["observed.txt"] = "0 " + firstGot + "\n"
			c.Report(core.Case{Keys: []string{"function_identity"},
				Summary: fmt.Sprintf("Go functions %v handed to JavaScript by routes %v: documented identities %s (same Go function, same JavaScript function), observed %s (%d sequences differ)", first.fs, rs, first.want, firstGot, bad),
				Files:   files})
		}
	}
}

// ---- family C: the callback guard ----

var cbBodies = map[string]string{
	"recv":        "<-ch",
	"send":        "ch <- 1",
	"select":      "select {\n\t\tcase <-ch:\n\t\tcase ch <- 2:\n\t\t}",
	"nonblocking": "bc := make(chan int, 1)\n\t\tbc <- 5\n\t\tprintln(\"nb\", <-bc)\n\t\tselect {\n\t\tcase v := <-ch:\n\t\t\tprintln(v)\n\t\tdefault:\n\t\t\tprintln(\"default\")\n\t\t}",
	"go":          "go func() { println(\"wrapped got\", <-ch) }()",
}

func callbackProgram(ctx, body string) gjs.Prog {
	call := `js.Global.Call("c11later", cb)`
	if ctx == "sync" {
		call = `js.Global.Call("c11now", cb)`
	}
	src := `package main

import "github.com/gopherjs/gopherjs/js"

const errBlock = "` + errBlock + `"

func main() {
	js.Global.Call("eval", ` + "`" + `
	globalThis.c11report = function(f){
	  try { f(); console.log("cb returned"); }
	  catch (e) { var m = String(e && e.message); console.log("cb threw " + (m.indexOf(c11err) >= 0 ? "the documented error" : m)); }
	};
	globalThis.c11later = function(f){ setTimeout(function(){ c11report(f); c11after(); }, 1); };
	globalThis.c11now = function(f){ c11report(f); setTimeout(c11after, 1); };
	` + "`" + `)
	js.Global.Set("c11err", errBlock)
	ch := make(chan int) // nobody else uses it before the callback has run
	done := make(chan bool)
	cb := func() {
		println("cb start")
		` + cbBodies[body] + `
		println("cb end")
	}
	// after the callback: goroutines must still be created, scheduled, blocked and woken correctly
	js.Global.Set("c11after", func() {
		go func() {
			select {
			case v := <-ch: // nobody sends: a value here was left behind by the failed callback
				println("ghost value", v)
			default:
			}
			select {
			case ch <- 9: // wakes the goroutine the "go" body started; nobody else receives
			default:
			}
			c, r := make(chan int), make(chan int)
			go func() { v := <-c; r <- v + 1 }()
			c <- 41
			println("after", <-r)
			done <- true
		}()
	})
	` + call + `
	<-done
	println("main end")
}
`
	return gjs.Prog{Files: map[string]string{"main.go": src}}
}

func callbackWant(body, outcome string) []string {
	switch {
	case outcome == "error":
		return []string{"cb start", "cb threw the documented error", "after 42", "main end"}
	case body == "nonblocking":
		return []string{"cb start", "nb 5", "default", "cb end", "cb returned", "after 42", "main end"}
	case body == "go":
		return []string{"cb start", "cb end", "cb returned", "wrapped got 9", "after 42", "main end"}
	}
	return nil
}

func runCallbacks(c *core.Ctx, pool *gjs.Pool, dir string) ([]func(), func()) {
	type ccase struct {
		ctx, body, outcome string
		raw                string
	}
	var cases []ccase
	err := readUnitFiles(dir, func(fam string, idx, row int, cs []any) error {
		if fam != "C" {
			return nil
		}
		for _, cx := range cs {
			ca := arr(cx)
			oc := arr(ca[2])[0].(string)
			cc := ccase{ctx: ca[0].(string), body: ca[1].(string), outcome: oc, raw: js([]any{"C", cx})}
			if oc == "error" && arr(ca[2])[1].(string) != errBlock {
				c.Add("spec_guard_discards", 1)
				continue
			}
			if oCallback(cc.ctx, cc.body) != oc {
				c.Add("spec_guard_discards", 1)
				continue
			}
			cases = append(cases, cc)
		}
		return nil
	})
	if err != nil {
		c.Infra(err)
		return nil, nil
	}
	recorded := map[string]string{}
	obs := make([]gjs.Both, len(cases))
	progs := make([]gjs.Prog, len(cases))
	var jobs []func()
	for i := range cases {
		i := i
		jobs = append(jobs, func() {
			progs[i] = callbackProgram(cases[i].ctx, cases[i].body)
			obs[i] = pool.RunBoth(c.Scratch, progs[i], gjs.Opts{}, 30*time.Second, false, false)
			if obs[i].BuildErr == nil && obs[i].JS.End == "timeout" {
				// a loaded machine: these programs run for milliseconds; once more with a long limit
				obs[i] = pool.RunBoth(c.Scratch, progs[i], gjs.Opts{}, 3*time.Minute, false, false)
			}
		})
	}
	return jobs, func() {
		for i, cc := range cases {
			b := obs[i]
			if b.BuildErr != nil {
				c.Infra(fmt.Errorf("gopherjs build of a callback program failed: %v", b.BuildErr))
				return
			}
			if b.JS.End == "timeout" && cc.outcome != "unspec" {
				c.Infra(fmt.Errorf("callback program %s/%s timed out twice (30 s, 3 min): %s", cc.ctx, cc.body, strings.Join(b.JS.Lines, " | ")))
				return
			}
			if cc.outcome == "unspec" {
				// a callback invoked synchronously from a running goroutine that blocks: the
				// documentation does not define it; what happens is recorded only
				c.Add("unspecified_not_judged", 1)
				recorded[cc.ctx+"/"+cc.body] = strings.Join(b.JS.Lines, " | ") + " | end=" + b.JS.End + " " + b.JS.Msg
				continue
			}
			want := callbackWant(cc.body, cc.outcome)
			c.Add("evaluations", 1)
			c.Add("traces_validated_against_impl", 1)
			c.Distinct("C|" + cc.ctx + "|" + cc.body)
			if b.JS.End == "exit" && strings.Join(b.JS.Lines, "\n") == strings.Join(want, "\n") {
				continue
			}
			files := progs[i].ReplayFiles("prog")
			files["scenario.json"] = cc.raw + "\n"
			files["predicted.txt"] = strings.Join(want, "\n") + "\nend=exit\n"
			files["observed.txt"] = strings.Join(b.JS.Lines, "\n") + "\nend=" + b.JS.End + " " + b.JS.Msg + "\n"
			// the recorded finding explains exactly one observation: the documented error IS
			// raised, but the queue entry the failed operation left on the channel makes the
			// later goroutine meet a ghost partner and the scheduler run $noGoroutine
			var keys []string
			ghost := map[string][]string{"recv": {"cb start", "cb threw the documented error"},
				"send":   {"cb start", "cb threw the documented error", "ghost value 1"},
				"select": {"cb start", "cb threw the documented error", "ghost value 2"}}
			if g, ok := ghost[cc.body]; ok && cc.ctx == "loop" && b.JS.End == "jserror" && strings.Contains(b.JS.Msg, "r is not a function") &&
				strings.Join(b.JS.Lines, "\n") == strings.Join(g, "\n") {
				keys = []string{"callback_guard:" + cc.ctx + ":" + cc.body}
			}
			c.Report(core.Case{Keys: keys,
				Summary: fmt.Sprintf("Go callback (%s) invoked %s: documented %s and intact goroutine state afterwards (%s), observed %s end=%s %s",
					cc.body, map[string]string{"loop": "by the JavaScript event loop", "sync": "synchronously from a goroutine"}[cc.ctx], cc.outcome,
					strings.Join(want, " | "), strings.Join(b.JS.Lines, " | "), b.JS.End, b.JS.Msg),
				Files: files})
		}
		if len(recorded) > 0 {
			c.Set("recorded_undefined_callback_situations", recorded)
		}
	}
}

// ---- family W: js.MakeWrapper ----

const wrapperProg = `package main

import "github.com/gopherjs/gopherjs/js"

func prAny(x interface{}) string { return "" }

type P struct{ n int }

func (p *P) Get() int                         { return p.n }
func (p *P) Add(x int8) int                   { p.n += int(x); return p.n }
func (p *P) hidden() int                      { return 1 }
func (p *P) Name(s string, xs ...int) string  { return s + ":" + itoa(len(xs)) }

var _ = (*P).hidden

func main() {
	setup()
	p := &P{5}
	w := js.MakeWrapper(p)
	js.Global.Set("c11wp", w)
	// own properties: the exported methods and the link to the Go value
	println("props", evs("Object.keys(c11wp).sort().join(',')"))
	println("hidden", evs("typeof c11wp.hidden"))
	// arguments are converted to the parameter types, results back
	println("get", evs("describe(c11wp.Get())"))
	println("add", evs("describe(c11wp.Add(3))"), p.n)
	println("addwrap", evs("describe(c11wp.Add('2'))"), p.n)
	println("name", evs("describe(c11wp.Name('\\ud83d\\ude00', 1, 2))"))
	// the wrapper read back at the Go type is the wrapped value itself
	js.Global.Set("c11take", func(q *P) bool { return q == p })
	println("same", evs("String(c11take(c11wp))"))
	var back interface{}
	js.Global.Set("c11any", func(x interface{}) { back = x })
	ev("c11any(c11wp)")
	q, ok := back.(*P)
	println("anyback", ok && q == p)
	// record only (not documented): does a typed array share memory with the slice?
	s := []int8{1, 2, 3}
	js.Global.Call("eval", "(function(a){ a[0] = 77; })").Invoke(s)
	println("# typed array shares memory with the slice:", s[0] == 77)
	println("done")
}
`

func runWrapper(c *core.Ctx, pool *gjs.Pool, dir string) ([]func(), func()) {
	var props []string
	raw := ""
	err := readUnitFiles(dir, func(fam string, idx, row int, cs []any) error {
		if fam != "W" {
			return nil
		}
		ca := arr(cs[0])
		raw = js([]any{"W", cs[0]})
		var exported []string
		for _, m := range arr(ca[0]) {
			ma := arr(m)
			if ival(ma[1]) == 1 {
				exported = append(exported, ma[0].(string))
			}
		}
		exported = append(exported, "__internal_object__")
		for _, p := range arr(ca[1]) {
			props = append(props, p.(string))
		}
		if fmt.Sprint(exported) != fmt.Sprint(props) {
			c.Add("spec_guard_discards", 1)
			props = nil
		}
		return nil
	})
	if err != nil {
		c.Infra(err)
		return nil, nil
	}
	if props == nil {
		return nil, nil
	}
	sorted := append([]string{}, props...)
	sortStrings(sorted)
	want := []string{
		"props " + strings.Join(sorted, ","),
		"hidden undefined",
		"get " + jdesc(natJ(5)),
		"add " + jdesc(natJ(8)) + " 8",
		"addwrap " + jdesc(natJ(10)) + " 10",
		"name " + jdesc(&JV{K: "js", U: append([]uint16{0xd83d, 0xde00}, ':', '2')}),
		"same true",
		"anyback true",
		"done",
	}
	prog := gjs.Prog{Files: map[string]string{"main.go": wrapperProg, "lib.go": progLib}}
	var b gjs.Both
	job := func() { b = pool.RunBoth(c.Scratch, prog, gjs.Opts{}, time.Minute, false, false) }
	return []func(){job}, func() {
		if b.BuildErr != nil {
			c.Infra(fmt.Errorf("gopherjs build of the wrapper program failed: %v", b.BuildErr))
			return
		}
		var kept []string
		for _, l := range b.JS.Lines {
			if strings.HasPrefix(l, "# ") {
				c.Set("recorded_typed_array_view", strings.TrimPrefix(l, "# "))
				continue
			}
			kept = append(kept, l)
		}
		c.Add("evaluations", len(want)-1)
		c.Add("traces_validated_against_impl", len(want)-1)
		c.Distinct("W|" + raw)
		if b.JS.End == "exit" && strings.Join(kept, "\n") == strings.Join(want, "\n") {
			return
		}
		files := prog.ReplayFiles("prog")
		files["scenario.json"] = raw + "\n"
		files["predicted.txt"] = strings.Join(want, "\n") + "\nend=exit\n"
		files["observed.txt"] = strings.Join(kept, "\n") + "\nend=" + b.JS.End + " " + b.JS.Msg + "\n"
		diff := ""
		for i := range want {
			if i >= len(kept) || kept[i] != want[i] {
				g := "<missing>"
				if i < len(kept) {
					g = kept[i]
				}
				diff = fmt.Sprintf("line %d: documented %q, observed %q", i+1, want[i], g)
				break
			}
		}
		c.Report(core.Case{Keys: []string{"make_wrapper"}, Summary: "js.MakeWrapper: " + diff + fmt.Sprintf(" (end=%s %s)", b.JS.End, b.JS.Msg), Files: files})
	}
}

func sortStrings(s []string) {
	for i := 1; i < len(s); i++ {
		for j := i; j > 0 && s[j] < s[j-1]; j-- {
			s[j], s[j-1] = s[j-1], s[j]
		}
	}
}

var _ = json.Marshal
