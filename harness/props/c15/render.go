package c15

import (
	"encoding/json"
	"fmt"
	"math/big"
	"sort"
	"strings"

	"verif/gjs"
)

// Terms of GoMap.tla arrive as JSON arrays whose first element is the kind.
type term = []any

func asTerm(x any) term {
	t, _ := x.([]any)
	return t
}
func str(x any) string { s, _ := x.(string); return s }
func num(x any) int {
	f, _ := x.(float64)
	return int(f)
}
func canon(t any) string { b, _ := json.Marshal(t); return string(b) }

func under(t term) term {
	for str(t[0]) == "named" {
		t = asTerm(t[3])
	}
	return t
}

// catEntry is one key type of the catalog written by GoMapScen.tla.
type catEntry struct {
	T    term   `json:"t"`
	Pv   int    `json:"pv"`
	Pool []term `json:"pool"`
	Hash []int  `json:"hash"`
	Rep  []int  `json:"rep"`
	Nan  []int  `json:"nan"`
}

// renderer turns type and value terms into Go source.
type renderer struct {
	named map[string]string
	decls []string
	usePk bool // vp/a/x and vp/b/x are referenced
}

func newRenderer() *renderer { return &renderer{named: map[string]string{}} }

var floatVar = map[string]string{"nan": "fNaN", "nan2": "fNaN2", "+0": "fPZ", "-0": "fNZ", "1": "fOne", "-1": "fMOne",
	"inf": "fInf", "1.5": "f15", "1e21": "f1e21", "0.1": "f01"}

const preamble = `
type op struct{ kind, idx, val int32 }

type pS struct{ x, y int32 }
type IM interface{ M() }
type T int32
type R1 int32
type R2 int32

func (R1) M() {}
func (R2) M() {}

func mkTf(v int32) any { type T int32; return T(v) }
func mkTg(v int32) any { type T int32; return T(v) }

var pv1, pv2 int32
var parr [3]int32
var pst struct{ x, y int32 }
var ps1, ps2 pS
var psa [2]pS
var pa1, pa2, pa3 [2]int32
var psl = pa3[:]
var ch1, ch2 = make(chan int32), make(chan int32, 1)

var fNaN = math.NaN()
var fNaN2 = math.Float64frombits(0x7ff8000000000001)
var fPZ = 0.0
var fNZ = math.Copysign(0, -1)
var fOne, fMOne, f15, f1e21, f01 = 1.0, -1.0, 1.5, 1e21, 0.1
var fInf = math.Inf(1)

var _ = unsafe.Pointer(nil)

func rec() {
	if r := recover(); r != nil {
		if _, ok := r.(runtime.Error); ok {
			println("P r")
		} else {
			println("P x")
		}
	}
}
`

const pkgX = `package x

type T int32

func MkS(v int32) any { return struct{ a int32 }{v} }
`

func (r *renderer) typeExpr(t term) string {
	switch str(t[0]) {
	case "basic":
		if str(t[1]) == "unsafeptr" {
			return "unsafe.Pointer"
		}
		return str(t[1])
	case "named":
		name, scope := str(t[1]), str(t[2])
		switch {
		case scope == "a/x":
			r.usePk = true
			return "ax." + name
		case scope == "b/x":
			r.usePk = true
			return "bx." + name
		case name != "N":
			return name // T, R1, R2 of package main
		}
		k := canon(t)
		if id, ok := r.named[k]; ok {
			return id
		}
		u := r.typeExpr(asTerm(t[3]))
		id := fmt.Sprintf("N%d", len(r.named)+1)
		r.named[k] = id
		r.decls = append(r.decls, fmt.Sprintf("type %s %s", id, u))
		return id
	case "array":
		return fmt.Sprintf("[%d]%s", num(t[1]), r.typeExpr(asTerm(t[2])))
	case "struct":
		fs := t[2].([]any)
		if len(fs) == 0 {
			return "struct{}"
		}
		var parts []string
		for _, f := range fs {
			ft := asTerm(f)
			parts = append(parts, str(ft[0])+" "+r.typeExpr(asTerm(ft[1])))
		}
		return "struct{ " + strings.Join(parts, "; ") + " }"
	case "ptr":
		switch str(t[1]) {
		case "int32":
			return "*int32"
		case "S":
			return "*pS"
		default:
			return "*[2]int32"
		}
	case "chan":
		return "chan int32"
	case "iface":
		if str(t[1]) == "any" {
			return "any"
		}
		return "IM"
	case "unhashable":
		switch str(t[1]) {
		case "slice":
			return "[]int32"
		case "map":
			return "map[int32]int32"
		case "func":
			return "func()"
		default:
			return "struct{ s []int32 }"
		}
	}
	panic("typeExpr: " + canon(t))
}

// intLit renders the symbolic words <<hi, lo>> of an integer value.
func intLit(kind string, hi, lo int) string {
	switch kind {
	case "int64", "uint64":
		h := big.NewInt(int64(hi))
		if kind == "uint64" && hi < 0 {
			h = big.NewInt(0xFFFFFFFF)
		}
		l := big.NewInt(int64(lo))
		if lo < 0 {
			l = big.NewInt(0xFFFFFFFF) // -1 stands for the all-ones word
		}
		v := new(big.Int).Lsh(h, 32)
		v.Add(v, l)
		return v.String()
	}
	if kind == "uint32" && lo < 0 {
		return "4294967295"
	}
	return fmt.Sprint(lo)
}

func (r *renderer) valExpr(t term, v term) string {
	u := under(t)
	te := r.typeExpr(t)
	conv := func(e string) string { return "(" + te + ")(" + e + ")" }
	switch str(u[0]) {
	case "basic":
		k := str(u[1])
		switch {
		case k == "bool":
			if num(v[1]) == 1 {
				return conv("true")
			}
			return conv("false")
		case k == "float64" || k == "float32":
			return conv(floatVar[str(v[1])])
		case k == "complex128" || k == "complex64":
			return conv("complex(" + floatVar[str(v[1])] + ", " + floatVar[str(v[2])] + ")")
		case k == "string":
			var b strings.Builder
			for _, c := range v[1].([]any) {
				fmt.Fprintf(&b, "\\x%02x", num(c))
			}
			return conv("\"" + b.String() + "\"")
		case k == "unsafeptr":
			switch num(v[1]) {
			case 0:
				return conv("unsafe.Pointer(nil)")
			case 1:
				return conv("unsafe.Pointer(&ps1)")
			default:
				return conv("unsafe.Pointer(&ps2)")
			}
		default:
			return conv(intLit(k, num(v[1]), num(v[2])))
		}
	case "ptr":
		o, form := num(v[1]), num(v[2])
		if o == 0 {
			return conv("nil")
		}
		switch str(u[1]) {
		case "int32":
			return conv([]string{"", "&pv1", "&pv2", "&parr[1]", "&pst.y"}[o])
		case "S":
			return conv([]string{"", "&ps1", "&ps2", "&psa[0]"}[o])
		default:
			if o == 3 && form == 1 {
				return conv("(*[2]int32)(psl)")
			}
			return conv([]string{"", "&pa1", "&pa2", "&pa3"}[o])
		}
	case "chan":
		return conv([]string{"nil", "ch1", "ch2"}[num(v[1])])
	case "iface":
		if str(v[0]) == "n" {
			return conv("nil")
		}
		return conv(r.dynExpr(asTerm(v[1]), asTerm(v[2])))
	case "array":
		var es []string
		et := asTerm(u[2])
		for _, e := range v[1].([]any) {
			es = append(es, r.valExpr(et, asTerm(e)))
		}
		return te + "{" + strings.Join(es, ", ") + "}"
	case "struct":
		var es []string
		fs := u[2].([]any)
		for i, e := range v[1].([]any) {
			es = append(es, r.valExpr(asTerm(asTerm(fs[i])[1]), asTerm(e)))
		}
		return te + "{" + strings.Join(es, ", ") + "}"
	case "unhashable":
		switch str(u[1]) {
		case "slice":
			return "[]int32{1}"
		case "map":
			return "map[int32]int32(nil)"
		case "func":
			return "func() {}"
		default:
			return "struct{ s []int32 }{}"
		}
	}
	panic("valExpr: " + canon(t))
}

// dynExpr renders a value stored in an interface; types that exist only as
// dynamic types (declared inside functions or in other packages) come from
// constructor functions.
func (r *renderer) dynExpr(t term, v term) string {
	if str(t[0]) == "named" {
		switch str(t[2]) {
		case "f":
			return fmt.Sprintf("mkTf(%d)", num(v[2]))
		case "g":
			return fmt.Sprintf("mkTg(%d)", num(v[2]))
		}
	}
	if str(t[0]) == "struct" && str(t[1]) != "main" {
		r.usePk = true
		first := asTerm(v[1].([]any)[0])
		if str(t[1]) == "a/x" {
			return fmt.Sprintf("ax.MkS(%d)", num(first[2]))
		}
		return fmt.Sprintf("bx.MkS(%d)", num(first[2]))
	}
	return r.valExpr(t, v)
}

// operation kinds as numbers in the rendered tables
var opCode = map[string]int{"make": 0, "nil": 1, "lit": 2, "ins": 3, "inc": 4, "del": 5, "get": 6, "ok": 7, "len": 8,
	"range": 9, "clear": 10, "rdel": 11, "rins": 12}

type opT struct {
	Kind string
	Idx  int // 1-based pool index, 0 = none
	Val  int
}

type hist struct {
	Ty   int
	Fam  string
	Init string
	Ops  []opT
	Res  []json.RawMessage
	Raw  string
	seq  int // position in its type's table
}

// typeCode renders everything one key type needs: key function, class
// function, interpreter.
func (r *renderer) typeCode(ti int, ce *catEntry) string {
	var b strings.Builder
	te := r.typeExpr(ce.T)
	fmt.Fprintf(&b, "// key type %d: %s\n", ti, canon(ce.T))
	fmt.Fprintf(&b, "func k%d(i int32) %s {\n\tswitch i {\n", ti, te)
	for i, v := range ce.Pool {
		fmt.Fprintf(&b, "\tcase %d:\n\t\treturn %s\n", i, r.valExpr(ce.T, v))
	}
	fmt.Fprintf(&b, "\t}\n\tpanic(\"bad key index\")\n}\n")
	fmt.Fprintf(&b, "func rep%d(k %s) int32 {\n\tfor j := int32(0); j < %d; j++ {\n\t\tif k%d(j) == k {\n\t\t\treturn j\n\t\t}\n\t}\n\treturn -1\n}\n", ti, te, len(ce.Pool), ti)
	var lit []string
	for i := range ce.Pool {
		if ce.Hash[i] == 1 {
			lit = append(lit, fmt.Sprintf("k%d(%d): %d", ti, i, 100+i+1))
		}
	}
	fmt.Fprintf(&b, `func run%[1]d(hs [][]op) {
	for hi, h := range hs {
		println("H", %[1]d, hi)
		var m map[%[2]s]int32
		switch h[0].kind {
		case 0:
			m = make(map[%[2]s]int32)
		case 2:
			m = map[%[2]s]int32{%[3]s}
		}
		for _, o := range h[1:] {
			step%[1]d(m, o)
		}
	}
}
func step%[1]d(m map[%[2]s]int32, o op) {
	defer rec()
	switch o.kind {
	case 3:
		m[k%[1]d(o.idx)] = o.val
		println("n")
	case 4:
		m[k%[1]d(o.idx)] += o.val
		println("n")
	case 5:
		delete(m, k%[1]d(o.idx))
		println("n")
	case 6:
		println("g", m[k%[1]d(o.idx)])
	case 7:
		v, ok := m[k%[1]d(o.idx)]
		println("o", v, ok)
	case 8:
		println("l", len(m))
	case 9:
		for k, v := range m {
			println("r", rep%[1]d(k), v)
		}
		println("e")
	case 10:
		for k, v := range m {
			println("r", rep%[1]d(k), v)
			delete(m, k)
		}
		println("e")
	case 11:
		first := true
		for k, v := range m {
			println("r", rep%[1]d(k), v)
			if first {
				first = false
				delete(m, k%[1]d(o.idx))
			}
		}
		println("e")
	case 12:
		first := true
		for k, v := range m {
			println("r", rep%[1]d(k), v)
			if first {
				first = false
				m[k%[1]d(o.idx)] = o.val
			}
		}
		println("e")
	}
}
`, ti, te, strings.Join(lit, ", "))
	return b.String()
}

func histTable(ti int, hs []*hist) string {
	var b strings.Builder
	fmt.Fprintf(&b, "var h%d = [][]op{\n", ti)
	for _, h := range hs {
		fmt.Fprintf(&b, "\t{{%d, 0, 0}", opCode[h.Init])
		for _, o := range h.Ops {
			idx := o.Idx - 1
			if idx < 0 {
				idx = 0
			}
			fmt.Fprintf(&b, ", {%d, %d, %d}", opCode[o.Kind], idx, o.Val)
		}
		b.WriteString("},\n")
	}
	b.WriteString("}\n")
	return b.String()
}

// renderProgram builds one program for a set of key types with their histories.
func renderProgram(cat []catEntry, tis []int, hists map[int][]*hist) gjs.Prog {
	r := newRenderer()
	var body strings.Builder
	sort.Ints(tis)
	for _, ti := range tis {
		body.WriteString(r.typeCode(ti, &cat[ti-1]))
		body.WriteString(histTable(ti, hists[ti]))
		body.WriteString("\n")
	}
	var b strings.Builder
	b.WriteString("package main\n\nimport (\n\t\"math\"\n\t\"runtime\"\n\t\"unsafe\"\n")
	if r.usePk {
		b.WriteString("\tax \"vp/a/x\"\n\tbx \"vp/b/x\"\n")
	}
	b.WriteString(")\n")
	b.WriteString(preamble)
	b.WriteString("\n")
	b.WriteString(strings.Join(r.decls, "\n"))
	b.WriteString("\n\n")
	b.WriteString(body.String())
	b.WriteString("func main() {\n")
	for _, ti := range tis {
		fmt.Fprintf(&b, "\trun%d(h%d)\n", ti, ti)
	}
	b.WriteString("}\n")
	files := map[string]string{"main.go": b.String()}
	if r.usePk {
		files["a/x/x.go"] = pkgX
		files["b/x/x.go"] = pkgX
	}
	return gjs.Prog{Files: files}
}
