package c15

import (
	"sort"
	"strings"
)

// Classifier keys of known findings.  A key is a predicate over the scenario
// (key type, the pool members the history touched up to the rejected step, the
// kind of rejection); see /verif/known_findings.txt.

// walk visits every (type, value) node of a value term, descending into
// arrays, structs and dynamic values of interfaces.
func walk(t term, v term, f func(t term, v term)) {
	f(t, v)
	u := under(t)
	switch str(u[0]) {
	case "array":
		for _, e := range v[1].([]any) {
			walk(asTerm(u[2]), asTerm(e), f)
		}
	case "struct":
		fs := u[2].([]any)
		for i, e := range v[1].([]any) {
			walk(asTerm(asTerm(fs[i])[1]), asTerm(e), f)
		}
	case "iface":
		if str(v[0]) == "d" {
			walk(asTerm(v[1]), asTerm(v[2]), f)
		}
	}
}

func isNaNSym(x any) bool { s := str(x); return s == "nan" || s == "nan2" }

func basicKind(t term) string {
	u := under(t)
	if str(u[0]) == "basic" {
		return str(u[1])
	}
	return ""
}

// jsTypeString is the string by which the run time under test names a type
// (package NAME, not path; no scope of declaration).
func jsTypeString(t term) string {
	switch str(t[0]) {
	case "basic":
		return str(t[1])
	case "named":
		sc := str(t[2])
		pk := "main"
		if i := strings.LastIndex(sc, "/"); i >= 0 {
			pk = sc[i+1:]
		}
		return pk + "." + str(t[1])
	case "array":
		return "[" + canon(t[1]) + "]" + jsTypeString(asTerm(t[2]))
	case "struct":
		var p []string
		for _, f := range t[2].([]any) {
			ft := asTerm(f)
			p = append(p, str(ft[0])+" "+jsTypeString(asTerm(ft[1])))
		}
		return "struct { " + strings.Join(p, "; ") + " }"
	}
	return canon(t)
}

// scopes collects the places of declaration mentioned in a type term.
func scopes(t term, named, structs map[string]bool) {
	switch str(t[0]) {
	case "named":
		named[str(t[2])] = true
		scopes(asTerm(t[3]), named, structs)
	case "array":
		scopes(asTerm(t[2]), named, structs)
	case "struct":
		structs[str(t[1])] = true
		for _, f := range t[2].([]any) {
			scopes(asTerm(asTerm(f)[1]), named, structs)
		}
	}
}

func hasBlank(t term) bool {
	u := under(t)
	switch str(u[0]) {
	case "array":
		return hasBlank(asTerm(u[2]))
	case "struct":
		for _, f := range u[2].([]any) {
			ft := asTerm(f)
			if str(ft[0]) == "_" || hasBlank(asTerm(ft[1])) {
				return true
			}
		}
	}
	return false
}

func classify(ce *catEntry, h *hist, oc outcome) []string {
	inv := map[int]bool{}
	if h.Init == "lit" {
		for i := range ce.Pool {
			if ce.Hash[i] == 1 {
				inv[i] = true
			}
		}
	}
	for si := 0; si <= oc.step && si < len(h.Ops); si++ {
		if h.Ops[si].Idx > 0 {
			inv[h.Ops[si].Idx-1] = true
		}
	}
	if oc.step < len(h.Ops) {
		switch h.Ops[oc.step].Kind {
		case "range", "clear", "rdel", "rins":
			// the loop body names the class of a visited key by comparing it with
			// the pool members in order: every member takes part
			for i := range ce.Pool {
				inv[i] = true
			}
		}
	}
	keys := map[string]bool{}
	// a panic was due and came, but not as a runtime.Error
	if oc.nonRTErr && oc.step < len(h.Ops) && h.Ops[oc.step].Idx > 0 && ce.Hash[h.Ops[oc.step].Idx-1] == 0 {
		keys["unhashable_key_panic_not_runtime_error"] = true
	}
	dyn := map[string]term{}
	for i := range inv {
		walk(ce.T, ce.Pool[i], func(t term, v term) {
			switch k := basicKind(t); k {
			case "complex64", "complex128":
				if isNaNSym(v[1]) || isNaNSym(v[2]) {
					keys["complex_key_nan_part"] = true
				}
			}
			u := under(t)
			if str(u[0]) == "array" {
				if ek := basicKind(asTerm(u[2])); ek == "float32" || ek == "float64" {
					for _, e := range v[1].([]any) {
						if isNaNSym(asTerm(e)[1]) {
							keys["float_array_key_nan"] = true
						}
					}
				}
			}
			if str(u[0]) == "ptr" && str(u[1]) == "A" && num(v[1]) == 3 && num(v[2]) == 1 {
				keys["array_pointer_from_slice_identity"] = true
			}
			if str(u[0]) == "iface" && str(v[0]) == "d" {
				dyn[canon(v[1])] = asTerm(v[1])
			}
			// a pointer converted to a named pointer type
			if str(t[0]) == "named" && str(u[0]) == "ptr" && str(u[1]) != "S" && num(v[1]) != 0 {
				keys["named_pointer_conversion_identity"] = true
			}
			// an unsafe.Pointer that is not the whole key
			if basicKind(t) == "unsafeptr" && canon(t) != canon(ce.T) {
				keys["unsafe_pointer_inside_key"] = true
			}
		})
	}
	// two distinct dynamic types the run time names alike
	var ds []string
	for k := range dyn {
		ds = append(ds, k)
	}
	sort.Strings(ds)
	for i := 0; i < len(ds); i++ {
		for j := i + 1; j < len(ds); j++ {
			a, b := dyn[ds[i]], dyn[ds[j]]
			if jsTypeString(a) != jsTypeString(b) {
				continue
			}
			na, sa, nb, sb := map[string]bool{}, map[string]bool{}, map[string]bool{}, map[string]bool{}
			scopes(a, na, sa)
			scopes(b, nb, sb)
			kind := "local"
			for s := range na {
				if !nb[s] && strings.Contains(s, "/") {
					kind = "pkg"
				}
			}
			for s := range nb {
				if !na[s] && strings.Contains(s, "/") {
					kind = "pkg"
				}
			}
			for s := range sa {
				if !sb[s] {
					kind = "struct"
				}
			}
			keys["iface_key_type_string_collision("+kind+")"] = true
		}
	}
	// keys that differ only in a blank field
	if hasBlank(ce.T) {
		var is []int
		for i := range inv {
			is = append(is, i)
		}
		for _, i := range is {
			for _, j := range is {
				if i < j && ce.Rep[i] != 0 && ce.Rep[i] == ce.Rep[j] && canon(ce.Pool[i]) != canon(ce.Pool[j]) {
					keys["struct_blank_field_key"] = true
				}
			}
		}
	}
	var out []string
	for k := range keys {
		out = append(out, k)
	}
	sort.Strings(out)
	return out
}
