// Package c15 decides C15 (see DESIGN.md section 4). Not built yet.
package c15
