// Package c15 decides C15 (maps use Go key equality for every comparable key
// type).
//
// spec/GoMap.tla is the reference: Go's == on tagged key values, hashability,
// and the map operations on a set of entries.  spec/GoMapScen.tla lets TLC
// enumerate key types (to depth 3), adversarial value pools and operation
// histories, evaluates the reference along every history (checking on every
// intermediate state that the entry-set model refines the map-over-equivalence-
// classes model) and writes the predicted result of every step; for range
// steps the prediction is a set of alternatives (first / must / may visit).
// This package renders the histories as table-driven Go programs, runs them
// compiled by the compiler under test (Node) and by the reference toolchain
// (specification guard), and validates every observed step against the
// prediction.
//
// VERIF_REPLAY=<dir> re-decides the scenario recorded in <dir>/scenario.json.
// VERIF_C15_CORRUPT=obs falsifies one observed result (the check must report a
// violation), =pred falsifies one predicted result (the guard then disagrees
// and the history is discarded): demonstrations that the binding is not vacuous.
package c15

import (
	"encoding/json"
	"fmt"
	"math/rand"
	"os"
	"path/filepath"
	"sort"
	"strconv"
	"strings"
	"time"

	"verif/core"
	"verif/gjs"
	"verif/reg"
	"verif/tlcx"
)

func init() { reg.Register("C15", "model_checking", Run) }

type alt struct {
	Mode  string
	First []int
	Must  [][]int
	May   [][]int
	End   string
}

// decodeRes decodes one predicted step result.
func decodeRes(raw json.RawMessage) (tag string, nums []int, alts []alt, err error) {
	var a []json.RawMessage
	if err = json.Unmarshal(raw, &a); err != nil {
		return
	}
	if err = json.Unmarshal(a[0], &tag); err != nil {
		return
	}
	if tag != "R" {
		for _, x := range a[1:] {
			var n int
			if err = json.Unmarshal(x, &n); err != nil {
				return
			}
			nums = append(nums, n)
		}
		return
	}
	var ra [][]json.RawMessage
	if err = json.Unmarshal(a[1], &ra); err != nil {
		return
	}
	for _, x := range ra {
		var al alt
		json.Unmarshal(x[0], &al.Mode)
		json.Unmarshal(x[1], &al.First)
		json.Unmarshal(x[2], &al.Must)
		json.Unmarshal(x[3], &al.May)
		json.Unmarshal(x[4], &al.End)
		alts = append(alts, al)
	}
	return
}

func pairKey(p []int) string { return fmt.Sprint(p[0], ",", p[1]) }

// accepts says whether the visited sequence is one the alternative allows.
func (al *alt) accepts(vis [][]int, end string) bool {
	if (al.End == "e") != (end == "e") || (al.End == "P" && end != "P r") {
		return false
	}
	rest := vis
	if al.Mode == "first" {
		if len(vis) == 0 || vis[0][0] != al.First[0] || vis[0][1] != al.First[1] {
			return false
		}
		rest = vis[1:]
	}
	bag := map[string]int{}
	for _, p := range rest {
		bag[pairKey(p)]++
	}
	for _, p := range al.Must {
		k := pairKey(p)
		if bag[k] == 0 {
			return false // an entry present throughout was not visited
		}
		bag[k]--
	}
	for _, p := range al.May {
		k := pairKey(p)
		if bag[k] > 0 {
			bag[k]--
		}
	}
	for _, n := range bag {
		if n > 0 {
			return false // visited twice, deleted before reached, or never existed
		}
	}
	return true
}

// verdict of one history on one observation
type outcome struct {
	ok       bool
	step     int    // 0-based index of the first rejected step
	want     string // prediction at that step
	got      string // observation at that step
	nonRTErr bool   // a panic was predicted and observed, but it is not a runtime.Error
}

// validate walks the lines one history printed and compares them step by step
// with the prediction.
func validate(h *hist, lines []string) outcome {
	p := 0
	for si := range h.Ops {
		tag, nums, alts, err := decodeRes(h.Res[si])
		if err != nil {
			return outcome{step: si, want: string(h.Res[si]), got: "undecodable prediction: " + err.Error()}
		}
		if tag != "R" {
			var want string
			switch tag {
			case "n":
				want = "n"
			case "P":
				want = "P r"
			case "g":
				want = fmt.Sprintf("g %d", nums[0])
			case "o":
				want = fmt.Sprintf("o %d %v", nums[0], nums[1] == 1)
			case "l":
				want = fmt.Sprintf("l %d", nums[0])
			}
			got := "<no output>"
			if p < len(lines) {
				got = lines[p]
				p++
			}
			if got != want {
				return outcome{step: si, want: want, got: got, nonRTErr: want == "P r" && got == "P x"}
			}
			continue
		}
		var vis [][]int
		end := "<no output>"
		for p < len(lines) {
			l := lines[p]
			p++
			if strings.HasPrefix(l, "r ") {
				f := strings.Fields(l)
				if len(f) == 3 {
					a, e1 := strconv.Atoi(f[1])
					b, e2 := strconv.Atoi(f[2])
					if e1 == nil && e2 == nil {
						vis = append(vis, []int{a + 1, b}) // the program prints 0-based classes, -1 for NaN-like keys
						continue
					}
				}
			}
			end = l
			break
		}
		okAny := false
		for i := range alts {
			if alts[i].accepts(vis, end) {
				okAny = true
				break
			}
		}
		if !okAny {
			pe := false
			for i := range alts {
				if alts[i].End == "P" && end == "P x" {
					pe = true
				}
			}
			return outcome{step: si, want: string(h.Res[si]), got: fmt.Sprintf("visited %v end %q", vis, end), nonRTErr: pe}
		}
	}
	if p != len(lines) {
		return outcome{step: len(h.Ops) - 1, want: "<end of history>", got: "extra output: " + strings.Join(lines[p:], " | ")}
	}
	return outcome{ok: true}
}

// splitHistories cuts program output at the "H <type> <n>" markers.
func splitHistories(lines []string) map[[2]int][]string {
	out := map[[2]int][]string{}
	var cur [2]int
	have := false
	for _, l := range lines {
		if strings.HasPrefix(l, "H ") {
			f := strings.Fields(l)
			if len(f) == 3 {
				a, e1 := strconv.Atoi(f[1])
				b, e2 := strconv.Atoi(f[2])
				if e1 == nil && e2 == nil {
					cur = [2]int{a, b}
					have = true
					out[cur] = []string{}
					continue
				}
			}
		}
		if have {
			out[cur] = append(out[cur], l)
		}
	}
	return out
}

type params struct {
	Out     string   `json:"out"`
	PoolCap int      `json:"poolCap"`
	ElemCap int      `json:"elemCap"`
	PairCap int      `json:"pairCap"`
	L       int      `json:"L"`
	NSim    int      `json:"nsim"`
	TypeSel [][]int  `json:"typeSel"`
	PoolSel []int    `json:"poolSel"`
	SimSel  [][]int  `json:"simSel"`
	Fams    []string `json:"fams"`
}

func makeParams(c *core.Ctx) params {
	rng := rand.New(rand.NewSource(c.Seed))
	p := params{Out: "scen", PoolCap: c.Pick(36, 64), ElemCap: c.Pick(4, 6), PairCap: c.Pick(6, 9), L: c.Pick(4, 6),
		NSim: c.Pick(24, 600), Fams: []string{"pairs", "dump", "sim", "laws"}}
	for i := 0; i < c.Pick(12, 100); i++ {
		v := make([]int, 7)
		for j := range v {
			v[j] = rng.Intn(1000000)
		}
		p.TypeSel = append(p.TypeSel, v)
	}
	for i := 0; i < 512; i++ {
		p.PoolSel = append(p.PoolSel, rng.Intn(1000000))
	}
	for i := 0; i < p.NSim; i++ {
		v := make([]int, p.L+1)
		for j := range v {
			v[j] = rng.Intn(1000000)
		}
		p.SimSel = append(p.SimSel, v)
	}
	return p
}

// loadScenarios reads the catalog and the histories TLC wrote.
func loadScenarios(dir, out string) ([]catEntry, map[int][]*hist, int, error) {
	var cat []catEntry
	b, err := os.ReadFile(filepath.Join(dir, out+"_catalog.json"))
	if err != nil {
		return nil, nil, 0, err
	}
	if err := json.Unmarshal(b, &cat); err != nil {
		return nil, nil, 0, fmt.Errorf("catalog: %v", err)
	}
	files, _ := filepath.Glob(filepath.Join(dir, out+".*.ndjson"))
	sort.Strings(files)
	hists := map[int][]*hist{}
	total := 0
	for _, f := range files {
		err := tlcx.ReadNDJSON(f, func(raw json.RawMessage) error {
			var inner string
			if err := json.Unmarshal(raw, &inner); err != nil {
				return err
			}
			var rec struct {
				Ty   int               `json:"ty"`
				Fam  string            `json:"fam"`
				Init string            `json:"init"`
				Ops  [][]any           `json:"ops"`
				Res  []json.RawMessage `json:"res"`
			}
			if err := json.Unmarshal([]byte(inner), &rec); err != nil {
				return err
			}
			h := &hist{Ty: rec.Ty, Fam: rec.Fam, Init: rec.Init, Res: rec.Res, Raw: inner}
			for _, o := range rec.Ops {
				h.Ops = append(h.Ops, opT{Kind: str(o[0]), Idx: num(o[1]), Val: num(o[2])})
			}
			if len(h.Ops) != len(h.Res) {
				return fmt.Errorf("history with %d ops and %d results", len(h.Ops), len(h.Res))
			}
			h.seq = len(hists[h.Ty])
			hists[h.Ty] = append(hists[h.Ty], h)
			total++
			return nil
		})
		if err != nil {
			return nil, nil, 0, fmt.Errorf("%s: %v", f, err)
		}
	}
	return cat, hists, total, nil
}

// Run is the C15 check.
func Run(c *core.Ctx, pool *gjs.Pool) {
	c.Assumef("keys are taken from per-type pools of symbolic values (GoMapScen.tla); equality of pool members is decided by GoMap!KeyEq, the native toolchain guards every history")
	c.Assumef("map values are int32; value aliasing is C07's subject")
	c.Assumef("range order is not predicted: the observed bag of visited (key class, value) pairs must fit one alternative (first/must/may) of the specification")
	if rp := os.Getenv("VERIF_REPLAY"); rp != "" {
		replay(c, pool, rp)
		return
	}
	p := makeParams(c)
	pj, _ := json.Marshal(p)
	cfg := "SPECIFICATION Spec\nINVARIANT SpecOK\nINVARIANT Emit\nCHECK_DEADLOCK FALSE\n"
	r, err := tlcx.Run(c, tlcx.Opts{Module: "GoMapScen", Cfg: cfg, Workers: 8, Timeout: 40 * time.Minute,
		Files: map[string]string{"c15_params.json": string(pj)}, HeapMB: 8192})
	if !tlcx.MustComplete(c, r, err, "GoMapScen") {
		return
	}
	c.Phase("tlc")
	c.Set("checker_cmd", "tlc GoMapScen (INVARIANT SpecOK: EqLaws on every pool, AbsOK/ResOK on every intermediate map state; INVARIANT Emit)")
	cat, hists, total, err := loadScenarios(r.Dir, p.Out)
	if err != nil {
		c.Infra(fmt.Errorf("decode scenarios: %v", err))
		return
	}
	if os.Getenv("VERIF_C15_CORRUPT") == "pred" {
		// sensitivity demonstration: falsify one predicted result (len + 1 in the
		// first history that has a len step); the guard then disagrees with the
		// specification and the history is counted in spec_guard_discards
		corruptOne(hists)
	}
	c.Set("key_types", len(cat))
	c.Set("evaluations", total)
	c.Set("exhaustive", false)
	c.Set("rule", "TLC enumerates the catalog of key types (all leaf kinds, named/array/struct versions, special shapes, seeded depth-3 types) with value pools and, per type, the families pairs (all ordered pairs of the selected pool indices x 2 templates, exhaustive), dump (literal of the whole pool) and sim (VERIF_SEED-selected operation sequences); a case is one history of one key type; distinct = distinct (type, init, ops); non-trivial = every history (each performs at least one keyed map operation or a range over a non-empty literal)")
	runAll(c, pool, cat, hists, total)
}

func corruptOne(hists map[int][]*hist) {
	var tis []int
	for ti := range hists {
		tis = append(tis, ti)
	}
	sort.Ints(tis)
	for _, ti := range tis {
		for _, h := range hists[ti] {
			for si, o := range h.Ops {
				if o.Kind == "len" {
					_, nums, _, _ := decodeRes(h.Res[si])
					h.Res[si] = json.RawMessage(fmt.Sprintf(`["l",%d]`, nums[0]+1))
					return
				}
			}
		}
	}
}

type failure struct {
	h    *hist
	oc   outcome
	keys []string
}

func runAll(c *core.Ctx, pool *gjs.Pool, cat []catEntry, hists map[int][]*hist, total int) {
	// programs: a handful of key types each
	var tis []int
	for ti := range hists {
		tis = append(tis, ti)
	}
	sort.Ints(tis)
	var groups [][]int
	var cur []int
	n := 0
	for _, ti := range tis {
		if len(cur) > 0 && (len(cur) >= 8 || n+len(hists[ti]) > 4000) {
			groups = append(groups, cur)
			cur, n = nil, 0
		}
		cur = append(cur, ti)
		n += len(hists[ti])
	}
	if len(cur) > 0 {
		groups = append(groups, cur)
	}
	c.Set("programs", len(groups))
	fails := make([][]failure, len(groups))
	discards := make([]int, len(groups))
	checked := make([]int, len(groups))
	c.ParMap(len(groups), func(gi int) {
		g := groups[gi]
		prog := renderProgram(cat, g, hists)
		b := pool.RunBoth(c.Scratch, prog, gjs.Opts{}, 5*time.Minute, true, false)
		if b.BuildErr == nil && b.NativeErr != "" && strings.Contains(b.NativeErr, "go-build") {
			// the shared Go build cache was trimmed under the linker (other checks run concurrently): once more
			b = pool.RunBoth(c.Scratch, prog, gjs.Opts{}, 5*time.Minute, true, false)
		}
		if b.BuildErr != nil {
			if be, ok := b.BuildErr.(*gjs.BuildError); ok && be.Panic {
				c.Report(core.Case{Keys: []string{"compiler_panic"}, Summary: "compiler internal error on a map program: " + be.Error(), Files: prog.ReplayFiles("prog")})
			} else {
				os.WriteFile(filepath.Join(c.Scratch, "c15_failed_main.go"), []byte(prog.Files["main.go"]), 0o644)
				c.Infra(fmt.Errorf("gopherjs build failed (with VERIF_KEEP=1 the program stays in %s): %v", filepath.Join(c.Scratch, "c15_failed_main.go"), b.BuildErr))
			}
			return
		}
		if b.NativeErr != "" {
			os.WriteFile(filepath.Join(c.Scratch, "c15_failed_main.go"), []byte(prog.Files["main.go"]), 0o644)
			c.Infra(fmt.Errorf("reference toolchain rejected a generated program (with VERIF_KEEP=1 it stays in %s): %s", filepath.Join(c.Scratch, "c15_failed_main.go"), tlcx.Tail(b.NativeErr, 20)))
			return
		}
		if b.Native.End != "exit" {
			c.Infra(fmt.Errorf("native run ended with %s %s", b.Native.End, b.Native.Msg))
			return
		}
		if os.Getenv("VERIF_C15_CORRUPT") == "obs" && gi == 0 {
			// sensitivity demonstration: falsify one observed len result; the check must report it
			for i, l := range b.JS.Lines {
				if strings.HasPrefix(l, "l ") {
					n, _ := strconv.Atoi(l[2:])
					b.JS.Lines[i] = fmt.Sprintf("l %d", n+1)
					break
				}
			}
		}
		js := splitHistories(b.JS.Lines)
		nat := splitHistories(b.Native.Lines)
		for _, ti := range g {
			for _, h := range hists[ti] {
				k := [2]int{ti, h.seq}
				nl, ok := nat[k]
				if !ok {
					c.Infra(fmt.Errorf("native run did not print history %v", k))
					return
				}
				if on := validate(h, nl); !on.ok {
					discards[gi]++ // the guard disagrees with the specification: no verdict
					if os.Getenv("VERIF_VERBOSE") != "" {
						fmt.Fprintf(os.Stderr, "[C15] spec-guard discard: type %s history %s step %d: spec %s, native %s\n", canon(cat[ti-1].T), h.Raw, on.step, on.want, on.got)
					}
					continue
				}
				checked[gi]++
				jl, ok := js[k]
				var oj outcome
				if !ok {
					oj = outcome{step: 0, want: "history output", got: fmt.Sprintf("no output (program ended with %s %s)", b.JS.End, b.JS.Msg)}
				} else {
					oj = validate(h, jl)
				}
				if oj.ok {
					continue
				}
				fails[gi] = append(fails[gi], failure{h: h, oc: oj, keys: classify(&cat[ti-1], h, oj)})
			}
		}
	})
	c.Phase("run")
	nd, nc := 0, 0
	for i := range groups {
		nd += discards[i]
		nc += checked[i]
	}
	c.Set("spec_guard_discards", nd)
	c.Set("traces_validated_against_impl", nc)
	if nd > 0 {
		fmt.Printf("note: %d histories discarded because the reference toolchain disagrees with the specification\n", nd)
	}
	for ti, hs := range hists {
		for _, h := range hs {
			c.Distinct(fmt.Sprint(canon(cat[ti-1].T), cat[ti-1].Pv, h.Init, h.Ops))
		}
	}
	// report: one case per (key type, classifier set), with the number of histories
	type grp struct {
		first failure
		count int
	}
	gm := map[string]*grp{}
	var order []string
	for _, fs := range fails {
		for _, f := range fs {
			k := fmt.Sprint(f.h.Ty, "|", strings.Join(f.keys, ","))
			g := gm[k]
			if g == nil {
				g = &grp{first: f}
				gm[k] = g
				order = append(order, k)
			}
			g.count++
		}
	}
	sort.Strings(order)
	for _, k := range order {
		g := gm[k]
		f := g.first
		ce := &cat[f.h.Ty-1]
		report(c, ce, f, g.count)
	}
	// samples
	i := 0
	for _, ti := range tis {
		if i%(len(tis)/4+1) == 0 && len(hists[ti]) > 0 {
			h := hists[ti][len(hists[ti])/2]
			c.Sample(map[string]any{"key_type": json.RawMessage(canon(cat[ti-1].T)), "history": json.RawMessage(h.Raw)})
		}
		i++
	}
}

func describe(ce *catEntry, h *hist) string {
	r := newRenderer()
	te := r.typeExpr(ce.T)
	var ops []string
	for _, o := range h.Ops {
		s := o.Kind
		if o.Idx > 0 {
			s += " " + r.valExpr(ce.T, ce.Pool[o.Idx-1])
		}
		if o.Val != 0 {
			s += fmt.Sprintf(" =%d", o.Val)
		}
		ops = append(ops, s)
	}
	d := strings.Join(r.decls, "; ")
	if d != "" {
		d = " where " + d
	}
	return fmt.Sprintf("map[%s]int32%s, init %s: %s", te, d, h.Init, strings.Join(ops, "; "))
}

func clip(s string, n int) string {
	if len(s) > n {
		return s[:n] + "..."
	}
	return s
}

func report(c *core.Ctx, ce *catEntry, f failure, count int) {
	one := *f.h
	one.seq = 0
	prog := renderProgram([]catEntry{*ce}, []int{1}, map[int][]*hist{1: {&one}})
	files := prog.ReplayFiles("prog")
	sc, _ := json.Marshal(map[string]any{"cat": ce, "hist": json.RawMessage(f.h.Raw)})
	files["scenario.json"] = string(sc) + "\n"
	files["expected.txt"] = fmt.Sprintf("step %d: %s\n", f.oc.step, f.oc.want)
	files["observed.txt"] = fmt.Sprintf("step %d: %s\n", f.oc.step, f.oc.got)
	c.Report(core.Case{Keys: f.keys,
		Summary: fmt.Sprintf("%s -- step %d (%s): Go/spec = %s, compiled program: %s (%d histories of this key type and class differ)",
			describe(ce, f.h), f.oc.step+1, f.h.Ops[f.oc.step].Kind, clip(f.oc.want, 400), clip(f.oc.got, 400), count),
		Files: files})
}

// replay re-decides one recorded scenario.
func replay(c *core.Ctx, pool *gjs.Pool, dir string) {
	b, err := os.ReadFile(filepath.Join(dir, "scenario.json"))
	if err != nil {
		c.Infra(err)
		return
	}
	var raw struct {
		Cat  catEntry        `json:"cat"`
		Hist json.RawMessage `json:"hist"`
	}
	if err := json.Unmarshal(b, &raw); err != nil {
		c.Infra(err)
		return
	}
	var rec struct {
		Fam  string            `json:"fam"`
		Init string            `json:"init"`
		Ops  [][]any           `json:"ops"`
		Res  []json.RawMessage `json:"res"`
	}
	if err := json.Unmarshal(raw.Hist, &rec); err != nil {
		c.Infra(err)
		return
	}
	h := &hist{Ty: 1, Fam: rec.Fam, Init: rec.Init, Res: rec.Res, Raw: string(raw.Hist)}
	for _, o := range rec.Ops {
		h.Ops = append(h.Ops, opT{Kind: str(o[0]), Idx: num(o[1]), Val: num(o[2])})
	}
	c.Set("rule", "replay of one recorded history")
	c.Set("exhaustive", false)
	c.Set("evaluations", 1)
	c.Set("checker_cmd", "none (prediction taken from the replay directory)")
	runAll(c, pool, []catEntry{raw.Cat}, map[int][]*hist{1: {h}}, 1)
}
