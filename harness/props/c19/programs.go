package c19

import (
	"bytes"
	"fmt"
	"go/build"
	"math/rand"
	"os"
	"path/filepath"
	"regexp"
	"sort"
	"strconv"
	"strings"
	"sync"
	"time"
	"unicode/utf8"

	"verif/core"
	"verif/gjs"
	"verif/props/minigo"
)

// ---------------------------------------------------------------------------
// one emitted file + its map

type emitted struct {
	js      []byte
	lines   [][]byte // js split at '\n'
	sources []string
	maps    []Mapping // sorted by generated position
}

func loadEmitted(jsPath string) (*emitted, error) {
	js, err := os.ReadFile(jsPath)
	if err != nil {
		return nil, err
	}
	doc, err := os.ReadFile(jsPath + ".map")
	if err != nil {
		return nil, err
	}
	srcs, ms, err := DecodeMap(doc)
	if err != nil {
		return nil, fmt.Errorf("%s.map: %v", filepath.Base(jsPath), err)
	}
	sortMappings(ms)
	return &emitted{js: js, lines: bytes.Split(js, []byte("\n")), sources: srcs, maps: ms}, nil
}

type problem struct {
	key  string
	text string
}

// srcCache: original files by resolved path.
var srcCache sync.Map // path -> [][]byte (lines) or nil

func readLines(path string) [][]byte {
	if v, ok := srcCache.Load(path); ok {
		l, _ := v.([][]byte)
		return l
	}
	b, err := os.ReadFile(path)
	var l [][]byte
	if err == nil {
		l = bytes.Split(b, []byte("\n"))
		if n := len(l); n > 0 && len(l[n-1]) == 0 {
			l = l[:n-1] // the text after the final newline is not a line
		}
		if l == nil {
			l = [][]byte{}
		}
	}
	srcCache.Store(path, l)
	return l
}

// resolveSource finds the file a name in the map's `sources` stands for, the way
// Filter.normalizePath produced it: GOPATH- or GOROOT-relative with a leading
// slash (overlay files of the compiler carry the prefix gopherjs__ and live in
// compiler/natives/src; the js and nosync packages come from the compiler's own
// tree), otherwise the base name of a file of the program (or of the prelude).
func resolveSource(src, progDir string) (lines [][]byte, path string) {
	var cands []string
	base := filepath.Base(src)
	if strings.HasPrefix(src, "/") {
		dir := filepath.Dir(src)
		if strings.HasPrefix(base, "gopherjs__") {
			cands = append(cands, filepath.Join(gjs.Repo, "compiler/natives/src", dir, strings.TrimPrefix(base, "gopherjs__")))
		}
		if rest := strings.TrimPrefix(src, "/github.com/gopherjs/gopherjs/"); rest != src {
			cands = append(cands, filepath.Join(gjs.Repo, rest))
		}
		cands = append(cands, filepath.Join(build.Default.GOROOT, "src", src))
	} else {
		cands = append(cands, filepath.Join(progDir, src))
		if m, _ := filepath.Glob(filepath.Join(progDir, "*", base)); len(m) > 0 {
			cands = append(cands, m...)
		}
		if strings.HasSuffix(src, ".js") {
			cands = append(cands, filepath.Join(gjs.Repo, "compiler/prelude", src))
		}
	}
	for _, p := range cands {
		if l := readLines(p); l != nil {
			return l, p
		}
	}
	return nil, ""
}

var reGlobalVar = regexp.MustCompile(`(?m)^var (\$[A-Za-z0-9_$]+)`)
var reDollarIdent = regexp.MustCompile(`^\$[A-Za-z0-9_$]+`)

var globalsCache sync.Map // path -> map[string]bool

func topLevelDollarNames(path string, lines [][]byte) map[string]bool {
	if v, ok := globalsCache.Load(path); ok {
		return v.(map[string]bool)
	}
	m := map[string]bool{}
	for _, g := range reGlobalVar.FindAllSubmatch(bytes.Join(lines, []byte("\n")), -1) {
		m[string(g[1])] = true
	}
	globalsCache.Store(path, m)
	return m
}

type mapStats struct {
	mappings, goMappings, jsMappings, sourceless int
	anchors                                      int
	atLineEnd                                    int
}

// validateMap checks every mapping of an emitted file: the generated position
// exists (and means the same under byte and UTF-16 counting), the original file
// can be found and has the line, and JavaScript mappings that point at the
// declaration of a top-level $name sit on that name in the generated file.
func validateMap(e *emitted, progDir string) (st mapStats, probs []problem) {
	add := func(key, format string, a ...any) {
		if len(probs) < 200 {
			probs = append(probs, problem{key, fmt.Sprintf(format, a...)})
		}
	}
	if bytes.IndexByte(e.js, 8) >= 0 {
		add("hint_byte_in_output", "the emitted JavaScript contains a hint magic byte at offset %d", bytes.IndexByte(e.js, 8))
	}
	missing := map[string]bool{}
	for _, m := range e.maps {
		st.mappings++
		if m.GenLine >= len(e.lines) {
			add("generated_line_out_of_range", "mapping at generated line %d, the file has %d lines", m.GenLine+1, len(e.lines))
			continue
		}
		gl := e.lines[m.GenLine]
		switch {
		case m.GenCol > len(gl):
			add("generated_column_out_of_range", "mapping at %d:%d, the line has %d bytes", m.GenLine+1, m.GenCol, len(gl))
			continue
		case m.GenCol == len(gl):
			st.atLineEnd++
		case !utf8.RuneStart(gl[m.GenCol]):
			add("generated_column_inside_character", "mapping at %d:%d points into the middle of a UTF-8 character", m.GenLine+1, m.GenCol)
			continue
		}
		for _, b := range gl[:m.GenCol] {
			if b >= 0x80 {
				add("byte_column_after_non_ascii", "mapping at %d:%d (-> %s:%d) follows a non-ASCII character on its line: the byte column is not the UTF-16 column consumers use", m.GenLine+1, m.GenCol, m.Src, m.Line+1)
				break
			}
		}
		if m.Src == "" {
			st.sourceless++
			continue
		}
		lines, path := resolveSource(m.Src, progDir)
		if lines == nil {
			if !missing[m.Src] {
				missing[m.Src] = true
				key := "source_file_not_found"
				if m.Src == "numberic.js" {
					key = "prelude_source_named_numberic_js"
				}
				add(key, "the map names the source %q; no such file (first mapping %d:%d -> line %d)", m.Src, m.GenLine+1, m.GenCol, m.Line+1)
			}
			continue
		}
		if m.Line < 0 || m.Line >= len(lines) {
			add("original_line_out_of_range", "mapping %d:%d -> %s:%d, the file %s has %d lines", m.GenLine+1, m.GenCol, m.Src, m.Line+1, path, len(lines))
			continue
		}
		if strings.HasSuffix(m.Src, ".go") {
			st.goMappings++
			continue
		}
		st.jsMappings++
		ol := lines[m.Line]
		if m.Col < 0 || m.Col > len(ol) {
			add("original_column_out_of_range", "mapping %d:%d -> %s:%d:%d, the line has %d bytes", m.GenLine+1, m.GenCol, m.Src, m.Line+1, m.Col, len(ol))
			continue
		}
		if m.Col >= 4 && string(ol[m.Col-4:m.Col]) == "var " && m.Col == 4 {
			if name := reDollarIdent.Find(ol[m.Col:]); name != nil && topLevelDollarNames(path, lines)[string(name)] {
				st.anchors++
				g := gl[m.GenCol:]
				if !bytes.HasPrefix(g, name) || (len(g) > len(name) && reDollarIdent.Match(append([]byte("$"), g[len(name)]))) {
					show := g
					if len(show) > 30 {
						show = show[:30]
					}
					key := "js_mapping_not_on_its_code"
					const wrapper = "(function(){" // what WritePkgCode puts in front of a minified .inc.js file
					if bytes.HasPrefix(gl, []byte(wrapper)) && bytes.HasPrefix(gl[m.GenCol+len(wrapper):], name) {
						key = "js_block_first_line_column_offset_not_applied"
					}
					add(key, "mapping %d:%d -> %s:%d:%d is the declaration of %s, but the generated file has %q there", m.GenLine+1, m.GenCol, m.Src, m.Line+1, m.Col, name, show)
				}
			}
		}
	}
	return st, probs
}

// stripMapComment removes the trailing sourceMappingURL line.
func stripMapComment(js []byte) []byte {
	i := bytes.LastIndex(js, []byte("//# sourceMappingURL="))
	if i >= 0 && bytes.IndexByte(js[i:], '\n') == len(js[i:])-1 {
		return js[:i]
	}
	return js
}

// packagesPart returns the file from the first line that starts with $packages[
// (or the wrapper of an .inc.js file) on.
func packagesPart(js []byte) []byte {
	idx := -1
	for _, anchor := range []string{"\n$packages[\"", "\n\t(function() {\n", "\n(function(){"} {
		if i := bytes.Index(js, []byte(anchor)); i >= 0 && (idx < 0 || i < idx) {
			idx = i
		}
	}
	if idx < 0 {
		return nil
	}
	return js[idx+1:]
}

// goMappingBag is the multiset of original positions of Go mappings.
func goMappingBag(e *emitted) map[string]int {
	bag := map[string]int{}
	for _, m := range e.maps {
		if strings.HasSuffix(m.Src, ".go") {
			bag[fmt.Sprintf("%s:%d:%d %s", m.Src, m.Line+1, m.Col, m.Name)]++
		}
	}
	return bag
}

// ---------------------------------------------------------------------------
// stacks

type frame struct {
	fn        string
	file      string
	line, col int // 1-based as printed
}

var reFrame = regexp.MustCompile(`^\s+at (?:(.*?) \()?([^()]+?):(\d+):(\d+)\)?$`)

func parseFrame(l string) (frame, bool) {
	m := reFrame.FindStringSubmatch(l)
	if m == nil {
		return frame{}, false
	}
	ln, _ := strconv.Atoi(m[3])
	col, _ := strconv.Atoi(m[4])
	return frame{fn: m[1], file: m[2], line: ln, col: col}, true
}

// resolve maps a frame of the emitted file through the map.
func (e *emitted) resolve(f frame) (Mapping, bool) {
	return lookup(e.maps, f.line-1, f.col-1)
}

// ---------------------------------------------------------------------------
// build a program in the four modes

type mode struct {
	name   string
	minify bool
}

var modes = []mode{{"plain", false}, {"minified", true}}

type built struct {
	dir string
	em  map[string]*emitted // mode name -> emitted (with map)
	out map[string]string   // mode name -> path of the file with map
}

type progResult struct {
	facts     int
	mappings  int
	goMaps    int
	jsMaps    int
	anchors   int
	frames    int
	framesOK  int
	discards  int
	cases     []core.Case
	infra     error
	nonASCII  int
	stacks    int
	sourceles int

	behaviourDiffers int
	frameKinds       map[string]int
}

func (r *progResult) report(prog gjs.Prog, keys []string, summary string, extra map[string]string) {
	files := prog.ReplayFiles("prog")
	for k, v := range extra {
		files[k] = v
	}
	r.cases = append(r.cases, core.Case{Keys: keys, Summary: summary, Files: files})
}

// buildAll builds prog plain and minified, each with and without a map file, and
// runs the file-level validations. The caller removes b.dir.
func buildAll(c *core.Ctx, pool *gjs.Pool, prog gjs.Prog, res *progResult) *built {
	dir, err := prog.Materialise(c.Scratch)
	if err != nil {
		res.infra = err
		return nil
	}
	b := &built{dir: dir, em: map[string]*emitted{}, out: map[string]string{}}
	// the four builds run side by side (each in its own pool worker)
	type bjob struct {
		m   mode
		out string
		mf  bool
		err error
	}
	var bjobs []*bjob
	for _, m := range modes {
		bjobs = append(bjobs, &bjob{m: m, out: filepath.Join(dir, "out_"+m.name+".js"), mf: true},
			&bjob{m: m, out: filepath.Join(dir, "nomap_"+m.name+".js"), mf: false})
	}
	var wg sync.WaitGroup
	for _, j := range bjobs {
		wg.Add(1)
		go func(j *bjob) {
			defer wg.Done()
			j.err = pool.Build(dir, j.out, gjs.Opts{Minify: j.m.minify, MapFile: j.mf})
		}(j)
	}
	wg.Wait()
	for _, j := range bjobs {
		if j.err == nil {
			continue
		}
		if be, ok := j.err.(*gjs.BuildError); ok {
			keys := []string{"compiler_rejects_valid_program"}
			if be.Panic {
				keys = []string{"compiler_panic"}
			} else if r := gjs.NativeBuild(dir, filepath.Join(dir, "native.bin")); r.ExitCode != 0 || r.Err != nil {
				res.infra = fmt.Errorf("a generated program is not valid Go: %s", tail(r.Out, 800))
				return nil
			}
			res.report(prog, keys, fmt.Sprintf("%s build (map file %v) failed: %s", j.m.name, j.mf, tail(be.Error(), 500)), nil)
		} else {
			res.infra = j.err
		}
		return nil
	}
	for _, m := range modes {
		withMap := filepath.Join(dir, "out_"+m.name+".js")
		noMap := filepath.Join(dir, "nomap_"+m.name+".js")
		e, err := loadEmitted(withMap)
		if err != nil {
			res.report(prog, []string{"unreadable_source_map"}, fmt.Sprintf("%s build: %v", m.name, err), nil)
			return nil
		}
		b.em[m.name], b.out[m.name] = e, withMap
		// hint-free output == output of the build without mapping
		nm, err := os.ReadFile(noMap)
		if err != nil {
			res.infra = err
			return nil
		}
		got, want := stripMapComment(e.js), nm
		if bytes.Equal(got, e.js) {
			res.report(prog, []string{"no_source_mapping_url"}, m.name+" build with a map file does not end in a sourceMappingURL line", nil)
		}
		if !m.minify {
			got, want = packagesPart(got), packagesPart(want)
			if got == nil || want == nil {
				res.infra = fmt.Errorf("no $packages[ anchor in a %s build", m.name)
				return nil
			}
		}
		res.facts++
		if !bytes.Equal(got, want) {
			i := 0
			for i < len(got) && i < len(want) && got[i] == want[i] {
				i++
			}
			res.report(prog, []string{"mapped_build_differs_from_unmapped"}, fmt.Sprintf("%s build: the code written with a map file differs from the build without one at byte %d: %q vs %q", m.name, i, clipB(got, i), clipB(want, i)), nil)
		}
		st, probs := validateMap(e, dir)
		res.facts++
		res.mappings += st.mappings
		res.goMaps += st.goMappings
		res.jsMaps += st.jsMappings
		res.anchors += st.anchors
		res.sourceles += st.sourceless
		seen := map[string]int{}
		for _, p := range probs {
			seen[p.key]++
			if seen[p.key] > 2 {
				continue
			}
			res.report(prog, []string{p.key}, m.name+" build: "+p.text, nil)
		}
	}
	// removeWhitespace must carry every hint over: the Go mappings of the minified
	// build are those of the plain build
	res.facts++
	pb, mb := goMappingBag(b.em["plain"]), goMappingBag(b.em["minified"])
	var diff []string
	for k, n := range pb {
		if mb[k] != n {
			diff = append(diff, fmt.Sprintf("%s: plain %d, minified %d", k, n, mb[k]))
		}
	}
	for k, n := range mb {
		if _, ok := pb[k]; !ok {
			diff = append(diff, fmt.Sprintf("%s: plain 0, minified %d", k, n))
		}
	}
	if len(diff) > 0 {
		sort.Strings(diff)
		if len(diff) > 8 {
			diff = append(diff[:8], fmt.Sprintf("... %d more", len(diff)-8))
		}
		res.report(prog, []string{"minified_build_loses_or_adds_go_mappings"}, "the minified build does not map the same original positions as the plain build: "+strings.Join(diff, "; "), nil)
	}
	return b
}

func clipB(b []byte, at int) []byte {
	lo, hi := at-30, at+30
	if lo < 0 {
		lo = 0
	}
	if hi > len(b) {
		hi = len(b)
	}
	return b[lo:hi]
}

func tail(s string, n int) string {
	if len(s) > n {
		return s[len(s)-n:]
	}
	return s
}

// ---------------------------------------------------------------------------
// MiniGo programs with stack-recording trace points

const tpHelpers = `package main

var inp []bool
var ip int
var mask uint32

func in() bool {
	if ip < len(inp) {
		b := inp[ip]
		ip++
		return b
	}
	ip++
	return false
}

func tr(k, v int) int {
	yield(k)
	where(k)
	return v
}

func trb(k int, b bool) bool {
	yield(k)
	where(k)
	return b
}
`

const tpWhereJS = `//go:build js

package main

import "github.com/gopherjs/gopherjs/js"

func init() { js.Global.Get("Error").Set("stackTraceLimit", 6) }

// where prints the JavaScript stack of a trace point.
func where(k int) {
	println("S", k)
	println(js.Global.Get("Error").New().Get("stack").String())
}

func argN() int { return js.Global.Get("process").Get("argv").Index(2).Int() }
`

const tpWhereNative = `//go:build !js

package main

import (
	"os"
	"runtime"
)

// where prints the line of the statement that contains the trace point.
func where(k int) {
	_, _, line, _ := runtime.Caller(2)
	println("S", k, line)
}

func argN() int {
	n := 0
	for _, c := range os.Args[1] {
		n = n*10 + int(c-'0')
	}
	return n
}
`

const tpYieldFlat = `package main

import "runtime"

// a trace point suspends the goroutine when its bit is set in the mask
func yield(k int) {
	if mask>>(uint(k)%31)&1 == 1 {
		runtime.Gosched()
	}
}
`

const tpYieldDirect = `package main

func yield(k int) {}
`

func lineOf(text, needle string) int {
	i := strings.Index(text, needle)
	if i < 0 {
		return 0
	}
	return 1 + strings.Count(text[:i], "\n")
}

type tpBatch struct {
	prog     gjs.Prog
	mainSrc  string
	progLo   []int // first line of program n in main.go
	progHi   []int
	sections int
}

var reSite = regexp.MustCompile(`\btrb?\((\d+),`)

func renderTP(progs []*minigo.Program, inputs [][]bool, flat bool) *tpBatch {
	var b strings.Builder
	b.WriteString("package main\n\n")
	tb := &tpBatch{}
	for n, p := range progs {
		tb.progLo = append(tb.progLo, 1+strings.Count(b.String(), "\n"))
		b.WriteString(minigo.RenderFuncs(p, n))
		tb.progHi = append(tb.progHi, strings.Count(b.String(), "\n"))
	}
	b.WriteString("func main() {\n\tmask = uint32(argN())\n")
	for n := range progs {
		for ci, iv := range inputs {
			var bits []string
			for _, x := range iv {
				bits = append(bits, strconv.FormatBool(x))
			}
			fmt.Fprintf(&b, "\tprintln(\"#\", %d, %d)\n\tinp, ip = []bool{%s}, 0\n\tprintln(\"ret\", p%d_f0())\n", n, ci, strings.Join(bits, ", "), n)
			tb.sections++
		}
	}
	b.WriteString("}\n")
	tb.mainSrc = b.String()
	y := tpYieldDirect
	if flat {
		y = tpYieldFlat
	}
	tb.prog = gjs.Prog{Files: map[string]string{"main.go": tb.mainSrc, "helpers.go": tpHelpers, "yield.go": y, "where_js.go": tpWhereJS, "where_native.go": tpWhereNative}}
	return tb
}

// siteLines: (program, site id) -> line in main.go of the text tr(k, / trb(k, and
// whether that line is a case clause.
type siteInfo struct {
	line   int
	isCase bool
	isBool bool
}

func (tb *tpBatch) sites() map[[2]int]siteInfo {
	out := map[[2]int]siteInfo{}
	lines := strings.Split(tb.mainSrc, "\n")
	for n := range tb.progLo {
		for ln := tb.progLo[n]; ln <= tb.progHi[n] && ln <= len(lines); ln++ {
			text := lines[ln-1]
			for _, m := range reSite.FindAllStringSubmatch(text, -1) {
				k, _ := strconv.Atoi(m[1])
				out[[2]int{n, k}] = siteInfo{line: ln, isCase: strings.HasPrefix(strings.TrimSpace(text), "case "), isBool: strings.HasPrefix(m[0], "trb")}
			}
		}
	}
	return out
}

type stackObs struct {
	prog, k int
	frames  []frame
}

// parseStacks reads the output of a compiled trace-point program.
func parseStacks(out string) []stackObs {
	var obs []stackObs
	cur := -1
	lines := strings.Split(out, "\n")
	for i := 0; i < len(lines); i++ {
		l := lines[i]
		if strings.HasPrefix(l, "# ") {
			f := strings.Fields(l)
			if len(f) == 3 {
				cur, _ = strconv.Atoi(f[1])
			}
			continue
		}
		if strings.HasPrefix(l, "S ") {
			k, _ := strconv.Atoi(strings.TrimPrefix(l, "S "))
			so := stackObs{prog: cur, k: k}
			for i+1 < len(lines) && (lines[i+1] == "Error" || strings.HasPrefix(lines[i+1], "    at ")) {
				i++
				if fr, ok := parseFrame(lines[i]); ok {
					so.frames = append(so.frames, fr)
				}
			}
			obs = append(obs, so)
		}
	}
	return obs
}

// parseNativeSites reads "S k line" records of the reference build.
func parseNativeSites(out string) (seq [][3]int) {
	cur := -1
	for _, l := range strings.Split(out, "\n") {
		f := strings.Fields(l)
		if len(f) == 3 && f[0] == "#" {
			cur, _ = strconv.Atoi(f[1])
		}
		if len(f) == 3 && f[0] == "S" {
			k, _ := strconv.Atoi(f[1])
			ln, _ := strconv.Atoi(f[2])
			seq = append(seq, [3]int{cur, k, ln})
		}
	}
	return
}

func runTPBatch(c *core.Ctx, pool *gjs.Pool, progs []*minigo.Program, inputs [][]bool, flat bool, maskArg string) *progResult {
	res := &progResult{frameKinds: map[string]int{}}
	tb := renderTP(progs, inputs, flat)
	b := buildAll(c, pool, tb.prog, res)
	if b == nil {
		return res
	}
	defer os.RemoveAll(b.dir)
	sites := tb.sites()
	// guard: the reference toolchain names the line of every executed trace point
	bin := filepath.Join(b.dir, "native.bin")
	if r := gjs.NativeBuild(b.dir, bin); r.ExitCode != 0 || r.Err != nil {
		res.infra = fmt.Errorf("reference toolchain rejected a trace-point batch: %s", tail(r.Out, 1200))
		return res
	}
	nr := gjs.NativeRun(bin, 6*time.Minute, nil, maskArg)
	if nr.TimedOut { // a loaded machine: once more
		nr = gjs.NativeRun(bin, 12*time.Minute, nil, maskArg)
	}
	if nr.ExitCode != 0 || nr.TimedOut {
		res.infra = fmt.Errorf("reference run of a trace-point batch failed: %s", tail(nr.Out, 600))
		return res
	}
	nat := parseNativeSites(nr.Out)
	whereLine := lineOf(tpWhereJS, `Get("Error").New()`)
	trLine := lineOf(tpHelpers, "where(k)\n\treturn v")
	trbLine := lineOf(tpHelpers, "where(k)\n\treturn b")
	for _, m := range modes {
		e := b.em[m.name]
		nrn := gjs.Node(b.out[m.name], 3*time.Minute, "", nil, maskArg)
		if nrn.TimedOut || nrn.ExitCode != 0 {
			res.report(tb.prog, []string{"trace_point_program_failed"}, fmt.Sprintf("%s build of a trace-point batch did not run to the end (exit %d): %s", m.name, nrn.ExitCode, tail(nrn.Out, 600)), nil)
			continue
		}
		allObs := parseStacks(nrn.Out)
		// align per program: a program whose compiled build executes other trace points
		// than the reference build behaves differently (C01's subject, e.g. the known
		// evaluation-order finding); its stacks say nothing about the map
		obsBy, natBy := map[int][]stackObs{}, map[int][][3]int{}
		for _, so := range allObs {
			obsBy[so.prog] = append(obsBy[so.prog], so)
		}
		for _, x := range nat {
			natBy[x[0]] = append(natBy[x[0]], x)
		}
		var obs []stackObs
		var natA [][3]int
		for n := range progs {
			o, x := obsBy[n], natBy[n]
			same := len(o) == len(x)
			for i := 0; same && i < len(o); i++ {
				same = o[i].k == x[i][1]
			}
			if !same {
				res.behaviourDiffers++
				continue
			}
			obs = append(obs, o...)
			natA = append(natA, x...)
		}
		nat := natA
		reported := map[string]bool{}
		for i, so := range obs {
			res.stacks++
			si, ok := sites[[2]int{so.prog, so.k}]
			if !ok || si.line != nat[i][2] {
				res.discards++ // the reference toolchain places the site on another line than the rendering says
				continue
			}
			if len(so.frames) < 3 {
				res.report(tb.prog, []string{"short_stack"}, fmt.Sprintf("%s build: stack of site %d has %d frames", m.name, so.k, len(so.frames)), nil)
				continue
			}
			h := trLine
			if si.isBool {
				h = trbLine
			}
			want := []struct {
				src  string
				line int
				what string
			}{{"where_js.go", whereLine, "the statement that creates the Error"}, {"helpers.go", h, "the call of where in the trace helper"}, {"main.go", si.line, "the statement that contains the trace point"}}
			for fi, w := range want {
				res.frames++
				mp, ok := e.resolve(so.frames[fi])
				good := ok && mp.Src == w.src && mp.Line+1 == w.line
				if !good && fi == 2 && si.isCase && ok && mp.Src == w.src {
					// a case expression belongs to the switch statement; the clause line and the
					// line of the enclosing statement are both "the statement"
					good = mp.Line+1 <= w.line
				}
				if good {
					res.framesOK++
					continue
				}
				srcLine := ""
				if ls := strings.Split(tb.prog.Files[w.src], "\n"); w.line-1 < len(ls) {
					srcLine = strings.TrimSpace(ls[w.line-1])
				}
				key := fmt.Sprintf("frame%d:%s:%v:%v", fi, m.name, flat, classifyFrame(srcLine, ok, mp))
				res.frameKinds[fmt.Sprintf("frame%d %v got(src=%q) stmt=%.12s", fi, flat, mp.Src, srcLine)]++
				if reported[key] {
					continue
				}
				reported[key] = true
				got := "no mapping"
				if ok {
					got = fmt.Sprintf("%s:%d", mp.Src, mp.Line+1)
					if mp.Src == "" {
						got = "a mapping without original position"
					}
				}
				res.report(tb.prog, classifyFrame(srcLine, ok, mp), fmt.Sprintf("%s build (resumable=%v): stack frame %d of trace point %d (%s:%d:%d, %s) resolves to %s, want %s:%d `%s` (%s)",
					m.name, flat, fi, so.k, filepath.Base(so.frames[fi].file), so.frames[fi].line, so.frames[fi].col, so.frames[fi].fn, got, w.src, w.line, srcLine, w.what),
					map[string]string{"stack.txt": fmt.Sprint(so.frames) + "\n", "mode.txt": fmt.Sprintf("%s resumable=%v mask=%s\n", m.name, flat, maskArg)})
			}
		}
	}
	return res
}

// classifyFrame: known-finding classifier for a frame that does not resolve to
// its statement. stmt is the first line of the Go statement.
func classifyFrame(stmt string, resolved bool, mp Mapping) []string {
	if resolved && mp.Src == "" && isBranchHeader(stmt) {
		return []string{"branch_condition_mapped_to_no_position"}
	}
	return nil
}

// isBranchHeader: the statement is an if / else-if / switch header or a case
// clause (conditions and tags of branching statements).
func isBranchHeader(stmt string) bool {
	stmt = strings.TrimSpace(strings.TrimPrefix(strings.TrimSpace(stmt), "/*@*/"))
	for _, p := range []string{"if ", "} else if ", "switch ", "case "} {
		if strings.HasPrefix(stmt, p) {
			return true
		}
	}
	return false
}

// ---------------------------------------------------------------------------
// programs that panic on a known line

type panicScen struct {
	name string
	decl string // top-level declarations; the entry point is func NAME()
	init bool   // raised during package initialisation
}

var panicScens = []panicScen{
	{name: "explicit", decl: "func NAME() {\n\tprintln(\"before\")\n\t/*@*/ panic(\"boom\")\n}\n"},
	{name: "nilmap", decl: "func NAME() {\n\tvar m map[string]int\n\t/*@*/ m[\"a\"] = 1\n}\n"},
	{name: "index", decl: "func NAME() {\n\ts := []int{1, 2, 3}\n\ti := len(s) + argN()*0\n\t/*@*/ println(s[i])\n}\n"},
	{name: "nilderef", decl: "func NAME() {\n\tvar p *T\n\t/*@*/ println(p.x)\n}\n"},
	{name: "divzero", decl: "func NAME() {\n\ta, b := 10, argN()*0\n\t/*@*/ println(a / b)\n}\n"},
	{name: "assert", decl: "func NAME() {\n\tvar i interface{} = 3\n\t/*@*/ s := i.(string)\n\tprintln(s)\n}\n"},
	{name: "closure", decl: "func NAME() {\n\tf := func(n int) int {\n\t\t/*@*/ panic(\"in closure\")\n\t}\n\tprintln(f(1))\n}\n"},
	{name: "method", decl: "func (t *T) NAME_m(n int) int {\n\tif n > 0 {\n\t\t/*@*/ panic(\"method\")\n\t}\n\treturn t.x\n}\n\nfunc NAME() {\n\tt := &T{x: 1}\n\tprintln(t.NAME_m(1))\n}\n"},
	{name: "deferred", decl: "func NAME() {\n\tdefer func() {\n\t\t/*@*/ panic(\"deferred\")\n\t}()\n\tprintln(\"body\")\n}\n"},
	{name: "afterblock", decl: "func NAME() {\n\tch := make(chan int, 1)\n\tch <- 1\n\truntime.Gosched()\n\tv := <-ch\n\t/*@*/ panic(v)\n}\n"},
	{name: "multiline", decl: "func NAME() {\n\ts := []int{1}\n\ti := 5 + argN()*0\n\t/*@*/ println(1,\n\t\ts[i],\n\t\t3) /*$*/\n}\n"},
	{name: "loopswitch", decl: "func NAME() {\n\tfor i := 0; i < 5; i++ {\n\t\tswitch {\n\t\tcase i == 3:\n\t\t\t/*@*/ panic(\"iter3\")\n\t\tdefault:\n\t\t\tprintln(i)\n\t\t}\n\t}\n}\n"},
	{name: "init", init: true, decl: "var NAME_v = NAME_f()\n\nfunc NAME_f() int {\n\tif argN() == INDEX {\n\t\t/*@*/ panic(\"init\")\n\t}\n\treturn 1\n}\n\nfunc NAME() { println(NAME_v) }\n"},
	{name: "iface", decl: "type NAME_V struct{ a []int }\n\nfunc (v NAME_V) M(i int) int {\n\t/*@*/ return v.a[i]\n}\n\nfunc NAME() {\n\tvar x I = NAME_V{a: []int{1}}\n\tprintln(x.M(3))\n}\n"},
	{name: "goroutine", decl: "func NAME() {\n\tdone := make(chan bool)\n\tgo func() {\n\t\t/*@*/ panic(\"goroutine\")\n\t}()\n\t<-done\n}\n"},
	{name: "nilfunc", decl: "func NAME() {\n\tvar f func(int) int\n\t/*@*/ println(f(1))\n}\n"},
	{name: "slicebounds", decl: "func NAME() {\n\ts := []int{1, 2, 3}\n\ta, b := 2+argN()*0, 1\n\t/*@*/ t := s[a:b]\n\tprintln(len(t))\n}\n"},
	{name: "strindex", decl: "func NAME() {\n\ts := \"abc\"\n\ti := 7 + argN()*0\n\t/*@*/ println(s[i])\n}\n"},
	{name: "closeclosed", decl: "func NAME() {\n\tc := make(chan int)\n\tclose(c)\n\t/*@*/ close(c)\n}\n"},
	{name: "makeneg", decl: "func NAME() {\n\tn := -1 + argN()*0\n\t/*@*/ s := make([]int, n)\n\tprintln(len(s))\n}\n"},
	{name: "deep", decl: "func NAME_d(n int) int {\n\tif n == 0 {\n\t\t/*@*/ panic(\"deep\")\n\t}\n\treturn NAME_d(n-1) + 1\n}\n\nfunc NAME() { println(NAME_d(3)) }\n"},
	{name: "selectdefault", decl: "func NAME() {\n\tc := make(chan int)\n\tselect {\n\tcase v := <-c:\n\t\tprintln(v)\n\tdefault:\n\t\t/*@*/ panic(\"select default\")\n\t}\n}\n"},
	{name: "repanic", decl: "func NAME() {\n\tdefer func() {\n\t\tr := recover()\n\t\t/*@*/ panic(r)\n\t}()\n\tpanic(\"first\")\n}\n"},
	{name: "errvalue", decl: "type NAME_E struct{}\n\nfunc (NAME_E) Error() string { return \"my error\" }\n\nfunc NAME() {\n\t/*@*/ panic(NAME_E{})\n}\n"},
	{name: "nilarrayptr", decl: "func NAME() {\n\tvar p *[3]int\n\ti := 1 + argN()*0\n\t/*@*/ println(p[i])\n}\n"},
	{name: "elsebranch", decl: "func NAME() {\n\tx := argN() * 0\n\tif x > 0 {\n\t\tprintln(\"pos\")\n\t} else if x < 0 {\n\t\tprintln(\"neg\")\n\t} else {\n\t\t/*@*/ panic(\"zero\")\n\t}\n}\n"},
	{name: "rangeloop", decl: "func NAME() {\n\tfor i, v := range []int{4, 5, 6} {\n\t\tif v == 6 {\n\t\t\t/*@*/ panic(i)\n\t\t}\n\t}\n}\n"},
	{name: "ifcond", decl: "func NAME() {\n\ts := []int{1}\n\ti := 3 + argN()*0\n\t/*@*/ if s[i] > 0 {\n\t\tprintln(\"pos\")\n\t}\n}\n"},
	{name: "elseifcond", decl: "func NAME() {\n\ts := []int{1}\n\ti := 3 + argN()*0\n\tif i < 0 {\n\t\tprintln(\"neg\")\n\t/*@*/ } else if s[i] > 0 {\n\t\tprintln(\"pos\")\n\t}\n}\n"},
	{name: "switchtag", decl: "func NAME() {\n\ts := []int{1}\n\ti := 3 + argN()*0\n\t/*@*/ switch s[i] {\n\tcase 1:\n\t\tprintln(\"one\")\n\t}\n}\n"},
	{name: "casecond", decl: "func NAME() {\n\ts := []int{1}\n\ti := 3 + argN()*0\n\tswitch {\n\t/*@*/ case s[i] > 0:\n\t\tprintln(\"pos\")\n\t}\n}\n"},
	{name: "forcond", decl: "func NAME() {\n\ts := []int{1}\n\tn := 0\n\t/*@*/ for i := 0; s[i] > 0; i++ {\n\t\tn++\n\t}\n\tprintln(n)\n}\n"},
	{name: "forcondnoinit", decl: "func NAME() {\n\ts := []int{1}\n\ti := 0\n\tprintln(\"start\")\n\t/*@*/ for s[i] > 0 {\n\t\ti++\n\t}\n}\n"},
	{name: "returnexpr", decl: "func NAME_r(s []int, i int) int {\n\tprintln(\"r\")\n\t/*@*/ return s[i] + 1\n}\n\nfunc NAME() { println(NAME_r([]int{1}, 4)) }\n"},
	{name: "callarg", decl: "func NAME_c(a, b int) int { return a + b }\n\nfunc NAME() {\n\ts := []int{1}\n\ti := 2 + argN()*0\n\t/*@*/ println(NAME_c(1, s[i]))\n}\n"},
	{name: "afterselect", decl: "func NAME() {\n\tc := make(chan int, 1)\n\tc <- 2\n\tselect {\n\tcase v := <-c:\n\t\truntime.Gosched()\n\t\t/*@*/ panic(v)\n\t}\n}\n"},
}

const panicCommon = `type T struct {
	x    int
	next *T
}

type I interface{ M(int) int }
`

const panicArgsJS = `//go:build js

package main

import "github.com/gopherjs/gopherjs/js"

func argN() int { return js.Global.Get("process").Get("argv").Index(2).Int() }
`

const panicArgsNative = `//go:build !js

package main

import "os"

func argN() int {
	n := 0
	for _, c := range os.Args[1] {
		n = n*10 + int(c-'0')
	}
	return n
}
`

type panicProg struct {
	prog  gjs.Prog
	src   string
	first []int // first line of the raising statement, per scenario
	last  []int
}

// renderPanicProg lays the scenarios out with seeded padding (so the lines
// differ between seeds) and seeded wrappers around the scenario bodies.
func renderPanicProg(rng *rand.Rand) *panicProg {
	var b strings.Builder
	b.WriteString("package main\n\nimport \"runtime\"\n\nvar _ = runtime.Gosched\n\n")
	b.WriteString(panicCommon)
	b.WriteString("\n")
	order := rng.Perm(len(panicScens))
	names := make([]string, len(panicScens))
	for _, si := range order {
		s := panicScens[si]
		names[si] = fmt.Sprintf("scen%d_%s", si, s.name)
		for i := rng.Intn(4); i > 0; i-- {
			fmt.Fprintf(&b, "// padding %d\n", rng.Intn(1000))
		}
		decl := strings.ReplaceAll(s.decl, "NAME", names[si])
		decl = strings.ReplaceAll(decl, "INDEX", strconv.Itoa(si))
		// seeded filler statements in front of the marked statement
		if n := rng.Intn(3); n > 0 {
			ls := strings.Split(decl, "\n")
			for i, l := range ls {
				if strings.Contains(l, "/*@*/") {
					if t := strings.TrimSpace(strings.TrimPrefix(strings.TrimSpace(l), "/*@*/")); strings.HasPrefix(t, "case ") || strings.HasPrefix(t, "}") {
						break // no statement can stand in front of a clause or an else
					}
					ind := l[:len(l)-len(strings.TrimLeft(l, "\t"))]
					var fill []string
					for j := 0; j < n; j++ {
						fill = append(fill, fmt.Sprintf("%sprintln(\"pad\", %d)", ind, rng.Intn(100)))
					}
					ls = append(ls[:i], append(fill, ls[i:]...)...)
					break
				}
			}
			decl = strings.Join(ls, "\n")
		}
		b.WriteString(decl)
		b.WriteString("\n")
	}
	b.WriteString("func main() {\n\tswitch argN() {\n")
	for si := range panicScens {
		fmt.Fprintf(&b, "\tcase %d:\n\t\t%s()\n", si, names[si])
	}
	b.WriteString("\t}\n\tprintln(\"no panic\")\n}\n")
	pp := &panicProg{src: b.String(), first: make([]int, len(panicScens)), last: make([]int, len(panicScens))}
	lines := strings.Split(pp.src, "\n")
	// markers: the k-th /*@*/ in file order belongs to scenario order[k]
	k := 0
	for ln, l := range lines {
		if strings.Contains(l, "/*@*/") {
			si := order[k]
			k++
			pp.first[si], pp.last[si] = ln+1, ln+1
			for j := ln; j < len(lines) && j < ln+6; j++ {
				if strings.Contains(lines[j], "/*$*/") {
					pp.last[si] = j + 1
				}
			}
		}
	}
	pp.prog = gjs.Prog{Files: map[string]string{"main.go": pp.src, "args_js.go": panicArgsJS, "args_native.go": panicArgsNative}}
	return pp
}

var rePkgStart = regexp.MustCompile(`^\$packages\["[^"]*"\] ?= ?\(function`)
var reNativeFrame = regexp.MustCompile(`/main\.go:(\d+)`)

func runPanicProg(c *core.Ctx, pool *gjs.Pool, rng *rand.Rand) *progResult {
	res := &progResult{}
	pp := renderPanicProg(rng)
	b := buildAll(c, pool, pp.prog, res)
	if b == nil {
		return res
	}
	defer os.RemoveAll(b.dir)
	bin := filepath.Join(b.dir, "native.bin")
	if r := gjs.NativeBuild(b.dir, bin); r.ExitCode != 0 || r.Err != nil {
		res.infra = fmt.Errorf("reference toolchain rejected the panic program: %s", tail(r.Out, 1200))
		return res
	}
	type job struct {
		si int
		m  mode
	}
	var jobs []job
	for si := range panicScens {
		for _, m := range modes {
			jobs = append(jobs, job{si, m})
		}
	}
	natLine := make([]int, len(panicScens))
	var mu sync.Mutex
	c.ParMap(len(panicScens), func(si int) {
		r := gjs.NativeRun(bin, time.Minute, []string{"GOTRACEBACK=all"}, strconv.Itoa(si))
		if m := reNativeFrame.FindStringSubmatch(r.Out); m != nil && strings.Contains(r.Out, "goroutine ") {
			natLine[si], _ = strconv.Atoi(m[1])
		}
	})
	c.ParMap(len(jobs), func(ji int) {
		j := jobs[ji]
		e := b.em[j.m.name]
		r := gjs.Node(b.out[j.m.name], time.Minute, "", nil, strconv.Itoa(j.si))
		var frames []frame
		for _, l := range strings.Split(r.Out, "\n") {
			if fr, ok := parseFrame(l); ok && strings.HasSuffix(fr.file, filepath.Base(b.out[j.m.name])) {
				frames = append(frames, fr)
			}
		}
		mu.Lock()
		defer mu.Unlock()
		s := panicScens[j.si]
		// guard: the reference run panicked inside the marked statement
		if natLine[j.si] < pp.first[j.si] || natLine[j.si] > pp.last[j.si] {
			res.discards++
			return
		}
		res.frames++
		if len(frames) == 0 {
			res.report(pp.prog, []string{"no_stack_on_panic"}, fmt.Sprintf("%s build, scenario %s: the run printed no stack frame of the emitted file: %s", j.m.name, s.name, tail(r.Out, 400)), nil)
			return
		}
		// the top compiled-Go frame of the program: the first frame inside the code of
		// the main package (the last $packages[...] section of the emitted file)
		mainStart, mainEnd := 0, len(e.lines)
		for li, l := range e.lines {
			if rePkgStart.Match(l) {
				mainStart, mainEnd = li, len(e.lines)
			}
			if bytes.HasPrefix(l, []byte("$callForAllPackages(")) && li < mainEnd {
				mainEnd = li
			}
		}
		var top *frame
		var trail []string
		for _, fr := range frames {
			mp, ok := e.resolve(fr)
			switch {
			case !ok:
				trail = append(trail, fmt.Sprintf("%s %d:%d -> nothing", fr.fn, fr.line, fr.col))
			default:
				trail = append(trail, fmt.Sprintf("%s %d:%d -> %s:%d", fr.fn, fr.line, fr.col, mp.Src, mp.Line+1))
			}
			if top == nil && fr.line-1 >= mainStart && fr.line-1 < mainEnd {
				fr := fr
				top = &fr
			}
		}
		srcLine := strings.TrimSpace(strings.Split(pp.src, "\n")[pp.first[j.si]-1])
		var mp Mapping
		ok := false
		if top != nil {
			mp, ok = e.resolve(*top)
		}
		if ok && mp.Src == "main.go" && mp.Line+1 == pp.first[j.si] {
			res.framesOK++
			return
		}
		got := "no frame lies in the code of the main package"
		if top != nil {
			switch {
			case !ok:
				got = fmt.Sprintf("the top frame of the program (%s at %d:%d) resolves to nothing", top.fn, top.line, top.col)
			case mp.Src == "":
				got = fmt.Sprintf("the top frame of the program (%s at %d:%d) resolves to a mapping without original position", top.fn, top.line, top.col)
			default:
				got = fmt.Sprintf("the top frame of the program (%s at %d:%d) resolves to %s:%d", top.fn, top.line, top.col, mp.Src, mp.Line+1)
			}
		}
		keys := classifyFrame(srcLine, ok, mp)
		if keys == nil {
			keys = []string{"panic_frame_wrong_line(" + s.name + ")"}
		}
		res.report(pp.prog, keys, fmt.Sprintf("%s build, scenario %s (run with argument %d): %s, want main.go:%d `%s` (reference toolchain: main.go:%d)", j.m.name, s.name, j.si, got, pp.first[j.si], srcLine, natLine[j.si]),
			map[string]string{"frames.txt": strings.Join(trail, "\n") + "\n", "mode.txt": j.m.name + "\n"})
	})
	return res
}

// ---------------------------------------------------------------------------
// a program with an .inc.js file: mappings of included JavaScript

const incJS = `var $incFirst = function(a) {
  return a + 1;
};
var $incBoom = function(a) {
  if (a > 1) {
    throw new Error("inc boom");
  }
  return $incFirst(a);
};
$global.incBoom = $incBoom;
`

const incMainJS = `//go:build js

package main

import "github.com/gopherjs/gopherjs/js"

func call(n int) int { return js.Global.Call("incBoom", n).Int() }
`

const incMainNative = `//go:build !js

package main

func call(n int) int {
	if n > 1 {
		panic("inc boom")
	}
	return n + 1
}
`

const incMain = `package main

func main() {
	println(call(1))
	println(call(2))
}
`

func runIncProg(c *core.Ctx, pool *gjs.Pool) *progResult {
	res := &progResult{}
	prog := gjs.Prog{Files: map[string]string{"main.go": incMain, "call_js.go": incMainJS, "call_native.go": incMainNative, "lib.inc.js": incJS}}
	b := buildAll(c, pool, prog, res)
	if b == nil {
		return res
	}
	defer os.RemoveAll(b.dir)
	throwLine := lineOf(incJS, "throw new Error")
	for _, m := range modes {
		e := b.em[m.name]
		r := gjs.Node(b.out[m.name], time.Minute, "", nil)
		var top *frame
		for _, l := range strings.Split(r.Out, "\n") {
			if fr, ok := parseFrame(l); ok && strings.Contains(fr.fn, "incBoom") {
				fr := fr
				top = &fr
				break
			}
		}
		if top == nil {
			res.infra = fmt.Errorf("the .inc.js program did not throw from $incBoom: %s", tail(r.Out, 400))
			return res
		}
		res.frames++
		mp, ok := e.resolve(*top)
		// the throw statement: `throw` is at column 4 of its line, `new Error` follows
		if ok && mp.Src == "lib.inc.js" && mp.Line+1 == throwLine && mp.Col >= 4 && mp.Col <= 14 {
			res.framesOK++
			continue
		}
		got := "nothing"
		if ok {
			got = fmt.Sprintf("%s:%d:%d", mp.Src, mp.Line+1, mp.Col)
		}
		keys := []string{"inc_js_frame_wrong_position"}
		if m.minify {
			keys = []string{"js_block_first_line_column_offset_not_applied"}
		}
		res.report(prog, keys, fmt.Sprintf("%s build: the frame of the throw statement in lib.inc.js (%d:%d) resolves to %s, want lib.inc.js:%d columns 4..14 (`throw new Error`)", m.name, top.line, top.col, got, throwLine), nil)
	}
	return res
}

// ---------------------------------------------------------------------------

func runPrograms(c *core.Ctx, pool *gjs.Pool) {
	rng := rand.New(rand.NewSource(c.Seed*104729 + 3))
	var progs []*minigo.Program
	fam := append(append(append(minigo.SwitchFamily(), minigo.LoopFamily()...), minigo.CondFamily()...), minigo.OrderFamily()...)
	rng.Shuffle(len(fam), func(i, j int) { fam[i], fam[j] = fam[j], fam[i] })
	nFam, nRand := c.Pick(40, 600), c.Pick(60, 1200)
	if nFam > len(fam) {
		nFam = len(fam)
	}
	progs = append(progs, fam[:nFam]...)
	for i := 0; i < nRand; i++ {
		progs = append(progs, minigo.Random(rng))
	}
	for _, p := range progs {
		p.Normalise()
	}
	inputs := [][]bool{{false, false, false, false}, {true, true, true, true}}
	for i := 0; i < 2; i++ {
		inputs = append(inputs, []bool{rng.Intn(2) == 0, rng.Intn(2) == 0, rng.Intn(2) == 0, rng.Intn(2) == 0})
	}
	const per = 25
	type unit struct {
		kind  string
		progs []*minigo.Program
		flat  bool
		rng   *rand.Rand
	}
	var units []unit
	for lo := 0; lo < len(progs); lo += per {
		hi := lo + per
		if hi > len(progs) {
			hi = len(progs)
		}
		units = append(units, unit{kind: "tp", progs: progs[lo:hi], flat: (lo/per)%2 == 1})
	}
	for i := 0; i < c.Pick(1, 10); i++ {
		units = append(units, unit{kind: "panic", rng: rand.New(rand.NewSource(c.Seed*31 + int64(i)))})
	}
	units = append(units, unit{kind: "inc"})
	results := make([]*progResult, len(units))
	maskArg := strconv.Itoa(int(rng.Uint32() & 0x7fffffff))
	c.ParMap(len(units), func(i int) {
		u := units[i]
		switch u.kind {
		case "tp":
			results[i] = runTPBatch(c, pool, u.progs, inputs, u.flat, maskArg)
		case "panic":
			results[i] = runPanicProg(c, pool, u.rng)
		case "inc":
			results[i] = runIncProg(c, pool)
		}
	})
	tot := &progResult{}
	nprog := 0
	for i, r := range results {
		if r == nil {
			continue
		}
		if r.infra != nil {
			c.Infra(r.infra)
			return
		}
		tot.facts += r.facts
		tot.mappings += r.mappings
		tot.goMaps += r.goMaps
		tot.jsMaps += r.jsMaps
		tot.anchors += r.anchors
		tot.frames += r.frames
		tot.framesOK += r.framesOK
		tot.discards += r.discards
		tot.stacks += r.stacks
		tot.sourceles += r.sourceles
		tot.behaviourDiffers += r.behaviourDiffers
		for k, v := range r.frameKinds {
			if tot.frameKinds == nil {
				tot.frameKinds = map[string]int{}
			}
			tot.frameKinds[k] += v
		}
		switch units[i].kind {
		case "tp":
			nprog += len(units[i].progs)
		default:
			nprog++
		}
	}
	for _, p := range progs {
		c.Distinct(fmt.Sprint(p.JSON()))
	}
	c.Set("programs", nprog)
	c.Set("program_builds_validated", len(units)*4)
	c.Set("program_mappings_validated", tot.mappings)
	c.Set("program_mappings", map[string]int{"go": tot.goMaps, "javascript": tot.jsMaps, "without_original": tot.sourceles, "js_declaration_anchors_checked": tot.anchors})
	c.Set("stack_frames_resolved", tot.frames)
	c.Set("stack_frames_resolved_as_predicted", tot.framesOK)
	c.Set("trace_point_stacks", tot.stacks)
	c.Set("program_runs_skipped_behaviour_differs_from_reference", tot.behaviourDiffers)
	c.Add("evaluations", tot.facts+tot.frames)
	c.Add("traces_validated_against_impl", tot.facts+tot.frames)
	c.Add("spec_guard_discards", tot.discards)
	if tot.discards > 0 {
		fmt.Printf("note: %d stack observations discarded because the reference toolchain places the statement on another line than the scenario says\n", tot.discards)
	}
	// one report per classifier key and (for unclassified cases) per distinct summary prefix
	seen := map[string]int{}
	for _, r := range results {
		if r == nil {
			continue
		}
		for _, cs := range r.cases {
			k := strings.Join(cs.Keys, ",")
			seen[k]++
			if seen[k] > 3 {
				// still count known findings, but do not flood
				if len(cs.Keys) > 0 {
					cs.Files = nil
				} else {
					continue
				}
			}
			c.Report(cs)
		}
	}
	if os.Getenv("VERIF_VERBOSE") != "" {
		for k, v := range tot.frameKinds {
			fmt.Fprintf(os.Stderr, "[C19] unresolved frames: %6d  %s\n", v, k)
		}
	}
	c.Phase("programs")
}
