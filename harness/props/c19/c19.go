// Package c19 decides C19 (see DESIGN.md section 4). Not built yet.
package c19
