// Package c19 decides C19 (source maps are complete, in range and point at the
// right Go lines).
//
// spec/SourceMap.tla models the hint filter (internal/sourcemapx/filter.go) as
// a state machine over token streams cut into Write calls, states the
// reference result (output = input minus hints; a mapping's generated position
// = line/column of the next output byte; independent of the chunking; the
// offset rule of WriteJS; removeWhitespace keeps hints) and TLC checks the
// machine against it while emitting every (stream, chunking) scenario with the
// predicted output bytes and mappings. streams.go replays every scenario
// through the real Filter / removeWhitespace / WriteJS and compares the bytes
// written and the decoded source map with the prediction. programs.go builds
// whole programs (MiniGo programs with stack-recording trace points, programs
// that panic on a known line, a program with an .inc.js file) with and without
// minification and validates out.js / out.js.map against what the mapping rule
// of the specification says about statement starts.
package c19

import (
	"os"

	"verif/core"
	"verif/gjs"
	"verif/reg"
)

func init() { reg.Register("C19", "model_checking", Run) }

// Run is the C19 check.
func Run(c *core.Ctx, pool *gjs.Pool) {
	c.Assumef("generated columns are counted in bytes (as Filter.Write does); a mapping that follows a non-ASCII character on its generated line is reported, because consumers count UTF-16 code units")
	c.Assumef("a stack frame is resolved like Node and the browsers do: the last mapping at or before (line, column) in generated order, not restricted to the same line")
	c.Assumef("original columns are compared as the compiler writes them (go/token columns, 1-based); the property is about files and lines")
	c.Assumef("with a map file and without minification the prelude is re-printed by esbuild, so the byte comparison with the map-less build covers the compiled packages (from the first $packages[ line on) in plain builds and the whole file in minified builds")
	if os.Getenv("VERIF_C19_ONLY") != "programs" { // development aid; the evidence says which halves ran
		runStreams(c)
	} else {
		c.Set("streams_half_skipped", true)
	}
	if c.InfraErr != nil {
		return
	}
	runPrograms(c, pool)
	if c.InfraErr != nil {
		return
	}
	c.Set("rule", "streams: TLC enumerates every token stream over the family alphabets up to the configured length (plus VERIF_SEED longer streams) x every chunking into Write/WriteJS calls that does not split a hint; one evaluation = one (stream, chunking) replayed through the real Filter and compared (bytes written + decoded mappings); distinct_nontrivial = distinct streams that contain a hint or a JavaScript block. programs: one evaluation = one validated fact of an emitted out.js/out.js.map (a mapping in range and resolvable, a byte-identity comparison, a stack frame resolved to its Go line)")
	c.Set("checker_cmd", "tlc SourceMap (INVARIANTS TypeOK NoPanic Refines OutputIsInputMinusHints NoMagicInOutput MappingAtNextByte ReturnsLen MinifyKeepsSkeleton Emit)")
}
