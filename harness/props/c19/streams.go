package c19

import (
	"bytes"
	"encoding/json"
	"fmt"
	"go/token"
	"math/rand"
	"path/filepath"
	"sort"
	"strings"
	"sync"
	"time"

	"github.com/gopherjs/gopherjs/compiler"

	"verif/core"
	"verif/tlcx"
)

// ---------------------------------------------------------------------------
// the world the tokens are rendered in

// origin is the original position an abstract hint id stands for.
type origin struct {
	pos       token.Pos
	src       string // name expected in the map's sources
	line, col int    // go/token line and column (1-based)
}

type world struct {
	fset   *token.FileSet
	cands  []origin // positions for "p" hints
	qs     []origin // positions for "q" hints (payload contains 0x08 and/or 0x0A)
	hints  map[hintKey][]byte
	blocks [3]*jsBlock // 1: plain, 2: minified
}

type hintKey struct {
	tok       byte
	idx, salt int
}

const nSalt = 6
const maxIdx = 16

// the three kinds of file names Filter.normalizePath distinguishes (VerifNewFilter
// enables mapping with goroot "/goroot", gopath "/gopath", localMap false)
var worldFiles = []struct {
	path, src string
	size, step int
}{
	{"/gopath/src/vp/a.go", "/vp/a.go", 3000, 11},
	{"/goroot/src/fmt/b.go", "/fmt/b.go", 700, 5},
	{"/elsewhere/c.go", "c.go", 300, 9},
}

func newWorld(seed int64) *world {
	w := &world{fset: token.NewFileSet(), hints: map[hintKey][]byte{}}
	rng := rand.New(rand.NewSource(seed))
	var files []*token.File
	for _, wf := range worldFiles {
		f := w.fset.AddFile(wf.path, -1, wf.size)
		var lines []int
		for o := 0; o < wf.size; o += wf.step {
			lines = append(lines, o)
		}
		f.SetLines(lines)
		files = append(files, f)
	}
	mk := func(fi, off int) origin {
		p := files[fi].Pos(off)
		ps := w.fset.Position(p)
		return origin{pos: p, src: worldFiles[fi].src, line: ps.Line, col: ps.Column}
	}
	for i := 0; i < 24; i++ {
		fi := i % len(files)
		w.cands = append(w.cands, mk(fi, rng.Intn(worldFiles[fi].size)))
	}
	// token.Pos 4, 5 and 1029 are gob-encoded with the bytes 08, 0A and FE 08 0A
	for _, p := range []int{1029, 4, 5} {
		w.qs = append(w.qs, mk(0, p-files[0].Base()))
	}
	for idx := 1; idx <= maxIdx; idx++ {
		for salt := 0; salt < nSalt; salt++ {
			w.hints[hintKey{'p', idx, salt}] = compiler.VerifPosHint(w.posOrigin(idx, salt).pos)
			w.hints[hintKey{'q', idx, salt}] = compiler.VerifPosHint(w.qOrigin(idx, salt).pos)
			w.hints[hintKey{'i', idx, salt}] = compiler.VerifIdentHint(fmt.Sprintf("N%d", idx), identName(idx, salt), w.posOrigin(idx, salt+1).pos)
			w.hints[hintKey{'z', idx, salt}] = compiler.VerifPosHint(token.NoPos)
		}
	}
	return w
}

func (w *world) posOrigin(idx, salt int) origin { return w.cands[(idx*5+salt*7)%len(w.cands)] }
func (w *world) qOrigin(idx, salt int) origin   { return w.qs[(idx+salt)%len(w.qs)] }

// identName: original names of length 8 and 10 make the gob length prefix a
// magic byte / a newline byte inside the payload ("main.f42" is such a name).
func identName(idx, salt int) string {
	switch salt % 3 {
	case 0:
		return fmt.Sprintf("main.f%02d", idx%100) // 8 bytes
	case 1:
		return fmt.Sprintf("pkg.T.m%03d", idx%1000) // 10 bytes
	}
	return fmt.Sprintf("main.Type.method%d", idx)
}

// jsBlock is what the real WriteJS makes of a JavaScript snippet when the
// filter is at (0, 0): the code it writes and the isolated mappings.
type jsBlock struct {
	src    string
	minify bool
	code   []byte
	maps   []Mapping // generated positions relative to the block
}

const jsSnippet = "a(b);\nc;\nd(e, f);\n"

func (w *world) makeBlocks() error {
	for b := 1; b <= 2; b++ {
		blk := &jsBlock{src: jsSnippet, minify: b == 2}
		var out bytes.Buffer
		f := compiler.VerifNewFilter(&out, w.fset, true)
		if _, err := f.WriteJS(blk.src, "blk.js", blk.minify); err != nil {
			return fmt.Errorf("WriteJS of the JavaScript snippet failed: %v", err)
		}
		_, ms, err := DecodeMap(f.MapJSON())
		if err != nil {
			return fmt.Errorf("decoding the isolated map of the JavaScript snippet: %v", err)
		}
		blk.code = append([]byte(nil), out.Bytes()...)
		blk.maps = ms
		if len(ms) == 0 || bytes.IndexByte(blk.code, 8) >= 0 {
			return fmt.Errorf("unusable JavaScript block %d: %d mappings, code %q", b, len(ms), blk.code)
		}
		w.blocks[b] = blk
	}
	return nil
}

// ---------------------------------------------------------------------------
// scenarios

type scenRec struct {
	T  []string `json:"t"`
	Mn int      `json:"mn"`
	C  []int    `json:"c"`
	O  []int    `json:"o"`
	M  [][4]int `json:"m"`
}

// item is one unit a chunk boundary may not split.
type item struct {
	kind  byte // 'b' code byte, 'h' hint, 'j' JavaScript block
	bytes []byte
	tok   byte
	idx   int
}

func isHintTok(t string) bool { return t == "p" || t == "q" || t == "i" || t == "z" }

func (w *world) renderItems(toks []string, salt int) []item {
	var its []item
	for i, t := range toks {
		idx := i + 1
		switch t {
		case "x":
			its = append(its, item{kind: 'b', bytes: []byte{byte(96 + idx)}})
		case "n":
			its = append(its, item{kind: 'b', bytes: []byte{'\n'}})
		case "s":
			its = append(its, item{kind: 'b', bytes: []byte{' '}})
		case "u":
			its = append(its, item{kind: 'b', bytes: []byte{0xC2}}, item{kind: 'b', bytes: []byte{0xB7}})
		case "p", "q", "i", "z":
			its = append(its, item{kind: 'h', bytes: w.hints[hintKey{t[0], idx, salt}], tok: t[0], idx: idx})
		case "j", "m":
			its = append(its, item{kind: 'j', tok: t[0], idx: idx})
		}
	}
	return its
}

// parseItems splits a hint-carrying byte stream into items (hint framing: magic,
// 16-bit big-endian size, payload).
func parseItems(b []byte) ([]item, error) {
	var its []item
	for len(b) > 0 {
		if b[0] == 8 {
			if len(b) < 3 || len(b) < 3+int(b[1])<<8+int(b[2]) {
				return nil, fmt.Errorf("truncated hint")
			}
			n := 3 + int(b[1])<<8 + int(b[2])
			its = append(its, item{kind: 'h', bytes: b[:n]})
			b = b[n:]
			continue
		}
		its = append(its, item{kind: 'b', bytes: b[:1]})
		b = b[1:]
	}
	return its, nil
}

func flat(its []item) []byte {
	var b []byte
	for _, it := range its {
		b = append(b, it.bytes...)
	}
	return b
}

// ---------------------------------------------------------------------------
// the guard: an independent computation of the prediction from the tokens

func needsSpace(c byte) bool {
	return c >= 'a' && c <= 'z' || c >= 'A' && c <= 'Z' || c >= '0' && c <= '9' || c == '_' || c == '$'
}

// guardMinify drops blanks of an abstract item list the way the reference
// statement of the minifier says: a blank survives only between two identifier
// bytes, where a hint directly after the blank counts as one; ok=false when the
// Go scanner would read past the end.
func guardMinify(its []item) (out []item, ok bool) {
	var prev byte
	for i, it := range its {
		if it.kind == 'b' && (it.bytes[0] == ' ' || it.bytes[0] == '\n') {
			if !needsSpace(prev) {
				continue
			}
			if i+1 >= len(its) {
				return nil, false
			}
			nx := its[i+1]
			if nx.kind != 'h' && !needsSpace(nx.bytes[0]) {
				continue
			}
		}
		out = append(out, it)
		if it.kind == 'b' {
			prev = it.bytes[0]
		}
	}
	return out, true
}

type predMap struct {
	genLine, genCol int // 1-based line, byte column
	kind, id        int
}

// guardPredict computes output bytes and mappings from the items alone.
// jsColOffset=false reproduces a filter that does not shift first-line columns
// of a JavaScript block (classifier for a known defect).
func (w *world) guardPredict(its []item, jsColOffset bool) (out []byte, ms []predMap) {
	line, col := 0, 0
	adv := func(b byte) {
		out = append(out, b)
		if b == '\n' {
			line++
			col = 0
		} else {
			col++
		}
	}
	for _, it := range its {
		switch it.kind {
		case 'b':
			adv(it.bytes[0])
		case 'h':
			kind, id := 1, it.idx
			if it.tok == 'i' {
				kind = 2
			}
			if it.tok == 'z' {
				id = 0
			}
			ms = append(ms, predMap{line + 1, col, kind, id})
		case 'j':
			blk := w.blocks[1]
			if it.tok == 'm' {
				blk = w.blocks[2]
			}
			for j, m := range blk.maps {
				gc := m.GenCol
				if m.GenLine == 0 && jsColOffset {
					gc += col
				}
				ms = append(ms, predMap{line + m.GenLine + 1, gc, 3, it.idx*100 + j + 1})
			}
			for _, b := range blk.code {
				adv(b)
			}
		}
	}
	return out, ms
}

// ---------------------------------------------------------------------------
// replay through the real filter

type replayResult struct {
	out  []byte
	maps []Mapping
	err  string // a panic or an error of the real code
}

func (w *world) replay(its []item, cuts []int) (res replayResult) {
	defer func() {
		if r := recover(); r != nil {
			res.err = fmt.Sprintf("panic: %v", r)
		}
	}()
	var out bytes.Buffer
	f := compiler.VerifNewFilter(&out, w.fset, true)
	k := 0
	for _, e := range cuts {
		if e <= k || e > len(its) {
			res.err = fmt.Sprintf("chunk boundary %d outside the %d items of the real stream", e, len(its))
			return
		}
		if its[k].kind == 'j' {
			blk := w.blocks[1]
			if its[k].tok == 'm' {
				blk = w.blocks[2]
			}
			if _, err := f.WriteJS(blk.src, fmt.Sprintf("blk%d.js", its[k].idx), blk.minify); err != nil {
				res.err = "WriteJS: " + err.Error()
				return
			}
			k = e
			continue
		}
		chunk := flat(its[k:e])
		n, err := f.Write(chunk)
		if err != nil {
			res.err = "Write: " + err.Error()
			return
		}
		if n != len(chunk) {
			res.err = fmt.Sprintf("Write returned %d for a chunk of %d bytes", n, len(chunk))
			return
		}
		k = e
	}
	res.out = out.Bytes()
	_, ms, err := DecodeMap(f.MapJSON())
	if err != nil {
		res.err = "undecodable source map: " + err.Error()
		return
	}
	res.maps = ms
	return
}

// expected turns predicted tuples into the mappings the decoded map must hold.
func (w *world) expected(toks []string, salt int, pm []predMap) []Mapping {
	var ms []Mapping
	for _, p := range pm {
		m := Mapping{GenLine: p.genLine - 1, GenCol: p.genCol}
		switch {
		case p.kind == 3:
			idx, j := p.id/100, p.id%100
			blk := w.blocks[1]
			if toks[idx-1] == "m" {
				blk = w.blocks[2]
			}
			im := blk.maps[j-1]
			m.Src, m.Line, m.Col = fmt.Sprintf("blk%d.js", idx), im.Line, im.Col
		case p.id == 0:
		default:
			var o origin
			switch {
			case p.kind == 2:
				o = w.posOrigin(p.id, salt+1)
				m.Name = identName(p.id, salt)
			case toks[p.id-1] == "q":
				o = w.qOrigin(p.id, salt)
			default:
				o = w.posOrigin(p.id, salt)
			}
			m.Src, m.Line, m.Col = o.src, o.line-1, o.col
		}
		ms = append(ms, m)
	}
	sortMappings(ms)
	return ms
}

func sameMappings(a, b []Mapping) bool {
	if len(a) != len(b) {
		return false
	}
	for i := range a {
		if a[i] != b[i] {
			return false
		}
	}
	return true
}

func fmtMappings(ms []Mapping) string {
	var sb strings.Builder
	for _, m := range ms {
		if m.Src == "" {
			fmt.Fprintf(&sb, "  gen %d:%d -> (no original)\n", m.GenLine+1, m.GenCol)
		} else {
			fmt.Fprintf(&sb, "  gen %d:%d -> %s:%d:%d %s\n", m.GenLine+1, m.GenCol, m.Src, m.Line+1, m.Col, m.Name)
		}
	}
	return sb.String()
}

// ---------------------------------------------------------------------------

type family struct {
	Alphabet []string `json:"alphabet"`
	Maxlen   int      `json:"maxlen"`
	Mn       int      `json:"mn"`
}

type extraScen struct {
	T  []string `json:"t"`
	Mn int      `json:"mn"`
}

func randStream(rng *rand.Rand, alpha []string, n int) []string {
	s := make([]string, n)
	for i := range s {
		s[i] = alpha[rng.Intn(len(alpha))]
	}
	return s
}

func runStreams(c *core.Ctx) {
	w := newWorld(c.Seed)
	if err := w.makeBlocks(); err != nil {
		c.Infra(err)
		return
	}
	// the "q" payloads must really contain the bytes the model talks about
	hasMagic, hasNL := false, false
	for salt := 0; salt < nSalt; salt++ {
		pl := w.hints[hintKey{'q', 1, salt}][3:]
		hasMagic = hasMagic || bytes.IndexByte(pl, 8) >= 0
		hasNL = hasNL || bytes.IndexByte(pl, '\n') >= 0
	}
	identSpecial := false
	for salt := 0; salt < nSalt; salt++ {
		pl := w.hints[hintKey{'i', 1, salt}][3:]
		identSpecial = identSpecial || (bytes.IndexByte(pl, 8) >= 0 && bytes.IndexByte(pl, '\n') >= 0)
	}
	if !hasMagic || !hasNL {
		c.Infra(fmt.Errorf("the position hints chosen for token q do not contain a magic byte and a newline byte in their payload"))
		return
	}
	c.Set("hint_payloads_with_magic_and_newline_bytes", map[string]bool{"position": hasMagic && hasNL, "identifier": identSpecial})

	mainAlpha := []string{"x", "n", "u", "p", "q", "i", "z"}
	minAlpha := []string{"x", "s", "n", "p", "i"}
	jsAlpha := []string{"x", "n", "p", "j", "m"}
	fams := []family{
		{mainAlpha, c.Pick(3, 5), 0},
		{minAlpha, c.Pick(3, 5), 1},
		{jsAlpha, c.Pick(3, 4), 0},
	}
	rng := rand.New(rand.NewSource(c.Seed*7919 + 17))
	var extra []extraScen
	seenExtra := map[string]bool{}
	addExtra := func(t []string, mn int) {
		k := fmt.Sprint(mn, t)
		if !seenExtra[k] {
			seenExtra[k] = true
			extra = append(extra, extraScen{t, mn})
		}
	}
	for i := 0; i < c.Pick(500, 2000); i++ {
		addExtra(randStream(rng, mainAlpha, fams[0].Maxlen+1+rng.Intn(3)), 0)
	}
	for i := 0; i < c.Pick(150, 600); i++ {
		t := randStream(rng, minAlpha, fams[1].Maxlen+1+rng.Intn(3))
		t[len(t)-1] = "x" // the compiler never ends a chunk in a blank after an identifier
		addExtra(t, 1)
	}
	for i := 0; i < c.Pick(40, 300); i++ {
		addExtra(randStream(rng, jsAlpha, fams[2].Maxlen+1+rng.Intn(2)), 0)
	}
	type blockJ struct {
		Code []int    `json:"code"`
		Maps [][3]int `json:"maps"`
	}
	var blocks []blockJ
	for b := 1; b <= 2; b++ {
		var bj blockJ
		for _, x := range w.blocks[b].code {
			bj.Code = append(bj.Code, int(x))
		}
		for j, m := range w.blocks[b].maps {
			bj.Maps = append(bj.Maps, [3]int{m.GenLine, m.GenCol, j + 1})
		}
		blocks = append(blocks, bj)
	}
	pj, _ := json.Marshal(map[string]any{"out": "scen", "families": fams, "extra": extra, "blocks": blocks})
	cfg := "SPECIFICATION Spec\nINVARIANTS TypeOK NoPanic Refines OutputIsInputMinusHints NoMagicInOutput MappingAtNextByte ReturnsLen MinifyKeepsSkeleton Emit\nCHECK_DEADLOCK FALSE\n"
	r, err := tlcx.Run(c, tlcx.Opts{Module: "SourceMap", Cfg: cfg, Workers: 8, Timeout: 60 * time.Minute, HeapMB: 8192,
		Files: map[string]string{"c19_params.json": string(pj)}})
	if !tlcx.MustComplete(c, r, err, "SourceMap") {
		return
	}
	c.Phase("tlc_streams")

	// how many scenarios the configured space holds (computed from the token
	// lists, not from TLC's output)
	wantScen, skipped := 0, 0
	nStreams := 0
	wantPer := map[string]int{}
	count := func(t []string, mn int) {
		if _, dup := wantPer[fmt.Sprint(mn, t)]; dup {
			return // the families overlap; Scenarios is a set
		}
		wantPer[fmt.Sprint(mn, t)] = 0
		its := w.renderItems(t, 0)
		if mn == 1 {
			var ok bool
			its, ok = guardMinify(its)
			if !ok {
				skipped++
				return
			}
		}
		nStreams++
		n, run := 1, 0
		flush := func() {
			if run > 1 {
				n <<= uint(run - 1)
			}
			run = 0
		}
		for _, it := range its {
			if it.kind == 'j' {
				flush()
			} else {
				run++
			}
		}
		flush()
		if len(its) == 0 {
			n = 1 // the empty stream: one behaviour with no call
		}
		wantScen += n
		wantPer[fmt.Sprint(mn, t)] = n
	}
	var enum func(f family, pre []string)
	enum = func(f family, pre []string) {
		if len(pre) > 0 {
			count(pre, f.Mn)
		}
		if len(pre) == f.Maxlen {
			return
		}
		for _, a := range f.Alphabet {
			enum(f, append(append([]string{}, pre...), a))
		}
	}
	for _, f := range fams {
		enum(f, nil)
	}
	for _, e := range extra {
		count(e.T, e.Mn)
	}

	files, _ := filepath.Glob(filepath.Join(r.Dir, "scen.*.ndjson"))
	sort.Strings(files)
	var recs []*scenRec
	for _, f := range files {
		err := tlcx.ReadNDJSON(f, func(raw json.RawMessage) error {
			var inner string
			if err := json.Unmarshal(raw, &inner); err != nil {
				return err
			}
			rec := &scenRec{}
			if err := json.Unmarshal([]byte(inner), rec); err != nil {
				return err
			}
			recs = append(recs, rec)
			return nil
		})
		if err != nil {
			c.Infra(fmt.Errorf("decode %s: %v", f, err))
			return
		}
	}
	if len(recs) != wantScen {
		gotPer := map[string]int{}
		for _, rec := range recs {
			gotPer[fmt.Sprint(rec.Mn, rec.T)]++
		}
		diff := ""
		for k, n := range wantPer {
			if gotPer[k] != n && len(diff) < 400 {
				diff += fmt.Sprintf(" %s: %d/%d;", k, gotPer[k], n)
			}
		}
		c.Infra(fmt.Errorf("TLC emitted %d scenarios, the configured space holds %d (stream: emitted/expected:%s)", len(recs), wantScen, diff))
		return
	}
	c.Set("exhaustive", true)
	c.Set("streams", nStreams)
	c.Set("stream_bounds", map[string]any{"families": fams, "seeded_longer_streams": len(extra)})
	c.Set("streams_skipped_minifier_precondition", skipped)

	type viol struct {
		keys    []string
		summary string
		files   map[string]string
	}
	var mu sync.Mutex
	var viols []viol
	discards, evals, mapsCompared := 0, 0, 0
	const per = 2000
	nb := (len(recs) + per - 1) / per
	c.ParMap(nb, func(bi int) {
		lo, hi := bi*per, (bi+1)*per
		if hi > len(recs) {
			hi = len(recs)
		}
		lDisc, lEval, lMaps := 0, 0, 0
		var lViol []viol
		for ri := lo; ri < hi; ri++ {
			rec := recs[ri]
			salt := int((c.Seed + int64(ri)) % nSalt)
			if salt < 0 {
				salt += nSalt
			}
			raw := w.renderItems(rec.T, salt)
			// guard
			gits := raw
			ok := true
			if rec.Mn == 1 {
				gits, ok = guardMinify(raw)
			}
			var gOut []byte
			var gMaps []predMap
			if ok {
				gOut, gMaps = w.guardPredict(gits, true)
			}
			pOut := make([]byte, len(rec.O))
			for i, x := range rec.O {
				pOut[i] = byte(x)
			}
			pMaps := make([]predMap, len(rec.M))
			for i, m := range rec.M {
				pMaps[i] = predMap{m[0], m[1], m[2], m[3]}
			}
			if !ok || !bytes.Equal(gOut, pOut) || fmt.Sprint(gMaps) != fmt.Sprint(pMaps) {
				lDisc++
				continue
			}
			// the real stream
			its := raw
			var res replayResult
			if rec.Mn == 1 {
				var merr string
				func() {
					defer func() {
						if r := recover(); r != nil {
							merr = fmt.Sprintf("removeWhitespace panicked: %v", r)
						}
					}()
					var perr error
					its, perr = parseItems(compiler.VerifRemoveWhitespace(flat(raw)))
					if perr != nil {
						merr = "removeWhitespace produced " + perr.Error()
					}
				}()
				if merr != "" {
					res.err = merr
				}
			}
			if res.err == "" {
				res = w.replay(its, rec.C)
			}
			lEval++
			want := w.expected(rec.T, salt, pMaps)
			got := append([]Mapping(nil), res.maps...)
			sortMappings(got)
			lMaps += len(want)
			if res.err == "" && bytes.Equal(res.out, pOut) && sameMappings(got, want) {
				continue
			}
			var keys []string
			what := ""
			switch {
			case res.err != "":
				what = res.err
			case !bytes.Equal(res.out, pOut):
				what = fmt.Sprintf("bytes written %q, predicted %q", res.out, pOut)
				if bytes.IndexByte(res.out, 8) >= 0 {
					keys = append(keys, "hint_byte_in_output")
				}
			default:
				what = "decoded mappings differ from the prediction"
				// classifier: exactly what a filter produces that never shifts the
				// first-line columns of a JavaScript block
				_, bm := w.guardPredict(gits, false)
				if sameMappings(got, w.expected(rec.T, salt, bm)) {
					keys = append(keys, "js_block_first_line_column_offset_not_applied")
				}
			}
			sj, _ := json.Marshal(rec)
			lViol = append(lViol, viol{keys: keys,
				summary: fmt.Sprintf("stream %s (minified=%d) written in chunks ending at items %v: %s", strings.Join(rec.T, ""), rec.Mn, rec.C, what),
				files: map[string]string{"scenario.json": string(sj) + "\n", "stream_bytes.txt": fmt.Sprintf("%q\n", flat(its)),
					"predicted_output.txt": fmt.Sprintf("%q\n", pOut), "observed_output.txt": fmt.Sprintf("%q\n%s\n", res.out, res.err),
					"predicted_mappings.txt": fmtMappings(want), "observed_mappings.txt": fmtMappings(got)}})
		}
		mu.Lock()
		discards += lDisc
		evals += lEval
		mapsCompared += lMaps
		viols = append(viols, lViol...)
		mu.Unlock()
	})
	c.Add("evaluations", evals)
	c.Add("spec_guard_discards", discards)
	c.Add("traces_validated_against_impl", evals)
	c.Set("stream_chunkings_replayed", evals)
	c.Set("stream_mappings_compared", mapsCompared)
	if discards > 0 {
		fmt.Printf("note: %d stream scenarios discarded because the Go reference computation disagrees with SourceMap.tla\n", discards)
	}
	seen := map[string]bool{}
	for _, rec := range recs {
		k := fmt.Sprint(rec.Mn, rec.T)
		if seen[k] {
			continue
		}
		seen[k] = true
		for _, t := range rec.T {
			if isHintTok(t) || t == "j" || t == "m" {
				c.Distinct("stream:" + k)
				break
			}
		}
	}
	// report: one case per (key set, stream), at most a handful per key
	sort.Slice(viols, func(i, j int) bool { return viols[i].summary < viols[j].summary })
	perKey := map[string]int{}
	for _, v := range viols {
		k := strings.Join(v.keys, ",")
		perKey[k]++
		if perKey[k] > 3 && len(v.keys) == 0 {
			continue
		}
		c.Report(core.Case{Keys: v.keys, Summary: v.summary, Files: v.files})
	}
	if len(recs) > 0 {
		for _, i := range []int{len(recs) / 5, len(recs) / 2, len(recs) - 1} {
			rec := recs[i]
			c.Sample(map[string]any{"stream": strings.Join(rec.T, ""), "minified": rec.Mn, "chunk_ends": rec.C, "predicted_output": rec.O, "predicted_mappings": rec.M})
		}
	}
	c.Phase("stream_replay")
}
