package c19

import (
	"encoding/json"
	"fmt"
	"sort"
)

// Mapping is one decoded source map segment. Lines are 0-based here (the
// index of the line in the generated file / the original file), columns are
// 0-based as stored in the map. Src is "" for a segment without an original
// position (one field only).
type Mapping struct {
	GenLine, GenCol int
	Src             string
	Line, Col       int
	Name            string
}

type rawMap struct {
	Version  int      `json:"version"`
	File     string   `json:"file"`
	Sources  []string `json:"sources"`
	Names    []string `json:"names"`
	Mappings string   `json:"mappings"`
}

const b64 = "ABCDEFGHIJKLMNOPQRSTUVWXYZabcdefghijklmnopqrstuvwxyz0123456789+/"

var b64dec = func() [256]int8 {
	var t [256]int8
	for i := range t {
		t[i] = -1
	}
	for i := 0; i < len(b64); i++ {
		t[b64[i]] = int8(i)
	}
	return t
}()

// DecodeMap decodes a source map v3 document (own base64-VLQ decoder, written
// against the format description, not the library the compiler uses).
func DecodeMap(doc []byte) (sources []string, ms []Mapping, err error) {
	var rm rawMap
	if err = json.Unmarshal(doc, &rm); err != nil {
		return nil, nil, err
	}
	if rm.Version != 3 {
		return nil, nil, fmt.Errorf("source map version %d", rm.Version)
	}
	s := rm.Mappings
	genLine, genCol, src, line, col, name := 0, 0, 0, 0, 0, 0
	i := 0
	for i < len(s) {
		switch s[i] {
		case ';':
			genLine++
			genCol = 0
			i++
			continue
		case ',':
			i++
			continue
		}
		var f [5]int
		nf := 0
		for i < len(s) && s[i] != ',' && s[i] != ';' {
			v, shift := 0, uint(0)
			for {
				if i >= len(s) {
					return nil, nil, fmt.Errorf("truncated VLQ at %d", i)
				}
				d := b64dec[s[i]]
				if d < 0 {
					return nil, nil, fmt.Errorf("bad base64 digit %q at %d", s[i], i)
				}
				i++
				v |= int(d&31) << shift
				shift += 5
				if d&32 == 0 {
					break
				}
			}
			if v&1 == 1 {
				v = -(v >> 1)
			} else {
				v >>= 1
			}
			if nf == 5 {
				return nil, nil, fmt.Errorf("segment with more than 5 fields near %d", i)
			}
			f[nf] = v
			nf++
		}
		genCol += f[0]
		m := Mapping{GenLine: genLine, GenCol: genCol}
		switch nf {
		case 1:
		case 4, 5:
			src += f[1]
			line += f[2]
			col += f[3]
			if src < 0 || src >= len(rm.Sources) {
				return nil, nil, fmt.Errorf("source index %d out of range (%d sources)", src, len(rm.Sources))
			}
			m.Src, m.Line, m.Col = rm.Sources[src], line, col
			if nf == 5 {
				name += f[4]
				if name < 0 || name >= len(rm.Names) {
					return nil, nil, fmt.Errorf("name index %d out of range (%d names)", name, len(rm.Names))
				}
				m.Name = rm.Names[name]
			}
		default:
			return nil, nil, fmt.Errorf("segment with %d fields near %d", nf, i)
		}
		ms = append(ms, m)
	}
	return rm.Sources, ms, nil
}

// sortMappings orders by generated position (ties: by the remaining fields, so
// that two lists holding the same multiset compare equal element-wise).
func sortMappings(ms []Mapping) {
	sort.SliceStable(ms, func(i, j int) bool {
		a, b := ms[i], ms[j]
		if a.GenLine != b.GenLine {
			return a.GenLine < b.GenLine
		}
		if a.GenCol != b.GenCol {
			return a.GenCol < b.GenCol
		}
		if a.Src != b.Src {
			return a.Src < b.Src
		}
		if a.Line != b.Line {
			return a.Line < b.Line
		}
		if a.Col != b.Col {
			return a.Col < b.Col
		}
		return a.Name < b.Name
	})
}

// lookup returns the mapping a stack frame at (0-based line, 0-based column)
// resolves to: the last segment at or before the position, in (line, column)
// order (the rule of Node's and the browsers' consumers). ms must be sorted by
// generated position; among segments at one position the last one wins.
func lookup(ms []Mapping, line, col int) (Mapping, bool) {
	i := sort.Search(len(ms), func(i int) bool {
		return ms[i].GenLine > line || (ms[i].GenLine == line && ms[i].GenCol > col)
	})
	if i == 0 {
		return Mapping{}, false
	}
	return ms[i-1], true
}
