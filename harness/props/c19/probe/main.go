package main

import (
	"fmt"
	"os"

	"verif/gjs"
)

func main() {
	dir := os.Args[1]
	gjs.Init()
	os.Chdir(dir)
	min := len(os.Args) > 2 && os.Args[2] == "min"
	mapf := !(len(os.Args) > 3 && os.Args[3] == "nomap")
	out := "out.js"
	if len(os.Args) > 4 {
		out = os.Args[4]
	}
	if err := gjs.Build(dir, dir+"/"+out, gjs.Opts{Minify: min, MapFile: mapf}); err != nil {
		fmt.Println("ERR", err)
		os.Exit(1)
	}
}
