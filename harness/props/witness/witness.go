// Package witness runs hand-written witness programs: small programs that pin down
// one concrete shape a property quantifies over and that the TLC-enumerated scenario
// spaces of the property do not contain (shapes found by reading the compiler, by
// independent fault injection, or reported as defects and repaired).  They are an
// addition to the model-based part of a check, not a replacement: the prediction
// of a witness is what the reference toolchain prints for the same program (the
// guard of every other scenario), optionally pinned by literal expected lines.
package witness

import (
	"fmt"
	"strings"
	"time"

	"verif/core"
	"verif/gjs"
)

// W is one witness program (module vp, package main in the root).
type W struct {
	Name  string
	Key   string            // classifier key of the known finding this witness reproduces ("" = none)
	Files map[string]string // file name -> content; "main.go" required
	Want  []string          // optional literal prediction (must also be what native Go prints)
	Opts  gjs.Opts
}

// Src is a single-file witness.
func Src(name, key, src string, want ...string) W {
	return W{Name: name, Key: key, Files: map[string]string{"main.go": src}, Want: want}
}

// Run builds every witness with the compiler under test, runs it under Node and
// natively and reports a violation when the compiled program does not print what
// the reference toolchain (and the literal prediction, if any) says.
func Run(c *core.Ctx, pool *gjs.Pool, ws []W) {
	type result struct {
		report *core.Case
		infra  error
		note   string
	}
	res := make([]result, len(ws))
	c.ParMap(len(ws), func(i int) {
		w := ws[i]
		prog := gjs.Prog{Files: w.Files}
		b := pool.RunBoth(c.Scratch, prog, w.Opts, 2*time.Minute, true, false)
		if b.NativeErr != "" {
			res[i].infra = fmt.Errorf("witness %s: the reference toolchain rejects the program: %s", w.Name, b.NativeErr)
			return
		}
		if b.Native.End == "timeout" {
			res[i].infra = fmt.Errorf("witness %s: native run timed out", w.Name)
			return
		}
		if len(w.Want) > 0 && strings.Join(w.Want, "\n") != strings.Join(b.Native.Lines, "\n") {
			res[i].note = fmt.Sprintf("the literal prediction differs from the reference toolchain (%q vs %q): witness discarded", w.Want, b.Native.Lines)
			return
		}
		files := prog.ReplayFiles("prog")
		files["predicted.txt"] = strings.Join(b.Native.Lines, "\n") + "\nend=" + b.Native.End + "\n"
		var keys []string
		if w.Key != "" {
			keys = append(keys, w.Key)
		}
		if b.BuildErr != nil {
			be, ok := b.BuildErr.(*gjs.BuildError)
			if !ok {
				res[i].infra = b.BuildErr
				return
			}
			res[i].report = &core.Case{Keys: keys, Summary: fmt.Sprintf("witness %s: the compiler rejects a program the reference toolchain accepts: %s", w.Name, tail(be.Error(), 400)), Files: files}
			return
		}
		if b.JS.End == "timeout" && b.Native.End != "timeout" {
			files["observed.txt"] = b.JS.Raw + "\nend=timeout\n"
			res[i].report = &core.Case{Keys: keys, Summary: fmt.Sprintf("witness %s: the compiled program does not terminate (reference: %q end=%s)", w.Name, strings.Join(b.Native.Lines, "|"), b.Native.End), Files: files}
			return
		}
		if !b.JS.Same(b.Native) {
			files["observed.txt"] = b.JS.Raw + "\nend=" + b.JS.End + " " + b.JS.Msg + "\n"
			res[i].report = &core.Case{Keys: keys, Summary: fmt.Sprintf("witness %s: compiled program prints %q (end=%s %s), the reference toolchain %q (end=%s)", w.Name, strings.Join(b.JS.Lines, "|"), b.JS.End, tail(b.JS.Msg, 120), strings.Join(b.Native.Lines, "|"), b.Native.End), Files: files}
		}
	})
	judged := 0
	var notes []string
	for i, r := range res {
		if r.infra != nil {
			c.Infra(r.infra)
			return
		}
		if r.note != "" {
			notes = append(notes, ws[i].Name+": "+r.note)
			c.Add("spec_guard_discards", 1)
			continue
		}
		judged++
		c.Distinct("witness/" + ws[i].Name)
		if r.report != nil {
			c.Report(*r.report)
		}
	}
	c.Add("witness_programs_judged", judged)
	if len(notes) > 0 {
		c.Set("witness_programs_discarded", notes)
	}
	c.Add("evaluations", judged)
	c.Add("traces_validated_against_impl", judged)
}

func tail(s string, n int) string {
	s = strings.TrimSpace(s)
	if len(s) > n {
		return "..." + s[len(s)-n:]
	}
	return s
}
