// Package c14 decides C14 (see DESIGN.md section 4). Not built yet.
package c14
