// Package c14 decides C14 (strings are byte sequences with Go's UTF-8 behaviour).
//
// spec/Utf8.tla is the reference (byte strings, UTF-8 decoding given both
// declaratively and as the table of well-formed sequences, encoding, range,
// conversions, index/slice/compare/concat/copy/append, key identity);
// spec/Utf8Validate.tla checks the two UTF-8 definitions against each other for
// every code point; spec/Utf8Scen.tla enumerates the scenarios with their
// predicted results and checks properties of the reference on each of them.
// The harness renders the scenarios as table-driven Go programs (every string
// as a literal and built at run time), compiles them with the compiler under
// test, runs them under Node and compares every printed line with the
// prediction; the same program built by the reference toolchain guards the
// specification.
package c14

import (
	"encoding/json"
	"fmt"
	"math/rand"
	"os"
	"path/filepath"
	"sort"
	"strings"
	"sync"
	"time"
	"unicode/utf8"

	"verif/core"
	"verif/gjs"
	"verif/reg"
	"verif/tlcx"
)

func init() { reg.Register("C14", "model_checking", Run) }

// Alphabet is the boundary alphabet of DESIGN.md section 4 (C14).
// 0x30 and 0x38 ('0', '8'): digits directly after an escaped byte of a literal (an escape such as \0 or \x0
// must not swallow or be changed by a following digit; seeded change C14-b).
var Alphabet = []int{0x00, 0x22, 0x27, 0x5C, 0x41, 0x30, 0x38, 0x7F, 0x80, 0x8F, 0x90, 0x9F, 0xA0, 0xBF, 0xC0, 0xC1, 0xC2, 0xDF, 0xE0, 0xED, 0xEF, 0xF0, 0xF4, 0xF5, 0xFF}

var boundaryRunes = []int{-1, 0, 0x41, 0x7F, 0x80, 0x7FF, 0x800, 0xD7FF, 0xD800, 0xDFFF, 0xE000, 0xFFFD, 0xFFFF, 0x10000, 0x10FFFF, 0x110000, 0x7FFFFFFF, -0x7FFFFFFF}

const (
	keyIndexNoPanic   = "string_index_out_of_range_no_panic"
	keySliceLowNoPanc = "string_slice_low_beyond_len_no_panic"
	keyInt64HighWord  = "string_from_int64_high_word_ignored"
)

var secNames = map[string][]string{
	"a": {"len", "index", "index_int64", "index_uint8", "to_bytes", "from_bytes", "append", "copy_into_2", "copy_into_5", "named_to_bytes", "named_from_bytes"},
	"r": {"range", "range_keys", "range_count", "to_runes", "from_runes", "unicode_utf8", "named_to_runes", "named_from_runes"},
	"x": {"index_bounds", "index_bounds_int64", "slice", "slice_low_only", "slice_high_only"},
	"e": {"literal_vs_runtime", "concatenated_vs_literal", "len"},
	"m": {"map_and_switch_lookup", "map_len"},
	"d": {"dynamic_map_len", "dynamic_map_lookup"},
	"p": {"compare_literal_runtime", "compare_runtime_literal", "concat", "concat_len"},
	"q": {"from_runes", "to_runes", "concat_of_string_rune"},
	"l": {"len", "index_and_decode", "slice"},
}

// ---- parameters -----------------------------------------------------------------

type randStr struct {
	S     []int    `json:"s"`
	Pairs [][2]int `json:"pairs"`
}

type longParam struct {
	N     int      `json:"n"`
	Pat   []int    `json:"pat"`
	Offs  []int    `json:"offs"`
	Pairs [][2]int `json:"pairs"`
}

func encodeRune(r int) []byte {
	if r < 0 || r > 0x10FFFF || (r >= 0xD800 && r <= 0xDFFF) {
		r = 0xFFFD
	}
	var b [4]byte
	n := utf8.EncodeRune(b[:], rune(r))
	return b[:n]
}

// rawPack packs r into the w-byte UTF-8 bit layout without any validity check
// (overlong forms, surrogates, values above U+10FFFF).
func rawPack(r, w int) []byte {
	switch w {
	case 2:
		return []byte{byte(0xC0 | (r>>6)&0x1F), byte(0x80 | r&0x3F)}
	case 3:
		return []byte{byte(0xE0 | (r>>12)&0x0F), byte(0x80 | (r>>6)&0x3F), byte(0x80 | r&0x3F)}
	default:
		return []byte{byte(0xF0 | (r>>18)&0x07), byte(0x80 | (r>>12)&0x3F), byte(0x80 | (r>>6)&0x3F), byte(0x80 | r&0x3F)}
	}
}

func randRune(rng *rand.Rand) int {
	switch rng.Intn(6) {
	case 0:
		return rng.Intn(0x80)
	case 1:
		return 0x80 + rng.Intn(0x800-0x80)
	case 2:
		return 0x800 + rng.Intn(0x10000-0x800)
	case 3:
		return 0x10000 + rng.Intn(0x110000-0x10000)
	case 4:
		return boundaryRunes[rng.Intn(len(boundaryRunes))]
	default:
		return 0xD800 + rng.Intn(0x800)
	}
}

func randPiece(rng *rand.Rand) []byte {
	switch rng.Intn(7) {
	case 0:
		return []byte{byte(rng.Intn(256))}
	case 1:
		return []byte{byte(Alphabet[rng.Intn(len(Alphabet))])}
	case 2, 3:
		return encodeRune(randRune(rng))
	case 4: // truncated encoding
		e := encodeRune(randRune(rng))
		return e[:len(e)-1]
	case 5: // overlong / surrogate / out-of-range packing
		r := randRune(rng)
		if r < 0 {
			r = 0x110000 + rng.Intn(0x1000)
		}
		w := 4
		switch {
		case r < 0x80:
			w = 2 + rng.Intn(3)
		case r < 0x10000:
			w = 3 + rng.Intn(2)
		}
		return rawPack(r, w)
	default: // valid encoding with one corrupted byte
		e := append([]byte{}, encodeRune(randRune(rng))...)
		e[rng.Intn(len(e))] ^= byte(1 << uint(rng.Intn(8)))
		return e
	}
}

func toInts(b []byte) []int {
	o := make([]int, len(b))
	for i, x := range b {
		o[i] = int(x)
	}
	return o
}

func randBounds(rng *rand.Rand, n int) [2]int {
	if rng.Intn(2) == 0 { // in range
		lo := rng.Intn(n + 1)
		return [2]int{lo, lo + rng.Intn(n+1-lo)}
	}
	return [2]int{rng.Intn(n+4) - 1, rng.Intn(n+4) - 1}
}

func limbsOf(lo32, hi32 uint32) [4]int {
	return [4]int{int(lo32 & 0xFFFF), int(lo32 >> 16), int(hi32 & 0xFFFF), int(hi32 >> 16)}
}

func makeParams(c *core.Ctx) map[string]any {
	rng := rand.New(rand.NewSource(c.Seed))
	// seeded longer strings
	var rs []randStr
	for i := 0; i < c.Pick(64, 600); i++ {
		target := 5 + rng.Intn(60)
		var s []byte
		for len(s) < target {
			s = append(s, randPiece(rng)...)
		}
		if len(s) > 64 {
			s = s[:64]
		}
		e := randStr{S: toInts(s)}
		for k := 0; k < 8; k++ {
			e.Pairs = append(e.Pairs, randBounds(rng, len(s)))
		}
		e.Pairs = append(e.Pairs, [2]int{len(s), len(s) + 1}, [2]int{len(s) + 1 + rng.Intn(3), len(s)})
		rs = append(rs, e)
	}
	// sample for comparison / concatenation: short strings with common prefixes
	seen := map[string]bool{}
	var sample [][]int
	add := func(b []byte) {
		if !seen[string(b)] && len(b) <= 12 {
			seen[string(b)] = true
			sample = append(sample, toInts(b))
		}
	}
	add(nil)
	for _, a := range Alphabet {
		add([]byte{byte(a)})
	}
	for _, r := range boundaryRunes {
		add(encodeRune(r))
	}
	for _, s := range [][]byte{{0x41, 0x00}, {0x41, 0x41}, {0x00, 0x00}, {0xFF, 0xFF}, {0xFF, 0x00}, {0xC2, 0x80}, {0xC2, 0xBF}, {0xC2, 0x7F}, {0xE0, 0xA0, 0x80}, {0xE0, 0x9F, 0xBF}, {0xED, 0xA0, 0x80}, {0xEF, 0xBF, 0xBD}, {0xF4, 0x8F, 0xBF, 0xBF}, {0xF4, 0x90, 0x80, 0x80}, {0x7F, 0x80}, {0x80, 0x7F}} {
		add(s)
	}
	for n := c.Pick(70, 130); len(sample) < n; {
		base := sample[rng.Intn(len(sample))]
		b := make([]byte, len(base))
		for i, x := range base {
			b[i] = byte(x)
		}
		switch rng.Intn(3) {
		case 0:
			b = append(b, randPiece(rng)...)
		case 1:
			if len(b) > 0 {
				b[len(b)-1] = byte(rng.Intn(256))
			}
		default:
			b = append(b, byte(Alphabet[rng.Intn(len(Alphabet))]))
		}
		add(b)
	}
	// integers for string(x)
	var ints [][4]int
	iseen := map[[4]int]bool{}
	addInt := func(l [4]int) {
		if !iseen[l] {
			iseen[l] = true
			ints = append(ints, l)
		}
	}
	for _, r := range boundaryRunes {
		hi := uint32(0)
		if r < 0 {
			hi = 0xFFFFFFFF
		}
		addInt(limbsOf(uint32(int32(r)), hi))
	}
	for _, v := range []uint64{0x7FE, 0x801, 0xFFFE, 0x10001, 0x10FFFE, 1 << 31, 1<<32 - 1, 1 << 32, 1<<32 + 0x41, 1<<32 + 0x10000, 1<<40 + 0x263A, 1<<63 - 1, 1 << 63, 1<<63 + 0x41, 0xFFFFFFFF00000041, 0xFFFFFFFF80000000, 0x100000000000041, 0xFF, 0x100, 0x8000, 0xFFFFFFFFFFFF8000, 0xFFFFFFFFFFFFFF80} {
		addInt(limbsOf(uint32(v), uint32(v>>32)))
	}
	for i := 0; i < c.Pick(24, 200); i++ {
		switch rng.Intn(3) {
		case 0:
			addInt(limbsOf(uint32(randRune(rng)), 0))
		case 1:
			addInt(limbsOf(rng.Uint32(), 0))
		default:
			addInt(limbsOf(uint32(randRune(rng)), rng.Uint32()>>uint(rng.Intn(32))))
		}
	}
	// runes for string([]rune{r1, r2})
	runes := append([]int{}, boundaryRunes...)
	rseen := map[int]bool{}
	for _, r := range runes {
		rseen[r] = true
	}
	for n := len(runes) + c.Pick(6, 22); len(runes) < n; {
		r := randRune(rng)
		if rng.Intn(5) == 0 {
			r = int(int32(rng.Uint32()))
			if r == -0x80000000 {
				continue
			}
		}
		if !rseen[r] {
			rseen[r] = true
			runes = append(runes, r)
		}
	}
	// long strings
	var longs []longParam
	pats := [][]int{{0xE2, 0x82, 0xAC}, {0xF0, 0x9F, 0x98, 0x80}, {0x41}}
	rp := randPiece(rng)
	rp = append(rp, randPiece(rng)...)
	rp = append(rp, byte(rng.Intn(256)))
	pats = append(pats, toInts(rp))
	ns := []int{10000, 10001, 20001}
	if c.Thorough() {
		ns = append(ns, 9999, 30000, 10000+rng.Intn(10000))
	}
	for i, n := range ns {
		for j, pat := range pats {
			if !c.Thorough() && (i+j)%2 == 1 {
				continue
			}
			l := longParam{N: n, Pat: pat}
			l.Offs = []int{-1, 0, 1, 9998, 9999, 10000, 10001, n - 2, n - 1, n, n + 1, rng.Intn(n)}
			l.Pairs = [][2]int{{9998, 10003}, {0, n}, {10000, n + 1}, {n, n}, {9999, 10000}, {1, n - 1}, {n + 1, n + 1}, randBounds(rng, n)}
			if n > 20000 {
				l.Offs = append(l.Offs, 19999, 20000, 20001)
				l.Pairs = append(l.Pairs, [2]int{19998, 20002})
			}
			longs = append(longs, l)
		}
	}
	return map[string]any{
		"alphabet": Alphabet, "maxlen": c.Pick(3, 4), "classes": []string{"str", "grp", "pair", "rune", "rand", "long"},
		"rand": rs, "sample": sample, "ints": ints, "runes": runes, "longs": longs, "out": "scen",
	}
}

// ---- comparison -----------------------------------------------------------------

type diff struct {
	key       string // known-defect classifier, "" = none
	group     string
	e         *expLine
	sec       string
	want, got string
	line      string
}

type agg struct {
	count int
	first diff
}

type collector struct {
	mu     sync.Mutex
	groups map[string]*agg
}

func (co *collector) add(d diff) {
	co.mu.Lock()
	defer co.mu.Unlock()
	k := d.key
	if k == "" {
		k = "?" + d.group
	}
	a := co.groups[k]
	if a == nil {
		a = &agg{first: d}
		co.groups[k] = a
	}
	a.count++
	// keep the smallest example (deterministic, and the most readable)
	if f := a.first; len(d.e.desc) < len(f.e.desc) || (len(d.e.desc) == len(f.e.desc) && d.e.desc+d.e.src+d.want < f.e.desc+f.e.src+f.want) {
		a.first = d
	}
}

func isPanicTok(t string) bool { return strings.HasSuffix(t, "=P") || strings.HasSuffix(t, "=Q") }

// classify returns the classifier key of a known defect class for one differing
// token, or "".
func classify(e *expLine, sec int, want, got string) string {
	switch e.kind {
	case "x":
		if (sec == 0 || sec == 1) && strings.HasSuffix(want, "=P") && !isPanicTok(got) && sameLHS(want, got) {
			// the specification (and the reference toolchain) panic because the index is out
			// of range; the compiled program went on
			return keyIndexNoPanic
		}
		if sec == 3 && strings.HasSuffix(want, ":=P") && sameLHS(want, got) && strings.HasSuffix(got, ":=-") {
			var lo int
			if _, err := fmt.Sscanf(want, "%d:=P", &lo); err == nil && lo > len(e.sc.s) {
				return keySliceLowNoPanc
			}
		}
	case "l":
		if sec == 1 && strings.HasSuffix(want, "=P") && !isPanicTok(got) && sameLHS(want, got) {
			var o int
			if _, err := fmt.Sscanf(want, "%d=P", &o); err == nil && o >= e.lc.slen {
				return keyIndexNoPanic
			}
		}
	case "i":
		if sec < len(e.secTypes) && (e.secTypes[sec] == "int64" || e.secTypes[sec] == "uint64") && (e.limbs[2] != 0 || e.limbs[3] != 0) {
			low := e.limbs[0] + e.limbs[1]<<16
			if got == jb(encodeRune(low)) {
				return keyInt64HighWord
			}
		}
	}
	return ""
}

func sameLHS(a, b string) bool {
	i, j := strings.IndexByte(a, '='), strings.IndexByte(b, '=')
	return i >= 0 && j >= 0 && a[:i] == b[:j]
}

// compare returns the differences between a predicted and an observed line.
func compare(e *expLine, got string) []diff {
	if got == e.want {
		return nil
	}
	whole := []diff{{group: e.kind + "/line", e: e, sec: "line", want: e.want, got: got, line: got}}
	if len(got) < 2 || got[:2] != e.want[:2] {
		return whole
	}
	ws, gs := strings.Split(e.want[2:], " | "), strings.Split(got[2:], " | ")
	if len(ws) != len(gs) {
		return whole
	}
	var out []diff
	for i := range ws {
		if ws[i] == gs[i] {
			continue
		}
		name := fmt.Sprint(i)
		if n := secNames[e.kind]; i < len(n) {
			name = n[i]
		} else if e.kind == "i" && i < len(e.secTypes) {
			name = "string(" + e.secTypes[i] + ")"
		}
		wt, gt := strings.Split(ws[i], " "), strings.Split(gs[i], " ")
		if len(wt) != len(gt) {
			out = append(out, diff{group: e.kind + "/" + name, e: e, sec: name, want: ws[i], got: gs[i], line: got})
			continue
		}
		for k := range wt {
			if wt[k] != gt[k] {
				out = append(out, diff{key: classify(e, i, wt[k], gt[k]), group: e.kind + "/" + name, e: e, sec: name, want: wt[k], got: gt[k], line: got})
			}
		}
	}
	return out
}

type stats struct {
	mu       sync.Mutex
	lines    int
	discards int
	programs int
	dumped   int
	cases    map[string]int
}

// runProgram executes one program on both tool chains and compares.
func runProgram(c *core.Ctx, pool *gjs.Pool, p *program, co *collector, st *stats) {
	if len(p.exp) == 0 {
		return
	}
	prog := p.source()
	if d := os.Getenv("VERIF_C14_DUMP"); d != "" { // debugging aid: keep every generated program
		st.mu.Lock()
		st.dumped++
		dir := filepath.Join(d, fmt.Sprintf("p%03d_%s", st.dumped, p.exp[0].kind))
		st.mu.Unlock()
		os.MkdirAll(dir, 0o755)
		os.WriteFile(filepath.Join(dir, "main.go"), []byte(prog.Files["main.go"]), 0o644)
		os.WriteFile(filepath.Join(dir, "go.mod"), []byte("module vp\n\ngo 1.20\n"), 0o644)
		os.WriteFile(filepath.Join(dir, "expected.txt"), []byte(p.expected()), 0o644)
	}
	t0 := time.Now()
	var b gjs.Both
	for attempt := 0; attempt < 3; attempt++ {
		b = pool.RunBoth(c.Scratch, prog, gjs.Opts{}, 10*time.Minute, true, false)
		// "fail"/"timeout" ends are not outcomes of these programs (they always
		// return from main): on an overloaded machine the output pipe of a child
		// is sometimes cut (exec: WaitDelay expired) -- run again before giving up
		if b.BuildErr == nil && b.NativeErr == "" && (b.JS.End == "fail" || b.JS.End == "timeout" || b.Native.End == "fail" || b.Native.End == "timeout") {
			continue
		}
		break
	}
	if os.Getenv("VERIF_VERBOSE") != "" {
		fmt.Fprintf(os.Stderr, "[C14] program with %d lines (%d bytes of source, kinds %s..): %.1fs\n", len(p.exp), len(prog.Files["main.go"]), p.exp[0].kind, time.Since(t0).Seconds())
	}
	files := func() map[string]string {
		f := prog.ReplayFiles("prog")
		f["expected.txt"] = p.expected()
		return f
	}
	b.JS.Lines, b.Native.Lines = joinCont(b.JS.Lines), joinCont(b.Native.Lines)
	if b.BuildErr != nil {
		if be, ok := b.BuildErr.(*gjs.BuildError); ok && be.Panic {
			c.Report(core.Case{Keys: []string{"compiler_panic"}, Summary: "compiler internal error on a string table program: " + be.Error(), Files: files()})
		} else {
			c.Infra(fmt.Errorf("gopherjs build failed: %v", b.BuildErr))
		}
		return
	}
	if b.NativeErr != "" {
		c.Infra(fmt.Errorf("reference toolchain rejected a generated program: %s", tlcx.Tail(b.NativeErr, 20)))
		return
	}
	if len(b.Native.Lines) != len(p.exp) || b.Native.End != "exit" {
		c.Infra(fmt.Errorf("native run printed %d lines, want %d (end=%s %s)", len(b.Native.Lines), len(p.exp), b.Native.End, b.Native.Msg))
		return
	}
	if b.JS.End == "timeout" || b.JS.End == "fail" {
		c.Infra(fmt.Errorf("node run of a string table program of %d lines ended with %s %s (three attempts)", len(p.exp), b.JS.End, b.JS.Msg))
		return
	}
	if len(b.JS.Lines) != len(p.exp) || b.JS.End != "exit" {
		f := files()
		f["observed.txt"] = b.JS.Raw
		c.Report(core.Case{Keys: []string{"program_aborted"}, Summary: fmt.Sprintf("compiled string table program printed %d lines, want %d; end=%s msg=%s", len(b.JS.Lines), len(p.exp), b.JS.End, b.JS.Msg), Files: f})
		return
	}
	if os.Getenv("VERIF_C14_CORRUPT") != "" {
		// sensitivity aid: a corrupted prediction must show up (as a specification
		// guard discard, because the reference toolchain disagrees with it too)
		p.exp[0].want += ",9"
	}
	n, nd := 0, 0
	for i := range p.exp {
		e := &p.exp[i]
		if b.Native.Lines[i] != e.want {
			// specification guard: the reference toolchain disagrees with the prediction
			nd++
			if os.Getenv("VERIF_VERBOSE") != "" {
				fmt.Fprintf(os.Stderr, "[C14] spec/guard disagreement on %s\n  spec:   %s\n  native: %s\n", e.desc, e.want, b.Native.Lines[i])
			}
			continue
		}
		n++
		for _, d := range compare(e, b.JS.Lines[i]) {
			co.add(d)
		}
	}
	st.mu.Lock()
	st.lines += n
	st.discards += nd
	st.programs++
	st.mu.Unlock()
}

// ---- the check --------------------------------------------------------------------

// Run is the C14 check.
func Run(c *core.Ctx, pool *gjs.Pool) {
	if dir := os.Getenv("VERIF_REPLAY"); dir != "" {
		replay(c, pool, dir)
		return
	}
	c.Assumef("strings are modelled as sequences of bytes; a run-time panic is one outcome (runtime.Error or not is printed, the message text is not compared)")
	c.Assumef("programs print only ASCII lines of decimal integers (println of bytes >= 0x80 is a documented rendering difference)")
	c.Assumef("string(x) for int/uint/uintptr x is exercised with 32-bit values only (documented width of int); capacity of converted slices is not observed")
	c.Assumef("strings that enter from JavaScript (js.Object.String, internalisation) belong to C11 and are not covered here")

	// 1. the two UTF-8 definitions agree for every code point (runs while the
	// scenarios are enumerated; 4 + 4 TLC workers)
	maxBlock := c.Pick(4351+64, 8191)
	var vr *tlcx.Result
	var verr error
	var wg sync.WaitGroup
	wg.Add(1)
	go func() {
		defer wg.Done()
		cfg := fmt.Sprintf("SPECIFICATION Spec\nINVARIANT RoundTrip\nCHECK_DEADLOCK FALSE\nCONSTANT MaxBlock = %d\n", maxBlock)
		vr, verr = tlcx.Run(c, tlcx.Opts{Module: "Utf8Validate", Cfg: cfg, Workers: 4, Timeout: 20 * time.Minute})
	}()

	// 2. enumerate scenarios with predictions
	params := makeParams(c)
	pj, _ := json.Marshal(params)
	cfg := "SPECIFICATION Spec\nINVARIANT SpecOK\nINVARIANT Emit\nCHECK_DEADLOCK FALSE\n"
	r, err := tlcx.Run(c, tlcx.Opts{Module: "Utf8Scen", Cfg: cfg, Workers: 4, Timeout: 25 * time.Minute, Files: map[string]string{"c14_params.json": string(pj)}, HeapMB: 8192})
	wg.Wait()
	if !tlcx.MustComplete(c, vr, verr, "Utf8Validate") {
		return
	}
	c.Set("code_points_round_tripped", (maxBlock+1)*256)
	if !tlcx.MustComplete(c, r, err, "Utf8Scen") {
		return
	}
	c.Set("checker_cmd", "tlc Utf8Validate (INVARIANT RoundTrip); tlc Utf8Scen (INVARIANT SpecOK, INVARIANT Emit)")
	c.Set("exhaustive", true)
	c.Set("bounds", map[string]any{"alphabet_bytes": len(Alphabet), "max_len_exhaustive": params["maxlen"], "random_strings": len(params["rand"].([]randStr)),
		"pair_sample": len(params["sample"].([][]int)), "integers": len(params["ints"].([][4]int)), "runes": len(params["runes"].([]int)), "long_strings": len(params["longs"].([]longParam))})
	c.Phase("enumerate")

	co := &collector{groups: map[string]*agg{}}
	st := &stats{cases: map[string]int{}}
	files, _ := filepath.Glob(filepath.Join(r.Dir, "scen.*.ndjson"))
	sort.Strings(files)
	if len(files) == 0 {
		c.Infra(fmt.Errorf("Utf8Scen wrote no scenario files"))
		return
	}
	// 3. batches of unit files; each batch is decoded, rendered and run by one worker
	type batch struct {
		class string
		files []string
	}
	var batches []batch
	byClass := map[string][]string{}
	var total int64
	sizes := map[string]int64{}
	for _, f := range files {
		cl := strings.SplitN(strings.TrimPrefix(filepath.Base(f), "scen."), "_", 2)[0]
		byClass[cl] = append(byClass[cl], f)
		if fi, err := os.Stat(f); err == nil {
			sizes[f] = fi.Size()
			total += fi.Size()
		}
	}
	target := total / 48
	if target < 1<<20 {
		target = 1 << 20
	}
	for _, cl := range []string{"str", "rand", "grp"} {
		var cur batch
		var sz int64
		for _, f := range byClass[cl] {
			cur.class = cl
			cur.files = append(cur.files, f)
			sz += sizes[f]
			if sz >= target {
				batches = append(batches, cur)
				cur, sz = batch{}, 0
			}
		}
		if len(cur.files) > 0 {
			batches = append(batches, cur)
		}
	}
	var misc []string
	for _, cl := range []string{"pair", "rune", "long"} {
		misc = append(misc, byClass[cl]...)
	}
	batches = append(batches, batch{class: "misc", files: misc})
	var sampleMu sync.Mutex
	sampled := map[string]bool{}
	c.ParMap(len(batches), func(i int) {
		defer func() {
			if r := recover(); r != nil {
				c.Infra(fmt.Errorf("decoding TLC output: %v", r))
			}
		}()
		bt := batches[i]
		progs, err := buildPrograms(bt.class, bt.files, st, c.Pick(800, 1500))
		if err != nil {
			c.Infra(err)
			return
		}
		for _, p := range progs {
			for k := range p.exp {
				c.Distinct(p.exp[k].key)
			}
			sampleMu.Lock()
			if e := p.exp[len(p.exp)/2]; !sampled[e.kind] && len(sampled) < 5 {
				sampled[e.kind] = true
				c.Sample(map[string]any{"case": e.desc, "source": e.src, "predicted_line": clip(e.want, 300)})
			}
			sampleMu.Unlock()
			runProgram(c, pool, p, co, st)
		}
	})
	c.Phase("run")
	c.Set("evaluations", st.lines)
	c.Set("programs", st.programs)
	c.Set("spec_guard_discards", st.discards)
	c.Set("traces_validated_against_impl", st.lines)
	c.Set("cases", st.cases)
	c.Set("rule", "TLC enumerates every byte string over the 23-byte boundary alphabet up to max_len_exhaustive (each with all index values -1..len+2, all slice pairs 0..len+1 squared, s[lo:] and s[:hi] for -1..len+2), every key set prefix+<=1 byte, all pairs of the comparison sample, all pairs of the rune list, the integer list, VERIF_SEED-derived random strings (<= 64 bytes) and long repeated patterns; one evaluation = one printed line (one group of operations on one case from one source: literal or built at run time) that the reference toolchain printed as predicted and that was compared with the compiled program's line; distinct = distinct (case, operation group); non-trivial = all (every line evaluates string operations of the compiled program)")
	if st.discards > 0 {
		fmt.Printf("note: %d lines discarded because the reference toolchain disagrees with the specification\n", st.discards)
	}

	// 4. report
	keys := make([]string, 0, len(co.groups))
	for k := range co.groups {
		keys = append(keys, k)
	}
	sort.Strings(keys)
	reported := 0
	for _, k := range keys {
		a := co.groups[k]
		d := a.first
		var ck []string
		if d.key != "" {
			ck = []string{d.key}
		} else {
			reported++
			if reported > 12 {
				continue
			}
		}
		rp := d.e.replay()
		f := rp.source().ReplayFiles("prog")
		f["expected.txt"] = rp.expected()
		f["observed_line.txt"] = d.line + "\n"
		f["scenario.txt"] = fmt.Sprintf("%s\nsource: %s\noperation: %s\npredicted: %s\nobserved:  %s\n", d.e.desc, d.e.src, d.sec, d.want, d.got)
		cs := core.Case{Keys: ck, Files: f,
			Summary: fmt.Sprintf("%s (%s), %s: Go/spec = %s, compiled program = %s (%d differing values of this class)", d.e.desc, srcName(d.e.src), d.sec, clip(d.want, 120), clip(d.got, 120), a.count)}
		if !c.Report(cs) && len(ck) > 0 {
			// a known finding: count every differing value, not only the example
			for i := 1; i < a.count; i++ {
				c.Report(cs)
			}
		}
	}
}

// joinCont joins the pieces of lines the programs printed with a trailing
// backslash (see out in the program run time).
func joinCont(lines []string) []string {
	out := lines[:0:0]
	cur, open := "", false
	for _, l := range lines {
		if strings.HasSuffix(l, "\\") {
			cur += strings.TrimSuffix(l, "\\")
			open = true
			continue
		}
		out = append(out, cur+l)
		cur, open = "", false
	}
	if open {
		out = append(out, cur)
	}
	return out
}

func srcName(s string) string {
	switch s {
	case "lit":
		return "as a literal"
	case "rt":
		return "built at run time"
	}
	return "literal and run-time forms"
}

func clip(s string, n int) string {
	if len(s) > n {
		return s[:n] + "..."
	}
	return s
}

// buildPrograms decodes the unit files of one batch and renders programs of
// bounded size.
func buildPrograms(class string, files []string, st *stats, perStr int) ([]*program, error) {
	var progs []*program
	count := func(k string, n int) {
		st.mu.Lock()
		st.cases[k] += n
		st.mu.Unlock()
	}
	switch class {
	case "str", "rand":
		var cases []*strCase
		for _, f := range files {
			err := tlcx.ReadNDJSON(f, func(raw json.RawMessage) error {
				v, err := decodeLine(raw)
				if err != nil {
					return err
				}
				for _, x := range seq(v) {
					sc := decodeStrCase(class, x)
					if !sc.sameBounds() {
						return fmt.Errorf("s[lo:] and s[:hi] enumerated over different bounds")
					}
					cases = append(cases, sc)
				}
				return nil
			})
			if err != nil {
				return nil, fmt.Errorf("decode %s: %v", f, err)
			}
		}
		count(class+"_strings", len(cases))
		per := perStr
		if class == "rand" {
			per = 300
		}
		for i := 0; i < len(cases); i += per {
			j := i + per
			if j > len(cases) {
				j = len(cases)
			}
			p := newProgram()
			p.addStr(cases[i:j])
			progs = append(progs, p)
		}
	case "grp":
		var gs []*grpCase
		for _, f := range files {
			err := tlcx.ReadNDJSON(f, func(raw json.RawMessage) error {
				v, err := decodeLine(raw)
				if err != nil {
					return err
				}
				for _, x := range seq(v) {
					gs = append(gs, decodeGrp(x))
				}
				return nil
			})
			if err != nil {
				return nil, fmt.Errorf("decode %s: %v", f, err)
			}
		}
		count("key_sets", len(gs))
		for i := 0; i < len(gs); i += 150 {
			j := i + 150
			if j > len(gs) {
				j = len(gs)
			}
			p := newProgram()
			p.addGrp(gs[i:j])
			progs = append(progs, p)
		}
	case "misc":
		type pk struct{ a, b string }
		pairs := map[pk]pairRes{}
		var sample [][]byte
		rps := map[[2]int]*runePair{}
		var runes []int
		rseen := map[int]bool{}
		var intCases []*intCase
		var longs []*longCase
		for _, f := range files {
			cl := strings.SplitN(strings.TrimPrefix(filepath.Base(f), "scen."), "_", 2)[0]
			err := tlcx.ReadNDJSON(f, func(raw json.RawMessage) error {
				v, err := decodeLine(raw)
				if err != nil {
					return err
				}
				switch cl {
				case "pair":
					row := seq(v)
					a := bytesOf(row[0])
					sample = append(sample, a)
					for _, x := range seq(row[1]) {
						t := seq(x)
						pairs[pk{string(a), string(bytesOf(t[0]))}] = pairRes{num(t[1]), bytesOf(t[2])}
					}
				case "rune":
					for _, x := range seq(v) {
						t := seq(x)
						if len(t) == 2 {
							l := ints(t[0])
							intCases = append(intCases, &intCase{limbs: [4]int{l[0], l[1], l[2], l[3]}, want: bytesOf(t[1])})
						} else {
							rs := ints(t[0])
							rps[[2]int{rs[0], rs[1]}] = &runePair{rs: [2]int{rs[0], rs[1]}, bytes: bytesOf(t[1]), runes: ints(t[2])}
							if !rseen[rs[0]] {
								rseen[rs[0]] = true
								runes = append(runes, rs[0])
							}
						}
					}
				case "long":
					longs = append(longs, decodeLong(v))
				}
				return nil
			})
			if err != nil {
				return nil, fmt.Errorf("decode %s: %v", f, err)
			}
		}
		sort.Slice(sample, func(i, j int) bool { return string(sample[i]) < string(sample[j]) })
		sort.Ints(runes)
		count("compared_pairs", len(pairs))
		count("rune_pairs", len(rps))
		count("integers", len(intCases))
		count("long_strings", len(longs))
		resOf := func(a, b []byte) (pairRes, bool) { r, ok := pairs[pk{string(a), string(b)}]; return r, ok }
		p := newProgram()
		if err := p.addPairs(sample, resOf); err != nil {
			return nil, err
		}
		progs = append(progs, p)
		p = newProgram()
		if err := p.addRunePairs(runes, func(r1, r2 int) (*runePair, bool) { r, ok := rps[[2]int{r1, r2}]; return r, ok }); err != nil {
			return nil, err
		}
		p.addInts(intCases)
		p.addLong(longs)
		progs = append(progs, p)
	}
	return progs, nil
}

// replay re-decides one recorded scenario: prog/ holds the program, expected.txt
// the lines the specification predicted.
func replay(c *core.Ctx, pool *gjs.Pool, dir string) {
	src, err := os.ReadFile(filepath.Join(dir, "prog", "main.go"))
	if err != nil {
		c.Infra(err)
		return
	}
	exp, err := os.ReadFile(filepath.Join(dir, "expected.txt"))
	if err != nil {
		c.Infra(err)
		return
	}
	want := strings.Split(strings.TrimRight(string(exp), "\n"), "\n")
	prog := gjs.Prog{Files: map[string]string{"main.go": string(src)}}
	b := pool.RunBoth(c.Scratch, prog, gjs.Opts{}, 5*time.Minute, true, false)
	if b.BuildErr != nil || b.NativeErr != "" {
		c.Infra(fmt.Errorf("replay: build failed: %v %s", b.BuildErr, b.NativeErr))
		return
	}
	// the classifier keys recorded with the scenario (known findings stay known)
	var keys []string
	if sm, err := os.ReadFile(filepath.Join(dir, "SUMMARY.txt")); err == nil {
		for _, l := range strings.Split(string(sm), "\n") {
			if strings.HasPrefix(l, "keys: ") && len(l) > 6 {
				keys = strings.Split(strings.TrimPrefix(l, "keys: "), ",")
			}
		}
	}
	b.JS.Lines, b.Native.Lines = joinCont(b.JS.Lines), joinCont(b.Native.Lines)
	n := 0
	for i, w := range want {
		if i >= len(b.Native.Lines) || b.Native.Lines[i] != w {
			c.Add("spec_guard_discards", 1)
			continue
		}
		n++
		got := "<missing>"
		if i < len(b.JS.Lines) {
			got = b.JS.Lines[i]
		}
		if got != w {
			f := prog.ReplayFiles("prog")
			f["expected.txt"] = string(exp)
			c.Report(core.Case{Keys: keys, Summary: fmt.Sprintf("replay %s line %d: Go/spec = %s, compiled program = %s", dir, i+1, clip(w, 160), clip(got, 160)), Files: f})
		}
	}
	c.Set("evaluations", n)
	c.Set("rule", "replay of one recorded scenario program against its recorded prediction")
}
