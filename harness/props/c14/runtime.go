package c14

// progRuntime is the fixed part of every scenario program: the operations on
// strings under test and the rendering of their results as ASCII lines (ints
// only; strings with bytes >= 0x80 are never printed). Every operation that may
// panic runs under tryS; "P" = run-time error (runtime.Error), "Q" = any other
// panic value.
//
// Line formats (sections separated by " | ", tokens by " ", list elements by
// ","; "-" = empty list); the harness builds the expected lines from the TLC
// records in exactly this format (expect.go).
const progRuntime = `package main

import (
	"runtime"
	"unicode/utf8"
)

func itoa(n int) string {
	if n == 0 {
		return "0"
	}
	neg := n < 0
	if neg {
		n = -n
	}
	var buf [24]byte
	i := len(buf)
	for n > 0 {
		i--
		buf[i] = byte('0' + n%10)
		n /= 10
	}
	if neg {
		i--
		buf[i] = '-'
	}
	return string(buf[i:])
}

// out prints one result line. Long lines are printed in pieces ending with a
// backslash (the harness joins them): the reference toolchain's println is one
// write(2) per string, and a write of more than PIPE_BUF bytes to a pipe can be
// cut short by a signal, which would lose part of a line of the guard.
func out(s string) {
	for len(s) > 1500 {
		println(s[:1500] + "\\")
		s = s[1500:]
	}
	println(s)
}

func b01(b bool) string {
	if b {
		return "1"
	}
	return "0"
}

func perr(e interface{}) string {
	if _, ok := e.(runtime.Error); ok {
		return "P"
	}
	return "Q"
}

func tryS(f func() string) (r string) {
	defer func() {
		if e := recover(); e != nil {
			r = perr(e)
		}
	}()
	return f()
}

func list(n int, f func(i int) int) string {
	if n == 0 {
		return "-"
	}
	o := ""
	for i := 0; i < n; i++ {
		if i > 0 {
			o += ","
		}
		o += itoa(f(i))
	}
	return o
}

// bytes of a string, read by indexing
func bl(s string) string { return list(len(s), func(i int) int { return int(s[i]) }) }
func bsl(b []byte) string { return list(len(b), func(i int) int { return int(b[i]) }) }
func rl(r []rune) string  { return list(len(r), func(i int) int { return int(r[i]) }) }

func sec(parts ...string) string {
	o := ""
	for i, p := range parts {
		if i > 0 {
			o += " | "
		}
		if p == "" {
			p = "-"
		}
		o += p
	}
	return o
}

func ops6(a, b string) string {
	return b01(a == b) + "," + b01(a != b) + "," + b01(a < b) + "," + b01(a <= b) + "," + b01(a > b) + "," + b01(a >= b)
}

var pool []byte

type loc struct{ off, n int }

// a string built at run time from a sub-slice of the byte pool
func rt(l loc) string { return string(pool[l.off : l.off+l.n]) }

// the same string built by concatenating one-byte strings
func rtcat(l loc) string {
	z := ""
	for k := l.off; k < l.off+l.n; k++ {
		z += string(pool[k : k+1])
	}
	return z
}

// named string, byte, byte-slice and rune-slice types take the same conversions
type nS string
type nB byte
type nBS []byte
type nRS []rune

// a: len, indexing (int, int64, uint8 index), []byte, string([]byte), append, copy, named types
func lineA(s string) string {
	b := []byte(s)
	nb := []nB(nS(s))
	d2 := []byte{0xAA, 0xAA}
	n2 := copy(d2, s)
	d5 := []byte{0xAA, 0xAA, 0xAA, 0xAA, 0xAA}
	n5 := copy(d5, s)
	return "a " + sec(
		itoa(len(s)),
		bl(s),
		list(len(s), func(i int) int { return int(s[int64(i)]) }),
		list(len(s), func(i int) int { return int(s[uint8(i)]) }),
		bsl(b),
		bl(string(b)),
		bsl(append([]byte{'x'}, s...)),
		itoa(n2)+","+bsl(d2),
		itoa(n5)+","+bsl(d5),
		list(len(nb), func(i int) int { return int(nb[i]) }),
		bl(string(nS(nBS(b)))),
	)
}

var nestedSink int

func nestedCount(t string) (n int) {
	for range t {
		n++
	}
	return n
}

// r: range (index, rune), range keys, iteration count, []rune, string([]rune), unicode/utf8
func lineB(s string) string {
	pairs, keys, cnt := "", "", 0
	for i, r := range s {
		if pairs != "" {
			pairs += ","
		}
		pairs += itoa(i) + "," + itoa(int(r))
	}
	for i := range s {
		if keys != "" {
			keys += ","
		}
		keys += itoa(i)
	}
	for range s {
		cnt++
	}
	// The same loop with other decoding work inside the body (a nested range, a
	// []rune conversion, a call that ranges; the last rune decoded before the loop
	// advances has another width than the loop's own rune): the iteration must not
	// notice it (Utf8.tla: Range(s) is a function of s alone).
	pairs2 := ""
	for i, r := range s {
		in := "a\u00e9\u20ac\U0001F600"
		if i%2 == 1 {
			in = "\U0001F600\u20ac\u00e9a"
		}
		for _, q := range in {
			nestedSink += int(q)
		}
		nestedSink += len([]rune(in[:len(in)-i%2]))
		nestedSink += nestedCount(in)
		if pairs2 != "" {
			pairs2 += ","
		}
		pairs2 += itoa(i) + "," + itoa(int(r))
	}
	if pairs2 != pairs {
		pairs = "range-with-nested-decoding-differs " + pairs2
	}
	rs := []rune(s)
	u := itoa(utf8.RuneCountInString(s)) + "," + b01(utf8.ValidString(s))
	if len(s) > 0 {
		r, w := utf8.DecodeRuneInString(s)
		u += "," + itoa(int(r)) + "," + itoa(w)
	}
	nr := nRS(nS(s))
	return "r " + sec(pairs, keys, itoa(cnt), rl(rs), bl(string(rs)), u, rl([]rune(nr)), bl(string(nS(nr))))
}

// x: s[i] (int and int64 index), s[lo:hi], s[lo:], s[:hi] with bounds in and out of range.
// The tables carry, next to every operand tuple, whether the specification
// predicts a panic: only those evaluations get their own recover (a deferred
// call costs a stack capture in the compiled program). An unpredicted panic
// is caught by the recover around the whole line and turns the line into "P".
// ix: (i, panics)...   prs: (lo, hi, panics)...   bnd: (v, s[v:] panics, s[:v] panics)...
func ev(mayPanic int, f func() string) string {
	if mayPanic != 0 {
		return tryS(f)
	}
	return f()
}

func lineC(s string, ix, prs, bnd []int) string {
	var a, b, c, d, e string
	for k := 0; k+1 < len(ix); k += 2 {
		i := ix[k]
		a += " " + itoa(i) + "=" + ev(ix[k+1], func() string { return itoa(int(s[i])) })
		i64 := int64(i)
		b += " L" + itoa(i) + "=" + ev(ix[k+1], func() string { return itoa(int(s[i64])) })
	}
	for k := 0; k+2 < len(prs); k += 3 {
		lo, hi := prs[k], prs[k+1]
		c += " " + itoa(lo) + ":" + itoa(hi) + "=" + ev(prs[k+2], func() string { return bl(s[lo:hi]) })
	}
	for k := 0; k+2 < len(bnd); k += 3 {
		v := bnd[k]
		d += " " + itoa(v) + ":=" + ev(bnd[k+1], func() string { return bl(s[v:]) })
		e += " :" + itoa(v) + "=" + ev(bnd[k+2], func() string { return bl(s[:v]) })
	}
	return "x " + sec(trim(a), trim(b), trim(c), trim(d), trim(e))
}

func trim(s string) string {
	if len(s) > 0 && s[0] == ' ' {
		return s[1:]
	}
	return s
}

// e: the literal against the two run-time constructions
func lineD(lit, r1, r2 string) string {
	return "e " + sec(ops6(lit, r1), ops6(r2, lit), itoa(len(lit))+","+itoa(len(r1))+","+itoa(len(r2)))
}

type sc struct {
	lit          string
	l            loc
	ix, prs, bnd []int
}

func runStr(cs []sc) {
	for i := range cs {
		c := &cs[i]
		lit := c.lit
		r1 := rt(c.l)
		out(tryS(func() string { return lineA(lit) }))
		out(tryS(func() string { return lineA(r1) }))
		out(tryS(func() string { return lineB(lit) }))
		out(tryS(func() string { return lineB(r1) }))
		out(tryS(func() string { return lineC(lit, c.ix, c.prs, c.bnd) }))
		out(tryS(func() string { return lineC(r1, c.ix, c.prs, c.bnd) }))
		out(tryS(func() string { return lineD(lit, r1, rtcat(c.l)) }))
	}
}

// a key set: literal keys in a map literal and in a switch, probed with
// run-time strings; run-time keys in a map built by assignment, probed with
// the literals
type grp struct {
	m      map[string]int
	sw     func(string) int
	lits   []string
	keys   []loc
	probes []loc
}

func runGrp(gs []grp) {
	for i := range gs {
		g := &gs[i]
		out(tryS(func() string {
			o := ""
			for _, p := range g.probes {
				x := rt(p)
				mi := -1
				if v, ok := g.m[x]; ok {
					mi = v
				}
				if o != "" {
					o += " "
				}
				o += itoa(mi) + "," + itoa(g.sw(x))
			}
			return "m " + sec(o, itoa(len(g.m)))
		}))
		out(tryS(func() string {
			d := map[string]int{}
			for j, k := range g.keys {
				d[rtcat(k)] = j
			}
			o := ""
			for _, l := range g.lits {
				mi := -1
				if v, ok := d[l]; ok {
					mi = v
				}
				if o != "" {
					o += " "
				}
				o += itoa(mi)
			}
			return "d " + sec(itoa(len(d)), o)
		}))
	}
}

// p: comparison operators and concatenation for every pair of the sample
type ps struct {
	lit string
	l   loc
}

func runPair(smp []ps) {
	for i := range smp {
		for j := range smp {
			a, b := &smp[i], &smp[j]
			out(tryS(func() string {
				ar, br := rt(a.l), rt(b.l)
				return "p " + sec(ops6(a.lit, br), ops6(ar, b.lit), bl(a.lit+br), itoa(len(ar+b.lit)))
			}))
		}
	}
}

// q: string([]rune{r1, r2}), []rune of it, string(r1)+string(r2)
func runRunes(rs []rune) {
	for i := range rs {
		for j := range rs {
			r1, r2 := rs[i], rs[j]
			out(tryS(func() string {
				s := string([]rune{r1, r2})
				return "q " + sec(bl(s), rl([]rune(s)), bl(string(r1)+string(r2)))
			}))
		}
	}
}

// l: a long string (beyond the 10000-byte conversion chunks): len, s[o] and the
// rune decoded at o by range, slices as (len, first, last)
type lg struct {
	n    int
	pat  []byte
	offs []int
	prs  []int
}

func runLong(ls []lg) {
	for i := range ls {
		c := &ls[i]
		out(tryS(func() string {
			bs := make([]byte, c.n+3)
			for k := 0; k < c.n; k++ {
				bs[k+3] = c.pat[k%len(c.pat)]
			}
			s := string(bs[3:])
			var a, b string
			for _, o := range c.offs {
				o := o
				a += " " + itoa(o) + "=" + tryS(func() string {
					x := itoa(int(s[o]))
					r, w := rune(-1), -1
					for k, v := range s[o:] {
						if k == 0 {
							r = v
						} else {
							w = k
							break
						}
					}
					if w < 0 {
						w = len(s) - o
					}
					return x + "," + itoa(int(r)) + "," + itoa(w)
				})
			}
			for k := 0; k+1 < len(c.prs); k += 2 {
				lo, hi := c.prs[k], c.prs[k+1]
				b += " " + itoa(lo) + ":" + itoa(hi) + "=" + tryS(func() string {
					t := s[lo:hi]
					if len(t) == 0 {
						return "0"
					}
					return itoa(len(t)) + "," + itoa(int(t[0])) + "," + itoa(int(t[len(t)-1]))
				})
			}
			return "l " + sec(itoa(len(s)), trim(a), trim(b))
		}))
	}
}
`

// intsRuntime: string(x) for integer values of every integer type that holds
// the value. Generated per program because the tables are typed.
