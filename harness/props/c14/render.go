package c14

import (
	"fmt"
	"hash/fnv"
	"math/big"
	"strconv"
	"strings"

	"verif/gjs"
)

// expLine is one predicted output line and what it is about.
type expLine struct {
	want string
	kind string // a r x e | m d | p | q | i | l
	src  string // lit | rt | both | ""
	desc string // the case, for humans
	key  string // canonical key of the case (coverage.distinct_nontrivial)
	sc   *strCase
	lc   *longCase
	// secTypes: for kind i, the Go type of every section
	secTypes []string
	limbs    [4]int
	// replay renders a minimal program for this case with its expected output.
	replay func() *program
}

// program is a rendered scenario program with its predicted output.
type program struct {
	decls []string
	calls []string
	exp   []expLine
	pool  []byte
	nvar  int
	lists map[string]string
	ints  bool
}

func newProgram() *program {
	return &program{pool: []byte{0xEE, 0x80, 0x41}, lists: map[string]string{}}
}

func (p *program) loc(b []byte) string {
	off := len(p.pool)
	p.pool = append(p.pool, b...)
	return fmt.Sprintf("loc{%d, %d}", off, len(b))
}

func (p *program) fresh(prefix string) string {
	p.nvar++
	return fmt.Sprintf("%s%d", prefix, p.nvar)
}

// intList returns the name of a shared []int variable.
func (p *program) intList(xs []int) string {
	k := ji(xs)
	if n, ok := p.lists[k]; ok {
		return n
	}
	n := p.fresh("il")
	p.lists[k] = n
	p.decls = append(p.decls, fmt.Sprintf("var %s = []int{%s}\n", n, csv(xs)))
	return n
}

func (p *program) source() gjs.Prog {
	var b strings.Builder
	b.WriteString(progRuntime)
	b.WriteString("\nfunc init() {\n\tpool = []byte{")
	for i, x := range p.pool {
		if i > 0 {
			b.WriteString(",")
		}
		if i%32 == 31 {
			b.WriteString("\n\t\t")
		}
		b.WriteString(strconv.Itoa(int(x)))
	}
	b.WriteString("}\n}\n\n")
	for _, d := range p.decls {
		b.WriteString(d)
	}
	b.WriteString("\nfunc main() {\n")
	for _, c := range p.calls {
		b.WriteString("\t" + c + "\n")
	}
	b.WriteString("}\n")
	return gjs.Prog{Files: map[string]string{"main.go": b.String()}}
}

func (p *program) expected() string {
	var b strings.Builder
	for _, e := range p.exp {
		b.WriteString(e.want)
		b.WriteByte('\n')
	}
	return b.String()
}

// goLit renders a byte string as a Go string literal; the variant picks one of
// the literal syntaxes (all denote exactly the bytes of s).
func goLit(s []byte, variant uint32) string {
	switch variant % 3 {
	case 0:
		// interpreted literal with UTF-8 text for printable runes, \x for invalid bytes
		return strconv.Quote(string(s))
	case 1:
		// \u / \U escapes for valid non-ASCII runes
		return strconv.QuoteToASCII(string(s))
	default:
		// every byte that is not an ASCII letter or digit as \xNN or \NNN
		var b strings.Builder
		b.WriteByte('"')
		for i, c := range s {
			switch {
			case c >= '0' && c <= '9' || c >= 'a' && c <= 'z' || c >= 'A' && c <= 'Z':
				b.WriteByte(c)
			case i%2 == 0:
				fmt.Fprintf(&b, `\x%02x`, c)
			default:
				fmt.Fprintf(&b, `\%03o`, c)
			}
		}
		b.WriteByte('"')
		return b.String()
	}
}

// csv joins without the "-" marker for the empty list.
func csv(xs []int) string {
	if len(xs) == 0 {
		return ""
	}
	return ji(xs)
}

func csvb(xs []byte) string {
	if len(xs) == 0 {
		return ""
	}
	return jb(xs)
}

func hash32(b []byte, salt int) uint32 {
	h := fnv.New32a()
	h.Write(b)
	h.Write([]byte{byte(salt)})
	return h.Sum32()
}

func hexs(b []byte) string {
	if len(b) == 0 {
		return `""`
	}
	var sb strings.Builder
	sb.WriteByte('"')
	for _, c := range b {
		fmt.Fprintf(&sb, `\x%02x`, c)
	}
	sb.WriteByte('"')
	return sb.String()
}

// ---- str / rand ---------------------------------------------------------------

func (p *program) addStr(cases []*strCase) {
	if len(cases) == 0 {
		return
	}
	name := p.fresh("strs")
	var b strings.Builder
	fmt.Fprintf(&b, "var %s = []sc{\n", name)
	for _, c := range cases {
		c := c
		var ix, prs, bnd []int
		flag := func(b bool) int {
			if b {
				return 1
			}
			return 0
		}
		for _, x := range c.ix {
			ix = append(ix, x[0], flag(x[1] < 0))
		}
		for _, x := range c.sl {
			prs = append(prs, x.lo, x.hi, flag(x.panics))
		}
		for i, x := range c.slo {
			bnd = append(bnd, x.b, flag(x.panics), flag(c.shi[i].panics))
		}
		fmt.Fprintf(&b, "\t{%s, %s, %s, %s, %s},\n", goLit(c.s, hash32(c.s, 0)), p.loc(c.s), p.intList(ix), p.intList(prs), p.intList(bnd))
		desc := "string " + hexs(c.s)
		key := c.class + ":" + string(c.s)
		rp := func() *program { q := newProgram(); q.addStr([]*strCase{c}); return q }
		mk := func(kind, src, want string) expLine {
			return expLine{want: want, kind: kind, src: src, desc: desc, key: key + ":" + kind, sc: c, replay: rp}
		}
		p.exp = append(p.exp,
			mk("a", "lit", c.lineA()), mk("a", "rt", c.lineA()),
			mk("r", "lit", c.lineB()), mk("r", "rt", c.lineB()),
			mk("x", "lit", c.lineC()), mk("x", "rt", c.lineC()),
			mk("e", "both", c.lineD()))
	}
	b.WriteString("}\n")
	p.decls = append(p.decls, b.String())
	p.calls = append(p.calls, fmt.Sprintf("runStr(%s)", name))
}

// sameBounds checks that s[lo:] and s[:hi] were enumerated over the same bounds
// (the program uses one list for both).
func (c *strCase) sameBounds() bool {
	if len(c.slo) != len(c.shi) {
		return false
	}
	for i := range c.slo {
		if c.slo[i].b != c.shi[i].b {
			return false
		}
	}
	return true
}

// ---- key sets -----------------------------------------------------------------

func (p *program) addGrp(gs []*grpCase) {
	if len(gs) == 0 {
		return
	}
	name := p.fresh("grps")
	var tab strings.Builder
	fmt.Fprintf(&tab, "var %s = []grp{\n", name)
	for _, g := range gs {
		g := g
		m, sw := p.fresh("gm"), p.fresh("gs")
		var b strings.Builder
		fmt.Fprintf(&b, "var %s = map[string]int{", m)
		for i, k := range g.keys {
			fmt.Fprintf(&b, "%s: %d, ", goLit(k, hash32(k, 1)), i)
		}
		b.WriteString("}\n")
		fmt.Fprintf(&b, "func %s(x string) int {\n\tswitch x {\n", sw)
		for i, k := range g.keys {
			fmt.Fprintf(&b, "\tcase %s:\n\t\treturn %d\n", goLit(k, hash32(k, 2)), i)
		}
		b.WriteString("\t}\n\treturn -1\n}\n")
		p.decls = append(p.decls, b.String())
		var lits, keys, probes []string
		for _, k := range g.keys {
			lits = append(lits, goLit(k, hash32(k, 3)))
			keys = append(keys, p.loc(k))
		}
		for _, pr := range g.probes {
			probes = append(probes, p.loc(pr.p))
		}
		fmt.Fprintf(&tab, "\t{%s, %s, []string{%s}, []loc{%s}, []loc{%s}},\n", m, sw, strings.Join(lits, ", "), strings.Join(keys, ", "), strings.Join(probes, ", "))
		desc := "key set with prefix " + hexs(g.keys[0])
		key := "grp:" + string(g.keys[0])
		rp := func() *program { q := newProgram(); q.addGrp([]*grpCase{g}); return q }
		p.exp = append(p.exp,
			expLine{want: g.lineM(), kind: "m", desc: desc, key: key + ":m", replay: rp},
			expLine{want: g.lineDyn(), kind: "d", desc: desc, key: key + ":d", replay: rp})
	}
	tab.WriteString("}\n")
	p.decls = append(p.decls, tab.String())
	p.calls = append(p.calls, fmt.Sprintf("runGrp(%s)", name))
}

// ---- pairs --------------------------------------------------------------------

func (p *program) addPairs(sample [][]byte, resOf func(a, b []byte) (pairRes, bool)) error {
	if len(sample) == 0 {
		return nil
	}
	name := p.fresh("smp")
	var b strings.Builder
	fmt.Fprintf(&b, "var %s = []ps{\n", name)
	for _, s := range sample {
		fmt.Fprintf(&b, "\t{%s, %s},\n", goLit(s, hash32(s, 4)), p.loc(s))
	}
	b.WriteString("}\n")
	p.decls = append(p.decls, b.String())
	p.calls = append(p.calls, fmt.Sprintf("runPair(%s)", name))
	for _, a := range sample {
		for _, bb := range sample {
			a, bb := a, bb
			r, ok := resOf(a, bb)
			if !ok {
				return fmt.Errorf("no TLC record for the pair %s %s", hexs(a), hexs(bb))
			}
			p.exp = append(p.exp, expLine{want: pairLine(r), kind: "p", desc: "pair " + hexs(a) + " , " + hexs(bb), key: "pair:" + hexs(a) + hexs(bb),
				replay: func() *program {
					q := newProgram()
					q.addPairs([][]byte{a, bb}, resOf)
					return q
				}})
		}
	}
	return nil
}

// ---- runes --------------------------------------------------------------------

func (p *program) addRunePairs(runes []int, resOf func(r1, r2 int) (*runePair, bool)) error {
	if len(runes) == 0 {
		return nil
	}
	name := p.fresh("rns")
	p.decls = append(p.decls, fmt.Sprintf("var %s = []rune{%s}\n", name, csv(runes)))
	p.calls = append(p.calls, fmt.Sprintf("runRunes(%s)", name))
	for _, r1 := range runes {
		for _, r2 := range runes {
			r1, r2 := r1, r2
			r, ok := resOf(r1, r2)
			if !ok {
				return fmt.Errorf("no TLC record for the runes %d %d", r1, r2)
			}
			p.exp = append(p.exp, expLine{want: r.line(), kind: "q", desc: fmt.Sprintf("runes %#x %#x", r1, r2), key: fmt.Sprintf("runes:%d,%d", r1, r2),
				replay: func() *program {
					q := newProgram()
					q.addRunePairs([]int{r1, r2}, resOf)
					return q
				}})
		}
	}
	return nil
}

// intTypes: Go integer types in section order, their width and signedness;
// int/uint/uintptr are used only for values of 32 bits (documented width).
var intTypes = []struct {
	name   string
	bits   uint
	signed bool
}{
	{"int32", 32, true}, {"rune", 32, true}, {"int64", 64, true}, {"uint32", 32, false}, {"uint64", 64, false},
	{"int16", 16, true}, {"uint16", 16, false}, {"int8", 8, true}, {"uint8", 8, false},
	{"int", 32, true}, {"uint", 32, false}, {"uintptr", 32, false},
}

func limbsUnsigned(l [4]int) *big.Int {
	v := new(big.Int)
	for i := 3; i >= 0; i-- {
		v.Lsh(v, 16)
		v.Or(v, big.NewInt(int64(l[i])))
	}
	return v
}

func fits(v *big.Int, bits uint, signed bool) bool {
	if signed {
		lim := new(big.Int).Lsh(big.NewInt(1), bits-1)
		return v.Cmp(new(big.Int).Neg(lim)) >= 0 && v.Cmp(lim) < 0
	}
	return v.Sign() >= 0 && v.Cmp(new(big.Int).Lsh(big.NewInt(1), bits)) < 0
}

func (p *program) addInts(cases []*intCase) {
	if len(cases) == 0 {
		return
	}
	tables := map[string][]string{}
	fn := p.fresh("runInts")
	var body strings.Builder
	fmt.Fprintf(&body, "func %s() {\n", fn)
	for _, c := range cases {
		c := c
		u := limbsUnsigned(c.limbs)
		s := new(big.Int).Set(u)
		if c.limbs[3] >= 0x8000 {
			s.Sub(s, new(big.Int).Lsh(big.NewInt(1), 64))
		}
		var secsCode, types []string
		for _, t := range intTypes {
			v := u
			if t.signed {
				v = s
			}
			if !fits(v, t.bits, t.signed) {
				continue
			}
			tab := "v_" + t.name
			tables[t.name] = append(tables[t.name], v.String())
			secsCode = append(secsCode, fmt.Sprintf("bl(string(%s[%d]))", tab, len(tables[t.name])-1))
			types = append(types, t.name)
		}
		fmt.Fprintf(&body, "\tprintln(tryS(func() string { return \"i \" + sec(%s) }))\n", strings.Join(secsCode, ", "))
		var want []string
		for range types {
			want = append(want, jb(c.want))
		}
		p.exp = append(p.exp, expLine{want: "i " + secs(want...), kind: "i", desc: fmt.Sprintf("string(x) for x = %s (unsigned image %s)", s, u), key: "int:" + u.String(),
			secTypes: types, limbs: c.limbs,
			replay: func() *program { q := newProgram(); q.addInts([]*intCase{c}); return q }})
	}
	body.WriteString("}\n")
	var b strings.Builder
	for _, t := range intTypes {
		if vs := tables[t.name]; len(vs) > 0 {
			fmt.Fprintf(&b, "var v_%s = []%s{%s}\n", t.name, t.name, strings.Join(vs, ", "))
		}
	}
	// one table set per program: addInts is called once per program
	p.decls = append(p.decls, b.String(), body.String())
	p.calls = append(p.calls, fn+"()")
}

// ---- long strings -------------------------------------------------------------

func (p *program) addLong(ls []*longCase) {
	if len(ls) == 0 {
		return
	}
	name := p.fresh("lgs")
	var b strings.Builder
	fmt.Fprintf(&b, "var %s = []lg{\n", name)
	for _, l := range ls {
		l := l
		var offs, prs []int
		for _, o := range l.offs {
			offs = append(offs, o[0])
		}
		for _, pr := range l.pairs {
			prs = append(prs, pr[0], pr[1])
		}
		fmt.Fprintf(&b, "\t{%d, []byte{%s}, %s, %s},\n", l.n, csvb(l.pat), p.intList(offs), p.intList(prs))
		p.exp = append(p.exp, expLine{want: l.line(), kind: "l", desc: fmt.Sprintf("string of %d bytes repeating %s", l.n, hexs(l.pat)), key: fmt.Sprintf("long:%d:%s", l.n, l.pat), lc: l,
			replay: func() *program { q := newProgram(); q.addLong([]*longCase{l}); return q }})
	}
	b.WriteString("}\n")
	p.decls = append(p.decls, b.String())
	p.calls = append(p.calls, fmt.Sprintf("runLong(%s)", name))
}
