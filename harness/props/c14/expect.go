package c14

import (
	"encoding/json"
	"fmt"
	"strconv"
	"strings"
)

// ---- decoded TLC records ----------------------------------------------------

type slRes struct {
	lo, hi int
	res    []byte
	panics bool
}

type bRes struct {
	b      int
	res    []byte
	panics bool
}

// strCase is one record of StrCase in Utf8Scen.tla.
type strCase struct {
	class string // str | rand
	s     []byte
	rng   [][2]int
	runes []int
	rt    []byte
	ix    [][2]int // probe, byte or -1 (panic)
	sl    []slRes
	slo   []bRes
	shi   []bRes
	cp2n  int
	cp2   []byte
	cp5n  int
	cp5   []byte
	app   []byte
	valid int
	cmp   int
	bytes []byte
}

type probe struct {
	p   []byte
	idx int // 0-based index of the selected key, -1 = none
}

type grpCase struct {
	keys   [][]byte
	probes []probe
	card   int
}

type pairRes struct {
	cmp int
	cat []byte
}

type intCase struct {
	limbs [4]int
	want  []byte
}

type runePair struct {
	rs    [2]int
	bytes []byte
	runes []int
}

type longCase struct {
	n     int
	pat   []byte
	slen  int
	offs  [][]int // offset, byte|-1 [, rune, width]
	pairs [][]int // lo, hi, digest...
}

func num(v any) int {
	f, ok := v.(float64)
	if !ok {
		panic(fmt.Sprintf("c14: number expected, got %T %v", v, v))
	}
	return int(f)
}

func seq(v any) []any {
	a, ok := v.([]any)
	if !ok {
		panic(fmt.Sprintf("c14: array expected, got %T %v", v, v))
	}
	return a
}

func ints(v any) []int {
	a := seq(v)
	out := make([]int, len(a))
	for i, x := range a {
		out[i] = num(x)
	}
	return out
}

func bytesOf(v any) []byte {
	a := seq(v)
	out := make([]byte, len(a))
	for i, x := range a {
		n := num(x)
		if n < 0 || n > 255 {
			panic(fmt.Sprintf("c14: byte expected, got %d", n))
		}
		out[i] = byte(n)
	}
	return out
}

// resBytes decodes a slice result: [-1] = panic.
func resBytes(v any) ([]byte, bool) {
	a := seq(v)
	if len(a) == 1 && num(a[0]) == -1 {
		return nil, true
	}
	return bytesOf(v), false
}

func decodeStrCase(class string, v any) *strCase {
	a := seq(v)
	if len(a) != 14 {
		panic(fmt.Sprintf("c14: StrCase with %d fields", len(a)))
	}
	c := &strCase{class: class, s: bytesOf(a[0]), runes: ints(a[2]), rt: bytesOf(a[3]), app: bytesOf(a[10]), valid: num(a[11]), cmp: num(a[12]), bytes: bytesOf(a[13])}
	for _, x := range seq(a[1]) {
		p := ints(x)
		c.rng = append(c.rng, [2]int{p[0], p[1]})
	}
	for _, x := range seq(a[4]) {
		p := ints(x)
		c.ix = append(c.ix, [2]int{p[0], p[1]})
	}
	for _, x := range seq(a[5]) {
		t := seq(x)
		r, pn := resBytes(t[2])
		c.sl = append(c.sl, slRes{num(t[0]), num(t[1]), r, pn})
	}
	for _, x := range seq(a[6]) {
		t := seq(x)
		r, pn := resBytes(t[1])
		c.slo = append(c.slo, bRes{num(t[0]), r, pn})
	}
	for _, x := range seq(a[7]) {
		t := seq(x)
		r, pn := resBytes(t[1])
		c.shi = append(c.shi, bRes{num(t[0]), r, pn})
	}
	cp := seq(a[8])
	c.cp2n, c.cp2 = num(cp[0]), bytesOf(cp[1])
	cp = seq(a[9])
	c.cp5n, c.cp5 = num(cp[0]), bytesOf(cp[1])
	return c
}

func decodeGrp(v any) *grpCase {
	a := seq(v)
	g := &grpCase{card: num(a[2])}
	for _, k := range seq(a[0]) {
		g.keys = append(g.keys, bytesOf(k))
	}
	for _, p := range seq(a[1]) {
		t := seq(p)
		g.probes = append(g.probes, probe{bytesOf(t[0]), num(t[1])})
	}
	return g
}

func decodeLong(v any) *longCase {
	a := seq(v)
	l := &longCase{n: num(a[0]), pat: bytesOf(a[1]), slen: num(a[2])}
	for _, o := range seq(a[3]) {
		l.offs = append(l.offs, ints(o))
	}
	for _, p := range seq(a[4]) {
		t := seq(p)
		l.pairs = append(l.pairs, append([]int{num(t[0]), num(t[1])}, ints(t[2])...))
	}
	return l
}

// decodeLine undoes the double encoding of CSVWrite + ToJson.
func decodeLine(raw json.RawMessage) (any, error) {
	var inner string
	if err := json.Unmarshal(raw, &inner); err != nil {
		return nil, err
	}
	var v any
	if err := json.Unmarshal([]byte(inner), &v); err != nil {
		return nil, err
	}
	return v, nil
}

// ---- expected lines ----------------------------------------------------------

func jb(b []byte) string {
	if len(b) == 0 {
		return "-"
	}
	var sb strings.Builder
	for i, x := range b {
		if i > 0 {
			sb.WriteByte(',')
		}
		sb.WriteString(strconv.Itoa(int(x)))
	}
	return sb.String()
}

func ji(b []int) string {
	if len(b) == 0 {
		return "-"
	}
	var sb strings.Builder
	for i, x := range b {
		if i > 0 {
			sb.WriteByte(',')
		}
		sb.WriteString(strconv.Itoa(x))
	}
	return sb.String()
}

func secs(parts ...string) string {
	for i, p := range parts {
		if p == "" {
			parts[i] = "-"
		}
	}
	return strings.Join(parts, " | ")
}

func res(b []byte, panics bool) string {
	if panics {
		return "P"
	}
	return jb(b)
}

// ops6 renders == != < <= > >= for a three-way comparison result.
func ops6(cmp int) string {
	b := func(x bool) string {
		if x {
			return "1"
		}
		return "0"
	}
	return b(cmp == 0) + "," + b(cmp != 0) + "," + b(cmp < 0) + "," + b(cmp <= 0) + "," + b(cmp > 0) + "," + b(cmp >= 0)
}

func (c *strCase) lineA() string {
	idx := jb(c.s) // Index(s, i) = s[i+1] for the offsets in range
	return "a " + secs(strconv.Itoa(len(c.s)), idx, idx, idx, jb(c.bytes), jb(c.bytes), jb(c.app),
		strconv.Itoa(c.cp2n)+","+jb(c.cp2), strconv.Itoa(c.cp5n)+","+jb(c.cp5), jb(c.bytes), jb(c.bytes))
}

func (c *strCase) lineB() string {
	var flat, keys []int
	for _, p := range c.rng {
		flat = append(flat, p[0], p[1])
		keys = append(keys, p[0])
	}
	u := strconv.Itoa(len(c.runes)) + "," + strconv.Itoa(c.valid)
	if len(c.s) > 0 {
		w := len(c.s)
		if len(c.rng) > 1 {
			w = c.rng[1][0]
		}
		u += "," + strconv.Itoa(c.rng[0][1]) + "," + strconv.Itoa(w)
	}
	return "r " + secs(ji(flat), ji(keys), strconv.Itoa(len(c.rng)), ji(c.runes), jb(c.rt), u, ji(c.runes), jb(c.rt))
}

func (c *strCase) lineC() string {
	var a, b, d, e, f []string
	for _, p := range c.ix {
		v := "P"
		if p[1] >= 0 {
			v = strconv.Itoa(p[1])
		}
		a = append(a, strconv.Itoa(p[0])+"="+v)
		b = append(b, "L"+strconv.Itoa(p[0])+"="+v)
	}
	for _, s := range c.sl {
		d = append(d, fmt.Sprintf("%d:%d=%s", s.lo, s.hi, res(s.res, s.panics)))
	}
	for _, s := range c.slo {
		e = append(e, fmt.Sprintf("%d:=%s", s.b, res(s.res, s.panics)))
	}
	for _, s := range c.shi {
		f = append(f, fmt.Sprintf(":%d=%s", s.b, res(s.res, s.panics)))
	}
	return "x " + secs(strings.Join(a, " "), strings.Join(b, " "), strings.Join(d, " "), strings.Join(e, " "), strings.Join(f, " "))
}

func (c *strCase) lineD() string {
	n := strconv.Itoa(len(c.s))
	return "e " + secs(ops6(c.cmp), ops6(c.cmp), n+","+n+","+n)
}

func (g *grpCase) lineM() string {
	var t []string
	for _, p := range g.probes {
		i := strconv.Itoa(p.idx)
		t = append(t, i+","+i)
	}
	return "m " + secs(strings.Join(t, " "), strconv.Itoa(g.card))
}

func (g *grpCase) lineDyn() string {
	// the first len(keys) probes are the keys themselves
	var t []string
	for i := range g.keys {
		t = append(t, strconv.Itoa(g.probes[i].idx))
	}
	return "d " + secs(strconv.Itoa(g.card), strings.Join(t, " "))
}

func pairLine(ab pairRes) string {
	return "p " + secs(ops6(ab.cmp), ops6(ab.cmp), jb(ab.cat), strconv.Itoa(len(ab.cat)))
}

func (r *runePair) line() string {
	return "q " + secs(jb(r.bytes), ji(r.runes), jb(r.bytes))
}

func (l *longCase) line() string {
	var a, b []string
	for _, o := range l.offs {
		if o[1] < 0 {
			a = append(a, fmt.Sprintf("%d=P", o[0]))
		} else {
			a = append(a, fmt.Sprintf("%d=%d,%d,%d", o[0], o[1], o[2], o[3]))
		}
	}
	for _, p := range l.pairs {
		d := p[2:]
		switch {
		case len(d) == 1 && d[0] == -1:
			b = append(b, fmt.Sprintf("%d:%d=P", p[0], p[1]))
		case len(d) == 1:
			b = append(b, fmt.Sprintf("%d:%d=0", p[0], p[1]))
		default:
			b = append(b, fmt.Sprintf("%d:%d=%d,%d,%d", p[0], p[1], d[0], d[1], d[2]))
		}
	}
	return "l " + secs(strconv.Itoa(l.slen), strings.Join(a, " "), strings.Join(b, " "))
}
