package c12

import (
	"fmt"
	"strings"
)

// The records of spec/Overlay.tla (decoded from the JSON OverlayScen writes).
type specT struct {
	Ns []string `json:"ns"`
	F  string   `json:"f"`
	D  string   `json:"d"`
	U  string   `json:"u"`
}

type declT struct {
	K     string  `json:"k"`
	D     string  `json:"d"`
	N     string  `json:"n"`
	R     string  `json:"r"`
	Rk    string  `json:"rk"`
	U     string  `json:"u"`
	Su    string  `json:"su"`
	G     bool    `json:"g"`
	Specs []specT `json:"specs"`
}

type sideT struct {
	Bl    bool    `json:"bl"`
	Decls []declT `json:"decls"`
}

// itemT is one element of Overlay!Merged.
type itemT struct {
	K    string `json:"k"`
	Key  string `json:"key"`
	Sig  int    `json:"sig"`
	Body int    `json:"body"`
	Init int    `json:"init"`
	Ord  int    `json:"ord"`
}

type recT struct {
	Ok    bool    `json:"ok"`
	O     sideT   `json:"o"`
	V     sideT   `json:"v"`
	Ip    string  `json:"ip"`
	M     []itemT `json:"m"`
	Tc    bool    `json:"tc"`
	Alone bool    `json:"alone"`
	// Open: Overlay!SigImportsOpen, the overlay signature of an override-signature names an import
	// the original file does not have (unspecified: the imports of the original file and the type
	// check are not judged).
	Open bool `json:"open"`
}

func code(side, i, j, p int) int { return side*1000 + i*100 + j*10 + p }

func isFn(d *declT) bool { return d.K == "func" || d.K == "meth" || d.K == "lnk" }

// useExpr is the expression by which a body / an initialiser uses import class u.
func useExpr(u string, inValue bool) string {
	switch u {
	case "pl":
		return "p1.V"
	case "nm":
		return "q.V"
	case "dot":
		return "DotV"
	case "us":
		if inValue {
			return "int(unsafe.Sizeof(int8(0)))"
		}
		return "unsafe.Sizeof(int8(0))"
	case "sy":
		return "sync.Mutex{}"
	case "syn":
		return "s.Mutex{}"
	}
	return ""
}

// recvText renders the receiver of a method declaration.
func recvText(d *declT) string {
	switch d.Rk {
	case "val":
		return "r " + d.R
	case "ptr":
		return "r *" + d.R
	case "gen":
		return "r *" + d.R + "[T]"
	}
	return ""
}

// suClass mirrors Overlay!SuClass: the import class a signature use needs.
func suClass(su string) string {
	if su == "plr" || su == "plc" {
		return "pl"
	}
	return su
}

// sigParts renders the pieces of the signature of declaration d: type
// parameters, the extra parameter and the extra result by which the signature
// uses import d.Su.
func sigParts(d *declT) (tparams, param, result string) {
	if d.G {
		tparams = "T any"
		if d.Su == "plc" {
			tparams = "T p1.C"
		}
	}
	switch d.Su {
	case "pl":
		param = "y p1.T"
	case "plr":
		result = "z p1.T"
	case "nm":
		param = "y q.T"
	case "dot":
		param = "y DotT"
	case "us":
		param = "y unsafe.Pointer"
	case "sy":
		param = "y *sync.Mutex"
	case "syn":
		param = "y *s.Mutex"
	}
	return
}

// sigString is the canonical text of the signature of declaration d carrying
// marker m (the first parameter's name holds the marker, so that the
// provenance of a signature is observable after the merge): receiver, type
// parameters, parameters, results.  extract builds the same text from the AST.
func sigString(d *declT, m int) string {
	tp, par, res := sigParts(d)
	if d.N == "init" && d.K == "func" {
		return fmt.Sprintf("(%s)[%s]()()#%d", recvText(d), tp, m)
	}
	ps, rs := "x int32", "res int32"
	if par != "" {
		ps += ", " + par
	}
	if res != "" {
		rs += ", " + res
	}
	return fmt.Sprintf("(%s)[%s](%s)(%s)#%d", recvText(d), tp, ps, rs, m)
}

var directiveText = map[string]string{
	"keep":  "//gopherjs:keep-original",
	"purge": "//gopherjs:purge",
	"sig":   "//gopherjs:override-signature",
}

// importsOf derives the import classes of a side from what its declarations
// use (mirrors Overlay!ImportsBefore; a Go file imports what it uses).
func importsOf(s *sideT) []string {
	uses := map[string]bool{}
	lnk, emb := false, false
	for i := range s.Decls {
		d := &s.Decls[i]
		if isFn(d) {
			uses[d.U] = true
			uses[suClass(d.Su)] = true
			if d.K == "lnk" {
				lnk = true
			}
			continue
		}
		for _, sp := range d.Specs {
			uses[sp.U] = true
			if sp.F == "emb" {
				emb = true
			}
		}
	}
	var out []string
	for _, c := range []string{"pl", "nm", "dot", "sy", "syn"} {
		if uses[c] {
			out = append(out, c)
		}
	}
	if s.Bl {
		out = append(out, "bl")
	}
	if uses["us"] {
		out = append(out, "us")
	} else if lnk {
		out = append(out, "us_")
	}
	if uses["em"] {
		out = append(out, "em")
	} else if emb {
		out = append(out, "em_")
	}
	return out
}

var importText = map[string]string{
	"pl": `"vp/p1"`, "nm": `q "vp/p2"`, "dot": `. "vp/p4"`, "bl": `_ "vp/p3"`,
	"sy": `"sync"`, "syn": `s "sync"`, "us": `"unsafe"`, "us_": `_ "unsafe"`, "em": `"embed"`, "em_": `_ "embed"`,
}

// renderSide prints side s (number sn: 1 original, 2 overlay) as a Go file.
// style bit 0: imports in one parenthesised declaration; bit 1: a single spec
// without directive of its own is parenthesised too.
func renderSide(s *sideT, sn int, style int) string {
	var b strings.Builder
	b.WriteString("package pkg\n\n")
	imps := importsOf(s)
	if len(imps) > 0 {
		if style&1 != 0 {
			b.WriteString("import (\n")
			for _, c := range imps {
				b.WriteString("\t" + importText[c] + "\n")
			}
			b.WriteString(")\n\n")
		} else {
			for _, c := range imps {
				b.WriteString("import " + importText[c] + "\n")
			}
			b.WriteString("\n")
		}
	}
	for i := range s.Decls {
		d := &s.Decls[i]
		di := i + 1
		own := code(sn, di, 0, 0)
		if isFn(d) {
			renderFn(&b, d, own)
		} else {
			renderGen(&b, d, sn, di, style)
		}
		b.WriteString("\n")
	}
	return b.String()
}

func renderFn(b *strings.Builder, d *declT, own int) {
	head := "func "
	if d.K == "meth" {
		head += "(" + recvText(d) + ") "
	}
	head += d.N
	tp, par, res := sigParts(d)
	if tp != "" {
		head += "[" + tp + "]"
	}
	if d.N == "init" && d.K == "func" {
		head += "()"
	} else {
		// named results: the body fits every signature of the universe (override-signature keeps it)
		head += fmt.Sprintf("(x%d int32", own)
		if par != "" {
			head += ", " + par
		}
		head += ") (res int32"
		if res != "" {
			head += ", " + res
		}
		head += ")"
	}
	if d.K == "lnk" {
		link := fmt.Sprintf("//go:linkname %s vp/p1.f\n", d.N)
		if d.Rk == "float" {
			b.WriteString(link + "\n")
			if d.D != "" {
				b.WriteString(directiveText[d.D] + "\n")
			}
		} else {
			if d.D != "" {
				b.WriteString(directiveText[d.D] + "\n")
			}
			b.WriteString(link)
		}
		b.WriteString(head + "\n")
		return
	}
	if d.D != "" {
		b.WriteString(directiveText[d.D] + "\n")
	}
	if d.D == "sig" {
		b.WriteString(head + "\n")
		return
	}
	b.WriteString(head + " {\n")
	fmt.Fprintf(b, "\tm := int32(%d)\n", own)
	if e := useExpr(d.U, false); e != "" {
		b.WriteString("\t_ = " + e + "\n")
	}
	if d.D == "keep" {
		if d.K == "meth" {
			b.WriteString("\t_ = r._gopherjs_original_" + d.N + "\n")
		} else {
			b.WriteString("\t_ = _gopherjs_original_" + d.N + "\n")
		}
	}
	if d.N == "init" && d.K == "func" {
		b.WriteString("\t_ = m\n}\n")
	} else {
		b.WriteString("\tres = m\n\treturn\n}\n")
	}
}

func renderGen(b *strings.Builder, d *declT, sn, di, style int) {
	tok := d.K
	paren := len(d.Specs) > 1 || style&2 != 0
	for _, sp := range d.Specs {
		if sp.D != "" {
			paren = true
		}
	}
	if d.D != "" {
		b.WriteString(directiveText[d.D] + "\n")
	}
	if paren {
		b.WriteString(tok + " (\n")
	}
	for j := range d.Specs {
		sp := &d.Specs[j]
		sj := j + 1
		var lines []string
		if sp.D != "" {
			lines = append(lines, directiveText[sp.D])
		}
		if sp.F == "emb" {
			lines = append(lines, "//go:embed x.txt")
		}
		plus := ""
		if e := useExpr(sp.U, true); e != "" && sp.F != "emb" {
			plus = " + " + e
		}
		var text string
		switch {
		case d.K == "type":
			tp := ""
			if sp.F == "generic" {
				tp = "[T any]"
			}
			text = fmt.Sprintf("%s%s struct{ f%d int32 }", sp.Ns[0], tp, code(sn, di, sj, 0))
		case sp.F == "one":
			text = fmt.Sprintf("%s = %d%s", sp.Ns[0], code(sn, di, sj, 1), plus)
		case sp.F == "match":
			text = fmt.Sprintf("%s, %s = %d%s, %d%s", sp.Ns[0], sp.Ns[1], code(sn, di, sj, 1), plus, code(sn, di, sj, 2), plus)
		case sp.F == "call":
			text = fmt.Sprintf("%s, %s = h2(%d%s)", sp.Ns[0], sp.Ns[1], code(sn, di, sj, 0), plus)
		case sp.F == "typed":
			text = fmt.Sprintf("%s, %s [%d]int8", sp.Ns[0], sp.Ns[1], code(sn, di, sj, 0))
		case sp.F == "iota":
			if j == 0 {
				text = fmt.Sprintf("%s = iota + %d", sp.Ns[0], code(sn, di, 0, 0))
			} else {
				text = sp.Ns[0]
			}
		case sp.F == "emb":
			if sp.U == "em" {
				text = sp.Ns[0] + " embed.FS"
			} else {
				text = sp.Ns[0] + " string"
			}
		}
		if paren {
			for _, l := range lines {
				b.WriteString("\t" + l + "\n")
			}
			b.WriteString("\t" + text + "\n")
		} else {
			for _, l := range lines {
				b.WriteString(l + "\n")
			}
			b.WriteString(tok + " " + text + "\n")
		}
	}
	if paren {
		b.WriteString(")\n")
	}
}

const helperSrc = "package pkg\n\nfunc h2(x int) (int, int) { return x, x }\n"
