// Package c12 decides C12 (see DESIGN.md section 4). Not built yet.
package c12
