// Package c12 decides C12 (standard-library overlays merge exactly as the
// directives say).
//
// spec/Overlay.tla is the reference semantics of the documented merge
// (doc/pargma.md, comments of parseAndAugment / overrideInfo / pruneImports);
// spec/OverlayScen.tla makes TLC enumerate pairs (original side, overlay side)
// together with the predicted item set Merged and checks the theorems of the
// reference on every pair.  This package renders each pair as two Go files
// with provenance markers, parses them, runs the REAL augmentOverlayFile /
// augmentOriginalImports / augmentOriginalFile (build.VerifAugment), reads the
// item set back from the resulting ASTs and compares; when the reference says
// the pair is consistent the merged package must pass go/types.  Imports are
// used by function bodies, initialisers and SIGNATURES (parameter, result and
// constraint types of imported packages): the imports of both files after the
// merge are compared with the prediction (an import whose last use was a
// replaced signature goes, an import the new signature names stays).  A last phase
// merges every overlay package of compiler/natives with its GOROOT original
// and checks version-independent structural invariants.
//
// VERIF_REPLAY=<dir> re-decides the pair recorded in <dir>/scenario.json.
// VERIF_C12_CORRUPT=pred falsifies one predicted item (binding not vacuous).
package c12

import (
	"encoding/json"
	"fmt"
	"go/ast"
	"go/parser"
	"go/token"
	"go/types"
	"math/rand"
	"os"
	"path/filepath"
	"sort"
	"strings"
	"sync"
	"time"

	gbuild "github.com/gopherjs/gopherjs/build"

	"verif/core"
	"verif/gjs"
	"verif/reg"
	"verif/tlcx"
)

func init() { reg.Register("C12", "model_checking", Run) }

// ---------------------------------------------------------------- importer

var fakeSrc = map[string]string{
	"vp/p1":                               "package p1\nconst V = 0\ntype T struct{}\ntype C interface{ ~int32 | ~int64 }\nfunc f(x int32) int32 { return x }\n",
	"vp/p2":                               "package p2\nconst V = 0\ntype T struct{}\n",
	"vp/p3":                               "package p3\n",
	"vp/p4":                               "package p4\nconst DotV = 0\ntype DotT struct{}\n",
	"sync":                                "package sync\ntype Mutex struct{}\n",
	"github.com/gopherjs/gopherjs/nosync": "package nosync\ntype Mutex struct{}\n",
	"embed":                               "package embed\ntype FS struct{}\n",
}

type fakeImporter map[string]*types.Package

func (fi fakeImporter) Import(path string) (*types.Package, error) {
	if path == "unsafe" {
		return types.Unsafe, nil
	}
	if p, ok := fi[path]; ok {
		return p, nil
	}
	return nil, fmt.Errorf("package %q is not part of the scenario universe", path)
}

func newImporter() fakeImporter {
	fi := fakeImporter{}
	for path, src := range fakeSrc {
		fset := token.NewFileSet()
		f, err := parser.ParseFile(fset, "x.go", src, 0)
		if err != nil {
			panic(err)
		}
		p, err := (&types.Config{}).Check(path, fset, []*ast.File{f}, nil)
		if err != nil {
			panic(err)
		}
		fi[path] = p
	}
	return fi
}

var importers = sync.Pool{New: func() any { return newImporter() }}

func typeCheck(fset *token.FileSet, files []*ast.File) []string {
	fi := importers.Get().(fakeImporter)
	defer importers.Put(fi)
	var errs []string
	conf := types.Config{Importer: fi, Error: func(err error) { errs = append(errs, err.Error()) }}
	func() {
		defer func() {
			if r := recover(); r != nil {
				errs = append(errs, fmt.Sprintf("type checker panicked: %v", r))
			}
		}()
		conf.Check("pkg", fset, files, nil)
	}()
	return errs
}

// ---------------------------------------------------------------- one pair

type outcome struct {
	discard  string // non-empty: the guard disagrees with the specification / the rendering
	missing  []obsT
	extra    []obsT
	notes    []string
	tcErrs   []string
	panicMsg string
	origSrc  string
	ovlSrc   string
	merged   string
}

func parse(fset *token.FileSet, name, src string) (*ast.File, error) {
	return parser.ParseFile(fset, name, src, parser.ParseComments)
}

// decide renders, merges and compares one pair.
func decide(r *recT, style int) *outcome {
	oc := &outcome{origSrc: renderSide(&r.O, 1, style), ovlSrc: renderSide(&r.V, 2, style>>2)}
	fset := token.NewFileSet()
	// guard 1: the rendering of the original alone is a Go package exactly when the
	// specification says so, and merging it with no overlay is the identity
	{
		of, err := parse(fset, "orig.go", oc.origSrc)
		if err != nil {
			oc.discard = "rendered original does not parse: " + err.Error()
			return oc
		}
		hf, _ := parse(fset, "helper.go", helperSrc)
		errs := typeCheck(fset, []*ast.File{of, hf})
		if r.Alone != (len(errs) == 0) {
			oc.discard = fmt.Sprintf("original alone: specification says well-typed=%v, go/types: %v", r.Alone, errs)
			return oc
		}
	}
	of, _ := parse(fset, "orig.go", oc.origSrc)
	hf, _ := parse(fset, "helper.go", helperSrc)
	vf, err := parse(fset, "overlay.go", oc.ovlSrc)
	if err != nil {
		oc.discard = "rendered overlay does not parse: " + err.Error()
		return oc
	}
	var res []*ast.File
	func() {
		defer func() {
			if p := recover(); p != nil {
				oc.panicMsg = fmt.Sprint(p)
			}
		}()
		res = gbuild.VerifAugment(r.Ip, []*ast.File{of, hf}, []*ast.File{vf})
	}()
	if oc.panicMsg != "" {
		return oc
	}
	if len(res) != 3 || res[0] != vf || res[1] != of {
		oc.notes = append(oc.notes, fmt.Sprintf("VerifAugment returned %d files in an unexpected order", len(res)))
		return oc
	}
	obs := map[obsT]bool{}
	oc.notes = append(oc.notes, extract(vf, 2, obs)...)
	oc.notes = append(oc.notes, extract(of, 1, obs)...)
	pred := predicted(r)
	if r.Open {
		// unspecified: the overlay signature names an import the original file does not have
		for _, m := range []map[obsT]bool{pred, obs} {
			for o := range m {
				if o.K == "import" && o.Ord/1000 == 1 {
					delete(m, o)
				}
			}
		}
	}
	oc.missing, oc.extra = diff(pred, obs)
	if r.Tc {
		oc.tcErrs = typeCheck(fset, []*ast.File{vf, of, hf})
	}
	if len(oc.missing)+len(oc.extra)+len(oc.notes)+len(oc.tcErrs) > 0 {
		oc.merged = "// ---- overlay after merge\n" + printFile(fset, vf) + "\n// ---- original after merge\n" + printFile(fset, of)
	}
	return oc
}

func printFile(fset *token.FileSet, f *ast.File) (s string) {
	defer func() {
		if r := recover(); r != nil {
			s = fmt.Sprintf("(cannot print: %v)", r)
		}
	}()
	var b strings.Builder
	b.WriteString("package " + f.Name.Name + "\n")
	for _, d := range f.Decls {
		if d == nil {
			b.WriteString("<nil decl>\n")
			continue
		}
		b.WriteString(nodeString(fset, d) + "\n")
	}
	return b.String()
}

// ---------------------------------------------------------------- classification

// classify splits a rejected observation into parts, each with the classifier
// keys that fully explain it (no key: a new violation).
type part struct {
	keys    []string
	summary string
}

func findDecl(r *recT, tag int) *declT {
	side, di := tag/1000, tag/100%10
	s := &r.O
	if side == 2 {
		s = &r.V
	}
	if di < 1 || di > len(s.Decls) {
		return nil
	}
	return &s.Decls[di-1]
}

func classify(r *recT, oc *outcome) []part {
	var parts []part
	rest := []string{}
	iota, floatLnk := []string{}, []string{}
	overridden := func(name string) bool {
		for i := range r.V.Decls {
			d := &r.V.Decls[i]
			if isFn(d) {
				if d.K != "meth" && d.N == name {
					return true
				}
				continue
			}
			for _, sp := range d.Specs {
				for _, n := range sp.Ns {
					if n == name {
						return true
					}
				}
			}
		}
		return false
	}
	// original iota groups one of whose members the overlay overrides
	iotaNames := map[string]bool{}
	for i := range r.O.Decls {
		d := &r.O.Decls[i]
		if d.K == "const" && len(d.Specs) > 0 && d.Specs[0].F == "iota" {
			hit := false
			for _, sp := range d.Specs {
				if overridden(sp.Ns[0]) {
					hit = true
				}
			}
			if hit {
				for _, sp := range d.Specs {
					iotaNames[sp.Ns[0]] = true
				}
			}
		}
	}
	floating := map[string]bool{}
	for _, s := range []*sideT{&r.O, &r.V} {
		for i := range s.Decls {
			if s.Decls[i].K == "lnk" && s.Decls[i].Rk == "float" {
				floating[fmt.Sprintf("%d:linkname:%s", map[bool]int{true: 1, false: 2}[s == &r.O], s.Decls[i].N)] = true
			}
		}
	}
	floatSide := map[int]bool{}
	var unsafeGone []obsT
	handle := func(o obsT, what string) {
		switch {
		case o.K == "const" && o.Ord/1000 == 1 && iotaNames[o.Key]:
			iota = append(iota, what+" "+o.String())
		case what == "missing" && o.K == "directive" && floating[fmt.Sprintf("%d:%s", o.Ord/1000, o.Key)]:
			floatLnk = append(floatLnk, what+" "+o.String())
			floatSide[o.Ord/1000] = true
		case what == "missing" && o.K == "import" && o.Key == "unsafe|_":
			unsafeGone = append(unsafeGone, o)
		default:
			rest = append(rest, what+" "+o.String())
		}
	}
	for _, o := range oc.missing {
		handle(o, "missing")
	}
	for _, o := range oc.extra {
		handle(o, "unexpected")
	}
	for _, o := range unsafeGone {
		// with the directive gone the "unsafe" import that only served it is pruned as well
		if floatSide[o.Ord/1000] {
			floatLnk = append(floatLnk, "missing "+o.String())
		} else {
			rest = append(rest, "missing "+o.String())
		}
	}
	for _, n := range oc.notes {
		rest = append(rest, "malformed: "+n)
	}
	for _, e := range oc.tcErrs {
		switch {
		case len(iota) > 0 && (strings.Contains(e, "missing init expr") || strings.Contains(e, "missing constant value")):
			iota = append(iota, "type error: "+e)
		default:
			rest = append(rest, "type error: "+e)
		}
	}
	if len(iota) > 0 {
		parts = append(parts, part{[]string{"const_iota_group_member_removed"}, "a member of an implicit-repetition const group is overridden: the following members are renumbered (or lose their expression): " + strings.Join(iota, "; ")})
	}
	if len(floatLnk) > 0 {
		parts = append(parts, part{[]string{"floating_linkname_directive_dropped"}, "a //go:linkname directive that is not part of a doc comment is dropped when another declaration of its file is removed: " + strings.Join(floatLnk, "; ")})
	}
	if len(rest) > 0 {
		parts = append(parts, part{nil, strings.Join(rest, "; ")})
	}
	return parts
}

// ---------------------------------------------------------------- scenario generation

type pairDesc struct {
	Ob bool    `json:"ob"`
	Vb bool    `json:"vb"`
	Ip string  `json:"ip"`
	O  [][]any `json:"o"`
	V  [][]any `json:"v"`
}

// signature uses (Overlay!SigUses without ""), weighted
var sigUses = []string{"pl", "pl", "pl", "plr", "plc", "nm", "nm", "dot", "us", "us", "sy", "syn"}

// class indices into OverlayScen!ClassNames, weighted
var classNames = []string{"func", "meth", "lnk", "type1", "type2", "var1", "var2", "var3", "const1", "const2", "iota"}
var classWeights = []int{5, 5, 2, 4, 2, 5, 3, 1, 3, 2, 2}

func pickClass(rng *rand.Rand) int {
	tot := 0
	for _, w := range classWeights {
		tot += w
	}
	x := rng.Intn(tot)
	for i, w := range classWeights {
		if x < w {
			return i
		}
		x -= w
	}
	return 0
}

func pickLen(rng *rand.Rand) int {
	switch x := rng.Intn(20); {
	case x < 1:
		return 0
	case x < 7:
		return 1
	case x < 14:
		return 2
	default:
		return 3
	}
}

// genPair chooses one pair descriptor.  Signature uses are drawn from a small
// palette per pair (empty for a third of the pairs), so that an import whose
// only use is one signature, and an override-signature naming an import the
// original file has, are both frequent.
func genPair(rng *rand.Rand) pairDesc {
	d := pairDesc{Ob: rng.Intn(4) == 0, Vb: rng.Intn(4) == 0, Ip: "vp/pkg", O: [][]any{}, V: [][]any{}}
	if rng.Intn(3) == 0 {
		d.Ip = "math/rand"
	}
	var palette []string
	if rng.Intn(3) != 0 {
		palette = append(palette, sigUses[rng.Intn(len(sigUses))])
		if rng.Intn(2) == 0 {
			palette = append(palette, sigUses[rng.Intn(len(sigUses))])
		}
	}
	su := func(class int) string {
		if class > 2 || len(palette) == 0 || rng.Intn(5) < 2 {
			return ""
		}
		return palette[rng.Intn(len(palette))]
	}
	for n := pickLen(rng); n > 0; n-- {
		cl := pickClass(rng)
		d.O = append(d.O, []any{cl, rng.Intn(1 << 20), su(cl)})
	}
	for n := pickLen(rng); n > 0; n-- {
		cl := pickClass(rng)
		d.V = append(d.V, []any{cl, rng.Intn(1 << 20), rng.Intn(1 << 10), su(cl)})
	}
	return d
}

func setOf(xs ...string) string {
	q := make([]string, len(xs))
	for i, x := range xs {
		q[i] = fmt.Sprintf("%q", x)
	}
	return "{" + strings.Join(q, ", ") + "}"
}

type scenCfg struct {
	names, fu, vu, su, ips, classes []string
	bls                             string
	mode                            string
	maxo, maxv, nchunks             int
}

func (s scenCfg) text() string {
	return "SPECIFICATION Spec\nINVARIANT Thm\nINVARIANT Emit\nCHECK_DEADLOCK FALSE\nCONSTANTS\n" +
		"Names = " + setOf(s.names...) + "\nFU = " + setOf(s.fu...) + "\nVU = " + setOf(s.vu...) + "\nSU = " + setOf(s.su...) + "\nIps = " + setOf(s.ips...) +
		"\nMode = \"" + s.mode + "\"\nClasses = " + setOf(s.classes...) + "\nBls = " + s.bls +
		fmt.Sprintf("\nMaxO = %d\nMaxV = %d\nNChunks = %d\nOutFile = \"scen\"\n", s.maxo, s.maxv, s.nchunks)
}

// loadRecs decodes the files OverlayScen wrote.
func loadRecs(dir string) ([]*recT, int, error) {
	files, _ := filepath.Glob(filepath.Join(dir, "scen.*.ndjson"))
	sort.Strings(files)
	var recs []*recT
	invalid := 0
	for _, f := range files {
		err := tlcx.ReadNDJSON(f, func(raw json.RawMessage) error {
			var inner string
			if err := json.Unmarshal(raw, &inner); err != nil {
				return err
			}
			var batch []*recT
			if err := json.Unmarshal([]byte(inner), &batch); err != nil {
				return err
			}
			for _, r := range batch {
				if !r.Ok {
					invalid++
					continue
				}
				recs = append(recs, r)
			}
			return nil
		})
		if err != nil {
			return nil, 0, fmt.Errorf("%s: %v", f, err)
		}
	}
	return recs, invalid, nil
}

func canonical(r *recT) string {
	b, _ := json.Marshal([]any{r.O, r.V, r.Ip})
	return string(b)
}

// nontrivial: the overlay says something about the original (a key or a
// receiver type in common) or carries a directive.
func nontrivial(r *recT) bool {
	keys := map[string]bool{}
	for i := range r.O.Decls {
		d := &r.O.Decls[i]
		if isFn(d) {
			keys[d.R+"."+d.N] = true
			if d.K == "meth" {
				keys["."+d.R] = true
			}
		}
		for _, sp := range d.Specs {
			for _, n := range sp.Ns {
				keys["."+n] = true
			}
		}
	}
	for i := range r.V.Decls {
		d := &r.V.Decls[i]
		if d.D != "" {
			return true
		}
		if isFn(d) && keys[d.R+"."+d.N] {
			return true
		}
		for _, sp := range d.Specs {
			if sp.D != "" {
				return true
			}
			for _, n := range sp.Ns {
				if keys["."+n] {
					return true
				}
			}
		}
	}
	return false
}

// ---------------------------------------------------------------- Run

// Run is the C12 check.
func Run(c *core.Ctx, pool *gjs.Pool) {
	c.Assumef("the reference is the documentation: doc/pargma.md and the comments of parseAndAugment, overrideInfo and pruneImports (a method with an override of its own is not removed with its purged receiver type; a file left without declarations and without a linkname directive loses all imports, blank and dot ones included; dot and blank imports are otherwise never removed)")
	c.Assumef("a pair is consistent (must type-check after the merge) when every method has its receiver type with matching genericity, every keep-original function has a non-generic original to refer to, and a kept dot import is still used (Overlay!TypeChecks); go/types with a fixed importer for the seven packages of the universe is the judge")
	c.Assumef("imports needed by the overlay signature of an override-signature: the merged function stays in the original file, so the signature's imports must be imports of the original file; the documentation never says that imports are added or carried over from the overlay file, so a pair whose overlay signature names an import the original file lacks is UNSPECIFIED (Overlay!SigImportsOpen): the imports of its original file and its type check are not judged")
	c.Assumef("guard: the rendered original alone must be accepted/rejected by go/types exactly as Overlay!OrigAlone says; otherwise the pair is discarded")
	if rp := os.Getenv("VERIF_REPLAY"); rp != "" {
		replay(c, rp)
		return
	}
	rng := rand.New(rand.NewSource(c.Seed))
	var recs []*recT
	invalid := 0
	// TLC workers: 8 by default (VERIF_WORKERS=16), scaled down with VERIF_WORKERS on a shared machine
	tlcWorkers := c.Workers / 2
	if tlcWorkers > 8 {
		tlcWorkers = 8
	}
	if tlcWorkers < 1 {
		tlcWorkers = 1
	}
	runScen := func(name string, cfg scenCfg, files map[string]string) bool {
		r, err := tlcx.Run(c, tlcx.Opts{Module: "OverlayScen", Cfg: cfg.text(), Workers: tlcWorkers, Timeout: 40 * time.Minute, Files: files, HeapMB: 8192})
		if !tlcx.MustComplete(c, r, err, "OverlayScen ("+name+")") {
			return false
		}
		rs, inv, err := loadRecs(r.Dir)
		if err != nil {
			c.Infra(fmt.Errorf("decode scenarios: %v", err))
			return false
		}
		c.Set("pairs_"+name, len(rs))
		recs = append(recs, rs...)
		invalid += inv
		os.RemoveAll(r.Dir)
		return true
	}
	// 1. exhaustive product over a reduced universe
	full := scenCfg{names: []string{"A", "B"}, fu: []string{""}, vu: []string{""}, su: []string{"", "pl"}, ips: []string{"vp/pkg"}, bls: "{FALSE}", mode: "full",
		classes: []string{"func", "meth", "lnk", "type1", "var1", "const1", "iota"}, maxo: 1, maxv: 1}
	if c.Thorough() {
		full.fu, full.vu, full.su = []string{"", "pl", "us"}, []string{"", "pl"}, []string{"", "pl", "plr", "us"}
		full.classes = []string{"func", "meth", "lnk", "type1", "type2", "var1", "const1", "iota"}
	}
	if !runScen("full", full, nil) {
		return
	}
	c.Phase("tlc-full")
	// 1b. exhaustive product focused on functions, methods and their receiver types with TWO original
	// declarations: a file whose only change is a replaced signature / a rename / the purge of the last
	// user of an import, next to an untouched declaration that may or may not use the same import
	full2 := scenCfg{names: []string{"A"}, fu: []string{""}, vu: []string{""}, su: []string{"", "pl"}, ips: []string{"vp/pkg"}, bls: "{FALSE}", mode: "full",
		classes: []string{"func", "meth", "type1"}, maxo: 2, maxv: 1}
	if c.Thorough() {
		full2.fu, full2.su = []string{"", "pl"}, []string{"", "pl", "us"}
		full2.classes = []string{"func", "meth", "lnk", "type1"}
	}
	if !runScen("full2", full2, nil) {
		return
	}
	c.Phase("tlc-full2")
	// 1c. thorough only: every declaration class with TWO original declarations (signatures without
	// imported types: the product with signature uses is covered by 1a, 1b and the sample)
	full3 := scenCfg{names: []string{"A", "B"}, fu: []string{"", "pl", "us"}, vu: []string{"", "pl"}, su: []string{""}, ips: []string{"vp/pkg"}, bls: "{FALSE}", mode: "full",
		classes: []string{"func", "meth", "lnk", "type1", "type2", "var1", "const1", "iota"}, maxo: 2, maxv: 1}
	if c.Thorough() {
		if !runScen("full3", full3, nil) {
			return
		}
		c.Phase("tlc-full3")
	}
	// 2. seeded sample of the whole universe
	npairs := c.Pick(24000, 600000)
	if v := os.Getenv("VERIF_C12_PAIRS"); v != "" { // development aid: smaller sample
		fmt.Sscan(v, &npairs)
	}
	const perBatch, perChunk = 64, 40
	files := map[string]string{}
	nchunks := 0
	for done := 0; done < npairs; {
		var chunk [][]pairDesc
		for b := 0; b < perChunk && done < npairs; b++ {
			var batch []pairDesc
			for k := 0; k < perBatch && done < npairs; k++ {
				batch = append(batch, genPair(rng))
				done++
			}
			chunk = append(chunk, batch)
		}
		nchunks++
		j, _ := json.Marshal(chunk)
		files[fmt.Sprintf("c12_chunk_%d.json", nchunks)] = string(j)
	}
	all := []string{"", "pl", "nm", "dot", "us", "sy", "syn"}
	sample := scenCfg{names: []string{"A", "B", "C", "D"}, fu: all, vu: all[:5], su: []string{""}, ips: []string{"vp/pkg"}, bls: "{FALSE}", mode: "sample",
		classes: classNames, maxo: 3, maxv: 3, nchunks: nchunks}
	if !runScen("sample", sample, files) {
		return
	}
	c.Phase("tlc-sample")
	c.Set("checker_cmd", "tlc OverlayScen (INVARIANT Thm: OverlayAllIn, NoDupKeys, EmptyIsIdentity, Unrelated, OnlyInputs, ImportsExact (NoUnusedImport, NoMissingImport) on every pair; INVARIANT Emit), Mode=full (two universes, thorough: three) then Mode=sample")
	c.Set("exhaustive", false)
	c.Set("exhaustive_part", fmt.Sprintf("Mode=full: every pair of well-formed sides with <= %d original and <= %d overlay declarations over names %v, classes %v, body uses %v, signature uses %v; and the same with <= %d original and <= %d overlay declarations over names %v, classes %v, body uses %v, signature uses %v", full.maxo, full.maxv, full.names, full.classes, full.fu, full.su, full2.maxo, full2.maxv, full2.names, full2.classes, full2.fu, full2.su)+
		map[bool]string{false: "", true: fmt.Sprintf("; and with <= %d original and <= %d overlay declarations over names %v, classes %v, body uses %v, signature uses %v", full3.maxo, full3.maxv, full3.names, full3.classes, full3.fu, full3.su)}[c.Thorough()])
	c.Set("sample_descriptors", npairs)
	c.Set("sample_descriptors_not_wellformed", invalid)
	c.Set("rule", "TLC enumerates (a) the full product of well-formed sides over two (thorough: three) reduced universes and (b) VERIF_SEED-chosen pair descriptors over the 4-name universe (<= 3 declarations per side, every declaration class, directive variant, import use by a body / initialiser and import use by a signature: parameter, result or constraint type of an imported package); a case is one pair (original side, overlay side, import path); distinct = distinct pairs; non-trivial = the overlay shares a key or receiver type with the original or carries a directive")
	if os.Getenv("VERIF_C12_CORRUPT") == "pred" {
		for _, r := range recs {
			if len(r.M) > 0 && nontrivial(r) {
				r.M[0].Ord++
				break
			}
		}
	}
	decideAll(c, recs)
	c.Phase("replay")
	stdlib(c)
	c.Phase("stdlib")
}

// importFacts classifies a pair for the coverage counters: some signature uses
// an import; the pair is in the unspecified case; the original file keeps every
// one of its declarations (its only changes are replaced signatures / renames)
// and nevertheless loses an import.
func importFacts(r *recT) (sigUse, open, lost bool) {
	for _, s := range []*sideT{&r.O, &r.V} {
		for i := range s.Decls {
			if isFn(&s.Decls[i]) && s.Decls[i].Su != "" {
				sigUse = true
			}
		}
	}
	names := 0
	for i := range r.O.Decls {
		d := &r.O.Decls[i]
		if isFn(d) {
			names++
		}
		for _, sp := range d.Specs {
			names += len(sp.Ns)
		}
	}
	syms, imps := 0, 0
	for _, it := range r.M {
		if it.Ord/1000 != 1 {
			continue
		}
		switch it.K {
		case "import":
			imps++
		case "directive":
		default:
			syms++
		}
	}
	return sigUse, r.Open, syms == names && imps < len(importsOf(&r.O))
}

func decideAll(c *core.Ctx, recs []*recT) {
	seen := map[string]bool{}
	var uniq []*recT
	for _, r := range recs {
		k := canonical(r)
		if seen[k] {
			continue
		}
		seen[k] = true
		uniq = append(uniq, r)
		if nontrivial(r) {
			c.Distinct(k)
		}
		sigUse, open, lost := importFacts(r)
		if sigUse {
			c.Add("pairs_with_signature_import_use", 1)
		}
		if open {
			c.Add("pairs_unspecified_signature_import", 1)
		}
		if lost {
			c.Add("pairs_import_lost_without_any_removal", 1)
		}
	}
	c.Set("evaluations", len(uniq))
	nw := c.Workers
	type res struct {
		r  *recT
		oc *outcome
		st int
	}
	bad := make([][]res, nw)
	discards := make([]int, nw)
	tcs := make([]int, nw)
	c.ParMap(nw, func(w int) {
		for i := w; i < len(uniq); i += nw {
			r := uniq[i]
			style := i % 16
			oc := decide(r, style)
			if oc.discard != "" {
				discards[w]++
				if len(bad[w]) < 3 {
					bad[w] = append(bad[w], res{r, oc, style})
				}
				continue
			}
			if r.Tc {
				tcs[w]++
			}
			if oc.panicMsg != "" || len(oc.missing)+len(oc.extra)+len(oc.notes)+len(oc.tcErrs) > 0 {
				bad[w] = append(bad[w], res{r, oc, style})
			}
		}
	})
	nd, ntc := 0, 0
	for w := range discards {
		nd += discards[w]
		ntc += tcs[w]
	}
	c.Set("spec_guard_discards", nd)
	c.Set("traces_validated_against_impl", len(uniq)-nd)
	c.Set("pairs_type_checked", ntc)
	for _, bs := range bad {
		for _, b := range bs {
			sj, _ := json.MarshalIndent(b.r, "", " ")
			files := map[string]string{"scenario.json": string(sj) + "\n", "style.txt": fmt.Sprint(b.st) + "\n", "original.go": b.oc.origSrc, "overlay.go": b.oc.ovlSrc, "merged.txt": b.oc.merged}
			if b.oc.discard != "" {
				fmt.Printf("note: pair discarded by the guard: %s\n", b.oc.discard)
				if os.Getenv("VERIF_VERBOSE") != "" {
					fmt.Printf("%s\n%s\n", b.oc.origSrc, b.oc.ovlSrc)
				}
				continue
			}
			if b.oc.panicMsg != "" {
				c.Report(core.Case{Keys: nil, Summary: "the augmentation panicked: " + b.oc.panicMsg, Files: files})
				continue
			}
			for _, p := range classify(b.r, b.oc) {
				c.Report(core.Case{Keys: p.keys, Summary: "merged package differs from the documented merge: " + p.summary, Files: files})
			}
		}
	}
	for i := 0; i < len(uniq) && i < 5*997; i += 997 {
		r := uniq[i]
		c.Sample(map[string]any{"original": renderSide(&r.O, 1, 0), "overlay": renderSide(&r.V, 2, 0), "predicted_items": len(r.M), "must_type_check": r.Tc})
	}
}

func replay(c *core.Ctx, dir string) {
	b, err := os.ReadFile(filepath.Join(dir, "scenario.json"))
	if err != nil {
		c.Infra(err)
		return
	}
	var r recT
	if err := json.Unmarshal(b, &r); err != nil {
		c.Infra(err)
		return
	}
	style := 0
	if sb, err := os.ReadFile(filepath.Join(dir, "style.txt")); err == nil {
		fmt.Sscan(string(sb), &style)
	}
	c.Set("evaluations", 1)
	oc := decide(&r, style)
	if oc.discard != "" {
		fmt.Println("discarded by the guard:", oc.discard)
		c.Set("spec_guard_discards", 1)
		return
	}
	fmt.Print(oc.merged)
	if oc.panicMsg != "" {
		c.Report(core.Case{Summary: "the augmentation panicked: " + oc.panicMsg, Files: map[string]string{"scenario.json": string(b)}})
	}
	for _, p := range classify(&r, oc) {
		c.Report(core.Case{Keys: p.keys, Summary: "merged package differs from the documented merge: " + p.summary, Files: map[string]string{"scenario.json": string(b), "style.txt": fmt.Sprint(style) + "\n"}})
	}
}
