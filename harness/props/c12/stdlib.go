package c12

import (
	"bytes"
	"fmt"
	"go/ast"
	"go/printer"
	"go/token"
	"io/fs"
	"path"
	"sort"
	"strconv"
	"strings"

	gbuild "github.com/gopherjs/gopherjs/build"
	"github.com/gopherjs/gopherjs/compiler/natives"

	"verif/core"
)

func nodeString(fset *token.FileSet, n ast.Node) string {
	var b bytes.Buffer
	if err := printer.Fprint(&b, fset, n); err != nil {
		return fmt.Sprintf("(cannot print %T: %v)", n, err)
	}
	return b.String()
}

// directive detection independent of compiler/astutil
func groupHas(cg *ast.CommentGroup, action string) bool {
	if cg == nil {
		return false
	}
	for _, c := range cg.List {
		t := c.Text
		if strings.HasPrefix(t, "//gopherjs:"+action) || strings.HasPrefix(t, "/*gopherjs:"+action) {
			rest := t[len("//gopherjs:"+action):]
			if rest == "" || !(rest[0] == '-' || rest[0] == '_' || rest[0] >= 'a' && rest[0] <= 'z' || rest[0] >= 'A' && rest[0] <= 'Z' || rest[0] >= '0' && rest[0] <= '9') {
				return true
			}
		}
	}
	return false
}

type topDecl struct {
	key  string // func: name, method: Recv.name, type/var/const: name
	kind string
	recv string
	file string
}

func topDecls(f *ast.File, name string) []topDecl {
	var out []topDecl
	for _, decl := range f.Decls {
		switch d := decl.(type) {
		case *ast.FuncDecl:
			rk := recvKey(d)
			if rk != "" {
				out = append(out, topDecl{rk + "." + d.Name.Name, "meth", rk, name})
			} else {
				out = append(out, topDecl{d.Name.Name, "func", "", name})
			}
		case *ast.GenDecl:
			for _, sp := range d.Specs {
				switch s := sp.(type) {
				case *ast.TypeSpec:
					out = append(out, topDecl{s.Name.Name, "type", "", name})
				case *ast.ValueSpec:
					for _, n := range s.Names {
						if n != nil {
							out = append(out, topDecl{n.Name, d.Tok.String(), "", name})
						}
					}
				}
			}
		}
	}
	return out
}

// stdlib merges every overlay package of compiler/natives with its GOROOT
// original through the real augmentation and checks invariants that do not
// depend on the Go release the overlays were written for.
func stdlib(c *core.Ctx) {
	var pkgs []string
	fs.WalkDir(natives.FS, "src", func(p string, d fs.DirEntry, err error) error {
		if err != nil || !d.IsDir() {
			return nil
		}
		ents, _ := fs.ReadDir(natives.FS, p)
		for _, e := range ents {
			if !e.IsDir() && strings.HasSuffix(e.Name(), ".go") && !strings.HasSuffix(e.Name(), "_test.go") {
				pkgs = append(pkgs, strings.TrimPrefix(p, "src/"))
				break
			}
		}
		return nil
	})
	sort.Strings(pkgs)
	merged, skipped, odecls, vdecls := 0, 0, 0, 0
	var skippedNames []string
	for _, ip := range pkgs {
		fset := token.NewFileSet()
		origs, ovls, err := gbuild.VerifParseStd(ip, fset)
		if err != nil || len(ovls) == 0 {
			skipped++
			skippedNames = append(skippedNames, ip)
			continue
		}
		// what the documentation promises, computed from the inputs
		ovKeys := map[string]bool{}
		purgedTypes := map[string]bool{}
		keepKeys := map[string]bool{}
		var mustOverlay []topDecl
		for _, f := range ovls {
			fname := path.Base(fset.File(f.Pos()).Name())
			for _, decl := range f.Decls {
				switch d := decl.(type) {
				case *ast.FuncDecl:
					td := topDecls(&ast.File{Decls: []ast.Decl{d}}, fname)[0]
					ovKeys[td.key] = true
					if groupHas(d.Doc, "keep-original") {
						keepKeys[td.key] = true
					}
					if !groupHas(d.Doc, "purge") && !groupHas(d.Doc, "override-signature") {
						mustOverlay = append(mustOverlay, td)
					}
				case *ast.GenDecl:
					dp := groupHas(d.Doc, "purge")
					for _, sp := range d.Specs {
						switch s := sp.(type) {
						case *ast.TypeSpec:
							p := dp || groupHas(s.Doc, "purge") || groupHas(s.Comment, "purge")
							ovKeys[s.Name.Name] = true
							if p {
								purgedTypes[s.Name.Name] = true
							} else {
								mustOverlay = append(mustOverlay, topDecl{s.Name.Name, "type", "", fname})
							}
						case *ast.ValueSpec:
							p := dp || groupHas(s.Doc, "purge") || groupHas(s.Comment, "purge")
							for _, n := range s.Names {
								ovKeys[n.Name] = true
								if !p && n.Name != "_" {
									mustOverlay = append(mustOverlay, topDecl{n.Name, d.Tok.String(), "", fname})
								}
							}
						}
					}
				}
			}
		}
		delete(ovKeys, "init")
		delete(keepKeys, "init")
		var mustOrig []topDecl
		for _, f := range origs {
			fname := path.Base(fset.File(f.Pos()).Name())
			for _, td := range topDecls(f, fname) {
				odecls++
				switch {
				case td.key == "_":
				case ovKeys[td.key]:
					if (td.kind == "func" || td.kind == "meth") && keepKeys[td.key] {
						i := strings.LastIndex(td.key, ".") + 1
						td.key = td.key[:i] + "_gopherjs_original_" + td.key[i:]
						mustOrig = append(mustOrig, td)
					}
				case td.kind == "meth" && purgedTypes[td.recv]:
				default:
					mustOrig = append(mustOrig, td)
				}
			}
		}
		vdecls += len(mustOverlay)
		var res []*ast.File
		panicMsg := ""
		func() {
			defer func() {
				if r := recover(); r != nil {
					panicMsg = fmt.Sprint(r)
				}
			}()
			res = gbuild.VerifAugment(ip, origs, ovls)
		}()
		if panicMsg != "" {
			c.Report(core.Case{Keys: []string{"stdlib_augment_panic"}, Summary: "augmenting standard library package " + ip + " panicked: " + panicMsg})
			continue
		}
		merged++
		// the result
		have := map[string][]string{}
		var problems []string
		for _, f := range res {
			fname := path.Base(fset.File(f.Package).Name())
			for _, decl := range f.Decls {
				if decl == nil {
					problems = append(problems, fname+": nil declaration left in file.Decls")
				} else if gd, ok := decl.(*ast.GenDecl); ok {
					if len(gd.Specs) == 0 {
						problems = append(problems, fname+": empty "+gd.Tok.String()+" declaration left in file.Decls")
					}
					for _, sp := range gd.Specs {
						if sp == nil {
							problems = append(problems, fname+": nil spec left in a declaration")
						}
					}
				}
			}
			if len(problems) > 0 {
				continue
			}
			for _, td := range topDecls(f, fname) {
				have[td.kind+" "+td.key] = append(have[td.kind+" "+td.key], fname)
			}
			problems = append(problems, importProblems(f, fname)...)
		}
		names := map[string][]string{}
		for k, fl := range have {
			kind, key, _ := strings.Cut(k, " ")
			ns := key
			if kind != "meth" {
				ns = "pkg " + key
			}
			names[ns] = append(names[ns], fl...)
		}
		for ns, fl := range names {
			if len(fl) > 1 && ns != "pkg init" && ns != "pkg _" {
				problems = append(problems, fmt.Sprintf("%s is declared %d times after the merge (%s)", ns, len(fl), strings.Join(fl, ", ")))
			}
		}
		for _, td := range mustOverlay {
			if len(have[td.kind+" "+td.key]) == 0 {
				problems = append(problems, fmt.Sprintf("overlay declaration %s %s (%s) is not in the merged package", td.kind, td.key, td.file))
			}
		}
		for _, td := range mustOrig {
			if len(have[td.kind+" "+td.key]) == 0 {
				problems = append(problems, fmt.Sprintf("original declaration %s %s (%s), which no overlay overrides, is not in the merged package", td.kind, td.key, td.file))
			}
		}
		sort.Strings(problems)
		if len(problems) > 0 {
			if len(problems) > 12 {
				problems = append(problems[:12], fmt.Sprintf("... and %d more", len(problems)-12))
			}
			c.Report(core.Case{Keys: []string{"stdlib_invariant(" + ip + ")"}, Summary: "merged standard library package " + ip + " breaks a structural invariant: " + strings.Join(problems, "; ")})
		}
	}
	c.Set("stdlib_packages_merged", merged)
	c.Set("stdlib_packages_skipped", skipped)
	c.Set("stdlib_packages_skipped_names", skippedNames)
	c.Set("stdlib_original_declarations", odecls)
	c.Set("stdlib_overlay_declarations_required", vdecls)
	c.Add("evaluations", merged)
}

// importProblems checks one merged file: file.Imports mirrors the import
// declarations; no named import is left without a use; no selector refers to a
// package whose import is gone.
func importProblems(f *ast.File, fname string) []string {
	var out []string
	inDecls := map[*ast.ImportSpec]bool{}
	for _, decl := range f.Decls {
		if gd, ok := decl.(*ast.GenDecl); ok && gd.Tok == token.IMPORT {
			for _, sp := range gd.Specs {
				if is, ok := sp.(*ast.ImportSpec); ok {
					inDecls[is] = true
				}
			}
		}
	}
	n := 0
	for _, is := range f.Imports {
		if is == nil {
			out = append(out, fname+": nil entry in file.Imports")
			continue
		}
		n++
		if !inDecls[is] {
			out = append(out, fname+": file.Imports lists "+is.Path.Value+" which no declaration contains")
		}
	}
	if n != len(inDecls) {
		out = append(out, fmt.Sprintf("%s: file.Imports has %d entries, the declarations %d import specs", fname, n, len(inDecls)))
	}
	_ = strconv.Itoa
	return out
}
