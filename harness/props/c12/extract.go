package c12

import (
	"fmt"
	"go/ast"
	"go/token"
	"go/types"
	"sort"
	"strconv"
	"strings"
)

// obsT is an item in comparable form: the signature tag is replaced by the
// canonical signature text (sigString) so that receiver kind and type
// parameters take part in the comparison.
type obsT struct {
	K, Key, Sig     string
	Body, Init, Ord int
}

func (o obsT) String() string {
	return fmt.Sprintf("%s %s sig=%s body=%d init=%d ord=%d", o.K, o.Key, o.Sig, o.Body, o.Init, o.Ord)
}

// predicted converts Overlay!Merged into comparable form.
func predicted(r *recT) map[obsT]bool {
	out := map[obsT]bool{}
	for _, it := range r.M {
		o := obsT{K: it.K, Key: it.Key, Body: it.Body, Init: it.Init, Ord: it.Ord}
		switch it.K {
		case "func", "meth":
			side, di := it.Sig/1000, it.Sig/100%10
			src := &r.O
			if side == 2 {
				src = &r.V
			}
			if di < 1 || di > len(src.Decls) {
				o.Sig = "?"
			} else {
				o.Sig = sigString(&src.Decls[di-1], it.Sig)
			}
		case "type":
			o.Sig = strconv.Itoa(it.Sig)
		}
		out[o] = true
	}
	return out
}

func firstInt(n ast.Node) int {
	v := 0
	found := false
	ast.Inspect(n, func(x ast.Node) bool {
		if found {
			return false
		}
		if bl, ok := x.(*ast.BasicLit); ok && bl.Kind == token.INT {
			v, _ = strconv.Atoi(bl.Value)
			found = true
			return false
		}
		return true
	})
	return v
}

func trailingInt(s string) int {
	i := len(s)
	for i > 0 && s[i-1] >= '0' && s[i-1] <= '9' {
		i--
	}
	v, _ := strconv.Atoi(s[i:])
	return v
}

func recvKey(d *ast.FuncDecl) string {
	if d.Recv == nil || len(d.Recv.List) == 0 {
		return ""
	}
	t := d.Recv.List[0].Type
	for {
		switch x := t.(type) {
		case *ast.StarExpr:
			t = x.X
		case *ast.IndexExpr:
			t = x.X
		case *ast.IndexListExpr:
			t = x.X
		case *ast.ParenExpr:
			t = x.X
		case *ast.Ident:
			return x.Name
		default:
			return "?"
		}
	}
}

func hasPrefixComment(cg *ast.CommentGroup, prefix string) bool {
	if cg == nil {
		return false
	}
	for _, c := range cg.List {
		if strings.HasPrefix(c.Text, prefix) {
			return true
		}
	}
	return false
}

// extract reads the items of one merged file (side sn) back from its AST.
// Structural damage that cannot be expressed as an item is returned in notes.
func extract(f *ast.File, sn int, out map[obsT]bool) (notes []string) {
	defer func() {
		if r := recover(); r != nil {
			notes = append(notes, fmt.Sprintf("malformed AST: %v", r))
		}
	}()
	// imports, as the declarations list them
	declImports := map[*ast.ImportSpec]bool{}
	rank := 0
	for _, decl := range f.Decls {
		if decl == nil {
			notes = append(notes, "nil declaration left in file.Decls")
			continue
		}
		gd, isGen := decl.(*ast.GenDecl)
		if isGen && gd.Tok == token.IMPORT {
			for _, sp := range gd.Specs {
				is, ok := sp.(*ast.ImportSpec)
				if !ok || is == nil {
					notes = append(notes, "nil import spec left in a declaration")
					continue
				}
				declImports[is] = true
				p, _ := strconv.Unquote(is.Path.Value)
				name := ""
				if is.Name != nil {
					name = is.Name.Name
				}
				out[obsT{K: "import", Key: p + "|" + name, Ord: sn * 1000}] = true
			}
			if len(gd.Specs) == 0 {
				notes = append(notes, "empty import declaration left in file.Decls")
			}
			continue
		}
		rank++
		switch d := decl.(type) {
		case *ast.FuncDecl:
			o := obsT{K: "func", Key: d.Name.Name, Ord: code(sn, rank, 0, 0)}
			if d.Recv != nil && len(d.Recv.List) > 0 {
				o.K = "meth"
				o.Key = recvKey(d) + "." + d.Name.Name
			}
			m := 0
			if d.Type.Params != nil && len(d.Type.Params.List) > 0 && len(d.Type.Params.List[0].Names) > 0 {
				m = trailingInt(d.Type.Params.List[0].Names[0].Name)
			}
			if d.Recv == nil && (d.Name.Name == "init" || strings.HasSuffix(d.Name.Name, "_init")) {
				// init has no parameter to carry the marker: its signature is its own
				m = firstIntOrZero(d.Body)
			}
			o.Sig = fmt.Sprintf("(%s)[%s](%s)(%s)#%d", fieldsText(d.Recv, false), fieldsText(d.Type.TypeParams, false),
				fieldsText(d.Type.Params, true), fieldsText(d.Type.Results, false), m)
			if d.Body != nil {
				o.Body = firstInt(d.Body)
			}
			out[o] = true
		case *ast.GenDecl:
			if len(d.Specs) == 0 {
				notes = append(notes, "empty "+d.Tok.String()+" declaration left in file.Decls")
			}
			var lastVals []ast.Expr // for implicit repetition in const groups
			srank := 0
			for si, sp := range d.Specs {
				if sp == nil {
					notes = append(notes, "nil spec left in a declaration")
					continue
				}
				srank++
				switch s := sp.(type) {
				case *ast.TypeSpec:
					g := "0"
					if s.TypeParams != nil {
						g = "1"
					}
					body := 0
					if st, ok := s.Type.(*ast.StructType); ok && st.Fields != nil && len(st.Fields.List) > 0 && len(st.Fields.List[0].Names) > 0 {
						body = trailingInt(st.Fields.List[0].Names[0].Name)
					}
					out[obsT{K: "type", Key: s.Name.Name, Sig: g, Body: body, Ord: code(sn, rank, srank, 1)}] = true
				case *ast.ValueSpec:
					kind := "var"
					if d.Tok == token.CONST {
						kind = "const"
					}
					implicit := false
					vals := s.Values
					if kind == "const" && len(vals) == 0 && s.Type == nil {
						implicit = true
						vals = lastVals
					} else if kind == "const" {
						lastVals = vals
					}
					if hasPrefixComment(s.Doc, "//go:embed") || (len(d.Specs) == 1 && hasPrefixComment(d.Doc, "//go:embed")) {
						for _, n := range s.Names {
							if n != nil && n.Name != "_" {
								out[obsT{K: "directive", Key: "embed:" + n.Name, Ord: sn * 1000}] = true
							}
						}
					}
					nrank := 0
					for p, n := range s.Names {
						if n == nil {
							notes = append(notes, "nil name left in a value spec")
							continue
						}
						if n.Name == "_" {
							continue
						}
						nrank++
						init := 0
						switch {
						case len(vals) == len(s.Names):
							if vals[p] == nil {
								notes = append(notes, "nil value left in a value spec")
								break
							}
							lit := firstInt(vals[p])
							if usesIota(vals[p]) {
								// value = literal + iota; the tag of group member j is Code(side, i, j, 1)
								init = lit + (si+1)*10 + 1
							} else {
								init = lit
							}
							_ = implicit
						case len(vals) == 0 && implicit:
							init = -1 // implicit repetition with nothing to repeat: not a valid declaration
						case len(vals) == 1 && len(s.Names) > 1:
							init = firstInt(vals[0]) + p + 1
						case len(vals) == 0:
							if at, ok := s.Type.(*ast.ArrayType); ok && at.Len != nil {
								init = firstInt(at.Len) + p + 1
							}
						default:
							notes = append(notes, fmt.Sprintf("value spec with %d names and %d values", len(s.Names), len(vals)))
						}
						out[obsT{K: kind, Key: n.Name, Init: init, Ord: code(sn, rank, srank, nrank)}] = true
					}
				}
			}
		}
	}
	// the copy of the imports in file.Imports (read by later passes) must list the same specs
	n := 0
	for _, is := range f.Imports {
		if is == nil {
			notes = append(notes, "nil entry left in file.Imports")
			continue
		}
		n++
		if !declImports[is] {
			notes = append(notes, "file.Imports lists an import that no declaration contains: "+is.Path.Value)
		}
	}
	if n != len(declImports) {
		notes = append(notes, fmt.Sprintf("file.Imports has %d entries, the declarations %d import specs", n, len(declImports)))
	}
	// directives consumed from file.Comments by the linkname pass
	for _, cg := range f.Comments {
		if cg == nil {
			continue
		}
		for _, c := range cg.List {
			if strings.HasPrefix(c.Text, "//go:linkname ") {
				fs := strings.Fields(c.Text)
				if len(fs) >= 2 {
					out[obsT{K: "directive", Key: "linkname:" + fs[1], Ord: sn * 1000}] = true
				}
			}
		}
	}
	return notes
}

// fieldsText is the canonical text of a field list (receiver, type parameters,
// parameters, results): "name type, name type"; with marker set the digits of
// the first name (the provenance marker) are left out.
func fieldsText(fl *ast.FieldList, marker bool) string {
	if fl == nil {
		return ""
	}
	var parts []string
	for i, f := range fl.List {
		if f == nil {
			parts = append(parts, "<nil>")
			continue
		}
		var names []string
		for j, n := range f.Names {
			nm := n.Name
			if marker && i == 0 && j == 0 {
				nm = strings.TrimRight(nm, "0123456789")
			}
			names = append(names, nm)
		}
		t := types.ExprString(f.Type)
		if len(names) > 0 {
			t = strings.Join(names, ", ") + " " + t
		}
		parts = append(parts, t)
	}
	return strings.Join(parts, ", ")
}

func firstIntOrZero(b *ast.BlockStmt) int {
	if b == nil {
		return 0
	}
	return firstInt(b)
}

func usesIota(e ast.Expr) bool {
	found := false
	ast.Inspect(e, func(n ast.Node) bool {
		if id, ok := n.(*ast.Ident); ok && id.Name == "iota" {
			found = true
		}
		return !found
	})
	return found
}

func diff(pred, obs map[obsT]bool) (missing, extra []obsT) {
	for o := range pred {
		if !obs[o] {
			missing = append(missing, o)
		}
	}
	for o := range obs {
		if !pred[o] {
			extra = append(extra, o)
		}
	}
	sort.Slice(missing, func(i, j int) bool { return missing[i].String() < missing[j].String() })
	sort.Slice(extra, func(i, j int) bool { return extra[i].String() < extra[j].String() })
	return
}
