// Package c03 decides C03 (channels, select and the scheduler follow Go
// semantics) by trace validation: programs enumerated by TLC from the forward
// model GoChanProg.tla are compiled with the compiler under test and executed
// under Node with scripted scheduling choices (js/sched.js: select picks,
// time-slice breaks, timer order); every recorded execution must be a
// behaviour of the reference semantics GoChan.tla (GoChanTrace.tla, with the
// linearisation points as silent steps).  The same programs run natively guard
// the specification.
package c03

import (
	"encoding/json"
	"fmt"
	"math/rand"
	"os"
	"path/filepath"
	"regexp"
	"sort"
	"strconv"
	"sync"
	"time"

	"verif/core"
	"verif/gjs"
	"verif/reg"
	"verif/tlcx"
)

func init() { reg.Register("C03", "model_checking", Run) }

const (
	maxNG = 4
	maxNC = 2
)

type fwdCfg struct {
	name    string
	ng      int
	k       []int
	caps    [][]int
	alpha   []string
	sim     int // >0: -simulate num
	depth   int
	timeout time.Duration
}

func runForward(c *core.Ctx, fc fwdCfg, progs map[string]*Program) bool {
	k := append([]int{}, fc.k...)
	for len(k) < fc.ng {
		k = append(k, 0)
	}
	pj, _ := json.Marshal(map[string]any{"K": k, "caps": fc.caps, "alpha": fc.alpha, "out": "progs.ndjson"})
	inv := "INVARIANT TypeOK BufOK ResOK DeadlockExact Emit\n"
	cfg := fmt.Sprintf("SPECIFICATION Spec\nCONSTANTS NG = %d\n NC = %d\n Strict = TRUE\n%sCHECK_DEADLOCK FALSE\n", fc.ng, maxNC, inv)
	o := tlcx.Opts{Module: "GoChanProg", Cfg: cfg, Workers: 16, Timeout: fc.timeout, Files: map[string]string{"c03_params.json": string(pj)}, HeapMB: 8192}
	if fc.sim > 0 {
		o.SimNum = fc.sim / 16
		o.Depth = fc.depth
		o.Seed = c.Seed
	}
	r, err := tlcx.Run(c, o)
	if err != nil {
		c.Infra(err)
		return false
	}
	if !r.Completed {
		c.Infra(fmt.Errorf("forward model %s: TLC did not complete (violated=%q timeout=%v)\n%s", fc.name, r.Violated, r.TimedOut, tlcx.Tail(r.Output, 40)))
		return false
	}
	bad := 0
	err = tlcx.ReadNDJSON(filepath.Join(r.Dir, "progs.ndjson"), func(raw json.RawMessage) error {
		var inner string
		if json.Unmarshal(raw, &inner) != nil {
			bad++
			return nil
		}
		var rec struct {
			Caps []int     `json:"caps"`
			Prog [][]Instr `json:"prog"`
		}
		if json.Unmarshal([]byte(inner), &rec) != nil {
			bad++
			return nil
		}
		p := &Program{Caps: rec.Caps, Prog: rec.Prog}
		progs[p.key()] = p
		return nil
	})
	if err != nil {
		c.Infra(err)
		return false
	}
	c.Add("unparsable_scenario_lines", bad)
	if fc.sim == 0 {
		c.Set("exhaustive_forward_config", fmt.Sprintf("%s: NG=%d K=%v caps=%v alpha=%v: %d distinct states", fc.name, fc.ng, fc.k, fc.caps, fc.alpha, r.Distinct))
	}
	return true
}

var reHW = regexp.MustCompile(`"HIGHWATER", (\d+)`)

// validate checks the executions against GoChanTrace; it returns the indices of
// the rejected ones.
func validate(c *core.Ctx, execs []*Exec, strict bool) (map[int]bool, error) {
	rejected := map[int]bool{}
	start := 0
	for start < len(execs) {
		end := start + 250
		if end > len(execs) {
			end = len(execs)
		}
		batch := execs[start:end]
		cfg := fmt.Sprintf("SPECIFICATION TSpec\nCONSTANTS NG = %d\n NC = %d\n Strict = %v\nINVARIANT NotAccepted\nCONSTRAINT HW\nPOSTCONDITION HWReport\nCHECK_DEADLOCK FALSE\n", maxNG, maxNC, map[bool]string{true: "TRUE", false: "FALSE"}[strict])
		r, err := tlcx.Run(c, tlcx.Opts{Module: "GoChanTrace", Cfg: cfg, Workers: 1, DFS: true, Timeout: 10 * time.Minute,
			Files: map[string]string{"trace.ndjson": eventsNDJSON(batch)}})
		if err != nil {
			return nil, err
		}
		os.RemoveAll(r.Dir)
		if r.Violated == "NotAccepted" {
			start = end
			continue
		}
		if !r.Completed {
			return nil, fmt.Errorf("trace validation did not complete: %s\n%s", r.Violated, tlcx.Tail(r.Output, 30))
		}
		m := reHW.FindAllStringSubmatch(r.Output, -1)
		if len(m) == 0 {
			return nil, fmt.Errorf("trace validation: no high-water mark in TLC output\n%s", tlcx.Tail(r.Output, 30))
		}
		hw, _ := strconv.Atoi(m[len(m)-1][1])
		// first unexplained event is number hw+1 (1-based); find its execution
		n := 0
		idx := -1
		for i, x := range batch {
			if hw+1 <= n+len(x.Events) {
				idx = i
				break
			}
			n += len(x.Events)
		}
		if idx < 0 {
			return nil, fmt.Errorf("trace validation: high-water mark %d beyond the batch", hw)
		}
		rejected[start+idx] = true
		start = start + idx + 1
		if len(rejected) >= 8 {
			// enough for a verdict; every further rejection costs one TLC start
			c.Add("validation_stopped_early_after_rejections", 1)
			break
		}
	}
	return rejected, nil
}

func scripts(c *core.Ctx, rng *rand.Rand) []*Script {
	s := []*Script{
		{}, // defaults: first ready case, no time-slice break, timers in creation order
		{Rand: []float64{0.999, 0.999, 0.999, 0.999, 0.999, 0.999, 0.999, 0.999}, NowDefault: 10, TimerDefault: -1},
	}
	n := c.Pick(2, 6)
	for i := 0; i < n; i++ {
		sc := &Script{}
		for j := 0; j < 8; j++ {
			sc.Rand = append(sc.Rand, float64(rng.Intn(1000))/1000)
		}
		for j := 0; j < 40; j++ {
			sc.Now = append(sc.Now, []int{0, 0, 10}[rng.Intn(3)])
			sc.Timers = append(sc.Timers, rng.Intn(4)-1)
		}
		s = append(s, sc)
	}
	return s
}

// classify returns known-finding keys for a rejected program.
func classify(p *Program) []string {
	var keys []string
	// a select with a send case on channel c, and a close of c somewhere
	closed := map[int]bool{}
	for _, g := range p.Prog {
		for _, in := range g {
			if in.Kind == "close" {
				closed[in.Chan] = true
			}
		}
	}
	for _, g := range p.Prog {
		for _, in := range g {
			if in.Kind == "sel" {
				for _, o := range in.Offers {
					if o.Dir == "s" && closed[o.Chan] && o.Chan != 0 {
						keys = append(keys, "select_send_case_vs_close")
					}
				}
			}
			if in.Kind == "close" && in.Chan == 0 {
				keys = append(keys, "close_nil_channel")
			}
		}
	}
	return keys
}

// Run is the C03 check.
func Run(c *core.Ctx, pool *gjs.Pool) {
	rng := rand.New(rand.NewSource(c.Seed))
	c.Assumef("the printed invocation/response lines are in real-time order (single-threaded JavaScript; println is synchronous)")
	c.Assumef("time is abstracted: all timers are due immediately and may fire in any order; time-slice breaks may happen after any goroutine run")
	c.Assumef("activity of other goroutines after main returned is ignored (Go gives no guarantee either way)")
	progs := map[string]*Program{}
	var cfgs []fwdCfg
	basic := []string{"send", "recv", "close"}
	all := []string{"send", "recv", "close", "sel", "seld", "len", "yield", "range", "nil"}
	if c.Thorough() {
		cfgs = []fwdCfg{
			{name: "basic-0-1", ng: 3, k: []int{2, 2, 1}, caps: [][]int{{0, 1}}, alpha: basic, timeout: 20 * time.Minute},
			{name: "basic-0-0", ng: 3, k: []int{2, 2, 2}, caps: [][]int{{0, 0}}, alpha: basic, timeout: 20 * time.Minute},
			{name: "basic-2-1", ng: 3, k: []int{2, 2, 1}, caps: [][]int{{2, 1}}, alpha: basic, timeout: 20 * time.Minute},
			{name: "fifo-2-1", ng: 2, k: []int{4, 4}, caps: [][]int{{2, 1}}, alpha: []string{"send", "recv"}, timeout: 20 * time.Minute},
			{name: "sim-all", ng: 4, k: []int{3, 3, 2, 2}, caps: [][]int{{0, 1}, {0, 0}, {1, 2}, {2, 0}}, alpha: all, sim: 40000, depth: 150, timeout: 20 * time.Minute},
		}
	} else {
		cfgs = []fwdCfg{
			{name: "basic-0-1", ng: 3, k: []int{1, 2, 1}, caps: [][]int{{0, 1}}, alpha: basic, timeout: 5 * time.Minute},
			{name: "fifo-2-1", ng: 2, k: []int{3, 3}, caps: [][]int{{2, 1}}, alpha: []string{"send", "recv"}, timeout: 5 * time.Minute},
			{name: "sim-all", ng: 4, k: []int{3, 3, 2, 2}, caps: [][]int{{0, 1}, {0, 0}, {1, 2}, {2, 0}}, alpha: all, sim: 6000, depth: 150, timeout: 5 * time.Minute},
		}
	}
	for _, fc := range cfgs {
		if !runForward(c, fc, progs) {
			return
		}
	}
	c.Phase("forward_model")
	keys := make([]string, 0, len(progs))
	for k, p := range progs {
		if p.nontrivial() {
			keys = append(keys, k)
		}
	}
	sort.Strings(keys)
	rng.Shuffle(len(keys), func(i, j int) { keys[i], keys[j] = keys[j], keys[i] })
	maxProgs := c.Pick(800, 12000)
	if len(keys) > maxProgs {
		keys = keys[:maxProgs]
	}
	// pinned programs (always executed): close of a channel with MIXED waiters - the queue
	// entries of a blocked select next to plain blocked receivers, in both queue orders, with
	// two and three waiters; main waits for a token from every waiter, so a waiter that is
	// never resumed shows as a deadlock report the specification does not allow
	for _, p := range mixedWaiterPrograms() {
		k := p.key()
		if _, ok := progs[k]; !ok {
			progs[k] = p
		}
		have := false
		for _, x := range keys {
			if x == k {
				have = true
			}
		}
		if !have {
			keys = append(keys, k)
		}
	}
	list := make([]*Program, len(keys))
	for i, k := range keys {
		list[i] = progs[k]
		c.Distinct(k)
	}
	c.Set("programs", len(list))
	scs := scripts(c, rng)
	// build batches and execute
	const per = 40
	nb := (len(list) + per - 1) / per
	jsExecs := make([][]*Exec, nb)
	var disagreeMu sync.Mutex
	var disagree []string
	natExecs := make([][]*Exec, nb)
	preload := filepath.Join(core.Root, "js", "sched.js")
	c.ParMap(nb, func(bi int) {
		lo, hi := bi*per, (bi+1)*per
		if hi > len(list) {
			hi = len(list)
		}
		batch := list[lo:hi]
		prog := gjs.Prog{Files: render(batch)}
		dir, err := prog.Materialise(c.Scratch)
		if err != nil {
			c.Infra(err)
			return
		}
		defer os.RemoveAll(dir)
		out := filepath.Join(dir, "out.js")
		if err := pool.Build(dir, out, gjs.Opts{}); err != nil {
			if be, ok := err.(*gjs.BuildError); ok && be.Panic {
				c.Report(core.Case{Keys: []string{"compiler_panic"}, Summary: "compiler internal error on a channel program batch: " + be.Error(), Files: prog.ReplayFiles("prog")})
			} else {
				c.Infra(fmt.Errorf("gopherjs build: %v", err))
			}
			return
		}
		bin := filepath.Join(dir, "native.bin")
		if r := gjs.NativeBuild(dir, bin); r.ExitCode != 0 || r.Err != nil {
			c.Infra(fmt.Errorf("reference toolchain rejected a generated program: %s", r.Out))
			return
		}
		var jobs []gjs.Job
		for n := range batch {
			for _, sc := range scs {
				jobs = append(jobs, gjs.Job{Args: []string{strconv.Itoa(n)}, Script: sc, MaxSteps: 5000})
			}
		}
		obsAll, err := gjs.NodeMulti(out, jobs, 5*time.Minute)
		if err != nil {
			c.Infra(err)
			return
		}
		for n, p := range batch {
			for si, sc := range scs {
				obs := obsAll[n*len(scs)+si]
				evs, end := assemble(p, obs, maxNC)
				jsExecs[bi] = append(jsExecs[bi], &Exec{Prog: p, Script: sc, Events: evs, End: end, Raw: obs.Raw})
			}
			if (lo+n)%10 == 0 {
				// fidelity of the in-process runner: the same program in a stand-alone
				// Node process with the default script must show the same observation
				res := gjs.Node(out, 20*time.Second, preload, []string{"VERIF_SCRIPT={}"}, strconv.Itoa(n))
				real := gjs.ClassifyNode(res)
				// the stand-alone execution is a real execution too: it is validated like the others
				evsR, endR := assemble(p, real, maxNC)
				jsExecs[bi] = append(jsExecs[bi], &Exec{Prog: p, Script: scs[0], Events: evsR, End: endR, Raw: real.Raw})
				if !real.Same(obsAll[n*len(scs)]) {
					// Decided after trace validation: if the specification rejects one of the two
					// observations the verdict is a violation; if it accepts both, the runner is
					// not faithful for this program and the run ends as an infrastructure problem.
					disagreeMu.Lock()
					disagree = append(disagree, fmt.Sprintf("runner.js and a stand-alone node process disagree on program %s:\n--- runner\n%s\n--- node\n%s", p.key(), obsAll[n*len(scs)].Raw, real.Raw))
					disagreeMu.Unlock()
				}
				c.Add("standalone_node_crosschecks", 1)
			}
			for k := 0; k < 2; k++ {
				res := gjs.NativeRun(bin, 20*time.Second, []string{"GOMAXPROCS=" + strconv.Itoa(1+3*k)}, strconv.Itoa(n))
				obs := gjs.ClassifyNative(res)
				evs, end := assemble(p, obs, maxNC)
				natExecs[bi] = append(natExecs[bi], &Exec{Prog: p, Events: evs, End: end, Raw: obs.Raw})
			}
		}
	})
	if c.InfraErr != nil {
		return
	}
	c.Phase("build_and_execute")
	var allJS, allNat []*Exec
	for i := range jsExecs {
		allJS = append(allJS, jsExecs[i]...)
		allNat = append(allNat, natExecs[i]...)
	}
	c.Set("evaluations", len(allJS))
	// validate in parallel chunks
	type vres struct {
		rej map[int]bool
		err error
	}
	chunk := func(execs []*Exec, strict bool) (map[int]bool, error) {
		const cs = 1000
		n := (len(execs) + cs - 1) / cs
		out := make([]vres, n)
		var wg sync.WaitGroup
		sem := make(chan struct{}, 8)
		for i := 0; i < n; i++ {
			wg.Add(1)
			sem <- struct{}{}
			go func(i int) {
				defer wg.Done()
				defer func() { <-sem }()
				lo, hi := i*cs, (i+1)*cs
				if hi > len(execs) {
					hi = len(execs)
				}
				rej, err := validate(c, execs[lo:hi], strict)
				out[i] = vres{rej, err}
			}(i)
		}
		wg.Wait()
		all := map[int]bool{}
		for i, o := range out {
			if o.err != nil {
				return nil, o.err
			}
			for k := range o.rej {
				all[i*cs+k] = true
			}
		}
		return all, nil
	}
	rejJS, err := chunk(allJS, true)
	if err != nil {
		c.Infra(err)
		return
	}
	rejNat, err := chunk(allNat, false)
	if err != nil {
		c.Infra(err)
		return
	}
	c.Phase("trace_validation")
	natBad := map[string]bool{}
	for i := range rejNat {
		natBad[allNat[i].Prog.key()] = true
	}
	c.Set("spec_guard_discards", len(natBad))
	c.Set("traces_validated_against_impl", len(allJS))
	c.Set("guard_traces_validated", len(allNat))
	ends := map[string]int{}
	for _, x := range allJS {
		ends[x.End]++
	}
	c.Set("ends_observed", ends)
	c.Set("rule", "programs = distinct terminal programs of GoChanProg.tla (exhaustive small configuration + TLC -simulate with the full alphabet); an evaluation is one execution of one program under one scheduling script; distinct_nontrivial counts distinct programs containing at least one send/recv/close/range/select")
	c.Set("checker_cmd", "tlc GoChanProg (INVARIANT TypeOK BufOK ResOK DeadlockExact); tlc -workers 1 GoChanTrace (DFS queue, INVARIANT NotAccepted)")
	reported := map[string]bool{}
	idxs := make([]int, 0, len(rejJS))
	for i := range rejJS {
		idxs = append(idxs, i)
	}
	sort.Ints(idxs)
	for _, i := range idxs {
		x := allJS[i]
		k := x.Prog.key()
		if natBad[k] || reported[k] {
			continue
		}
		reported[k] = true
		files := map[string]string{"execution.txt": x.describe(), "trace.ndjson": eventsNDJSON([]*Exec{x}), "program.json": k + "\n"}
		for n, f := range render([]*Program{x.Prog}) {
			files["prog/"+n] = f
		}
		sj, _ := json.Marshal(x.Script)
		files["script.json"] = string(sj) + "\n"
		c.Report(core.Case{Keys: classify(x.Prog), Summary: fmt.Sprintf("execution not allowed by Go channel semantics (GoChanTrace rejects it; the reference toolchain's executions of the same program are accepted): program %s, end=%s", k, x.End), Files: files})
	}
	if len(disagree) > 0 && len(reported) == 0 {
		c.Infra(fmt.Errorf("%s", disagree[0]))
		return
	}
	c.Phase("verdicts")
	nImpl := c.Pick(150, 2500)
	if nImpl > len(list) {
		nImpl = len(list)
	}
	implModel(c, list[:nImpl], allJS)
	c.Phase("impl_model")
	for i, x := range allJS {
		if i%(len(allJS)/4+1) == 0 {
			c.Sample(map[string]any{"program": x.Prog, "script": x.Script, "end": x.End, "events": len(x.Events)})
		}
	}
}

// mixedWaiterPrograms: channel 1 (unbuffered) is closed by main while goroutines wait on it,
// channel 2 (capacity 2 or 3) carries one token per resumed waiter back to main.
func mixedWaiterPrograms() []*Program {
	sel := Instr{Kind: "sel", Offers: []Offer{{Dir: "r", Chan: 1}, {Dir: "r", Chan: 1}}}
	selD := Instr{Kind: "sel", Offers: []Offer{{Dir: "r", Chan: 1}, {Dir: "s", Chan: 1}}}
	recv := Instr{Kind: "recv", Chan: 1}
	token := Instr{Kind: "send", Chan: 2}
	goI := func(ch int) Instr { return Instr{Kind: "go", Child: ch} }
	yield := Instr{Kind: "yield"}
	wait := Instr{Kind: "recv", Chan: 2}
	mk := func(waiters ...Instr) *Program {
		n := len(waiters)
		main := []Instr{}
		for i := range waiters {
			main = append(main, goI(i+2))
		}
		main = append(main, yield, yield, Instr{Kind: "close", Chan: 1})
		for range waiters {
			main = append(main, wait)
		}
		p := &Program{Caps: []int{0, n}, Prog: [][]Instr{main}}
		for _, w := range waiters {
			p.Prog = append(p.Prog, []Instr{w, token})
		}
		for len(p.Prog) < maxNG {
			p.Prog = append(p.Prog, []Instr{})
		}
		return p
	}
	return []*Program{mk(sel, recv), mk(recv, sel), mk(sel, recv, recv), mk(recv, sel, recv), mk(selD, recv), mk(sel, sel, recv)}
}
