package c03

import (
	"encoding/json"
	"fmt"
	"strconv"
	"strings"

	"verif/gjs"
)

// Event is one line of trace.ndjson (all fields always present; see GoChanTrace.tla).
type Event struct {
	E      string  `json:"e"`
	G      int     `json:"g"`
	H      int     `json:"h"`
	K      string  `json:"k"`
	C      int     `json:"c"`
	V      int     `json:"v"`
	Offers [][]any `json:"offers"`
	D      bool    `json:"d"`
	T      string  `json:"t"`
	I      int     `json:"i"`
	Ok     bool    `json:"ok"`
	Caps   []int   `json:"caps"`
	Kind   string  `json:"kind"`
}

func newEvent(e string) Event { return Event{E: e, Offers: [][]any{}, Caps: []int{}} }

// Script is the scheduling script (js/sched.js, js/runner.js).
type Script = gjs.Script

// Exec is one execution of one program.
type Exec struct {
	Prog   *Program
	Script *Script // nil for the reference toolchain
	Events []Event
	End    string
	Raw    string
}

// assemble turns the printed lines into the event sequence of the trace
// specification. Lines after main's exit are ignored (the program has ended).
func assemble(p *Program, o gjs.Obs, nc int) ([]Event, string) {
	reset := newEvent("reset")
	reset.Caps = make([]int, nc)
	copy(reset.Caps, p.Caps)
	evs := []Event{reset}
	end := ""
	for _, l := range o.Lines {
		f := strings.Fields(l)
		if len(f) == 0 {
			continue
		}
		num := func(i int) int { n, _ := strconv.Atoi(f[i]); return n }
		switch {
		case f[0] == "G" && len(f) == 3:
			e := newEvent("go")
			e.G, e.H = num(1), num(2)
			evs = append(evs, e)
		case f[0] == "I" && len(f) == 3:
			g, pi := num(1), num(2)
			if g < 1 || g > len(p.Prog) || pi < 1 || pi > len(p.Prog[g-1]) {
				return evs, "garbled"
			}
			in := p.Prog[g-1][pi-1]
			e := newEvent("inv")
			e.G = g
			e.K = in.Kind
			e.C = in.Chan
			e.Offers = in.specOffers(g, pi)
			switch in.Kind {
			case "send":
				e.V = val(g, pi, 1)
			case "range":
				e.K = "recv"
			case "sel":
				e.D = in.Dflt
				e.C = 0
			}
			evs = append(evs, e)
		case f[0] == "R" && len(f) == 7:
			e := newEvent("resp")
			e.G = num(1)
			e.T = f[3]
			e.I, e.V = num(4), num(5)
			e.Ok = f[6] == "true"
			evs = append(evs, e)
		case f[0] == "X" && len(f) == 2:
			e := newEvent("exit")
			e.G = num(1)
			evs = append(evs, e)
			if e.G == 1 {
				end = "exit"
			}
		default:
			return evs, "garbled"
		}
		if end == "exit" {
			break
		}
	}
	if end == "" {
		switch o.End {
		case "deadlock":
			end = "deadlock"
		case "timeout":
			end = "timeout"
		case "exit":
			end = "silent" // the process ended without main returning and without a deadlock report
		default:
			end = o.End // panic, jserror, fail
		}
	}
	e := newEvent("end")
	e.Kind = end
	evs = append(evs, e)
	return evs, end
}

func eventsNDJSON(execs []*Exec) string {
	var b strings.Builder
	for _, x := range execs {
		for _, e := range x.Events {
			j, _ := json.Marshal(e)
			b.Write(j)
			b.WriteByte('\n')
		}
	}
	return b.String()
}

func (x *Exec) describe() string {
	var b strings.Builder
	pj, _ := json.Marshal(x.Prog)
	fmt.Fprintf(&b, "program: %s\n", pj)
	if x.Script != nil {
		sj, _ := json.Marshal(x.Script)
		fmt.Fprintf(&b, "script: %s\n", sj)
	}
	fmt.Fprintf(&b, "end: %s\noutput:\n%s\n", x.End, x.Raw)
	return b.String()
}
