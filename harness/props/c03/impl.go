package c03

import (
	"encoding/json"
	"fmt"
	"path/filepath"
	"sort"
	"strings"
	"time"

	"verif/core"
	"verif/tlcx"
)

// canon is the comparison form of an event sequence (without the reset event).
func canon(evs []Event) string {
	var b strings.Builder
	for _, e := range evs {
		if e.E == "reset" {
			continue
		}
		oj, _ := json.Marshal(e.Offers)
		fmt.Fprintf(&b, "%s|%d|%d|%s|%d|%d|%s|%v|%s|%d|%v|%s;", e.E, e.G, e.H, e.K, e.C, e.V, oj, e.D, e.T, e.I, e.Ok, e.Kind)
	}
	return b.String()
}

// progTuple renders a program in the tuple form JSRuntime.tla / GoChanProg.tla use.
func progTuple(p *Program) [][]any {
	var out [][]any
	for _, g := range p.Prog {
		var ins []any
		for _, in := range g {
			switch in.Kind {
			case "go":
				ins = append(ins, []any{"go", in.Child})
			case "yield":
				ins = append(ins, []any{"yield"})
			case "sel":
				var offs []any
				for _, o := range in.Offers {
					offs = append(offs, []any{o.Dir, o.Chan, 0})
				}
				ins = append(ins, []any{"sel", offs, in.Dflt})
			default:
				ins = append(ins, []any{in.Kind, in.Chan})
			}
		}
		if ins == nil {
			ins = []any{}
		}
		out = append(out, ins)
	}
	return out
}

// implModel explores the implementation-shaped model JSRuntime.tla for the given
// programs (all scheduling nondeterminism, invariants checked), validates every
// complete history of the model against the reference (refinement by trace
// inclusion) and checks that every execution recorded from the real run time is
// one of the model's histories.
func implModel(c *core.Ctx, progs []*Program, real []*Exec) {
	if len(progs) == 0 {
		return
	}
	type pj struct {
		ID   int     `json:"id"`
		Caps []int   `json:"caps"`
		Prog [][]any `json:"prog"`
	}
	var ps []pj
	for i, p := range progs {
		caps := make([]int, maxNC)
		copy(caps, p.Caps)
		ps = append(ps, pj{ID: i, Caps: caps, Prog: progTuple(p)})
	}
	params, _ := json.Marshal(map[string]any{"out": "impl", "progs": ps})
	cfg := fmt.Sprintf("SPECIFICATION Spec\nCONSTANTS NG = %d\n NC = %d\nINVARIANT TypeOK QueueDiscipline Accounting NoLostWakeup SchedConsistent DeadlockExact Emit\nCHECK_DEADLOCK FALSE\n", maxNG, maxNC)
	r, err := tlcx.Run(c, tlcx.Opts{Module: "JSRuntime", Cfg: cfg, Workers: 8, Timeout: time.Duration(c.Pick(8, 30)) * time.Minute, HeapMB: 8192,
		Files: map[string]string{"c03_impl_params.json": string(params)}})
	if err != nil {
		c.Infra(err)
		return
	}
	if r.Violated != "" && r.Violated != "error" {
		// an invariant of the implementation-shaped model fails: a statement about the model,
		// reported, never a verdict about the code by itself
		fmt.Printf("MODEL-ALERT: JSRuntime.tla violates %s on one of the programs (see evidence); the direct exploration of the real run time decides the property\n", r.Violated)
		c.Set("impl_model_invariant_violated", r.Violated)
		c.Set("impl_model_counterexample_tail", tlcx.Tail(r.Output, 40))
		return
	}
	if !r.Completed {
		if r.TimedOut {
			c.Set("impl_model", "exploration timed out; skipped in this run")
			return
		}
		c.Infra(fmt.Errorf("JSRuntime.tla: TLC failed: %s\n%s", r.Violated, tlcx.Tail(r.Output, 30)))
		return
	}
	c.Set("impl_model_states", r.Distinct)
	// model histories per program
	hist := make([]map[string][]Event, len(progs))
	for i := range hist {
		hist[i] = map[string][]Event{}
	}
	files, _ := filepath.Glob(filepath.Join(r.Dir, "impl.*.ndjson"))
	for _, f := range files {
		err := tlcx.ReadNDJSON(f, func(raw json.RawMessage) error {
			var inner string
			if json.Unmarshal(raw, &inner) != nil {
				return nil
			}
			var rec struct {
				ID   int     `json:"id"`
				Caps []int   `json:"caps"`
				Hist []Event `json:"hist"`
			}
			if err := json.Unmarshal([]byte(inner), &rec); err != nil {
				return err
			}
			reset := newEvent("reset")
			reset.Caps = rec.Caps
			evs := append([]Event{reset}, rec.Hist...)
			for i := range evs {
				if evs[i].Offers == nil {
					evs[i].Offers = [][]any{}
				}
				if evs[i].Caps == nil {
					evs[i].Caps = []int{}
				}
			}
			hist[rec.ID][canon(evs)] = evs
			return nil
		})
		if err != nil {
			c.Infra(fmt.Errorf("reading model histories: %v", err))
			return
		}
	}
	// 1. refinement by trace inclusion: every model history is a behaviour of GoChan
	var modelExecs []*Exec
	for i, h := range hist {
		keys := make([]string, 0, len(h))
		for k := range h {
			keys = append(keys, k)
		}
		sort.Strings(keys)
		for _, k := range keys {
			modelExecs = append(modelExecs, &Exec{Prog: progs[i], Events: h[k], End: "model"})
		}
	}
	c.Set("impl_model_histories", len(modelExecs))
	rej, err := validate(c, modelExecs, true)
	if err != nil {
		c.Infra(err)
		return
	}
	c.Set("impl_model_histories_rejected_by_reference", len(rej))
	if len(rej) > 0 {
		for i := range rej {
			fmt.Printf("MODEL-ALERT: a history of JSRuntime.tla is not a behaviour of GoChan.tla: program %s\n", modelExecs[i].Prog.key())
			c.Set("impl_model_rejected_sample", map[string]any{"program": modelExecs[i].Prog, "trace": modelExecs[i].Events})
			break
		}
	}
	// 2. binding: every real execution of these programs is one of the model's histories
	idx := map[string]int{}
	for i, p := range progs {
		idx[p.key()] = i
	}
	drift, checked := 0, 0
	for _, x := range real {
		i, ok := idx[x.Prog.key()]
		if !ok || len(hist[i]) == 0 {
			continue
		}
		checked++
		if _, ok := hist[i][canon(x.Events)]; !ok {
			drift++
			if drift == 1 {
				fmt.Printf("MODEL-DRIFT: an execution of the real run time is not a history of JSRuntime.tla: program %s (the reference still decides the verdict)\n", x.Prog.key())
				c.Set("model_drift_sample", map[string]any{"program": x.Prog, "script": x.Script, "raw": x.Raw})
			}
		}
	}
	c.Set("real_executions_checked_against_impl_model", checked)
	c.Set("model_drift", drift)
}
