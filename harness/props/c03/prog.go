package c03

import (
	"encoding/json"
	"fmt"
	"strings"
)

// Offer is one select case / the single offer of a plain send or receive.
type Offer struct {
	Dir  string // "s" | "r"
	Chan int    // 0 = nil channel
}

// Instr is one instruction of a goroutine program (GoChanProg.tla).
type Instr struct {
	Kind   string // go send recv close len yield range sel
	Chan   int
	Child  int
	Offers []Offer
	Dflt   bool
}

// Program is a scenario of GoChanProg: capacities and one straight-line
// program per goroutine (index 0 = main, goroutine id 1).
type Program struct {
	Caps []int
	Prog [][]Instr
}

func (p *Program) key() string { b, _ := json.Marshal(p); return string(b) }

// UnmarshalJSON decodes the tuple form emitted by TLC.
func (in *Instr) UnmarshalJSON(b []byte) error {
	var a []json.RawMessage
	if err := json.Unmarshal(b, &a); err != nil {
		// also accept the object form (replay files)
		type plain Instr
		return json.Unmarshal(b, (*plain)(in))
	}
	if len(a) == 0 {
		return fmt.Errorf("empty instruction")
	}
	if err := json.Unmarshal(a[0], &in.Kind); err != nil {
		return err
	}
	switch in.Kind {
	case "go":
		return json.Unmarshal(a[1], &in.Child)
	case "send", "recv", "close", "len", "range":
		return json.Unmarshal(a[1], &in.Chan)
	case "yield":
		return nil
	case "sel":
		var offs [][]json.RawMessage
		if err := json.Unmarshal(a[1], &offs); err != nil {
			return err
		}
		for _, o := range offs {
			var of Offer
			json.Unmarshal(o[0], &of.Dir)
			json.Unmarshal(o[1], &of.Chan)
			in.Offers = append(in.Offers, of)
		}
		return json.Unmarshal(a[2], &in.Dflt)
	}
	return fmt.Errorf("unknown instruction %q", in.Kind)
}

// val is the value carried by offer i (1-based) of instruction p (1-based) of goroutine g.
func val(g, p, i int) int { return g*100 + p*10 + i }

// offers returns the offers of an instruction with values, in the spec's form.
func (in Instr) specOffers(g, p int) [][]any {
	switch in.Kind {
	case "send":
		return [][]any{{"s", in.Chan, val(g, p, 1)}}
	case "recv", "range":
		return [][]any{{"r", in.Chan, 0}}
	case "sel":
		var o [][]any
		for i, of := range in.Offers {
			v := 0
			if of.Dir == "s" {
				v = val(g, p, i+1)
			}
			o = append(o, []any{of.Dir, of.Chan, v})
		}
		return o
	}
	return [][]any{}
}

// nontrivial: the program has some interaction (an instruction other than go/len/yield).
func (p *Program) nontrivial() bool {
	for _, g := range p.Prog {
		for _, in := range g {
			switch in.Kind {
			case "send", "recv", "close", "range", "sel":
				return true
			}
		}
	}
	return false
}

// render writes the Go source of a batch of programs. Program n is run by
// `prog n`. Every operation prints an invocation line before and a response
// line after it:
//
//	G g h            goroutine g starts goroutine h (printed before the go statement)
//	I g p            goroutine g invokes its instruction p
//	R g p tag i v ok the observed result
//	X g              goroutine g returns
func render(batch []*Program) map[string]string {
	var b strings.Builder
	b.WriteString("package main\n\nimport \"runtime\"\n\nvar _ = runtime.Gosched\n\n")
	b.WriteString(`func has(s, sub string) bool {
	for i := 0; i+len(sub) <= len(s); i++ {
		if s[i:i+len(sub)] == sub {
			return true
		}
	}
	return false
}

func rp(g, p int) {
	r := recover()
	if r == nil {
		return
	}
	msg := "other"
	if e, ok := r.(error); ok {
		msg = e.Error()
	} else if s, ok := r.(string); ok {
		msg = s
	}
	tag := "panic_other"
	switch {
	case has(msg, "send on closed channel"):
		tag = "panic_send_closed"
	case has(msg, "close of closed channel"):
		tag = "panic_close_closed"
	case has(msg, "close of nil channel"):
		tag = "panic_close_nil"
	}
	println("R", g, p, tag, 0, 0, false)
}

`)
	for n, pr := range batch {
		for c := 0; c <= len(pr.Caps); c++ {
			fmt.Fprintf(&b, "var p%d_c%d chan int\n", n, c)
		}
		for gi, code := range pr.Prog {
			g := gi + 1
			fmt.Fprintf(&b, "\nfunc p%d_g%d() {\n", n, g)
			if g == 1 {
				for c, cp := range pr.Caps {
					fmt.Fprintf(&b, "\tp%d_c%d = make(chan int, %d)\n", n, c+1, cp)
				}
			}
			for pi, in := range code {
				p := pi + 1
				ch := fmt.Sprintf("p%d_c%d", n, in.Chan)
				switch in.Kind {
				case "go":
					fmt.Fprintf(&b, "\tprintln(\"G\", %d, %d)\n\tgo p%d_g%d()\n", g, in.Child, n, in.Child)
				case "send":
					fmt.Fprintf(&b, "\tprintln(\"I\", %d, %d)\n\tfunc() {\n\t\tdefer rp(%d, %d)\n\t\t%s <- %d\n\t\tprintln(\"R\", %d, %d, \"ok\", 0, 0, true)\n\t}()\n", g, p, g, p, ch, val(g, p, 1), g, p)
				case "recv":
					fmt.Fprintf(&b, "\tprintln(\"I\", %d, %d)\n\tfunc() {\n\t\tdefer rp(%d, %d)\n\t\tv, ok := <-%s\n\t\tprintln(\"R\", %d, %d, \"val\", 0, v, ok)\n\t}()\n", g, p, g, p, ch, g, p)
				case "close":
					fmt.Fprintf(&b, "\tprintln(\"I\", %d, %d)\n\tfunc() {\n\t\tdefer rp(%d, %d)\n\t\tclose(%s)\n\t\tprintln(\"R\", %d, %d, \"ok\", 0, 0, true)\n\t}()\n", g, p, g, p, ch, g, p)
				case "len":
					fmt.Fprintf(&b, "\tprintln(\"I\", %d, %d)\n\tprintln(\"R\", %d, %d, \"len\", 0, len(%s), true)\n", g, p, g, p, ch)
				case "yield":
					fmt.Fprintf(&b, "\tprintln(\"I\", %d, %d)\n\truntime.Gosched()\n\tprintln(\"R\", %d, %d, \"ok\", 0, 0, true)\n", g, p, g, p)
				case "range":
					fmt.Fprintf(&b, "\tprintln(\"I\", %d, %d)\n\tfor v := range %s {\n\t\tprintln(\"R\", %d, %d, \"val\", 0, v, true)\n\t\tprintln(\"I\", %d, %d)\n\t}\n\tprintln(\"R\", %d, %d, \"val\", 0, 0, false)\n", g, p, ch, g, p, g, p, g, p)
				case "sel":
					fmt.Fprintf(&b, "\tprintln(\"I\", %d, %d)\n\tfunc() {\n\t\tdefer rp(%d, %d)\n\t\tselect {\n", g, p, g, p)
					for i, of := range in.Offers {
						oc := fmt.Sprintf("p%d_c%d", n, of.Chan)
						if of.Dir == "s" {
							fmt.Fprintf(&b, "\t\tcase %s <- %d:\n\t\t\tprintln(\"R\", %d, %d, \"sel\", %d, 0, true)\n", oc, val(g, p, i+1), g, p, i)
						} else {
							fmt.Fprintf(&b, "\t\tcase v, ok := <-%s:\n\t\t\tprintln(\"R\", %d, %d, \"sel\", %d, v, ok)\n", oc, g, p, i)
						}
					}
					if in.Dflt {
						fmt.Fprintf(&b, "\t\tdefault:\n\t\t\tprintln(\"R\", %d, %d, \"sel\", -1, 0, false)\n", g, p)
					}
					b.WriteString("\t\t}\n\t}()\n")
				}
			}
			fmt.Fprintf(&b, "\tprintln(\"X\", %d)\n}\n", g)
		}
	}
	b.WriteString("\nfunc main() {\n\tswitch argN() {\n")
	for n := range batch {
		fmt.Fprintf(&b, "\tcase %d:\n\t\tp%d_g1()\n", n, n)
	}
	b.WriteString("\t}\n}\n")
	return map[string]string{
		"main.go": b.String(),
		"args_js.go": `//go:build js

package main

import "github.com/gopherjs/gopherjs/js"

func argN() int { return js.Global.Get("process").Get("argv").Index(2).Int() }
`,
		"args_native.go": `//go:build !js

package main

import "os"

func argN() int {
	n := 0
	for _, c := range os.Args[1] {
		n = n*10 + int(c-'0')
	}
	return n
}
`,
	}
}
