package c04

import "verif/props/witness"

// Witness programs for C04 (see package witness): shapes of generic code outside
// the declaration space of Instances.tla.
var witnesses = []witness.W{
	witness.Src("range_over_typeparam_channel", "", `package main

func Drain[C ~chan E, E any](c C) int {
	n := 0
	for range c {
		n++
	}
	return n
}

func Sum[C ~<-chan int32 | ~chan int32](c C) (s int32) {
	for v := range c {
		s += v
	}
	return
}

func Send[C ~chan<- E | ~chan E, E any](c C, v E) { c <- v }

func main() {
	c := make(chan int, 2)
	go func() { c <- 1; c <- 2; c <- 3; close(c) }()
	println(Drain(c))
	d := make(chan int32)
	go func() { Send(d, 4); Send(d, 5); close(d) }()
	println(Sum(d))
}
`, "3", "9"),
	witness.Src("typeswitch_case_bare_type_parameter", "", `package main

type Point struct{ X, Y int32 }
type Celsius int32

func (c Celsius) Warm() bool { return c > 20 }

func Pick[T any](x any, def T) T {
	switch v := x.(type) {
	case T:
		return v
	case *T:
		return *v
	case []T:
		if len(v) > 0 {
			return v[0]
		}
	}
	return def
}

type Stack[T any] struct{ items []T }

func (s *Stack[T]) PushAny(x any) {
	switch v := x.(type) {
	case T:
		s.items = append(s.items, v)
	case Stack[T]:
		s.items = append(s.items, v.items...)
	}
}

func main() {
	println(Pick[int32](int32(41), 0) + 1)
	println(len(Pick[string]("go", "none") + "pher"))
	println(Pick[uint8](uint8(250), 0) + 10)
	p := Pick[Point](Point{3, 4}, Point{})
	println(p.X, p.Y)
	println(Pick[Celsius](Celsius(25), 0).Warm())
	q := int32(7)
	println(Pick[int32](&q, 0), Pick[int32]([]int32{8}, 0), Pick[int32]("no", 9))
	var s Stack[int32]
	s.PushAny(int32(1))
	s.PushAny("x")
	s.PushAny(Stack[int32]{items: []int32{2, 3}})
	sum := int32(0)
	for _, v := range s.items {
		sum += v
	}
	println(len(s.items), sum)
}
`, "42", "6", "4", "3 4", "true", "7 8 9", "3 6"),
	witness.Src("local_type_of_generic_func_as_type_argument", "local_type_of_generic_func_as_type_argument", `package main

func g[X any](v X) int32 { return 1 }

type P[T any] struct{ v T }

func (p *P[T]) M() int32 { return 2 }

func Run[X any]() {
	type C struct{ z X }
	var x C
	var y P[C]
	println(g(x), g(&x), g([]C{x}), y.M())
}

func main() { Run[int32]() }
`, "1 1 1 2"),
	witness.Src("local_type_under_two_type_parameters_all_argument_pairs", "", `package main

// a type declared inside a generic function with TWO type parameters: every pair of
// type arguments owns its own local type (Instances.tla: the instance map is equality
// of (nesting arguments, arguments)), whatever the hash of the argument lists
func mk[A, B any]() any {
	type local struct {
		a A
		b B
	}
	return local{}
}

// makes a value of its own local type and says whether x holds one
func pr[A, B any](x any) (any, bool) {
	type probe struct{ n int32 }
	_, ok := x.(probe)
	return probe{1}, ok
}

func mkp[A, B any]() any {
	v, _ := pr[A, B](nil)
	return v
}

func own[A, B any](x any) bool {
	_, ok := pr[A, B](x)
	return ok
}

func main() {
	var vals []any
	vals = append(vals, mk[int8, int8]())
	vals = append(vals, mk[int8, int16]())
	vals = append(vals, mk[int8, int32]())
	vals = append(vals, mk[int8, int64]())
	vals = append(vals, mk[int8, bool]())
	vals = append(vals, mk[int8, string]())
	vals = append(vals, mk[int16, int8]())
	vals = append(vals, mk[int16, int16]())
	vals = append(vals, mk[int16, int32]())
	vals = append(vals, mk[int16, int64]())
	vals = append(vals, mk[int16, bool]())
	vals = append(vals, mk[int16, string]())
	vals = append(vals, mk[int32, int8]())
	vals = append(vals, mk[int32, int16]())
	vals = append(vals, mk[int32, int32]())
	vals = append(vals, mk[int32, int64]())
	vals = append(vals, mk[int32, bool]())
	vals = append(vals, mk[int32, string]())
	vals = append(vals, mk[int64, int8]())
	vals = append(vals, mk[int64, int16]())
	vals = append(vals, mk[int64, int32]())
	vals = append(vals, mk[int64, int64]())
	vals = append(vals, mk[int64, bool]())
	vals = append(vals, mk[int64, string]())
	vals = append(vals, mk[bool, int8]())
	vals = append(vals, mk[bool, int16]())
	vals = append(vals, mk[bool, int32]())
	vals = append(vals, mk[bool, int64]())
	vals = append(vals, mk[bool, bool]())
	vals = append(vals, mk[bool, string]())
	vals = append(vals, mk[string, int8]())
	vals = append(vals, mk[string, int16]())
	vals = append(vals, mk[string, int32]())
	vals = append(vals, mk[string, int64]())
	vals = append(vals, mk[string, bool]())
	vals = append(vals, mk[string, string]())
	m := map[any]int{}
	eq := 0
	for i, v := range vals {
		m[v] = i
		for j, w := range vals {
			if i != j && v == w {
				eq++
			}
		}
	}
	println(len(vals), len(m), eq)
	// a local type whose layout does not mention the type parameters
	ps := []any{mkp[int8, int16](), mkp[int16, int8](), mkp[int32, string](), mkp[string, int32](), mkp[bool, int64](), mkp[int64, bool]()}
	pm := map[any]bool{}
	for _, p := range ps {
		pm[p] = true
	}
	println(len(pm), own[int8, int16](ps[0]), own[int8, int16](ps[1]), own[int16, int8](ps[1]), own[string, int32](ps[2]), own[bool, int64](ps[5]), own[int64, bool](ps[5]))
}
`, "36 36 0", "6 true false true false false true"),
	{Name: "qualified_generic_func_explicit_inst_in_generic_code", Key: "qualified_generic_func_explicit_inst_in_generic_code", Files: map[string]string{
		"main.go": `package main

import "vp/b"

func Run[X any](x X) int32 { return b.H[X](x) + b.H(x) }

func main() { println(Run[int32](1), Run("s")) }
`,
		"b/b.go": `package b

func H[T any](v T) int32 { return 5 }
`}, Want: []string{"10 10"}},
	witness.Src("generic_method_values_and_expressions", "", `package main

type Num interface{ ~int8 | ~uint8 | ~int16 }

type Acc[T Num] struct{ v T }

func (a *Acc[T]) Add(d T) T { a.v += d; return a.v }
func (a Acc[T]) Get() T     { return a.v }

func apply[T Num](f func(T) T, d T) T { return f(d) }

func main() {
	var a Acc[int8]
	add := a.Add
	get := Acc[int8].Get
	padd := (*Acc[int8]).Add
	println(apply(add, 100), apply(add, 100), get(a), padd(&a, 56))
	var u Acc[uint8]
	println(apply(u.Add, 200), apply(u.Add, 100), u.Get())
	type pair[K comparable, V any] struct {
		k K
		v V
	}
	m := map[pair[int8, string]]int32{}
	m[pair[int8, string]{1, "a"}]++
	m[pair[int8, string]{1, "a"}]++
	m[pair[int8, string]{2, "a"}]++
	println(len(m), m[pair[int8, string]{1, "a"}])
}
`, "100 -56 -56 0", "200 44 44", "2 2"),
	witness.Src("generic_closures_channels_recursion", "", `package main

func Map[T, U any](xs []T, f func(T) U) []U {
	out := make([]U, 0, len(xs))
	for _, x := range xs {
		out = append(out, f(x))
	}
	return out
}

func Fold[T, A any](xs []T, a A, f func(A, T) A) A {
	if len(xs) == 0 {
		return a
	}
	return Fold(xs[1:], f(a, xs[0]), f)
}

func Pipe[T any](xs []T) <-chan T {
	c := make(chan T)
	go func() {
		defer close(c)
		for _, x := range xs {
			c <- x
		}
	}()
	return c
}

type Tree[T any] struct {
	l, r *Tree[T]
	v    T
}

func (t *Tree[T]) Walk(f func(T)) {
	if t == nil {
		return
	}
	t.l.Walk(f)
	f(t.v)
	t.r.Walk(f)
}

func main() {
	ys := Map([]int32{1, 2, 3}, func(x int32) int64 { return int64(x) * 3 })
	println(int32(Fold(ys, int64(0), func(a int64, y int64) int64 { return a + y })))
	n := 0
	for s := range Pipe([]string{"a", "bc", "def"}) {
		n += len(s)
	}
	println(n)
	t := &Tree[int8]{l: &Tree[int8]{v: 1}, v: 2, r: &Tree[int8]{v: 3}}
	acc := int8(100)
	t.Walk(func(v int8) { acc += v * 10 })
	println(acc)
}
`, "18", "6", "-96"),
}
