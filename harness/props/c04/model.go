package c04

import (
	"encoding/json"
	"fmt"
	"sort"
	"strings"
)

// Term is a type term of Instances.tla: <<tag, n, name, subterms>>.
//
//	p k        type parameter k of the enclosing declaration
//	g name     ground type I8 | U8 | I16
//	s, q       slice of / pointer to Subs[0]
//	i j        instance of the generic struct type G_j with arguments Subs
//	l j        local type G_j; Subs = host arguments followed by own arguments
type Term struct {
	Tag  string
	N    int
	Name string
	Subs []*Term
}

func (t *Term) UnmarshalJSON(b []byte) error {
	var a []json.RawMessage
	if err := json.Unmarshal(b, &a); err != nil {
		return err
	}
	if len(a) != 4 {
		return fmt.Errorf("type term with %d components: %s", len(a), b)
	}
	if err := json.Unmarshal(a[0], &t.Tag); err != nil {
		return err
	}
	if err := json.Unmarshal(a[1], &t.N); err != nil {
		return err
	}
	if err := json.Unmarshal(a[2], &t.Name); err != nil {
		return err
	}
	return json.Unmarshal(a[3], &t.Subs)
}

func (t *Term) MarshalJSON() ([]byte, error) {
	subs := t.Subs
	if subs == nil {
		subs = []*Term{}
	}
	return json.Marshal([]any{t.Tag, t.N, t.Name, subs})
}

func (t *Term) has(tag string) bool {
	if t.Tag == tag {
		return true
	}
	for _, s := range t.Subs {
		if s.has(tag) {
			return true
		}
	}
	return false
}

// generic reports whether the term mentions an instance of a generic or local type.
func (t *Term) generic() bool { return t.has("i") || t.has("l") }

// Use is one instantiation written in a body or field type.
type Use struct {
	Tgt   int     `json:"tgt"`
	Args  []*Term `json:"args"`
	Site  string  `json:"site"`
	Style string  `json:"style"`
}

// Decl is a generic declaration.
type Decl struct {
	Kind string   `json:"kind"`
	Pkg  string   `json:"pkg"`
	NP   int      `json:"np"`
	Cons []string `json:"cons"`
	Host int      `json:"host"`
	Uses []Use    `json:"uses"`
}

// Root is an instantiation in non-generic code.
type Root struct {
	Pkg   string  `json:"pkg"`
	Tgt   int     `json:"tgt"`
	Args  []*Term `json:"args"`
	Style string  `json:"style"`
}

// Inst is an instance [d, m, args, nest].
type Inst struct {
	D    int     `json:"d"`
	M    int     `json:"m"`
	Args []*Term `json:"args"`
	Nest []*Term `json:"nest"`
}

// Event is <<kind, decl, depth, nonnil, nums, idvals, zerovals>>.
type Event struct {
	Kind  string
	Decl  int
	D     int
	NN    int
	Nums  []int
	IDs   []*Term
	Zeros []*Term
}

func (e *Event) UnmarshalJSON(b []byte) error {
	var a []json.RawMessage
	if err := json.Unmarshal(b, &a); err != nil {
		return err
	}
	if len(a) != 7 {
		return fmt.Errorf("event with %d components", len(a))
	}
	for i, dst := range []any{&e.Kind, &e.Decl, &e.D, &e.NN, &e.Nums, &e.IDs, &e.Zeros} {
		if err := json.Unmarshal(a[i], dst); err != nil {
			return err
		}
	}
	return nil
}

// Program is what the harness hands back to TLC (mode "given").
type Program struct {
	Decls []Decl `json:"decls"`
	Roots []Root `json:"roots"`
}

// ProgRec is one line written by Instances!EmitProg.
type ProgRec struct {
	Cid   int     `json:"cid"`
	Decls []Decl  `json:"decls"`
	Roots []Root  `json:"roots"`
	Fix   []Inst  `json:"fix"`
	Ref   []bool  `json:"ref"`
	Log   []Event `json:"log"`
	Cls   []int   `json:"cls"`

	Orders [][][]int `json:"-"` // final orders of the model: per package (m,a,b,c) indices (from 1) into Fix
	Origin string    `json:"-"` // scripted | witness
}

func (p *ProgRec) Program() Program { return Program{Decls: p.Decls, Roots: p.Roots} }

// Key is a canonical text of the program.
func (p Program) Key() string {
	b, _ := json.Marshal(p)
	return string(b)
}

func (d *Decl) hnp(ds []Decl) int {
	if d.Kind == "nested" {
		return ds[d.Host-1].NP
	}
	return 0
}

var pkgSeq = []string{"m", "a", "b", "c"}

func pkgPath(p string) string {
	if p == "m" {
		return "vp"
	}
	return "vp/" + p
}

func declName(ds []Decl, j int) string {
	switch ds[j-1].Kind {
	case "func":
		return fmt.Sprintf("G%d", j)
	case "type":
		return fmt.Sprintf("P%d", j)
	}
	return fmt.Sprintf("L%d", j)
}

// typeString is go/types.TypeString(t, nil) of a ground term.
func typeString(ds []Decl, t *Term) string {
	switch t.Tag {
	case "g":
		return "vp/t." + t.Name
	case "s":
		return "[]" + typeString(ds, t.Subs[0])
	case "q":
		return "*" + typeString(ds, t.Subs[0])
	case "i", "l":
		d := ds[t.N-1]
		own := t.Subs[d.hnp(ds):]
		s := pkgPath(d.Pkg) + "." + declName(ds, t.N)
		if len(own) > 0 {
			var l []string
			for _, x := range own {
				l = append(l, typeString(ds, x))
			}
			s += "[" + strings.Join(l, ", ") + "]" // go/types writes the arguments of an instantiated type with ", "
		}
		return s
	}
	return "?" + t.Tag
}

func typeList(ds []Decl, ts []*Term) string {
	var l []string
	for _, x := range ts {
		l = append(l, typeString(ds, x))
	}
	return strings.Join(l, ", ")
}

// instString is typeparams.Instance.String() of a model instance.
func instString(ds []Decl, in Inst) string {
	d := ds[in.D-1]
	name := pkgPath(d.Pkg) + "."
	if in.M == 1 {
		name += "(*" + declName(ds, in.D) + ").M"
	} else {
		name += declName(ds, in.D)
	}
	if len(in.Nest) == 0 && len(in.Args) == 0 {
		return name
	}
	s := "<"
	if len(in.Nest) > 0 {
		s += typeList(ds, in.Nest) + ";"
		if len(in.Args) > 0 {
			s += " "
		}
	}
	if len(in.Args) > 0 {
		s += typeList(ds, in.Args)
	}
	return name + s + ">"
}

// declFullName is the Decl.FullName the compiler gives the translated instance.
func declFullName(ds []Decl, in Inst) string {
	if ds[in.D-1].Kind == "func" || in.M == 1 {
		return "func:" + instString(ds, in)
	}
	return "type:" + instString(ds, in)
}

// classifiers of the program shape (known-finding keys are derived from them)

// explicitCrossPkgInGeneric: a generic function of ANOTHER package is instantiated
// with explicit type arguments (pkg.G[X](..)) inside generic code.
func (p Program) explicitCrossPkgInGeneric() bool {
	for _, d := range p.Decls {
		for _, u := range d.Uses {
			t := p.Decls[u.Tgt-1]
			if t.Kind == "func" && u.Style == "x" && t.Pkg != d.Pkg {
				return true
			}
		}
	}
	return false
}

// localTypeAsArg: a type declared inside a generic function is (part of) a type argument.
func (p Program) localTypeAsArg() bool {
	for _, d := range p.Decls {
		for _, u := range d.Uses {
			for _, a := range u.Args {
				if a.has("l") {
					return true
				}
			}
		}
	}
	return false
}

func (p Program) hasKind(k string) bool {
	for _, d := range p.Decls {
		if d.Kind == k {
			return true
		}
	}
	return false
}

func (p Program) pkgs() []string {
	m := map[string]bool{}
	for _, d := range p.Decls {
		m[d.Pkg] = true
	}
	for _, r := range p.Roots {
		m[r.Pkg] = true
	}
	var l []string
	for k := range m {
		l = append(l, k)
	}
	sort.Strings(l)
	return l
}

// shape is a coarse description used for coverage.
func (p Program) shape() string {
	var ks []string
	cross := false
	for _, d := range p.Decls {
		ks = append(ks, d.Kind[:1]+fmt.Sprint(len(d.Cons)))
		for _, u := range d.Uses {
			if p.Decls[u.Tgt-1].Pkg != d.Pkg {
				cross = true
			}
		}
	}
	return fmt.Sprintf("%s roots=%d pkgs=%d cross=%v", strings.Join(ks, ","), len(p.Roots), len(p.pkgs()), cross)
}
