// Package c04 decides C04 (every used generic instantiation exists, is distinct
// and behaves correctly).
//
// spec/Instances.tla defines the space of generic program shapes, the reference
// (least fixpoint of "the code of an instance mentions an instance", the
// observable behaviour Exec of the rendered program) and an implementation-shaped
// model of typeparams.Collector (Scan, Finish over a Go map, propagate with the
// unprocessed index, addInstance with methods, the InstanceMap).  TLC checks on
// the model that the collected set is the fixpoint for every iteration order and
// that the instance map agrees with equality of type terms, and writes the
// scenarios.  This package renders every scenario as a real multi-package Go
// module, builds it with the compiler under test, runs it under Node, runs it
// natively (guard) and compares
//   - the printed log with Exec (zero values, arithmetic width, method results,
//     blocking methods, type identity by ==, map key, type switch, assertion),
//   - the compiler's real instance sets and declaration names with the fixpoint,
//   - the real ORDER of the sets with the final orders of the model.
package c04

import (
	"encoding/json"
	"fmt"
	"math/rand"
	"os"
	"path/filepath"
	"sort"
	"strings"
	"sync"
	"time"

	"verif/core"
	"verif/gjs"
	"verif/props/witness"
	"verif/reg"
	"verif/tlcx"
)

func init() { reg.Register("C04", "model_checking", Run) }

const execDepth = 2

const cfgMain = "SPECIFICATION Spec\nINVARIANTS Sound Confluent Complete SeenOK Emit\nCHECK_DEADLOCK FALSE\n"
const cfgIds = "SPECIFICATION Spec\nINVARIANTS IdsDeterministic\nCHECK_DEADLOCK FALSE\n"

// Bounds is Params.bnd of Instances.tla.
type Bounds struct {
	MaxDecls  int      `json:"maxDecls"`
	MaxNP     int      `json:"maxNP"`
	MaxUses   int      `json:"maxUses"`
	MaxRoots  int      `json:"maxRoots"`
	TexDepth  int      `json:"texDepth"`
	RootDepth int      `json:"rootDepth"`
	Canon     bool     `json:"canon"`
	Kinds     []string `json:"kinds"`
	Pkgs      []string `json:"pkgs"`
	RootPkgs  []string `json:"rootPkgs"`
	Cons      []string `json:"cons"`
	Tags      []string `json:"tags"`
	Grounds   []string `json:"grounds"`
	Styles    []string `json:"styles"`
	Sites     []string `json:"sites"`
}

type tlaParams struct {
	Codes     [][]int   `json:"codes"`
	Given     []Program `json:"given"`
	Sorted    bool      `json:"sorted"`
	ExecDepth int       `json:"execDepth"`
	Out       string    `json:"out"`
	Bnd       Bounds    `json:"bnd"`
}

// FullBounds is the family the property statement quantifies over (sampled by
// seeded digit strings): <= 3 declarations, <= 2 type parameters, <= 2 uses per
// body, packages a b c (+ main), type expressions nested <= 2.
func FullBounds(localArgs bool) Bounds {
	b := Bounds{MaxDecls: 3, MaxNP: 2, MaxUses: 2, MaxRoots: 3, TexDepth: 2, RootDepth: 1,
		Kinds: []string{"func", "type", "nested"}, Pkgs: []string{"a", "b", "c"}, RootPkgs: []string{"m", "a", "b", "c"},
		Cons: []string{"any", "num"}, Tags: []string{"p", "g", "s", "q", "i"}, Grounds: []string{"I8", "U8", "I16"},
		Styles: []string{"x", "i"}, Sites: []string{"body", "field"}}
	if localArgs {
		b.Tags = append(b.Tags, "l")
	}
	return b
}

// ExhBounds is the family TLC enumerates completely.
func ExhBounds(thorough bool) Bounds {
	if thorough {
		return Bounds{MaxDecls: 3, MaxNP: 1, MaxUses: 1, MaxRoots: 2, TexDepth: 0, RootDepth: 0, Canon: true,
			Kinds: []string{"func", "type"}, Pkgs: []string{"a", "b", "c"}, RootPkgs: []string{"m"},
			Cons: []string{"any"}, Tags: []string{"p", "g"}, Grounds: []string{"I8", "U8"},
			Styles: []string{"i"}, Sites: []string{"body", "field"}}
	}
	return Bounds{MaxDecls: 2, MaxNP: 1, MaxUses: 1, MaxRoots: 2, TexDepth: 1, RootDepth: 0, Canon: true,
		Kinds: []string{"func", "type"}, Pkgs: []string{"a", "c"}, RootPkgs: []string{"m"},
		Cons: []string{"any"}, Tags: []string{"p", "g", "s"}, Grounds: []string{"I8", "U8"},
		Styles: []string{"i"}, Sites: []string{"body", "field"}}
}

func decodeLine(raw json.RawMessage, into any) error {
	if len(raw) > 0 && raw[0] == '"' {
		var inner string
		if err := json.Unmarshal(raw, &inner); err != nil {
			return err
		}
		return json.Unmarshal([]byte(inner), into)
	}
	return json.Unmarshal(raw, into)
}

type orderLine struct {
	Cid    int     `json:"cid"`
	Decls  []Decl  `json:"decls"`
	Roots  []Root  `json:"roots"`
	Rounds int     `json:"rounds"`
	Order  [][]int `json:"order"`
}

// RunModel runs Instances.tla and returns the emitted programs (keyed modes)
// or, in exhaustive mode, the final orders grouped by program.
type ModelOut struct {
	Res    *tlcx.Result
	Progs  []*ProgRec              // keyed modes
	Orders map[string]*ExhProgram  // exhaustive mode: program key -> orders
}

// ExhProgram is one program of the exhaustive family with the model's final orders.
type ExhProgram struct {
	Prog   Program
	Orders map[string]bool
	Rounds int
}

func RunModel(c *core.Ctx, p tlaParams, cfg string, workers int, timeout time.Duration) (*ModelOut, error) {
	p.Out = "scen"
	p.ExecDepth = execDepth
	if p.Codes == nil {
		p.Codes = [][]int{}
	}
	if p.Given == nil {
		p.Given = []Program{}
	}
	pj, _ := json.Marshal(p)
	r, err := tlcx.Run(c, tlcx.Opts{Module: "Instances", Cfg: cfg, Workers: workers, Timeout: timeout,
		Files: map[string]string{"c04_params.json": string(pj)}, HeapMB: 6144})
	if err != nil {
		return nil, err
	}
	out := &ModelOut{Res: r, Orders: map[string]*ExhProgram{}}
	keyed := len(p.Codes) > 0 || len(p.Given) > 0
	byCid := map[int]*ProgRec{}
	if keyed {
		files, _ := filepath.Glob(filepath.Join(r.Dir, "scen.prog.*.ndjson"))
		sort.Strings(files)
		for _, f := range files {
			err := tlcx.ReadNDJSON(f, func(raw json.RawMessage) error {
				rec := &ProgRec{}
				if err := decodeLine(raw, rec); err != nil {
					return err
				}
				byCid[rec.Cid] = rec
				return nil
			})
			if err != nil {
				return out, fmt.Errorf("decode %s: %v", f, err)
			}
		}
	}
	of := filepath.Join(r.Dir, "scen.order.ndjson")
	if _, e := os.Stat(of); e == nil {
		err := tlcx.ReadNDJSON(of, func(raw json.RawMessage) error {
			var ol orderLine
			if err := decodeLine(raw, &ol); err != nil {
				return err
			}
			if keyed {
				rec := byCid[ol.Cid]
				if rec == nil {
					return fmt.Errorf("order line for unknown program %d", ol.Cid)
				}
				rec.Orders = append(rec.Orders, ol.Order)
				return nil
			}
			pr := Program{Decls: ol.Decls, Roots: ol.Roots}
			k := pr.Key()
			ep := out.Orders[k]
			if ep == nil {
				ep = &ExhProgram{Prog: pr, Orders: map[string]bool{}}
				out.Orders[k] = ep
			}
			ob, _ := json.Marshal(ol.Order)
			ep.Orders[string(ob)] = true
			if ol.Rounds > ep.Rounds {
				ep.Rounds = ol.Rounds
			}
			return nil
		})
		if err != nil {
			return out, fmt.Errorf("decode %s: %v", of, err)
		}
	}
	cids := make([]int, 0, len(byCid))
	for k := range byCid {
		cids = append(cids, k)
	}
	sort.Ints(cids)
	for _, k := range cids {
		out.Progs = append(out.Progs, byCid[k])
	}
	return out, nil
}

func seededCodes(rng *rand.Rand, n int) [][]int {
	codes := make([][]int, n)
	for i := range codes {
		codes[i] = make([]int, 48)
		for j := range codes[i] {
			codes[i][j] = rng.Intn(100000)
		}
	}
	return codes
}

// distinctOrders of a keyed program.
func distinctOrders(rec *ProgRec) int {
	m := map[string]bool{}
	for _, o := range rec.Orders {
		b, _ := json.Marshal(o)
		m[string(b)] = true
	}
	return len(m)
}

// Witnesses selects the smallest order-sensitive programs of an exhaustive run,
// at most one per coarse shape first.
func Witnesses(orders map[string]*ExhProgram, n int) []Program {
	type cand struct {
		p    Program
		size int
		key  string
	}
	var cs []cand
	for k, ep := range orders {
		if len(ep.Orders) < 2 {
			continue
		}
		uses := 0
		for _, d := range ep.Prog.Decls {
			uses += len(d.Uses)
		}
		cs = append(cs, cand{ep.Prog, len(ep.Prog.Decls)*100 + uses*10 + len(ep.Prog.Roots), k})
	}
	sort.Slice(cs, func(i, j int) bool {
		if cs[i].size != cs[j].size {
			return cs[i].size < cs[j].size
		}
		return cs[i].key < cs[j].key
	})
	var out []Program
	seen := map[string]bool{}
	for pass := 0; pass < 2 && len(out) < n; pass++ {
		for _, x := range cs {
			if len(out) >= n {
				break
			}
			sh := x.p.shape()
			if pass == 0 && seen[sh] {
				continue
			}
			if pass == 1 && seen[x.key] {
				continue
			}
			seen[sh] = true
			seen[x.key] = true
			out = append(out, x.p)
		}
	}
	return out
}

// F6Witness is the shape of DESIGN.md section 6 F6: generic functions of the packages a
// and b each instantiate the generic function of package c with a different argument.
func F6Witness() Program {
	tp := &Term{Tag: "p", N: 1, Subs: []*Term{}}
	g := func(n string) *Term { return &Term{Tag: "g", Name: n, Subs: []*Term{}} }
	any1 := []string{"any"}
	return Program{
		Decls: []Decl{
			{Kind: "func", Pkg: "a", NP: 1, Cons: any1, Uses: []Use{{Tgt: 3, Args: []*Term{tp}, Site: "body", Style: "i"}}},
			{Kind: "func", Pkg: "b", NP: 1, Cons: any1, Uses: []Use{{Tgt: 3, Args: []*Term{tp}, Site: "body", Style: "i"}}},
			{Kind: "func", Pkg: "c", NP: 1, Cons: any1, Uses: []Use{}},
		},
		Roots: []Root{
			{Pkg: "m", Tgt: 1, Args: []*Term{g("I8")}, Style: "i"},
			{Pkg: "m", Tgt: 2, Args: []*Term{g("U8")}, Style: "i"},
		},
	}
}

type checker struct {
	c    *core.Ctx
	pool *gjs.Pool
	mu   sync.Mutex
	// counters
	lines, insts, ordersOK, ordersDrift, supersets, realVaries int
	driftSamples                                             []string
}

func normLines(ls []string) []string {
	out := make([]string, len(ls))
	for i, l := range ls {
		if l == "-0" {
			l = "0"
		}
		out[i] = strings.ReplaceAll(l, " -0", " 0")
	}
	return out
}

func sameLines(a, b []string) bool {
	if len(a) != len(b) {
		return false
	}
	for i := range a {
		if a[i] != b[i] {
			return false
		}
	}
	return true
}

func firstDiff(got, want []string) string {
	for i := 0; i < len(got) || i < len(want); i++ {
		g, w := "<none>", "<none>"
		if i < len(got) {
			g = got[i]
		}
		if i < len(want) {
			w = want[i]
		}
		if g != w {
			return fmt.Sprintf("line %d: predicted %q, observed %q", i+1, w, g)
		}
	}
	return "same lines"
}

func (ck *checker) report(rec *ProgRec, prog gjs.Prog, want []string, keys []string, summary string, extra map[string]string) {
	files := prog.ReplayFiles("prog")
	if _, setsCase := extra["real_instance_sets.json"]; !setsCase {
		// (cases about the instance sets are replayed by this package: no predicted.txt)
		files["predicted.txt"] = strings.Join(want, "\n") + "\nend=exit\n"
	}
	pj, _ := json.MarshalIndent(rec.Program(), "", " ")
	files["scenario.json"] = string(pj) + "\n"
	for k, v := range extra {
		files[k] = v
	}
	ck.c.Report(core.Case{Keys: keys, Summary: summary, Files: files})
}

// shapeKeys are the classifier keys a failing program of this shape may carry.
func shapeKeys(p Program, msg string) []string {
	var keys []string
	if p.explicitCrossPkgInGeneric() && strings.Contains(msg, "Substituting types.Signatures with generic functions") {
		keys = append(keys, "qualified_generic_func_explicit_inst_in_generic_code")
	}
	if p.localTypeAsArg() {
		keys = append(keys, "local_type_of_generic_func_as_type_argument")
	}
	// two more internal errors of the compiler on types declared inside generic functions (thorough tier)
	if p.hasKind("nested") && strings.Contains(msg, "requesting ID of instance") && strings.Contains(msg, "hasn't been added to the set") {
		keys = append(keys, "nested_type_instance_id_not_registered")
	}
	if p.hasKind("nested") && strings.Contains(msg, "number of nesting type parameters and arguments must match") {
		keys = append(keys, "nesting_type_params_and_args_mismatch")
	}
	return keys
}

// check renders one scenario, runs it and compares. nbuilds > 1: that many fresh
// compiler processes, each validated against the model's final orders.
func (ck *checker) check(rec *ProgRec, nbuilds int) {
	c := ck.c
	p := rec.Program()
	inferAll := false
	prog, want := Render(rec, execDepth, inferAll)
	b := ck.pool.RunBoth(c.Scratch, prog, gjs.Opts{}, 2*time.Minute, true, true)
	if b.Dir != "" {
		defer os.RemoveAll(b.Dir)
	}
	// guard: the reference toolchain must accept the program and print what the
	// specification predicts
	if b.NativeErr != "" {
		c.Add("spec_guard_discards", 1)
		c.Sample(map[string]any{"discarded": p.Key(), "native_error": tailStr(b.NativeErr, 400)})
		return
	}
	if b.Native.End != "exit" || !sameLines(normLines(b.Native.Lines), want) {
		c.Add("spec_guard_discards", 1)
		c.Sample(map[string]any{"discarded": p.Key(), "native": firstDiff(normLines(b.Native.Lines), want), "end": b.Native.End})
		return
	}
	if b.BuildErr != nil {
		be, ok := b.BuildErr.(*gjs.BuildError)
		if !ok {
			c.Infra(fmt.Errorf("gopherjs build: %v", b.BuildErr))
			return
		}
		keys := shapeKeys(p, be.Error())
		kind := "rejects"
		if be.Panic || strings.Contains(be.Error(), "compiler panic") {
			kind = "crashes on"
		}
		ck.report(rec, prog, want, append(keys, "compiler_fails_on_legal_generic_program"),
			fmt.Sprintf("the compiler %s a legal program (go builds and runs it as predicted): %s", kind, firstLineOf(be.Error())), nil)
		if len(keys) > 0 && keys[0] == "qualified_generic_func_explicit_inst_in_generic_code" && !p.localTypeAsArg() {
			// the same program with these instantiations written by inference exercises the rest
			inferAll = true
			prog, want = Render(rec, execDepth, true)
			os.RemoveAll(b.Dir)
			b = ck.pool.RunBoth(c.Scratch, prog, gjs.Opts{}, 2*time.Minute, false, true)
			if b.Dir != "" {
				defer os.RemoveAll(b.Dir)
			}
			if b.BuildErr != nil {
				if be2, ok := b.BuildErr.(*gjs.BuildError); ok {
					ck.report(rec, prog, want, []string{"compiler_fails_on_legal_generic_program"},
						fmt.Sprintf("the compiler fails on a legal program (instantiations by inference): %s", firstLineOf(be2.Error())), nil)
				} else {
					c.Infra(fmt.Errorf("gopherjs build: %v", b.BuildErr))
				}
				return
			}
		} else {
			return
		}
	}
	c.Add("evaluations", 1)
	c.Distinct(p.Key())
	got := normLines(b.JS.Lines)
	ck.mu.Lock()
	ck.lines += len(want)
	ck.mu.Unlock()
	if b.JS.End != "exit" || !sameLines(got, want) {
		keys := shapeKeys(p, "")
		ck.report(rec, prog, want, append(keys, "behaviour_differs"),
			fmt.Sprintf("compiled program differs from the specification and from go: %s (end=%s %s)", firstDiff(got, want), b.JS.End, b.JS.Msg),
			map[string]string{"observed.txt": strings.Join(got, "\n") + "\nend=" + b.JS.End + "\n"})
	}
	// the real instance sets, read in fresh compiler processes
	varies := map[string]bool{}
	for n := 0; n < nbuilds; n++ {
		res, err := RunChild(ChildJob{Dir: b.Dir, Dump: true}, 3*time.Minute)
		if err != nil {
			c.Infra(err)
			return
		}
		if res.Err != "" {
			ck.report(rec, prog, want, []string{"compiler_fails_on_legal_generic_program"}, "the compiler failed in a fresh process on a program it had compiled: "+firstLineOf(res.Err), nil)
			return
		}
		ob, _ := json.Marshal(res.Sets)
		first := !varies[string(ob)]
		varies[string(ob)] = true
		if !first {
			continue
		}
		ck.compareSets(rec, prog, want, res, n == 0)
	}
	if len(varies) > 1 {
		ck.mu.Lock()
		ck.realVaries++
		ck.mu.Unlock()
	}
}

func firstLineOf(s string) string {
	s = strings.TrimSpace(s)
	if i := strings.Index(s, "\n\nOriginal stack"); i >= 0 {
		s = s[:i]
	}
	if i := strings.Index(s, "\nDetailed AST"); i >= 0 {
		s = s[:i]
	}
	s = strings.ReplaceAll(s, "\n", " ")
	if len(s) > 400 {
		s = s[:400]
	}
	return s
}

func (ck *checker) compareSets(rec *ProgRec, prog gjs.Prog, want []string, res *ChildResult, countInsts bool) {
	ds := rec.Decls
	p := rec.Program()
	// predicted per package
	pred := map[string]map[string]int{}   // path -> instance string -> multiplicity (ImplFix)
	needed := map[string]map[string]int{} // RefFix only
	for i, in := range rec.Fix {
		path := pkgPath(ds[in.D-1].Pkg)
		if pred[path] == nil {
			pred[path] = map[string]int{}
			needed[path] = map[string]int{}
		}
		s := instString(ds, in)
		pred[path][s]++
		if rec.Ref[i] {
			needed[path][s]++
		}
	}
	var missing, extra, undeclared []string
	for path, m := range pred {
		real := map[string]int{}
		for _, s := range res.Sets[path] {
			real[s]++
		}
		for s, n := range needed[path] {
			if real[s] < n {
				missing = append(missing, s)
			}
		}
		for s, n := range m {
			if real[s] < n && needed[path][s] == 0 {
				extra = append(extra, "model-only:"+s)
			}
		}
		for s, n := range real {
			if m[s] < n {
				extra = append(extra, "real-only:"+s)
			}
		}
	}
	for path, l := range res.Sets {
		if pred[path] == nil && len(l) > 0 && path != "vp/t" {
			for _, s := range l {
				extra = append(extra, "real-only:"+s)
			}
		}
	}
	// every needed instance must have been translated
	for i, in := range rec.Fix {
		if !rec.Ref[i] {
			continue
		}
		path := pkgPath(ds[in.D-1].Pkg)
		fn := declFullName(ds, in)
		found := false
		for _, d := range res.Decls[path] {
			if d == fn {
				found = true
				break
			}
		}
		if !found {
			undeclared = append(undeclared, fn)
		}
	}
	if countInsts {
		ck.mu.Lock()
		ck.insts += len(rec.Fix)
		ck.mu.Unlock()
	}
	sort.Strings(missing)
	sort.Strings(undeclared)
	sort.Strings(extra)
	if len(missing) > 0 || len(undeclared) > 0 {
		sj, _ := json.MarshalIndent(res.Sets, "", " ")
		ck.report(rec, prog, want, append(shapeKeys(p, ""), "instance_missing"),
			fmt.Sprintf("instances the program needs are not in the compiler's instance sets / archives: missing %v, not translated %v", missing, undeclared),
			map[string]string{"real_instance_sets.json": string(sj) + "\n"})
		return
	}
	if len(extra) > 0 {
		// a superset is harmless for the property; it means the implementation-shaped
		// model and the code drifted apart
		ck.mu.Lock()
		ck.supersets++
		if len(ck.driftSamples) < 3 {
			ck.driftSamples = append(ck.driftSamples, fmt.Sprintf("%v in %s", extra, p.Key()))
		}
		ck.mu.Unlock()
		return
	}
	// order: the real sets must be one of the model's final orders
	realOrd := map[string][]string{}
	for path, l := range res.Sets {
		if len(l) > 0 {
			realOrd[path] = l
		}
	}
	rb, _ := json.Marshal(realOrd)
	ok := false
	for _, o := range rec.Orders {
		mo := map[string][]string{}
		for q, idxs := range o {
			if len(idxs) == 0 {
				continue
			}
			var l []string
			for _, ix := range idxs {
				l = append(l, instString(ds, rec.Fix[ix-1]))
			}
			mo[pkgPath(pkgSeq[q])] = l
		}
		mb, _ := json.Marshal(mo)
		if string(mb) == string(rb) {
			ok = true
			break
		}
	}
	ck.mu.Lock()
	if ok {
		ck.ordersOK++
	} else {
		ck.ordersDrift++
		if len(ck.driftSamples) < 3 {
			ck.driftSamples = append(ck.driftSamples, fmt.Sprintf("order %s is none of the %d model orders of %s", rb, len(rec.Orders), p.Key()))
		}
	}
	ck.mu.Unlock()
}

// Run is the C04 check.
func Run(c *core.Ctx, pool *gjs.Pool) {
	if rd := os.Getenv("VERIF_REPLAY"); rd != "" {
		replay(c, pool, rd)
		return
	}
	c.Assumef("programs are rendered from the shapes of Instances.tla: struct types with one pointer-receiver method, functions, struct types local to generic functions; constraints any and Num; ground types are named int8/uint8/int16")
	c.Assumef("behaviour is observed through a log printed at the end (println of 32-bit integers and ASCII); type identity through interface ==, map keys, a type switch on the non-generic types and a type assertion T1 -> T2 inside generic code")
	c.Assumef("legality of a shape (no expanding instantiation cycle) is decided by Instances!Legal and confirmed by the reference toolchain; shapes it rejects are discarded and counted")
	rng := rand.New(rand.NewSource(c.Seed))
	workers := 6

	// 1. exhaustive family: all invariants, all iteration orders
	exh, err := RunModel(c, tlaParams{Bnd: ExhBounds(c.Thorough())}, cfgMain, workers, time.Duration(c.Pick(12, 40))*time.Minute)
	if err != nil || exh.Res == nil {
		c.Infra(fmt.Errorf("Instances (exhaustive): %v", err))
		return
	}
	if !tlcx.MustComplete(c, exh.Res, nil, "Instances (exhaustive family)") {
		return
	}
	c.Phase("tlc_exhaustive")
	sens := 0
	for _, ep := range exh.Orders {
		if len(ep.Orders) > 1 {
			sens++
		}
	}
	c.Set("exhaustive_family_programs", len(exh.Orders))
	c.Set("exhaustive_family_order_sensitive", sens)
	eb, _ := json.Marshal(ExhBounds(c.Thorough()))
	c.Set("exhaustive_family", json.RawMessage(eb))

	// 2. seeded programs over the full bounds (with and without local types as arguments)
	nA, nB := c.Pick(110, 1500), c.Pick(20, 200)
	if v := os.Getenv("C04_N"); v != "" { // development aid
		fmt.Sscanf(v, "%d,%d", &nA, &nB)
	}
	var recs []*ProgRec
	for bi, n := range []int{nA, nB} {
		m, err := RunModel(c, tlaParams{Codes: seededCodes(rng, n), Bnd: FullBounds(bi == 1)}, cfgMain, workers, time.Duration(c.Pick(10, 30))*time.Minute)
		if err != nil || m.Res == nil {
			c.Infra(fmt.Errorf("Instances (scripted): %v", err))
			return
		}
		if !tlcx.MustComplete(c, m.Res, nil, "Instances (seeded programs)") {
			return
		}
		for _, r := range m.Progs {
			r.Origin = "scripted"
		}
		recs = append(recs, m.Progs...)
	}
	c.Phase("tlc_scripted")

	// 3. witnesses of order sensitivity found in the exhaustive family (and the F6 shape)
	wit := append([]Program{F6Witness()}, Witnesses(exh.Orders, c.Pick(5, 20))...)
	wm, err := RunModel(c, tlaParams{Given: wit, Bnd: FullBounds(false)}, cfgMain, workers, 10*time.Minute)
	if err != nil || wm.Res == nil {
		c.Infra(fmt.Errorf("Instances (witnesses): %v", err))
		return
	}
	if !tlcx.MustComplete(c, wm.Res, nil, "Instances (witness programs)") {
		return
	}
	for _, r := range wm.Progs {
		r.Origin = "witness"
	}
	// at the level of the model: ids are NOT a function of the program for the unsorted range
	// (F6), and they are for the sorted one
	ids1, err := RunModel(c, tlaParams{Given: wit, Bnd: FullBounds(false)}, cfgIds, 2, 10*time.Minute)
	if err != nil || ids1.Res == nil {
		c.Infra(fmt.Errorf("Instances (IdsDeterministic): %v", err))
		return
	}
	ids2, err := RunModel(c, tlaParams{Given: wit, Bnd: FullBounds(false), Sorted: true}, cfgIds, 2, 10*time.Minute)
	if err != nil || ids2.Res == nil {
		c.Infra(fmt.Errorf("Instances (IdsDeterministic, sorted): %v", err))
		return
	}
	c.Set("model_ids_depend_on_map_order", ids1.Res.Violated == "IdsDeterministic")
	c.Set("model_ids_deterministic_with_sorted_range", ids2.Res.Completed)
	if ids1.Res.Violated != "IdsDeterministic" && !ids1.Res.Completed {
		c.Infra(fmt.Errorf("Instances (IdsDeterministic): unexpected TLC outcome %q\n%s", ids1.Res.Violated, tlcx.Tail(ids1.Res.Output, 30)))
		return
	}
	if !ids2.Res.Completed {
		c.Infra(fmt.Errorf("Instances (IdsDeterministic, sorted range): TLC did not complete (%q)\n%s", ids2.Res.Violated, tlcx.Tail(ids2.Res.Output, 30)))
		return
	}
	c.Phase("tlc_witness")
	c.Set("checker_cmd", "tlc Instances (INVARIANTS Sound Confluent Complete SeenOK Emit) on the exhaustive family, the seeded programs and the witnesses; tlc Instances (INVARIANT IdsDeterministic) on the witnesses with the unsorted (expected: violated, F6) and the sorted range (expected: holds)")
	c.Set("exhaustive", true)

	// 4. bind to the real compiler
	ck := &checker{c: c, pool: pool}
	skipped := nA + nB - len(recs)
	c.Set("seeded_codes", nA+nB)
	c.Set("seeded_codes_dropped_by_model", skipped)
	all := append(append([]*ProgRec{}, wm.Progs...), recs...)
	// drop duplicates
	seen := map[string]bool{}
	var uniq []*ProgRec
	for _, r := range all {
		k := r.Program().Key()
		if !seen[k] {
			seen[k] = true
			uniq = append(uniq, r)
		}
	}
	c.Set("programs", len(uniq))
	msens := 0
	shapes := map[string]int{}
	for _, r := range uniq {
		if distinctOrders(r) > 1 {
			msens++
		}
		shapes[r.Program().shape()]++
	}
	c.Set("programs_order_sensitive_in_model", msens)
	c.Set("program_shapes", len(shapes))
	c.ParMap(len(uniq), func(i int) {
		n := 1
		if uniq[i].Origin == "witness" {
			n = c.Pick(6, 12)
		}
		ck.check(uniq[i], n)
	})
	c.Phase("bind")
	c.Set("lines_compared", ck.lines)
	c.Set("instances_compared", ck.insts)
	c.Set("traces_validated_against_impl", ck.ordersOK)
	c.Set("model_drift_orders", ck.ordersDrift)
	c.Set("model_drift_sets", ck.supersets)
	c.Set("witness_programs_whose_real_order_varied", ck.realVaries)
	if c.Get("spec_guard_discards") == 0 {
		c.Set("spec_guard_discards", 0)
	}
	if ck.ordersDrift+ck.supersets > 0 {
		fmt.Printf("MODEL-DRIFT: %d programs whose real instance order is none of the model's final orders, %d whose real set differs from the model's fixpoint without missing a needed instance; e.g. %v\n", ck.ordersDrift, ck.supersets, ck.driftSamples)
	}
	witness.Run(c, pool, witnesses)
	c.Phase("witnesses")
	c.Set("rule", "TLC builds programs of Instances.tla choice by choice: every program of the exhaustive family (coverage.exhaustive_family) with every iteration order of Collector.Finish is model-checked; programs over the full bounds (<=3 declarations, <=2 type parameters, <=2 uses per body, packages a b c + main, type expressions nested <=2) are selected by VERIF_SEED digit strings, model-checked with every iteration order, rendered as Go modules and run; distinct = distinct programs that were compiled, run and compared (each contains at least one generic instantiation reached through generic code or a root, so every one is non-trivial); exhaustive refers to the exhaustive family and to the iteration orders of every program")
	for i, r := range uniq {
		if i%(len(uniq)/4+1) == 0 {
			c.Sample(map[string]any{"program": r.Program(), "instances": len(r.Fix), "log_events": len(r.Log), "model_orders": distinctOrders(r), "origin": r.Origin})
		}
	}
}

// replay re-decides one recorded scenario (scenario.json) through the model and the compiler.
func replay(c *core.Ctx, pool *gjs.Pool, dir string) {
	b, err := os.ReadFile(filepath.Join(dir, "scenario.json"))
	if err != nil {
		c.Infra(err)
		return
	}
	var p Program
	if err := json.Unmarshal(b, &p); err != nil {
		c.Infra(err)
		return
	}
	m, err := RunModel(c, tlaParams{Given: []Program{p}, Bnd: FullBounds(true)}, cfgMain, 2, 10*time.Minute)
	if err != nil || m.Res == nil || !tlcx.MustComplete(c, m.Res, nil, "Instances (replay)") {
		if err != nil {
			c.Infra(err)
		}
		return
	}
	ck := &checker{c: c, pool: pool}
	for _, r := range m.Progs {
		ck.check(r, 3)
	}
	c.Set("rule", "replay of one recorded scenario")
}
