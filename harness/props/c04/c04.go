// Package c04 decides C04 (see DESIGN.md section 4). Not built yet.
package c04
