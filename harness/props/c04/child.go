package c04

import (
	"crypto/sha256"
	"encoding/hex"
	"encoding/json"
	"fmt"
	"os"
	"os/exec"
	"path/filepath"
	"sort"
	"strings"
	"time"

	gbuild "github.com/gopherjs/gopherjs/build"

	"verif/gjs"
)

// A build in a FRESH compiler process.  The harness binary re-executes itself
// as `vcheck __c04child <job.json>` with the working directory inside the
// scenario's module (the compiler resolves module-mode imports relative to the
// process working directory).  A fresh process per build matters twice:
//   - C04 reads the compiler's instance sets (order = the numeric ids of the
//     instances) through the public API after BuildProject;
//   - C17 needs Go's per-process / per-range randomisation of map iteration to
//     be re-drawn for every build.

// ChildJob describes one build.
type ChildJob struct {
	Dir     string   `json:"dir"`             // module directory (cwd of the child)
	Out     string   `json:"out"`             // output file ("" = do not link)
	Minify  bool     `json:"minify"`
	MapFile bool     `json:"mapfile"`
	Files   []string `json:"files,omitempty"` // non-empty: Session.BuildFiles with this file list (in this order)
	Before  string   `json:"before,omitempty"` // directory of another main package built earlier in the same session
	Dump    bool     `json:"dump"`            // report instance sets and declaration names
}

// ChildResult is what the child prints as one JSON line.
type ChildResult struct {
	Err    string              `json:"err,omitempty"`
	Panic  bool                `json:"panic,omitempty"`
	Sets   map[string][]string `json:"sets,omitempty"`  // import path -> Instance.String() in id order (Values())
	Decls  map[string][]string `json:"decls,omitempty"` // import path -> FullName of func:/type: declarations of instances
	JSSum  string              `json:"js_sha256,omitempty"`
	MapSum string              `json:"map_sha256,omitempty"`
	JSLen  int                 `json:"js_len,omitempty"`
}

func init() {
	if len(os.Args) >= 3 && os.Args[1] == "__c04child" {
		childMain(os.Args[2])
	}
}

func childMain(jobFile string) {
	var res ChildResult
	emit := func() {
		b, _ := json.Marshal(res)
		os.Stdout.Write(append(b, '\n'))
		os.Exit(0)
	}
	raw, err := os.ReadFile(jobFile)
	if err != nil {
		res.Err = "job: " + err.Error()
		emit()
	}
	var j ChildJob
	if err := json.Unmarshal(raw, &j); err != nil {
		res.Err = "job: " + err.Error()
		emit()
	}
	gjs.Init()
	if err := os.Chdir(j.Dir); err != nil {
		res.Err = err.Error()
		emit()
	}
	func() {
		defer func() {
			if r := recover(); r != nil {
				res.Err = fmt.Sprintf("compiler panic: %v", r)
				res.Panic = true
			}
		}()
		childBuild(&j, &res)
	}()
	emit()
}

func childBuild(j *ChildJob, res *ChildResult) {
	s, err := gbuild.NewSession(&gbuild.Options{NoCache: true, Minify: j.Minify, CreateMapFile: j.MapFile, Quiet: true})
	if err != nil {
		res.Err = err.Error()
		return
	}
	if j.Before != "" {
		// another command compiled earlier in the same session (what
		// `gopherjs install pkg1 pkg2` does)
		pkg, err := s.XContext().Import(".", j.Before, 0)
		if err != nil {
			res.Err = "before: " + err.Error()
			return
		}
		if _, err := s.BuildProject(pkg); err != nil {
			res.Err = "before: " + err.Error()
			return
		}
	}
	if len(j.Files) > 0 {
		if err := s.BuildFiles(j.Files, j.Out, j.Dir); err != nil {
			res.Err = err.Error()
			return
		}
	} else {
		pkg, err := s.XContext().Import(".", j.Dir, 0)
		if err != nil {
			res.Err = err.Error()
			return
		}
		archive, err := s.BuildProject(pkg)
		if err != nil {
			res.Err = err.Error()
			return
		}
		if j.Out != "" {
			if err := s.WriteCommandPackage(archive, j.Out); err != nil {
				res.Err = err.Error()
				return
			}
		}
	}
	if j.Dump {
		res.Sets = map[string][]string{}
		res.Decls = map[string][]string{}
		for _, srcs := range s.GetSortedSources() {
			if srcs.TypeInfo == nil || srcs.TypeInfo.InstanceSets == nil {
				continue
			}
			for path, iset := range *srcs.TypeInfo.InstanceSets {
				if !strings.HasPrefix(path, "vp") {
					continue
				}
				if _, done := res.Sets[path]; done {
					continue
				}
				var l []string
				for _, inst := range iset.Values() {
					l = append(l, inst.String())
				}
				res.Sets[path] = l
			}
		}
		for path, a := range s.UpToDateArchives {
			if !strings.HasPrefix(path, "vp") {
				continue
			}
			var l []string
			for _, d := range a.Declarations {
				if strings.HasPrefix(d.FullName, "func:") || strings.HasPrefix(d.FullName, "type:") {
					l = append(l, d.FullName)
				}
			}
			sort.Strings(l)
			res.Decls[path] = l
		}
	}
	if j.Out != "" {
		if b, err := os.ReadFile(j.Out); err == nil {
			h := sha256.Sum256(b)
			res.JSSum = hex.EncodeToString(h[:])
			res.JSLen = len(b)
		}
		if j.MapFile {
			if b, err := os.ReadFile(j.Out + ".map"); err == nil {
				h := sha256.Sum256(b)
				res.MapSum = hex.EncodeToString(h[:])
			}
		}
	}
}

// RunChild executes one build in a fresh process. The error is an
// infrastructure failure (the child did not answer); compiler failures are in
// ChildResult.Err.
func RunChild(j ChildJob, timeout time.Duration) (*ChildResult, error) {
	exe, err := os.Executable()
	if err != nil {
		return nil, err
	}
	jf, err := os.CreateTemp(j.Dir, "c04job-*.json")
	if err != nil {
		return nil, err
	}
	defer os.Remove(jf.Name())
	b, _ := json.Marshal(j)
	jf.Write(b)
	jf.Close()
	cmd := exec.Command(exe, "__c04child", jf.Name())
	cmd.Dir = j.Dir
	var stderr strings.Builder
	cmd.Stderr = &stderr
	done := make(chan struct{})
	var out []byte
	var runErr error
	go func() {
		out, runErr = cmd.Output()
		close(done)
	}()
	select {
	case <-done:
	case <-time.After(timeout):
		if cmd.Process != nil {
			cmd.Process.Kill()
		}
		<-done
		return nil, fmt.Errorf("child build timed out after %v", timeout)
	}
	lines := strings.Split(strings.TrimSpace(string(out)), "\n")
	last := lines[len(lines)-1]
	var res ChildResult
	if e := json.Unmarshal([]byte(last), &res); e != nil {
		if runErr != nil {
			// the compiler process died (fatal error beyond recover)
			return &ChildResult{Err: fmt.Sprintf("compiler process died: %v: %s", runErr, tailStr(stderr.String(), 600)), Panic: true}, nil
		}
		return nil, fmt.Errorf("child answered %q: %v", tailStr(string(out), 300), e)
	}
	return &res, nil
}

func tailStr(s string, n int) string {
	if len(s) > n {
		return s[len(s)-n:]
	}
	return s
}

var _ = filepath.Join
