package c04

import (
	"fmt"
	"sort"
	"strings"

	"verif/gjs"
)

// The renderer turns a program of Instances.tla into a real module:
//
//	vp            main package: calls the roots in order, then prints the log
//	vp/a vp/b vp/c  the generic declarations (decls.go) and the roots (roots.go)
//	vp/t          ground types I8 U8 I16 (Tag of I8 blocks on a channel, Tag of I16 yields),
//	              the constraint Num, the log and the type-switch probe K
//
// The order of the generic identifiers inside every rendered body is the order of
// Instances!ImplAdds (local type declarations first, then the uses); the collector's
// walk of the AST must meet them in that order for the model's final orders to apply.

type renderer struct {
	p        Program
	depth    int
	inferAll bool // render every function instantiation in generic code by inference
}

// ctx is where a type expression is written.
type rctx struct {
	pkg  string
	hnp  int // parameters 1..hnp are T1.., the rest U1..
	uses map[string]bool
}

func (c *rctx) qual(pkg string) string {
	if pkg == c.pkg {
		return ""
	}
	c.uses[pkg] = true
	return pkg + "."
}

func (c *rctx) param(k int) string {
	if c.hnp >= 0 && k > c.hnp {
		return fmt.Sprintf("U%d", k-c.hnp)
	}
	return fmt.Sprintf("T%d", k)
}

func (r *renderer) typ(c *rctx, t *Term) string {
	switch t.Tag {
	case "p":
		return c.param(t.N)
	case "g":
		return c.qual("t") + t.Name
	case "s":
		return "[]" + r.typ(c, t.Subs[0])
	case "q":
		return "*" + r.typ(c, t.Subs[0])
	case "i", "l":
		d := r.p.Decls[t.N-1]
		own := t.Subs[d.hnp(r.p.Decls):]
		s := declName(r.p.Decls, t.N)
		if t.Tag == "i" {
			s = c.qual(d.Pkg) + s
		}
		return s + r.targs(c, own)
	}
	panic("typ: " + t.Tag)
}

func (r *renderer) targs(c *rctx, ts []*Term) string {
	if len(ts) == 0 {
		return ""
	}
	var l []string
	for _, x := range ts {
		l = append(l, r.typ(c, x))
	}
	return "[" + strings.Join(l, ", ") + "]"
}

func (r *renderer) tparams(c *rctx, cons []string, from int) string {
	var l []string
	for k := from; k < len(cons); k++ {
		cn := "any"
		if cons[k] == "num" {
			cn = c.qual("t") + "Num"
		}
		l = append(l, fmt.Sprintf("%s %s", c.param(k+1), cn))
	}
	return "[" + strings.Join(l, ", ") + "]"
}

// record renders the statements that log one event of kind F (1) or M (2).
func (r *renderer) record(c *rctx, b *strings.Builder, kind, decl int, cons []string, nn string, extraID string) {
	ints := []string{fmt.Sprint(kind), fmt.Sprint(decl), "d", nn}
	for k, cn := range cons {
		if cn != "num" {
			continue
		}
		T := c.param(k + 1)
		fmt.Fprintf(b, "\tx%d := %s(d + 200)\n\ty%d := x%d + %s(d+100)\n", k+1, T, k+1, k+1, T)
		ints = append(ints, fmt.Sprintf("int32(x%d)", k+1), fmt.Sprintf("int32(y%d)", k+1), fmt.Sprintf("int32(x%d * x%d)", k+1, k+1), fmt.Sprintf("x%d.Tag()", k+1))
	}
	if len(cons) == 2 {
		fmt.Fprintf(b, "\t_, same := any(*new(%s)).(%s)\n", c.param(1), c.param(2))
		ints = append(ints, c.qual("t")+"B(same)")
	}
	var ids, zs []string
	for k := range cons {
		ids = append(ids, fmt.Sprintf("(*%s)(nil)", c.param(k+1)))
		zs = append(zs, fmt.Sprintf("*new(%s)", c.param(k+1)))
	}
	if extraID != "" {
		ids = append(ids, extraID)
	}
	fmt.Fprintf(b, "\t%sR([]int32{%s}, []any{%s}, []any{%s})\n", c.qual("t"), strings.Join(ints, ", "), strings.Join(ids, ", "), strings.Join(zs, ", "))
}

func (r *renderer) valueArgs(c *rctx, args []*Term) string {
	s := ""
	for _, a := range args {
		s += ", *new(" + r.typ(c, a) + ")"
	}
	return s
}

// use renders one body use; dexpr is the depth expression passed on.
func (r *renderer) use(c *rctx, b *strings.Builder, u Use, n int, dexpr string, inGeneric bool, ind string) {
	ds := r.p.Decls
	t := ds[u.Tgt-1]
	switch t.Kind {
	case "func":
		name := c.qual(t.Pkg) + declName(ds, u.Tgt)
		if u.Style == "x" && !(r.inferAll && inGeneric) {
			name += r.targs(c, u.Args)
		}
		fmt.Fprintf(b, "%s%s(%s%s)\n", ind, name, dexpr, r.valueArgs(c, u.Args))
	case "type":
		fmt.Fprintf(b, "%svar v%d %s%s%s\n%sv%d.M(%s)\n", ind, n, c.qual(t.Pkg), declName(ds, u.Tgt), r.targs(c, u.Args), ind, n, dexpr)
	case "nested":
		ty := declName(ds, u.Tgt) + r.targs(c, u.Args)
		fmt.Fprintf(b, "%svar l%d %s\n", ind, n, ty)
		if t.NP > 0 {
			fmt.Fprintf(b, "%s%sR([]int32{3, %d, d, 1}, []any{%s{}}, nil)\n", ind, c.qual("t"), u.Tgt, ty)
		}
		if len(t.Uses) == 0 {
			fmt.Fprintf(b, "%s_ = l%d\n", ind, n)
		}
		for k := range t.Uses {
			fmt.Fprintf(b, "%sl%d.f%d.M(%s)\n", ind, n, k, dexpr)
		}
	}
}

func (r *renderer) fields(c *rctx, b *strings.Builder, us []Use, ind string) {
	k := 0
	for _, u := range us {
		if u.Site != "field" {
			continue
		}
		t := r.p.Decls[u.Tgt-1]
		fmt.Fprintf(b, "%sf%d *%s%s%s\n", ind, k, c.qual(t.Pkg), declName(r.p.Decls, u.Tgt), r.targs(c, u.Args))
		k++
	}
}

func (r *renderer) decl(c *rctx, b *strings.Builder, i int) {
	ds := r.p.Decls
	d := ds[i-1]
	switch d.Kind {
	case "func":
		c.hnp = -1
		var ps []string
		for k := range d.Cons {
			ps = append(ps, fmt.Sprintf("_ T%d", k+1))
		}
		fmt.Fprintf(b, "func G%d%s(d int32, %s) {\n", i, r.tparams(c, d.Cons, 0), strings.Join(ps, ", "))
		var plain []int
		for n := 1; n <= len(ds); n++ {
			if ds[n-1].Kind == "nested" && ds[n-1].Host == i {
				c.hnp = d.NP
				tp := ""
				if ds[n-1].NP > 0 {
					tp = r.tparams(c, ds[n-1].Cons, d.NP)
				}
				fmt.Fprintf(b, "\ttype L%d%s struct {\n", n, tp)
				r.fields(c, b, ds[n-1].Uses, "\t\t")
				b.WriteString("\t}\n")
				c.hnp = -1
				if ds[n-1].NP == 0 {
					plain = append(plain, n)
				}
			}
		}
		r.record(c, b, 1, i, d.Cons, "1", "")
		for _, n := range plain {
			fmt.Fprintf(b, "\t%sR([]int32{3, %d, d, 1}, []any{L%d{}}, nil)\n", c.qual("t"), n, n)
		}
		fmt.Fprintf(b, "\tif d >= %d {\n\t\treturn\n\t}\n", r.depth)
		for n, u := range d.Uses {
			r.use(c, b, u, n, "d+1", true, "\t")
		}
		b.WriteString("}\n\n")
	case "type":
		c.hnp = -1
		fmt.Fprintf(b, "type P%d%s struct {\n", i, r.tparams(c, d.Cons, 0))
		r.fields(c, b, d.Uses, "\t")
		b.WriteString("}\n\n")
		var tl []string
		for k := range d.Cons {
			tl = append(tl, fmt.Sprintf("T%d", k+1))
		}
		self := fmt.Sprintf("P%d[%s]", i, strings.Join(tl, ", "))
		fmt.Fprintf(b, "func (p *%s) M(d int32) {\n", self)
		r.record(c, b, 2, i, d.Cons, c.qual("t")+"B(p != nil)", "(*"+self+")(nil)")
		fmt.Fprintf(b, "\tif d >= %d {\n\t\treturn\n\t}\n", r.depth)
		nf := 0
		n := 0
		for _, u := range d.Uses {
			if u.Site == "body" {
				r.use(c, b, u, n, "d+1", true, "\t")
				n++
			} else {
				nf++
			}
		}
		if nf > 0 {
			b.WriteString("\tif p != nil {\n")
			for k := 0; k < nf; k++ {
				fmt.Fprintf(b, "\t\tp.f%d.M(d + 1)\n", k)
			}
			b.WriteString("\t}\n")
		}
		b.WriteString("}\n\n")
	}
}

func header(pkg string, uses map[string]bool) string {
	var b strings.Builder
	fmt.Fprintf(&b, "package %s\n\n", pkg)
	var l []string
	for k := range uses {
		l = append(l, k)
	}
	sort.Strings(l)
	if len(l) > 0 {
		b.WriteString("import (\n")
		for _, k := range l {
			fmt.Fprintf(&b, "\t\"vp/%s\"\n", k)
		}
		b.WriteString(")\n\n")
	}
	return b.String()
}

const tFixed = `package t

import "runtime"

var Req = make(chan int32)
var Rsp = make(chan int32)

func init() {
	go func() {
		for v := range Req {
			Rsp <- v + 100
		}
	}()
}

// Num is the constraint with a core of small integers and a method.
type Num interface {
	~int8 | ~uint8 | ~int16
	Tag() int32
}

type I8 int8

// Tag of I8 blocks: a rendezvous with the server goroutine.
func (x I8) Tag() int32 { Req <- int32(x); return <-Rsp }

type U8 uint8

// Tag of U8 does not block.
func (x U8) Tag() int32 { return int32(x) + 200 }

type I16 int16

// Tag of I16 yields.
func (x I16) Tag() int32 { runtime.Gosched(); return int32(x) + 300 }

type Ev struct {
	Ns []int32
	Vs []any
	Zs []any
}

var Log []Ev

func R(ns []int32, vs []any, zs []any) { Log = append(Log, Ev{ns, vs, zs}) }

func B(b bool) int32 {
	if b {
		return 1
	}
	return 0
}
`

const mainDump = `
func itoa(n int32) string {
	if n < 0 {
		return "-" + itoa(-n)
	}
	if n < 10 {
		return string(rune('0' + n))
	}
	return itoa(n/10) + string(rune('0'+n%10))
}

func dump() {
	var xs []any
	m := map[any]int{}
	for _, e := range t.Log {
		s := "e"
		for _, n := range e.Ns {
			s += " " + itoa(n)
		}
		println(s)
		for _, x := range e.Vs {
			cls := len(xs)
			for i, y := range xs {
				if x == y {
					cls = i
					break
				}
			}
			cm, ok := m[x]
			if !ok {
				cm = len(xs)
				m[x] = cm
			}
			xs = append(xs, x)
			println("v", t.K(x), cls, cm)
		}
		for _, x := range e.Zs {
			println("z", t.K(x))
		}
	}
}
`

// goTypeInT renders a ground non-generic term as written inside package t.
func goTypeInT(t *Term) string {
	switch t.Tag {
	case "g":
		return t.Name
	case "s":
		return "[]" + goTypeInT(t.Subs[0])
	case "q":
		return "*" + goTypeInT(t.Subs[0])
	}
	panic("goTypeInT: " + t.Tag)
}

// kTable assigns ids to the non-generic types the log shows.
func kTable(log []Event) (map[string]int, []string) {
	set := map[string]bool{}
	for _, e := range log {
		for _, l := range [][]*Term{e.IDs, e.Zeros} {
			for _, x := range l {
				if !x.generic() {
					set[goTypeInT(x)] = true
				}
			}
		}
	}
	var names []string
	for k := range set {
		names = append(names, k)
	}
	sort.Strings(names)
	ids := map[string]int{}
	for i, n := range names {
		ids[n] = i + 1
	}
	return ids, names
}

func kCode(ids map[string]int, x *Term) int {
	if x.generic() {
		return -1
	}
	return ids[goTypeInT(x)] * 2
}

// Render produces the module and the output the specification predicts.
func Render(rec *ProgRec, depth int, inferAll bool) (gjs.Prog, []string) {
	r := &renderer{p: rec.Program(), depth: depth, inferAll: inferAll}
	ds := r.p.Decls
	files := map[string]string{}
	// package t
	ids, names := kTable(rec.Log)
	var kb strings.Builder
	kb.WriteString(tFixed)
	kb.WriteString("\n// K identifies the non-generic dynamic types of this program; the low bit says \"not the zero value\".\nfunc K(x any) int32 {\n\tswitch v := x.(type) {\n")
	for _, n := range names {
		zero := "nil"
		if !strings.HasPrefix(n, "*") && !strings.HasPrefix(n, "[]") {
			zero = "0"
		}
		fmt.Fprintf(&kb, "\tcase %s:\n\t\treturn %d + B(v != %s)\n", n, ids[n]*2, zero)
	}
	kb.WriteString("\t}\n\treturn -1\n}\n")
	files["t/t.go"] = kb.String()
	// generic packages
	for _, pk := range []string{"a", "b", "c"} {
		var body strings.Builder
		c := &rctx{pkg: pk, hnp: -1, uses: map[string]bool{}}
		any := false
		for i := range ds {
			if ds[i].Pkg == pk && ds[i].Kind != "nested" {
				r.decl(c, &body, i+1)
				any = true
			}
		}
		if any {
			files[pk+"/decls.go"] = header(pk, c.uses) + body.String()
		}
		var rb strings.Builder
		rc := &rctx{pkg: pk, hnp: -1, uses: map[string]bool{}}
		anyRoot := false
		for k, rt := range r.p.Roots {
			if rt.Pkg == pk {
				fmt.Fprintf(&rb, "func Root%d() {\n", k)
				r.use(rc, &rb, Use{Tgt: rt.Tgt, Args: rt.Args, Style: rt.Style, Site: "body"}, 0, "0", false, "\t")
				rb.WriteString("}\n\n")
				anyRoot = true
			}
		}
		if anyRoot {
			files[pk+"/roots.go"] = header(pk, rc.uses) + rb.String()
		}
	}
	// main
	var mb, rb strings.Builder
	mc := &rctx{pkg: "main", hnp: -1, uses: map[string]bool{"t": true}}
	mb.WriteString("func main() {\n")
	for k, rt := range r.p.Roots {
		if rt.Pkg == "m" {
			fmt.Fprintf(&mb, "\tRoot%d()\n", k)
			fmt.Fprintf(&rb, "func Root%d() {\n", k)
			r.use(mc, &rb, Use{Tgt: rt.Tgt, Args: rt.Args, Style: rt.Style, Site: "body"}, 0, "0", false, "\t")
			rb.WriteString("}\n\n")
		} else {
			fmt.Fprintf(&mb, "\t%sRoot%d()\n", mc.qual(rt.Pkg), k)
		}
	}
	mb.WriteString("\tdump()\n}\n\n")
	files["main.go"] = header("main", mc.uses) + mb.String() + rb.String() + mainDump
	// predicted output
	var want []string
	g := 0
	for _, e := range rec.Log {
		kind := map[string]int{"F": 1, "M": 2, "L": 3}[e.Kind]
		s := fmt.Sprintf("e %d %d %d %d", kind, e.Decl, e.D, e.NN)
		for _, n := range e.Nums {
			s += fmt.Sprintf(" %d", n)
		}
		want = append(want, s)
		for _, x := range e.IDs {
			want = append(want, fmt.Sprintf("v %d %d %d", kCode(ids, x), rec.Cls[g], rec.Cls[g]))
			g++
		}
		for _, x := range e.Zeros {
			want = append(want, fmt.Sprintf("z %d", kCode(ids, x)))
		}
	}
	return gjs.Prog{Files: files}, want
}
