// Package c09 decides C09 (dynamic types: identity, assertions, method sets,
// dispatch).
//
// spec/Types.tla is the reference semantics (selectors through embedded
// fields, method sets, implements, type switches, receiver passing, type
// identity, interface equality); spec/TypesScen.tla enumerates families of
// named struct types inside explicit bounds (exhaustively for the small
// bounds, from VERIF_SEED-drawn samples inside the larger ones), checks the
// meta-properties of the specification on every family and emits the predicted
// tables.  This package renders the families as Go programs (many families per
// program, uniquely prefixed names, sub-packages vp/pa and vp/alt/pa - both
// called pa - for the cross-package cases, function-local types where those
// are the point), builds them with the compiler under test, runs them under
// Node and compares every printed table cell with the prediction.  The same
// program built by the reference toolchain guards the specification: a family
// on which native Go disagrees with the prediction is discarded and counted.
package c09

import (
	"encoding/json"
	"fmt"
	"math/rand"
	"os"
	"path/filepath"
	"sort"
	"strings"
	"sync"
	"time"

	"verif/core"
	"verif/gjs"
	"verif/reg"
	"verif/tlcx"
)

func init() { reg.Register("C09", "model_checking", Run) }

var i32 = []any{"basic", "int32"}

func identBound(c *core.Ctx, rng *rand.Rand) Ident {
	under := []any{"struct", []any{[]any{"X", i32, false, ""}}}
	id := Ident{
		Decls: []IDecl{
			{Name: "A", Pkg: "main", Fn: "", Under: under}, {Name: "A", Pkg: "pa", Fn: "", Under: under}, {Name: "A", Pkg: "pb", Fn: "", Under: under},
			{Name: "A", Pkg: "main", Fn: "f", Under: under}, {Name: "A", Pkg: "main", Fn: "g", Under: under},
			{Name: "B", Pkg: "main", Fn: "", Under: []any{"slice", i32}},
		},
		Sites: []ISite{{"main", ""}, {"main", "f"}, {"main", "g"}, {"pa", ""}, {"pb", ""}},
		Leafs: [][2]string{{"", "A"}, {"pa", "A"}, {"pb", "A"}, {"", "B"}},
		Ctors: []string{"ptr", "slice", "chan", "func", "arr2", "arr3", "map", "sX", "sx", "sXt", "sxY", "sYx", "semb", "sembp", "snamed", "pifM", "pifm", "pifMm"},
		D2:    [][2]string{},
	}
	// depth-2 expressions: constructor pairs drawn from the seed
	outer := []string{"ptr", "slice", "chan", "func", "arr2", "map", "sX", "sx", "sXt"}
	inner := []string{"ptr", "slice", "arr2", "arr3", "map", "sX", "sx", "sxY", "semb", "sembp", "snamed", "func"}
	n := c.Pick(4, 24)
	seen := map[[2]string]bool{}
	for len(id.D2) < n {
		p := [2]string{outer[rng.Intn(len(outer))], inner[rng.Intn(len(inner))]}
		if !seen[p] {
			seen[p] = true
			id.D2 = append(id.D2, p)
		}
	}
	return id
}

func slot(names []string, scopes [][2]string, decls [][]string, orders ...string) Slot {
	if len(orders) == 0 {
		orders = []string{"asc"}
	}
	return Slot{Names: names, Scopes: scopes, Decls: decls, Orders: orders}
}

// spaces returns the bounds of this run.
func spaces(c *core.Ctx, rng *rand.Rand) []Space {
	mainOnly := [][2]string{scMain}
	named := func(pkg string, own []string, emb ...int) Iface {
		if emb == nil {
			emb = []int{}
		}
		return Iface{Pkg: pkg, Form: "named", Own: own, Emb: emb}
	}
	anon := func(pkg string, own []string, emb ...int) Iface {
		if emb == nil {
			emb = []int{}
		}
		return Iface{Pkg: pkg, Form: "anon", Own: own, Emb: emb}
	}
	var out []Space
	// S1: embedding depth, shadowing, ambiguity, receiver kinds - one method name,
	// every declaration/embedding pattern over 3 types, exhaustively
	{
		sp := Space{Label: "depth", Mode: "exh", Names: []string{"M"}, Rooted: true, Samples: [][]TypeDecl{}, Nunits: 1,
			Ifaces: []Iface{named("main", []string{"M"}), anon("main", []string{"M"})}}
		for i := 0; i < 3; i++ {
			sp.Slots = append(sp.Slots, slot([]string{string(rune('A' + i))}, mainOnly, allDecls(1)))
		}
		out = append(out, sp)
	}
	// S1c: chains T1 -> T2 -> T3 -> T4 (embedding depth 3) with every mix of value and
	// pointer embedding, every declaration pattern on the inner types: "reached through a
	// pointer" has to be inherited step by step along the chain, whatever the root is
	{
		sp := Space{Label: "chain4", Mode: "exh", Names: []string{"M"}, Rooted: true, Samples: [][]TypeDecl{}, Nunits: 1,
			Ifaces: []Iface{named("main", []string{"M"}), anon("main", []string{"M"})}}
		vp, no := []string{"v", "p"}, []string{"-"}
		sp.Slots = []Slot{
			slot([]string{"A"}, mainOnly, [][]string{{"-"}}),
			slot([]string{"B"}, mainOnly, allDecls(1)),
			slot([]string{"C"}, mainOnly, allDecls(1)),
			slot([]string{"D"}, mainOnly, [][]string{{"v"}, {"p"}}),
		}
		sp.Slots[0].Embt = [][]string{vp, no, no}
		sp.Slots[1].Embt = [][]string{vp, no}
		sp.Slots[2].Embt = [][]string{vp}
		out = append(out, sp)
	}
	// S1b (thorough): four types - chains of depth 3, diamonds, shadowing over three levels
	if c.Thorough() {
		sp := Space{Label: "depth4", Mode: "exh", Names: []string{"M"}, Rooted: true, Samples: [][]TypeDecl{}, Nunits: 1,
			Ifaces: []Iface{named("main", []string{"M"}), anon("main", []string{"M"})}}
		vp, v, all := []string{"v", "p"}, []string{"-", "v"}, []string{"-", "v", "p"}
		sp.Slots = []Slot{
			slot([]string{"A"}, mainOnly, [][]string{{"-"}}),
			slot([]string{"B"}, mainOnly, allDecls(1)),
			slot([]string{"C"}, mainOnly, allDecls(1)),
			slot([]string{"D"}, mainOnly, [][]string{{"v"}, {"p"}}),
		}
		sp.Slots[0].Embt = [][]string{vp, v, v}
		sp.Slots[1].Embt = [][]string{v, all}
		sp.Slots[2].Embt = [][]string{v}
		out = append(out, sp)
	}
	// S2: scopes - two types, one unexported method name, every placement in
	// main / vp/pa / vp/alt/pa / function-local, equal and different type names
	{
		sp := Space{Label: "scopes", Mode: "exh", Names: []string{"m"}, Rooted: true, Samples: [][]TypeDecl{}, Nunits: 1,
			Ifaces: []Iface{named("main", []string{"m"}), named("pa", []string{"m"}), anon("main", []string{"m"}), named("pb", []string{"m"})}}
		sp.Slots = []Slot{
			slot([]string{"A"}, [][2]string{scMain, scPa, scF}, allDecls(1)),
			slot([]string{"A", "B"}, [][2]string{scMain, scPa, scPb, scF}, allDecls(1)),
		}
		out = append(out, sp)
	}
	// S3: equally named types in two scopes (function-local / vp/pa / vp/alt/pa /
	// main) over two method-carrying types: T{A?;B?} and T'{A?;B?}
	{
		sp := Space{Label: "samename", Mode: "exh", Names: []string{"M"}, Rooted: false, Samples: [][]TypeDecl{}, Nunits: 1,
			Ifaces: []Iface{named("main", []string{"M"}), anon("main", []string{"M"})}}
		vp := []string{"-", "v", "p"}
		v := []string{"-", "v"}
		no := []string{"-"}
		sp.Slots = []Slot{
			slot([]string{"T"}, [][2]string{scF, scPa}, [][]string{{"-"}}),
			slot([]string{"T"}, [][2]string{scG, scPb}, [][]string{{"-"}}),
			slot([]string{"A"}, [][2]string{scPb}, [][]string{{"v"}, {"p"}}),
			slot([]string{"B"}, [][2]string{scPb}, [][]string{{"-"}, {"v"}}),
		}
		sp.Slots[0].Embt = [][]string{no, v, v}
		sp.Slots[1].Embt = [][]string{vp, v}
		sp.Slots[2].Embt = [][]string{no}
		if c.Thorough() {
			sp.Slots[0].Scopes = [][2]string{scF, scPa, scMain}
			sp.Slots[1].Scopes = [][2]string{scG, scPb, scMain}
			sp.Slots[0].Embt = [][]string{no, vp, v}
			sp.Slots[2].Embt = [][]string{v}
		}
		out = append(out, sp)
	}
	// S4: the large space, sampled from the seed: 4 types, 3 method names, all
	// scopes, colliding type names, both field orders, six interfaces
	{
		sp := Space{Label: "sampled", Mode: "sample", Names: []string{"M", "N", "m"}, Rooted: false, Nunits: 16,
			Ifaces: []Iface{
				named("main", []string{"M"}),
				named("main", []string{"N"}, 1), // embeds I1
				anon("main", []string{"m"}),
				named("pa", []string{"m"}),
				named("pa", []string{"M", "m"}),
				anon("main", []string{"N"}, 1), // interface{ I1; N() } - same method set as I2
				anon("pa", []string{"M", "N"}),
			}}
		all := [][2]string{scMain, scMain, scPa, scPb, scF, scG}
		tn := []string{"A", "B", "C"}
		for i := 0; i < 4; i++ {
			sp.Slots = append(sp.Slots, slot(tn, all, allDecls(3), "asc", "desc"))
		}
		n := c.Pick(150, 1500)
		seen := map[string]bool{}
		for len(sp.Samples) < n {
			ts := sampleFamily(rng, &sp)
			if ts == nil {
				continue
			}
			b, _ := json.Marshal(ts)
			if seen[string(b)] {
				continue
			}
			seen[string(b)] = true
			sp.Samples = append(sp.Samples, ts)
		}
		out = append(out, sp)
	}
	// S5 (thorough): three types, an exported and an unexported name, three packages and a
	// function scope, exhaustive inside the listed declaration patterns
	if c.Thorough() {
		sp := Space{Label: "two-names", Mode: "exh", Names: []string{"M", "m"}, Rooted: true, Samples: [][]TypeDecl{}, Nunits: 1,
			Ifaces: []Iface{named("main", []string{"M"}), named("pa", []string{"m"}), anon("main", []string{"m"}), named("main", []string{"m"}, 1)}}
		sp.Slots = []Slot{
			slot([]string{"A"}, [][2]string{scMain, scF}, [][]string{{"-", "-"}, {"-", "v"}, {"p", "-"}}),
			slot([]string{"B"}, [][2]string{scMain, scPa}, [][]string{{"-", "-"}, {"v", "-"}, {"-", "v"}, {"-", "p"}, {"p", "v"}}),
			slot([]string{"C"}, [][2]string{scPb}, [][]string{{"-", "v"}, {"-", "p"}, {"v", "-"}, {"v", "p"}}),
		}
		sp.Slots[0].Embt = [][]string{{"v", "p"}, {"-", "v"}}
		sp.Slots[1].Embt = [][]string{{"-", "v", "p"}}
		out = append(out, sp)
	}
	for i := range out {
		for k := range out[i].Slots {
			sl := &out[i].Slots[k]
			if sl.Embt == nil {
				sl.Embt = [][]string{}
				for j := k + 1; j < len(out[i].Slots); j++ {
					sl.Embt = append(sl.Embt, []string{"-", "v", "p"})
				}
			}
		}
		for j := range out[i].Ifaces {
			if out[i].Ifaces[j].Emb == nil {
				out[i].Ifaces[j].Emb = []int{}
			}
		}
	}
	return out
}

const tlcCfg = "SPECIFICATION Spec\nINVARIANT SpecInv\nINVARIANT Emit\nCHECK_DEADLOCK FALSE\n"

// Run is the C09 check.
func Run(c *core.Ctx, pool *gjs.Pool) {
	c.Assumef("all methods of the scenario programs have the signature func() int32; signature mismatches are outside the enumeration")
	c.Assumef("embedding is acyclic and at most 3 deep; embedded interfaces inside structs, generic types and non-struct named types with methods are not enumerated")
	c.Assumef("programs observe themselves with println of bools, small ints and ASCII strings; of a failed assertion's panic message only the missing method name is compared")
	rng := rand.New(rand.NewSource(c.Seed))
	// The guard programs are compiled without optimisation and inlining: the reference
	// toolchain spends most of its time optimising tens of thousands of generated
	// lines; the flags do not change what a Go program means.
	if gf := os.Getenv("GOFLAGS"); !strings.Contains(gf, "-gcflags") {
		os.Setenv("GOFLAGS", strings.TrimSpace(gf+" '-gcflags=vp/...=-N -l'"))
	}
	var p Params
	if dir := os.Getenv("VERIF_REPLAY"); dir != "" {
		b, err := os.ReadFile(filepath.Join(dir, "params.json"))
		if err != nil {
			c.Infra(fmt.Errorf("replay: %v", err))
			return
		}
		if err := json.Unmarshal(b, &p); err != nil {
			c.Infra(fmt.Errorf("replay: %v", err))
			return
		}
	} else {
		p = Params{Out: "scen", Spaces: spaces(c, rng), Ident: identBound(c, rng)}
		if only := os.Getenv("C09_ONLY"); only != "" { // debugging aid: restrict the run to some spaces ("depth,ident")
			var keep []Space
			for _, sp := range p.Spaces {
				if strings.Contains(","+only+",", ","+sp.Label+",") {
					keep = append(keep, sp)
				}
			}
			p.Spaces = keep
			if p.Spaces == nil {
				p.Spaces = []Space{}
			}
			if !strings.Contains(","+only+",", ",ident,") {
				p.Ident.Sites = []ISite{}
			}
		}
	}
	decide(c, pool, &p)
}

func decide(c *core.Ctx, pool *gjs.Pool, p *Params) {
	curIdent = &p.Ident
	pj, _ := json.Marshal(p)
	tw := c.Workers / 2 // at most 8 TLC workers; fewer when VERIF_WORKERS asks for a lighter run
	if tw > 8 {
		tw = 8
	}
	if tw < 1 {
		tw = 1
	}
	r, err := tlcx.Run(c, tlcx.Opts{Module: "TypesScen", Cfg: tlcCfg, Workers: tw, Timeout: 40 * time.Minute,
		Files: map[string]string{"c09_params.json": string(pj)}, HeapMB: 8192})
	if !tlcx.MustComplete(c, r, err, "TypesScen") {
		return
	}
	c.Phase("tlc")
	c.Set("checker_cmd", "tlc TypesScen (INVARIANT SpecInv: meta-properties of Types.tla on every family; INVARIANT Emit: predicted tables)")
	files, _ := filepath.Glob(filepath.Join(r.Dir, "scen.*.ndjson"))
	sort.Strings(files)
	var tables []*Table
	var rows []*IRow
	for _, f := range files {
		isIdent := strings.HasPrefix(filepath.Base(f), "scen.0_")
		err := tlcx.ReadNDJSON(f, func(raw json.RawMessage) error {
			var inner string
			if err := json.Unmarshal(raw, &inner); err != nil {
				return err
			}
			if isIdent {
				var row IRow
				if err := json.Unmarshal([]byte(inner), &row); err != nil {
					return err
				}
				rows = append(rows, &row)
				return nil
			}
			t := &Table{raw: inner}
			if err := json.Unmarshal([]byte(inner), t); err != nil {
				return err
			}
			if t.Sp < 1 || t.Sp > len(p.Spaces) {
				return fmt.Errorf("table with space %d", t.Sp)
			}
			t.sp = &p.Spaces[t.Sp-1]
			tables = append(tables, t)
			return nil
		})
		if err != nil {
			c.Infra(fmt.Errorf("decode %s: %v", f, err))
			return
		}
	}
	sort.Slice(tables, func(i, j int) bool { return tables[i].key() < tables[j].key() })
	// Non-vacuity aids (never set in normal runs): C09_CORRUPT=spec falsifies one
	// predicted cell (the reference toolchain must then disagree: one discard),
	// C09_CORRUPT=obs falsifies one observed line (must give a VIOLATION).
	corrupt := os.Getenv("C09_CORRUPT")
	if corrupt == "spec" && len(tables) > 0 {
		tables[0].S1[0] += 7
	}
	perSpace := map[string]int{}
	exhaustive := true
	for i := range p.Spaces {
		if p.Spaces[i].Mode != "exh" {
			exhaustive = false
		}
	}
	cells := 0
	for _, t := range tables {
		perSpace[t.sp.Label]++
		c.Distinct(t.key())
	}
	nsamp := 0
	for i := range p.Spaces {
		nsamp += len(p.Spaces[i].Samples)
	}
	c.Set("sampled_families_drawn", nsamp)
	c.Set("families", len(tables))
	c.Set("families_per_space", perSpace)
	c.Set("exhaustive", exhaustive)
	c.Set("exhaustive_spaces", "depth, chain4, scopes, samename (and depth4, two-names in thorough) are enumerated completely inside their bounds; `sampled` is a VERIF_SEED sample of its bound; the identity scenario enumerates all depth-1 expressions and a seeded choice of depth-2 constructor pairs")
	c.Set("rule", "TLC enumerates families (named struct types x declared methods/receivers x embedding edges x scopes) of the spaces in c09_params.json; a case = one family with its full tables (assert x2 forms, two type switches, dispatch probes in 9 call forms, == on 5 values per type); distinct = distinct families; non-trivial = every family (each has at least one method or embedding edge probed); evaluations = compared table cells")

	// ---- batches of families
	per := 32
	var batches [][]*Table
	for i := 0; i < len(tables); i += per {
		j := i + per
		if j > len(tables) {
			j = len(tables)
		}
		batches = append(batches, tables[i:j])
	}
	c.Set("programs", len(batches)+1)
	var mu sync.Mutex
	discards, validated := 0, 0
	var mism []mismatch
	// the identity program (one large program) is built and run next to the batches
	icells, idisc := 0, 0
	if len(rows) > 0 {
		sort.Slice(rows, func(i, j int) bool { return rows[i].N < rows[j].N })
	}
	c.ParMap(len(batches)+1, func(bi int) {
		if bi == 0 {
			if len(rows) == 0 {
				return
			}
			ms, n, d, err := decideIdent(c, pool, &p.Ident, rows)
			if err != nil {
				c.Infra(err)
				return
			}
			mu.Lock()
			icells, idisc = n, d
			mism = append(mism, ms...)
			mu.Unlock()
			return
		}
		bi--
		b := newBatch()
		var fams []*famProg
		for k, t := range batches[bi] {
			f := &famProg{t: t, idx: k + 1}
			renderFamily(b, f)
			fams = append(fams, f)
		}
		prog := b.prog()
		if d := os.Getenv("C09_DUMP"); d != "" && bi%10 == 0 { // debugging aid: keep some batch programs
			for n, src := range prog.ReplayFiles(fmt.Sprintf("batch%d", bi)) {
				os.MkdirAll(filepath.Dir(filepath.Join(d, n)), 0o755)
				os.WriteFile(filepath.Join(d, n), []byte(src), 0o644)
			}
		}
		res, nto := runBoth(c, pool, prog, 5*time.Minute)
		if res.BuildErr != nil {
			if be, ok := res.BuildErr.(*gjs.BuildError); ok && be.Panic {
				c.Report(core.Case{Keys: []string{"compiler_panic"}, Summary: "compiler internal error on a type-family program: " + be.Error(), Files: prog.ReplayFiles("prog")})
			} else {
				c.Infra(fmt.Errorf("gopherjs build failed: %v", res.BuildErr))
			}
			return
		}
		if nto {
			c.Infra(fmt.Errorf("the reference toolchain did not finish building a batch program within 3 x 5 minutes (overloaded machine?)"))
			return
		}
		if res.Native.End == "timeout" || res.JS.End == "timeout" {
			c.Infra(fmt.Errorf("a batch program did not finish within 5 minutes in three attempts (native end=%s, node end=%s; overloaded machine?)", res.Native.End, res.JS.End))
			return
		}
		if res.NativeErr != "" {
			c.Infra(fmt.Errorf("reference toolchain rejected a generated program (generator or WellFormed is wrong): %s", firstLines(res.NativeErr, 12)))
			return
		}
		nat := sections(res.Native.Lines)
		jsS := sections(res.JS.Lines)
		if corrupt == "obs" && bi == 0 && len(jsS[1]) > 2 {
			jsS[1][2] = "corrupted"
		}
		for _, f := range fams {
			n, ok := nat[f.idx]
			good := ok && len(n) == len(f.cells)
			if good {
				for k := range n {
					if n[k] != f.cells[k].want {
						good = false
						if os.Getenv("VERIF_VERBOSE") != "" {
							fmt.Fprintf(os.Stderr, "spec/guard disagreement: family %s line %d (%s %d %d): native %q, spec %q\n", f.t.key(), k, f.cells[k].kind, f.cells[k].a, f.cells[k].b, n[k], f.cells[k].want)
						}
						break
					}
				}
			}
			mu.Lock()
			if !good {
				discards++
				mu.Unlock()
				continue
			}
			validated++
			cells += len(f.cells)
			mu.Unlock()
			if bad := modelSelfCheck(f); bad > 0 {
				c.Add("defect_model_selfcheck_failures", bad)
				if os.Getenv("VERIF_VERBOSE") != "" {
					fmt.Fprintf(os.Stderr, "defect model with all deviations off disagrees with the spec on %d cells: %s\n", bad, famText(f.t))
				}
			}
			ms := compareFamily(f, jsS[f.idx], res.JS)
			if len(ms) > 0 {
				mu.Lock()
				mism = append(mism, ms...)
				mu.Unlock()
			}
		}
	})
	c.Phase("programs")
	if len(rows) > 0 {
		for _, r := range rows {
			c.Distinct(fmt.Sprintf("ident|%d|%s", r.Site, js(r.Expr)))
		}
		c.Set("ident_sited_expressions", len(rows))
	}
	c.Set("evaluations", cells+icells)
	c.Set("spec_guard_discards", discards+idisc)
	c.Set("traces_validated_against_impl", validated)
	if discards+idisc > 0 {
		fmt.Printf("note: %d families / identity cells discarded because the reference toolchain disagrees with the specification\n", discards+idisc)
	}
	report(c, p, mism)
	for i, t := range tables {
		if i%(len(tables)/4+1) == 0 {
			c.Sample(map[string]any{"space": t.sp.Label, "types": t.Types, "as": t.As, "s2": t.S2, "disp": len(t.Disp)})
		}
	}
}

// runBoth is gjs.Pool.RunBoth with one difference: a native build that hits the
// fixed 5-minute limit of gjs.NativeBuild (seen on an overloaded machine: the
// batch programs have tens of thousands of lines) is retried, and reported as
// a timeout - not as a rejection of the program - when it never finishes; runs
// of the (never blocking) programs that exceed the limit are retried as well.
func runBoth(c *core.Ctx, pool *gjs.Pool, p gjs.Prog, timeout time.Duration) (b gjs.Both, nativeTimeout bool) {
	dir, err := p.Materialise(c.Scratch)
	if err != nil {
		b.BuildErr = err
		return b, false
	}
	b.Dir = dir
	defer os.RemoveAll(dir)
	out := filepath.Join(dir, "out.js")
	if err := pool.Build(dir, out, gjs.Opts{}); err != nil {
		b.BuildErr = err
		return b, false
	}
	for attempt := 0; ; attempt++ {
		r := gjs.Node(out, timeout, "", nil)
		if r.TimedOut && attempt < 2 { // the programs never block: a run that exceeds the limit was starved
			c.Add("node_run_retries", 1)
			continue
		}
		b.JS = gjs.ClassifyNode(r)
		break
	}
	bin := filepath.Join(dir, "native.bin")
	for attempt := 0; ; attempt++ {
		r := gjs.NativeBuild(dir, bin)
		if r.TimedOut && attempt < 2 {
			c.Add("native_build_retries", 1)
			continue
		}
		if r.TimedOut {
			return b, true
		}
		if r.ExitCode != 0 || r.Err != nil {
			b.NativeErr = r.Out
			if b.NativeErr == "" {
				b.NativeErr = fmt.Sprint("native build failed: ", r.Err)
			}
			return b, false
		}
		break
	}
	for attempt := 0; ; attempt++ {
		r := gjs.NativeRun(bin, timeout, nil)
		if r.TimedOut && attempt < 2 {
			c.Add("native_run_retries", 1)
			continue
		}
		b.Native = gjs.ClassifyNative(r)
		break
	}
	return b, false
}

func firstLines(s string, n int) string {
	ls := strings.Split(s, "\n")
	if len(ls) > n {
		ls = ls[:n]
	}
	return strings.Join(ls, "\n")
}

// sections splits program output into the per-family sections (#F n ... #E n).
func sections(lines []string) map[int][]string {
	out := map[int][]string{}
	cur := -1
	for _, l := range lines {
		if strings.HasPrefix(l, "#F ") {
			fmt.Sscanf(l, "#F %d", &cur)
		}
		if cur >= 0 {
			out[cur] = append(out[cur], l)
		}
		if strings.HasPrefix(l, "#E ") || l == "!panic" {
			cur = -1
		}
	}
	return out
}

// mismatch is one table cell on which the compiled program differs from the
// prediction (the reference toolchain agreed with the prediction).
type mismatch struct {
	t        *Table
	idx      int
	c        cell
	got      string
	keys     []string
	ident    *identMismatch
	observed []string
}

func compareFamily(f *famProg, got []string, obs gjs.Obs) []mismatch {
	var out []mismatch
	add := func(c cell, g string) {
		m := mismatch{t: f.t, idx: f.idx, c: c, got: g, observed: got}
		m.keys = classify(&m)
		out = append(out, m)
	}
	for k := 0; k < len(got) && k < len(f.cells); k++ {
		if got[k] == f.cells[k].want {
			continue
		}
		add(f.cells[k], got[k])
		if got[k] == "!panic" {
			return out // the family panicked at this cell; the remaining cells were not produced
		}
	}
	if len(got) != len(f.cells) {
		// the section is missing or stops without a Go panic (JavaScript error, exit)
		c := cell{kind: "abort"}
		if len(got) < len(f.cells) {
			c = f.cells[len(got)]
			c.kind = "abort:" + c.kind
		}
		add(c, fmt.Sprintf("section has %d lines, want %d (program end=%s %s)", len(got), len(f.cells), obs.End, obs.Msg))
	}
	return out
}

type identMismatch struct {
	a, b       *IRow
	want, got  string
	siteA, siB ISite
}

func decideIdent(c *core.Ctx, pool *gjs.Pool, id *Ident, rows []*IRow) (ms []mismatch, cells, discards int, err error) {
	prog := renderIdent(id, rows)
	res, nto := runBoth(c, pool, prog, 5*time.Minute)
	if nto {
		return nil, 0, 0, fmt.Errorf("the reference toolchain did not finish building the identity program within 3 x 5 minutes (overloaded machine?)")
	}
	if res.BuildErr != nil {
		if be, ok := res.BuildErr.(*gjs.BuildError); ok && be.Panic {
			c.Report(core.Case{Keys: []string{"compiler_panic"}, Summary: "compiler internal error on the type-identity program: " + be.Error(), Files: prog.ReplayFiles("prog")})
			return nil, 0, 0, nil
		}
		return nil, 0, 0, fmt.Errorf("gopherjs build of the identity program failed: %v", res.BuildErr)
	}
	if res.NativeErr != "" {
		return nil, 0, 0, fmt.Errorf("reference toolchain rejected the identity program: %s", firstLines(res.NativeErr, 12))
	}
	if len(res.Native.Lines) != len(rows) {
		return nil, 0, 0, fmt.Errorf("identity program: native printed %d rows, want %d (%s %s)", len(res.Native.Lines), len(rows), res.Native.End, res.Native.Msg)
	}
	if len(res.JS.Lines) != len(rows) || res.JS.End != "exit" {
		c.Report(core.Case{Keys: []string{"program_aborted"}, Summary: fmt.Sprintf("identity program printed %d rows, want %d; end=%s msg=%s", len(res.JS.Lines), len(rows), res.JS.End, res.JS.Msg), Files: prog.ReplayFiles("prog")})
		return nil, 0, 0, nil
	}
	for a, r := range rows {
		nl, jl := res.Native.Lines[a], res.JS.Lines[a]
		if len(nl) != len(rows) || len(jl) != len(rows) {
			return nil, 0, 0, fmt.Errorf("identity program: row %d has %d/%d cells, want %d", a, len(nl), len(jl), len(rows))
		}
		for b := range rows {
			want := r.Row[b]
			if string(nl[b]) != want {
				discards++
				if os.Getenv("VERIF_VERBOSE") != "" {
					fmt.Fprintf(os.Stderr, "spec/guard disagreement: identity %s@%d vs %s@%d: native %c spec %s\n", js(r.Expr), r.Site, js(rows[b].Expr), rows[b].Site, nl[b], want)
				}
				continue
			}
			cells++
			if string(jl[b]) == want {
				continue
			}
			im := &identMismatch{a: r, b: rows[b], want: want, got: string(jl[b]), siteA: id.Sites[r.Site-1], siB: id.Sites[rows[b].Site-1]}
			m := mismatch{ident: im, got: string(jl[b])}
			m.keys = classifyIdent(im)
			ms = append(ms, m)
		}
	}
	return ms, cells, discards, nil
}
