// Package c09 decides C09 (see DESIGN.md section 4). Not built yet.
package c09
