package c09

import (
	"strings"
)

var curIdent *Ident // bound of the identity scenario of this run (for classifyIdent)

func (t *Table) model(fl jsFlags) *jsModel {
	if t.models == nil {
		t.models = map[jsFlags]*jsModel{}
	}
	m := t.models[fl]
	if m == nil {
		m = newJSModel(t, fl)
		t.models[fl] = m
	}
	return m
}

func lineMatches(kind, pred, got string) bool { return pred == got }

// classify returns the known-finding keys of a mismatching cell: non-empty only
// if the defect model of jsmodel.go reproduces the observation exactly.
func classify(m *mismatch) []string {
	if m.t == nil || strings.HasPrefix(m.c.kind, "abort") {
		return nil
	}
	t := m.t
	names := t.sp.Names
	kind := m.c.kind
	full := t.model(allDefects)
	pred, ok := full.predict(m.c, names)
	if !ok || !lineMatches(kind, pred, m.got) {
		return nil
	}
	var keys []string
	for _, d := range defectKeys {
		fl := allDefects
		d.off(&fl)
		p2, ok2 := t.model(fl).predict(m.c, names)
		if !ok2 || p2 != pred {
			keys = append(keys, d.key)
		}
	}
	if len(keys) == 0 {
		// no single repair changes the prediction: several deviations produce it
		// redundantly - name every deviation that alone departs from the specification
		for _, d := range defectKeys {
			fl := jsFlags{}
			d.on(&fl)
			p2, ok2 := t.model(fl).predict(m.c, names)
			if !ok2 || !lineMatches(kind, p2, m.c.want) {
				keys = append(keys, d.key)
			}
		}
	}
	return keys
}

// modelSelfCheck: with every deviation switched off the model must agree with
// Types.tla on the whole family.
func modelSelfCheck(f *famProg) int {
	m := f.t.model(jsFlags{})
	bad := 0
	for _, c := range f.cells {
		p, ok := m.predict(c, f.t.sp.Names)
		if ok && !lineMatches(c.kind, p, c.want) {
			bad++
		}
	}
	return bad
}

func hasNamedUncomparableInComposite(res any, inside bool) bool {
	k, a := exprKind(res)
	switch k {
	case "named":
		if !inside || curIdent == nil {
			return false
		}
		d := int(a[1].(float64)) - 1
		if d < 0 || d >= len(curIdent.Decls) {
			return false
		}
		uk, _ := exprKind(curIdent.Decls[d].Under)
		return uk == "slice" || uk == "map" || uk == "func"
	case "struct":
		for _, f := range a[1].([]any) {
			if hasNamedUncomparableInComposite(f.([]any)[1], true) {
				return true
			}
		}
	case "array":
		return hasNamedUncomparableInComposite(a[2], true)
	}
	return false
}

func classifyIdent(im *identMismatch) []string {
	ra, rb := im.a.Res, im.b.Res
	switch {
	case im.want == "F" && (im.got == "T" || im.got == "P"):
		var keys []string
		if js(erase(ra, true, false)) == js(erase(rb, true, false)) {
			keys = append(keys, "structtype_unexported_field_package_ignored")
		} else if js(erase(ra, false, true)) == js(erase(rb, false, true)) {
			keys = append(keys, "structtype_embedded_flag_ignored")
		} else if js(erase(ra, true, true)) == js(erase(rb, true, true)) {
			keys = append(keys, "structtype_unexported_field_package_ignored", "structtype_embedded_flag_ignored")
		}
		return keys
	case im.want == "P" && im.got == "T":
		if hasNamedUncomparableInComposite(ra, false) {
			return []string{"uncomparable_named_field_compared_without_panic"}
		}
	}
	return nil
}
