package c09

import (
	"encoding/json"
	"fmt"
	"sort"
	"strings"

	"verif/gjs"
)

// ---- rendering of the identity scenario ----

func exprKind(e any) (string, []any) {
	a, _ := e.([]any)
	if len(a) == 0 {
		return "", nil
	}
	k, _ := a[0].(string)
	return k, a
}

func identQual(from, q string) string {
	if q == "" || q == from {
		return ""
	}
	return q + "." // import aliases pa, pb
}

// goType renders a type expression as Go source for package `from`.
func goType(e any, from string) string {
	k, a := exprKind(e)
	switch k {
	case "basic":
		return a[1].(string)
	case "id":
		return identQual(from, a[1].(string)) + a[2].(string)
	case "ptr":
		return "*" + goType(a[1], from)
	case "slice":
		return "[]" + goType(a[1], from)
	case "chan":
		return "chan " + goType(a[1], from)
	case "func":
		return "func(" + goType(a[1], from) + ")"
	case "array":
		return fmt.Sprintf("[%d]%s", int(a[1].(float64)), goType(a[2], from))
	case "map":
		return "map[" + goType(a[1], from) + "]" + goType(a[2], from)
	case "struct":
		var fs []string
		for _, f := range a[1].([]any) {
			fa := f.([]any)
			s := goType(fa[1], from)
			if emb, _ := fa[2].(bool); !emb {
				s = fa[0].(string) + " " + s
			}
			if tag, _ := fa[3].(string); tag != "" {
				s += fmt.Sprintf(" %q", tag)
			}
			fs = append(fs, s)
		}
		return "struct{ " + strings.Join(fs, "; ") + " }"
	case "iface":
		var ms []string
		for _, n := range a[1].([]any) {
			ms = append(ms, n.(string)+"() int32")
		}
		return "interface{ " + strings.Join(ms, "; ") + " }"
	}
	panic(fmt.Sprintf("goType: %v", e))
}

func renderIdent(id *Ident, rows []*IRow) gjs.Prog {
	bufs := map[string]*strings.Builder{"main": {}, "pa": {}, "pb": {}}
	// declarations
	local := map[string][]IDecl{} // fn -> decls
	for _, d := range id.Decls {
		if d.Fn == "" {
			fmt.Fprintf(bufs[d.Pkg], "type %s %s\n", d.Name, goType(d.Under, d.Pkg))
		} else {
			local[d.Fn] = append(local[d.Fn], d)
		}
	}
	// sites
	bySite := map[int][]*IRow{}
	for _, r := range rows {
		bySite[r.Site] = append(bySite[r.Site], r)
	}
	var mainBody strings.Builder
	fmt.Fprintf(&mainBody, "\tvals := make([]any, %d)\n", len(rows))
	for s, site := range id.Sites {
		rs := bySite[s+1]
		sort.Slice(rs, func(i, j int) bool { return rs[i].N < rs[j].N })
		b := bufs[site.Pkg]
		if site.Fn == "" {
			for _, r := range rs {
				fmt.Fprintf(b, "func S%d() any { var z %s; return z }\n", r.N, goType(r.Expr, site.Pkg))
				fmt.Fprintf(&mainBody, "\tvals[%d] = %sS%d()\n", r.N-1, identQual("main", site.Pkg), r.N)
			}
			continue
		}
		fmt.Fprintf(b, "func site_%s(k int) any {\n", site.Fn)
		for _, d := range local[site.Fn] {
			fmt.Fprintf(b, "\ttype %s %s\n", d.Name, goType(d.Under, d.Pkg))
		}
		fmt.Fprintf(b, "\tswitch k {\n")
		for _, r := range rs {
			fmt.Fprintf(b, "\tcase %d:\n\t\tvar z %s\n\t\treturn z\n", r.N, goType(r.Expr, site.Pkg))
			fmt.Fprintf(&mainBody, "\tvals[%d] = site_%s(%d)\n", r.N-1, site.Fn, r.N)
		}
		fmt.Fprintf(b, "\t}\n\treturn nil\n}\n")
	}
	mainBody.WriteString("\trow := make([]byte, len(vals))\n\tfor a := range vals {\n\t\tfor b := range vals {\n\t\t\trow[b] = u.Cmp(vals[a], vals[b])\n\t\t}\n\t\tprintln(string(row))\n\t}\n")
	mainSrc := "package main\n\nimport (\n\tpb \"vp/alt/pa\"\n\t\"vp/pa\"\n\t\"vp/u\"\n)\n\nvar _ = pa.Anchor + pb.Anchor\n\n" + bufs["main"].String() + "\nfunc main() {\n" + mainBody.String() + "}\n"
	paSrc := "package pa\n\nimport pb \"vp/alt/pa\"\n\nconst Anchor = 0\n\nvar _ = pb.Anchor\n\n" + bufs["pa"].String()
	pbSrc := "package pa\n\nconst Anchor = 0\n\n" + bufs["pb"].String()
	return gjs.Prog{Files: map[string]string{"main.go": mainSrc, "pa/pa.go": paSrc, "alt/pa/pa.go": pbSrc, "u/u.go": uSrc}}
}

// ---- classification helpers on resolved types ----

// erase returns the resolved type with (a) the package qualifier of field names
// and/or (b) the embedded flag of struct fields removed.
func erase(res any, pkgs, emb bool) any {
	k, a := exprKind(res)
	switch k {
	case "struct":
		var fs []any
		for _, f := range a[1].([]any) {
			fa := f.([]any)
			name := fa[0]
			if pkgs {
				if na, ok := name.([]any); ok && len(na) == 2 {
					name = []any{"", na[1]}
				}
			}
			e := fa[2]
			if emb {
				e = false
			}
			fs = append(fs, []any{name, erase(fa[1], pkgs, emb), e, fa[3]})
		}
		return []any{"struct", fs}
	case "":
		return res
	}
	out := make([]any, len(a))
	copy(out, a)
	for i := 1; i < len(out); i++ {
		if _, ok := out[i].([]any); ok && k != "iface" {
			out[i] = erase(out[i], pkgs, emb)
		}
	}
	return out
}

func js(v any) string { b, _ := json.Marshal(v); return string(b) }
