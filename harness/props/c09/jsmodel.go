package c09

import (
	"fmt"
	"sort"
)

// A model of what the run-time library of the PINNED tree computes
// (compiler/prelude/types.js: $methodSet, $assertType's implementedBy cache,
// the forwarding methods synthesised for embedded fields; compiler/functions.go:
// value receivers are not copied by the callee).  It is used ONLY to attribute
// a mismatch that the verdict rule has already established (compiled program
// differs from Types.tla, reference toolchain agrees with Types.tla) to one of
// the known findings: a mismatching cell is labelled with a finding key only if
// the observation is exactly what this model predicts, and the key names the
// modelled deviation whose removal changes that prediction.  It never decides
// a verdict and never hides a cell it does not reproduce exactly.
type jsFlags struct {
	ambig       bool // duplicates at one depth are not detected: the first one is promoted
	ptrShadow   bool // a pointer-receiver method of a non-addressable level is skipped instead of shadowing deeper ones
	nameOnly    bool // method sets and prototypes are keyed by the bare method name (no package)
	seenString  bool // $methodSet's `seen` is keyed by the type string
	cacheString bool // implementedBy / missingMethodFor are keyed by the type string
	fieldOrder  bool // forwarding methods are installed field by field (first field wins), not by depth
	noRecvCopy  bool // a value receiver is the caller's object unless the call site copies (direct calls, T.m(x)) or T's own method is reached through the cloning proxy of T.prototype (interface holding a struct value)
}

var allDefects = jsFlags{true, true, true, true, true, true, true}

var defectKeys = []struct {
	key string
	off func(f *jsFlags)
	on  func(f *jsFlags)
}{
	{"ambiguous_selector_promoted", func(f *jsFlags) { f.ambig = false }, func(f *jsFlags) { f.ambig = true }},
	{"ptr_receiver_method_does_not_shadow", func(f *jsFlags) { f.ptrShadow = false }, func(f *jsFlags) { f.ptrShadow = true }},
	{"unexported_method_names_of_two_packages_collide", func(f *jsFlags) { f.nameOnly = false }, func(f *jsFlags) { f.nameOnly = true }},
	{"methodset_seen_keyed_by_type_string", func(f *jsFlags) { f.seenString = false }, func(f *jsFlags) { f.seenString = true }},
	{"implementedby_cache_keyed_by_type_string", func(f *jsFlags) { f.cacheString = false }, func(f *jsFlags) { f.cacheString = true }},
	{"promoted_method_forwarded_by_field_order", func(f *jsFlags) { f.fieldOrder = false }, func(f *jsFlags) { f.fieldOrder = true }},
	{"value_receiver_not_copied", func(f *jsFlags) { f.noRecvCopy = false }, func(f *jsFlags) { f.noRecvCopy = true }},
}

type msEntry struct {
	mid   [2]string
	owner int
	recv  string
	ind   bool  // reached through an embedded pointer
	path  []int // embedded fields (0-based type indices) to the owner
}

// asRes is the answer of $assertType to an interface: success, or the method
// named in the TypeAssertionError.
type asRes struct {
	ok   bool
	miss string
}

type jsModel struct {
	t        *Table
	fl       jsFlags
	ms       map[[2]int]map[string]msEntry // (type, ptr) -> key -> entry
	cache    map[string]asRes              // implementedBy / missingMethodFor
	asOK     [][]asRes                     // [k][q] result of the assertion table in program order
	helperOK map[int]bool                  // disp index -> result of the helper probe's assertion
}

func newJSModel(t *Table, fl jsFlags) *jsModel {
	m := &jsModel{t: t, fl: fl, ms: map[[2]int]map[string]msEntry{}, cache: map[string]asRes{}}
	nt := len(t.Types)
	m.asOK = make([][]asRes, 2*nt)
	for k := range m.asOK {
		m.asOK[k] = make([]asRes, len(t.sp.Ifaces))
	}
	// the assertion table runs interface by interface, dynamic types in order
	for q := range t.sp.Ifaces {
		for k := 0; k < 2*nt; k++ {
			m.asOK[k][q] = m.assert(k, q)
		}
	}
	// then the helper probes assert to interface{ m() int32 } of m's package, in program order
	m.helperOK = map[int]bool{}
	for di, d := range t.Disp {
		if !isHelperProbe(t, d) {
			continue
		}
		k := 2 * (d.I - 1)
		if d.Form == "ifaceP" {
			k++
		}
		mid := t.Mids[d.M-1]
		ck := fmt.Sprint("anon", []string{mid[0] + "." + mid[1]}) + "|" + m.dynKey(k)
		r, ok := m.cache[ck]
		if !ok {
			e, has := m.methodSet(k/2, k%2 == 1)[m.key(mid)]
			r = asRes{ok: has && e.mid == mid, miss: mid[1]}
			m.cache[ck] = r
		}
		m.helperOK[di] = r.ok
	}
	return m
}

// isHelperProbe: the method cannot be named in the package of the type; the
// probe goes through a helper in the method's package (see renderFamily).
func isHelperProbe(t *Table, d Disp) bool {
	mid := t.Mids[d.M-1]
	return mid[0] != "" && mid[0] != t.Types[d.I-1].Pkg && (d.Form == "ifaceV" || d.Form == "ifaceP")
}

func (m *jsModel) midOf(i, k int) [2]string {
	n := m.t.sp.Names[k]
	if n[0] >= 'A' && n[0] <= 'Z' {
		return [2]string{"", n}
	}
	return [2]string{m.t.Types[i].Pkg, n}
}

func (m *jsModel) key(mid [2]string) string {
	if m.fl.nameOnly {
		return mid[1]
	}
	return mid[0] + "." + mid[1]
}

func (m *jsModel) tyKey(i int) string {
	if m.fl.seenString {
		return m.t.Str[i][0] + "." + m.t.Str[i][1]
	}
	return fmt.Sprint(i)
}

// methodSet models $methodSet(T_i) / $methodSet(*T_i).
func (m *jsModel) methodSet(i int, ptr bool) map[string]msEntry {
	pk := [2]int{i, 0}
	if ptr {
		pk[1] = 1
	}
	if r, ok := m.ms[pk]; ok {
		return r
	}
	type ent struct {
		ty   int
		ind  bool
		path []int
	}
	base := map[string]msEntry{}
	blocked := map[string]bool{}
	seen := map[string]bool{}
	current := []ent{{i, ptr, nil}}
	for len(current) > 0 {
		var next []ent
		var mset []msEntry
		var shadow []string
		level := map[string]bool{}
		for _, e := range current {
			sk := m.tyKey(e.ty)
			if seen[sk] && (m.fl.ambig || !level[sk]) {
				// already visited (the repaired variant still counts a second
				// occurrence at the SAME depth: it makes the names ambiguous)
				continue
			}
			seen[sk] = true
			level[sk] = true
			td := m.t.Types[e.ty]
			for pass := 0; pass < 2; pass++ { // value-receiver list first, then the pointer-receiver list
				for k, d := range td.Decl {
					if (pass == 0 && d == "v") || (pass == 1 && d == "p" && e.ind) {
						mset = append(mset, msEntry{m.midOf(e.ty, k), e.ty, d, e.ind, e.path})
					} else if pass == 1 && d == "p" && !e.ind && !m.fl.ptrShadow {
						shadow = append(shadow, m.key(m.midOf(e.ty, k)))
					}
				}
			}
			for _, f := range td.Emb {
				next = append(next, ent{f.To - 1, e.ind || f.Kind == "p", append(append([]int{}, e.path...), f.To-1)})
			}
		}
		count := map[string]int{}
		for _, x := range mset {
			count[m.key(x.mid)]++
		}
		for _, k := range shadow {
			count[k]++
		}
		decided := map[string]bool{} // names settled at this depth
		for _, x := range mset {
			k := m.key(x.mid)
			if _, ok := base[k]; ok || blocked[k] || decided[k] {
				continue // found at a shallower depth, or the first one of this depth won
			}
			decided[k] = true
			if !m.fl.ambig && count[k] > 1 {
				blocked[k] = true
				continue
			}
			base[k] = x
		}
		for _, k := range shadow {
			if _, ok := base[k]; !ok && !decided[k] {
				blocked[k] = true
			}
		}
		current = next
	}
	m.ms[pk] = base
	return base
}

// implements models the uncached part of $assertType: the interface's methods
// are tried in the order of the emitted method list (go/types' order: by
// identifier - exported names, then package-qualified unexported ones; for the
// interfaces of the scenarios that is byte order of the names) and the first
// one the method set lacks is remembered as the missing method.
func (m *jsModel) implements(k, q int) asRes {
	set := m.methodSet(k/2, k%2 == 1)
	ims := append([][2]string{}, m.t.Imeth[q]...)
	sort.Slice(ims, func(a, b int) bool { return ims[a][1] < ims[b][1] })
	for _, tm := range ims {
		e, ok := set[m.key(tm)]
		if !ok || e.mid != tm {
			return asRes{false, tm[1]}
		}
	}
	return asRes{true, "ok"}
}

func (m *jsModel) ifaceIdent(q int) string {
	I := m.t.sp.Ifaces[q]
	if I.Form == "named" {
		return fmt.Sprint("named", q)
	}
	var s []string
	for _, x := range m.t.Imeth[q] {
		s = append(s, x[0]+"."+x[1])
	}
	sort.Strings(s)
	return fmt.Sprint("anon", s)
}

func (m *jsModel) dynKey(k int) string {
	i := k / 2
	s := fmt.Sprint(i)
	if m.fl.cacheString {
		s = m.t.Str[i][0] + "." + m.t.Str[i][1]
	}
	if k%2 == 1 {
		s = "*" + s
	}
	return s
}

func (m *jsModel) assert(k, q int) asRes {
	ck := m.ifaceIdent(q) + "|" + m.dynKey(k)
	if r, ok := m.cache[ck]; ok {
		return r
	}
	r := m.implements(k, q)
	m.cache[ck] = r
	return r
}

// resolve models the lookup of a method property on T_i.prototype (ptrProto
// false) or $ptrType(T_i).prototype at call time.
func (m *jsModel) resolve(i int, ptrProto bool, mid [2]string, depth int) (msEntry, bool) {
	if depth > 6 {
		return msEntry{}, false
	}
	if !m.fl.fieldOrder {
		e, ok := m.methodSet(i, ptrProto)[m.key(mid)]
		return e, ok
	}
	td := m.t.Types[i]
	want := m.key(mid)
	for k, d := range td.Decl {
		if d == "-" || m.key(m.midOf(i, k)) != want {
			continue
		}
		if d == "v" || ptrProto {
			return msEntry{m.midOf(i, k), i, d, false, nil}, true
		}
	}
	for _, f := range td.Emb {
		j := f.To - 1
		_, has := m.methodSet(j, f.Kind == "p")[want]
		if !has && ptrProto && f.Kind == "v" {
			_, has = m.methodSet(j, true)[want]
		}
		if has {
			e, ok := m.resolve(j, true, mid, depth+1)
			e.ind = e.ind || f.Kind == "p"
			e.path = append([]int{j}, e.path...)
			return e, ok
		}
	}
	return msEntry{}, false
}

// dispatch predicts the line a dispatch probe prints.
func (m *jsModel) dispatch(d Disp, nameIdx int, helper bool) (string, bool) {
	mid := m.t.Mids[d.M-1]
	var e msEntry
	switch d.Form {
	case "direct", "mvalV", "mvalP":
		e = msEntry{mid, d.Target - 1, d.Recv, m.t.Lk[d.I-1][d.M-1].Ind, specPath(d)} // resolved statically by the compiler (go/types)
	case "ifaceV", "mvalIV", "mexprV":
		var ok bool
		if e, ok = m.resolve(d.I-1, false, mid, 0); !ok {
			return "!panic", true // no such property on the prototype: TypeError, surfaces as a Go panic
		}
	default:
		var ok bool
		if e, ok = m.resolve(d.I-1, true, mid, 0); !ok {
			return "!panic", true
		}
	}
	a := 1
	if (d.Form == "mvalV" || d.Form == "mvalP" || d.Form == "mvalIP") && (e.recv == "p" || d.Form == "mvalIP") {
		a = 2
	}
	b := a
	shared := m.fl.noRecvCopy && d.Form != "direct"
	if d.Form == "ifaceV" || d.Form == "mvalIV" {
		// an interface holding a struct VALUE: T's own methods are reached through the proxy on
		// T.prototype, which clones the boxed value (repaired in /repo by b5c7281); a promoted
		// method is reached through the forwarders, which hand the embedded object itself to
		// the callee
		shared = shared && len(e.path) > 0
	}
	if d.Form == "mexprV" {
		// T.m(x) copies x at the call site: only an object behind an embedded pointer stays shared
		shared = shared && e.ind
	}
	// does the second call see the increment of the first?  With a pointer receiver it does,
	// unless T.m(x) handed each call its own copy of x and the object the forwarders reach
	// (which, with the deviations above, need not be the one Go's selector denotes) lies inside
	// that copy rather than behind an embedded pointer
	if (e.recv == "p" && (d.Form != "mexprV" || e.ind)) || shared {
		b = a + 1
	}
	code := (e.owner+1)*100 + nameIdx*10
	if !hasX(d.Form) || helper {
		return fmt.Sprintf("%d %d", code+a, code+b), true
	}
	// the counter the program reads afterwards is the one of the object Go's selector denotes
	cfin := 0
	if d.Form == "mvalV" || d.Form == "mvalP" || d.Form == "mvalIP" {
		cfin = 1 // bumped
	}
	mutates := e.recv == "p" || shared
	if d.Form == "mexprV" {
		mutates = mutates && e.ind
	}
	if (d.Form == "mvalV" || d.Form == "mvalP") && e.recv == "v" {
		mutates = false // the method value holds a clone made when it was bound; the calls share that clone
	}
	if mutates && fmt.Sprint(e.path) == fmt.Sprint(specPath(d)) {
		cfin += 2
	}
	return fmt.Sprintf("%d %d %d", code+a, code+b, cfin), true
}

func specPath(d Disp) []int {
	var p []int
	for _, j := range d.Path {
		p = append(p, j-1)
	}
	return p
}

func (m *jsModel) switchArm(k int, arms []Arm) int {
	for n, a := range arms {
		if a.Kind == "i" {
			if m.assert(k, a.Idx-1).ok {
				return n + 1
			}
		} else if a.Idx-1 == k/2 && a.Ptr == (k%2 == 1) {
			return n + 1
		}
	}
	return 0
}

// predict returns the model's line for a cell ("" if the model has no opinion).
func (m *jsModel) predict(c cell, names []string) (string, bool) {
	t := m.t
	switch c.kind {
	case "as":
		r := m.asOK[c.a][c.b]
		return fmt.Sprintf("%v %s", r.ok, r.miss), true
	case "sw":
		return fmt.Sprintf("%d %d", m.switchArm(c.a, t.Arms1), m.switchArm(c.a, t.Arms2)), true
	case "disp":
		d := t.Disp[c.a]
		if c.b == 1 && !m.helperOK[c.a] {
			return "!panic", true // the helper's assertion to interface{ m() int32 } fails
		}
		ni := 0
		for k, n := range names {
			if n == t.Mids[d.M-1][1] {
				ni = k + 1
			}
		}
		return m.dispatch(d, ni, c.b == 1)
	}
	return "", false
}
