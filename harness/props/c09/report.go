package c09

import (
	"encoding/json"
	"fmt"
	"os"
	"sort"
	"strings"

	"verif/core"
)

func dynName(t *Table, k int) string {
	td := t.Types[k/2]
	s := td.Pkg + "." + td.Name
	if td.Fn != "" {
		s = td.Pkg + "." + td.Fn + "()." + td.Name
	}
	if k%2 == 1 {
		s = "*" + s
	}
	return s
}

func famText(t *Table) string {
	var parts []string
	for i, td := range t.Types {
		var ms, es []string
		for k, d := range td.Decl {
			switch d {
			case "v":
				ms = append(ms, fmt.Sprintf("func (T%d) %s()", i+1, t.sp.Names[k]))
			case "p":
				ms = append(ms, fmt.Sprintf("func (*T%d) %s()", i+1, t.sp.Names[k]))
			}
		}
		for _, e := range td.Emb {
			if e.Kind == "p" {
				es = append(es, fmt.Sprintf("*T%d", e.To))
			} else {
				es = append(es, fmt.Sprintf("T%d", e.To))
			}
		}
		sc := td.Pkg
		if td.Fn != "" {
			sc += "." + td.Fn + "()"
		}
		parts = append(parts, fmt.Sprintf("T%d=%s.%s struct{%s} %s", i+1, sc, td.Name, strings.Join(es, "; "), strings.Join(ms, " ")))
	}
	return strings.Join(parts, " | ")
}

func ifaceDesc(t *Table, q int) string {
	I := t.sp.Ifaces[q]
	var ms []string
	for _, m := range t.Imeth[q] {
		if m[0] != "" {
			ms = append(ms, m[0]+"."+m[1])
		} else {
			ms = append(ms, m[1])
		}
	}
	return fmt.Sprintf("I%d(%s %s in %s){%s}", q+1, I.Form, "interface", I.Pkg, strings.Join(ms, ","))
}

func (m *mismatch) summary() string {
	if m.ident != nil {
		im := m.ident
		return fmt.Sprintf("type identity: any(zero %s written in %s%s) == any(zero %s written in %s%s): Go/spec %s, compiled program %s (T equal, F different types, P panic: uncomparable)",
			goType(im.a.Expr, im.siteA.Pkg), im.siteA.Pkg, fnSuffix(im.siteA.Fn), goType(im.b.Expr, im.siB.Pkg), im.siB.Pkg, fnSuffix(im.siB.Fn), im.want, im.got)
	}
	t := m.t
	var what string
	kind := strings.TrimPrefix(m.c.kind, "abort:")
	switch kind {
	case "as":
		what = fmt.Sprintf("%s asserted to %s (comma-ok result, missing method of the panicking form)", dynName(t, m.c.a), ifaceDesc(t, m.c.b))
	case "sw":
		what = fmt.Sprintf("type switches on %s (arm of switch 1, arm of switch 2)", dynName(t, m.c.a))
	case "eq":
		what = fmt.Sprintf("== of value %d (type T%d, %s) against all values (bit set)", m.c.a, m.c.a/5+1, []string{"V", "copy of V", "second V", "&x1", "&x2"}[m.c.a%5])
	case "disp":
		d := t.Disp[m.c.a]
		what = fmt.Sprintf("%s call of %s on T%d (returns 100*target type+10*method+counter seen, twice)", d.Form, t.Mids[d.M-1][1], d.I)
	default:
		what = kind
	}
	pre := ""
	if strings.HasPrefix(m.c.kind, "abort") {
		pre = "family section ended before: "
	}
	if m.got == "!panic" {
		pre = "the family panicked at: "
	}
	return fmt.Sprintf("%s%s: Go/spec %q, compiled program %q\nfamily (space %s): %s", pre, what, m.c.want, m.got, t.sp.Label, famText(t))
}

func fnSuffix(fn string) string {
	if fn == "" {
		return ""
	}
	return "." + fn + "()"
}

func replayParams(p *Params, t *Table) string {
	sp := *t.sp
	sp.Mode = "sample"
	sp.Samples = [][]TypeDecl{t.Types}
	sp.Nunits = 1
	q := Params{Out: "scen", Spaces: []Space{sp}, Ident: p.Ident}
	q.Ident.Sites = []ISite{}
	b, _ := json.Marshal(q)
	return string(b)
}

func report(c *core.Ctx, p *Params, mism []mismatch) {
	sort.SliceStable(mism, func(i, j int) bool {
		ki, kj := "", ""
		if mism[i].t != nil {
			ki = mism[i].t.key()
		}
		if mism[j].t != nil {
			kj = mism[j].t.key()
		}
		return ki < kj
	})
	byKey := map[string]int{}
	unclassified := 0
	var identFiles map[string]string
	famFiles := map[string]map[string]string{}
	for i := range mism {
		m := &mism[i]
		for _, k := range m.keys {
			byKey[k]++
		}
		if len(m.keys) == 0 {
			unclassified++
			if unclassified > 60 {
				// the first 60 unclassified cells are reported individually; the rest are only counted
				continue
			}
		}
		var files map[string]string
		if m.ident != nil {
			if identFiles == nil {
				q := Params{Out: "scen", Spaces: []Space{}, Ident: p.Ident}
				b, _ := json.Marshal(q)
				identFiles = map[string]string{"params.json": string(b)}
			}
			files = map[string]string{"params.json": identFiles["params.json"],
				"pair.txt": fmt.Sprintf("%s @ site %d\n%s @ site %d\nexpected %s observed %s\n", js(m.ident.a.Expr), m.ident.a.Site, js(m.ident.b.Expr), m.ident.b.Site, m.ident.want, m.ident.got)}
		} else {
			k := m.t.key()
			files = famFiles[k]
			if files == nil {
				b := newBatch()
				f := &famProg{t: m.t, idx: m.idx}
				renderFamily(b, f)
				files = b.prog().ReplayFiles("prog")
				files["table.json"] = m.t.raw + "\n"
				files["params.json"] = replayParams(p, m.t)
				var exp []string
				for _, cl := range f.cells {
					exp = append(exp, cl.want)
				}
				files["expected.txt"] = strings.Join(exp, "\n") + "\n"
				files["observed.txt"] = strings.Join(m.observed, "\n") + "\n"
				famFiles[k] = files
			}
		}
		c.Report(core.Case{Keys: m.keys, Summary: m.summary(), Files: files})
	}
	if unclassified > 60 {
		fmt.Printf("note: %d unclassified mismatching cells in total (60 reported individually)\n", unclassified)
	}
	c.Set("mismatching_cells", len(mism))
	c.Set("mismatching_cells_by_key", byKey)
	if os.Getenv("VERIF_VERBOSE") != "" {
		for i := range mism {
			if len(mism[i].keys) == 0 {
				fmt.Fprintf(os.Stderr, "UNCLASSIFIED %s\n", mism[i].summary())
			}
		}
	}
}
