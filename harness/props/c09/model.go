package c09

import (
	"encoding/json"
	"fmt"
	"math/rand"
)

// ---- scenario parameters (c09_params.json, read by spec/TypesScen.tla) ----

// Edge is one embedded field <<kind, j>>: kind "v" (T_j) or "p" (*T_j).
type Edge struct {
	Kind string
	To   int
}

func (e Edge) MarshalJSON() ([]byte, error) { return json.Marshal([]any{e.Kind, e.To}) }
func (e *Edge) UnmarshalJSON(b []byte) error {
	var a []any
	if err := json.Unmarshal(b, &a); err != nil {
		return err
	}
	if len(a) != 2 {
		return fmt.Errorf("edge: %s", b)
	}
	e.Kind, _ = a[0].(string)
	f, _ := a[1].(float64)
	e.To = int(f)
	return nil
}

// TypeDecl is one named struct type of a family (see spec/Types.tla).
type TypeDecl struct {
	Name string   `json:"name"`
	Pkg  string   `json:"pkg"`
	Fn   string   `json:"fn"`
	Decl []string `json:"decl"`
	Emb  []Edge   `json:"emb"`
}

// Iface is one interface type of a space.
type Iface struct {
	Pkg  string   `json:"pkg"`
	Form string   `json:"form"` // named | anon
	Own  []string `json:"own"`
	Emb  []int    `json:"emb"`
}

// Slot bounds the choices for the i-th type of a family.
type Slot struct {
	Names  []string    `json:"names"`
	Scopes [][2]string `json:"scopes"`
	Decls  [][]string  `json:"decls"`
	Embt   [][]string  `json:"embt"` // allowed edge kinds towards each later slot
	Orders []string    `json:"orders"`
}

// Space is one bound of the enumeration.
type Space struct {
	Mode    string       `json:"mode"` // exh | sample
	Names   []string     `json:"names"`
	Ifaces  []Iface      `json:"ifaces"`
	Slots   []Slot       `json:"slots"`
	Rooted  bool         `json:"rooted"`
	Samples [][]TypeDecl `json:"samples"`
	Nunits  int          `json:"nunits"`
	Label   string       `json:"label"`
}

// Ident is the bound of the type-identity scenario.
type Ident struct {
	Decls []IDecl     `json:"decls"`
	Sites []ISite     `json:"sites"`
	Leafs [][2]string `json:"leafs"`
	Ctors []string    `json:"ctors"`
	D2    [][2]string `json:"d2"`
}

type IDecl struct {
	Name  string `json:"name"`
	Pkg   string `json:"pkg"`
	Fn    string `json:"fn"`
	Under any    `json:"under"`
}

type ISite struct {
	Pkg string `json:"pkg"`
	Fn  string `json:"fn"`
}

type Params struct {
	Out    string  `json:"out"`
	Spaces []Space `json:"spaces"`
	Ident  Ident   `json:"ident"`
}

func allDecls(n int) [][]string {
	out := [][]string{{}}
	for i := 0; i < n; i++ {
		var next [][]string
		for _, p := range out {
			for _, k := range []string{"-", "v", "p"} {
				next = append(next, append(append([]string{}, p...), k))
			}
		}
		out = next
	}
	return out
}

var (
	scMain = [2]string{"main", ""}
	scPa   = [2]string{"pa", ""}
	scPb   = [2]string{"pb", ""}
	scF    = [2]string{"main", "f"}
	scG    = [2]string{"main", "g"}
)

func pkgRank(p string) int {
	switch p {
	case "main":
		return 0
	case "pa":
		return 1
	}
	return 2
}

// wellFormed mirrors Types!WellFormed for the type part (used only to avoid
// sending hopeless samples to TLC; TLC's filter is the authoritative one).
func wellFormed(ts []TypeDecl) bool {
	seen := map[string]bool{}
	for i, t := range ts {
		k := t.Name + "|" + t.Pkg + "|" + t.Fn
		if seen[k] {
			return false
		}
		seen[k] = true
		if t.Fn != "" {
			if t.Pkg != "main" {
				return false
			}
			for _, d := range t.Decl {
				if d != "-" {
					return false
				}
			}
		}
		fn := map[string]bool{}
		for _, e := range t.Emb {
			j := e.To - 1
			if j <= i || j >= len(ts) {
				return false
			}
			if pkgRank(t.Pkg) > pkgRank(ts[j].Pkg) {
				return false
			}
			if ts[j].Fn != "" && ts[j].Fn != t.Fn {
				return false
			}
			if t.Fn != "" && ts[j].Fn == "" && ts[j].Pkg == "main" {
				for _, o := range ts {
					if o.Fn == t.Fn && o.Name == ts[j].Name {
						return false
					}
				}
			}
			if fn[ts[j].Name] {
				return false
			}
			fn[ts[j].Name] = true
		}
	}
	return true
}

func rooted(ts []TypeDecl) bool {
	reach := map[int]bool{0: true}
	for i := range ts { // edges go upwards: one pass suffices
		if !reach[i] {
			continue
		}
		for _, e := range ts[i].Emb {
			reach[e.To-1] = true
		}
	}
	return len(reach) == len(ts)
}

// sampleFamily draws one family inside the bounds of sp.
func sampleFamily(rng *rand.Rand, sp *Space) []TypeDecl {
	nt := len(sp.Slots)
	for try := 0; try < 200; try++ {
		ts := make([]TypeDecl, nt)
		for i := range ts {
			sl := sp.Slots[i]
			sc := sl.Scopes[rng.Intn(len(sl.Scopes))]
			t := TypeDecl{Name: sl.Names[rng.Intn(len(sl.Names))], Pkg: sc[0], Fn: sc[1], Emb: []Edge{}}
			if sc[1] != "" {
				t.Decl = sl.Decls[0] // all "-"
			} else {
				t.Decl = sl.Decls[rng.Intn(len(sl.Decls))]
			}
			for j := i + 1; j < nt; j++ {
				if rng.Intn(100) < 55 {
					k := "v"
					if rng.Intn(3) == 0 {
						k = "p"
					}
					t.Emb = append(t.Emb, Edge{k, j + 1})
				}
			}
			if len(sl.Orders) > 1 && rng.Intn(2) == 0 {
				for a, b := 0, len(t.Emb)-1; a < b; a, b = a+1, b-1 {
					t.Emb[a], t.Emb[b] = t.Emb[b], t.Emb[a]
				}
			}
			ts[i] = t
		}
		if wellFormed(ts) && (!sp.Rooted || rooted(ts)) {
			return ts
		}
	}
	return nil
}

// ---- tables predicted by TLC ----

type LkInfo struct {
	St    string
	Depth int
	Ty    int
	Recv  string
	Ind   bool
}

func (l *LkInfo) UnmarshalJSON(b []byte) error {
	var a []any
	if err := json.Unmarshal(b, &a); err != nil {
		return err
	}
	if len(a) != 5 {
		return fmt.Errorf("lk: %s", b)
	}
	l.St, _ = a[0].(string)
	d, _ := a[1].(float64)
	l.Depth = int(d)
	t, _ := a[2].(float64)
	l.Ty = int(t)
	l.Recv, _ = a[3].(string)
	l.Ind, _ = a[4].(bool)
	return nil
}

type Arm struct {
	Kind string // i | t
	Idx  int
	Ptr  bool
}

func (l *Arm) UnmarshalJSON(b []byte) error {
	var a []any
	if err := json.Unmarshal(b, &a); err != nil {
		return err
	}
	if len(a) != 3 {
		return fmt.Errorf("arm: %s", b)
	}
	l.Kind, _ = a[0].(string)
	d, _ := a[1].(float64)
	l.Idx = int(d)
	l.Ptr, _ = a[2].(bool)
	return nil
}

type Disp struct {
	I, M    int
	Form    string
	Target  int
	Recv    string
	A, B, C int   // results of the two calls, counter of the target object afterwards
	Path    []int // embedded fields (type indices) from T_I to the target object
}

func (l *Disp) UnmarshalJSON(b []byte) error {
	var a []any
	if err := json.Unmarshal(b, &a); err != nil {
		return err
	}
	if len(a) != 9 {
		return fmt.Errorf("disp: %s", b)
	}
	n := func(x any) int { f, _ := x.(float64); return int(f) }
	l.I, l.M = n(a[0]), n(a[1])
	l.Form, _ = a[2].(string)
	l.Target = n(a[3])
	l.Recv, _ = a[4].(string)
	l.A, l.B, l.C = n(a[5]), n(a[6]), n(a[7])
	l.Path = []int{}
	if pa, ok := a[8].([]any); ok {
		for _, x := range pa {
			l.Path = append(l.Path, n(x))
		}
	}
	return nil
}

// Table is one family with everything Types.tla predicts about it.
type Table struct {
	Sp    int           `json:"sp"`
	Types []TypeDecl    `json:"types"`
	Str   [][2]string   `json:"str"`
	Mids  [][2]string   `json:"mids"`
	Imeth [][][2]string `json:"imeth"`
	Lk    [][]LkInfo    `json:"lk"`
	As    [][]string    `json:"as"`
	Arms1 []Arm         `json:"arms1"`
	Arms2 []Arm         `json:"arms2"`
	S1    []int         `json:"s1"`
	S2    []int         `json:"s2"`
	Disp  []Disp        `json:"disp"`
	Eq    [][]int       `json:"eq"`

	raw    string
	sp     *Space
	models map[jsFlags]*jsModel
}

func (t *Table) key() string {
	b, _ := json.Marshal(t.Types)
	return fmt.Sprintf("%d|%s", t.Sp, b)
}

// IRow is one row of the identity scenario.
type IRow struct {
	N     int      `json:"n"`
	Site  int      `json:"site"`
	Expr  any      `json:"expr"`
	Res   any      `json:"res"`
	Total int      `json:"total"`
	Row   []string `json:"row"`
}
