package c09

import (
	"fmt"
	"sort"
	"strings"

	"verif/gjs"
)

// cell is one expected output line together with what it observes.
type cell struct {
	want string
	kind string // hdr | as | sw | eq | disp | end
	// as: dyn k (0-based), iface q (0-based); sw: dyn k; eq: row a; disp: index into Table.Disp
	a, b int
}

// famProg is one family rendered inside a batch program.
type famProg struct {
	t     *Table
	idx   int // prefix number inside the batch
	cells []cell
}

const uSrc = `package u

import "runtime"

// Miss extracts the missing method from the panic value of a failed x.(I).
func Miss(r any) string {
	e, ok := r.(runtime.Error)
	if !ok {
		return "notRuntimeError"
	}
	s := e.Error()
	const k = "missing method "
	for i := 0; i+len(k) <= len(s); i++ {
		if s[i:i+len(k)] == k {
			return s[i+len(k):]
		}
	}
	return "nomissing"
}

// EqRows prints, for every value, the bit set of the values it is == to.
func EqRows(vals []any) {
	for a := range vals {
		r := int32(0)
		for b := range vals {
			if vals[a] == vals[b] {
				r |= 1 << uint(b)
			}
		}
		println(r)
	}
}

// Cmp is == on interface values: T, F or P (run-time panic).
func Cmp(a, b any) (r byte) {
	defer func() {
		if recover() != nil {
			r = 'P'
		}
	}()
	if a == b {
		return 'T'
	}
	return 'F'
}
`

type pkgBuf struct {
	b strings.Builder
}

type batch struct {
	bufs map[string]*strings.Builder // main, pa, pb
	main strings.Builder             // body of func main
}

func newBatch() *batch {
	b := &batch{bufs: map[string]*strings.Builder{}}
	for _, p := range []string{"main", "pa", "pb"} {
		b.bufs[p] = &strings.Builder{}
	}
	return b
}

func (b *batch) prog() gjs.Prog {
	mainSrc := "package main\n\nimport (\n\tpb \"vp/alt/pa\"\n\t\"vp/pa\"\n\t\"vp/u\"\n)\n\nvar _ = pa.Anchor + pb.Anchor\nvar _ = u.Miss\n\n" +
		"func run(f func()) {\n\tdefer func() {\n\t\tif r := recover(); r != nil {\n\t\t\tprintln(\"!panic\")\n\t\t}\n\t}()\n\tf()\n}\n\n" +
		b.bufs["main"].String() + "\nfunc main() {\n" + b.main.String() + "}\n"
	paSrc := "package pa\n\nimport (\n\tpb \"vp/alt/pa\"\n\t\"vp/u\"\n)\n\nconst Anchor = 0\n\nvar _ = pb.Anchor\nvar _ = u.Miss\n\n" + b.bufs["pa"].String()
	pbSrc := "package pa\n\nimport \"vp/u\"\n\nconst Anchor = 0\n\nvar _ = u.Miss\n\n" + b.bufs["pb"].String()
	return gjs.Prog{Files: map[string]string{"main.go": mainSrc, "pa/pa.go": paSrc, "alt/pa/pa.go": pbSrc, "u/u.go": uSrc}}
}

// qual returns the qualifier for referring to package pkg from package from.
func qual(from, pkg string) string {
	if from == pkg {
		return ""
	}
	return pkg + "."
}

type famCtx struct {
	f     *famProg
	t     *Table
	sp    *Space
	pre   string // "F7"
	names []string
}

func (x *famCtx) tyIdent(i int) string { return x.pre + x.t.Types[i].Name }

// tyRef: type i written in package `from` (local types: only inside their function)
func (x *famCtx) tyRef(i int, from string) string {
	t := x.t.Types[i]
	if t.Fn != "" {
		return x.tyIdent(i)
	}
	return qual(from, t.Pkg) + x.tyIdent(i)
}

// mk / new / bump expressions for type i as seen from (pkg, fn)
func (x *famCtx) fnRef(kind string, i int, from string) string {
	t := x.t.Types[i]
	if t.Fn != "" {
		return fmt.Sprintf("%s%d", strings.ToLower(kind), i+1)
	}
	return fmt.Sprintf("%s%s%s_%d", qual(from, t.Pkg), kind, x.pre, i+1)
}

func (x *famCtx) nameIdx(n string) int {
	for k, s := range x.names {
		if s == n {
			return k + 1
		}
	}
	return 0
}

func (x *famCtx) structBody(i int) string {
	t := x.t.Types[i]
	var b strings.Builder
	b.WriteString("struct {\n\tCn int32\n")
	for _, e := range t.Emb {
		star := ""
		if e.Kind == "p" {
			star = "*"
		}
		fmt.Fprintf(&b, "\t%s%s\n", star, x.tyRef(e.To-1, t.Pkg))
	}
	b.WriteString("}")
	return b.String()
}

func (x *famCtx) mkBody(i int) (mk, nw, bump string) {
	t := x.t.Types[i]
	var fs, bs []string
	for _, e := range t.Emb {
		j := e.To - 1
		fname := x.tyIdent(j)
		if e.Kind == "p" {
			fs = append(fs, fmt.Sprintf("%s: %s()", fname, x.fnRef("New", j, t.Pkg)))
			bs = append(bs, fmt.Sprintf("%s(p.%s)", x.fnRef("Bump", j, t.Pkg), fname))
		} else {
			fs = append(fs, fmt.Sprintf("%s: %s()", fname, x.fnRef("Mk", j, t.Pkg)))
			bs = append(bs, fmt.Sprintf("%s(&p.%s)", x.fnRef("Bump", j, t.Pkg), fname))
		}
	}
	T := x.tyIdent(i)
	mk = fmt.Sprintf("func() %s { return %s{%s} }", T, T, strings.Join(fs, ", "))
	nw = fmt.Sprintf("func() *%s { v := %s(); return &v }", T, x.fnRef("Mk", i, t.Pkg))
	bump = fmt.Sprintf("func(p *%s) { p.Cn++; %s }", T, strings.Join(bs, "; "))
	return
}

// ifaceText: interface q written in package from ("" if it cannot be written there)
func (x *famCtx) ifaceText(q int, from string) string {
	I := x.sp.Ifaces[q]
	if I.Form == "named" {
		return qual(from, I.Pkg) + fmt.Sprintf("%sI%d", x.pre, q+1)
	}
	if from != I.Pkg {
		return ""
	}
	return x.ifaceLit(q)
}

func (x *famCtx) ifaceLit(q int) string {
	I := x.sp.Ifaces[q]
	var parts []string
	for _, e := range I.Emb {
		parts = append(parts, x.ifaceText(e-1, I.Pkg))
	}
	for _, n := range I.Own {
		parts = append(parts, n+"() int32")
	}
	return "interface{ " + strings.Join(parts, "; ") + " }"
}

// hasX: forms whose operand is (the address of) a variable the probe can read afterwards.
func hasX(form string) bool { return form != "ifaceV" && form != "mvalIV" }

// probe returns the statements of one dispatch probe. T, mk, bump are written
// for the package the code goes to; cref is the selector of the target
// object's counter below the variable x (".F7B.F7C.Cn").
func probe(form, T, mk, bump, n, cref string) string {
	il := "interface{ " + n + "() int32 }"
	switch form {
	case "direct":
		return fmt.Sprintf("{ x := %s(); a := x.%s(); b := x.%s(); println(a, b, x%s) }", mk, n, n, cref)
	case "ifaceV":
		return fmt.Sprintf("{ var v %s = %s(); a := v.%s(); b := v.%s(); println(a, b) }", il, mk, n, n)
	case "ifaceP":
		return fmt.Sprintf("{ x := %s(); var v %s = &x; a := v.%s(); b := v.%s(); println(a, b, x%s) }", mk, il, n, n, cref)
	case "mvalV":
		return fmt.Sprintf("{ x := %s(); f := x.%s; %s(&x); a := f(); b := f(); println(a, b, x%s) }", mk, n, bump, cref)
	case "mvalP":
		return fmt.Sprintf("{ x := %s(); p := &x; f := p.%s; %s(p); a := f(); b := f(); println(a, b, x%s) }", mk, n, bump, cref)
	case "mvalIV":
		return fmt.Sprintf("{ var v %s = %s(); f := v.%s; a := f(); b := f(); println(a, b) }", il, mk, n)
	case "mvalIP":
		return fmt.Sprintf("{ x := %s(); var v %s = &x; f := v.%s; %s(&x); a := f(); b := f(); println(a, b, x%s) }", mk, il, n, bump, cref)
	case "mexprV":
		return fmt.Sprintf("{ x := %s(); a := %s.%s(x); b := %s.%s(x); println(a, b, x%s) }", mk, T, n, T, n, cref)
	case "mexprP":
		return fmt.Sprintf("{ x := %s(); a := (*%s).%s(&x); b := (*%s).%s(&x); println(a, b, x%s) }", mk, T, n, T, n, cref)
	}
	panic("form " + form)
}

// renderFamily appends the code of one family to the batch and fills f.cells.
func renderFamily(b *batch, f *famProg) {
	t := f.t
	sp := t.sp
	x := &famCtx{f: f, t: t, sp: sp, pre: fmt.Sprintf("F%d", f.idx), names: sp.Names}
	nt := len(t.Types)
	pre := x.pre
	mb := b.bufs["main"]
	add := func(c cell) { f.cells = append(f.cells, c) }

	// ---- declarations of package-level types
	for i, td := range t.Types {
		if td.Fn != "" {
			continue
		}
		pb := b.bufs[td.Pkg]
		T := x.tyIdent(i)
		fmt.Fprintf(pb, "type %s %s\n\n", T, x.structBody(i))
		for k, d := range td.Decl {
			if d == "-" {
				continue
			}
			recv := T
			if d == "p" {
				recv = "*" + T
			}
			fmt.Fprintf(pb, "func (r %s) %s() int32 { r.Cn++; return %d + r.Cn }\n", recv, x.names[k], (i+1)*100+(k+1)*10)
		}
		mk, nw, bump := x.mkBody(i)
		fmt.Fprintf(pb, "func Mk%s_%d() %s %s\n", pre, i+1, T, strings.TrimPrefix(mk, "func() "+T))
		fmt.Fprintf(pb, "func New%s_%d() *%s %s\n", pre, i+1, T, strings.TrimPrefix(nw, "func() *"+T))
		fmt.Fprintf(pb, "func Bump%s_%d(p *%s) %s\n\n", pre, i+1, T, strings.TrimPrefix(bump, "func(p *"+T+")"))
	}
	// ---- interfaces and their assertion helpers
	for q, I := range sp.Ifaces {
		pb := b.bufs[I.Pkg]
		if I.Form == "named" {
			fmt.Fprintf(pb, "type %sI%d %s\n", pre, q+1, x.ifaceLit(q))
		}
		it := x.ifaceText(q, I.Pkg)
		fmt.Fprintf(pb, "func As%s_%d(v any) bool { _, ok := v.(%s); return ok }\n", pre, q+1, it)
		fmt.Fprintf(pb, "func Ms%s_%d(v any) (s string) {\n\tdefer func() {\n\t\tif r := recover(); r != nil {\n\t\t\ts = u.Miss(r)\n\t\t}\n\t}()\n\t_ = v.(%s)\n\treturn \"ok\"\n}\n\n", pre, q+1, it)
	}
	// ---- globals of the family in package main
	fmt.Fprintf(mb, "var %sdyn [%d]any\nvar %svals [%d]any\n\n", pre, 2*nt, pre, 5*nt)

	setup := func(i int, from string) string {
		mk := x.fnRef("Mk", i, from)
		nw := x.fnRef("New", i, from)
		return fmt.Sprintf("{ x1 := %s(); x2 := %s(); %svals[%d] = x1; %svals[%d] = x1; %svals[%d] = x2; %svals[%d] = &x1; %svals[%d] = &x2; %sdyn[%d] = %s(); %sdyn[%d] = %s() }",
			mk, mk, pre, 5*i, pre, 5*i+1, pre, 5*i+2, pre, 5*i+3, pre, 5*i+4, pre, 2*i, mk, pre, 2*i+1, nw)
	}

	// probes of type i grouped; static ones are written where the type lives
	staticProbes := make([][]int, nt) // indices into t.Disp
	var helperProbes []int
	skipped := 0
	for di, d := range t.Disp {
		i := d.I - 1
		mid := t.Mids[d.M-1]
		if mid[0] == "" || mid[0] == t.Types[i].Pkg {
			staticProbes[i] = append(staticProbes[i], di)
		} else if d.Form == "ifaceV" || d.Form == "ifaceP" {
			helperProbes = append(helperProbes, di)
		} else {
			skipped++
		}
	}
	probeLines := func(i int, from string) []string {
		var out []string
		T := x.tyRef(i, from)
		for _, di := range staticProbes[i] {
			d := t.Disp[di]
			cref := ""
			for _, j := range d.Path {
				cref += "." + x.tyIdent(j-1)
			}
			out = append(out, probe(d.Form, T, x.fnRef("Mk", i, from), x.fnRef("Bump", i, from), t.Mids[d.M-1][1], cref+".Cn"))
		}
		return out
	}

	// ---- local functions
	fns := map[string][]int{}
	for i, td := range t.Types {
		if td.Fn != "" {
			fns[td.Fn] = append(fns[td.Fn], i)
		}
	}
	fnNames := make([]string, 0, len(fns))
	for fn := range fns {
		fnNames = append(fnNames, fn)
	}
	sort.Strings(fnNames)
	for _, fn := range fnNames {
		is := fns[fn]
		fmt.Fprintf(mb, "func %s%s(ph int) any {\n", pre, fn)
		for k := len(is) - 1; k >= 0; k-- { // later types are embedded by earlier ones
			i := is[k]
			fmt.Fprintf(mb, "\ttype %s %s\n", x.tyIdent(i), strings.ReplaceAll(x.structBody(i), "\n", "\n\t"))
		}
		for k := len(is) - 1; k >= 0; k-- {
			i := is[k]
			mk, nw, bump := x.mkBody(i)
			fmt.Fprintf(mb, "\tmk%d := %s\n\tnew%d := %s\n\tvar bump%d func(p *%s)\n\tbump%d = %s\n\t_, _, _ = mk%d, new%d, bump%d\n", i+1, mk, i+1, nw, i+1, x.tyIdent(i), i+1, bump, i+1, i+1, i+1)
		}
		fmt.Fprintf(mb, "\tswitch ph {\n\tcase 0:\n")
		for _, i := range is {
			fmt.Fprintf(mb, "\t\t%s\n", setup(i, "main"))
		}
		for _, i := range is {
			fmt.Fprintf(mb, "\tcase %d:\n", i+1)
			for _, l := range probeLines(i, "main") {
				fmt.Fprintf(mb, "\t\t%s\n", l)
			}
			fmt.Fprintf(mb, "\tcase %d:\n\t\treturn mk%d()\n\tcase %d:\n\t\treturn new%d()\n", 100+2*i, i+1, 100+2*i+1, i+1)
		}
		fmt.Fprintf(mb, "\t}\n\treturn nil\n}\n\n")
	}
	// ---- probe functions of package-level types
	for i, td := range t.Types {
		if td.Fn != "" {
			continue
		}
		pb := b.bufs[td.Pkg]
		fmt.Fprintf(pb, "func Probe%s_%d() {\n", pre, i+1)
		for _, l := range probeLines(i, td.Pkg) {
			fmt.Fprintf(pb, "\t%s\n", l)
		}
		fmt.Fprintf(pb, "}\n\n")
	}
	// ---- helper probes: methods that cannot be named where the type lives
	helpers := map[string]bool{}
	for _, di := range helperProbes {
		mid := t.Mids[t.Disp[di].M-1]
		hk := mid[0] + "." + mid[1]
		if helpers[hk] {
			continue
		}
		helpers[hk] = true
		fmt.Fprintf(b.bufs[mid[0]], "func Ic%s_%s(v any) (int32, int32) { i := v.(interface{ %s() int32 }); a := i.%s(); b := i.%s(); return a, b }\n\n", pre, mid[1], mid[1], mid[1], mid[1])
	}
	// ---- type switches
	armText := func(a Arm) string {
		if a.Kind == "i" {
			return x.ifaceText(a.Idx-1, "main")
		}
		s := x.tyRef(a.Idx-1, "main")
		if a.Ptr {
			s = "*" + s
		}
		return s
	}
	for n, arms := range [][]Arm{t.Arms1, t.Arms2} {
		fmt.Fprintf(mb, "func %ss%d(v any) int32 {\n\tswitch v.(type) {\n", pre, n+1)
		for k, a := range arms {
			fmt.Fprintf(mb, "\tcase %s:\n\t\treturn %d\n", armText(a), k+1)
		}
		fmt.Fprintf(mb, "\t}\n\treturn 0\n}\n\n")
	}
	// ---- the section of the family
	fmt.Fprintf(mb, "func %srun() {\n", pre)
	fmt.Fprintf(mb, "\tprintln(\"#F\", %d)\n", f.idx)
	add(cell{want: fmt.Sprintf("#F %d", f.idx), kind: "hdr"})
	for i, td := range t.Types {
		if td.Fn == "" {
			fmt.Fprintf(mb, "\t%s\n", setup(i, "main"))
		}
	}
	for _, fn := range fnNames {
		fmt.Fprintf(mb, "\t%s%s(0)\n", pre, fn)
	}
	// assertions: all dynamic types against interface q, q ascending
	for q := range sp.Ifaces {
		I := sp.Ifaces[q]
		fmt.Fprintf(mb, "\tfor _, v := range %sdyn {\n\t\tprintln(%sAs%s_%d(v), %sMs%s_%d(v))\n\t}\n", pre, qual("main", I.Pkg), pre, q+1, qual("main", I.Pkg), pre, q+1)
		for k := 0; k < 2*nt; k++ {
			w := t.As[k][q]
			add(cell{want: fmt.Sprintf("%v %s", w == "ok", w), kind: "as", a: k, b: q})
		}
	}
	fmt.Fprintf(mb, "\tfor _, v := range %sdyn {\n\t\tprintln(%ss1(v), %ss2(v))\n\t}\n", pre, pre, pre)
	for k := 0; k < 2*nt; k++ {
		add(cell{want: fmt.Sprintf("%d %d", t.S1[k], t.S2[k]), kind: "sw", a: k})
	}
	fmt.Fprintf(mb, "\tu.EqRows(%svals[:])\n", pre)
	for a := range t.Eq {
		r := 0
		for bb, v := range t.Eq[a] {
			if v == 1 {
				r |= 1 << uint(bb)
			}
		}
		add(cell{want: fmt.Sprint(r), kind: "eq", a: a})
	}
	dispWant := func(d Disp) string {
		code := d.Target*100 + x.nameIdx(t.Mids[d.M-1][1])*10
		return fmt.Sprintf("%d %d", code+d.A, code+d.B)
	}
	dispWantX := func(d Disp) string {
		if hasX(d.Form) {
			return fmt.Sprintf("%s %d", dispWant(d), d.C)
		}
		return dispWant(d)
	}
	for i, td := range t.Types {
		if td.Fn == "" {
			fmt.Fprintf(mb, "\t%sProbe%s_%d()\n", qual("main", td.Pkg), pre, i+1)
		} else {
			fmt.Fprintf(mb, "\t%s%s(%d)\n", pre, td.Fn, i+1)
		}
		for _, di := range staticProbes[i] {
			add(cell{want: dispWantX(t.Disp[di]), kind: "disp", a: di})
		}
	}
	for _, di := range helperProbes {
		d := t.Disp[di]
		i := d.I - 1
		mid := t.Mids[d.M-1]
		var fresh string
		td := t.Types[i]
		ptr := d.Form == "ifaceP"
		switch {
		case td.Fn != "" && ptr:
			fresh = fmt.Sprintf("%s%s(%d)", pre, td.Fn, 100+2*i+1)
		case td.Fn != "":
			fresh = fmt.Sprintf("%s%s(%d)", pre, td.Fn, 100+2*i)
		case ptr:
			fresh = x.fnRef("New", i, "main") + "()"
		default:
			fresh = x.fnRef("Mk", i, "main") + "()"
		}
		fmt.Fprintf(mb, "\t{ a, b := %sIc%s_%s(%s); println(a, b) }\n", qual("main", mid[0]), pre, mid[1], fresh)
		add(cell{want: dispWant(d), kind: "disp", a: di, b: 1})
	}
	fmt.Fprintf(mb, "\tprintln(\"#E\", %d)\n}\n\n", f.idx)
	add(cell{want: fmt.Sprintf("#E %d", f.idx), kind: "end"})
	fmt.Fprintf(&b.main, "\trun(%srun)\n", pre)
	_ = skipped
}
