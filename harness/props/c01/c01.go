// Package c01 decides C01 (see DESIGN.md section 4). Not built yet.
package c01
