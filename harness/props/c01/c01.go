// Package c01 decides C01 (compiled programs behave like the reference
// toolchain) on MiniGo (the sequential core: control flow, calls, closures, and in
// version 2 slices, arrays, maps, strings, pointers, a struct type with methods,
// range, multi-assignment, defer, goto, run-time panics): TLC evaluates
// spec/MiniGo.tla on every (program, input) pair; the compiled program (plain build, non-suspending
// trace points) must print exactly the predicted observation, the compiler must
// accept every program without internal error and emit syntactically valid
// JavaScript.  Native Go guards the specification.
package c01

import (
	"verif/core"
	"verif/gjs"
	"verif/props/minigo"
	"verif/reg"
)

func init() { reg.Register("C01", "model_checking", Run) }

// Run is the C01 check.
func Run(c *core.Ctx, pool *gjs.Pool) {
	c.Assumef("the MiniGo language of spec/MiniGo.tla: ints, bools, assignment incl. tuple and op-assignment, if/else, for and range with labelled break/continue, switch with fallthrough and default anywhere, goto, calls incl. variadic, several and named results, recursion, closures and function values, defer, slices/arrays/maps/ASCII strings/pointers/one struct type with value and pointer receiver methods and method values, run-time panics as terminations; programs whose outcome Go leaves open (append growth, map order, read-versus-call order) are kept out by construction or discarded by the specification; other language areas are decided by C03, C06-C09, C14, C15")
	minigo.Check(c, pool, minigo.Config{Prop: "C01", Families: true, Random: c.Pick(300, 6000), Random2: c.Pick(150, 4000), NodeCheck: true,
		Modes: []minigo.Mode{{Name: "plain"}, {Name: "resumable", Flat: true, Masks: 0}}})
}
