// Package c01 decides C01 (compiled programs behave like the reference
// toolchain) on the MiniGo fragment: TLC evaluates spec/MiniGo.tla on every
// (program, input) pair; the compiled program (plain build, non-suspending
// trace points) must print exactly the predicted observation, the compiler must
// accept every program without internal error and emit syntactically valid
// JavaScript.  Native Go guards the specification.
package c01

import (
	"verif/core"
	"verif/gjs"
	"verif/props/minigo"
	"verif/reg"
)

func init() { reg.Register("C01", "model_checking", Run) }

// Run is the C01 check.
func Run(c *core.Ctx, pool *gjs.Pool) {
	c.Assumef("the MiniGo fragment: ints, bools, assignment incl. swap, if/else, for with labelled break/continue, switch with fallthrough and default anywhere, calls, closures capturing by reference; other language areas are decided by C03, C06-C09, C14, C15")
	minigo.Check(c, pool, minigo.Config{Prop: "C01", Families: true, Random: c.Pick(300, 6000), NodeCheck: true,
		Modes: []minigo.Mode{{Name: "plain"}, {Name: "resumable", Flat: true, Masks: 0}}})
}
