// Package c02 decides C02 (see DESIGN.md section 4). Not built yet.
package c02
