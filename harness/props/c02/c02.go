// Package c02 decides C02 (suspending and resuming a goroutine is invisible):
// the same MiniGo programs are compiled with trace points that may suspend the
// goroutine (runtime.Gosched: a full suspend through $recv/$block and resume
// through $schedule), so every function is emitted in its resumable form; for
// every yield mask the program must print exactly what spec/MiniGo.tla predicts
// (in which a yield is a stuttering step) -- and what the plain build prints.
package c02

import (
	"verif/core"
	"verif/gjs"
	"verif/props/c08"
	"verif/props/minigo"
	"verif/reg"
)

func init() { reg.Register("C02", "model_checking", Run) }

// Run is the C02 check.
func Run(c *core.Ctx, pool *gjs.Pool) {
	c.Assumef("suspension points are the trace points of the programs (call sites inside expressions, conditions, case expressions, post statements, arguments, index expressions, range operands and bodies, append and multi-assignment operands, deferred call arguments and deferred function bodies, method-value receivers, method bodies); no other goroutine is runnable in between")
	minigo.Check(c, pool, minigo.Config{Prop: "C02", Families: true, Random: c.Pick(250, 5000), Random2: c.Pick(120, 3000),
		Modes: []minigo.Mode{{Name: "resumable", Flat: true, Masks: c.Pick(8, 48)}}})
	// suspensions inside deferred functions during a return, a panic or Goexit: the
	// families of UnwindScen.tla with suspension points (a stuttering step of Unwind.tla)
	c08.RunYield(c, pool)
	blockingPart(c, pool) // call kinds and soundness of the blocking analysis (blocking.go, spec/Blocking.tla)
}
