//go:build c02dev

package c02

// Development aid (never part of ./check builds): registers the call-kind part
// of C02 alone as check id C02B:
//
//	cd /verif/harness && go build -tags "verif prop_c02 c02dev" -o /tmp/vcheck-c02b ./cmd/vcheck
//	VERIF_ROOT=/verif VERIF_NO_EVIDENCE=1 /tmp/vcheck-c02b C02B quick
//
// Findings are looked up under property C02.

import (
	"verif/core"
	"verif/gjs"
	"verif/reg"
)

func init() {
	reg.Register("C02B", "model_checking", func(c *core.Ctx, pool *gjs.Pool) {
		c.ID = "C02"
		blockingPart(c, pool)
	})
}
