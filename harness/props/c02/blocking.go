package c02

// The call-kind part of C02: soundness of the blocking analysis.
//
// spec/Blocking.tla models the call graph of a program (edge kinds: direct,
// method on value / pointer, method value, method expression, interface method,
// function value in a variable / field / element / result / parameter, function
// literal called in place, generic instance whose type argument decides the
// method reached, go statement, deferred call, call into another package in
// both import directions, go:linkname reference), the reference MayYield (least
// fixpoint) and the analysis as compiler/internal/analysis/info.go does it
// (local marking, work lists resolved package by package in rounds, returns of
// functions with blocking deferred calls).  spec/BlockingScen.tla enumerates
// call chains R -> F0 -k1-> .. -kd-> Fd (d <= 3) x leaf operation x use site of
// the result x placement over packages, model-checks the analysis on each call
// graph in every package order and emits MayYield / the model's marking of
// every function and the integers the program prints.
//
// This file renders every scenario as Go (batches of scenarios per module vp:
// packages main, a, b, c, y), compiles each module IN-PROCESS in a child of
// the harness binary to read Decl.Blocking of every function from the real
// archives, and runs the emitted JavaScript under Node: the program executes
// every scenario twice, with the yield switch (runtime.Gosched in y.Y) off and
// on.  Verdicts:
//   - MayYield(f) and not Decl.Blocking(f)          -> violation (the callers of f
//     are compiled as plain calls and would receive the $blk resume object),
//   - printed integers of a scenario (either pass) differ from the prediction
//     -> violation,
// both only when native Go prints the prediction for that scenario (guard).
// Decl.Blocking different from the model's marking is MODEL-DRIFT (counted);
// Blocking without MayYield is precision loss (counted, allowed).

import (
	"encoding/json"
	"fmt"
	"math/rand"
	"os"
	"os/exec"
	"path/filepath"
	"sort"
	"strconv"
	"strings"
	"sync"
	"time"

	gbuild "github.com/gopherjs/gopherjs/build"

	"verif/core"
	"verif/gjs"
	"verif/tlcx"
)

const blkChildArg = "__c02blk"

func init() {
	if len(os.Args) >= 4 && os.Args[1] == blkChildArg {
		blkChildMain(os.Args[2], os.Args[3])
	}
}

// ---------------------------------------------------------------------------
// child: one in-process build, archives inspected through the public API

type blkDecl struct {
	Name     string `json:"n"`
	Blocking bool   `json:"b"`
}

type blkChildResult struct {
	Err   string    `json:"err,omitempty"`
	Panic bool      `json:"panic,omitempty"`
	Decls []blkDecl `json:"decls,omitempty"`
}

func blkChildMain(dir, out string) {
	var res blkChildResult
	emit := func() {
		b, _ := json.Marshal(res)
		os.Stdout.Write(append(b, '\n'))
		os.Exit(0)
	}
	gjs.Init()
	if err := os.Chdir(dir); err != nil {
		res.Err = "infra: " + err.Error()
		emit()
	}
	func() {
		defer func() {
			if r := recover(); r != nil {
				res.Err = fmt.Sprintf("compiler panic: %v", r)
				res.Panic = true
			}
		}()
		s, err := gbuild.NewSession(&gbuild.Options{NoCache: true, Quiet: true})
		if err != nil {
			res.Err = err.Error()
			return
		}
		pkg, err := s.XContext().Import(".", dir, 0)
		if err != nil {
			res.Err = err.Error()
			return
		}
		archive, err := s.BuildProject(pkg)
		if err != nil {
			res.Err = err.Error()
			return
		}
		if err := s.WriteCommandPackage(archive, out); err != nil {
			res.Err = err.Error()
			return
		}
		for path, a := range s.UpToDateArchives {
			user := path == "." || path == "main" || path == "vp" || strings.HasPrefix(path, "vp/")
			if !user && path != "runtime" {
				continue
			}
			for _, d := range a.Declarations {
				if !strings.HasPrefix(d.FullName, "func:") {
					continue
				}
				if !user && d.FullName != "func:runtime.Gosched" {
					continue
				}
				res.Decls = append(res.Decls, blkDecl{Name: d.FullName, Blocking: d.Blocking})
			}
		}
	}()
	emit()
}

func blkRunChild(dir, out string, timeout time.Duration) (*blkChildResult, error) {
	exe, err := os.Executable()
	if err != nil {
		return nil, err
	}
	cmd := exec.Command(exe, blkChildArg, dir, out)
	cmd.Dir = dir
	var stderr strings.Builder
	cmd.Stderr = &stderr
	done := make(chan struct{})
	var outb []byte
	var runErr error
	go func() {
		outb, runErr = cmd.Output()
		close(done)
	}()
	select {
	case <-done:
	case <-time.After(timeout):
		if cmd.Process != nil {
			cmd.Process.Kill()
		}
		<-done
		return nil, fmt.Errorf("child build timed out after %v", timeout)
	}
	lines := strings.Split(strings.TrimSpace(string(outb)), "\n")
	var res blkChildResult
	if e := json.Unmarshal([]byte(lines[len(lines)-1]), &res); e != nil {
		if runErr != nil {
			return &blkChildResult{Err: fmt.Sprintf("compiler process died: %v: %s", runErr, blkTail(stderr.String(), 600)), Panic: true}, nil
		}
		return nil, fmt.Errorf("child answered %q: %v", blkTail(string(outb), 300), e)
	}
	if strings.HasPrefix(res.Err, "infra: ") {
		return nil, fmt.Errorf("%s", res.Err)
	}
	return &res, nil
}

func blkTail(s string, n int) string {
	if len(s) > n {
		return s[len(s)-n:]
	}
	return s
}

// ---------------------------------------------------------------------------
// scenarios as TLC emits them

type blkNode struct {
	N string `json:"n"`
	P int    `json:"p"`
	K string `json:"k"` // func | lit | bodyless
	Y bool   `json:"y"` // MayYield (reference)
	M bool   `json:"m"` // marked by the implementation-shaped model
}

type blkScen struct {
	Ks    []string  `json:"ks"`
	Leaf  string    `json:"leaf"`
	Use   string    `json:"use"`
	Place string    `json:"place"`
	Nodes []blkNode `json:"nodes"`
	Out   []int     `json:"out"`
	Det   []string  `json:"det"`

	id  int
	pkg map[string]int
}

func (s *blkScen) key() string {
	return strings.Join(s.Ks, ">") + "|" + s.Leaf + "|" + s.Use + "|" + s.Place
}

type blkExtra struct {
	Ks    []string `json:"ks"`
	Leaf  string   `json:"leaf"`
	Use   string   `json:"use"`
	Place string   `json:"place"`
}

var (
	blkKinds  = []string{"direct", "mval", "mptr", "mvalue", "mexpr", "iface", "fvar", "ffield", "felem", "fresult", "fparam", "lit", "generic", "go", "link"}
	blkLeaves = []string{"none", "gosched", "send", "recv", "select", "rangechan", "rangetp"}
	blkUses   = []string{"stmt", "assign", "operand", "arg", "cond", "ret", "defer"}
	blkPlaces = []string{"same", "down", "up"}
	blkPkgs   = []string{"main", "a", "b", "c", "y"}
)

const blkCfg = `SPECIFICATION Spec
CONSTANT Variant = "ok"
INVARIANTS TypeOK Sound OrderIndep StaticClosed DeferSound Terminates Emit
PROPERTY Monotone
`

// ---------------------------------------------------------------------------
// rendering

type blkRend struct {
	decls   [5]strings.Builder // per package
	setup   strings.Builder
	runs    []string
	needLnk [5]bool
}

func isMethodKind(k string) bool {
	switch k {
	case "mval", "mptr", "mvalue", "mexpr", "iface", "generic":
		return true
	}
	return false
}

func (r *blkRend) q(from, to int, ident string) string {
	if from == to {
		return ident
	}
	return blkPkgs[to] + "." + ident
}

// inKind is the kind of the edge into chain node i ("" for the root F0).
func (s *blkScen) inKind(i int) string {
	if i == 0 {
		return ""
	}
	return s.Ks[i-1]
}

func ind(lines []string, n int) []string {
	p := strings.Repeat("\t", n)
	out := make([]string, len(lines))
	for i, l := range lines {
		out[i] = p + l
	}
	return out
}

// body returns the statements of chain node i; x is the name of its argument.
func (r *blkRend) body(s *blkScen, i int, x string) []string {
	d := len(s.Ks)
	c := i + 1
	suf := fmt.Sprintf("%d_%d", s.id, i)
	_ = suf
	var ls []string
	ls = append(ls, fmt.Sprintf("println(%d)", 10*c+1))
	if isMethodKind(s.inKind(i)) {
		ls = append(ls, "cc := t.K")
	} else {
		ls = append(ls, fmt.Sprintf("cc := int32(%d)", c))
	}
	me := s.pkg[fmt.Sprintf("F%d", i)]
	if i == d {
		switch s.Leaf {
		case "none":
		case "gosched":
			ls = append(ls, r.q(me, 4, "Y")+"()")
		case "send":
			ls = append(ls, "ch := make(chan int32, 1)", "ch <- "+x, "_ = len(ch)")
		case "recv":
			ls = append(ls, "ch := make(chan int32)", "close(ch)", x+" += <-ch")
		case "select":
			ls = append(ls, "ch := make(chan int32)", "close(ch)", "select {", "case v := <-ch:", "\t"+x+" += v", "}")
		case "rangechan":
			ls = append(ls, "ch := make(chan int32)", "close(ch)", "for v := range ch {", "\t"+x+" += v", "}")
		case "rangetp":
			ls = append(ls, "ch := make(chan int32)", "close(ch)", x+" += "+r.q(me, 4, "Drain")+"(ch)")
		}
		ls = append(ls, "return 2*"+x+" + cc")
		return ls
	}
	// the call of node i+1
	k := s.Ks[i]
	j := i + 1
	to := s.pkg[fmt.Sprintf("F%d", j)]
	sj := fmt.Sprintf("%d_%d", s.id, j)
	arg := x + "+1"
	T := r.q(me, to, "T"+sj)
	N := r.q(me, to, "N"+sj)
	lit := fmt.Sprintf("%s{K: %d}", T, j+1)
	var call string
	switch k {
	case "direct":
		call = r.q(me, to, "F"+sj) + "(" + arg + ")"
	case "mval":
		call = lit + ".M(" + arg + ")"
	case "mptr":
		call = "(&" + lit + ").M(" + arg + ")"
	case "mexpr":
		call = T + ".M(" + lit + ", " + arg + ")"
	case "mvalue":
		ls = append(ls, "mv := "+lit+".M")
		call = "mv(" + arg + ")"
	case "iface":
		call = "VI" + sj + ".M(" + arg + ")"
	case "fvar":
		call = "V" + sj + "(" + arg + ")"
	case "ffield":
		call = "S" + sj + ".F(" + arg + ")"
	case "felem":
		call = "M" + sj + "[1](" + arg + ")"
	case "fresult":
		call = "R" + sj + "()(" + arg + ")"
	case "fparam":
		call = "P" + sj + "(V" + sj + ", " + arg + ")"
	case "lit":
		inner := r.body(s, j, "z")
		call = "func(z int32) int32 {\n" + strings.Join(ind(inner, 1), "\n") + "\n}(" + arg + ")"
	case "generic":
		ls = append(ls, "_ = G"+sj+"["+N+"]("+N+"{}, "+x+")")
		call = "G" + sj + "[" + T + "](" + lit + ", " + arg + ")"
	case "link":
		call = "L" + sj + "(" + arg + ")"
	case "go":
		ls = append(ls,
			r.q(me, 4, "Pending")+"++",
			"go func(z int32) {",
			"\t<-"+r.q(me, 4, "Gate"),
			"\tres := "+r.q(me, to, "F"+sj)+"(z)",
			"\tprintln(res)",
			"\t"+r.q(me, 4, "Done")+" <- 1",
			"}("+arg+")",
			fmt.Sprintf("println(%d)", 10*c+2),
			"return 3*"+x+" + cc")
		return ls
	}
	after := fmt.Sprintf("println(%d)", 10*c+2)
	t := fmt.Sprintf("%s(%d)", r.q(me, 4, "T"), 10*c+5)
	switch s.Use {
	case "stmt":
		ls = append(ls, call, after, "return 3*"+x+" + cc")
	case "assign":
		ls = append(ls, "r := "+call, after, "return 3*r + "+x+" + cc")
	case "operand":
		ls = append(ls, "r := 5*"+x+" + 2*"+call+" + "+t, after, "return r + cc")
	case "arg":
		ls = append(ls, "r := "+r.q(me, 4, "Pick")+"("+x+", "+call+", "+t+")", after, "return r + cc")
	case "cond":
		ls = append(ls, "var r int32", "if ("+call+")%2 == 0 {", "\tr = "+x+" + 7", "} else {", "\tr = "+x+" + 9", "}", after, "return 3*r + cc")
	case "ret":
		ls = append(ls, "return "+call+" + cc")
	case "defer":
		ls = append(ls, "defer "+call, after, "return 3*"+x+" + cc")
	}
	return ls
}

func (r *blkRend) fn(pkg int, header string, body []string) {
	b := &r.decls[pkg]
	b.WriteString(header + " {\n" + strings.Join(ind(body, 1), "\n") + "\n}\n\n")
}

// add renders one scenario.
func (r *blkRend) add(s *blkScen) {
	d := len(s.Ks)
	for i := 0; i <= d; i++ {
		me := s.pkg[fmt.Sprintf("F%d", i)]
		si := fmt.Sprintf("%d_%d", s.id, i)
		k := s.inKind(i)
		// the declaration of node i
		switch {
		case k == "lit":
			// rendered inside its caller
		case k == "mptr":
			r.decls[me].WriteString("type T" + si + " struct{ K int32 }\n\n")
			r.fn(me, "func (t *T"+si+") M(x int32) int32", r.body(s, i, "x"))
		case isMethodKind(k):
			r.decls[me].WriteString("type T" + si + " struct{ K int32 }\n\n")
			r.fn(me, "func (t T"+si+") M(x int32) int32", r.body(s, i, "x"))
		default:
			r.fn(me, "func F"+si+"(x int32) int32", r.body(s, i, "x"))
		}
		if i == 0 {
			continue
		}
		// what the edge into node i needs besides the two functions
		pc := s.pkg[fmt.Sprintf("F%d", i-1)]
		cp := &r.decls[pc]
		F := r.q(0, me, "F"+si)
		switch k {
		case "iface":
			r.decls[me].WriteString("type N" + si + " struct{}\n\nfunc (N" + si + ") M(x int32) int32 { return x }\n\nvar _ " + r.q(me, 4, "I") + " = N" + si + "{}\n\n")
			cp.WriteString("var VI" + si + " " + r.q(pc, 4, "I") + "\n\n")
			fmt.Fprintf(&r.setup, "\t%s = %s{K: %d}\n", r.q(0, pc, "VI"+si), r.q(0, me, "T"+si), i+1)
		case "generic":
			r.decls[me].WriteString("type N" + si + " struct{}\n\nfunc (N" + si + ") M(x int32) int32 { return x }\n\n")
			cp.WriteString("func G" + si + "[X " + r.q(pc, 4, "I") + "](v X, x int32) int32 { return v.M(x) }\n\n")
		case "fvar":
			cp.WriteString("var V" + si + " func(int32) int32\n\n")
			fmt.Fprintf(&r.setup, "\t%s = %s\n", r.q(0, pc, "V"+si), F)
		case "fresult":
			cp.WriteString("var V" + si + " func(int32) int32\n\nfunc R" + si + "() func(int32) int32 { return V" + si + " }\n\n")
			fmt.Fprintf(&r.setup, "\t%s = %s\n", r.q(0, pc, "V"+si), F)
		case "fparam":
			cp.WriteString("var V" + si + " func(int32) int32\n\nfunc P" + si + "(f func(int32) int32, x int32) int32 { return f(x) }\n\n")
			fmt.Fprintf(&r.setup, "\t%s = %s\n", r.q(0, pc, "V"+si), F)
		case "ffield":
			cp.WriteString("var S" + si + " struct{ F func(int32) int32 }\n\n")
			fmt.Fprintf(&r.setup, "\t%s.F = %s\n", r.q(0, pc, "S"+si), F)
		case "felem":
			if s.id%2 == 0 {
				cp.WriteString("var M" + si + " = map[int32]func(int32) int32{}\n\n")
			} else {
				cp.WriteString("var M" + si + " = make([]func(int32) int32, 2)\n\n")
			}
			fmt.Fprintf(&r.setup, "\t%s[1] = %s\n", r.q(0, pc, "M"+si), F)
		case "link":
			cp.WriteString("//go:linkname L" + si + " vp/" + blkPkgs[me] + ".F" + si + "\nfunc L" + si + "(x int32) int32\n\n")
			r.needLnk[pc] = true
		}
	}
	root := s.pkg["F0"]
	r.decls[0].WriteString(fmt.Sprintf("func run_%d() {\n\tdefer func() {\n\t\tif e := recover(); e != nil {\n\t\t\tprintln(-1)\n\t\t}\n\t}()\n\tprintln(%d)\n\tprintln(%s(1))\n}\n\n",
		s.id, blkMark+s.id, r.q(0, root, fmt.Sprintf("F%d_0", s.id))))
	r.runs = append(r.runs, fmt.Sprintf("run_%d", s.id))
}

const blkMark = 100000

const blkYSrc = `package y

import "runtime"

// I is the interface of every interface / generic edge.
type I interface{ M(x int32) int32 }

// On is the yield switch: one build serves yield-off and yield-on.
var On bool

var Dummy int32

// Y is the only function that really suspends the goroutine.
func Y() {
	if On {
		runtime.Gosched()
	}
}

// T prints its argument and returns it (a call that cannot suspend).
func T(m int32) int32 {
	println(m)
	return m
}

func Pick(a, b, t int32) int32 { return 5*a + 2*b + t }

// Drain ranges over a channel whose type is a type parameter.
func Drain[C ~chan E, E any](c C) (n int32) {
	for range c {
		n++
	}
	return
}

var (
	Gate    = make(chan int32)
	Done    = make(chan int32)
	Pending int32
)

// DrainQ lets the goroutines started by go edges run, one after the other.
func DrainQ() {
	for Pending > 0 {
		Pending--
		Gate <- 1
		<-Done
	}
}
`

// prog assembles the module.
func (r *blkRend) prog() gjs.Prog {
	files := map[string]string{"y/y.go": blkYSrc}
	for p := 1; p <= 3; p++ {
		var b strings.Builder
		b.WriteString("package " + blkPkgs[p] + "\n\nimport (\n")
		for q := p + 1; q <= 4; q++ {
			b.WriteString("\t\"vp/" + blkPkgs[q] + "\"\n")
		}
		b.WriteString("\t_ \"unsafe\"\n)\n\nvar Dummy int32\n\n")
		for q := p + 1; q <= 4; q++ {
			b.WriteString("var _ = " + blkPkgs[q] + ".Dummy\n")
		}
		b.WriteString("\n")
		b.WriteString(r.decls[p].String())
		files[blkPkgs[p]+"/"+blkPkgs[p]+".go"] = b.String()
	}
	var m strings.Builder
	m.WriteString("package main\n\nimport (\n\t\"vp/a\"\n\t\"vp/b\"\n\t\"vp/c\"\n\t\"vp/y\"\n)\n\nvar _ = a.Dummy + b.Dummy + c.Dummy\n\n")
	m.WriteString(r.decls[0].String())
	m.WriteString("func setup() {\n" + r.setup.String() + "}\n\n")
	m.WriteString("func main() {\n\tsetup()\n\tfor pass := 0; pass < 2; pass++ {\n\t\ty.On = pass == 1\n\t\tprintln(-100 - pass)\n")
	for _, run := range r.runs {
		m.WriteString("\t\t" + run + "()\n\t\ty.DrainQ()\n")
	}
	m.WriteString("\t}\n}\n")
	files["main.go"] = m.String()
	return gjs.Prog{Files: files}
}

// declName is the normalised Decl.FullName expected for a node ("" = none).
func (s *blkScen) declName(n blkNode) string {
	idx := func() int { v, _ := strconv.Atoi(n.N[len(n.N)-1:]); return v }
	switch {
	case n.K == "lit":
		return ""
	case n.N == "R":
		return fmt.Sprintf("run_%d", s.id)
	case n.N == "Y" || n.N == "T" || n.N == "Pick":
		return n.N
	case n.N == "Drain":
		return "Drain<chan int32, int32>"
	case n.N == "Gosched":
		return "runtime.Gosched"
	case strings.HasPrefix(n.N, "GT"):
		return fmt.Sprintf("G%d_%d<T%d_%d>", s.id, idx(), s.id, idx())
	case strings.HasPrefix(n.N, "GN"):
		return fmt.Sprintf("G%d_%d<N%d_%d>", s.id, idx(), s.id, idx())
	case strings.HasPrefix(n.N, "N"):
		return fmt.Sprintf("N%d_%d.M", s.id, idx())
	case strings.HasPrefix(n.N, "R"), strings.HasPrefix(n.N, "P"), strings.HasPrefix(n.N, "L"):
		return fmt.Sprintf("%s%d_%d", n.N[:1], s.id, idx())
	case strings.HasPrefix(n.N, "F"):
		i := idx()
		k := s.inKind(i)
		switch {
		case k == "mptr":
			return fmt.Sprintf("(*T%d_%d).M", s.id, i)
		case isMethodKind(k):
			return fmt.Sprintf("T%d_%d.M", s.id, i)
		}
		return fmt.Sprintf("F%d_%d", s.id, i)
	}
	return ""
}

// role describes a node for classifier keys.
func (s *blkScen) role(n blkNode) string {
	if strings.HasPrefix(n.N, "F") && len(n.N) == 2 {
		i, _ := strconv.Atoi(n.N[1:])
		if i == len(s.Ks) {
			return "leaf_" + s.Leaf
		}
		r := "caller_" + s.Ks[i]
		if s.Use == "defer" && s.Ks[i] != "go" {
			r += "_deferred"
		}
		return r
	}
	if n.N == "R" {
		return "caller_direct_from_main"
	}
	return "helper_" + strings.TrimRight(n.N, "0123456789")
}

func normDecl(full string) string {
	f := strings.TrimPrefix(full, "func:")
	if f == "runtime.Gosched" {
		return f
	}
	for _, p := range []string{"vp/a.", "vp/b.", "vp/c.", "vp/y."} {
		f = strings.ReplaceAll(f, p, "")
	}
	f = strings.TrimPrefix(f, "..")
	f = strings.TrimPrefix(f, "main.")
	f = strings.TrimPrefix(f, "vp.")
	return f
}

// segment splits printed lines into pass -> scenario id -> integers.
func blkSegment(lines []string) [2]map[int][]string {
	var res [2]map[int][]string
	res[0], res[1] = map[int][]string{}, map[int][]string{}
	pass, cur := -1, -1
	for _, l := range lines {
		l = strings.TrimSpace(l)
		if l == "-100" || l == "-101" {
			pass = int(l[3] - '0')
			cur = -1
			continue
		}
		if pass < 0 {
			continue
		}
		if v, err := strconv.Atoi(l); err == nil && v >= blkMark {
			cur = v - blkMark
			res[pass][cur] = []string{}
			continue
		}
		if cur >= 0 {
			if l == "-0" {
				l = "0"
			}
			res[pass][cur] = append(res[pass][cur], l)
		}
	}
	return res
}

func sameLines(a, b []string) bool {
	if len(a) != len(b) {
		return false
	}
	for i := range a {
		if a[i] != b[i] {
			return false
		}
	}
	return true
}

// ---------------------------------------------------------------------------
// the phase

func blockingPart(c *core.Ctx, pool *gjs.Pool) {
	defer c.Phase("blocking_callkinds")
	c.Assumef("call-kind part: every scenario is one call chain of depth <= 3; the only operation that really suspends is runtime.Gosched (the other leaf operations are channel operations that are ready); goroutines started by go edges run only after the root call returned (they wait for the driver), so no other goroutine is runnable during a suspension")
	rng := rand.New(rand.NewSource(c.Seed*7919 + 17))
	pick := func(l []string) string { return l[rng.Intn(len(l))] }

	// 1. scenario space: TLC enumerates depth 1 x {none, gosched} x uses x places
	// completely (thorough: depth <= 2); the harness adds, by seed, the other leaf
	// operations, every pair of kinds, and sampled chains of depth 3.
	exhDepth := c.Pick(1, 2)
	var extra []blkExtra
	seen := map[string]bool{}
	addExtra := func(e blkExtra) {
		k := strings.Join(e.Ks, ">") + "|" + e.Leaf + "|" + e.Use + "|" + e.Place
		if !seen[k] {
			seen[k] = true
			extra = append(extra, e)
		}
	}
	for _, k := range blkKinds {
		for _, lf := range blkLeaves[2:] {
			addExtra(blkExtra{Ks: []string{k}, Leaf: lf, Use: pick(blkUses), Place: pick(blkPlaces)})
		}
	}
	if exhDepth < 2 {
		for _, k1 := range blkKinds {
			for _, k2 := range blkKinds {
				for _, lf := range blkLeaves[:2] {
					addExtra(blkExtra{Ks: []string{k1, k2}, Leaf: lf, Use: pick(blkUses), Place: pick(blkPlaces)})
				}
			}
		}
	}
	nDeep := c.Pick(200, 3000)
	for i := 0; i < nDeep; i++ {
		lf := "gosched"
		switch rng.Intn(6) {
		case 0:
			lf = "none"
		case 1:
			lf = pick(blkLeaves)
		}
		addExtra(blkExtra{Ks: []string{pick(blkKinds), pick(blkKinds), pick(blkKinds)}, Leaf: lf, Use: pick(blkUses), Place: pick(blkPlaces)})
	}
	params := map[string]any{"out": "c02_blocking.ndjson", "exh_depth": exhDepth, "extra": extra,
		"kinds": blkKinds, "leaves": blkLeaves[:2], "uses": blkUses, "places": blkPlaces}
	pj, _ := json.Marshal(params)
	t0 := time.Now()
	res, err := tlcx.Run(c, tlcx.Opts{Module: "BlockingScen", Cfg: blkCfg, Files: map[string]string{"c02_blocking_params.json": string(pj)},
		Workers: 2, Timeout: time.Duration(c.Pick(8, 40)) * time.Minute, HeapMB: 3072})
	if !tlcx.MustComplete(c, res, err, "BlockingScen (soundness, order independence, termination of the blocking analysis model)") {
		return
	}
	c.Set("blocking_checker_cmd", "tlc2.TLC -config BlockingScen_run.cfg -workers 2 BlockingScen (INVARIANTS TypeOK Sound OrderIndep StaticClosed DeferSound Terminates; PROPERTY Monotone; deadlock check on)")
	c.Add("blocking_model_states", res.Distinct)
	c.Set("blocking_tlc_wall_s", int(time.Since(t0).Seconds()))
	if os.Getenv("VERIF_VERBOSE") != "" {
		fmt.Fprintf(os.Stderr, "[C02 blocking] TLC: %d scenarios requested beyond the exhaustive bound, %d states, %.1fs\n", len(extra), res.Distinct, time.Since(t0).Seconds())
	}

	// 2. read the scenarios
	var scens []*blkScen
	err = tlcx.ReadNDJSON(filepath.Join(res.Dir, "c02_blocking.ndjson"), func(raw json.RawMessage) error {
		var inner string
		b := []byte(raw)
		if json.Unmarshal(raw, &inner) == nil {
			b = []byte(inner)
		}
		s := &blkScen{}
		if e := json.Unmarshal(b, s); e != nil {
			return e
		}
		scens = append(scens, s)
		return nil
	})
	if err != nil {
		c.Infra(fmt.Errorf("BlockingScen output: %v", err))
		return
	}
	sort.Slice(scens, func(i, j int) bool { return scens[i].key() < scens[j].key() })
	graphs := map[string]bool{}
	detBy := map[string]int{}
	for i, s := range scens {
		s.id = i + 1
		s.pkg = map[string]int{}
		var sig []string
		for _, n := range s.Nodes {
			s.pkg[n.N] = n.P
			sig = append(sig, fmt.Sprintf("%s:%d:%v", n.N, n.P, n.Y))
		}
		sort.Strings(sig)
		u := ""
		if s.Use == "defer" || s.Use == "operand" || s.Use == "arg" {
			u = s.Use
		}
		graphs[strings.Join(s.Ks, ">")+"|"+s.Leaf+"|"+u+"|"+strings.Join(sig, ",")] = true
		for _, v := range s.Det {
			detBy[v]++
		}
	}
	if len(scens) == 0 {
		c.Infra(fmt.Errorf("BlockingScen emitted no scenario"))
		return
	}
	c.Set("blocking_scenarios", len(scens))
	c.Set("blocking_callgraphs", len(graphs))
	c.Set("blocking_scenarios_exposing_wrong_analysis", detBy)
	c.Set("blocking_rule", fmt.Sprintf("TLC enumerates every call chain of depth <= %d over %d edge kinds x leaf {none, gosched} x %d use sites x %d placements completely; added by VERIF_SEED: every kind x the 5 other leaf operations, every pair of kinds x {none, gosched} (quick; complete in thorough), %d random chains of depth 3 (use site and placement random). Every scenario is model-checked (all package orders) and rendered, built in-process (Decl.Blocking of every function compared with MayYield and with the model's marking) and run with the yield switch off and on; a case = one scenario x one pass; distinct = distinct (kinds, leaf, use, placement)", exhDepth, len(blkKinds), len(blkUses), len(blkPlaces), nDeep))

	// 3. batches
	// few large programs: the fixed cost of a build (standard library, linking)
	// dominates; interleave so that every batch mixes depths and kinds
	per := 400
	var batches [][]*blkScen
	nb := (len(scens) + per - 1) / per
	if nb < c.Workers && len(scens) >= 40*c.Workers {
		nb = c.Workers
	}
	batches = make([][]*blkScen, nb)
	for i, s := range scens {
		batches[i%nb] = append(batches[i%nb], s)
	}
	var mu sync.Mutex
	reported := map[string]int{}
	report := func(keys []string, summary string, files map[string]string) {
		mu.Lock()
		reported[keys[0]]++
		n := reported[keys[0]]
		mu.Unlock()
		// at most three replay directories per classifier key; listed findings are
		// always passed on (Report only counts them)
		if n > 3 && !blkKnown(c, keys) {
			c.Add("blocking_violations_not_reported_again", 1)
			return
		}
		c.Report(core.Case{Keys: keys, Summary: summary, Files: files})
	}
	c.ParMap(nb, func(bi int) {
		blkBatch(c, batches[bi], report)
	})
	if os.Getenv("VERIF_VERBOSE") != "" {
		for _, k := range []string{"blocking_scenarios", "blocking_callgraphs", "blocking_programs", "blocking_funcs_compared", "blocking_funcs_mayyield",
			"blocking_precision_loss", "blocking_model_drift", "blocking_guard_discards", "blocking_runs_compared", "blocking_funcs_without_decl_(literals)"} {
			fmt.Fprintf(os.Stderr, "[C02 blocking] %s = %d\n", k, c.Get(k))
		}
		fmt.Fprintf(os.Stderr, "[C02 blocking] scenarios exposing wrong analyses: %v\n", detBy)
	}
}

// blkKnown reports whether one of the keys is a listed finding (then Report only counts it).
func blkKnown(c *core.Ctx, keys []string) bool {
	fs, err := core.LoadFindings(filepath.Join(core.Root, "known_findings.txt"))
	if err != nil {
		return false
	}
	for _, f := range fs {
		if f.Fixed || f.Property != c.ID {
			continue
		}
		for _, k := range keys {
			if f.Key == k {
				return true
			}
		}
	}
	return false
}

func blkBatch(c *core.Ctx, batch []*blkScen, report func(keys []string, summary string, files map[string]string)) {
	r := &blkRend{}
	for _, s := range batch {
		r.add(s)
	}
	prog := r.prog()
	dir, err := prog.Materialise(c.Scratch)
	if err != nil {
		c.Infra(err)
		return
	}
	if os.Getenv("VERIF_KEEP") == "" {
		defer os.RemoveAll(dir)
	}
	out := filepath.Join(dir, "out.js")
	tb := time.Now()
	var tBuild, tNatB, tNatR, tNode time.Duration
	defer func() {
		if os.Getenv("VERIF_VERBOSE") != "" {
			fmt.Fprintf(os.Stderr, "[C02 blocking] batch of %d: gopherjs build %.1fs, native build %.1fs, native run %.1fs, node %.1fs\n", len(batch), tBuild.Seconds(), tNatB.Seconds(), tNatR.Seconds(), tNode.Seconds())
		}
	}()
	cr, err := blkRunChild(dir, out, 5*time.Minute)
	tBuild = time.Since(tb)
	if err != nil {
		c.Infra(fmt.Errorf("blocking part: build child: %v", err))
		return
	}
	// the guard first: native Go must build the program and print the prediction
	bin := filepath.Join(dir, "native.bin")
	tb = time.Now()
	nb := gjs.NativeBuild(dir, bin)
	tNatB = time.Since(tb)
	if nb.ExitCode != 0 || nb.Err != nil || nb.TimedOut {
		c.Infra(fmt.Errorf("blocking part: the reference toolchain rejects a rendered batch (renderer defect): %s", blkTail(nb.Out, 1500)))
		return
	}
	tb = time.Now()
	nat := gjs.ClassifyNative(gjs.NativeRun(bin, 2*time.Minute, nil))
	tNatR = time.Since(tb)
	natSeg := blkSegment(nat.Lines)
	guardOK := map[int]bool{}
	want := map[int][]string{}
	for _, s := range batch {
		w := make([]string, len(s.Out))
		for i, v := range s.Out {
			w[i] = strconv.Itoa(v)
		}
		want[s.id] = w
		ok := true
		for pass := 0; pass < 2; pass++ {
			got, have := natSeg[pass][s.id]
			if !have || !sameLines(got, w) {
				ok = false
			}
		}
		guardOK[s.id] = ok
		if !ok {
			c.Add("spec_guard_discards", 1)
			c.Add("blocking_guard_discards", 1)
			if os.Getenv("VERIF_VERBOSE") != "" {
				fmt.Fprintf(os.Stderr, "[C02 blocking] guard disagrees with the model on %s: native %v / %v, predicted %v\n", s.key(), natSeg[0][s.id], natSeg[1][s.id], w)
			}
		}
	}
	files := func(s *blkScen, extra map[string]string) map[string]string {
		m := prog.ReplayFiles("prog")
		sj, _ := json.MarshalIndent(s, "", " ")
		m["scenario.json"] = string(sj) + "\n"
		m["expected.txt"] = fmt.Sprintf("scenario id %d (functions *%d_*), both passes print after %d:\n%s\n", s.id, s.id, blkMark+s.id, strings.Join(want[s.id], "\n"))
		for k, v := range extra {
			m[k] = v
		}
		return m
	}
	if cr.Err != "" {
		// the compiler rejects (or panics on) a program the reference toolchain accepts
		key := "blocking_program_rejected"
		if cr.Panic {
			key = "blocking_program_compiler_panic"
		}
		report([]string{key}, fmt.Sprintf("a call-kind batch accepted by the reference toolchain is not compiled: %s", blkTail(cr.Err, 400)),
			files(batch[0], map[string]string{"error.txt": cr.Err + "\n"}))
		return
	}
	c.Add("programs", 1)
	c.Add("blocking_programs", 1)

	// (a) archives: MayYield => Decl.Blocking
	decl := map[string]bool{}
	have := map[string]bool{}
	for _, d := range cr.Decls {
		n := normDecl(d.Name)
		decl[n] = d.Blocking
		have[n] = true
	}
	for _, s := range batch {
		for _, n := range s.Nodes {
			dn := s.declName(n)
			if dn == "" {
				c.Add("blocking_funcs_without_decl_(literals)", 1)
				continue
			}
			if !have[dn] {
				c.Infra(fmt.Errorf("blocking part: declaration %q (node %s of %s) not found in the archives", dn, n.N, s.key()))
				return
			}
			blocking := decl[dn]
			c.Add("blocking_funcs_compared", 1)
			if n.Y {
				c.Add("blocking_funcs_mayyield", 1)
			}
			switch {
			case n.Y && !blocking:
				if !guardOK[s.id] {
					continue
				}
				role := s.role(n)
				keys := []string{"mayyield_not_blocking:" + role}
				report(keys, fmt.Sprintf("blocking analysis unsound: %s (%s, node %s of chain %s leaf=%s use=%s place=%s) may suspend (Blocking.tla MayYield) but its Decl.Blocking is false: its callers are compiled as plain calls and would receive the $blk object",
					dn, role, n.N, strings.Join(s.Ks, ">"), s.Leaf, s.Use, s.Place), files(s, nil))
			case !n.Y && blocking:
				c.Add("blocking_precision_loss", 1)
			}
			if blocking != n.M {
				c.Add("blocking_model_drift", 1)
				if os.Getenv("VERIF_VERBOSE") != "" {
					fmt.Fprintf(os.Stderr, "[C02 blocking] MODEL-DRIFT %s: Decl.Blocking=%v, model marks %v (%s node %s)\n", dn, blocking, n.M, s.key(), n.N)
				}
			}
		}
	}

	// (b) behaviour: both passes print the prediction
	tb = time.Now()
	js := gjs.ClassifyNode(gjs.Node(out, 3*time.Minute, "", nil))
	tNode = time.Since(tb)
	jsSeg := blkSegment(js.Lines)
	for _, s := range batch {
		if !guardOK[s.id] {
			continue
		}
		c.Distinct(s.key())
		for pass := 0; pass < 2; pass++ {
			c.Add("evaluations", 1)
			c.Add("blocking_runs_compared", 1)
			got, ok := jsSeg[pass][s.id]
			if ok && sameLines(got, want[s.id]) {
				continue
			}
			mode := []string{"yields_off", "yields_on"}[pass]
			keys := []string{"blocking_run_mismatch:" + s.Use + ":" + mode}
			for _, k := range s.Ks {
				keys = append(keys, "blocking_run_mismatch_kind:"+k+":"+s.Use)
			}
			report(keys, fmt.Sprintf("call chain %s (leaf=%s use=%s place=%s, %s): compiled program prints %v (program end=%s %s), specification and native Go: %v",
				strings.Join(s.Ks, ">"), s.Leaf, s.Use, s.Place, mode, got, js.End, js.Msg, want[s.id]),
				files(s, map[string]string{"observed_js.txt": strings.Join(got, "\n") + "\n", "js_end.txt": js.End + " " + js.Msg + "\n"}))
		}
	}
}
