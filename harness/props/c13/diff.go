package c13

import (
	_ "embed"
	"fmt"
	"math"
	"math/bits"
	"regexp"
	"sort"
	"strconv"
	"strings"
	"time"

	"verif/core"
	"verif/gjs"
)

//go:embed diffprog.go.txt
var diffProgTemplate string

// judgedDiff: the functions the property lists (replaced functions of the classes
// rounding, sign, bit pattern, remainder, scaling, decomposition, classification;
// the replaced math/bits functions; the unicode case mappings).  Everything else
// in the program is recorded, never judged.
var judgedDiff = map[string]bool{
	"math.Floor": true, "math.Ceil": true, "math.Trunc": true, "math.Round": true, "math.RoundToEven": true, "math.Abs": true,
	"math.Copysign": true, "math.Signbit": true, "math.Max": true, "math.Min": true, "math.Dim": true, "math.Mod": true,
	"math.Remainder": true, "math.Modf": true, "math.Frexp": true, "math.Ldexp": true, "math.IsNaN": true, "math.IsInf": true,
	"math.Inf": true, "math.Float64bits": true, "math.Float64frombits": true, "math.Float32bits": true, "math.Float32frombits": true,
	"bits.Mul32": true, "bits.Add32": true, "bits.Div32": true, "bits.Div32small": true, "bits.Rem32": true,
	"unicode.To(UpperCase)": true, "unicode.To(LowerCase)": true, "unicode.To(TitleCase)": true, "unicode.To(invalid)": true,
	"unicode.ToUpper": true, "unicode.ToLower": true, "unicode.ToTitle": true, "unicode.SimpleFold": true, "unicode.TurkishCase": true,
}

var diffBinary = map[string]bool{"math.Copysign": true, "math.Max": true, "math.Min": true, "math.Dim": true, "math.Mod": true, "math.Remainder": true}

func diffProgram(seed uint32, nblocks int, vList [][2]int) gjs.Prog {
	var b strings.Builder
	b.WriteString("package main\n\nimport (\n\t\"math\"\n\t\"math/bits\"\n\t\"unicode\"\n)\n\n")
	fmt.Fprintf(&b, "var seed uint32 = %d\n\nconst nblocks uint32 = %d\n\nvar vList = [][2]int{", seed, nblocks)
	for _, v := range vList {
		fmt.Fprintf(&b, "{%d, %d}, ", v[0], v[1])
	}
	b.WriteString("}\n\n")
	b.WriteString(diffProgTemplate)
	return gjs.Prog{Files: map[string]string{"main.go": b.String()}}
}

// diffNames extracts the function names from the template, in index order.
func diffNames() (fns, ufns []string) {
	re := regexp.MustCompile(`(?m)^\t\{"([^"]+)", func\((in \*input|r rune)\)`)
	for _, m := range re.FindAllStringSubmatch(diffProgTemplate, -1) {
		if m[2] == "r rune" {
			ufns = append(ufns, m[1])
		} else {
			fns = append(fns, m[1])
		}
	}
	return
}

// classOfBits is fval.class for an arbitrary float64 bit pattern.
func classOfBits(u uint64) string {
	f := math.Float64frombits(u)
	sg := "+"
	if u>>63 == 1 {
		sg = "-"
	}
	switch {
	case f != f:
		return "nan"
	case math.IsInf(f, 0):
		return sg + "inf"
	case f == 0:
		return sg + "zero"
	}
	ex := int(u >> 52 & 0x7FF)
	frac := u & (1<<52 - 1)
	var top, low int
	if ex == 0 {
		top = -1074 + bits.Len64(frac) - 1
		low = -1074 + bits.TrailingZeros64(frac)
	} else {
		sig := frac | 1<<52
		top = ex - 1023
		low = ex - 1023 - 52 + bits.TrailingZeros64(sig)
	}
	mag := ""
	switch {
	case top < -1024:
		mag = "<2^-1024" // 1/x overflows
	case top == -1024:
		mag = "[2^-1024,2^-1023)"
	case top < -1022:
		mag = "subnormal"
	case top < -1:
		mag = "<1/2"
	case top < 0:
		mag = "[1/2,1)"
	case top < 31:
		mag = "[1,2^31)"
	case top < 53:
		mag = "[2^31,2^53)"
	default:
		mag = ">=2^53"
	}
	in := "frac"
	if low >= 0 {
		in = "integral"
	}
	return sg + mag + ":" + in
}

func parseDigests(lines []string) (map[[2]int]string, error) {
	m := make(map[[2]int]string, len(lines))
	for _, l := range lines {
		f := strings.Fields(l)
		if len(f) != 3 {
			return nil, fmt.Errorf("unexpected line %.100q", l)
		}
		a, e1 := strconv.Atoi(f[0])
		b, e2 := strconv.Atoi(f[1])
		if e1 != nil || e2 != nil {
			return nil, fmt.Errorf("unexpected line %.100q", l)
		}
		m[[2]int{a, b}] = f[2]
	}
	return m, nil
}

// runDiff: seeded random-bit-pattern differential run, GopherJS vs native, with
// digests per (function, block).  NOT decided by the specification.
func runDiff(c *core.Ctx, pool *gjs.Pool) {
	fnNames, ufnNames := diffNames()
	all := append(append([]string(nil), fnNames...), ufnNames...)
	if len(fnNames) < 40 || len(ufnNames) < 8 {
		c.Infra(fmt.Errorf("differential program template: found %d + %d functions", len(fnNames), len(ufnNames)))
		return
	}
	seed := uint32(c.Seed*2246822519 + 374761393)
	nblocks := c.Pick(150, 4000)
	prog := diffProgram(seed, nblocks, nil)
	b := pool.RunBoth(c.Scratch, prog, gjs.Opts{}, 20*time.Minute, true, false)
	if b.BuildErr != nil {
		if be, ok := b.BuildErr.(*gjs.BuildError); ok && be.Panic {
			c.Report(core.Case{Keys: []string{"compiler_panic"}, Summary: "compiler internal error on the differential program: " + be.Error(), Files: prog.ReplayFiles("prog")})
		} else {
			c.Infra(fmt.Errorf("gopherjs build of the differential program failed: %v", b.BuildErr))
		}
		return
	}
	if b.NativeErr != "" || !endedOK(b.Native) {
		c.Infra(fmt.Errorf("reference toolchain on the differential program: %s end=%s %s", b.NativeErr, b.Native.End, b.Native.Msg))
		return
	}
	nat, err := parseDigests(b.Native.Lines)
	if wantLines := nblocks*len(fnNames) + len(ufnNames)*(0x110000/1024+1); err == nil && len(nat) != wantLines {
		err = fmt.Errorf("%d digest lines, want %d", len(nat), wantLines)
	}
	if err != nil {
		c.Infra(fmt.Errorf("differential program (native): %v", err))
		return
	}
	c.Add("programs", 2)
	col := newCollector()
	if !endedOK(b.JS) {
		col.fail(&failure{group: "diff-js-abort", keys: []string{"diff_program_aborted"},
			summary: fmt.Sprintf("the differential program compiled by GopherJS did not run to completion: end=%s msg=%s", b.JS.End, b.JS.Msg), files: prog.ReplayFiles("prog")})
		col.flush(c)
		return
	}
	js, err := parseDigests(b.JS.Lines)
	if err != nil || len(js) != len(nat) {
		c.Infra(fmt.Errorf("differential program (gopherjs): %d lines, native %d, %v", len(js), len(nat), err))
		return
	}
	type mm struct{ fi, blk int }
	var judged []mm
	recorded := map[string]int{}
	judgedBlocks := map[string]int{}
	keys := make([][2]int, 0, len(nat))
	for k := range nat {
		keys = append(keys, k)
	}
	sort.Slice(keys, func(i, j int) bool {
		if keys[i][0] != keys[j][0] {
			return keys[i][0] < keys[j][0]
		}
		return keys[i][1] < keys[j][1]
	})
	for _, k := range keys {
		if js[k] == nat[k] {
			continue
		}
		name := all[k[0]]
		if judgedDiff[name] {
			judgedBlocks[name]++
			if judgedBlocks[name] <= c.Pick(2, 8) {
				judged = append(judged, mm{k[0], k[1]})
			}
		} else {
			recorded[name]++
		}
	}
	// second pass: one program prints every input of the differing blocks of judged functions
	var results []*failure
	if len(judged) > 0 {
		var vl [][2]int
		for _, m := range judged {
			vl = append(vl, [2]int{m.fi, m.blk})
		}
		vp := diffProgram(seed, nblocks, vl)
		vb := pool.RunBoth(c.Scratch, vp, gjs.Opts{}, 10*time.Minute, true, false)
		if vb.BuildErr != nil || vb.NativeErr != "" || !endedOK(vb.Native) || len(vb.JS.Lines) != len(vb.Native.Lines) {
			c.Infra(fmt.Errorf("differential program, verbose pass: build=%v native=%s js lines %d native lines %d", vb.BuildErr, vb.NativeErr, len(vb.JS.Lines), len(vb.Native.Lines)))
			return
		}
		c.Add("programs", 2)
		// split into (function, block) segments
		type seg struct {
			fi, blk  int
			nat, jsl []string
		}
		var segs []*seg
		for li := range vb.Native.Lines {
			nl, jl := vb.Native.Lines[li], vb.JS.Lines[li]
			if strings.HasPrefix(nl, "# ") {
				sg := &seg{}
				fmt.Sscanf(nl, "# %d %d", &sg.fi, &sg.blk)
				segs = append(segs, sg)
				continue
			}
			if len(segs) == 0 {
				continue
			}
			sg := segs[len(segs)-1]
			sg.nat = append(sg.nat, nl)
			sg.jsl = append(sg.jsl, jl)
		}
		for _, sg := range segs {
			name, blk := all[sg.fi], sg.blk
			for li := range sg.nat {
				nl, jl := sg.nat[li], sg.jsl[li]
				if nl == jl || !strings.Contains(nl, "|") || !strings.Contains(jl, "|") {
					continue
				}
				inW := strings.Fields(strings.SplitN(nl, "|", 2)[0])
				key, call := "diff:"+name, name+" on input words "+strings.Join(inW, " ")
				if strings.HasPrefix(name, "math.") && len(inW) >= 5 {
					u := func(i int) uint64 {
						h, _ := strconv.ParseUint(inW[i], 10, 64)
						l, _ := strconv.ParseUint(inW[i+1], 10, 64)
						return h<<32 | l
					}
					x, y := u(0), u(2)
					short := strings.TrimPrefix(name, "math.")
					switch {
					case diffBinary[name]:
						key = "math:" + short + ":" + classOfBits(x) + "," + classOfBits(y)
						call = fmt.Sprintf("%s(%v, %v)", name, math.Float64frombits(x), math.Float64frombits(y))
					case short == "Ldexp" || short == "IsInf":
						key = "math:" + short + ":" + classOfBits(x) + ",int"
						call = fmt.Sprintf("%s(%v, n=%d)", name, math.Float64frombits(x), int32(u32(inW[4])))
					default:
						key = "math:" + short + ":" + classOfBits(x)
						call = fmt.Sprintf("%s(%v) [bits %#x]", name, math.Float64frombits(x), x)
					}
				}
				mini := diffProgram(seed, nblocks, [][2]int{{sg.fi, blk}})
				files := mini.ReplayFiles("prog")
				files["predicted.txt"] = strings.Join(sg.nat, "\n") + "\n" // what native Go prints for this block
				files["scenario.json"] = fmt.Sprintf("{\"function\":%q,\"seed\":%d,\"block\":%d,\"native\":%q,\"gopherjs\":%q}\n", name, seed, blk, nl, jl)
				results = append(results, &failure{group: key, keys: []string{key}, files: files,
					summary: fmt.Sprintf("differential sampling (outside the specification): %s: GopherJS %q, native Go %q (result words; seed %d block %d)", call, strings.TrimSpace(strings.SplitN(jl, "|", 2)[1]), strings.TrimSpace(strings.SplitN(nl, "|", 2)[1]), seed, blk)})
			}
		}
	}
	for _, f := range results {
		col.fail(f)
	}
	info := map[string]any{
		"label":                              "differential sampling outside the specification (GopherJS vs native Go, digests per function and block of 64 seeded inputs / 1024 runes); only functions of the classes the property lists are judged",
		"seed":                               seed,
		"blocks":                             nblocks,
		"inputs_per_function":                nblocks * 64,
		"functions_judged":                   len(judgedDiff),
		"functions_recorded_only":            len(all) - len(judgedDiff),
		"unicode_runes_per_function":         0x110000 + 9,
		"judged_blocks_differing":            judgedBlocks,
		"recorded_only_blocks_differing":     recorded,
		"digest_lines_compared":              len(nat),
		"recorded_only_functions_never_fail": true,
	}
	c.Set("differential_sampling", info)
	col.flush(c)
}

func u32(s string) uint32 {
	n, _ := strconv.ParseUint(s, 10, 64)
	return uint32(n)
}
