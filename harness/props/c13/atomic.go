package c13

import (
	"encoding/json"
	"fmt"
	"math/rand"
	"path/filepath"
	"sort"
	"strings"
	"time"

	"verif/core"
	"verif/gjs"
	"verif/tlcx"
)

// aop is one operation of an atomic-cell alphabet; A, B are 64-bit operands
// (integer kinds) or small ids (bool, ptr, value).
type aop struct {
	Name string
	A, B uint64
}

type atomicCfg struct {
	Kind   string
	MaxLen int
	Ops    []aop
}

var intKindWidth = map[string]int{"i32": 32, "u32": 32, "i64": 64, "u64": 64, "uptr": 32}

func limbsOf(v uint64, w int) []int {
	n := w / 16
	l := make([]int, n)
	for i := 0; i < n; i++ {
		l[i] = int(v >> (16 * uint(i)) & 0xFFFF)
	}
	return l
}

func tlaInts(l []int) string {
	s := make([]string, len(l))
	for i, x := range l {
		s[i] = fmt.Sprint(x)
	}
	return "<<" + strings.Join(s, ", ") + ">>"
}

func (o aop) String(kind string) string {
	w, isInt := intKindWidth[kind]
	f := func(v uint64) string {
		if !isInt {
			return fmt.Sprint(v)
		}
		if w == 32 {
			return fmt.Sprintf("%#x", uint32(v))
		}
		return fmt.Sprintf("%#x", v)
	}
	switch o.Name {
	case "Load":
		return "Load"
	case "CAS":
		return fmt.Sprintf("CompareAndSwap(%s,%s)", f(o.A), f(o.B))
	}
	return fmt.Sprintf("%s(%s)", o.Name, f(o.A))
}

func atomicCfgs(c *core.Ctx) []atomicCfg {
	rng := rand.New(rand.NewSource(c.Seed*7919 + 13))
	var out []atomicCfg
	for _, k := range []string{"i32", "u32", "i64", "u64", "uptr"} {
		w := intKindWidth[k]
		mask := ^uint64(0)
		if w == 32 {
			mask = 0xFFFFFFFF
		}
		ones := mask
		maxS := mask >> 1
		minS := maxS + 1
		r1, r2 := rng.Uint64()&mask, rng.Uint64()&mask
		o := []aop{{"Load", 0, 0}, {"Store", maxS, 0}, {"Store", ones, 0}, {"Swap", minS, 0},
			{"Add", 1, 0}, {"Add", ones, 0}, {"Add", maxS, 0}, {"Add", minS, 0}, {"Add", r1, 0},
			{"CAS", 0, ones}, {"CAS", minS, r2}}
		if c.Thorough() {
			o = append(o, aop{"CAS", ones, 0}, aop{"Add", (1 << 16) & mask, 0})
		}
		out = append(out, atomicCfg{Kind: k, MaxLen: c.Pick(3, 4), Ops: o})
		if c.Thorough() {
			// histories of length 5 over the boundary deltas
			out = append(out, atomicCfg{Kind: k, MaxLen: 5, Ops: []aop{{"Load", 0, 0}, {"Add", 1, 0}, {"Add", ones, 0}, {"Add", minS, 0}, {"Add", maxS, 0}, {"Swap", maxS, 0}, {"CAS", 0, ones}}})
		}
	}
	out = append(out, atomicCfg{Kind: "bool", MaxLen: c.Pick(3, 4), Ops: []aop{{"Load", 0, 0}, {"Store", 1, 0}, {"Store", 0, 0}, {"Swap", 1, 0}, {"Swap", 0, 0},
		{"CAS", 0, 1}, {"CAS", 1, 0}, {"CAS", 1, 1}}})
	out = append(out, atomicCfg{Kind: "ptr", MaxLen: c.Pick(3, 4), Ops: []aop{{"Load", 0, 0}, {"Store", 1, 0}, {"Store", 0, 0}, {"Swap", 2, 0},
		{"CAS", 0, 1}, {"CAS", 1, 2}, {"CAS", 2, 0}, {"CAS", 1, 1}}})
	var vops []aop
	vops = append(vops, aop{"Load", 0, 0})
	for x := uint64(0); x <= 3; x++ {
		vops = append(vops, aop{"Store", x, 0}, aop{"Swap", x, 0})
	}
	for _, o := range []uint64{0, 1, 3} {
		for n := uint64(0); n <= 3; n++ {
			if !c.Thorough() && (n == 2 && o != 1 || n == 0 && o == 3) {
				continue // quick tier: 8 of the 12 (old, new) combinations
			}
			vops = append(vops, aop{"CAS", o, n})
		}
	}
	out = append(out, atomicCfg{Kind: "value", MaxLen: c.Pick(3, 4), Ops: vops})
	return out
}

func atomicParamsTLA(cfgs []atomicCfg) string {
	var b strings.Builder
	b.WriteString("AtomicCfgs == <<\n")
	for i, cf := range cfgs {
		if i > 0 {
			b.WriteString(",\n")
		}
		fmt.Fprintf(&b, "  [kind |-> %q, maxlen |-> %d, ops |-> <<", cf.Kind, cf.MaxLen)
		w, isInt := intKindWidth[cf.Kind]
		for j, o := range cf.Ops {
			if j > 0 {
				b.WriteString(", ")
			}
			if isInt {
				fmt.Fprintf(&b, "<<%q, %s, %s>>", o.Name, tlaInts(limbsOf(o.A, w)), tlaInts(limbsOf(o.B, w)))
			} else {
				fmt.Fprintf(&b, "<<%q, %d, %d>>", o.Name, o.A, o.B)
			}
		}
		b.WriteString(">>]")
	}
	b.WriteString("\n>>\n")
	return b.String()
}

const atomicProgCommon = `package main

import (
	"sync/atomic"
	"unsafe"
)

type aop struct {
	code int
	a, b uint64
}

type acfg struct {
	l, start, stride int
	ops              []aop
}

const (
	cLoad = iota
	cStore
	cSwap
	cAdd
	cCAS
)

var buf []byte

func putInt(x int) {
	if x < 0 {
		buf = append(buf, '-')
		x = -x
	}
	if x >= 10 {
		putInt(x / 10)
	}
	buf = append(buf, byte('0'+x%10))
}

func header(ci, form int, h []int) {
	buf = buf[:0]
	putInt(ci)
	buf = append(buf, '.')
	putInt(form)
	buf = append(buf, ':')
	for i, j := range h {
		if i > 0 {
			buf = append(buf, '.')
		}
		putInt(j + 1)
	}
	buf = append(buf, '|')
}

func digits(idx int, h []int, n int) {
	for i := len(h) - 1; i >= 0; i-- {
		h[i] = idx % n
		idx /= n
	}
}

func total(cf *acfg) int {
	t := 1
	for i := 0; i < cf.l; i++ {
		t *= len(cf.ops)
	}
	return t
}

func ok()          { buf = append(buf, '0', ';') }
func okb(b bool) {
	if b {
		buf = append(buf, '0', ',', '1', ';')
	} else {
		buf = append(buf, '0', ',', '0', ';')
	}
}
func oki(x int) {
	buf = append(buf, '0', ',')
	putInt(x)
	buf = append(buf, ';')
}
func ok32(x uint32) {
	buf = append(buf, '0', ',')
	putInt(int(x & 0xFFFF))
	buf = append(buf, ',')
	putInt(int(x >> 16))
	buf = append(buf, ';')
}
func ok64(x uint64) {
	buf = append(buf, '0')
	for i := uint(0); i < 4; i++ {
		buf = append(buf, ',')
		putInt(int(uint32(x>>(16*i)) & 0xFFFF))
	}
	buf = append(buf, ';')
}

type obj struct{ n int }

var objs = [3]*obj{nil, {1}, {2}}

// unsafe.Pointer values are only compared, never converted back (converting a
// nil unsafe.Pointer to a struct pointer is a separate matter of the compiler's
// unsafe support, not of sync/atomic)
var uobjs = [3]unsafe.Pointer{nil, unsafe.Pointer(objs[1]), unsafe.Pointer(objs[2])}

func uobjID(p unsafe.Pointer) int {
	for i, q := range uobjs {
		if p == q {
			return i
		}
	}
	return 9
}

func objID(p *obj) int {
	for i, q := range objs {
		if p == q {
			return i
		}
	}
	return 9
}

func anyOf(id uint64) any {
	switch id {
	case 1:
		return 1
	case 2:
		return 2
	case 3:
		return "a"
	}
	return nil
}

func anyID(x any) int {
	switch v := x.(type) {
	case nil:
		return 0
	case int:
		return v
	case string:
		return 3
	}
	return 9
}

func stepValue(v *atomic.Value, o aop) {
	defer func() {
		if recover() != nil {
			buf = append(buf, '1', ';')
		}
	}()
	switch o.code {
	case cLoad:
		oki(anyID(v.Load()))
	case cStore:
		v.Store(anyOf(o.a))
		ok()
	case cSwap:
		oki(anyID(v.Swap(anyOf(o.a))))
	case cCAS:
		okb(v.CompareAndSwap(anyOf(o.a), anyOf(o.b)))
	}
}

func run_value(ci int, cf *acfg) {
	h := make([]int, cf.l)
	for idx := cf.start; idx < total(cf); idx += cf.stride {
		digits(idx, h, len(cf.ops))
		header(ci, 1, h)
		var v atomic.Value
		for _, j := range h {
			stepValue(&v, cf.ops[j])
		}
		println(string(buf))
	}
}

func run_bool(ci int, cf *acfg) {
	h := make([]int, cf.l)
	for idx := cf.start; idx < total(cf); idx += cf.stride {
		digits(idx, h, len(cf.ops))
		header(ci, 1, h)
		var v atomic.Bool
		for _, j := range h {
			o := cf.ops[j]
			switch o.code {
			case cLoad:
				okb(v.Load())
			case cStore:
				v.Store(o.a == 1)
				ok()
			case cSwap:
				okb(v.Swap(o.a == 1))
			case cCAS:
				okb(v.CompareAndSwap(o.a == 1, o.b == 1))
			}
		}
		println(string(buf))
	}
}

func run_ptr(ci int, cf *acfg) {
	h := make([]int, cf.l)
	for form := 0; form < 2; form++ {
		for idx := cf.start; idx < total(cf); idx += cf.stride {
			digits(idx, h, len(cf.ops))
			header(ci, form, h)
			var v atomic.Pointer[obj]
			var u unsafe.Pointer
			for _, j := range h {
				o := cf.ops[j]
				a, b := objs[o.a], objs[o.b]
				switch o.code {
				case cLoad:
					if form == 0 {
						oki(uobjID(atomic.LoadPointer(&u)))
					} else {
						oki(objID(v.Load()))
					}
				case cStore:
					if form == 0 {
						atomic.StorePointer(&u, uobjs[o.a])
					} else {
						v.Store(a)
					}
					ok()
				case cSwap:
					if form == 0 {
						oki(uobjID(atomic.SwapPointer(&u, uobjs[o.a])))
					} else {
						oki(objID(v.Swap(a)))
					}
				case cCAS:
					if form == 0 {
						okb(atomic.CompareAndSwapPointer(&u, uobjs[o.a], uobjs[o.b]))
					} else {
						okb(v.CompareAndSwap(a, b))
					}
				}
			}
			println(string(buf))
		}
	}
}
`

// intKindTemplate: TYPE the Go type, FN the suffix of the function API, WRAP the
// typed wrapper, OUT the output function, KIND the kind name.
const intKindTemplate = `
func run_KIND(ci int, cf *acfg) {
	h := make([]int, cf.l)
	for form := 0; form < 2; form++ {
		for idx := cf.start; idx < total(cf); idx += cf.stride {
			digits(idx, h, len(cf.ops))
			header(ci, form, h)
			var x TYPE
			var y WRAP
			for _, j := range h {
				o := cf.ops[j]
				a, b := TYPE(o.a), TYPE(o.b)
				switch o.code {
				case cLoad:
					if form == 0 {
						OUT(UTYPE(LOADFN(&x)))
					} else {
						OUT(UTYPE(y.Load()))
					}
				case cStore:
					if form == 0 {
						STOREFN(&x, a)
					} else {
						y.Store(a)
					}
					ok()
				case cSwap:
					if form == 0 {
						OUT(UTYPE(SWAPFN(&x, a)))
					} else {
						OUT(UTYPE(y.Swap(a)))
					}
				case cAdd:
					if form == 0 {
						OUT(UTYPE(ADDFN(&x, a)))
					} else {
						OUT(UTYPE(y.Add(a)))
					}
				case cCAS:
					if form == 0 {
						okb(CASFN(&x, a, b))
					} else {
						okb(y.CompareAndSwap(a, b))
					}
				}
			}
			println(string(buf))
		}
	}
}
`

var aopCode = map[string]string{"Load": "cLoad", "Store": "cStore", "Swap": "cSwap", "Add": "cAdd", "CAS": "cCAS"}

type aProgCfg struct {
	cf            *atomicCfg
	l             int
	start, stride int
}

func atomicProgram(pcs []aProgCfg) gjs.Prog {
	var b strings.Builder
	b.WriteString(atomicProgCommon)
	type kd struct{ typ, fn, wrap, out, utype string }
	kinds := map[string]kd{
		"i32": {"int32", "Int32", "atomic.Int32", "ok32", "uint32"}, "u32": {"uint32", "Uint32", "atomic.Uint32", "ok32", "uint32"},
		"i64": {"int64", "Int64", "atomic.Int64", "ok64", "uint64"}, "u64": {"uint64", "Uint64", "atomic.Uint64", "ok64", "uint64"},
	}
	names := make([]string, 0, len(kinds))
	for k := range kinds {
		names = append(names, k)
	}
	sort.Strings(names)
	for _, k := range names {
		d := kinds[k]
		t := intKindTemplate
		for _, r := range [][2]string{{"KIND", k}, {"UTYPE", d.utype}, {"TYPE", d.typ}, {"WRAP", d.wrap}, {"OUT", d.out},
			{"LOADFN", "atomic.Load" + d.fn}, {"STOREFN", "atomic.Store" + d.fn}, {"SWAPFN", "atomic.Swap" + d.fn}, {"ADDFN", "atomic.Add" + d.fn}, {"CASFN", "atomic.CompareAndSwap" + d.fn}} {
			t = strings.ReplaceAll(t, r[0], r[1])
		}
		b.WriteString(t)
	}
	// uintptr: 32 bits under GopherJS; the reference toolchain runs the same histories on uint32
	t := intKindTemplate
	for _, r := range [][2]string{{"KIND", "uptr"}, {"UTYPE", "uint32"}, {"TYPE", "tUptr"}, {"WRAP", "aUptr"}, {"OUT", "ok32"},
		{"LOADFN", "loadUptr"}, {"STOREFN", "storeUptr"}, {"SWAPFN", "swapUptr"}, {"ADDFN", "addUptr"}, {"CASFN", "casUptr"}} {
		t = strings.ReplaceAll(t, r[0], r[1])
	}
	b.WriteString(t)
	b.WriteString("\nvar cfgs = []acfg{\n")
	for _, pc := range pcs {
		fmt.Fprintf(&b, "\t{%d, %d, %d, []aop{", pc.l, pc.start, pc.stride)
		for i, o := range pc.cf.Ops {
			if i > 0 {
				b.WriteString(", ")
			}
			fmt.Fprintf(&b, "{%s, %d, %d}", aopCode[o.Name], o.A, o.B)
		}
		b.WriteString("}},\n")
	}
	b.WriteString("}\n\nfunc main() {\n")
	for i, pc := range pcs {
		fmt.Fprintf(&b, "\trun_%s(%d, &cfgs[%d])\n", pc.cf.Kind, i, i)
	}
	b.WriteString("}\n")
	js := "//go:build js\n\npackage main\n\nimport \"sync/atomic\"\n\ntype tUptr = uintptr\ntype aUptr = atomic.Uintptr\n\nvar (\n\tloadUptr = atomic.LoadUintptr\n\tstoreUptr = atomic.StoreUintptr\n\tswapUptr = atomic.SwapUintptr\n\taddUptr = atomic.AddUintptr\n\tcasUptr = atomic.CompareAndSwapUintptr\n)\n"
	nat := "//go:build !js\n\npackage main\n\nimport \"sync/atomic\"\n\n// the reference toolchain has a 64-bit uintptr; GopherJS documents 32 bits\ntype tUptr = uint32\ntype aUptr = atomic.Uint32\n\nvar (\n\tloadUptr = atomic.LoadUint32\n\tstoreUptr = atomic.StoreUint32\n\tswapUptr = atomic.SwapUint32\n\taddUptr = atomic.AddUint32\n\tcasUptr = atomic.CompareAndSwapUint32\n)\n"
	return gjs.Prog{Files: map[string]string{"main.go": b.String(), "uptr_js.go": js, "uptr_native.go": nat}}
}

// parseAtomicLines: "cfg.form:history|outcomes" -> [cfg][form] history -> outcomes
func parseAtomicLines(lines []string, ncfg int) ([][2]map[string]string, error) {
	ms := make([][2]map[string]string, ncfg)
	for i := range ms {
		ms[i] = [2]map[string]string{{}, {}}
	}
	for _, l := range lines {
		var ci, form int
		i := strings.IndexByte(l, '|')
		j := strings.IndexByte(l, ':')
		if i < 0 || j < 0 || j > i {
			return nil, fmt.Errorf("unexpected output line %.200q", l)
		}
		if _, err := fmt.Sscanf(l[:j], "%d.%d", &ci, &form); err != nil || ci < 0 || ci >= ncfg || form < 0 || form > 1 {
			return nil, fmt.Errorf("unexpected output line %.200q", l)
		}
		ms[ci][form][l[j+1:i]] = l[i+1:]
	}
	return ms, nil
}

// runAtomic is the sync/atomic part.
func runAtomic(c *core.Ctx, pool *gjs.Pool) bool {
	cfgs := atomicCfgs(c)
	params := paramsModule(c)
	cfg := "SPECIFICATION Spec\nINVARIANT TypeOK\nINVARIANT AddWraps\nINVARIANT ReadsAndSwaps\nINVARIANT ValueInv\nINVARIANT Emit\nCHECK_DEADLOCK FALSE\n"
	r, err := tlcx.Run(c, tlcx.Opts{Module: "AtomicScen", Cfg: cfg, Workers: 2, Timeout: 25 * time.Minute, HeapMB: 3072,
		Files: map[string]string{"C13Params.tla": params}})
	if !tlcx.MustComplete(c, r, err, "AtomicScen") {
		return false
	}
	preds := make([]map[string]string, len(cfgs))
	for i := range cfgs {
		cf := &cfgs[i]
		m := map[string]string{}
		preds[i] = m
		err := decodeLines(filepath.Join(r.Dir, fmt.Sprintf("c13_atomic.%d.ndjson", i+1)), func(inner []byte) error {
			var raw []json.RawMessage
			if err := json.Unmarshal(inner, &raw); err != nil || len(raw) != 3 {
				return fmt.Errorf("bad record %.100q: %v", inner, err)
			}
			var ai int
			var hist []int
			var outs [][]int
			json.Unmarshal(raw[0], &ai)
			json.Unmarshal(raw[1], &hist)
			json.Unmarshal(raw[2], &outs)
			if ai != i+1 || len(hist) != cf.MaxLen || len(outs) != cf.MaxLen {
				return fmt.Errorf("bad record %.100q", inner)
			}
			var sb strings.Builder
			for _, o := range outs {
				sb.WriteString(outStr(o))
				sb.WriteByte(';')
			}
			m[histKey(hist)] = sb.String()
			return nil
		})
		if err != nil {
			c.Infra(fmt.Errorf("AtomicScen output: %v", err))
			return false
		}
		want := 1
		for j := 0; j < cf.MaxLen; j++ {
			want *= len(cf.Ops)
		}
		if len(m) != want {
			c.Infra(fmt.Errorf("AtomicScen emitted %d histories for configuration %d (%s), want %d", len(m), i+1, cf.Kind, want))
			return false
		}
	}
	if corrupt("atomic") {
		for k, v := range preds[1] { // one history of the u32 cell: append a bogus result to the last step
			preds[1][k] = strings.TrimSuffix(v, ";") + ",7;"
			break
		}
	}
	var pcs []aProgCfg
	for i := range cfgs {
		pcs = append(pcs, aProgCfg{&cfgs[i], cfgs[i].MaxLen, 0, 1})
	}
	prog := atomicProgram(pcs)
	b := pool.RunBoth(c.Scratch, prog, gjs.Opts{}, 15*time.Minute, true, false)
	if b.BuildErr != nil {
		if be, ok := b.BuildErr.(*gjs.BuildError); ok && be.Panic {
			c.Report(core.Case{Keys: []string{"compiler_panic"}, Summary: "compiler internal error on the atomic history executor: " + be.Error(), Files: prog.ReplayFiles("prog")})
		} else {
			c.Infra(fmt.Errorf("gopherjs build of the atomic executor failed: %v", b.BuildErr))
		}
		return false
	}
	if b.NativeErr != "" {
		c.Infra(fmt.Errorf("reference toolchain rejected the atomic executor: %s", b.NativeErr))
		return false
	}
	nat, err := parseAtomicLines(b.Native.Lines, len(cfgs))
	if err != nil || !endedOK(b.Native) {
		c.Infra(fmt.Errorf("native atomic executor: end=%s %s %v", b.Native.End, b.Native.Msg, err))
		return false
	}
	c.Add("programs", 2)
	col := newCollector()
	js, err := parseAtomicLines(b.JS.Lines, len(cfgs))
	if err != nil || !endedOK(b.JS) {
		col.fail(&failure{group: "atomic-js-abort", keys: []string{"atomic_executor_aborted"},
			summary: fmt.Sprintf("the sync/atomic history executor compiled by GopherJS did not run to completion: end=%s msg=%s err=%v (native printed %d lines)", b.JS.End, b.JS.Msg, err, len(b.Native.Lines)),
			files:   prog.ReplayFiles("prog")})
		col.flush(c)
		return false
	}
	evals, traces := 0, 0
	forms := []string{"function", "method"}
	for i := range cfgs {
		cf := &cfgs[i]
		keys := make([]string, 0, len(preds[i]))
		for k := range preds[i] {
			keys = append(keys, k)
		}
		sort.Strings(keys)
		for _, k := range keys {
			want := preds[i][k]
			for form := 0; form < 2; form++ {
				n, ok := nat[i][form][k]
				if !ok {
					if form == 0 && (cf.Kind == "bool" || cf.Kind == "value") {
						continue // only the typed form exists
					}
					c.Infra(fmt.Errorf("native atomic executor printed no line for %s/%s history %s", cf.Kind, forms[form], k))
					return false
				}
				evals++
				c.Distinct(fmt.Sprintf("atomic/%d/%d/%s", i, form, k))
				if n != want {
					col.discard(fmt.Sprintf("atomic %s (%s) history %s: specification %s, native %s", cf.Kind, forms[form], k, want, n))
					continue
				}
				g, ok := js[i][form][k]
				if !ok {
					c.Infra(fmt.Errorf("compiled atomic executor printed no line for %s/%s history %s", cf.Kind, forms[form], k))
					return false
				}
				traces++
				if g == want {
					continue
				}
				// first differing step
				ws, gs := strings.Split(strings.TrimSuffix(want, ";"), ";"), strings.Split(strings.TrimSuffix(g, ";"), ";")
				d := 0
				for d < len(ws) && d < len(gs) && ws[d] == gs[d] {
					d++
				}
				h := parseHist(k)
				got, wnt := "(nothing)", "(nothing)"
				if d < len(gs) {
					got = gs[d]
				}
				if d < len(ws) {
					wnt = ws[d]
				}
				dd := minInt(d, len(h)-1)
				op := cf.Ops[h[dd]-1]
				var desc []string
				for _, x := range h[:dd] {
					desc = append(desc, cf.Ops[x-1].String(cf.Kind))
				}
				idx := 0
				for _, x := range h[:dd+1] {
					idx = idx*len(cf.Ops) + (x - 1)
				}
				mini := atomicProgram([]aProgCfg{{cf, dd + 1, idx, 1 << 30}})
				files := mini.ReplayFiles("prog")
				pl := ""
				for _, f := range []int{0, 1} {
					if f == 0 && (cf.Kind == "bool" || cf.Kind == "value") {
						continue
					}
					pl += fmt.Sprintf("0.%d:%s|%s;\n", f, histKey(h[:dd+1]), strings.Join(ws[:dd+1], ";"))
				}
				files["predicted.txt"] = pl
				files["observed.txt"] = fmt.Sprintf("0.%d:%s|%s;\n", form, histKey(h[:dd+1]), strings.Join(gs[:minInt(dd+1, len(gs))], ";"))
				key := fmt.Sprintf("atomic:%s:%s:%s", cf.Kind, forms[form], op.Name)
				if cf.Kind == "value" && op.Name == "CAS" && op.A == 0 && wnt == "0,0" && got == "1" {
					// Value.CompareAndSwap(nil, x) on a Value that holds something: Go returns false
					key = "atomic:value:CompareAndSwap(nil,x)_on_stored_value"
				}
				narrow := fmt.Sprintf("atomic:%s:%s:%s:spec=%s:got=%s", cf.Kind, forms[form], op.String(cf.Kind), wnt, got)
				col.fail(&failure{group: key, rank: dd, keys: []string{narrow, key + ":" + classOf(wnt) + "->" + classOf(got)}, files: files,
					summary: fmt.Sprintf("sync/atomic %s cell (%s form) after [%s]: %s gives %s under GopherJS, specification and native Go: %s", cf.Kind, forms[form], strings.Join(desc, "; "), op.String(cf.Kind), got, wnt)})
			}
			if i == 1 && evals%977 == 0 {
				c.Sample(map[string]any{"part": "atomic", "kind": cf.Kind, "history": k, "predicted": want, "gopherjs": js[i][0][k], "native": nat[i][0][k]})
			}
		}
	}
	c.Add("evaluations", evals)
	c.Add("traces_validated_against_impl", traces)
	c.Add("atomic_histories", evals)
	col.flush(c)
	return true
}

func classOf(out string) string {
	if strings.HasPrefix(out, "1") {
		return "panic"
	}
	if strings.HasPrefix(out, "0") {
		return "ok"
	}
	return "none"
}
