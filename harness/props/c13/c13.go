// Package c13 decides C13 (see DESIGN.md section 4). Not built yet.
package c13
