// Package c13 decides C13 (JavaScript-backed / simplified standard-library
// replacements equal the Go originals).
//
// Stateful part: spec/SyncPrims.tla (sequential specifications of Mutex,
// RWMutex, WaitGroup, Once, Map, Pool with outcomes ok | panic | would-block |
// fatal) and spec/Atomic.tla (atomic cells with wrap-around from Bits.tla); TLC
// enumerates ALL histories over the configured alphabets with the predicted
// outcome of every step (SyncPrimsScen.tla, AtomicScen.tla) and checks the
// specifications' own invariants.  Every history is replayed on
// github.com/gopherjs/gopherjs/nosync (native Go and compiled by GopherJS, under
// Node) resp. on sync/atomic compiled by GopherJS; the guard replays it on the
// host's package sync (blocking observed on the real scheduler, fatal errors
// observed in child processes) resp. on native sync/atomic.
//
// Function part: math/bits (BitsFnScen.tla over Bits.tla) and math on the
// dyadic grid (FloatGrid.tla, FloatGridScen.tla): TLC enumerates argument
// tuples with exact results; programs print results as bit patterns.
//
// Outside the specification (labelled as such in the evidence): a seeded
// random-bit-pattern differential run GopherJS vs native of the overridden
// math, math/bits and unicode functions.
package c13

import (
	"encoding/json"
	"fmt"
	"os"
	"sort"
	"strings"
	"sync"
	"time"

	"verif/core"
	"verif/gjs"
	"verif/reg"
	"verif/tlcx"
)

func init() { reg.Register("C13", "model_checking", Run) }

// failure is one rejected observation; failures are grouped before reporting.
type failure struct {
	group   string // reporting group (one Case per group)
	rank    int    // the member with the lowest rank represents the group (e.g. shortest history)
	keys    []string
	summary string
	files   map[string]string
}

type collector struct {
	mu       sync.Mutex
	fails    map[string]*failure
	counts   map[string]int
	discards int
	discNote []string
}

func newCollector() *collector {
	return &collector{fails: map[string]*failure{}, counts: map[string]int{}}
}

func (k *collector) fail(f *failure) {
	k.mu.Lock()
	defer k.mu.Unlock()
	k.counts[f.group]++
	if old, ok := k.fails[f.group]; !ok || f.rank < old.rank {
		k.fails[f.group] = f
	}
}

func (k *collector) discard(note string) {
	k.mu.Lock()
	defer k.mu.Unlock()
	k.discards++
	if len(k.discNote) < 8 {
		k.discNote = append(k.discNote, note)
	}
}

func (k *collector) flush(c *core.Ctx) {
	k.mu.Lock()
	defer k.mu.Unlock()
	gs := make([]string, 0, len(k.fails))
	for g := range k.fails {
		gs = append(gs, g)
	}
	sort.Strings(gs)
	for _, g := range gs {
		f := k.fails[g]
		sum := f.summary
		if n := k.counts[g]; n > 1 {
			sum += fmt.Sprintf(" (%d scenarios of this group differ)", n)
		}
		c.Report(core.Case{Keys: f.keys, Summary: sum, Files: f.files})
	}
	c.Add("spec_guard_discards", k.discards)
	if k.discards > 0 {
		fmt.Printf("note: %d scenarios discarded because the guard disagrees with the specification\n", k.discards)
		for _, n := range k.discNote {
			fmt.Printf("  discard: %s\n", n)
		}
	}
	k.fails = map[string]*failure{}
	k.counts = map[string]int{}
	k.discards = 0
	k.discNote = nil
}

// decodeLines reads a file written by CSVWrite("%1$s", <<ToJson(x)>>, f): every
// line is a JSON string holding JSON.
func decodeLines(path string, each func(inner []byte) error) error {
	return tlcx.ReadNDJSON(path, func(raw json.RawMessage) error {
		var inner string
		if err := json.Unmarshal(raw, &inner); err != nil {
			return fmt.Errorf("%s: %v (line %.80q)", path, err, string(raw))
		}
		return each([]byte(inner))
	})
}

var verbose = os.Getenv("VERIF_VERBOSE") != ""

func vlogf(format string, a ...any) {
	if verbose {
		fmt.Fprintf(os.Stderr, "[C13] "+format+"\n", a...)
	}
}

// corrupt reports whether the predictions of a part are to be falsified in one
// place (VERIF_C13_CORRUPT=sync|atomic|bits|float): demonstration that the
// binding is not vacuous.  sync: the prediction for the replacement is changed,
// the guard still agrees with the (unchanged) reference prediction => VIOLATION.
// atomic/bits/float: the one prediction is changed, the native guard disagrees
// with it => the scenario is discarded and counted (spec_guard_discards = 1).
func corrupt(part string) bool { return os.Getenv("VERIF_C13_CORRUPT") == part }

// only restricts the run to some parts (development aid): VERIF_C13_PARTS=sync,atomic,bits,float,diff
func partEnabled(p string) bool {
	s := os.Getenv("VERIF_C13_PARTS")
	if s == "" {
		return true
	}
	for _, x := range strings.Split(s, ",") {
		if x == p {
			return true
		}
	}
	return false
}

// Run is the C13 check.
func Run(c *core.Ctx, pool *gjs.Pool) {
	c.Assumef("a step on which package sync blocks or aborts the process (fatal error) has no effect in the replacement beyond its panic: the rest of the history is compared with sync run without that step")
	c.Assumef("sync.Pool is specified by its documented contract (Get returns any value put before and not handed out since, or New(), or nil); iteration order of Map.Range is unspecified")
	c.Assumef("sync/atomic And*/Or* (added in Go 1.23) have no GopherJS implementation in this tree (it targets Go 1.20) and are not part of the alphabet")
	c.Assumef("math: only results that are exactly representable on the dyadic grid of FloatGrid.tla are decided; transcendental functions, unicode tables and random bit patterns are compared with native Go by differential sampling outside the specification and only the property's listed function classes are judged there")
	c.Set("checker_cmd", "tlc SyncPrimsScen (INVARIANTS TypeOK NoEffect ModesAgree MutexInv RWInv WGInv OnceInv MapInv PoolInv Emit); tlc AtomicScen (TypeOK AddWraps ReadsAndSwaps ValueInv Emit); tlc BitsFnScen (Valid Sane Emit); tlc FloatGridScen (Sane Emit)")
	c.Set("rule", "TLC enumerates every history of the configured length over each primitive's operation alphabet (sync, atomic) and every argument tuple over the boundary grids (math/bits, math); a case is one history / one call; distinct = distinct (configuration, history) or (function, arguments); non-trivial = every case (each executes at least one replaced function)")
	if p := os.Getenv("VERIF_C13_DUMP_PARAMS"); p != "" { // regenerate spec/C13Params.tla (development aid)
		os.WriteFile(p, []byte(paramsModule(c)), 0o644)
	}
	// the five parts are independent: they run concurrently (TLC with 2 workers each)
	type part struct {
		name string
		run  func() bool
	}
	parts := []part{
		{"sync", func() bool { return runSync(c, pool) }},
		{"atomic", func() bool { return runAtomic(c, pool) }},
		{"bits", func() bool { return runBitsFn(c, pool) }},
		{"float", func() bool { return runFloat(c, pool) }},
		{"diff", func() bool { runDiff(c, pool); return true }},
	}
	exhaustive := true
	var wg sync.WaitGroup
	var mu sync.Mutex
	wall := map[string]float64{}
	for _, p := range parts {
		if !partEnabled(p.name) {
			continue
		}
		wg.Add(1)
		go func(p part) {
			defer wg.Done()
			t0 := time.Now()
			defer func() {
				if r := recover(); r != nil {
					c.Infra(fmt.Errorf("harness panic in part %s: %v", p.name, r))
				}
			}()
			ok := p.run()
			mu.Lock()
			if !ok {
				exhaustive = false
			}
			wall[p.name] = float64(int(time.Since(t0).Seconds()*10)) / 10
			mu.Unlock()
			vlogf("part %s done in %.1fs", p.name, time.Since(t0).Seconds())
		}(p)
	}
	wg.Wait()
	c.Set("parts_wall_s", wall)
	c.Set("exhaustive", exhaustive && os.Getenv("VERIF_C13_PARTS") == "")
}

// endedOK: the program ran to completion.  Under heavy machine load the
// framework's process runner can report "WaitDelay expired before I/O complete"
// after the process has exited; the caller checks the number of printed lines,
// so a complete output with that message is accepted.
func endedOK(o gjs.Obs) bool {
	return o.End == "exit" || (o.End == "fail" && strings.Contains(o.Msg, "WaitDelay expired"))
}
