package c13

import (
	"encoding/json"
	"fmt"
	"math/rand"
	"path/filepath"
	"sort"
	"strconv"
	"strings"
	"time"

	"verif/core"
	"verif/gjs"
	"verif/tlcx"
)

var floatFns = []string{"Floor", "Ceil", "Trunc", "Round", "RoundToEven", "Abs", "Sqrt", "Modf", "Frexp", "Signbit", "IsNaN", "IsInf", "Ldexp",
	"Float64bits", "Float64frombits", "Float32bits", "Float32frombits", "Max", "Min", "Dim", "Mod", "Remainder", "Copysign"}

var floatBinary = map[string]bool{"Max": true, "Min": true, "Dim": true, "Mod": true, "Remainder": true, "Copysign": true}

func floatParamsTLA(c *core.Ctx) string {
	rng := rand.New(rand.NewSource(c.Seed*15485863 + 3))
	var mants, exps, mants2, exps2 []int
	if c.Thorough() {
		mants = []int{1, 3, 5, 7, 11, 15, 255, 1023, 4097, 65535, 1048575, 1<<30 - 1}
		exps = []int{-1074, -1073, -1060, -1023, -1022, -1021, -100, -54, -53, -52, -33, -32, -31, -30, -29, -12, -3, -2, -1, 0, 1, 2, 3, 10, 29, 30, 31, 32, 33, 52, 53, 62, 63, 64, 100, 970, 1000, 1022, 1023}
		mants2 = []int{1, 3, 7, 1023, 16383}
		exps2 = []int{-1074, -1073, -1022, -53, -2, -1, 0, 1, 31, 32, 53, 1000}
	} else {
		mants = []int{1, 3, 5, 255, 1048575, 1<<30 - 1}
		exps = []int{-1074, -1073, -1024, -1022, -53, -31, -30, -2, -1, 0, 1, 30, 31, 32, 52, 53, 1023}
		mants2 = []int{1, 3, 1023}
		exps2 = []int{-1074, -1, 0, 1, 32, 1000}
	}
	// VERIF_SEED operands
	for i := 0; i < c.Pick(1, 2); i++ {
		mants = append(mants, rng.Intn(1<<29)*2+1)
		exps = append(exps, rng.Intn(2040)-1060)
		mants2 = append(mants2, rng.Intn(1<<13)*2+1)
		exps2 = append(exps2, rng.Intn(140)-70)
	}
	ldexp := []int{-2200, -1100, -1075, -1074, -1023, -1022, -54, -1, 0, 1, 52, 53, 1023, 1024, 2100, rng.Intn(2000) - 1000}
	seq := func(name string, xs []int) string {
		xs = append([]int(nil), xs...)
		sort.Ints(xs)
		var out []int
		for i, x := range xs {
			if i == 0 || x != xs[i-1] {
				out = append(out, x)
			}
		}
		return name + " == " + tlaInts(out) + "\n"
	}
	var b strings.Builder
	b.WriteString(seq("FloatMants", mants))
	b.WriteString(seq("FloatExps", exps))
	b.WriteString(seq("FloatMants2", mants2))
	if c.Thorough() {
		b.WriteString(seq("FloatMants2Y", []int{1, 3, 16383, mants2[len(mants2)-1]}))
	} else {
		b.WriteString(seq("FloatMants2Y", []int{1, 3, mants2[len(mants2)-1]}))
	}
	b.WriteString(seq("FloatExps2", exps2))
	b.WriteString(seq("FloatLdexp", ldexp))
	b.WriteString("FloatFns == <<")
	for i, f := range floatFns {
		if i > 0 {
			b.WriteString(", ")
		}
		fmt.Fprintf(&b, "%q", f)
	}
	b.WriteString(">>\n")
	return b.String()
}

// fval is a grid value <<kind, s, m, e>> or an integer argument.
type fval struct {
	kind    string // nan inf zero fin int
	s, m, e int
	n       int // kind int
}

func (v fval) lit() string {
	switch v.kind {
	case "nan":
		return "nanV"
	case "inf":
		if v.s == 1 {
			return "negInf"
		}
		return "posInf"
	case "zero":
		if v.s == 1 {
			return "negZero"
		}
		return "0"
	case "int":
		return strconv.Itoa(v.n)
	}
	sg := ""
	if v.s == 1 {
		sg = "-"
	}
	return fmt.Sprintf("%s0x%Xp%d", sg, v.m, v.e)
}

func bitLen(m int) int {
	n := 0
	for m > 0 {
		n++
		m >>= 1
	}
	return n
}

// class is the classifier fragment of an argument.
func (v fval) class() string {
	switch v.kind {
	case "nan":
		return "nan"
	case "int":
		return "int"
	case "inf", "zero":
		if v.s == 1 {
			return "-" + v.kind
		}
		return "+" + v.kind
	}
	sg := "+"
	if v.s == 1 {
		sg = "-"
	}
	top := v.e + bitLen(v.m) - 1
	mag := ""
	switch {
	case top < -1024:
		mag = "<2^-1024" // 1/x overflows
	case top == -1024:
		mag = "[2^-1024,2^-1023)"
	case top < -1022:
		mag = "subnormal"
	case top < -1:
		mag = "<1/2"
	case top < 0:
		mag = "[1/2,1)"
	case top < 31:
		mag = "[1,2^31)"
	case top < 53:
		mag = "[2^31,2^53)"
	default:
		mag = ">=2^53"
	}
	in := "frac"
	if v.e >= 0 {
		in = "integral"
	}
	return sg + mag + ":" + in
}

func decodeFval(raw json.RawMessage) (fval, error) {
	var a []json.RawMessage
	if err := json.Unmarshal(raw, &a); err != nil {
		return fval{}, err
	}
	if len(a) == 1 {
		var n int
		if err := json.Unmarshal(a[0], &n); err != nil {
			return fval{}, err
		}
		return fval{kind: "int", n: n}, nil
	}
	if len(a) != 4 {
		return fval{}, fmt.Errorf("bad value %s", raw)
	}
	var v fval
	json.Unmarshal(a[0], &v.kind)
	json.Unmarshal(a[1], &v.s)
	json.Unmarshal(a[2], &v.m)
	json.Unmarshal(a[3], &v.e)
	return v, nil
}

type floatCase struct {
	fn   string
	args []fval
	res  [][]int
	raw  string
	want string
}

func (cs *floatCase) call() string {
	var a []string
	for _, x := range cs.args {
		a = append(a, x.lit())
	}
	return fmt.Sprintf("math.%s(%s)", cs.fn, strings.Join(a, ", "))
}

func (cs *floatCase) key() string {
	var a []string
	for _, x := range cs.args {
		a = append(a, x.class())
	}
	return "math:" + cs.fn + ":" + strings.Join(a, ",")
}

const floatProgHead = `package main

import "math"

var zero float64
var posInf = 1 / zero
var negInf = -1 / zero
var nanV = zero / zero
var negZero = 1 / negInf

var buf []byte

func putInt(x int) {
	if x < 0 {
		buf = append(buf, '-')
		x = -x
	}
	if x >= 10 {
		putInt(x / 10)
	}
	buf = append(buf, byte('0'+x%10))
}

func semi() { buf = append(buf, ';') }

func o32(x uint32) {
	putInt(int(x & 0xFFFF))
	buf = append(buf, ',')
	putInt(int(x >> 16))
}

func o64(x uint64) {
	for i := uint(0); i < 4; i++ {
		if i > 0 {
			buf = append(buf, ',')
		}
		putInt(int(uint32(x>>(16*i)) & 0xFFFF))
	}
}

// NaN is printed as -1 (payload-insensitive comparison)
func of(x float64) {
	if x != x {
		buf = append(buf, '-', '1')
		return
	}
	o64(math.Float64bits(x))
}

func of32(x float32) {
	if x != x {
		buf = append(buf, '-', '1')
		return
	}
	o32(math.Float32bits(x))
}

func ob(b bool) {
	if b {
		buf = append(buf, '1')
	} else {
		buf = append(buf, '0')
	}
}

func flush() {
	println(string(buf))
	buf = buf[:0]
}

func rec() {
	if r := recover(); r != nil {
		buf = buf[:0]
		println("P")
	}
}

`

// floatCall: table element type, the element literal for a case, the call body.
func floatCall(fn string) (elem string, body string) {
	switch fn {
	case "Floor", "Ceil", "Trunc", "Round", "RoundToEven", "Abs", "Sqrt":
		return "[1]float64", fmt.Sprintf("of(math.%s(a[0]))", fn)
	case "Modf":
		return "[1]float64", "i, f := math.Modf(a[0]); of(i); semi(); of(f)"
	case "Frexp":
		return "[1]float64", "f, e := math.Frexp(a[0]); of(f); semi(); putInt(e)"
	case "Signbit", "IsNaN":
		return "[1]float64", fmt.Sprintf("ob(math.%s(a[0]))", fn)
	case "IsInf":
		return "[2]float64", "ob(math.IsInf(a[0], int(a[1])))"
	case "Ldexp":
		return "[2]float64", "of(math.Ldexp(a[0], int(a[1])))"
	case "Float64bits":
		return "[1]float64", "if a[0] != a[0] { of(a[0]) } else { o64(math.Float64bits(a[0])) }"
	case "Float64frombits":
		return "struct {\n\tb uint64\n\tx float64\n}", "v := math.Float64frombits(a.b); of(v); semi(); ob(v == a.x || (v != v && a.x != a.x))"
	case "Float32bits":
		return "[1]float32", "if a[0] != a[0] { of32(a[0]) } else { o32(math.Float32bits(a[0])) }"
	case "Float32frombits":
		return "struct {\n\tb uint32\n\tx float32\n}", "v := math.Float32frombits(a.b); of32(v); semi(); ob(v == a.x || (v != v && a.x != a.x)); semi(); of(float64(v))"
	case "Max", "Min", "Dim", "Mod", "Remainder", "Copysign":
		return "[2]float64", fmt.Sprintf("of(math.%s(a[0], a[1]))", fn)
	}
	panic("floatCall " + fn)
}

func limbsU64(l []int) uint64 {
	var v uint64
	for i := len(l) - 1; i >= 0; i-- {
		v = v<<16 | uint64(l[i]&0xFFFF)
	}
	return v
}

func (cs *floatCase) elemLit() string {
	switch cs.fn {
	case "Float64frombits":
		b := uint64(0x7FF8000000000001)
		if len(cs.res[0]) == 4 {
			b = limbsU64(cs.res[0])
		}
		return fmt.Sprintf("{%#x, %s}", b, cs.args[0].lit())
	case "Float32frombits":
		b := uint64(0x7FC00001)
		if len(cs.res[0]) == 2 {
			b = limbsU64(cs.res[0])
		}
		return fmt.Sprintf("{%#x, float32(%s)}", b, cs.args[0].lit())
	case "Float32bits":
		return fmt.Sprintf("{float32(%s)}", cs.args[0].lit())
	}
	var a []string
	for _, x := range cs.args {
		a = append(a, x.lit())
	}
	return "{" + strings.Join(a, ", ") + "}"
}

func floatProgram(byFn map[string][]*floatCase, order []string) gjs.Prog {
	var b strings.Builder
	b.WriteString(floatProgHead)
	for _, fn := range order {
		cs := byFn[fn]
		if len(cs) == 0 {
			continue
		}
		elem, body := floatCall(fn)
		fmt.Fprintf(&b, "var t_%s = [...]%s{\n", fn, elem)
		for _, cse := range cs {
			b.WriteString("\t" + cse.elemLit() + ",\n")
		}
		b.WriteString("}\n\n")
		fmt.Fprintf(&b, "func r_%s() {\n\tfor i := range t_%s {\n\t\tfunc() {\n\t\t\tdefer rec()\n\t\t\ta := t_%s[i]\n\t\t\t%s\n\t\t\tflush()\n\t\t}()\n\t}\n}\n\n", fn, fn, fn, body)
	}
	b.WriteString("func main() {\n")
	for _, fn := range order {
		if len(byFn[fn]) > 0 {
			fmt.Fprintf(&b, "\tr_%s()\n", fn)
		}
	}
	b.WriteString("}\n")
	return gjs.Prog{Files: map[string]string{"main.go": b.String()}}
}

// canonFloatLine replaces NaN bit patterns by -1 (payload-insensitive comparison).
func canonFloatLine(l string) string {
	items := strings.Split(l, ";")
	for i, it := range items {
		f := parseInts(it)
		switch len(f) {
		case 4:
			if f[3]&0x7FF0 == 0x7FF0 && (f[3]&0xF != 0 || f[2] != 0 || f[1] != 0 || f[0] != 0) {
				items[i] = "-1"
			}
		case 2:
			if f[1]&0x7F80 == 0x7F80 && (f[1]&0x7F != 0 || f[0] != 0) {
				items[i] = "-1"
			}
		}
	}
	return strings.Join(items, ";")
}

// runFloat is the math-on-the-dyadic-grid part.
func runFloat(c *core.Ctx, pool *gjs.Pool) bool {
	params := paramsModule(c)
	cfg := "SPECIFICATION Spec\nINVARIANT Sane\nINVARIANT Emit\nCHECK_DEADLOCK FALSE\n"
	r, err := tlcx.Run(c, tlcx.Opts{Module: "FloatGridScen", Cfg: cfg, Workers: 2, Timeout: 25 * time.Minute, HeapMB: 2048,
		Files: map[string]string{"C13Params.tla": params}})
	if !tlcx.MustComplete(c, r, err, "FloatGridScen") {
		return false
	}
	files, _ := filepath.Glob(filepath.Join(r.Dir, "c13_float.*.ndjson"))
	sort.Strings(files)
	byFn := map[string][]*floatCase{}
	seen := map[string]bool{}
	total := 0
	for _, f := range files {
		err := decodeLines(f, func(inner []byte) error {
			var rows [][3]json.RawMessage
			if err := json.Unmarshal(inner, &rows); err != nil {
				return err
			}
			for _, row := range rows {
				var fn string
				if err := json.Unmarshal(row[0], &fn); err != nil {
					return err
				}
				key := fn + string(row[1])
				if seen[key] {
					continue
				}
				seen[key] = true
				cs := &floatCase{fn: fn, raw: key}
				var rawArgs []json.RawMessage
				if err := json.Unmarshal(row[1], &rawArgs); err != nil {
					return err
				}
				for _, ra := range rawArgs {
					v, err := decodeFval(ra)
					if err != nil {
						return err
					}
					cs.args = append(cs.args, v)
				}
				if err := json.Unmarshal(row[2], &cs.res); err != nil {
					return err
				}
				var items []string
				for _, it := range cs.res {
					items = append(items, outStr(it))
				}
				switch fn {
				case "Float64frombits":
					items = append(items, "1")
				case "Float32frombits":
					items = []string{items[0], "1", items[1]}
				}
				cs.want = strings.Join(items, ";")
				byFn[fn] = append(byFn[fn], cs)
				total++
			}
			return nil
		})
		if err != nil {
			c.Infra(fmt.Errorf("FloatGridScen output %s: %v", f, err))
			return false
		}
	}
	for _, fn := range floatFns {
		if len(byFn[fn]) == 0 {
			c.Infra(fmt.Errorf("FloatGridScen emitted no case for %s", fn))
			return false
		}
		sort.Slice(byFn[fn], func(i, j int) bool { return byFn[fn][i].raw < byFn[fn][j].raw })
	}
	if corrupt("float") {
		byFn["Floor"][0].want = "1,2,3,4"
	}
	// programs of bounded size: chunks of at most 12000 table rows
	type chunk struct {
		byFn  map[string][]*floatCase
		n     int
		cases []*floatCase
	}
	var chunks []*chunk
	cur := &chunk{byFn: map[string][]*floatCase{}}
	for _, fn := range floatFns {
		for _, cs := range byFn[fn] {
			if cur.n >= 12000 {
				chunks = append(chunks, cur)
				cur = &chunk{byFn: map[string][]*floatCase{}}
			}
			cur.byFn[fn] = append(cur.byFn[fn], cs)
			cur.cases = append(cur.cases, cs)
			cur.n++
		}
	}
	if cur.n > 0 {
		chunks = append(chunks, cur)
	}
	col := newCollector()
	traceCnt := make([]int, len(chunks))
	c.ParMap(len(chunks), func(ci int) {
		ch := chunks[ci]
		prog := floatProgram(ch.byFn, floatFns)
		b := pool.RunBoth(c.Scratch, prog, gjs.Opts{}, 10*time.Minute, true, false)
		if b.BuildErr != nil {
			if be, ok := b.BuildErr.(*gjs.BuildError); ok && be.Panic {
				c.Report(core.Case{Keys: []string{"compiler_panic"}, Summary: "compiler internal error on the math table program: " + be.Error(), Files: prog.ReplayFiles("prog")})
			} else {
				c.Infra(fmt.Errorf("gopherjs build of the math table program failed: %v", b.BuildErr))
			}
			return
		}
		if b.NativeErr != "" {
			c.Infra(fmt.Errorf("reference toolchain rejected the math table program: %s", b.NativeErr))
			return
		}
		if len(b.Native.Lines) != ch.n || !endedOK(b.Native) {
			c.Infra(fmt.Errorf("native math program printed %d lines, want %d (end=%s %s)", len(b.Native.Lines), ch.n, b.Native.End, b.Native.Msg))
			return
		}
		c.Add("programs", 2)
		if len(b.JS.Lines) != ch.n || !endedOK(b.JS) {
			col.fail(&failure{group: "float-js-abort", keys: []string{"math_program_aborted"},
				summary: fmt.Sprintf("the math table program compiled by GopherJS printed %d lines, want %d; end=%s msg=%s", len(b.JS.Lines), ch.n, b.JS.End, b.JS.Msg), files: prog.ReplayFiles("prog")})
			return
		}
		for k, cs := range ch.cases {
			js, nat := canonFloatLine(b.JS.Lines[k]), canonFloatLine(b.Native.Lines[k])
			c.Distinct("float/" + cs.raw)
			want := cs.want
			if nat != want {
				col.discard(fmt.Sprintf("%s: specification %s, native %s", cs.call(), want, nat))
				continue
			}
			traceCnt[ci]++
			if js == want {
				continue
			}
			mini := floatProgram(map[string][]*floatCase{cs.fn: {cs}}, []string{cs.fn})
			files := mini.ReplayFiles("prog")
			files["predicted.txt"] = want + "\n"
			files["observed.txt"] = js + "\n"
			files["scenario.json"] = cs.raw + "\n"
			key := cs.key()
			col.fail(&failure{group: key, keys: []string{key}, files: files,
				summary: fmt.Sprintf("%s = %s under GopherJS (bit pattern as 16-bit limbs, low first; -1 = NaN); specification and native Go: %s", cs.call(), js, want)})
		}
	})
	if c.InfraErr != nil {
		return false
	}
	traces := 0
	for _, n := range traceCnt {
		traces += n
	}
	if cs := byFn["Remainder"]; len(cs) > 0 {
		m := cs[len(cs)/3]
		c.Sample(map[string]any{"part": "math", "call": m.call(), "predicted_bits_limbs": m.want})
	}
	c.Add("evaluations", total)
	c.Add("traces_validated_against_impl", traces)
	c.Add("float_cases", total)
	col.flush(c)
	return true
}
