package c13

import (
	"encoding/json"
	"fmt"
	"math/rand"
	"path/filepath"
	"sort"
	"strings"
	"time"

	"verif/core"
	"verif/gjs"
	"verif/tlcx"
)

// overriddenBits are the functions GopherJS replaces (compiler/natives/src/math/bits);
// the others are compiled from the Go sources and ride along.
var overriddenBits = map[string]bool{"Mul32": true, "Add32": true, "Div32": true, "Rem32": true}

func bitsFns(c *core.Ctx) []string {
	fns := []string{"Mul32", "Add32", "Sub32", "Div32", "Rem32", "LeadingZeros32", "TrailingZeros32", "OnesCount32", "Len32",
		"RotateLeft32", "Reverse32", "ReverseBytes32", "Add64", "Sub64"}
	if c.Thorough() {
		fns = append(fns, "Mul64", "Div64", "Rem64", "LeadingZeros64", "TrailingZeros64", "OnesCount64", "Len64", "RotateLeft64", "Reverse64", "ReverseBytes64")
	}
	return fns
}

func bitsParamsTLA(c *core.Ctx) string {
	rng := rand.New(rand.NewSource(c.Seed*104729 + 5))
	var b strings.Builder
	fmt.Fprintf(&b, "BitsTier == %q\n", c.Tier)
	n := c.Pick(1, 3)
	b.WriteString("BitsRand32 == <<")
	for i := 0; i < n; i++ {
		if i > 0 {
			b.WriteString(", ")
		}
		b.WriteString(tlaInts(limbsOf(uint64(rng.Uint32()), 32)))
	}
	b.WriteString(">>\nBitsRand64 == <<")
	for i := 0; i < n; i++ {
		if i > 0 {
			b.WriteString(", ")
		}
		b.WriteString(tlaInts(limbsOf(rng.Uint64(), 64)))
	}
	b.WriteString(">>\nBitsFns == <<")
	for i, f := range bitsFns(c) {
		if i > 0 {
			b.WriteString(", ")
		}
		fmt.Fprintf(&b, "%q", f)
	}
	b.WriteString(">>\n")
	return b.String()
}

type bitsCase struct {
	fn   string
	args []uint64 // operand values (limbs assembled) or the rotate count / carry as int64 bits
	raw  string
	want string
}

func limbsToU64(l []int64) uint64 {
	var v uint64
	for i := len(l) - 1; i >= 0; i-- {
		v = v<<16 | uint64(l[i]&0xFFFF)
	}
	return v
}

func bitsWidth(fn string) int {
	if strings.HasSuffix(fn, "64") {
		return 64
	}
	return 32
}

const bitsProgHead = `package main

import (
	"math/bits"
	"runtime"
)

var buf []byte

func putInt(x int) {
	if x < 0 {
		buf = append(buf, '-')
		x = -x
	}
	if x >= 10 {
		putInt(x / 10)
	}
	buf = append(buf, byte('0'+x%10))
}

func sep() {
	if len(buf) > 0 {
		buf = append(buf, ',')
	}
}

func o32(x uint32) {
	sep()
	putInt(int(x & 0xFFFF))
	buf = append(buf, ',')
	putInt(int(x >> 16))
}

func o64(x uint64) {
	for i := uint(0); i < 4; i++ {
		sep()
		putInt(int(uint32(x>>(16*i)) & 0xFFFF))
	}
}

func oi(x int) {
	sep()
	putInt(x)
}

func flush() {
	println(string(buf))
	buf = buf[:0]
}

func rec() {
	if r := recover(); r != nil {
		buf = buf[:0]
		s := "P:"
		if _, ok := r.(runtime.Error); ok {
			s += "rt:"
		}
		if e, ok := r.(error); ok {
			s += e.Error()
		} else {
			s += "?"
		}
		println(s)
	}
}

`

// bitsCall renders the call of fn on table row `a` and the output of its results.
func bitsCall(fn string) (elem string, body string) {
	w := bitsWidth(fn)
	t, o := "uint32", "o32"
	if w == 64 {
		t, o = "uint64", "o64"
	}
	base := strings.TrimSuffix(strings.TrimSuffix(fn, "32"), "64")
	switch base {
	case "Mul":
		return "[2]" + t, fmt.Sprintf("hi, lo := bits.%s(a[0], a[1]); %s(hi); %s(lo)", fn, o, o)
	case "Add", "Sub":
		return "[3]" + t, fmt.Sprintf("s, c := bits.%s(a[0], a[1], a[2]); %s(s); %s(c)", fn, o, o)
	case "Div":
		return "[3]" + t, fmt.Sprintf("q, r := bits.%s(a[0], a[1], a[2]); %s(q); %s(r)", fn, o, o)
	case "Rem":
		return "[3]" + t, fmt.Sprintf("%s(bits.%s(a[0], a[1], a[2]))", o, fn)
	case "LeadingZeros", "TrailingZeros", "OnesCount", "Len":
		return "[1]" + t, fmt.Sprintf("oi(bits.%s(a[0]))", fn)
	case "RotateLeft":
		return "[2]" + t, fmt.Sprintf("%s(bits.%s(a[0], int(int32(a[1]))))", o, fn)
	case "Reverse", "ReverseBytes":
		return "[1]" + t, fmt.Sprintf("%s(bits.%s(a[0]))", o, fn)
	}
	panic("bitsCall " + fn)
}

func bitsProgram(byFn map[string][]*bitsCase, order []string) gjs.Prog {
	var b strings.Builder
	b.WriteString(bitsProgHead)
	for _, fn := range order {
		cs := byFn[fn]
		elem, body := bitsCall(fn)
		fmt.Fprintf(&b, "var t_%s = [...]%s{\n", fn, elem)
		for _, cse := range cs {
			b.WriteString("\t{")
			for i, a := range cse.args {
				if i > 0 {
					b.WriteString(", ")
				}
				fmt.Fprintf(&b, "%d", a)
			}
			b.WriteString("},\n")
		}
		b.WriteString("}\n\n")
		fmt.Fprintf(&b, "func r_%s() {\n\tfor i := range t_%s {\n\t\tfunc() {\n\t\t\tdefer rec()\n\t\t\ta := t_%s[i]\n\t\t\t%s\n\t\t\tflush()\n\t\t}()\n\t}\n}\n\n", fn, fn, fn, body)
	}
	b.WriteString("func main() {\n")
	for _, fn := range order {
		fmt.Fprintf(&b, "\tr_%s()\n", fn)
	}
	b.WriteString("}\n")
	return gjs.Prog{Files: map[string]string{"main.go": b.String()}}
}

func (cs *bitsCase) call() string {
	var a []string
	for i, x := range cs.args {
		if strings.HasPrefix(cs.fn, "RotateLeft") && i == 1 {
			a = append(a, fmt.Sprint(int32(uint32(x))))
		} else {
			a = append(a, fmt.Sprintf("%#x", x))
		}
	}
	return fmt.Sprintf("bits.%s(%s)", cs.fn, strings.Join(a, ", "))
}

// runBitsFn is the math/bits part.
func runBitsFn(c *core.Ctx, pool *gjs.Pool) bool {
	params := paramsModule(c)
	cfg := "SPECIFICATION Spec\nINVARIANT Valid\nINVARIANT Sane\nINVARIANT Emit\nCHECK_DEADLOCK FALSE\n"
	r, err := tlcx.Run(c, tlcx.Opts{Module: "BitsFnScen", Cfg: cfg, Workers: 2, Timeout: 28 * time.Minute, HeapMB: 2048,
		Files: map[string]string{"C13Params.tla": params}})
	if !tlcx.MustComplete(c, r, err, "BitsFnScen") {
		return false
	}
	files, _ := filepath.Glob(filepath.Join(r.Dir, "c13_bits.*.ndjson"))
	sort.Strings(files)
	byFn := map[string][]*bitsCase{}
	seen := map[string]bool{}
	total := 0
	for _, f := range files {
		err := decodeLines(f, func(inner []byte) error {
			var rows [][3]json.RawMessage
			if err := json.Unmarshal(inner, &rows); err != nil {
				return err
			}
			for _, row := range rows {
				var fn string
				if err := json.Unmarshal(row[0], &fn); err != nil {
					return err
				}
				key := fn + string(row[1])
				if seen[key] {
					continue
				}
				seen[key] = true
				var rawArgs []json.RawMessage
				if err := json.Unmarshal(row[1], &rawArgs); err != nil {
					return err
				}
				cs := &bitsCase{fn: fn, raw: key}
				for _, ra := range rawArgs {
					var limbs []int64
					if err := json.Unmarshal(ra, &limbs); err == nil {
						cs.args = append(cs.args, limbsToU64(limbs))
						continue
					}
					var n int64
					if err := json.Unmarshal(ra, &n); err != nil {
						return fmt.Errorf("bad argument %s", ra)
					}
					if strings.HasPrefix(fn, "RotateLeft") {
						cs.args = append(cs.args, uint64(uint32(int32(n))))
					} else {
						cs.args = append(cs.args, uint64(n))
					}
				}
				var res []int
				if err := json.Unmarshal(row[2], &res); err != nil {
					return err
				}
				switch {
				case len(res) == 1 && res[0] == -1:
					cs.want = "P:rt:runtime error: integer divide by zero"
				case len(res) == 1 && res[0] == -2:
					cs.want = "P:rt:runtime error: integer overflow"
				default:
					cs.want = outStr(res)
				}
				byFn[fn] = append(byFn[fn], cs)
				total++
			}
			return nil
		})
		if err != nil {
			c.Infra(fmt.Errorf("BitsFnScen output %s: %v", f, err))
			return false
		}
	}
	order := bitsFns(c)
	for _, fn := range order {
		if len(byFn[fn]) == 0 {
			c.Infra(fmt.Errorf("BitsFnScen emitted no case for %s", fn))
			return false
		}
	}
	if corrupt("bits") {
		byFn["Mul32"][0].want += ",1"
	}
	prog := bitsProgram(byFn, order)
	b := pool.RunBoth(c.Scratch, prog, gjs.Opts{}, 10*time.Minute, true, false)
	if b.BuildErr != nil {
		if be, ok := b.BuildErr.(*gjs.BuildError); ok && be.Panic {
			c.Report(core.Case{Keys: []string{"compiler_panic"}, Summary: "compiler internal error on the math/bits table program: " + be.Error(), Files: prog.ReplayFiles("prog")})
		} else {
			c.Infra(fmt.Errorf("gopherjs build of the math/bits table program failed: %v", b.BuildErr))
		}
		return false
	}
	if b.NativeErr != "" {
		c.Infra(fmt.Errorf("reference toolchain rejected the math/bits table program: %s", b.NativeErr))
		return false
	}
	if len(b.Native.Lines) != total || !endedOK(b.Native) {
		c.Infra(fmt.Errorf("native math/bits program printed %d lines, want %d (end=%s %s)", len(b.Native.Lines), total, b.Native.End, b.Native.Msg))
		return false
	}
	c.Add("programs", 2)
	col := newCollector()
	if len(b.JS.Lines) != total || !endedOK(b.JS) {
		col.fail(&failure{group: "bits-js-abort", keys: []string{"bits_program_aborted"},
			summary: fmt.Sprintf("the math/bits table program compiled by GopherJS printed %d lines, want %d; end=%s msg=%s", len(b.JS.Lines), total, b.JS.End, b.JS.Msg), files: prog.ReplayFiles("prog")})
		col.flush(c)
		return false
	}
	k := 0
	traces := 0
	for _, fn := range order {
		for _, cs := range byFn[fn] {
			js, nat := b.JS.Lines[k], b.Native.Lines[k]
			k++
			c.Distinct("bits/" + cs.raw)
			if nat != cs.want {
				col.discard(fmt.Sprintf("%s: specification %s, native %s", cs.call(), cs.want, nat))
				continue
			}
			traces++
			if js == cs.want {
				continue
			}
			mini := bitsProgram(map[string][]*bitsCase{fn: {cs}}, []string{fn})
			files := mini.ReplayFiles("prog")
			files["predicted.txt"] = cs.want + "\n"
			files["observed.txt"] = js + "\n"
			files["scenario.json"] = cs.raw + "\n"
			kind := "value"
			if strings.HasPrefix(cs.want, "P:") != strings.HasPrefix(js, "P:") {
				kind = "panic"
			}
			col.fail(&failure{group: "bits/" + fn + "/" + kind, keys: []string{"bits:" + fn + ":" + kind}, files: files,
				summary: fmt.Sprintf("%s = %s under GopherJS; specification and native Go: %s", cs.call(), js, cs.want)})
		}
	}
	if cs := byFn["Div32"]; len(cs) > 0 {
		m := cs[len(cs)/2]
		c.Sample(map[string]any{"part": "math/bits", "call": m.call(), "predicted": m.want})
	}
	c.Add("evaluations", total)
	c.Add("traces_validated_against_impl", traces)
	c.Add("bits_cases", total)
	col.flush(c)
	return true
}
